(* C09 - list-of-records tables: row selection by index list / mask, appending with fill values,
   stable sorting (argsort), first occurrences, pairing on index columns.  Generic, axiom free. *)
From Coq Require Import List Bool Arith Lia Permutation Sorted PeanoNat.
Import ListNotations.

Set Implicit Arguments.

(* ------------------------------------------------------------------ row selection *)
Section Take.
  Variable A : Type.

  (* numpy fancy indexing  a[ix]  for in-range indices; `d` is never used for in-range indices *)
  Definition take (d : A) (ix : list nat) (l : list A) : list A := map (fun i => nth i l d) ix.

  Lemma take_length d ix l : length (take d ix l) = length ix.
  Proof. apply map_length. Qed.

  Lemma take_nth d ix l k : k < length ix -> nth k (take d ix l) d = nth (nth k ix 0) l d.
  Proof.
    intro H. unfold take.
    rewrite nth_indep with (d' := (fun i => nth i l d) 0) by (rewrite map_length; exact H).
    exact (map_nth (fun i => nth i l d) ix 0 k).
  Qed.

  Lemma take_app d ix jx l : take d (ix ++ jx) l = take d ix l ++ take d jx l.
  Proof. apply map_app. Qed.

  Lemma take_seq_all d l : take d (seq 0 (length l)) l = l.
  Proof.
    unfold take. apply nth_ext with (d := d) (d' := d).
    - now rewrite map_length, seq_length.
    - intros n Hn. rewrite map_length, seq_length in Hn.
      rewrite nth_indep with (d' := (fun i => nth i l d) 0) by (now rewrite map_length, seq_length).
      rewrite (map_nth (fun i => nth i l d) (seq 0 (length l)) 0 n). now rewrite seq_nth.
  Qed.

  (* positions of the `true` entries of a boolean mask: numpy  a[mask] == a[nonzero(mask)] *)
  Fixpoint mask_idx_from (k : nat) (m : list bool) : list nat :=
    match m with
    | [] => []
    | b :: m' => if b then k :: mask_idx_from (S k) m' else mask_idx_from (S k) m'
    end.
  Definition mask_idx (m : list bool) : list nat := mask_idx_from 0 m.

  Definition count_true (m : list bool) : nat := length (filter (fun b => b) m).

  Lemma mask_idx_from_length k m : length (mask_idx_from k m) = count_true m.
  Proof.
    revert k. induction m as [|b m IH]; intro k; [reflexivity|].
    unfold count_true in *. destruct b; simpl; now rewrite IH.
  Qed.

  Lemma mask_idx_length m : length (mask_idx m) = count_true m.
  Proof. apply mask_idx_from_length. Qed.

  Lemma mask_idx_from_bounds k m i : In i (mask_idx_from k m) -> k <= i < k + length m.
  Proof.
    revert k. induction m as [|b m IH]; intros k H; [destruct H|].
    simpl in H. destruct b.
    - destruct H as [<-|H]; [simpl; lia|]. apply IH in H. simpl. lia.
    - apply IH in H. simpl. lia.
  Qed.

  Lemma mask_idx_in_range m i : In i (mask_idx m) -> i < length m.
  Proof. intro H. apply mask_idx_from_bounds in H. lia. Qed.

  Lemma mask_idx_from_true k m i : In i (mask_idx_from k m) <-> (k <= i /\ nth (i - k) m false = true).
  Proof.
    revert k. induction m as [|b m IH]; intro k.
    - simpl. split; [tauto|]. intros [_ H]. destruct (i - k); discriminate.
    - simpl. destruct b.
      + simpl. rewrite IH. split.
        * intros [<-|[H1 H2]]; [split; [lia|now rewrite Nat.sub_diag]|].
          split; [lia|]. replace (i - k) with (S (i - S k)) by lia. exact H2.
        * intros [H1 H2]. destruct (Nat.eq_dec k i) as [->|Hne]; [now left|right].
          split; [lia|]. replace (i - k) with (S (i - S k)) in H2 by lia. exact H2.
      + rewrite IH. split.
        * intros [H1 H2]. split; [lia|]. replace (i - k) with (S (i - S k)) by lia. exact H2.
        * intros [H1 H2]. destruct (Nat.eq_dec k i) as [->|Hne].
          { rewrite Nat.sub_diag in H2. discriminate. }
          split; [lia|]. replace (i - k) with (S (i - S k)) in H2 by lia. exact H2.
  Qed.

  (* the selected positions are exactly the true ones ... *)
  Lemma mask_idx_spec m i : In i (mask_idx m) <-> nth i m false = true.
  Proof.
    unfold mask_idx. rewrite mask_idx_from_true, Nat.sub_0_r. split; [tauto|]. intro; split; [lia|assumption].
  Qed.

  Lemma mask_idx_from_sorted k m : StronglySorted lt (mask_idx_from k m).
  Proof.
    revert k. induction m as [|b m IH]; intro k; [constructor|].
    simpl. destruct b; [|apply IH].
    constructor; [apply IH|]. apply Forall_forall. intros i Hi. apply mask_idx_from_bounds in Hi. lia.
  Qed.

  (* ... in their original order *)
  Lemma mask_idx_sorted m : StronglySorted lt (mask_idx m).
  Proof. apply mask_idx_from_sorted. Qed.
End Take.

(* Forall2 is preserved by selecting the same rows on both sides (the heart of row alignment) *)
Lemma Forall2_nth A B (R : A -> B -> Prop) l1 l2 d1 d2 i :
  Forall2 R l1 l2 -> R d1 d2 -> R (nth i l1 d1) (nth i l2 d2).
Proof.
  intros H Hd. revert i. induction H; intro i; destruct i; simpl; auto.
Qed.

Lemma Forall2_take A B (R : A -> B -> Prop) l1 l2 d1 d2 ix :
  Forall2 R l1 l2 -> R d1 d2 -> Forall2 R (take d1 ix l1) (take d2 ix l2).
Proof.
  intros H Hd. unfold take. induction ix as [|i ix IH]; simpl.
  - apply Forall2_nil.
  - apply Forall2_cons; [apply Forall2_nth; assumption|exact IH].
Qed.

Lemma Forall2_repeat_l A B (R : A -> B -> Prop) x l : (forall y, R x y) -> Forall2 R (repeat x (length l)) l.
Proof. intro H. induction l; simpl; constructor; auto. Qed.

Lemma Forall2_map_l A A' B (R : A' -> B -> Prop) (f : A -> A') l1 l2 :
  Forall2 (fun a b => R (f a) b) l1 l2 -> Forall2 R (map f l1) l2.
Proof. induction 1; simpl; constructor; auto. Qed.

Lemma Forall2_length A B (R : A -> B -> Prop) l1 l2 : Forall2 R l1 l2 -> length l1 = length l2.
Proof. induction 1; simpl; auto. Qed.

Lemma Forall2_impl A B (R R' : A -> B -> Prop) l1 l2 :
  (forall a b, R a b -> R' a b) -> Forall2 R l1 l2 -> Forall2 R' l1 l2.
Proof. intros H; induction 1; constructor; auto. Qed.

(* ------------------------------------------------------------------ stable sorting *)
Section Sort.
  Variable K : Type.
  Variable leb : K -> K -> bool.

  Definition keq (a b : K) : bool := leb a b && leb b a.

  (* insert x in front of the first element it is <= to: x came first in the input, so it stays in
     front of its equals *)
  Fixpoint insert (x : K * nat) (l : list (K * nat)) : list (K * nat) :=
    match l with
    | [] => [x]
    | y :: l' => if leb (fst x) (fst y) then x :: l else y :: insert x l'
    end.

  Definition isort (l : list (K * nat)) : list (K * nat) := fold_right insert [] l.

  Definition enumerate (keys : list K) : list (K * nat) := combine keys (seq 0 (length keys)).

  (* numpy.argsort(keys, kind="stable") *)
  Definition stable_argsort (keys : list K) : list nat := map snd (isort (enumerate keys)).

  Lemma insert_perm x l : Permutation (x :: l) (insert x l).
  Proof.
    induction l as [|y l IH]; simpl; [reflexivity|].
    destruct (leb (fst x) (fst y)); [reflexivity|].
    rewrite perm_swap. now apply perm_skip.
  Qed.

  Lemma isort_perm l : Permutation l (isort l).
  Proof.
    induction l as [|x l IH]; simpl; [reflexivity|].
    rewrite <- insert_perm. now apply perm_skip.
  Qed.

  Lemma enumerate_snd keys : map snd (enumerate keys) = seq 0 (length keys).
  Proof.
    unfold enumerate. generalize 0. induction keys as [|k keys IH]; intro s; simpl; [reflexivity|].
    now rewrite IH.
  Qed.

  Lemma enumerate_fst keys : map fst (enumerate keys) = keys.
  Proof.
    unfold enumerate. generalize 0. induction keys as [|k keys IH]; intro s; simpl; [reflexivity|].
    now rewrite IH.
  Qed.

  (* the sort index is a permutation of 0..n-1 *)
  Lemma stable_argsort_perm keys : Permutation (seq 0 (length keys)) (stable_argsort keys).
  Proof.
    unfold stable_argsort. rewrite <- enumerate_snd. apply Permutation_map, isort_perm.
  Qed.

  Lemma stable_argsort_length keys : length (stable_argsort keys) = length keys.
  Proof.
    rewrite <- (Permutation_length (stable_argsort_perm keys)). apply seq_length.
  Qed.

  Lemma stable_argsort_in_range keys i : In i (stable_argsort keys) -> i < length keys.
  Proof.
    intro H. apply (Permutation_in _ (Permutation_sym (stable_argsort_perm keys))) in H.
    apply in_seq in H. lia.
  Qed.

  Hypothesis leb_total : forall a b, leb a b = true \/ leb b a = true.
  Hypothesis leb_trans : forall a b c, leb a b = true -> leb b c = true -> leb a c = true.

  Definition le_pair (a b : K * nat) : Prop := leb (fst a) (fst b) = true.

  Lemma insert_sorted x l : StronglySorted le_pair l -> StronglySorted le_pair (insert x l).
  Proof.
    induction 1 as [|y l Hs IH Hall]; simpl; [repeat constructor|].
    destruct (leb (fst x) (fst y)) eqn:E.
    - constructor; [constructor; assumption|].
      constructor; [exact E|].
      eapply Forall_impl; [|exact Hall]. intros z Hz. unfold le_pair in *. eauto.
    - constructor; [exact IH|].
      assert (Hyx : le_pair y x).
      { unfold le_pair. destruct (leb_total (fst x) (fst y)) as [H'|H']; [congruence|exact H']. }
      apply Forall_forall. intros z Hz.
      apply (Permutation_in _ (Permutation_sym (insert_perm x l))) in Hz.
      destruct Hz as [<-|Hz]; [exact Hyx|]. rewrite Forall_forall in Hall. auto.
  Qed.

  Lemma isort_sorted l : StronglySorted le_pair (isort l).
  Proof. induction l; simpl; [constructor|now apply insert_sorted]. Qed.

  (* stability: the elements equivalent to any key k keep their relative order *)
  Definition sel (k : K) (l : list (K * nat)) := filter (fun p => keq (fst p) k) l.

  Lemma keq_trans_l a b k : keq a k = true -> keq b k = true -> leb a b = true.
  Proof.
    unfold keq. intros H1 H2. apply andb_prop in H1. apply andb_prop in H2.
    destruct H1, H2. eauto.
  Qed.

  Lemma insert_sel k x l :
    StronglySorted le_pair l ->
    sel k (insert x l) = if keq (fst x) k then x :: sel k l else sel k l.
  Proof.
    induction 1 as [|y l Hs IH Hall]; simpl; [reflexivity|].
    destruct (leb (fst x) (fst y)) eqn:E; simpl; [reflexivity|].
    rewrite IH. destruct (keq (fst x) k) eqn:Ex; [|reflexivity].
    destruct (keq (fst y) k) eqn:Ey; [|reflexivity].
    rewrite (@keq_trans_l (fst x) (fst y) k Ex Ey) in E. discriminate.
  Qed.

  Lemma isort_stable k l : sel k (isort l) = sel k l.
  Proof.
    induction l as [|x l IH]; simpl; [reflexivity|].
    rewrite insert_sel by apply isort_sorted. now rewrite IH.
  Qed.

  (* a list sorted by key is determined by its stable selections: two sorted lists in which, for every key k, the
     elements equivalent to k appear in the same order are equal (no transitivity needed) *)
  Lemma leb_refl a : leb a a = true.
  Proof. destruct (leb_total a a); assumption. Qed.

  Lemma sel_In k x l : In x (sel k l) -> In x l.
  Proof. unfold sel. intro H. apply filter_In in H. tauto. Qed.

  Lemma In_sel_self x l : In x l -> In x (sel (fst x) l).
  Proof. intro H. unfold sel. apply filter_In. split; [assumption|]. unfold keq. now rewrite leb_refl. Qed.

  Lemma sorted_stable_unique l1 : forall l2,
    StronglySorted le_pair l1 -> StronglySorted le_pair l2 ->
    (forall k, sel k l1 = sel k l2) -> l1 = l2.
  Proof.
    induction l1 as [|x l1 IH]; intros l2 S1 S2 H.
    - destruct l2 as [|y l2]; [reflexivity|].
      specialize (H (fst y)). simpl in H. unfold keq in H. rewrite leb_refl in H. simpl in H. discriminate.
    - destruct l2 as [|y l2].
      + specialize (H (fst x)). simpl in H. unfold keq in H. rewrite leb_refl in H. simpl in H. discriminate.
      + inversion S1 as [|? ? S1' F1]; subst. inversion S2 as [|? ? S2' F2]; subst.
        assert (Hxy : leb (fst x) (fst y) = true).
        { assert (Hin : In y (x :: l1)).
          { apply sel_In with (k := fst y). rewrite H. apply In_sel_self. now left. }
          destruct Hin as [<-|Hin]; [apply leb_refl|]. rewrite Forall_forall in F1. exact (F1 _ Hin). }
        assert (Hyx : leb (fst y) (fst x) = true).
        { assert (Hin : In x (y :: l2)).
          { apply sel_In with (k := fst x). rewrite <- H. apply In_sel_self. now left. }
          destruct Hin as [<-|Hin]; [apply leb_refl|]. rewrite Forall_forall in F2. exact (F2 _ Hin). }
        assert (Exy : x = y).
        { pose proof (H (fst x)) as Hk. simpl in Hk. unfold keq in Hk.
          rewrite leb_refl, Hyx, Hxy in Hk. simpl in Hk. now inversion Hk. }
        subst y. f_equal. apply IH; try assumption.
        intro k. specialize (H k). simpl in H. destruct (keq (fst x) k); [now inversion H|exact H].
  Qed.

  (* hence the stable sort is THE sorted stable rearrangement *)
  Lemma isort_unique l s :
    StronglySorted le_pair s -> (forall k, sel k s = sel k l) -> s = isort l.
  Proof.
    intros Ss Hs. apply sorted_stable_unique; [assumption|apply isort_sorted|].
    intro k. now rewrite Hs, isort_stable.
  Qed.

  (* keys read along the sort index are non-decreasing *)
  Lemma isort_keys_sorted l : StronglySorted (fun a b => leb a b = true) (map fst (isort l)).
  Proof.
    generalize (isort_sorted l). generalize (isort l). induction 1; simpl; constructor; auto.
    rewrite Forall_map. exact H0.
  Qed.
End Sort.

(* ------------------------------------------------------------------ first occurrences, pairing *)
Section Pair.
  Variable K : Type.
  Variable eqb : K -> K -> bool.
  Hypothesis eqb_eq : forall a b, eqb a b = true <-> a = b.

  Definition memb (x : K) (l : list K) : bool := existsb (eqb x) l.

  Lemma memb_In x l : memb x l = true <-> In x l.
  Proof.
    unfold memb. rewrite existsb_exists. split.
    - intros [y [Hy He]]. apply eqb_eq in He. now subst.
    - intro H. exists x. split; [assumption|]. now apply eqb_eq.
  Qed.

  (* values in order of first appearance *)
  Fixpoint uniq_first (seen l : list K) : list K :=
    match l with
    | [] => []
    | x :: l' => if memb x seen then uniq_first seen l' else x :: uniq_first (x :: seen) l'
    end.

  Lemma uniq_first_In seen l x : In x (uniq_first seen l) <-> (In x l /\ ~ In x seen).
  Proof.
    revert seen. induction l as [|y l IH]; intro seen; simpl; [tauto|].
    destruct (memb y seen) eqn:E.
    - apply memb_In in E. rewrite IH. split; [tauto|]. intros [[->|H] Hn]; tauto.
    - assert (~ In y seen) by (intro Hc; apply memb_In in Hc; congruence).
      simpl. rewrite IH. simpl. split.
      + intros [->|[H1 H2]]; [tauto|]. split; [tauto|]. tauto.
      + intros [[->|H1] H2]; [tauto|].
        destruct (eqb y x) eqn:Eyx; [apply eqb_eq in Eyx; tauto|].
        right. split; [assumption|]. intros [->|Hc]; [|tauto].
        assert (eqb x x = true) by now apply eqb_eq. congruence.
  Qed.

  Lemma uniq_first_NoDup seen l : NoDup (uniq_first seen l).
  Proof.
    revert seen. induction l as [|y l IH]; intro seen; simpl; [constructor|].
    destruct (memb y seen); [apply IH|].
    constructor; [|apply IH]. rewrite uniq_first_In. simpl. tauto.
  Qed.

  (* index of the first occurrence *)
  Fixpoint first_index (x : K) (l : list K) : nat :=
    match l with
    | [] => 0
    | y :: l' => if eqb x y then 0 else S (first_index x l')
    end.

  Lemma first_index_nth x l d : In x l -> nth (first_index x l) l d = x /\ first_index x l < length l.
  Proof.
    induction l as [|y l IH]; [intros []|].
    intro H. simpl. destruct (eqb x y) eqn:E.
    - apply eqb_eq in E. subst. split; [reflexivity|simpl; lia].
    - destruct H as [->|H].
      + assert (eqb x x = true) by now apply eqb_eq. congruence.
      + destruct (IH H). split; [assumption|simpl; lia].
  Qed.

  Lemma first_index_first x l d k : k < first_index x l -> nth k l d <> x.
  Proof.
    revert k. induction l as [|y l IH]; intros k Hk; simpl in *; [lia|].
    destruct (eqb x y) eqn:E; [lia|].
    destruct k.
    - intro Hc. symmetry in Hc. apply eqb_eq in Hc. congruence.
    - apply IH. lia.
  Qed.

  (* common values of two key columns (each once) *)
  Definition common (a b : list K) : list K := uniq_first [] (filter (fun x => memb x b) a).

  Lemma common_spec a b x : In x (common a b) <-> (In x a /\ In x b).
  Proof.
    unfold common. rewrite uniq_first_In, filter_In, memb_In. simpl. tauto.
  Qed.

  Lemma common_NoDup a b : NoDup (common a b).
  Proof. apply uniq_first_NoDup. Qed.
End Pair.
