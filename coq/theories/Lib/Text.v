(* Lib/Text.v - Python str operations on Coq [string] (one byte = one [ascii]; non-ASCII text is its UTF-8
   byte sequence as emitted by harness/emit.s, and only ASCII white space is white space).  No axioms.

   ===================================================================================== API SUMMARY
   Representation: Coq [string] everywhere ([String c r] / [""]); [len] = [String.length]; [++] = [append].

   Functions (Python counterpart)
     take n s, drop n s              s[:n], s[n:]                      (clamping)
     slice a b s                     s[a:b] for 0 <= a, b              (clamping; "" when b <= a)
     sliceZ a b s                    s[a:b] for any integers (negative = from the end, Python rules)
     is_space c                      c in " \t\n\r\x0b\x0c\x1c\x1d\x1e\x1f"   (str.isspace on ASCII)
     all_by p s / all_space s        all(p(c) for c in s)              (true on "")
     isspace s                       s.isspace()                       (false on "")
     lstrip s, rstrip s, strip s     s.lstrip(), s.rstrip(), s.strip()
     lstrip_by p, rstrip_by p, strip_by p      s.strip(chars) with p = "is one of chars"
     in_chars chars c                c in chars                        (so  strip_by (in_chars cs) = .strip(cs))
     ljust n s, rjust n s            s.ljust(n), s.rjust(n);  ljust_with c / rjust_with c  for a fill char
     spaces n, rep c n               " " * n, c * n
     startswith p s, endswith p s    s.startswith(p), s.endswith(p)
     split_ws s                      s.split()                         (runs of white space, no empty tokens)
     join sep l                      sep.join(l)     (= String.concat);   cat l = "".join(l)
     replace_char a b s              s.replace(a, b) for single characters a, b
     zfill n s                       s.zfill(n) for s without sign
     offset fs i                     sum of the lengths of the first i strings of fs
     trimmed s / ltrimmed p s / rtrimmed p s : bool     no outer white space (resp. no leading/trailing p)
     is_token s : bool               non-empty and without white space
     place a c s                     s[:a] + c + s[a+len(c):]          (overwrite columns a.. with c)

   Lemmas (the ones other files use)
     slice_app_mid      : slice (len a) (len a + len f) (a ++ f ++ b) = f
     slice_app_fields   : i < length fs -> slice (offset fs i) (offset fs (S i)) (cat fs) = nth i fs ""
     slice_app_shift    : slice (len a + x) (len a + y) (a ++ s) = slice x y s
     strip_pad          : all_space a -> all_space b -> trimmed s -> strip (a ++ s ++ b) = s
     strip_by_pad       : the same for strip_by p
     strip_ljust / strip_rjust : trimmed s -> strip (ljust n s) = s   (rjust likewise)
     strip_trimmed, trimmed_strip, strip_idem, strip_all_space
     slice_rstrip       : strip (slice a b (rstrip l)) = strip (slice a b l)
     rstrip_app_space   : all_space w -> rstrip (s ++ w) = rstrip s
     rstrip_idem, strip_rstrip : rstrip (rstrip s) = rstrip s;  strip (rstrip s) = strip s
     rstrip_decomp      : exists w, all_space w /\ s = rstrip s ++ w
     split_join         : Forall is_token l -> split_ws (join " " l) = l
     split_ws_lead      : all_space w -> split_ws (w ++ s) = split_ws s
     split_ws_tok       : is_token t -> all_space w -> w <> "" -> split_ws (t ++ w ++ s) = t :: split_ws s
     split_ws_last      : is_token t -> all_space w -> split_ws (t ++ w) = [t]
     split_ws_rstrip / split_ws_strip : split_ws (strip s) = split_ws s
     len_take, len_drop, len_slice, len_ljust, len_rjust, len_place, len_app, len_spaces, len_cat
     take_app, drop_app, take_drop, take_all, drop_all, take_app_len, drop_app_len
     slice_place_same   : a + len c <= len s -> slice a (a + len c) (place a c s) = c
     slice_place_before : y <= a -> a <= len s -> slice x y (place a c s) = slice x y s
     slice_app_left     : b <= len x -> slice a b (x ++ w) = slice a b x
     slice_place_after  : a + len c <= x -> a + len c <= len s -> slice x y (place a c s) = slice x y s
   ================================================================================================== *)
From Coq Require Import Ascii String List Bool Arith ZArith Lia.
Import ListNotations.
Local Open Scope string_scope.

Notation len := String.length.

(* ------------------------------------------------------------------------------------------ basics *)
Fixpoint take (n : nat) (s : string) : string :=
  match n, s with
  | S n', String c r => String c (take n' r)
  | _, _ => ""
  end.

Fixpoint drop (n : nat) (s : string) : string :=
  match n, s with
  | S n', String _ r => drop n' r
  | _, _ => s
  end.

Definition slice (a b : nat) (s : string) : string := take (b - a) (drop a s).

(* Python index normalisation of slice bounds *)
Definition norm_index (i : Z) (n : nat) : nat :=
  if (i <? 0)%Z then Z.to_nat (Z.max 0 (i + Z.of_nat n)) else Z.to_nat i.
Definition sliceZ (a b : Z) (s : string) : string :=
  slice (norm_index a (len s)) (norm_index b (len s)) s.

(* codes 9..13 and 28..32; written as a match on the character so that vm_compute does not build unary numbers *)
Definition is_space (c : ascii) : bool :=
  match c with
  | " " | "009" | "010" | "011" | "012" | "013" | "028" | "029" | "030" | "031" => true
  | _ => false
  end%char.

Fixpoint all_by (p : ascii -> bool) (s : string) : bool :=
  match s with "" => true | String c r => p c && all_by p r end.
Definition all_space := all_by is_space.
Definition isspace (s : string) : bool :=
  match s with "" => false | _ => all_space s end.

Fixpoint in_chars (chars : string) (c : ascii) : bool :=
  match chars with "" => false | String d r => Ascii.eqb c d || in_chars r c end.

Fixpoint lstrip_by (p : ascii -> bool) (s : string) : string :=
  match s with
  | "" => ""
  | String c r => if p c then lstrip_by p r else s
  end.

Fixpoint rstrip_by (p : ascii -> bool) (s : string) : string :=
  match s with
  | "" => ""
  | String c r => match rstrip_by p r with
                  | "" => if p c then "" else String c ""
                  | r' => String c r'
                  end
  end.

Definition strip_by p s := lstrip_by p (rstrip_by p s).
Definition lstrip := lstrip_by is_space.
Definition rstrip := rstrip_by is_space.
Definition strip := strip_by is_space.

Fixpoint rep (c : ascii) (n : nat) : string :=
  match n with 0 => "" | S n' => String c (rep c n') end.
Definition spaces := rep " "%char.
Definition ljust_with c n s := s ++ rep c (n - len s).
Definition rjust_with c n s := rep c (n - len s) ++ s.
Definition ljust := ljust_with " "%char.
Definition rjust := rjust_with " "%char.
Definition zfill n s := rjust_with "0"%char n s.

Fixpoint startswith (p s : string) : bool :=
  match p, s with
  | "", _ => true
  | String a p', String b s' => Ascii.eqb a b && startswith p' s'
  | _, _ => false
  end.
Definition endswith (p s : string) : bool :=
  (len p <=? len s)%nat && String.eqb (drop (len s - len p) s) p.

Definition cons_nonempty (t : string) (ts : list string) : list string :=
  match t with "" => ts | _ => t :: ts end.
Fixpoint split_go (s : string) : string * list string :=
  match s with
  | "" => ("", [])
  | String c r => let '(t, ts) := split_go r in
                  if is_space c then ("", cons_nonempty t ts) else (String c t, ts)
  end.
Definition split_ws (s : string) : list string :=
  let '(t, ts) := split_go s in cons_nonempty t ts.

Definition join (sep : string) (l : list string) : string := String.concat sep l.
Fixpoint cat (l : list string) : string :=
  match l with [] => "" | x :: r => x ++ cat r end.

Fixpoint replace_char (a b : ascii) (s : string) : string :=
  match s with
  | "" => ""
  | String c r => String (if Ascii.eqb c a then b else c) (replace_char a b r)
  end.

Fixpoint offset (fs : list string) (i : nat) {struct i} : nat :=
  match i, fs with
  | S i', f :: r => len f + offset r i'
  | _, _ => 0
  end.

Definition ltrimmed (p : ascii -> bool) (s : string) : bool :=
  match s with "" => true | String c _ => negb (p c) end.
Fixpoint rtrimmed (p : ascii -> bool) (s : string) : bool :=
  match s with
  | "" => true
  | String c "" => negb (p c)
  | String _ r => rtrimmed p r
  end.
Definition trimmed_by p s := ltrimmed p s && rtrimmed p s.
Definition trimmed := trimmed_by is_space.
Definition is_token (s : string) : bool :=
  match s with "" => false | _ => all_by (fun c => negb (is_space c)) s end.

Definition place (a : nat) (c s : string) : string := take a s ++ c ++ drop (a + len c) s.

(* ----------------------------------------------------------------------------------- append, length *)
Lemma app_nil_r s : s ++ "" = s.
Proof. induction s; simpl; congruence. Qed.
Lemma app_assoc a b c : (a ++ b) ++ c = a ++ b ++ c.
Proof. induction a; simpl; congruence. Qed.
Lemma len_app a b : len (a ++ b) = len a + len b.
Proof. induction a; simpl; congruence. Qed.
Lemma len_rep c n : len (rep c n) = n.
Proof. induction n; simpl; congruence. Qed.
Lemma len_spaces n : len (spaces n) = n.
Proof. apply len_rep. Qed.
Lemma len_zero s : len s = 0 -> s = "".
Proof. destruct s; simpl; congruence. Qed.
Lemma len_cat fs : len (cat fs) = offset fs (List.length fs).
Proof. induction fs; simpl; auto. rewrite len_app. congruence. Qed.

(* ------------------------------------------------------------------------------------- take / drop *)
Lemma take_0 s : take 0 s = "".
Proof. destruct s; reflexivity. Qed.
Lemma take_nil n : take n "" = "".
Proof. destruct n; reflexivity. Qed.
Lemma drop_nil n : drop n "" = "".
Proof. destruct n; reflexivity. Qed.
Lemma drop_0 s : drop 0 s = s.
Proof. destruct s; reflexivity. Qed.

Lemma len_take n s : len (take n s) = Nat.min n (len s).
Proof. revert s; induction n; intros [|c r]; simpl; auto. Qed.
Lemma len_drop n s : len (drop n s) = len s - n.
Proof. revert s; induction n; intros [|c r]; simpl; auto. Qed.
Lemma len_slice a b s : len (slice a b s) = Nat.min (b - a) (len s - a).
Proof. unfold slice. rewrite len_take, len_drop. reflexivity. Qed.

Lemma take_drop n s : take n s ++ drop n s = s.
Proof. revert s; induction n; intros [|c r]; simpl; auto. rewrite IHn. reflexivity. Qed.
Lemma take_all n s : len s <= n -> take n s = s.
Proof. revert s; induction n; intros [|c r]; simpl; intros; auto; try lia. rewrite IHn; auto; lia. Qed.
Lemma drop_all n s : len s <= n -> drop n s = "".
Proof. revert s; induction n; intros [|c r]; simpl; intros; auto; try lia. apply IHn; lia. Qed.

Lemma take_app n x w : take n (x ++ w) = take n x ++ take (n - len x) w.
Proof.
  revert x; induction n; intros [|c r]; simpl; try reflexivity.
  rewrite IHn. reflexivity.
Qed.
Lemma drop_app n x w : drop n (x ++ w) = drop n x ++ drop (n - len x) w.
Proof.
  revert x; induction n; intros [|c r]; simpl; auto.
Qed.
Lemma take_app_len a b : take (len a) (a ++ b) = a.
Proof. rewrite take_app, Nat.sub_diag, take_0, app_nil_r. apply take_all; lia. Qed.
Lemma drop_app_len a b : drop (len a) (a ++ b) = b.
Proof. rewrite drop_app, Nat.sub_diag, drop_0, drop_all; auto. Qed.
Lemma drop_app_len_plus a b n : drop (len a + n) (a ++ b) = drop n b.
Proof. rewrite drop_app, drop_all by lia. simpl. f_equal. lia. Qed.
Lemma take_app_len_plus a b n : take (len a + n) (a ++ b) = a ++ take n b.
Proof. rewrite take_app, take_all by lia. do 2 f_equal. lia. Qed.
Lemma drop_drop a b s : drop a (drop b s) = drop (b + a) s.
Proof.
  revert s; induction b; intros s; simpl; auto.
  destruct s; simpl; auto. apply drop_nil.
Qed.
Lemma take_take a b s : take a (take b s) = take (Nat.min a b) s.
Proof.
  revert b s; induction a; intros [|b] [|c r]; simpl; auto. rewrite IHa. reflexivity.
Qed.

(* ------------------------------------------------------------------------------------------- slice *)
Lemma slice_app_shift a x y s : slice (len a + x) (len a + y) (a ++ s) = slice x y s.
Proof. unfold slice. rewrite drop_app_len_plus. f_equal. lia. Qed.
Lemma slice_0_len f b : slice 0 (len f) (f ++ b) = f.
Proof. unfold slice. rewrite drop_0, Nat.sub_0_r. apply take_app_len. Qed.
Lemma slice_app_mid a f b : slice (len a) (len a + len f) (a ++ f ++ b) = f.
Proof.
  replace (len a) with (len a + 0) at 1 by lia.
  rewrite slice_app_shift. apply slice_0_len.
Qed.
Lemma slice_app_fields fs i :
  i < List.length fs -> slice (offset fs i) (offset fs (S i)) (cat fs) = nth i fs "".
Proof.
  revert i; induction fs as [|f r IH]; intros i Hi; simpl in Hi; [lia|].
  destruct i as [|i].
  - simpl. replace (len f + 0) with (len f) by lia. apply slice_0_len.
  - change (offset (f :: r) (S i)) with (len f + offset r i).
    change (offset (f :: r) (S (S i))) with (len f + offset r (S i)).
    simpl cat. rewrite slice_app_shift. simpl nth. apply IH. lia.
Qed.
Lemma slice_nil a b : slice a b "" = "".
Proof. unfold slice. rewrite drop_nil, take_nil. reflexivity. Qed.
Lemma slice_empty a b s : b <= a -> slice a b s = "".
Proof. intros. unfold slice. replace (b - a) with 0 by lia. apply take_0. Qed.
Lemma slice_beyond a b s : len s <= a -> slice a b s = "".
Proof. intros. unfold slice. rewrite drop_all by lia. apply take_nil. Qed.
Lemma slice_app a b x w :
  slice a b (x ++ w) = slice a b x ++ take (b - a - len (drop a x)) (drop (a - len x) w).
Proof. unfold slice. rewrite drop_app, take_app. reflexivity. Qed.

(* --------------------------------------------------------------------------------------- all_by *)
Lemma all_by_app p a b : all_by p (a ++ b) = all_by p a && all_by p b.
Proof. induction a; simpl; auto. rewrite IHa, andb_assoc. reflexivity. Qed.
Lemma all_by_take p n s : all_by p s = true -> all_by p (take n s) = true.
Proof.
  revert s; induction n; intros [|c r]; simpl; auto.
  intros H; apply andb_true_iff in H as [H1 H2]. rewrite H1; simpl; auto.
Qed.
Lemma all_by_drop p n s : all_by p s = true -> all_by p (drop n s) = true.
Proof.
  revert s; induction n; intros [|c r]; simpl; auto.
  intros H; apply andb_true_iff in H as [H1 H2]. auto.
Qed.
Lemma all_by_rep p c n : p c = true -> all_by p (rep c n) = true.
Proof. intros H; induction n; simpl; auto. rewrite H; auto. Qed.
Lemma all_space_spaces n : all_space (spaces n) = true.
Proof. apply all_by_rep. reflexivity. Qed.

(* ------------------------------------------------------------------------------------------ strip *)
Lemma lstrip_by_app_all p w s : all_by p w = true -> lstrip_by p (w ++ s) = lstrip_by p s.
Proof.
  induction w; simpl; auto. intros H; apply andb_true_iff in H as [H1 H2]. rewrite H1. auto.
Qed.
Lemma lstrip_by_ltrimmed p s : ltrimmed p s = true -> lstrip_by p s = s.
Proof. destruct s; simpl; auto. intros H. apply negb_true_iff in H. rewrite H. reflexivity. Qed.
Lemma rstrip_by_all p w : all_by p w = true -> rstrip_by p w = "".
Proof.
  induction w; simpl; auto. intros H; apply andb_true_iff in H as [H1 H2].
  rewrite IHw, H1; auto.
Qed.
Lemma rstrip_by_app_all p s w : all_by p w = true -> rstrip_by p (s ++ w) = rstrip_by p s.
Proof.
  intros H. induction s; simpl.
  - apply rstrip_by_all; auto.
  - rewrite IHs. reflexivity.
Qed.
Lemma rstrip_by_rtrimmed p s : rtrimmed p s = true -> rstrip_by p s = s.
Proof.
  induction s as [|c r IH]; auto. intros H. simpl.
  destruct r as [|d r'].
  - simpl in *. apply negb_true_iff in H. rewrite H. reflexivity.
  - rewrite IH by exact H. reflexivity.
Qed.
Lemma rtrimmed_app p a s : s <> "" -> rtrimmed p s = true -> rtrimmed p (a ++ s) = true.
Proof.
  intros Hn H. induction a as [|c a IH]; simpl; auto.
  destruct (a ++ s) eqn:E; auto.
  destruct a; simpl in E; congruence.
Qed.
Lemma rtrimmed_rstrip_by p s : rtrimmed p (rstrip_by p s) = true.
Proof.
  induction s as [|c r IH]; simpl; auto.
  destruct (rstrip_by p r) as [|d r'] eqn:E.
  - destruct (p c) eqn:Ec; simpl; auto. rewrite Ec; auto.
  - exact IH.
Qed.
Lemma ltrimmed_lstrip_by p s : ltrimmed p (lstrip_by p s) = true.
Proof.
  induction s as [|c r IH]; simpl; auto.
  destruct (p c) eqn:E; auto. simpl. rewrite E. reflexivity.
Qed.
Lemma rstrip_by_decomp p s : exists w, all_by p w = true /\ s = rstrip_by p s ++ w.
Proof.
  induction s as [|c r [w [Hw IH]]]; simpl.
  - exists "". auto.
  - destruct (rstrip_by p r) as [|d r'] eqn:E.
    + destruct (p c) eqn:Ec.
      * exists (String c r). split; auto. simpl. rewrite Ec. simpl in IH. rewrite IH. exact Hw.
      * exists w. split; auto. simpl in *. congruence.
    + exists w. split; auto. simpl in *. congruence.
Qed.
Lemma rtrimmed_lstrip_by p s : rtrimmed p s = true -> rtrimmed p (lstrip_by p s) = true.
Proof.
  induction s as [|c r IH]; auto. intros H.
  cbn [lstrip_by]. destruct (p c) eqn:E; auto.
  destruct r as [|d r']; auto.
Qed.

Lemma strip_by_pad p a s b :
  all_by p a = true -> all_by p b = true -> trimmed_by p s = true -> strip_by p (a ++ s ++ b) = s.
Proof.
  intros Ha Hb Ht. apply andb_true_iff in Ht as [Hl Hr]. unfold strip_by.
  rewrite <- app_assoc, rstrip_by_app_all by auto.
  destruct s as [|c r].
  - rewrite app_nil_r, rstrip_by_all by auto. reflexivity.
  - rewrite rstrip_by_rtrimmed by (apply rtrimmed_app; [discriminate|auto]).
    rewrite lstrip_by_app_all by auto. apply lstrip_by_ltrimmed; auto.
Qed.
Lemma strip_pad a s b :
  all_space a = true -> all_space b = true -> trimmed s = true -> strip (a ++ s ++ b) = s.
Proof. apply strip_by_pad. Qed.
Lemma strip_trimmed s : trimmed s = true -> strip s = s.
Proof.
  intros H. generalize (strip_pad "" s "" eq_refl eq_refl H). simpl. rewrite app_nil_r. auto.
Qed.
Lemma trimmed_strip s : trimmed (strip s) = true.
Proof.
  unfold trimmed, trimmed_by, strip, strip_by. rewrite ltrimmed_lstrip_by. simpl.
  apply rtrimmed_lstrip_by, rtrimmed_rstrip_by.
Qed.
Lemma strip_idem s : strip (strip s) = strip s.
Proof. apply strip_trimmed, trimmed_strip. Qed.
Lemma strip_all_space w : all_space w = true -> strip w = "".
Proof. intros H. unfold strip, strip_by. rewrite rstrip_by_all; auto. Qed.
Lemma strip_ljust n s : trimmed s = true -> strip (ljust n s) = s.
Proof.
  intros H. unfold ljust, ljust_with.
  generalize (strip_pad "" s (spaces (n - len s)) eq_refl (all_space_spaces _) H). auto.
Qed.
Lemma strip_rjust n s : trimmed s = true -> strip (rjust n s) = s.
Proof.
  intros H. unfold rjust, rjust_with.
  generalize (strip_pad (spaces (n - len s)) s "" (all_space_spaces _) eq_refl H).
  rewrite app_nil_r. auto.
Qed.
Lemma len_ljust_with c n s : len s <= n -> len (ljust_with c n s) = n.
Proof. intros. unfold ljust_with. rewrite len_app, len_rep. lia. Qed.
Lemma len_rjust_with c n s : len s <= n -> len (rjust_with c n s) = n.
Proof. intros. unfold rjust_with. rewrite len_app, len_rep. lia. Qed.
Lemma len_ljust n s : len s <= n -> len (ljust n s) = n.
Proof. apply len_ljust_with. Qed.
Lemma len_rjust n s : len s <= n -> len (rjust n s) = n.
Proof. apply len_rjust_with. Qed.

Lemma rstrip_app_space s w : all_space w = true -> rstrip (s ++ w) = rstrip s.
Proof. apply rstrip_by_app_all. Qed.
Lemma rstrip_decomp s : exists w, all_space w = true /\ s = rstrip s ++ w.
Proof. apply rstrip_by_decomp. Qed.
Lemma strip_app_space s w : all_space w = true -> strip (s ++ w) = strip s.
Proof. intros. unfold strip, strip_by. rewrite rstrip_by_app_all; auto. Qed.

Lemma rstrip_idem s : rstrip (rstrip s) = rstrip s.
Proof. apply rstrip_by_rtrimmed, rtrimmed_rstrip_by. Qed.
Lemma strip_rstrip s : strip (rstrip s) = strip s.
Proof. unfold strip, strip_by. fold rstrip. rewrite rstrip_idem. reflexivity. Qed.

(* slicing a right-stripped line, then stripping = stripping the slice of the unstripped line
   (ChainParser.read_data passes line.rstrip() to parse_line) *)
Lemma slice_rstrip a b l : strip (slice a b (rstrip l)) = strip (slice a b l).
Proof.
  destruct (rstrip_decomp l) as [w [Hw E]].
  rewrite E at 2. rewrite slice_app. symmetry. apply strip_app_space.
  apply all_by_take, all_by_drop, Hw.
Qed.

(* ------------------------------------------------------------------------------------------ split *)
Lemma split_go_nonspace t s :
  all_by (fun c => negb (is_space c)) t = true ->
  split_go (t ++ s) = (t ++ fst (split_go s), snd (split_go s)).
Proof.
  induction t as [|c t IH]; simpl.
  - destruct (split_go s); reflexivity.
  - intros H; apply andb_true_iff in H as [H1 H2]. rewrite IH by auto.
    apply negb_true_iff in H1. rewrite H1. reflexivity.
Qed.
Lemma split_ws_lead w s : all_space w = true -> split_ws (w ++ s) = split_ws s.
Proof.
  induction w as [|c w IH]; simpl; auto.
  intros H; apply andb_true_iff in H as [H1 H2]. specialize (IH H2).
  unfold split_ws in *. simpl. destruct (split_go (w ++ s)) as [t ts]. rewrite H1. simpl. exact IH.
Qed.
Lemma split_go_space w s :
  all_space w = true -> w <> "" -> split_go (w ++ s) = ("", split_ws s).
Proof.
  destruct w as [|c w]; [congruence|]. simpl. intros H _; apply andb_true_iff in H as [H1 H2].
  generalize (split_ws_lead w s H2). unfold split_ws.
  destruct (split_go (w ++ s)) as [t ts]. rewrite H1. intros ->. reflexivity.
Qed.
Lemma is_token_inv t : is_token t = true -> t <> "" /\ all_by (fun c => negb (is_space c)) t = true.
Proof. destruct t; simpl; [discriminate|]. intros H; split; [discriminate|exact H]. Qed.
Lemma cons_nonempty_app t u ts : t <> "" -> cons_nonempty (t ++ u) ts = (t ++ u) :: ts.
Proof. destruct t; [congruence|]. reflexivity. Qed.
Lemma split_ws_tok t w s :
  is_token t = true -> all_space w = true -> w <> "" -> split_ws (t ++ w ++ s) = t :: split_ws s.
Proof.
  intros Ht Hw Hn. apply is_token_inv in Ht as [Hne Ht].
  unfold split_ws at 1. rewrite split_go_nonspace by auto.
  rewrite split_go_space by auto. simpl. rewrite cons_nonempty_app by auto. rewrite app_nil_r. reflexivity.
Qed.
Lemma split_ws_last t w : is_token t = true -> all_space w = true -> split_ws (t ++ w) = [t].
Proof.
  intros Ht Hw. destruct w as [|c w].
  - apply is_token_inv in Ht as [Hne Ht]. unfold split_ws. rewrite split_go_nonspace by auto. simpl.
    rewrite cons_nonempty_app by auto. rewrite app_nil_r. reflexivity.
  - generalize (split_ws_tok t (String c w) "" Ht Hw). rewrite app_nil_r. intros ->; [reflexivity|discriminate].
Qed.
Lemma split_ws_all_space w : all_space w = true -> split_ws w = [].
Proof. intros H. generalize (split_ws_lead w "" H). rewrite app_nil_r. auto. Qed.
Lemma split_go_all_space w : all_space w = true -> split_go w = ("", []).
Proof.
  induction w as [|c w IH]; simpl; auto.
  intros H; apply andb_true_iff in H as [H1 H2]. rewrite IH, H1 by auto. reflexivity.
Qed.
Lemma split_go_app_space s w : all_space w = true -> split_go (s ++ w) = split_go s.
Proof.
  intros Hw. induction s as [|c s IH]; simpl.
  - apply split_go_all_space; auto.
  - rewrite IH. reflexivity.
Qed.
Lemma split_ws_app_space s w : all_space w = true -> split_ws (s ++ w) = split_ws s.
Proof. intros Hw. unfold split_ws. rewrite split_go_app_space; auto. Qed.
Lemma split_ws_rstrip s : split_ws (rstrip s) = split_ws s.
Proof.
  destruct (rstrip_decomp s) as [w [Hw E]]. rewrite E at 2. symmetry. apply split_ws_app_space; auto.
Qed.
Lemma lstrip_decomp s : exists w, all_space w = true /\ s = w ++ lstrip s.
Proof.
  induction s as [|c r [w [Hw IH]]]; simpl.
  - exists "". auto.
  - unfold lstrip in *. simpl. destruct (is_space c) eqn:E.
    + exists (String c w). simpl. unfold all_space in *. simpl. rewrite E, Hw. split; auto. congruence.
    + exists "". auto.
Qed.
Lemma split_ws_lstrip s : split_ws (lstrip s) = split_ws s.
Proof.
  destruct (lstrip_decomp s) as [w [Hw E]]. rewrite E at 2. symmetry. apply split_ws_lead; auto.
Qed.
Lemma split_ws_strip s : split_ws (strip s) = split_ws s.
Proof. unfold strip, strip_by. fold lstrip. rewrite split_ws_lstrip. apply split_ws_rstrip. Qed.

Lemma split_join l : Forall (fun t => is_token t = true) l -> split_ws (join " " l) = l.
Proof.
  induction 1 as [|t r Ht Hr IH]; auto.
  destruct r as [|t' r'].
  - simpl. generalize (split_ws_last t "" Ht eq_refl). rewrite app_nil_r. auto.
  - change (join " " (t :: t' :: r')) with (t ++ " " ++ join " " (t' :: r')).
    rewrite split_ws_tok; auto; [|discriminate]. rewrite IH. reflexivity.
Qed.

(* ------------------------------------------------------------------------------------------ place *)
Lemma len_place a c s : a + len c <= len s -> len (place a c s) = len s.
Proof. intros. unfold place. rewrite !len_app, len_take, len_drop. lia. Qed.
Lemma slice_place_same a c s : a + len c <= len s -> slice a (a + len c) (place a c s) = c.
Proof.
  intros H. unfold place.
  assert (E : len (take a s) = a) by (rewrite len_take; lia).
  rewrite <- E at 1 2. apply slice_app_mid.
Qed.
Lemma slice_app_left a b x w : b <= len x -> slice a b (x ++ w) = slice a b x.
Proof.
  intros H. rewrite slice_app, len_drop. replace (b - a - (len x - a)) with 0 by lia.
  rewrite take_0. apply app_nil_r.
Qed.
Lemma slice_place_before x y a c s : y <= a -> a <= len s -> slice x y (place a c s) = slice x y s.
Proof.
  intros H Ha. unfold place.
  assert (E : len (take a s) = a) by (rewrite len_take; lia).
  rewrite slice_app_left by lia.
  rewrite <- (take_drop a s) at 2. rewrite slice_app_left by lia. reflexivity.
Qed.
Lemma slice_place_after x y a c s :
  a + len c <= x -> a + len c <= len s -> slice x y (place a c s) = slice x y s.
Proof.
  intros H Hs. unfold place, slice. f_equal.
  assert (E : len (take a s) = a) by (rewrite len_take; lia).
  rewrite <- app_assoc.
  replace x with (len (take a s ++ c) + (x - (a + len c))) at 1 by (rewrite len_app, E; lia).
  rewrite drop_app_len_plus, drop_drop. f_equal. lia.
Qed.

(* --------------------------------------------------------------------------------- small utilities *)
Lemma startswith_app p s : startswith p (p ++ s) = true.
Proof. induction p; simpl; auto. rewrite Ascii.eqb_refl. auto. Qed.
Lemma replace_char_len a b s : len (replace_char a b s) = len s.
Proof. induction s; simpl; congruence. Qed.
Lemma trimmed_token t : is_token t = true -> trimmed t = true.
Proof.
  intros H. apply is_token_inv in H as [Hn H]. unfold trimmed, trimmed_by.
  apply andb_true_iff; split.
  - destruct t; simpl in *; auto. apply andb_true_iff in H as [H _]. exact H.
  - clear Hn. induction t as [|c r IH]; auto. simpl in H. apply andb_true_iff in H as [H1 H2].
    simpl. destruct r; auto.
Qed.
