(* Lib/Ival.v -- real-number expressions with rigorous interval evaluation (owner: C06 builder; others only import).

   API
   ---
   F, I                      Coq-Interval instantiated on BigZ radix-2 floats:  F := SpecificFloat BigIntRadix2,
                             I := FloatIntervalFull F.       p80 := F.PtoP 80 (a good default precision), p128 := F.PtoP 128
                             (use it when sin/cos of doubles next to multiples of PI/2 must be known to relative 1e-12:
                             the absolute accuracy of ESin/ECos is about |x| * 2^-prec).
   sin_I p x                 I.sin intersected with cos(x - PI/2) (I.sin alone loses half the digits next to k*PI); ESin uses it.
   containsR (i : I.type) (x : R)            the interval i contains the real x   (I.nai contains everything)
   dyQ d : Q, dyR d : R      exact value of a finite double (Lib/Dyadic `Dy m e`, `DZero`);  0 for inf/nan (never used:
                             every check fails on non-finite doubles).   dy_toQ_dyR : dy_toQ d = Some v -> Q2R v = dyR d
   I_ofZ, I_ofQ, I_ofdy      point enclosures (exact for doubles at precision >= 53)  + `_contains` lemmas
   rexpr                     EZ z | EQ q | EDy d | EVar n | EPi | EAdd | ESub | EMul | EDiv | ENeg | EAbs | ESqr | ESqrt
                             | ESin | ECos | EAtan | EAsin | EAcos | EAtan2 y x | ELet a b
                             (ELet a b: b sees the value of a as variable 0, the other variables shifted by one)
   eval_R : (nat -> R) -> rexpr -> R           standard-library meaning (x/0 = x * /0, sqrt of a negative = 0, Ratan.asin/acos,
                                               Atan2.atan2)
   eval_I : prec -> (nat -> I.type) -> rexpr -> I.type
   eval_I_contains : (forall n, containsR (rI n) (r n)) -> containsR (eval_I p rI e) (eval_R r e)
        Division by an interval containing 0 gives I.nai; asin/acos of an interval not strictly inside (-1,1) gives I.nai;
        atan2 with both signs undetermined gives I.nai; sqrt of an interval reaching below 0 gives a lower bound NaN.
        Every check below fails on such enclosures (they are never "vacuously true").
   env_R (l : list R), env_I (l : list I.type), env_dy p (l : list dy), env_dy_contains
   stage_I p envI es / stage_R envR es : append the values of the expressions es to the environment (sharing of
                             sub-results between stages);  stage_contains : Forall2 containsR is preserved;  env_dy_Forall2
   atan2_I p yI xI           interval atan2 by sign cases (on the branch cut x<0, y of unknown sign: the hull of both branches)
   check_closeI p tol J d  : bool    |v - d| <= tol for every real v in J      (check_closeI_sound)
   check_close  p tol e rI d  : bool          check_close_sound :
        (forall n, containsR (rI n) (r n)) -> check_close p tol e rI d = true -> Rabs (eval_R r e - dyR d) <= Q2R tol
   check_close_rel p rel abs e rI d           tolerance rel*|d| + abs       (check_close_rel_sound)
   check_le p a b rI / check_lt               eval a <= eval b  (resp. <) certified on the enclosures  (+ _sound)
   check_close_mod2pi p tol e rI d            |eval e - d - 2 k PI| <= tol for some k in {-1,0,1}  (angles next to the cut)
   Axioms: the standard library's real-number axioms (+ what Coq-Interval's correctness lemmas use). *)
From Coq Require Import Reals ZArith QArith Qabs Qreals Lra List Bool.
From Interval Require Import Specific_bigint Specific_ops Float_full Interval Xreal Basic.
From Verif Require Import Lib.Dyadic Lib.Atan2.
Import ListNotations.

Module F := SpecificFloat BigIntRadix2.
Module I := FloatIntervalFull F.

Definition prec := F.precision.
Definition p80 : prec := F.PtoP 80.
Definition p128 : prec := F.PtoP 128.

Definition containsR (i : I.type) (x : R) : Prop := contains (I.convert i) (Xreal x).

(* ---------------------------------------------------------------- exact doubles *)
Definition dyQ (d : dy) : Q :=
  match d with
  | Dy m e => (inject_Z m * pow2Q e)%Q
  | _ => 0%Q
  end.

Definition dyR (d : dy) : R := Q2R (dyQ d).

Lemma dy_toQ_dyR d v : dy_toQ d = Some v -> Q2R v = dyR d.
Proof.
  destruct d as [m e|s|s|]; try discriminate.
  - change (Some (Qred (inject_Z m * pow2Q e)) = Some v -> Q2R v = Q2R (inject_Z m * pow2Q e)).
    intros H. assert (E : v = Qred (inject_Z m * pow2Q e)) by congruence.
    rewrite E. apply Qeq_eqR. apply Qred_correct.
  - change (Some 0%Q = Some v -> Q2R v = Q2R 0). intros H.
    assert (E : v = 0%Q) by congruence. rewrite E. reflexivity.
Qed.

(* ---------------------------------------------------------------- basic containment facts *)
Lemma contains_nan_all i : contains i Xnan -> forall v, contains i v.
Proof. intros H v. apply contains_Xnan in H. subst i. exact Logic.I. Qed.

Lemma nai_containsR x : containsR I.nai x.
Proof. unfold containsR. rewrite I.nai_correct. exact Logic.I. Qed.

Lemma add_containsR p a b x y : containsR a x -> containsR b y -> containsR (I.add p a b) (x + y).
Proof. intros Ha Hb. exact (I.add_correct p a b (Xreal x) (Xreal y) Ha Hb). Qed.
Lemma sub_containsR p a b x y : containsR a x -> containsR b y -> containsR (I.sub p a b) (x - y).
Proof. intros Ha Hb. exact (I.sub_correct p a b (Xreal x) (Xreal y) Ha Hb). Qed.
Lemma mul_containsR p a b x y : containsR a x -> containsR b y -> containsR (I.mul p a b) (x * y).
Proof. intros Ha Hb. exact (I.mul_correct p a b (Xreal x) (Xreal y) Ha Hb). Qed.
Lemma div_containsR p a b x y : containsR a x -> containsR b y -> containsR (I.div p a b) (x / y).
Proof.
  intros Ha Hb. pose proof (I.div_correct p a b (Xreal x) (Xreal y) Ha Hb) as H.
  simpl in H. unfold Xdiv' in H. destruct (is_zero y).
  - apply contains_nan_all. exact H.
  - exact H.
Qed.
Lemma neg_containsR a x : containsR a x -> containsR (I.neg a) (- x).
Proof. intros Ha. exact (I.neg_correct a (Xreal x) Ha). Qed.
Lemma abs_containsR a x : containsR a x -> containsR (I.abs a) (Rabs x).
Proof. intros Ha. exact (I.abs_correct a (Xreal x) Ha). Qed.
Lemma sqr_containsR p a x : containsR a x -> containsR (I.sqr p a) (Rsqr x).
Proof. intros Ha. exact (I.sqr_correct p a (Xreal x) Ha). Qed.
Lemma sqrt_containsR p a x : containsR a x -> containsR (I.sqrt p a) (sqrt x).
Proof. intros Ha. exact (I.sqrt_correct p a (Xreal x) Ha). Qed.
Lemma sin_containsR p a x : containsR a x -> containsR (I.sin p a) (sin x).
Proof. intros Ha. exact (I.sin_correct p a (Xreal x) Ha). Qed.
Lemma cos_containsR p a x : containsR a x -> containsR (I.cos p a) (cos x).
Proof. intros Ha. exact (I.cos_correct p a (Xreal x) Ha). Qed.
Lemma atan_containsR p a x : containsR a x -> containsR (I.atan p a) (atan x).
Proof. intros Ha. exact (I.atan_correct p a (Xreal x) Ha). Qed.
Lemma pi_containsR p : containsR (I.pi p) PI.
Proof. exact (I.pi_correct p). Qed.

Lemma sign_strict_gt i x : I.sign_strict i = Xgt -> containsR i x -> 0 < x.
Proof.
  intros Hs Hc. pose proof (I.sign_strict_correct i) as H. rewrite Hs in H.
  destruct (H (Xreal x) Hc) as [_ H2]. exact H2.
Qed.
Lemma sign_strict_lt i x : I.sign_strict i = Xlt -> containsR i x -> x < 0.
Proof.
  intros Hs Hc. pose proof (I.sign_strict_correct i) as H. rewrite Hs in H.
  destruct (H (Xreal x) Hc) as [_ H2]. exact H2.
Qed.
Lemma sign_large_gt i x : I.sign_large i = Xgt -> containsR i x -> 0 <= x.
Proof.
  intros Hs Hc. pose proof (I.sign_large_correct i) as H. rewrite Hs in H.
  destruct (H (Xreal x) Hc) as [_ H2]. exact H2.
Qed.
Lemma sign_large_lt i x : I.sign_large i = Xlt -> containsR i x -> x <= 0.
Proof.
  intros Hs Hc. pose proof (I.sign_large_correct i) as H. rewrite Hs in H.
  destruct (H (Xreal x) Hc) as [_ H2]. exact H2.
Qed.
Lemma sign_large_eq i x : I.sign_large i = Xeq -> containsR i x -> x = 0.
Proof.
  intros Hs Hc. pose proof (I.sign_large_correct i) as H. rewrite Hs in H.
  pose proof (H (Xreal x) Hc) as H2. inversion H2. reflexivity.
Qed.

(* certified sign tests (false when undetermined or NaI) *)
Definition I_nonneg (i : I.type) : bool :=
  match I.sign_large i with Xgt | Xeq => true | _ => false end.
Definition I_pos (i : I.type) : bool :=
  match I.sign_strict i with Xgt => true | _ => false end.
Definition I_neg (i : I.type) : bool :=
  match I.sign_strict i with Xlt => true | _ => false end.

Lemma I_nonneg_sound i x : I_nonneg i = true -> containsR i x -> 0 <= x.
Proof.
  unfold I_nonneg. destruct (I.sign_large i) eqn:E; try discriminate; intros _ Hc.
  - rewrite (sign_large_eq i x E Hc). lra.
  - exact (sign_large_gt i x E Hc).
Qed.
Lemma I_pos_sound i x : I_pos i = true -> containsR i x -> 0 < x.
Proof.
  unfold I_pos. destruct (I.sign_strict i) eqn:E; try discriminate; intros _ Hc.
  exact (sign_strict_gt i x E Hc).
Qed.
Lemma I_neg_sound i x : I_neg i = true -> containsR i x -> x < 0.
Proof.
  unfold I_neg. destruct (I.sign_strict i) eqn:E; try discriminate; intros _ Hc.
  exact (sign_strict_lt i x E Hc).
Qed.

(* sine with good absolute accuracy next to its zeros: Interval's I.sin goes through sqrt(1 - cos^2) outside the first
   quadrant and loses half of the digits next to multiples of PI; cos(x - PI/2) does not.  Both enclosures are intersected. *)
Definition sin_I (p : prec) (x : I.type) : I.type :=
  I.meet (I.sin p x) (I.cos p (I.sub p x (I.div p (I.pi p) (I.fromZ p 2)))).

Lemma sin_I_contains p a x : containsR a x -> containsR (sin_I p a) (sin x).
Proof.
  intros Ha. unfold sin_I. apply I.meet_correct.
  - apply sin_containsR. exact Ha.
  - replace (sin x) with (cos (x - PI / 2)).
    + apply cos_containsR, sub_containsR; [exact Ha|].
      apply div_containsR; [apply pi_containsR | apply (I.fromZ_correct p 2)].
    + rewrite <- (cos_neg (x - PI / 2)). replace (- (x - PI / 2)) with (PI / 2 - x) by lra.
      apply cos_shift.
Qed.

(* ---------------------------------------------------------------- point enclosures *)
Definition I_ofZ (p : prec) (z : Z) : I.type := I.fromZ p z.
Definition I_ofQ (p : prec) (q : Q) : I.type :=
  match Qden q with
  | xH => I.fromZ p (Qnum q)
  | d => I.div p (I.fromZ p (Qnum q)) (I.fromZ p (Zpos d))
  end.
Definition I_ofdy (p : prec) (d : dy) : I.type :=
  if is_finite d then I_ofQ p (dyQ d) else I.nai.

Lemma I_ofZ_contains p z : containsR (I_ofZ p z) (IZR z).
Proof. exact (I.fromZ_correct p z). Qed.

Lemma I_ofQ_contains p q : containsR (I_ofQ p q) (Q2R q).
Proof.
  assert (G : containsR (I.div p (I.fromZ p (Qnum q)) (I.fromZ p (Zpos (Qden q)))) (Q2R q)).
  { unfold Q2R. apply div_containsR; apply I.fromZ_correct. }
  unfold I_ofQ. destruct (Qden q) eqn:E; try exact G.
  unfold Q2R. rewrite E. rewrite Rinv_1, Rmult_1_r. apply I.fromZ_correct.
Qed.

Lemma I_ofdy_contains p d : containsR (I_ofdy p d) (dyR d).
Proof.
  unfold I_ofdy. destruct (is_finite d); [apply I_ofQ_contains | apply nai_containsR].
Qed.

(* ---------------------------------------------------------------- asin / acos / atan2 on intervals *)
Definition asin_I (p : prec) (x : I.type) : I.type :=
  let d := I.sub p (I.fromZ p 1) (I.sqr p x) in
  if I_pos d then I.atan p (I.div p x (I.sqrt p d)) else I.nai.

Definition acos_I (p : prec) (x : I.type) : I.type :=
  I.sub p (I.div p (I.pi p) (I.fromZ p 2)) (asin_I p x).

Lemma sqr_lt_1 x : 0 < 1 - Rsqr x -> -1 < x < 1.
Proof. unfold Rsqr. intros H. split; nra. Qed.

Lemma asin_I_contains p a x : containsR a x -> containsR (asin_I p a) (asin x).
Proof.
  intros Ha. unfold asin_I.
  destruct (I_pos (I.sub p (I.fromZ p 1) (I.sqr p a))) eqn:E; [|apply nai_containsR].
  assert (Hd : containsR (I.sub p (I.fromZ p 1) (I.sqr p a)) (1 - Rsqr x)).
  { apply sub_containsR; [apply (I.fromZ_correct p 1) | apply sqr_containsR; exact Ha]. }
  pose proof (I_pos_sound _ _ E Hd) as Hpos.
  rewrite asin_atan by (apply sqr_lt_1; exact Hpos).
  apply atan_containsR, div_containsR; [exact Ha | apply sqrt_containsR; exact Hd].
Qed.

Lemma half_pi_containsR p : containsR (I.div p (I.pi p) (I.fromZ p 2)) (PI / 2).
Proof. apply div_containsR; [apply pi_containsR | apply (I.fromZ_correct p 2)]. Qed.

Lemma acos_I_contains p a x : containsR a x -> containsR (acos_I p a) (acos x).
Proof.
  intros Ha. unfold acos_I, asin_I.
  destruct (I_pos (I.sub p (I.fromZ p 1) (I.sqr p a))) eqn:E.
  - assert (Hd : containsR (I.sub p (I.fromZ p 1) (I.sqr p a)) (1 - Rsqr x)).
    { apply sub_containsR; [apply (I.fromZ_correct p 1) | apply sqr_containsR; exact Ha]. }
    pose proof (I_pos_sound _ _ E Hd) as Hpos. pose proof (sqr_lt_1 x Hpos) as Hx.
    rewrite acos_asin by lra.
    apply sub_containsR; [apply half_pi_containsR|].
    rewrite asin_atan by exact Hx.
    apply atan_containsR, div_containsR; [exact Ha | apply sqrt_containsR; exact Hd].
  - (* the subtraction propagates NaI *)
    pose proof (I.sub_propagate_r p) as Hp. unfold I.propagate_r in Hp.
    unfold containsR. rewrite Hp; [exact Logic.I | apply I.nai_correct].
Qed.

Definition atan2_I (p : prec) (y x : I.type) : I.type :=
  let q := I.atan p (I.div p y x) in
  let hp := I.div p (I.pi p) (I.fromZ p 2) in
  if I_pos x then q
  else if I_neg x then
         (if I_nonneg y then I.add p q (I.pi p)
          else if I_neg y then I.sub p q (I.pi p)
               else I.join (I.add p q (I.pi p)) (I.sub p q (I.pi p)))
       else if I_pos y then I.sub p hp (I.atan p (I.div p x y))
            else if I_neg y then I.sub p (I.neg hp) (I.atan p (I.div p x y))
                 else I.nai.

Lemma atan2_I_contains p a b y x : containsR a y -> containsR b x -> containsR (atan2_I p a b) (atan2 y x).
Proof.
  intros Ha Hb. unfold atan2_I.
  assert (Hq : containsR (I.atan p (I.div p a b)) (atan (y / x))) by (apply atan_containsR, div_containsR; assumption).
  assert (Hq' : containsR (I.atan p (I.div p b a)) (atan (x / y))) by (apply atan_containsR, div_containsR; assumption).
  destruct (I_pos b) eqn:E1.
  { rewrite atan2_pos_x by (exact (I_pos_sound _ _ E1 Hb)). exact Hq. }
  destruct (I_neg b) eqn:E2.
  { pose proof (I_neg_sound _ _ E2 Hb) as Hx.
    destruct (I_nonneg a) eqn:E3.
    { rewrite atan2_neg_x_nonneg_y by (try exact Hx; exact (I_nonneg_sound _ _ E3 Ha)).
      apply add_containsR; [exact Hq | apply pi_containsR]. }
    destruct (I_neg a) eqn:E4.
    { rewrite atan2_neg_x_neg_y by (try exact Hx; exact (I_neg_sound _ _ E4 Ha)).
      apply sub_containsR; [exact Hq | apply pi_containsR]. }
    apply I.join_correct.
    destruct (Rle_dec 0 y) as [Hy | Hy].
    - left. rewrite atan2_neg_x_nonneg_y by assumption. apply add_containsR; [exact Hq | apply pi_containsR].
    - right. rewrite atan2_neg_x_neg_y by lra. apply sub_containsR; [exact Hq | apply pi_containsR]. }
  destruct (I_pos a) eqn:E5.
  { rewrite atan2_pos_y by (exact (I_pos_sound _ _ E5 Ha)).
    apply sub_containsR; [apply half_pi_containsR | exact Hq']. }
  destruct (I_neg a) eqn:E6.
  { rewrite atan2_neg_y by (exact (I_neg_sound _ _ E6 Ha)).
    apply sub_containsR; [apply neg_containsR, half_pi_containsR | exact Hq']. }
  apply nai_containsR.
Qed.

(* ---------------------------------------------------------------- expressions *)
Inductive rexpr : Type :=
| EZ (z : Z)
| EQ (q : Q)
| EDy (d : dy)
| EVar (n : nat)
| EPi
| EAdd (a b : rexpr)
| ESub (a b : rexpr)
| EMul (a b : rexpr)
| EDiv (a b : rexpr)
| ENeg (a : rexpr)
| EAbs (a : rexpr)
| ESqr (a : rexpr)
| ESqrt (a : rexpr)
| ESin (a : rexpr)
| ECos (a : rexpr)
| EAtan (a : rexpr)
| EAsin (a : rexpr)
| EAcos (a : rexpr)
| EAtan2 (y x : rexpr)
| ELet (a b : rexpr).

Definition env_cons {A} (v : A) (r : nat -> A) : nat -> A :=
  fun n => match n with O => v | S k => r k end.

Fixpoint eval_R (r : nat -> R) (e : rexpr) : R :=
  match e with
  | EZ z => IZR z
  | EQ q => Q2R q
  | EDy d => dyR d
  | EVar n => r n
  | EPi => PI
  | EAdd a b => eval_R r a + eval_R r b
  | ESub a b => eval_R r a - eval_R r b
  | EMul a b => eval_R r a * eval_R r b
  | EDiv a b => eval_R r a / eval_R r b
  | ENeg a => - eval_R r a
  | EAbs a => Rabs (eval_R r a)
  | ESqr a => Rsqr (eval_R r a)
  | ESqrt a => sqrt (eval_R r a)
  | ESin a => sin (eval_R r a)
  | ECos a => cos (eval_R r a)
  | EAtan a => atan (eval_R r a)
  | EAsin a => asin (eval_R r a)
  | EAcos a => acos (eval_R r a)
  | EAtan2 y x => atan2 (eval_R r y) (eval_R r x)
  | ELet a b => eval_R (env_cons (eval_R r a) r) b
  end.

Fixpoint eval_I (p : prec) (r : nat -> I.type) (e : rexpr) : I.type :=
  match e with
  | EZ z => I_ofZ p z
  | EQ q => I_ofQ p q
  | EDy d => I_ofdy p d
  | EVar n => r n
  | EPi => I.pi p
  | EAdd a b => I.add p (eval_I p r a) (eval_I p r b)
  | ESub a b => I.sub p (eval_I p r a) (eval_I p r b)
  | EMul a b => I.mul p (eval_I p r a) (eval_I p r b)
  | EDiv a b => I.div p (eval_I p r a) (eval_I p r b)
  | ENeg a => I.neg (eval_I p r a)
  | EAbs a => I.abs (eval_I p r a)
  | ESqr a => I.sqr p (eval_I p r a)
  | ESqrt a => I.sqrt p (eval_I p r a)
  | ESin a => sin_I p (eval_I p r a)
  | ECos a => I.cos p (eval_I p r a)
  | EAtan a => I.atan p (eval_I p r a)
  | EAsin a => asin_I p (eval_I p r a)
  | EAcos a => acos_I p (eval_I p r a)
  | EAtan2 y x => atan2_I p (eval_I p r y) (eval_I p r x)
  | ELet a b => eval_I p (env_cons (eval_I p r a) r) b
  end.

Theorem eval_I_contains p e : forall (r : nat -> R) (rI : nat -> I.type),
  (forall n, containsR (rI n) (r n)) -> containsR (eval_I p rI e) (eval_R r e).
Proof.
  induction e; intros r rI H; simpl.
  - apply I_ofZ_contains.
  - apply I_ofQ_contains.
  - apply I_ofdy_contains.
  - apply H.
  - apply pi_containsR.
  - apply add_containsR; auto.
  - apply sub_containsR; auto.
  - apply mul_containsR; auto.
  - apply div_containsR; auto.
  - apply neg_containsR; auto.
  - apply abs_containsR; auto.
  - apply sqr_containsR; auto.
  - apply sqrt_containsR; auto.
  - apply sin_I_contains; auto.
  - apply cos_containsR; auto.
  - apply atan_containsR; auto.
  - apply asin_I_contains; auto.
  - apply acos_I_contains; auto.
  - apply atan2_I_contains; auto.
  - apply IHe2. intros [|k]; simpl; auto.
Qed.

(* ---------------------------------------------------------------- environments *)
Definition env_R (l : list R) : nat -> R := fun n => nth n l 0.
Definition env_I (l : list I.type) : nat -> I.type := fun n => nth n l I.nai.
Definition env_dy (p : prec) (l : list dy) : nat -> I.type := env_I (map (I_ofdy p) l).
Definition env_dyR (l : list dy) : nat -> R := env_R (map dyR l).

Lemma env_dy_contains p l : forall n, containsR (env_dy p l n) (env_dyR l n).
Proof.
  unfold env_dy, env_dyR, env_I, env_R. induction l as [|d l IH]; intros [|n]; simpl.
  - apply nai_containsR.
  - apply nai_containsR.
  - apply I_ofdy_contains.
  - apply IH.
Qed.

Lemma env_I_contains (lI : list I.type) (lR : list R) :
  Forall2 containsR lI lR -> forall n, containsR (env_I lI n) (env_R lR n).
Proof.
  unfold env_I, env_R. induction 1 as [|i x lI lR Hix _ IH]; intros [|n]; simpl;
    try apply nai_containsR; auto.
Qed.

(* staged evaluation (sharing of sub-results): the values of `es` are appended to the environment as new variables
   length env, length env + 1, ...; later stages refer to them with EVar *)
Definition stage_I (p : prec) (env : list I.type) (es : list rexpr) : list I.type :=
  env ++ map (eval_I p (env_I env)) es.
Definition stage_R (env : list R) (es : list rexpr) : list R :=
  env ++ map (eval_R (env_R env)) es.

Lemma stage_contains p envI envR es :
  Forall2 containsR envI envR -> Forall2 containsR (stage_I p envI es) (stage_R envR es).
Proof.
  intros H. unfold stage_I, stage_R. apply Forall2_app; [exact H|].
  induction es as [|e es IH]; simpl; constructor; [|exact IH].
  apply eval_I_contains. apply env_I_contains. exact H.
Qed.

Lemma env_dy_Forall2 p l : Forall2 containsR (map (I_ofdy p) l) (map dyR l).
Proof. induction l; simpl; constructor; [apply I_ofdy_contains | assumption]. Qed.

(* ---------------------------------------------------------------- checks *)
Definition check_closeI (p : prec) (tol : Q) (J : I.type) (d : dy) : bool :=
  is_finite d && I_nonneg (I.sub p (I_ofQ p tol) (I.abs (I.sub p J (I_ofdy p d)))).

Lemma check_closeI_sound p tol J d v :
  containsR J v -> check_closeI p tol J d = true -> Rabs (v - dyR d) <= Q2R tol.
Proof.
  intros HJ H. unfold check_closeI in H. apply andb_prop in H. destruct H as [_ H].
  assert (Hc : containsR (I.sub p (I_ofQ p tol) (I.abs (I.sub p J (I_ofdy p d)))) (Q2R tol - Rabs (v - dyR d))).
  { apply sub_containsR; [apply I_ofQ_contains|]. apply abs_containsR, sub_containsR; [exact HJ | apply I_ofdy_contains]. }
  pose proof (I_nonneg_sound _ _ H Hc). lra.
Qed.

Definition check_close (p : prec) (tol : Q) (e : rexpr) (rI : nat -> I.type) (d : dy) : bool :=
  check_closeI p tol (eval_I p rI e) d.

Theorem check_close_sound p tol e r rI d :
  (forall n, containsR (rI n) (r n)) ->
  check_close p tol e rI d = true -> Rabs (eval_R r e - dyR d) <= Q2R tol.
Proof.
  intros H Hc. apply (check_closeI_sound p tol (eval_I p rI e)); [apply eval_I_contains; exact H | exact Hc].
Qed.

Lemma Q2R_Qabs q : Q2R (Qabs q) = Rabs (Q2R q).
Proof.
  destruct (Qlt_le_dec q 0) as [H | H].
  - rewrite (Qeq_eqR _ _ (Qabs_neg q (Qlt_le_weak _ _ H))). rewrite Q2R_opp.
    apply Qlt_Rlt in H. rewrite RMicromega.Q2R_0 in H. rewrite Rabs_left by exact H. reflexivity.
  - rewrite (Qeq_eqR _ _ (Qabs_pos q H)).
    apply Qle_Rle in H. rewrite RMicromega.Q2R_0 in H. rewrite Rabs_pos_eq by exact H. reflexivity.
Qed.

Definition rel_tol (rel abs : Q) (d : dy) : Q := (rel * Qabs (dyQ d) + abs)%Q.

Definition check_close_rel (p : prec) (rel abs : Q) (e : rexpr) (rI : nat -> I.type) (d : dy) : bool :=
  check_close p (rel_tol rel abs d) e rI d.

Theorem check_close_rel_sound p rel abs e r rI d :
  (forall n, containsR (rI n) (r n)) ->
  check_close_rel p rel abs e rI d = true ->
  Rabs (eval_R r e - dyR d) <= Q2R rel * Rabs (dyR d) + Q2R abs.
Proof.
  intros H Hc. pose proof (check_close_sound p _ e r rI d H Hc) as G.
  unfold rel_tol in G. rewrite Q2R_plus, Q2R_mult in G.
  replace (Q2R (Qabs (dyQ d))) with (Rabs (dyR d)) in G; [exact G|].
  unfold dyR. symmetry. apply Q2R_Qabs.
Qed.

Definition check_le (p : prec) (a b : rexpr) (rI : nat -> I.type) : bool :=
  I_nonneg (I.sub p (eval_I p rI b) (eval_I p rI a)).
Definition check_lt (p : prec) (a b : rexpr) (rI : nat -> I.type) : bool :=
  I_pos (I.sub p (eval_I p rI b) (eval_I p rI a)).

Theorem check_le_sound p a b r rI :
  (forall n, containsR (rI n) (r n)) -> check_le p a b rI = true -> eval_R r a <= eval_R r b.
Proof.
  intros H Hc.
  assert (G : containsR (I.sub p (eval_I p rI b) (eval_I p rI a)) (eval_R r b - eval_R r a))
    by (apply sub_containsR; apply eval_I_contains; exact H).
  pose proof (I_nonneg_sound _ _ Hc G). lra.
Qed.

Theorem check_lt_sound p a b r rI :
  (forall n, containsR (rI n) (r n)) -> check_lt p a b rI = true -> eval_R r a < eval_R r b.
Proof.
  intros H Hc.
  assert (G : containsR (I.sub p (eval_I p rI b) (eval_I p rI a)) (eval_R r b - eval_R r a))
    by (apply sub_containsR; apply eval_I_contains; exact H).
  pose proof (I_pos_sound _ _ Hc G). lra.
Qed.

(* angles compared modulo one turn (for values next to the atan2 cut) *)
Definition check_close_mod2pi (p : prec) (tol : Q) (e : rexpr) (rI : nat -> I.type) (d : dy) : bool :=
  let J := eval_I p rI e in
  let tp := I.mul p (I.fromZ p 2) (I.pi p) in
  check_closeI p tol J d || check_closeI p tol (I.sub p J tp) d || check_closeI p tol (I.add p J tp) d.

Theorem check_close_mod2pi_sound p tol e r rI d :
  (forall n, containsR (rI n) (r n)) ->
  check_close_mod2pi p tol e rI d = true ->
  exists k : Z, (-1 <= k <= 1)%Z /\ Rabs (eval_R r e + IZR k * (2 * PI) - dyR d) <= Q2R tol.
Proof.
  intros H Hc. unfold check_close_mod2pi in Hc.
  pose proof (eval_I_contains p e r rI H) as HJ.
  assert (Htp : containsR (I.mul p (I.fromZ p 2) (I.pi p)) (2 * PI))
    by (apply mul_containsR; [apply (I.fromZ_correct p 2) | apply pi_containsR]).
  apply orb_prop in Hc. destruct Hc as [Hc | Hc]; [apply orb_prop in Hc; destruct Hc as [Hc | Hc]|].
  - exists 0%Z. split; [split; discriminate|].
    replace (eval_R r e + 0 * (2 * PI) - dyR d) with (eval_R r e - dyR d) by lra.
    exact (check_closeI_sound p tol _ d _ HJ Hc).
  - exists (-1)%Z. split; [split; discriminate|].
    replace (eval_R r e + -1 * (2 * PI) - dyR d) with ((eval_R r e - 2 * PI) - dyR d) by lra.
    apply (check_closeI_sound p tol _ d _ (sub_containsR p _ _ _ _ HJ Htp) Hc).
  - exists 1%Z. split; [split; discriminate|].
    replace (eval_R r e + 1 * (2 * PI) - dyR d) with ((eval_R r e + 2 * PI) - dyR d) by lra.
    apply (check_closeI_sound p tol _ d _ (add_containsR p _ _ _ _ HJ Htp) Hc).
Qed.

(* ---------------------------------------------------------------- non-vacuity / regression examples *)
Example ex_cos_close :
  check_close p80 (1 # 1000000000000000) (ECos (EDy (Dy 1 (-1)))) (env_I []) (Dy 494035062339541 (-49)) = true.
Proof. vm_compute. reflexivity. Qed.
Example ex_div0_fails : check_close p80 (1000 # 1) (EDiv (EZ 1) (ESub (EZ 1) (EZ 1))) (env_I []) (DZero false) = false.
Proof. vm_compute. reflexivity. Qed.
Example ex_sqrt_neg_fails : check_close p80 (1000 # 1) (ESqrt (EZ (-4))) (env_I []) (DZero false) = false.
Proof. vm_compute. reflexivity. Qed.
Example ex_nan_fails : check_close p80 (1000 # 1) (EZ 0) (env_I []) DNaN = false.
Proof. vm_compute. reflexivity. Qed.
Example ex_atan2_q2 : (* atan2(1, -1) = 3 pi / 4 *)
  check_close p80 (1 # 1000000000000000) (EAtan2 (EZ 1) (EZ (-1))) (env_I []) (Dy 2652839157010665 (-50)) = true.
Proof. vm_compute. reflexivity. Qed.
