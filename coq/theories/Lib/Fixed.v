(* Lib/Fixed.v - generic fixed-column record codec = ChainParser.parse_line (midgard/parsers/_parser_chain.py)
   for one label, and its inverse.  No axioms.

   ===================================================================================== API SUMMARY
   (strings are Coq [string]; string functions from Lib/Text.v)

   Record fieldspec := { fname : string; fstart : nat; fstop : nat }      one entry  name: (start, stop)  of a
                                                                           parser_def[label]["fields"] dict
   mkf name a b                       short constructor
   parse_record specs line            dict-type fields:   [(name, line[start:stop].strip()) for name,(start,stop) in fields.items()]
                                      (a short line gives "" for the columns it does not reach - Python slicing clamps)
   parse_record_by p specs line       the same with  .strip(chars),  p = in_chars chars      (the 'strip' entry of parser_def)
   parse_tokens names line            list-type fields:   dict(zip(fields, re.split("\s+", line.strip()))) without the None
                                      names;  names : list (option string);   an all-blank line yields the single token ""
   lookup name kvs                    kvs[name] on the association list ("" if absent);  lookup_opt gives option
   ChainParser.read_data calls parse_line(line.rstrip()):  parse_record_rstrip / parse_tokens_rstrip say the rstrip is invisible.

   table_wf width specs : bool        starts/stops ordered (start_i <= stop_i <= start_(i+1)) and every stop <= width
   render_cells bg specs cells        overwrite the background line bg (labels, fillers; normally blanks) with the full-width
                                      cells at the fields' start columns
   render_record bg specs vals        cells = values left-justified in their fields;  vals : list (name * value) in table order
   render_record_r bg specs vals      cells right-justified;   render_record_gen rj  with rj : fieldspec -> bool (true = right)
   blank_line w                       w blanks
   fits specs vals : Prop             Forall2: same name, value trimmed (no outer white space), len value <= stop - start

   Theorems
     record_roundtrip     : table_wf w specs = true -> w <= len bg -> fits specs vals ->
                            parse_record specs (render_record bg specs vals) = vals            (any number of fields)
     record_roundtrip_r, record_roundtrip_gen : the same for right-justified / mixed cells
     record_roundtrip_rstrip : ... parse_record specs (rstrip (render_record_gen rj bg specs vals)) = vals
                               (a written line whose trailing blanks were cut parses to the same values)
     parse_render_cells   : ... Forall2 (len c = stop - start) specs cells ->
                            parse_record specs (render_cells bg specs cells) = [(name, strip cell)]
     parse_record_rstrip  : parse_record specs (rstrip line) = parse_record specs line
     parse_record_take    : the values of fields with stop <= n are unchanged by cutting the line at column n,
                            fields with n <= start become ""   (slice_take_le / slice_take_ge)
     len_render_cells     : the rendered line has the length of bg
     slice_render_outside : columns left of the first field start keep the background (e.g. the record label)
     parse_tokens_join    : tokens -> parse_tokens names (pad ++ join " " toks ++ pad') = the named tokens
   ================================================================================================== *)
From Coq Require Import Ascii String List Bool Arith Lia.
From Verif Require Import Lib.Text.
Import ListNotations.
Local Open Scope string_scope.
Local Open Scope nat_scope.

Record fieldspec := mkf { fname : string; fstart : nat; fstop : nat }.

Definition parse_record_by (p : ascii -> bool) (specs : list fieldspec) (line : string) : list (string * string) :=
  map (fun f => (fname f, strip_by p (slice (fstart f) (fstop f) line))) specs.
Definition parse_record := parse_record_by is_space.

Fixpoint lookup_opt (name : string) (kvs : list (string * string)) : option string :=
  match kvs with
  | [] => None
  | (k, v) :: r => if String.eqb k name then Some v else lookup_opt name r
  end.
Definition lookup (name : string) (kvs : list (string * string)) : string :=
  match lookup_opt name kvs with Some v => v | None => "" end.

Definition re_split_ws (s : string) : list string :=
  match split_ws s with [] => [""] | l => l end.
Fixpoint zip_names (names : list (option string)) (toks : list string) : list (string * string) :=
  match names, toks with
  | Some n :: ns, t :: ts => (n, strip t) :: zip_names ns ts
  | None :: ns, _ :: ts => zip_names ns ts
  | _, _ => []
  end.
Definition parse_tokens (names : list (option string)) (line : string) : list (string * string) :=
  zip_names names (re_split_ws (strip line)).

Fixpoint table_wf_from (pos : nat) (specs : list fieldspec) : bool :=
  match specs with
  | [] => true
  | f :: r => (pos <=? fstart f) && (fstart f <=? fstop f) && table_wf_from (fstop f) r
  end.
Definition table_wf (width : nat) (specs : list fieldspec) : bool :=
  table_wf_from 0 specs && forallb (fun f => fstop f <=? width) specs.

Fixpoint render_cells (bg : string) (specs : list fieldspec) (cells : list string) : string :=
  match specs, cells with
  | f :: fs, c :: cs => place (fstart f) c (render_cells bg fs cs)
  | _, _ => bg
  end.
Definition cell (right : bool) (f : fieldspec) (v : string) : string :=
  if right then rjust (fstop f - fstart f) v else ljust (fstop f - fstart f) v.
Fixpoint cells_of (rj : fieldspec -> bool) (specs : list fieldspec) (vals : list (string * string)) : list string :=
  match specs, vals with
  | f :: fs, (_, v) :: vs => cell (rj f) f v :: cells_of rj fs vs
  | _, _ => []
  end.
Definition render_record_gen rj bg specs vals := render_cells bg specs (cells_of rj specs vals).
Definition render_record := render_record_gen (fun _ => false).
Definition render_record_r := render_record_gen (fun _ => true).
Definition blank_line (w : nat) : string := spaces w.

Definition fits (specs : list fieldspec) (vals : list (string * string)) : Prop :=
  Forall2 (fun f nv => fst nv = fname f /\ trimmed (snd nv) = true /\ len (snd nv) <= fstop f - fstart f) specs vals.
Definition fitsb (specs : list fieldspec) (vals : list (string * string)) : bool :=
  (List.length specs =? List.length vals) &&
  forallb (fun fv => String.eqb (fst (snd fv)) (fname (fst fv)) && trimmed (snd (snd fv)) &&
                     (len (snd (snd fv)) <=? fstop (fst fv) - fstart (fst fv))) (combine specs vals).

(* ------------------------------------------------------------------------------------------ lemmas *)
Lemma parse_record_by_ext p specs l1 l2 :
  (forall f, In f specs -> strip_by p (slice (fstart f) (fstop f) l1) = strip_by p (slice (fstart f) (fstop f) l2)) ->
  parse_record_by p specs l1 = parse_record_by p specs l2.
Proof.
  intros H. unfold parse_record_by. apply map_ext_in. intros f Hf. rewrite H; auto.
Qed.

Lemma parse_record_rstrip specs line : parse_record specs (rstrip line) = parse_record specs line.
Proof. apply parse_record_by_ext. intros. apply slice_rstrip. Qed.
Lemma parse_tokens_rstrip names line : parse_tokens names (rstrip line) = parse_tokens names line.
Proof.
  unfold parse_tokens. rewrite strip_rstrip. reflexivity.
Qed.

Lemma slice_take_le a b n s : b <= n -> slice a b (take n s) = slice a b s.
Proof.
  intros H. destruct (Nat.le_gt_cases (len s) n).
  - rewrite take_all; auto.
  - rewrite <- (take_drop n s) at 2. rewrite slice_app_left; auto. rewrite len_take. lia.
Qed.
Lemma slice_take_ge a b n s : n <= a -> slice a b (take n s) = "".
Proof. intros H. apply slice_beyond. rewrite len_take. lia. Qed.
Lemma parse_record_take specs n line f :
  In f specs ->
  (fstop f <= n -> lookup_opt (fname f) (parse_record [f] (take n line)) = lookup_opt (fname f) (parse_record [f] line)) /\
  (n <= fstart f -> parse_record [f] (take n line) = [(fname f, "")]).
Proof.
  intros _. split; intros H; unfold parse_record, parse_record_by; simpl.
  - rewrite slice_take_le; auto.
  - rewrite slice_take_ge; auto.
Qed.

Lemma table_wf_from_start pos specs f : table_wf_from pos specs = true -> In f specs -> pos <= fstart f /\ fstart f <= fstop f.
Proof.
  revert pos; induction specs as [|g r IH]; intros pos H Hin; [destruct Hin|].
  simpl in H. apply andb_true_iff in H as [H H3]. apply andb_true_iff in H as [H1 H2].
  apply Nat.leb_le in H1, H2. destruct Hin as [->|Hin]; [lia|].
  specialize (IH _ H3 Hin). lia.
Qed.
Lemma table_wf_from_weaken pos pos' specs : pos' <= pos -> table_wf_from pos specs = true -> table_wf_from pos' specs = true.
Proof.
  destruct specs as [|f r]; auto. simpl. intros Hp H.
  apply andb_true_iff in H as [H H3]. apply andb_true_iff in H as [H1 H2]. apply Nat.leb_le in H1.
  rewrite H2, H3. replace (pos' <=? fstart f) with true; auto. symmetry; apply Nat.leb_le; lia.
Qed.

Definition cells_ok (specs : list fieldspec) (cells : list string) : Prop :=
  Forall2 (fun f c => len c = fstop f - fstart f) specs cells.

Lemma len_render_cells bg pos w specs cells :
  table_wf_from pos specs = true -> forallb (fun f => fstop f <=? w) specs = true -> w <= len bg ->
  cells_ok specs cells -> len (render_cells bg specs cells) = len bg.
Proof.
  intros Hwf Hw Hbg Hc. revert pos Hwf Hw. induction Hc as [|f c fs cs Hfc Hc IH]; intros pos Hwf Hw; auto.
  simpl in *. apply andb_true_iff in Hwf as [Hwf H3]. apply andb_true_iff in Hwf as [H1 H2].
  apply andb_true_iff in Hw as [Hw1 Hw2]. apply Nat.leb_le in H1, H2, Hw1.
  rewrite len_place; rewrite (IH _ H3 Hw2); auto. lia.
Qed.

Lemma slice_render_outside bg pos w specs cells x y :
  table_wf_from pos specs = true -> forallb (fun f => fstop f <=? w) specs = true -> w <= len bg ->
  cells_ok specs cells -> y <= pos -> slice x y (render_cells bg specs cells) = slice x y bg.
Proof.
  intros Hwf Hw Hbg Hc. revert pos Hwf Hw. induction Hc as [|f c fs cs Hfc Hc IH]; intros pos Hwf Hw Hy; auto.
  simpl in *. pose proof Hwf as Hwf0. apply andb_true_iff in Hwf as [Hwf H3]. apply andb_true_iff in Hwf as [H1 H2].
  apply andb_true_iff in Hw as [Hw1 Hw2]. apply Nat.leb_le in H1, H2, Hw1.
  rewrite slice_place_before.
  - apply (IH (fstop f)); auto. lia.
  - lia.
  - rewrite (len_render_cells bg (fstop f) w); auto. lia.
Qed.

Theorem parse_render_cells_from bg pos w specs cells :
  table_wf_from pos specs = true -> forallb (fun f => fstop f <=? w) specs = true -> w <= len bg ->
  cells_ok specs cells ->
  parse_record specs (render_cells bg specs cells) =
  map (fun fc => (fname (fst fc), strip (snd fc))) (combine specs cells).
Proof.
  intros Hwf Hw Hbg Hc. revert pos Hwf Hw. induction Hc as [|f c fs cs Hfc Hc IH]; intros pos Hwf Hw; auto.
  pose proof Hwf as Hwf0. pose proof Hw as Hw0.
  simpl in Hwf, Hw. apply andb_true_iff in Hwf as [Hwf H3]. apply andb_true_iff in Hwf as [H1 H2].
  apply andb_true_iff in Hw as [Hw1 Hw2]. apply Nat.leb_le in H1, H2, Hw1.
  assert (HL : len (render_cells bg fs cs) = len bg) by (apply (len_render_cells bg (fstop f) w); auto).
  cbn [render_cells combine map]. unfold parse_record, parse_record_by. cbn [map]. f_equal.
  - cbn [fst snd]. f_equal. fold strip.
    replace (fstop f) with (fstart f + len c) by lia. rewrite slice_place_same by lia. reflexivity.
  - rewrite <- (IH _ H3 Hw2). apply (parse_record_by_ext is_space). intros g Hg. f_equal.
    destruct (table_wf_from_start _ _ g H3 Hg). apply slice_place_after; lia.
Qed.
Theorem parse_render_cells bg w specs cells :
  table_wf w specs = true -> w <= len bg -> cells_ok specs cells ->
  parse_record specs (render_cells bg specs cells) =
  map (fun fc => (fname (fst fc), strip (snd fc))) (combine specs cells).
Proof.
  intros H. apply andb_true_iff in H as [H1 H2]. apply (parse_render_cells_from bg 0 w); auto.
Qed.

Lemma cells_of_ok rj specs vals : fits specs vals -> cells_ok specs (cells_of rj specs vals).
Proof.
  induction 1 as [|f [n v] fs vs [_ [_ Hl]] _ IH]; simpl; constructor; auto.
  unfold cell. simpl in Hl. destruct (rj f); [apply len_rjust|apply len_ljust]; auto.
Qed.
Lemma cells_of_strip rj specs vals : fits specs vals ->
  map (fun fc => (fname (fst fc), strip (snd fc))) (combine specs (cells_of rj specs vals)) = vals.
Proof.
  induction 1 as [|f [n v] fs vs [Hn [Ht _]] _ IH]; simpl; auto.
  rewrite IH. simpl in *. f_equal. f_equal; auto.
  unfold cell. destruct (rj f); [apply strip_rjust|apply strip_ljust]; auto.
Qed.

Theorem record_roundtrip_gen rj bg w specs vals :
  table_wf w specs = true -> w <= len bg -> fits specs vals ->
  parse_record specs (render_record_gen rj bg specs vals) = vals.
Proof.
  intros Hwf Hbg Hf. unfold render_record_gen.
  rewrite (parse_render_cells bg w); auto using cells_of_ok. apply cells_of_strip; auto.
Qed.
Theorem record_roundtrip bg w specs vals :
  table_wf w specs = true -> w <= len bg -> fits specs vals ->
  parse_record specs (render_record bg specs vals) = vals.
Proof. apply record_roundtrip_gen. Qed.
Theorem record_roundtrip_r bg w specs vals :
  table_wf w specs = true -> w <= len bg -> fits specs vals ->
  parse_record specs (render_record_r bg specs vals) = vals.
Proof. apply record_roundtrip_gen. Qed.
Theorem record_roundtrip_rstrip rj bg w specs vals :
  table_wf w specs = true -> w <= len bg -> fits specs vals ->
  parse_record specs (rstrip (render_record_gen rj bg specs vals)) = vals.
Proof. intros. rewrite parse_record_rstrip. apply (record_roundtrip_gen rj bg w); auto. Qed.

Lemma fitsb_fits specs vals : fitsb specs vals = true -> fits specs vals.
Proof.
  unfold fitsb, fits. revert vals; induction specs as [|f fs IH]; intros [|[n v] vs]; simpl; try discriminate.
  - constructor.
  - intros H. apply andb_true_iff in H as [Hl H]. apply andb_true_iff in H as [H H'].
    apply andb_true_iff in H as [H H3]. apply andb_true_iff in H as [H1 H2].
    constructor.
    + simpl. apply String.eqb_eq in H1. apply Nat.leb_le in H3. auto.
    + apply IH. rewrite Hl, H'. reflexivity.
Qed.

(* list-type fields *)
Lemma parse_tokens_join names toks a b :
  Forall (fun t => is_token t = true) toks -> toks <> [] -> all_space a = true -> all_space b = true ->
  parse_tokens names (a ++ join " " toks ++ b) = zip_names names toks.
Proof.
  intros Ht Hn Ha Hb. unfold parse_tokens, re_split_ws.
  rewrite split_ws_strip, split_ws_lead, split_ws_app_space, split_join by auto.
  destruct toks; [congruence|reflexivity].
Qed.
Lemma zip_names_tokens names toks :
  Forall (fun t => is_token t = true) toks ->
  zip_names names toks =
  (fix go ns ts := match ns, ts with
                   | Some n :: ns', t :: ts' => (n, t) :: go ns' ts'
                   | None :: ns', _ :: ts' => go ns' ts'
                   | _, _ => []
                   end) names toks.
Proof.
  intros H. revert names. induction H as [|t ts Ht _ IH]; intros [|[n|] ns]; simpl; auto.
  rewrite IH, strip_trimmed by (apply trimmed_token; auto). reflexivity.
Qed.
