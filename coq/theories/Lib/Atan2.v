(* Lib/Atan2.v -- two-argument arctangent over R (owner: C06 builder; others only import).

   API
   ---
   atan2 (y x : R) : R          C / NumPy `arctan2(y, x)` convention, restricted to real arguments
                                (no signed zeros):  x>0: atan(y/x);  x<0,y>=0: atan(y/x)+PI;
                                x<0,y<0: atan(y/x)-PI;  x=0: +PI/2, -PI/2, 0 for y>0, y<0, y=0.
                                On the negative x axis (y = 0, x < 0) the value is +PI (the value C gives for y = +0.0).
   atan2_pos_x, atan2_neg_x_nonneg_y, atan2_neg_x_neg_y, atan2_zero_x_pos_y, atan2_zero_x_neg_y, atan2_0_0
                                the defining equations by quadrant
   atan2_pos_y : 0 < y -> atan2 y x = PI/2 - atan (x/y)       (any x; used by the interval evaluation)
   atan2_neg_y : y < 0 -> atan2 y x = -PI/2 - atan (x/y)
   atan2_bound : -PI < atan2 y x <= PI
   atan2_scale : 0 < k -> atan2 (k*y) (k*x) = atan2 y x
   atan2_polar : 0 < k -> -PI < t <= PI -> atan2 (k * sin t) (k * cos t) = t
   atan2_opp   : ~ (y = 0 /\ x < 0) -> atan2 (-y) x = - atan2 y x
   atan2_sin_cos : x<>0 \/ y<>0 -> x = sqrt(x²+y²) * cos (atan2 y x) /\ y = sqrt(x²+y²) * sin (atan2 y x)

   The interval evaluation of atan2 (sign case split, conservative on the branch cut) is `Ival.atan2_I`
   / the `EAtan2` constructor of `Ival.rexpr` in Lib/Ival.v, which imports this file.
   Axioms: only the standard library's real-number axioms. *)
From Coq Require Import Reals Lra.
Open Scope R_scope.

Definition atan2 (y x : R) : R :=
  if Rlt_dec 0 x then atan (y / x)
  else if Rlt_dec x 0 then
         (if Rle_dec 0 y then atan (y / x) + PI else atan (y / x) - PI)
       else if Rlt_dec 0 y then PI / 2
            else if Rlt_dec y 0 then - (PI / 2) else 0.

Lemma atan2_pos_x y x : 0 < x -> atan2 y x = atan (y / x).
Proof. intros H. unfold atan2. destruct (Rlt_dec 0 x); [reflexivity | contradiction]. Qed.

Lemma atan2_neg_x_nonneg_y y x : x < 0 -> 0 <= y -> atan2 y x = atan (y / x) + PI.
Proof.
  intros Hx Hy. unfold atan2.
  destruct (Rlt_dec 0 x); [lra|]. destruct (Rlt_dec x 0); [|lra].
  destruct (Rle_dec 0 y); [reflexivity | contradiction].
Qed.

Lemma atan2_neg_x_neg_y y x : x < 0 -> y < 0 -> atan2 y x = atan (y / x) - PI.
Proof.
  intros Hx Hy. unfold atan2.
  destruct (Rlt_dec 0 x); [lra|]. destruct (Rlt_dec x 0); [|lra].
  destruct (Rle_dec 0 y); [lra | reflexivity].
Qed.

Lemma atan2_zero_x_pos_y y : 0 < y -> atan2 y 0 = PI / 2.
Proof.
  intros Hy. unfold atan2.
  destruct (Rlt_dec 0 0); [lra|]. destruct (Rlt_dec 0 y); [reflexivity | contradiction].
Qed.

Lemma atan2_zero_x_neg_y y : y < 0 -> atan2 y 0 = - (PI / 2).
Proof.
  intros Hy. unfold atan2.
  destruct (Rlt_dec 0 0); [lra|]. destruct (Rlt_dec 0 y); [lra|].
  destruct (Rlt_dec y 0); [reflexivity | contradiction].
Qed.

Lemma atan2_0_0 : atan2 0 0 = 0.
Proof.
  unfold atan2. destruct (Rlt_dec 0 0); [lra|]. reflexivity.
Qed.

(* atan (1/t) identities for both signs *)
Lemma atan_inv_neg t : t < 0 -> atan (/ t) = - (PI / 2) - atan t.
Proof.
  intros Ht.
  replace (/ t) with (- / (- t)) by (field; lra).
  rewrite atan_opp, atan_inv by lra. rewrite atan_opp. lra.
Qed.

Lemma atan2_pos_y y x : 0 < y -> atan2 y x = PI / 2 - atan (x / y).
Proof.
  intros Hy.
  destruct (Rtotal_order x 0) as [Hx | [Hx | Hx]].
  - rewrite atan2_neg_x_nonneg_y by lra.
    replace (y / x) with (/ (x / y)) by (field; lra).
    rewrite atan_inv_neg; [lra|].
    unfold Rdiv. pose proof (Rinv_0_lt_compat y Hy). nra.
  - subst x. rewrite atan2_zero_x_pos_y by lra.
    unfold Rdiv. rewrite Rmult_0_l, atan_0. lra.
  - rewrite atan2_pos_x by lra.
    replace (y / x) with (/ (x / y)) by (field; lra).
    rewrite atan_inv; [lra|].
    unfold Rdiv. pose proof (Rinv_0_lt_compat y Hy). nra.
Qed.

Lemma atan2_neg_y y x : y < 0 -> atan2 y x = - (PI / 2) - atan (x / y).
Proof.
  intros Hy.
  destruct (Rtotal_order x 0) as [Hx | [Hx | Hx]].
  - rewrite atan2_neg_x_neg_y by lra.
    replace (y / x) with (/ (x / y)) by (field; lra).
    rewrite atan_inv; [lra|].
    replace (x / y) with ((- x) / (- y)) by (field; lra).
    unfold Rdiv. assert (0 < / - y) by (apply Rinv_0_lt_compat; lra). nra.
  - subst x. rewrite atan2_zero_x_neg_y by lra.
    unfold Rdiv. rewrite Rmult_0_l, atan_0. lra.
  - rewrite atan2_pos_x by lra.
    replace (y / x) with (/ (x / y)) by (field; lra).
    rewrite atan_inv_neg; [lra|].
    replace (x / y) with (- (x / (- y))) by (field; lra).
    unfold Rdiv. assert (0 < / - y) by (apply Rinv_0_lt_compat; lra). nra.
Qed.

Lemma atan2_bound y x : - PI < atan2 y x <= PI.
Proof.
  pose proof PI_RGT_0 as Hpi.
  destruct (Rtotal_order y 0) as [Hy | [Hy | Hy]].
  - rewrite atan2_neg_y by assumption. pose proof (atan_bound (x / y)). lra.
  - subst y. destruct (Rtotal_order x 0) as [Hx | [Hx | Hx]].
    + rewrite atan2_neg_x_nonneg_y by lra. unfold Rdiv. rewrite Rmult_0_l, atan_0. lra.
    + subst x. rewrite atan2_0_0. lra.
    + rewrite atan2_pos_x by lra. unfold Rdiv. rewrite Rmult_0_l, atan_0. lra.
  - rewrite atan2_pos_y by assumption. pose proof (atan_bound (x / y)). lra.
Qed.

Lemma atan2_scale k y x : 0 < k -> atan2 (k * y) (k * x) = atan2 y x.
Proof.
  intros Hk.
  assert (Hs : forall a, 0 < a -> 0 < k * a) by (intros; apply Rmult_lt_0_compat; assumption).
  assert (Hn : forall a, a < 0 -> k * a < 0).
  { intros a Ha. apply Ropp_lt_cancel. rewrite Ropp_0, Ropp_mult_distr_r. apply Hs. lra. }
  destruct (Rtotal_order y 0) as [Hy | [Hy | Hy]].
  - rewrite !atan2_neg_y by auto. replace (k * x / (k * y)) with (x / y) by (field; lra). reflexivity.
  - subst y. rewrite Rmult_0_r.
    destruct (Rtotal_order x 0) as [Hx | [Hx | Hx]].
    + rewrite !atan2_neg_x_nonneg_y by (auto; lra). unfold Rdiv. rewrite !Rmult_0_l. reflexivity.
    + subst x. rewrite Rmult_0_r. reflexivity.
    + rewrite !atan2_pos_x by auto. unfold Rdiv. rewrite !Rmult_0_l. reflexivity.
  - rewrite !atan2_pos_y by auto. replace (k * x / (k * y)) with (x / y) by (field; lra). reflexivity.
Qed.

Lemma tan_plus_PI t : tan (t + PI) = tan t.
Proof.
  unfold tan. rewrite neg_sin, neg_cos.
  destruct (Req_dec (cos t) 0) as [H | H].
  - rewrite H. unfold Rdiv. rewrite Ropp_0, Rinv_0, !Rmult_0_r. reflexivity.
  - field. assumption.
Qed.

Lemma atan2_unit t : - PI < t <= PI -> atan2 (sin t) (cos t) = t.
Proof.
  intros [Hl Hu]. pose proof PI_RGT_0 as Hpi.
  destruct (Rlt_dec t (- (PI / 2))) as [H1 | H1].
  { (* third quadrant *)
    assert (Hc : cos t < 0).
    { rewrite <- cos_neg. apply cos_lt_0; lra. }
    assert (Hs : sin t < 0) by (apply sin_lt_0_var; lra).
    rewrite atan2_neg_x_neg_y by assumption.
    change (sin t / cos t) with (tan t). rewrite <- tan_plus_PI.
    rewrite atan_tan by lra. lra. }
  destruct (Req_dec t (- (PI / 2))) as [H2 | H2].
  { subst t. rewrite cos_neg, sin_neg, cos_PI2, sin_PI2. rewrite atan2_zero_x_neg_y by lra. reflexivity. }
  destruct (Rlt_dec t (PI / 2)) as [H3 | H3].
  { assert (Hc : 0 < cos t) by (apply cos_gt_0; lra).
    rewrite atan2_pos_x by assumption.
    change (sin t / cos t) with (tan t). apply atan_tan. lra. }
  destruct (Req_dec t (PI / 2)) as [H4 | H4].
  { subst t. rewrite cos_PI2, sin_PI2. rewrite atan2_zero_x_pos_y by lra. reflexivity. }
  (* second quadrant *)
  assert (Hc : cos t < 0) by (apply cos_lt_0; lra).
  assert (Hs : 0 <= sin t) by (apply sin_ge_0; lra).
  rewrite atan2_neg_x_nonneg_y by assumption.
  change (sin t / cos t) with (tan t).
  replace (tan t) with (tan (t - PI)) by (rewrite <- (tan_plus_PI (t - PI)); f_equal; lra).
  rewrite atan_tan by lra. lra.
Qed.

Lemma atan2_polar k t : 0 < k -> - PI < t <= PI -> atan2 (k * sin t) (k * cos t) = t.
Proof. intros Hk Ht. rewrite atan2_scale by assumption. apply atan2_unit. assumption. Qed.

Lemma atan2_opp y x : ~ (y = 0 /\ x < 0) -> atan2 (- y) x = - atan2 y x.
Proof.
  intros H.
  destruct (Rtotal_order y 0) as [Hy | [Hy | Hy]].
  - rewrite atan2_pos_y by lra. rewrite atan2_neg_y by assumption.
    replace (x / - y) with (- (x / y)) by (field; lra). rewrite atan_opp. lra.
  - subst y. rewrite Ropp_0.
    destruct (Rtotal_order x 0) as [Hx | [Hx | Hx]].
    + exfalso. apply H. split; [reflexivity | assumption].
    + subst x. rewrite atan2_0_0. lra.
    + rewrite atan2_pos_x by assumption. unfold Rdiv. rewrite Rmult_0_l, atan_0. lra.
  - rewrite atan2_neg_y by lra. rewrite atan2_pos_y by assumption.
    replace (x / - y) with (- (x / y)) by (field; lra). rewrite atan_opp. lra.
Qed.

(* polar decomposition: every non-zero (x, y) is r (cos a, sin a) with a = atan2 y x *)
Lemma polar_exists x y : x <> 0 \/ y <> 0 ->
  exists t, - PI < t <= PI /\ x = sqrt (x * x + y * y) * cos t /\ y = sqrt (x * x + y * y) * sin t.
Proof.
  intros Hnz. pose proof PI_RGT_0 as Hpi.
  set (r := sqrt (x * x + y * y)).
  assert (Hr2 : 0 < x * x + y * y).
  { destruct Hnz as [H | H]; [pose proof (Rsqr_pos_lt x H) | pose proof (Rsqr_pos_lt y H)];
      unfold Rsqr in *; pose proof (Rle_0_sqr x); pose proof (Rle_0_sqr y); unfold Rsqr in *; lra. }
  assert (Hr : 0 < r) by (apply sqrt_lt_R0; assumption).
  assert (Hrr : r * r = x * x + y * y) by (apply sqrt_sqrt; lra).
  set (c := x / r). set (s := y / r).
  assert (Hcs : c * c + s * s = 1).
  { unfold c, s. replace (x / r * (x / r) + y / r * (y / r)) with ((x * x + y * y) / (r * r)) by (field; lra).
    rewrite Hrr. field. lra. }
  assert (Hc1 : -1 <= c <= 1).
  { pose proof (Rle_0_sqr s). pose proof (Rle_0_sqr (c - 1)). pose proof (Rle_0_sqr (c + 1)). unfold Rsqr in *. split; nra. }
  (* angle in [0, PI] with cosine c, then choose the sign by s *)
  set (t0 := acos c).
  assert (Ht0 : 0 <= t0 <= PI) by (apply acos_bound).
  assert (Hct0 : cos t0 = c) by (apply cos_acos; assumption).
  assert (Hst0 : 0 <= sin t0) by (apply sin_ge_0; lra).
  assert (Hss : sin t0 * sin t0 = s * s).
  { pose proof (sin2_cos2 t0) as H. unfold Rsqr in H. rewrite Hct0 in H. lra. }
  assert (Hxr : x = r * c) by (unfold c; field; lra).
  assert (Hyr : y = r * s) by (unfold s; field; lra).
  destruct (Rle_dec 0 s) as [Hs | Hs].
  - exists t0. split; [lra|]. split; [rewrite Hct0; exact Hxr|].
    assert (sin t0 = s) by nra. rewrite H. exact Hyr.
  - assert (Hsneg : s < 0) by lra.
    assert (Ht0pos : 0 < t0).
    { destruct (Req_dec t0 0) as [E | E]; [|lra]. rewrite E, sin_0 in Hss. nra. }
    destruct (Req_dec t0 PI) as [E | E].
    { rewrite E, sin_PI in Hss. nra. }
    exists (- t0). split; [lra|]. split; [rewrite cos_neg, Hct0; exact Hxr|].
    rewrite sin_neg. assert (sin t0 = - s) by nra. rewrite H, Ropp_involutive. exact Hyr.
Qed.

Lemma atan2_sin_cos x y : x <> 0 \/ y <> 0 ->
  x = sqrt (x * x + y * y) * cos (atan2 y x) /\ y = sqrt (x * x + y * y) * sin (atan2 y x).
Proof.
  intros Hnz. destruct (polar_exists x y Hnz) as [t [Ht [Hx Hy]]].
  assert (Hr : 0 < sqrt (x * x + y * y)).
  { apply sqrt_lt_R0.
    destruct Hnz as [H | H]; [pose proof (Rsqr_pos_lt x H) | pose proof (Rsqr_pos_lt y H)];
      pose proof (Rle_0_sqr x); pose proof (Rle_0_sqr y); unfold Rsqr in *; lra. }
  assert (E : atan2 y x = t).
  { rewrite Hy at 1. rewrite Hx at 3. apply atan2_polar; assumption. }
  rewrite E. split; assumption.
Qed.
