(* Exact representation of IEEE-754 doubles shipped from the implementation, and the three
   comparisons the correspondence checks use (DESIGN 2.4).  Pure Z/Q arithmetic, no axioms. *)
From Coq Require Import ZArith QArith Qabs Bool Lia List.
Import ListNotations.
Open Scope Z_scope.

Inductive dy : Set :=
| Dy (m e : Z)          (* the finite non-zero double m * 2^e, m odd (as emitted by harness/emit.py) *)
| DZero (neg : bool)
| DInf (neg : bool)
| DNaN.

Definition pow2Q (e : Z) : Q :=
  if 0 <=? e then inject_Z (2 ^ e) else Qmake 1 (Z.to_pos (2 ^ (- e))).

Definition dy_toQ (d : dy) : option Q :=
  match d with
  | Dy m e => Some (Qred (inject_Z m * pow2Q e)%Q)
  | DZero _ => Some 0%Q
  | _ => None
  end.

Definition is_finite (d : dy) : bool :=
  match d with Dy _ _ | DZero _ => true | _ => false end.

Definition is_nan (d : dy) : bool := match d with DNaN => true | _ => false end.

Definition dy_eqb (a b : dy) : bool :=
  match a, b with
  | Dy m e, Dy m' e' => (m =? m') && (e =? e')
  | DZero s, DZero s' => Bool.eqb s s'
  | DInf s, DInf s' => Bool.eqb s s'
  | DNaN, DNaN => true
  | _, _ => false
  end.

(* numeric equality: +0 = -0, NaN <> NaN *)
Definition dy_numeqb (a b : dy) : bool :=
  match dy_toQ a, dy_toQ b with
  | Some x, Some y => Qeq_bool x y
  | _, _ => match a, b with DInf s, DInf s' => Bool.eqb s s' | _, _ => false end
  end.

Definition Qle_b (a b : Q) : bool := Qle_bool a b.
Definition Qlt_b (a b : Q) : bool := negb (Qle_bool b a).

(* |q - d| <= tol *)
Definition within (tol q : Q) (d : dy) : bool :=
  match dy_toQ d with
  | Some v => Qle_bool (Qabs (q - v)%Q) tol
  | None => false
  end.

(* |q - d| <= rel * |q| + abs *)
Definition within_rel (rel abs q : Q) (d : dy) : bool :=
  match dy_toQ d with
  | Some v => Qle_bool (Qabs (q - v)%Q) (rel * Qabs q + abs)%Q
  | None => false
  end.

(* number of binary digits of |m| *)
Definition bitlen (m : Z) : Z := match m with Z0 => 0 | Zpos p | Zneg p => Z.log2 (Zpos p) + 1 end.

(* exponent of the unit in the last place of the double m*2^e: 2^(ulp_exp) *)
Definition ulp_exp (m e : Z) : Z := Z.max (bitlen m + e - 53) (-1074).

Definition ulpQ (d : dy) : Q :=
  match d with
  | Dy m e => pow2Q (ulp_exp m e)
  | _ => pow2Q (-1074)
  end.

(* is d a double nearest to the exact value q (ties accepted both ways)?
   At a binade boundary (|d| a power of two, normal range) the gap towards zero is half as large. *)
Definition is_pow2 (m : Z) : bool := (Z.abs m =? 2 ^ (bitlen m - 1)).

Definition max_double : Q := inject_Z ((2 ^ 53 - 1) * 2 ^ 971).

Definition is_nearest_double (q : Q) (d : dy) : bool :=
  match d with
  | Dy m e =>
      let v := (inject_Z m * pow2Q e)%Q in
      let u := pow2Q (ulp_exp m e) in
      let half := (u * (1 # 2))%Q in
      let diff := (q - v)%Q in
      let towards_zero := if 0 <? m then Qlt_b diff 0 else Qlt_b 0 diff in
      let small_gap := is_pow2 m && (-1074 <? bitlen m + e - 53) && towards_zero in
      (bitlen m <=? 53) &&
      Qle_bool (Qabs diff) (if small_gap then (half * (1 # 2))%Q else half)
  | DZero _ => Qle_bool (Qabs q) (pow2Q (-1075))
  | DInf neg => if neg then Qle_bool q (- (max_double + pow2Q 970))%Q else Qle_bool (max_double + pow2Q 970)%Q q
  | DNaN => false
  end.

(* within k ulps (of d's own ulp) *)
Definition within_ulps (k : Z) (q : Q) (d : dy) : bool :=
  match dy_toQ d with
  | Some v => Qle_bool (Qabs (q - v)%Q) (inject_Z k * ulpQ d)%Q
  | None => false
  end.

(* ---------------------------------------------------------------- soundness of the comparisons *)

Lemma within_sound tol q d :
  within tol q d = true -> exists v, dy_toQ d = Some v /\ (Qabs (q - v) <= tol)%Q.
Proof.
  unfold within. destruct (dy_toQ d) as [v|]; [|discriminate].
  intros H. exists v. split; [reflexivity|]. apply Qle_bool_iff. exact H.
Qed.

Lemma within_ulps_sound k q d :
  within_ulps k q d = true -> exists v, dy_toQ d = Some v /\ (Qabs (q - v) <= inject_Z k * ulpQ d)%Q.
Proof.
  unfold within_ulps. destruct (dy_toQ d) as [v|]; [|discriminate].
  intros H. exists v. split; [reflexivity|]. apply Qle_bool_iff. exact H.
Qed.

Lemma dy_eqb_refl d : dy_eqb d d = true.
Proof. destruct d as [m e|s|s|]; simpl; rewrite ?Z.eqb_refl, ?Bool.eqb_reflx; reflexivity. Qed.

Lemma dy_eqb_eq a b : dy_eqb a b = true -> a = b.
Proof.
  destruct a as [m e|s|s|], b as [m' e'|s'|s'|]; simpl; try discriminate; intros H.
  - apply andb_prop in H. destruct H as [H1 H2].
    apply Z.eqb_eq in H1. apply Z.eqb_eq in H2. subst. reflexivity.
  - apply Bool.eqb_prop in H. subst. reflexivity.
  - apply Bool.eqb_prop in H. subst. reflexivity.
  - reflexivity.
Qed.

Example nearest_ex1 : is_nearest_double (1 # 10) (Dy 3602879701896397 (-55)) = true.
Proof. vm_compute. reflexivity. Qed.
Example nearest_ex2 : is_nearest_double (1 # 10) (Dy 7205759403792795 (-56)) = false.
Proof. vm_compute. reflexivity. Qed.
