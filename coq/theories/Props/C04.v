(* C04 - Time arrays stay element-aligned, immutable and hash-consistent when derived.
   Only statements, each closed by `exact <lemma>` and followed by Print Assumptions.
   (harness/core.py reads the Print Assumptions output in this order.)

   Model: Model/C04_TimeArray.v.  `step q` is the transition function of one operation on the store of
   all arrays of a history; the specification is `step quirks_off`.  V / J are the (opaque) types of a
   value row and of a jd pair; vj, cv are the elementwise format / scale-conversion functions.
   Predicates (Proofs/C04_TimeArray.v):
     Aligned vj cv cvi R o   there are source positions src into the root's jd pairs R such that the k-th jd pair of o
                         is the root epoch R[src[k]] taken through a chain of scale conversions (cv: root scale -> other
                         scale, cvi: back; not exact inverses) ending in o's scale,  val(o) = map (vj scale fmt) jd(o),
                         o is 0-dimensional iff its jd is a bare pair, and nothing is left in the hand-over slot
     extends st st'      heap and name table of st' are those of st with new entries appended
     no_stale st ps      along the run of the source's mechanism no tuple index occurs and every view() is
                         taken of an array whose hand-over slot (_jd*_sliced) is empty *)
From Coq Require Import ZArith List Bool.
From Verif Require Import Model.C04_TimeArray Proofs.C04_TimeArray.
Import ListNotations.
Open Scope Z_scope.

(* whatever the history (any length, any interleaving of index / slice / mask / take / tuple index /
   iteration / view / copy / deepcopy / subset / insert / scale change / write attempts), every array in
   the store and every array returned is aligned: values, jd1/jd2 selected by the same source indices *)
Theorem aligned_all_histories :
  forall (V J : Type) (jeqb : J -> J -> bool) (vj : Z -> Z -> J -> V) (cv cvi : J -> J) (fmt_to : Z -> Z)
         (cv_iter : bool) (fmt : Z) (R : list J) (ps : list op) (st : state V J) (rs : list (result V J)),
    run V J jeqb vj cv cvi fmt_to cv_iter quirks_off (init V J jeqb vj quirks_off fmt R) ps = (st, rs) ->
    Forall (Aligned V J vj cv cvi R) (heap V J st) /\ Forall (res_aligned V J vj cv cvi R) rs.
Proof. exact aligned_all. Qed.
Print Assumptions aligned_all_histories.

(* ... in particular all components have the same length, and len() is the number of epochs (= number of
   source indices, each a valid position of the root) *)
Theorem length_is_epochs :
  forall (V J : Type) (jeqb : J -> J -> bool) (vj : Z -> Z -> J -> V) (cv cvi : J -> J) (fmt_to : Z -> Z)
         (cv_iter : bool) (fmt : Z) (R : list J) (ps : list op) (st : state V J) (rs : list (result V J))
         (o : obj V J),
    run V J jeqb vj cv cvi fmt_to cv_iter quirks_off (init V J jeqb vj quirks_off fmt R) ps = (st, rs) ->
    In o (heap V J st) ->
    length (o_vals V J o) = length (flat J (o_jd V J o)) /\
    exists src : list nat,
      Forall (fun s => (s < length R)%nat) src /\ olen V J o = length src /\
      olen V J o = length (flat J (o_jd V J o)).
Proof. exact length_epochs. Qed.
Print Assumptions length_is_epochs.

(* a write attempt fails and leaves the whole state (all arrays, hidden attributes, caches) unchanged *)
Theorem immutable :
  forall (V J : Type) (jeqb : J -> J -> bool) (vj : Z -> Z -> J -> V) (cv cvi : J -> J) (fmt_to : Z -> Z)
         (cv_iter : bool) (q : quirks) (st : state V J) (k : nat) (w : Z),
    step V J jeqb vj cv cvi fmt_to cv_iter q st (Write k w) = (st, RErr).
Proof. exact write_fails. Qed.
Print Assumptions immutable.

(* no operation of the specification touches an existing array or name: the store only grows *)
Theorem objects_never_change :
  forall (V J : Type) (jeqb : J -> J -> bool) (vj : Z -> Z -> J -> V) (cv cvi : J -> J) (fmt_to : Z -> Z)
         (cv_iter : bool) (st : state V J) (p : op) (st' : state V J) (r : result V J),
    step V J jeqb vj cv cvi fmt_to cv_iter quirks_off st p = (st', r) -> extends V J st st'.
Proof. exact step_extends. Qed.
Print Assumptions objects_never_change.

(* the outcome of an operation on arrays of a history does not depend on anything read or derived in
   between: for every history `before`, every further history `reads` and every operation p on names of
   `before`, p gives the same result before and after `reads` *)
Theorem history_independent :
  forall (V J : Type) (jeqb : J -> J -> bool) (vj : Z -> Z -> J -> V) (cv cvi : J -> J) (fmt_to : Z -> Z)
         (cv_iter : bool) (fmt : Z) (R : list J) (before reads : list op) (p : op)
         (st1 : state V J) (rs1 : list (result V J)) (st2 : state V J) (rs2 : list (result V J)),
    run V J jeqb vj cv cvi fmt_to cv_iter quirks_off (init V J jeqb vj quirks_off fmt R) before = (st1, rs1) ->
    run V J jeqb vj cv cvi fmt_to cv_iter quirks_off st1 reads = (st2, rs2) ->
    Forall (fun k => (k < length (names V J st1))%nat) (op_names p) ->
    snd (step V J jeqb vj cv cvi fmt_to cv_iter quirks_off st2 p) =
    snd (step V J jeqb vj cv cvi fmt_to cv_iter quirks_off st1 p).
Proof. exact history_indep. Qed.
Print Assumptions history_independent.

(* equal arrays have equal hashes: the specification's equality (same scale, same shape, jd pairs equal
   under the numeric equality jeqb) implies equality of what is hashed, taken through any canonical form
   that identifies numerically equal pairs (this is where +0.0 / -0.0 has to be made explicit) *)
Theorem eq_hash :
  forall (V J : Type) (jeqb : J -> J -> bool) (C : Type) (canon : J -> C),
    (forall x y : J, jeqb x y = true -> canon x = canon y) ->
    forall a b : obj V J,
      eq_spec V J jeqb a b = true -> map canon (hash_model V J a) = map canon (hash_model V J b).
Proof. exact eq_hash_spec. Qed.
Print Assumptions eq_hash.

(* the mechanism of the source (jd[item] left on the parent for __array_finalize__) gives exactly the
   specification's results on every history without a stale hand-over *)
Theorem F_agrees_when_fresh :
  forall (V J : Type) (jeqb : J -> J -> bool) (vj : Z -> Z -> J -> V) (cv cvi : J -> J) (fmt_to : Z -> Z)
         (cv_iter : bool) (fmt : Z) (R : list J) (ps : list op),
    no_stale V J jeqb vj cv cvi fmt_to cv_iter (init V J jeqb vj Qs fmt R) ps ->
    map (erase_res V J) (snd (run V J jeqb vj cv cvi fmt_to cv_iter Qs (init V J jeqb vj Qs fmt R) ps)) =
    snd (run V J jeqb vj cv cvi fmt_to cv_iter quirks_off (init V J jeqb vj quirks_off fmt R) ps).
Proof. exact agrees_when_fresh. Qed.
Print Assumptions F_agrees_when_fresh.

(* ... and is wrong otherwise.  t[0]; t.view() has four values and one bare jd pair, and the same view()
   gives different results before and after the read (which it does not in the specification);
   t[1:3]; t.view() / t[(slice(1,3),)] / t.tai; t.view() have values and jd's of different lengths *)
Theorem c04_side_channel_refuted :
  (exists o b, nth_error (snd (w_run Q_side (w_init Q_side 0 w_R) [Get 0 (IInt 0); View 0])) 1 = Some (RObj o b) /\
               length (o_vals _ _ o) = 4%nat /\ o_jd _ _ o = JS (1, 11) /\
               snd (w_step quirks_off (fst (w_run quirks_off (w_init quirks_off 0 w_R) [Get 0 (IInt 0)])) (View 0))
               = snd (w_step quirks_off (w_init quirks_off 0 w_R) (View 0)) /\
               snd (w_step Q_side (fst (w_run Q_side (w_init Q_side 0 w_R) [Get 0 (IInt 0)])) (View 0))
               <> snd (w_step Q_side (w_init Q_side 0 w_R) (View 0))) /\
  (exists o b, nth_error (snd (w_run Q_side (w_init Q_side 0 w_R) [Get 0 (ISlice (Some 1) (Some 3) 1); View 0])) 1
               = Some (RObj o b) /\ length (o_vals _ _ o) = 4%nat /\ length (flat _ (o_jd _ _ o)) = 2%nat) /\
  (exists o b, nth_error (snd (w_run Q_side (w_init Q_side 0 w_R) [GetT 0 (ISlice (Some 1) (Some 3) 1)])) 0
               = Some (RObj o b) /\ length (o_vals _ _ o) = 2%nat /\ length (flat _ (o_jd _ _ o)) = 4%nat) /\
  (exists o b, nth_error (snd (w_run Q_side (w_init Q_side 0 w_R) [Scale 0 1; View 0])) 1
               = Some (RObj o b) /\ length (o_vals _ _ o) = 4%nat /\ o_jd _ _ o = JS (4, 14)).
Proof. exact (conj side_channel_misaligned side_channel_lengths). Qed.
Print Assumptions c04_side_channel_refuted.

(* lru_cache keyed on the jd bytes: after t[0], the derived format of t[0:1] comes back as a scalar and
   t[0:1].tai is the 0-dimensional object built for t[0] (the specification returns an array) *)
Theorem c04_cache_refuted :
  (exists o, nth_error (snd (w_run Q_cache (w_init Q_cache 0 w_R) [Get 0 (IInt 0); Get 0 (ISlice (Some 0) (Some 1) 1)])) 1
             = Some (RObj o true) /\ o_scalar _ _ o = false /\ o_jd _ _ o = JA [(1, 11)]) /\
  (exists o b, nth_error (snd (w_run Q_cache (w_init Q_cache 0 w_R)
                         [Get 0 (IInt 0); Scale 1 1; Get 0 (ISlice (Some 0) (Some 1) 1); Scale 3 1])) 3
             = Some (RObj o b) /\ o_scalar _ _ o = true) /\
  (exists o b, nth_error (snd (w_run quirks_off (w_init quirks_off 0 w_R)
                         [Get 0 (IInt 0); Scale 1 1; Get 0 (ISlice (Some 0) (Some 1) 1); Scale 3 1])) 3
             = Some (RObj o b) /\ o_scalar _ _ o = false /\ b = false).
Proof. exact cache_wrong_shape. Qed.
Print Assumptions c04_cache_refuted.

(* copy.copy(t[0]) of a gps_ws array raises, the specification returns the copy *)
Theorem c04_rebuild_refuted :
  nth_error (snd (w_run Q_rebuild (w_init Q_rebuild 2 w_R) [Get 0 (IInt 0); Copy 1])) 1 = Some RErr /\
  exists o b, nth_error (snd (w_run quirks_off (w_init quirks_off 2 w_R) [Get 0 (IInt 0); Copy 1])) 1 = Some (RObj o b).
Proof. exact rebuild_fails. Qed.
Print Assumptions c04_rebuild_refuted.

(* the source's __eq__ (NumPy broadcasting) calls t[[0,0]] and t[0] equal although the hashed bytes differ;
   the specification's equality does not *)
Theorem c04_eq_broadcast_refuted :
  exists a b : obj tV tJ, eq_model tV tJ tJ_eqb a b = true /\ hash_model tV tJ a <> hash_model tV tJ b /\
                          eq_spec tV tJ tJ_eqb a b = false.
Proof. exact eq_broadcast_no_hash. Qed.
Print Assumptions c04_eq_broadcast_refuted.

(* an equality that compares instants (jd1 + jd2, so that another split of the same instant is "equal") is
   inconsistent with a hash of the separate parts ... *)
Theorem c04_eq_instant_refuted :
  exists a b : obj tV tJ, eq_spec tV tJ inst_eqb a b = true /\ hash_model tV tJ a <> hash_model tV tJ b.
Proof. exact eq_instant_no_hash. Qed.
Print Assumptions c04_eq_instant_refuted.

(* ... and consistent with a hash of the instants: the law eq -> equal hash is about the pair (eq, hash), the
   specification of this property keeps both on the exact jd pairs *)
Theorem eq_hash_instant :
  forall a b : obj tV tJ,
    eq_spec tV tJ inst_eqb a b = true ->
    map (fun j => fst j + snd j) (hash_model tV tJ a) = map (fun j => fst j + snd j) (hash_model tV tJ b).
Proof. exact eq_instant_hash_instant. Qed.
Print Assumptions eq_hash_instant.

(* non-vacuity: the hypotheses are satisfiable and the model computes *)
Example ex_run_aligned :
  exists st rs, w_run quirks_off (w_init quirks_off 0 w_R)
                      [Get 0 (ISlice (Some 1) (Some 3) 1); View 0; Iter 1; Insert 2 1 1; Scale 3 1] = (st, rs) /\
                length (heap _ _ st) = 5%nat.
Proof. eexists. eexists. split; [vm_compute; reflexivity|reflexivity]. Qed.

(* an array of the root's scale inserted into a converted array: converted first, then aligned *)
Example ex_cross_scale_insert :
  exists o b, nth_error (snd (w_run quirks_off (w_init quirks_off 0 w_R) [Scale 0 1; Insert 1 1 0])) 1 = Some (RObj o b) /\
              flat _ (o_jd _ _ o) = [(1, 111); (1, 111); (2, 112); (3, 113); (4, 114); (2, 112); (3, 113); (4, 114)] /\
              o_vals _ _ o = map (w_vj 1 0) (flat _ (o_jd _ _ o)).
Proof. eexists. eexists. split; [vm_compute; reflexivity|]. split; reflexivity. Qed.

(* a converted array inserted into an array of the root's scale: converted back first (cvi), then aligned *)
Example ex_inverse_insert :
  exists o b, nth_error (snd (w_run quirks_off (w_init quirks_off 0 w_R) [Scale 0 1; Insert 0 1 1])) 1 = Some (RObj o b) /\
              flat _ (o_jd _ _ o) = [(1, 11); (1, 12); (2, 13); (3, 14); (4, 15); (2, 12); (3, 13); (4, 14)] /\
              o_vals _ _ o = map (w_vj 0 0) (flat _ (o_jd _ _ o)).
Proof. eexists. eexists. split; [vm_compute; reflexivity|]. split; reflexivity. Qed.

Example ex_no_stale :
  no_stale tV tJ tJ_eqb w_vj w_cv w_cvi w_fmt_to true (w_init Qs 0 w_R)
           [Get 0 (IInt 0); Get 0 (ISlice (Some 1) None 1); View 1; Copy 0; Iter 2].
Proof. vm_compute. repeat split. Qed.

Example ex_slice_semantics :
  sel 5 (ISlice None None (-2)) = Some [4; 2; 0]%nat /\ sel 5 (ISlice (Some (-2)) None 1) = Some [3; 4]%nat /\
  sel 3 (IInt 3) = None /\ sel 3 (ITake [-1; 0]) = Some [2; 0]%nat /\ sel 3 (IMask [true; false; true]) = Some [0; 2]%nat.
Proof. repeat split. Qed.
