From Coq Require Import String List ZArith.
From Verif Require Import Lib.Text Lib.C12_ExpFormat Model.C12_Nav Gen.C12_Tables.

Theorem parse_render_num : forall ok w n,
  num_wf ok n = true -> parse_float ok (render_num w n) = Some (num_dec n).
Proof. exact C12_ExpFormat.parse_render_num. Qed.
Print Assumptions parse_render_num.
