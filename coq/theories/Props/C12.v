(* Props/C12.v - the proof obligations of C12 (statements only; proofs in Proofs/C12_Nav.v, Lib/C12_ExpFormat.v). *)
From Coq Require Import Ascii String List Bool Arith ZArith QArith Lia.
From Verif Require Import Lib.Text Lib.Dyadic Lib.C12_ExpFormat Model.C12_Nav Gen.C12_Tables Proofs.C12_Nav.
Import ListNotations.
Local Open Scope string_scope.

(* every number printed with E/D/e/d exponent, in any mantissa style and column width, parses to exactly its value *)
Theorem parse_render_num : forall ok w n,
  num_wf ok n = true -> parse_float ok (render_num w n) = Some (num_dec n).
Proof. exact C12_ExpFormat.parse_render_num. Qed.
Print Assumptions parse_render_num.

(* the regenerated data_parser tables are the 19-character column layout of the format (lead 4 / 3);
   in that layout column i of a line spans [lead + 19 i, lead + 19 (i+1)), the first one starting at 0 *)
Theorem nav_fields_wf :
  (table_equiv nav_table_rinex3_nav (layout V3) = true /\
   table_equiv nav_table_rinex2_nav (layout V2) = true /\
   table_equiv nav_table_rinex212_nav (layout V212) = true) /\
  (forall names start first i n, nth_error names i = Some n ->
     nth_error (layout_fields names start first) i
     = Some (n, (if first && (i =? 0)%nat then 0 else start + i * fw, start + (i + 1) * fw)%nat)).
Proof. exact (conj tables_wf layout_fields_spec). Qed.
Print Assumptions nav_fields_wf.

Theorem nav_obs_line_roundtrip : forall ok v names nums,
  length names = length nums -> forallb (field_wf ok) nums = true ->
  floats ok (map (cut (rstrip (spaces (lead v) ++ cat (map render_field nums)))) (layout_fields names (lead v) true))
  = Some (combine names (map num_val nums)).
Proof. exact C12_Nav.nav_obs_line_roundtrip. Qed.
Print Assumptions nav_obs_line_roundtrip.

(* a record of 29 values (blank = 0, sign abutting, any exponent letter) parses to exactly its values, all three parsers *)
Theorem nav_record_roundtrip :
  (forall r sys2, nrec_wf V3 true r = true -> skipped r = false ->
     parse_record V3 spec_q sys2 (layout V3) (render_record V3 r) = RRec (prec_of V3 sys2 r)) /\
  (forall r c2, nrec_wf V2 true r = true -> skipped r = false ->
     parse_record V2 spec_q (String c2 "") (layout V2) (render_record V2 r) = RRec (prec_of V2 (String c2 "") r)) /\
  (forall r c2, nrec_wf V212 true r = true -> skipped r = false ->
     parse_record V212 spec_q (String c2 "") (layout V212) (render_record V212 r) = RRec (prec_of V212 (String c2 "") r)).
Proof. exact (conj record_rt_v3 (conj record_rt_v2 record_rt_v212)). Qed.
Print Assumptions nav_record_roundtrip.

(* GLONASS / SBAS records (4 lines) store nothing, and a file parses as if they were not there *)
Theorem skipped_records :
  (forall r sys2, nrec_wf V3 true r = true -> skipped r = true ->
     parse_record V3 spec_q sys2 (layout V3) (render_record V3 r) = RSkip) /\
  (forall rs sys2, Forall (fun r => nrec_wf V3 true r = true) rs ->
     parse_body V3 spec_q sys2 (layout V3) (render_body V3 rs)
     = parse_body V3 spec_q sys2 (layout V3) (render_body V3 (supported_recs rs))).
Proof. exact (conj record_skip_v3 skipped_no_trace). Qed.
Print Assumptions skipped_records.

(* files of any number of records: exactly the supported records, in file order *)
Theorem nav_file_roundtrip :
  (forall rs sys2, Forall (fun r => nrec_wf V3 true r = true) rs ->
     parse_body V3 spec_q sys2 (layout V3) (render_body V3 rs) = Some (map (prec_of V3 sys2) (supported_recs rs))) /\
  (forall rs c2, Forall (fun r => nrec_wf V2 true r = true /\ skipped r = false) rs ->
     parse_body V2 spec_q (String c2 "") (layout V2) (render_body V2 rs) = Some (map (prec_of V2 (String c2 "")) rs)) /\
  (forall rs c2, Forall (fun r => nrec_wf V212 true r = true /\ skipped r = false) rs ->
     parse_body V212 spec_q (String c2 "") (layout V212) (render_body V212 rs) = Some (map (prec_of V212 (String c2 "")) rs)).
Proof. exact (conj file_rt_v3 (conj file_rt_v2 file_rt_v212)). Qed.
Print Assumptions nav_file_roundtrip.

(* SYSNAMES of the three parsers = the format's system specific names, for every field and every system string;
   every renamed column is its general column restricted to the systems that map to the name (None elsewhere) *)
Theorem rename_spec :
  (forall f s, name_of sysnames_rinex3_nav f s = name_of spec_sysnames f s) /\
  (forall f s, name_of sysnames_rinex2_nav f s = name_of spec_sysnames f s) /\
  (forall f s, name_of sysnames_rinex212_nav f s = name_of spec_sysnames f s) /\
  (forall sn ps n col, In (n, col) (rename3 sn ps) ->
     exists f m, In (f, m) sn /\ In n (map snd m) /\
       col = map (fun p => match alookup (p_sys p) m with
                           | Some n' => if String.eqb n' n then pval f p else None
                           | None => None end) ps) /\
  (forall sn sys2 ps n col, In (n, col) (rename2 sn sys2 ps) ->
     exists f m, In (f, m) sn /\ alookup sys2 m = Some n /\ col = map (pval f) ps).
Proof. exact (conj sysnames3_spec (conj sysnames2_spec (conj sysnames212_spec (conj rename3_entry rename2_entry)))). Qed.
Print Assumptions rename_spec.

(* BeiDou: +14 s, +1356 weeks; every other system 0 - regenerated offset tables, for every system string *)
Theorem bds_shift :
  (forall s,
    off_of sec_offset_rinex3_nav s = spec_soff s /\ off_of week_offset_rinex3_nav s = spec_woff s /\
    off_of sec_offset_rinex2_nav s = spec_soff s /\ off_of week_offset_rinex2_nav s = spec_woff s /\
    off_of sec_offset_rinex212_nav s = spec_soff s /\ off_of week_offset_rinex212_nav s = spec_woff s) /\
  (spec_soff "C" = 14%Z /\ spec_woff "C" = 1356%Z /\
   (forall s, s <> "C"%string -> spec_soff s = 0%Z /\ spec_woff s = 0%Z)).
Proof. exact (conj offsets_spec bds_values). Qed.
Print Assumptions bds_shift.

(* week cross-over: a time more than half a week away from the record epoch is moved by one week towards it *)
Theorem week_crossover_spec : forall toc t,
  ((halfQ < toc - t)%Q -> resolve toc t == t + weekQ) /\
  ((toc - t < - halfQ)%Q -> resolve toc t == t - weekQ) /\
  ((- halfQ <= toc - t)%Q -> (toc - t <= halfQ)%Q -> resolve toc t == t) /\
  ((- (halfQ + weekQ) <= toc - t)%Q -> (toc - t <= halfQ + weekQ)%Q ->
     (- halfQ <= toc - resolve toc t)%Q /\ (toc - resolve toc t <= halfQ)%Q).
Proof. exact resolve_spec. Qed.
Print Assumptions week_crossover_spec.

Theorem crossover_per_record : forall rows,
  cross spec_q rows = map (fun r : Q * Q * Q => let '(toc, wb, s) := r in resolve toc (wb + s)) rows.
Proof. exact cross_per_record. Qed.
Print Assumptions crossover_per_record.

Theorem columns_equal_length : forall v q hdr sys2 ps,
  let c := build_cols v q hdr sys2 ps in
  (forall n col, In (n, col) (c_float c) -> length col = length ps) /\
  (forall n col, In (n, col) (c_time c) -> length col = length ps) /\
  (forall n col, In (n, col) (c_text c) -> length col = length ps).
Proof. exact cols_equal_length. Qed.
Print Assumptions columns_equal_length.

(* the quirks of the code are not the specification *)
Theorem c12_lowercase_d_refuted :
  parse_float false " 1.0d-01" = None /\ parse_float true " 1.0d-01" = Some (10%Z, (-2)%Z).
Proof. exact (conj lower_d_rejected lower_d_accepted). Qed.
Print Assumptions c12_lowercase_d_refuted.

Theorem c12_crossover_elif_refuted :
  all2 Qeq_bool (cross (mkQ false false true false false) wrows_mixed) (cross spec_q wrows_mixed) = false /\
  all2 Qeq_bool (cross (mkQ false false true true false) wrows_mixed) (cross spec_q wrows_mixed) = false.
Proof. exact elif_refuted. Qed.
Print Assumptions c12_crossover_elif_refuted.

Theorem c12_crossover_sow_refuted :
  all2 Qeq_bool (cross (mkQ false false false true false) wrows_week) (cross spec_q wrows_week) = false /\
  all2 Qeq_bool (cross spec_q wrows_week) [1140048000%Q] = true.
Proof. exact sow_refuted. Qed.
Print Assumptions c12_crossover_sow_refuted.

(* non-vacuity *)
Example wf_records_exist :
  forallb (fun s => nrec_wf V3 true (ex_rec s)) ["G"; "R"; "E"; "S"; "C"; "J"; "I"] = true
  /\ nrec_wf V2 true (ex_rec "G") = true.
Proof. exact ex_wf. Qed.
Example file_example :
  parse_body V3 spec_q "G" (layout V3) (render_body V3 (map ex_rec ["G"; "R"; "C"; "S"]))
  = Some (map (prec_of V3 "G") [ex_rec "G"; ex_rec "C"]).
Proof. vm_compute. reflexivity. Qed.
