(* Props/C12.v - the proof obligations of C12 (statements only; proofs in Proofs/C12_Nav.v, Lib/C12_ExpFormat.v). *)
From Coq Require Import Ascii String List Bool Arith ZArith QArith Lia.
From Coq Require Import Permutation.
From Verif Require Model.C02_Formats.
From Verif Require Import Lib.Text Lib.Dyadic Lib.C12_ExpFormat Lib.Fixed Model.C12_Nav Model.C12_Header Gen.C12_Tables Proofs.C12_Nav Proofs.C12_Transfer Proofs.C12_Time Proofs.C12_Header Proofs.C12_Names.
Module M2 := Verif.Model.C02_Formats.
Import ListNotations.
Local Open Scope string_scope.

(* every number printed with E/D/e/d exponent, in any mantissa style and column width, parses to exactly its value *)
Theorem parse_render_num : forall ok w n,
  num_wf ok n = true -> parse_float ok (render_num w n) = Some (num_dec n).
Proof. exact C12_ExpFormat.parse_render_num. Qed.
Print Assumptions parse_render_num.

(* the regenerated data_parser tables are the 19-character column layout of the format (lead 4 / 3);
   in that layout column i of a line spans [lead + 19 i, lead + 19 (i+1)), the first one starting at 0 *)
Theorem nav_fields_wf :
  (table_equiv nav_table_rinex3_nav (layout V3) = true /\
   table_equiv nav_table_rinex2_nav (layout V2) = true /\
   table_equiv nav_table_rinex212_nav (layout V212) = true) /\
  (forall names start first i n, nth_error names i = Some n ->
     nth_error (layout_fields names start first) i
     = Some (n, (if first && (i =? 0)%nat then 0 else start + i * fw, start + (i + 1) * fw)%nat)).
Proof. exact (conj tables_wf layout_fields_spec). Qed.
Print Assumptions nav_fields_wf.

Theorem nav_obs_line_roundtrip : forall ok v names nums,
  length names = length nums -> forallb (field_wf ok) nums = true ->
  floats ok (map (cut (rstrip (spaces (lead v) ++ cat (map render_field nums)))) (layout_fields names (lead v) true))
  = Some (combine names (map num_val nums)).
Proof. exact C12_Nav.nav_obs_line_roundtrip. Qed.
Print Assumptions nav_obs_line_roundtrip.

(* a record of 29 values (blank = 0, sign abutting, any exponent letter) parses to exactly its values, all three parsers *)
Theorem nav_record_roundtrip :
  (forall r sys2, nrec_wf V3 true r = true -> skipped r = false ->
     parse_record V3 spec_q sys2 (layout V3) (render_record V3 r) = RRec (prec_of V3 sys2 r)) /\
  (forall r c2, nrec_wf V2 true r = true -> skipped r = false ->
     parse_record V2 spec_q (String c2 "") (layout V2) (render_record V2 r) = RRec (prec_of V2 (String c2 "") r)) /\
  (forall r c2, nrec_wf V212 true r = true -> skipped r = false ->
     parse_record V212 spec_q (String c2 "") (layout V212) (render_record V212 r) = RRec (prec_of V212 (String c2 "") r)).
Proof. exact (conj record_rt_v3 (conj record_rt_v2 record_rt_v212)). Qed.
Print Assumptions nav_record_roundtrip.

(* GLONASS / SBAS records (4 lines) store nothing, and a file parses as if they were not there *)
Theorem skipped_records :
  (forall r sys2, nrec_wf V3 true r = true -> skipped r = true ->
     parse_record V3 spec_q sys2 (layout V3) (render_record V3 r) = RSkip) /\
  (forall rs sys2, Forall (fun r => nrec_wf V3 true r = true) rs ->
     parse_body V3 spec_q sys2 (layout V3) (render_body V3 rs)
     = parse_body V3 spec_q sys2 (layout V3) (render_body V3 (supported_recs rs))).
Proof. exact (conj record_skip_v3 skipped_no_trace). Qed.
Print Assumptions skipped_records.

(* files of any number of records: exactly the supported records, in file order *)
Theorem nav_file_roundtrip :
  (forall rs sys2, Forall (fun r => nrec_wf V3 true r = true) rs ->
     parse_body V3 spec_q sys2 (layout V3) (render_body V3 rs) = Some (map (prec_of V3 sys2) (supported_recs rs))) /\
  (forall rs c2, Forall (fun r => nrec_wf V2 true r = true /\ skipped r = false) rs ->
     parse_body V2 spec_q (String c2 "") (layout V2) (render_body V2 rs) = Some (map (prec_of V2 (String c2 "")) rs)) /\
  (forall rs c2, Forall (fun r => nrec_wf V212 true r = true /\ skipped r = false) rs ->
     parse_body V212 spec_q (String c2 "") (layout V212) (render_body V212 rs) = Some (map (prec_of V212 (String c2 "")) rs)).
Proof. exact (conj file_rt_v3 (conj file_rt_v2 file_rt_v212)). Qed.
Print Assumptions nav_file_roundtrip.

(* SYSNAMES of the three parsers = the format's system specific names, for every field and every system string;
   every renamed column is its general column restricted to the systems that map to the name (None elsewhere) *)
Theorem rename_spec :
  (forall f s, name_of sysnames_rinex3_nav f s = name_of spec_sysnames f s) /\
  (forall f s, name_of sysnames_rinex2_nav f s = name_of spec_sysnames f s) /\
  (forall f s, name_of sysnames_rinex212_nav f s = name_of spec_sysnames f s) /\
  (forall sn ps n col, In (n, col) (rename3 sn ps) ->
     exists f m, In (f, m) sn /\ In n (map snd m) /\
       col = map (fun p => match alookup (p_sys p) m with
                           | Some n' => if String.eqb n' n then pval f p else None
                           | None => None end) ps) /\
  (forall sn sys2 ps n col, In (n, col) (rename2 sn sys2 ps) ->
     exists f m, In (f, m) sn /\ alookup sys2 m = Some n /\ col = map (pval f) ps).
Proof. exact (conj sysnames3_spec (conj sysnames2_spec (conj sysnames212_spec (conj rename3_entry rename2_entry)))). Qed.
Print Assumptions rename_spec.

(* BeiDou: +14 s, +1356 weeks; every other system 0 - regenerated offset tables, for every system string *)
Theorem bds_shift :
  (forall s,
    off_of sec_offset_rinex3_nav s = spec_soff s /\ off_of week_offset_rinex3_nav s = spec_woff s /\
    off_of sec_offset_rinex2_nav s = spec_soff s /\ off_of week_offset_rinex2_nav s = spec_woff s /\
    off_of sec_offset_rinex212_nav s = spec_soff s /\ off_of week_offset_rinex212_nav s = spec_woff s) /\
  (spec_soff "C" = 14%Z /\ spec_woff "C" = 1356%Z /\
   (forall s, s <> "C"%string -> spec_soff s = 0%Z /\ spec_woff s = 0%Z)).
Proof. exact (conj offsets_spec bds_values). Qed.
Print Assumptions bds_shift.

(* week cross-over: a time more than half a week away from the record epoch is moved by one week towards it *)
Theorem week_crossover_spec : forall toc t,
  ((halfQ < toc - t)%Q -> resolve toc t == t + weekQ) /\
  ((toc - t < - halfQ)%Q -> resolve toc t == t - weekQ) /\
  ((- halfQ <= toc - t)%Q -> (toc - t <= halfQ)%Q -> resolve toc t == t) /\
  ((- (halfQ + weekQ) <= toc - t)%Q -> (toc - t <= halfQ + weekQ)%Q ->
     (- halfQ <= toc - resolve toc t)%Q /\ (toc - resolve toc t <= halfQ)%Q).
Proof. exact resolve_spec. Qed.
Print Assumptions week_crossover_spec.

Theorem crossover_per_record : forall rows,
  cross spec_q rows = map (fun r : Q * Q * Q => let '(toc, wb, s) := r in resolve toc (wb + s)) rows.
Proof. exact cross_per_record. Qed.
Print Assumptions crossover_per_record.

Theorem columns_equal_length : forall v q hdr sys2 ps,
  let c := build_cols v q hdr sys2 ps in
  (forall n col, In (n, col) (c_float c) -> length col = length ps) /\
  (forall n col, In (n, col) (c_time c) -> length col = length ps) /\
  (forall n col, In (n, col) (c_text c) -> length col = length ps).
Proof. exact cols_equal_length. Qed.
Print Assumptions columns_equal_length.

(* the quirks of the code are not the specification *)
Theorem c12_lowercase_d_refuted :
  parse_float false " 1.0d-01" = None /\ parse_float true " 1.0d-01" = Some (10%Z, (-2)%Z).
Proof. exact (conj lower_d_rejected lower_d_accepted). Qed.
Print Assumptions c12_lowercase_d_refuted.

Theorem c12_crossover_elif_refuted :
  all2 Qeq_bool (cross (mkQ false false true false false) wrows_mixed) (cross spec_q wrows_mixed) = false /\
  all2 Qeq_bool (cross (mkQ false false true true false) wrows_mixed) (cross spec_q wrows_mixed) = false.
Proof. exact elif_refuted. Qed.
Print Assumptions c12_crossover_elif_refuted.

Theorem c12_crossover_sow_refuted :
  all2 Qeq_bool (cross (mkQ false false false true false) wrows_week) (cross spec_q wrows_week) = false /\
  all2 Qeq_bool (cross spec_q wrows_week) [1140048000%Q] = true.
Proof. exact sow_refuted. Qed.
Print Assumptions c12_crossover_sow_refuted.

(* ------------------------------------------------------------------ transfer to the regenerated tables *)
(* any table with the same (name, start, stop) triples per line as the layout (names unique per line), in any order of
   lines and fields, parses every text to the same records up to the order of the value list *)
Theorem table_transfer :
  (forall v q sys2 t lines, table_ok v t = true ->
     rres_rel (parse_record v q sys2 (layout v) lines) (parse_record v q sys2 t lines)) /\
  (forall v q sys2 t ls, table_ok v t = true ->
     orel (Forall2 prec_perm) (parse_body v q sys2 (layout v) ls) (parse_body v q sys2 t ls)) /\
  (table_ok V3 nav_table_rinex3_nav = true /\ table_ok V2 nav_table_rinex2_nav = true /\
   table_ok V212 nav_table_rinex212_nav = true).
Proof. exact (conj parse_record_transfer (conj parse_body_transfer gen_tables_ok)). Qed.
Print Assumptions table_transfer.

(* the file round trip on the REGENERATED tables: same records, same association of names to values, same columns *)
Theorem nav_file_roundtrip_gen :
  (forall rs sys2, Forall (fun r => nrec_wf V3 true r = true) rs ->
     exists ps, parse_body V3 spec_q sys2 nav_table_rinex3_nav (render_body V3 rs) = Some ps
                /\ Forall2 prec_equiv (map (prec_of V3 sys2) (supported_recs rs)) ps) /\
  (forall rs c2, Forall (fun r => nrec_wf V2 true r = true /\ skipped r = false) rs ->
     exists ps, parse_body V2 spec_q (String c2 "") nav_table_rinex2_nav (render_body V2 rs) = Some ps
                /\ Forall2 prec_equiv (map (prec_of V2 (String c2 "")) rs) ps) /\
  (forall rs c2, Forall (fun r => nrec_wf V212 true r = true /\ skipped r = false) rs ->
     exists ps, parse_body V212 spec_q (String c2 "") nav_table_rinex212_nav (render_body V212 rs) = Some ps
                /\ Forall2 prec_equiv (map (prec_of V212 (String c2 "")) rs) ps) /\
  (forall v q hdr sys2 ps ps', Forall2 prec_equiv ps ps' -> build_cols v q hdr sys2 ps = build_cols v q hdr sys2 ps').
Proof. exact (conj file_rt_gen_v3 (conj file_rt_gen_v2 (conj file_rt_gen_v212 build_cols_equiv))). Qed.
Print Assumptions nav_file_roundtrip_gen.

(* ------------------------------------------------------------------ epoch and times *)
Local Open Scope Q_scope.
(* RINEX 2 two-digit year, every spelling: 80..99 -> 19yy, 00..79 -> 20yy; it is the year of the parsed record *)
Theorem v2_year_window :
  (forall yy, (yy < 100)%nat ->
     let want := if ((80 <=? yy) && (yy <=? 99))%nat then Z.of_nat (1900 + yy) else Z.of_nat (2000 + yy) in
     year_v2 (two yy) = Some want /\ year_v2 (strip (pad2 yy)) = Some want
     /\ year_v2 (strip (String " " (two yy))) = Some want) /\
  (forall q sys2 kv p ytxt, parse_epoch2 q sys2 kv = RRec p -> alookup "year" kv = Some ytxt ->
     year_v2 ytxt = Some (fst (fst (fst (fst (p_civil p)))))).
Proof. exact (conj year_window parse_epoch2_year). Qed.
Print Assumptions v2_year_window.

(* epoch seconds F5.1 / I2: the code path after the fix (7 decimals -> microseconds) is exact; milliseconds were not *)
Theorem epoch_seconds_exact :
  (forall t, (t < 1000)%nat ->
     sec_fixed (Z.of_nat t, (-1)%Z) == inject_Z (Z.of_nat t) / 10 /\
     sec_value false (Z.of_nat t, (-1)%Z) == inject_Z (Z.of_nat t) / 10 /\
     sec_fixed (Z.of_nat t, 0%Z) == inject_Z (Z.of_nat t)) /\
  (Qeq_bool (sec_value true (305%Z, (-1)%Z)) (61 # 2) = false /\ Qeq_bool (sec_value true (305%Z, (-1)%Z)) 5030 = true).
Proof. exact (conj sec_fixed_exact sec_ms_refuted). Qed.
Print Assumptions epoch_seconds_exact.

(* calendar epoch -> day number -> GPS seconds -> Julian date, tied to the calendar / format model of C02 *)
Theorem epoch_calendar_spec :
  (forall y m d, (1 <= m <= 12)%Z -> days_from_civil y m d = M2.days_from_civil y m d) /\
  (forall y m d y' m' d', M2.valid_date y m d = true -> M2.valid_date y' m' d' = true ->
     days_from_civil y m d = days_from_civil y' m' d' -> (y, m, d) = (y', m', d')) /\
  (forall y mo d h mi s, (1 <= mo <= 12)%Z ->
     M2.jd_of_us (M2.us_of_dt (M2.Dt y mo d h mi s 0))
     == M2.jd_of_gpssec (inject_Z ((days_from_civil y mo d - gps_epoch_day) * 86400 + h * 3600 + mi * 60 + s))) /\
  (forall e, jd_gps_epoch + e / 86400 == M2.jd_of_gpssec e) /\
  (forall w s, M2.jd_of_gpsws w s == M2.jd_of_gpssec (w * weekQ + s)) /\
  (forall x, x == inject_Z (week_of x) * weekQ + sow_of x /\ 0 <= sow_of x /\ sow_of x < weekQ).
Proof.
  exact (conj dfc_eq_c02 (conj civil_injective (conj toc_is_datetime (conj expected_jd_is_gpssec (conj gpsws_is_gpssec week_sow_split))))).
Qed.
Print Assumptions epoch_calendar_spec.

(* the arithmetic of the code after fix 414cbad (normalised week / seconds of week, week-aware difference, both directions
   per record) is the specification, for every file *)
Theorem crossover_fixed_code_is_spec : forall rows, Forall2 Qeq (cross_fixed rows) (cross spec_q rows).
Proof. exact cross_fixed_is_spec. Qed.
Print Assumptions crossover_fixed_code_is_spec.

(* every record: its three output times depend on that record only, obey the cross-over law relative to its own epoch,
   and carry the BeiDou shift (+14 s on epoch and seconds of week, +1356 weeks) exactly when the system is C *)
Theorem record_times_spec :
  (forall v hdr sys2 ps,
     c_time (build_cols v spec_q hdr sys2 ps)
     = [("time", map (toc_abs false) ps); ("toe", map (rec_time "toe") ps);
        ("transmission_time", map (rec_time "transmission_time") ps)]) /\
  (forall name p,
     let toc := toc_abs false p in let t := lit_time name p in let r := rec_time name p in
     (r == t \/ r == t + weekQ \/ r == t - weekQ) /\
     ((halfQ < toc - t)%Q -> r == t + weekQ) /\ ((toc - t < - halfQ)%Q -> r == t - weekQ) /\
     ((- halfQ <= toc - t)%Q -> (toc - t <= halfQ)%Q -> r == t) /\
     ((- (halfQ + weekQ) <= toc - t)%Q -> (toc - t <= halfQ + weekQ)%Q -> (- halfQ <= toc - r)%Q /\ (toc - r <= halfQ)%Q)) /\
  (forall name p w s, pval "gnss_week" p = Some w -> pval name p = Some s ->
     (p_sys p = "C" -> toc_abs false p == toc_file p + 14 /\ week_val p == w + 1356
                      /\ lit_time name p == (w + 1356) * weekQ + s + 14) /\
     (p_sys p <> "C" -> toc_abs false p == toc_file p /\ week_val p == w /\ lit_time name p == w * weekQ + s)).
Proof. exact (conj times_per_record (conj rec_time_spec bds_on_record)). Qed.
Print Assumptions record_times_spec.

Local Close Scope Q_scope.
(* ------------------------------------------------------------------ header records *)
(* the regenerated header tables and label -> method maps of the three parsers are the format's (same labels, same
   (name, start, stop) per label in any order, same method); in the format's layout the fields of a label are ordered,
   disjoint and inside columns 0..60, labels are distinct, trimmed, at most 20 characters and not the end marker *)
Theorem header_fields_wf :
  (htable_ok V3 hdr_table_rinex3_nav hdr_methods_rinex3_nav = true /\
   htable_ok V2 hdr_table_rinex2_nav hdr_methods_rinex2_nav = true /\
   htable_ok V212 hdr_table_rinex212_nav hdr_methods_rinex212_nav = true) /\
  (hdr_layout_wf V3 = true /\ hdr_layout_wf V2 = true /\ hdr_layout_wf V212 = true).
Proof. exact (conj hdr_gen_ok hdr_layouts_wf). Qed.
Print Assumptions header_fields_wf.

(* a header of any number of records (version/type, pgm, comments, leap seconds, ionospheric and time system corrections),
   every field any trimmed text that fits its columns, left- or right-justified, followed by END OF HEADER and the data:
   the parser yields exactly the methods applied to the field values, and hands the data lines on *)
Theorem header_roundtrip : forall ok v hs m body,
  Forall (fun h => hline_ok v h = true) hs ->
  parse_header ok v (hdr_layout v) (hdr_methods v) (map (render_h v) hs ++ end_line :: body) m
  = match meta_of ok v hs m with Some m' => Some (m', body) | None => None end.
Proof. exact C12_Header.header_roundtrip. Qed.
Print Assumptions header_roundtrip.

(* with the regenerated tables every line gives the same label, the same method and the same association name -> text *)
Theorem header_fields_transfer : forall v t ps line,
  htable_ok v t ps = true ->
  match hdr_fields (hdr_layout v) line, hdr_fields t line with
  | Some (lab, kv), Some (lab', kv') => lab = lab' /\ (forall n, alookup n kv = alookup n kv')
                                        /\ alookup lab ps = alookup lab (hdr_methods v)
  | None, None => True
  | _, _ => False
  end.
Proof. exact hdr_fields_transfer. Qed.
Print Assumptions header_fields_transfer.

Example header_example :
  forallb (hline_ok V3) ex_header = true
  /\ match meta_of true V3 ex_header meta0 with Some m => Nat.eqb (length (m_iono m)) 1 && Nat.eqb (length (m_tsc m)) 1 | None => false end = true.
Proof. exact ex_header_ok. Qed.

(* ------------------------------------------------------------------ the system of a RINEX 2 file is read off its name *)
(* ssssdddf.yyt and ssssdddf.yyt.gz (any stem / extension text without dots): the system is the regenerated table's entry for
   the lower-cased last letter of the FIRST suffix, for rinex2_nav and (no ".rnx" in it) rinex212_nav; the regenerated
   SYSTEM_FILE_EXTENSION tables are n->G, g->R, l->E for every string; long 2.12 names give the upper-cased system letter *)
Theorem v2_system_from_name :
  (forall stem e t ext, no_dot stem = true -> stem <> "" -> no_dot e = true -> last_char e = Some t ->
     (sys_of_name V2 ext (stem ++ String "." e) = alookup (String (lower t) "") ext /\
      sys_of_name V2 ext (stem ++ String "." (e ++ ".gz")) = alookup (String (lower t) "") ext) /\
     (contains ".rnx" ("." ++ e) = false ->
      sys_of_name V212 ext (stem ++ String "." e) = alookup (String (lower t) "") ext /\
      sys_of_name V212 ext (stem ++ String "." (e ++ ".gz")) = alookup (String (lower t) "") ext)) /\
  (forall s, alookup s ext_map_rinex2_nav = alookup s spec_ext /\ alookup s ext_map_rinex212_nav = alookup s spec_ext) /\
  map (sys_of_name V212 spec_ext)
      ["ABCD00NOR_R_20200010000_01D_GN.rnx"; "ABCD00NOR_R_20200010000_01D_EN.rnx.gz"; "ABCD00NOR_R_20200010000_01D_cN.rnx";
       "ABCD00NOR_R_20200010000_01D_JN.rnx"; "ABCD00NOR_R_20200010000_01D_IN.rnx.gz"]
  = [Some "G"; Some "E"; Some "C"; Some "J"; Some "I"].
Proof.
  exact (conj (fun stem e t ext H1 H2 H3 H4 => conj (system_short_v2 stem e t H1 H2 H3 H4 ext) (system_short_v212 stem e t H1 H2 H3 H4 ext))
              (conj ext_maps_spec long_names)).
Qed.
Print Assumptions v2_system_from_name.

(* non-vacuity *)
Example wf_records_exist :
  forallb (fun s => nrec_wf V3 true (ex_rec s)) ["G"; "R"; "E"; "S"; "C"; "J"; "I"] = true
  /\ nrec_wf V2 true (ex_rec "G") = true.
Proof. exact ex_wf. Qed.
Example file_example :
  parse_body V3 spec_q "G" (layout V3) (render_body V3 (map ex_rec ["G"; "R"; "C"; "S"]))
  = Some (map (prec_of V3 "G") [ex_rec "G"; ex_rec "C"]).
Proof. vm_compute. reflexivity. Qed.
