(* C01 - Time-scale conversions agree with the defined offsets and are invertible.
   Only statements, each closed by `exact <lemma>` and followed by Print Assumptions. *)
From Coq Require Import ZArith QArith Qabs Bool List String.
From Verif Require Import Lib.Dyadic Gen.C01_TaiUtc Gen.C01_Const Gen.C01_Graph Spec.C01_IersTaiUtc
     Model.C01_Scales Proofs.C01_Scales.
Import ListNotations.
Open Scope Q_scope.

(* the regenerated table: rows contiguous, non-empty, bounds at 0h (half-integer JD), as many rows as published entries *)
Theorem taiutc_wf : table_wf table = true /\ List.length table = List.length published.
Proof. exact table_is_wf. Qed.
Print Assumptions taiutc_wf.

(* the array the library loads is the text of _taiutc.txt, each number correctly rounded to a double *)
Theorem taiutc_loaded_is_text : all2 row_nearest taiutc_txt taiutc_loaded = true.
Proof. exact loaded_is_text. Qed.
Print Assumptions taiutc_loaded_is_text.

(* the regenerated table is the published TAI-UTC history (hand-typed oracle Spec/C01_IersTaiUtc.v) *)
Theorem taiutc_matches_published : match_published table published = true.
Proof. exact table_matches_published. Qed.
Print Assumptions taiutc_matches_published.

Theorem constants_match_published :
  L_G == L_G_iers2010 /\ T0 == T_0_iers2010 /\ T_0_txt == T_0_iers2010 /\
  c_gps * day_s == tai_minus_gps_s /\ c_tt * day_s == tt_minus_tai_s /\
  is_nearest_double L_G_txt L_G_loaded = true /\
  is_nearest_double T_0_jd1_txt T_0_jd1_loaded = true /\
  is_nearest_double T_0_jd2_txt T_0_jd2_loaded = true /\
  is_nearest_double (1 / day) seconds2day_loaded = true.
Proof. exact constants_ok. Qed.
Print Assumptions constants_match_published.
