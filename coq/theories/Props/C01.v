(* C01 - Time-scale conversions agree with the defined offsets and are invertible.
   Only statements, each closed by `exact <lemma>` and followed by Print Assumptions.
   Epochs are Julian dates x = jd1 + jd2 in Q (days); the specification model S is Model/C01_Scales.v with all
   quirks off (exact arithmetic, table/constants/graph regenerated from the source on every run). *)
From Coq Require Import ZArith QArith Qabs Bool List String.
From Verif Require Import Lib.Dyadic Gen.C01_TaiUtc Gen.C01_Const Gen.C01_Graph Gen.C01_Hops Spec.C01_IersTaiUtc
     Model.C01_Scales Proofs.C01_Scales Proofs.C01_Paths Proofs.C01_Code.
Import ListNotations.
Open Scope Q_scope.

(* the regenerated table: non-empty, rows contiguous (end_i = start_{i+1}, start < end), bounds at 0h (half-integer JD),
   as many rows as published entries *)
Theorem taiutc_wf : table_wf table = true /\ List.length table = List.length published.
Proof. exact table_is_wf. Qed.
Print Assumptions taiutc_wf.

(* the array the library loads is the text of _taiutc.txt, each number correctly rounded to a double *)
Theorem taiutc_loaded_is_text : all2 row_nearest taiutc_txt taiutc_loaded = true.
Proof. exact loaded_is_text. Qed.
Print Assumptions taiutc_loaded_is_text.

(* the regenerated table is the published TAI-UTC history (hand-typed oracle Spec/C01_IersTaiUtc.v):
   same dates (computed from the civil calendar), same offset/drift function on every row *)
Theorem taiutc_matches_published : match_published table published = true.
Proof. exact table_matches_published. Qed.
Print Assumptions taiutc_matches_published.

(* L_G and T_0 of constant.txt are the IERS 2010 values; 19 s and 32.184 s; the loaded doubles are the correctly
   rounded texts; Unit.seconds2day is the double nearest 1/86400 *)
Theorem constants_match_published :
  L_G == L_G_iers2010 /\ T0 == T_0_iers2010 /\ T_0_txt == T_0_iers2010 /\
  c_gps * day_s == tai_minus_gps_s /\ c_tt * day_s == tt_minus_tai_s /\
  is_nearest_double L_G_txt L_G_loaded = true /\
  is_nearest_double T_0_jd1_txt T_0_jd1_loaded = true /\
  is_nearest_double T_0_jd2_txt T_0_jd2_loaded = true /\
  is_nearest_double (1 / day) seconds2day_loaded = true.
Proof. exact constants_ok. Qed.
Print Assumptions constants_match_published.

(* the row in force at an instant is unique, and the lookup (first True of np.argmax) finds it *)
Theorem row_unique : forall r r' x, In r table -> In r' table ->
  in_row x r = true -> in_row x r' = true -> r = r' /\ find_row table x = r.
Proof.
  intros r r' x H H' Hx Hx'. split; [exact (row_unique_lemma2 r r' x H H' Hx Hx')|].
  apply in_row_iff in Hx. apply row_unique_lemma; tauto.
Qed.
Print Assumptions row_unique.

(* UTC -> TAI adds exactly the published TAI-UTC in force at that UTC instant: for every epoch from 1961-01-01 to
   9999-12-31, k-th published entry e valid from its date to the next entry's date *)
Theorem utc_tai_defining : forall k e x, nth_error published k = Some e ->
  e_start e <= x -> x < next_start published k ->
  utc2tai x == x + e_value e x / day_s.
Proof. exact utc_tai_defining_lemma. Qed.
Print Assumptions utc_tai_defining.

(* TAI - GPS = 19 s, both directions, every epoch *)
Theorem gps_tai_19 : forall x, gps2tai x - x == tai_minus_gps_s / day_s /\ x - tai2gps x == tai_minus_gps_s / day_s.
Proof. exact gps_tai_lemma. Qed.
Print Assumptions gps_tai_19.

(* TT - TAI = 32.184 s *)
Theorem tt_tai_32184 : forall x, tai2tt x - x == tt_minus_tai_s / day_s /\ x - tt2tai x == tt_minus_tai_s / day_s.
Proof. exact tt_tai_lemma. Qed.
Print Assumptions tt_tai_32184.

(* TCG - TT = L_G/(1-L_G) (TT - T0), from a TT date and from a TCG date *)
Theorem tcg_tt_LG : forall x,
  tt2tcg x - x == L_G / (1 - L_G) * (x - T0) /\ tcg2tt x - x == - (L_G / (1 - L_G) * (tcg2tt x - T0)).
Proof. exact tcg_tt_lemma. Qed.
Print Assumptions tcg_tt_LG.

(* the gps/tai, tai/tt, tt/tcg hops are exact inverses of each other *)
Theorem hop_inverse_exact : forall x,
  gps2tai (tai2gps x) == x /\ tai2gps (gps2tai x) == x /\
  tai2tt (tt2tai x) == x /\ tt2tai (tai2tt x) == x /\
  tt2tcg (tcg2tt x) == x /\ tcg2tt (tt2tcg x) == x.
Proof. exact hop_inverse_lemma. Qed.
Print Assumptions hop_inverse_exact.

(* UTC -> TAI -> UTC (two-step inverse as coded) returns the instant within 4 ns, for every UTC instant u of every
   row r with successor n, except: the first microsecond of a drift row (see utc_tai_utc_boundary_refuted), its last
   microsecond, and the UTC labels `skip r n` that never existed because TAI-UTC stepped down (skips_are) *)
Theorem utc_tai_utc : forall r n u, adjacent table r n -> rt_dom r n u ->
  Qabs (tai2utc (utc2tai u) - u) <= eps_rt.     (* 4 ns *)
Proof. exact utc_tai_utc_lemma. Qed.
Print Assumptions utc_tai_utc.

(* on the leap-second rows (1972 ...) the round trip is the identity for EVERY instant of the row,
   including the second before a leap second and the boundary itself; likewise on the open last row *)
Theorem utc_tai_utc_exact_on_leap_rows :
  (forall r n u, adjacent table r n -> is_const r = true -> r_start r <= u -> u < r_end r -> tai2utc (utc2tai u) == u) /\
  (forall u, r_start (last_row table) <= u -> u + 1 < r_end (last_row table) -> tai2utc (utc2tai u) == u).
Proof. split; [exact utc_tai_utc_leap_lemma|exact utc_tai_utc_last_lemma]. Qed.
Print Assumptions utc_tai_utc_exact_on_leap_rows.

(* TAI -> UTC -> TAI for every TAI instant that is the image of a UTC instant of the domain
   (this excludes exactly the TAI instants inside an inserted leap second) *)
Theorem tai_utc_tai : forall r n u, adjacent table r n -> rt_dom r n u ->
  Qabs (utc2tai (tai2utc (utc2tai u)) - utc2tai u) <= 2 * eps_rt.     (* 8 ns, see eps_values *)
Proof. exact tai_utc_tai_lemma. Qed.
Print Assumptions tai_utc_tai.

(* the breadth-first search over the regenerated edge list finds a route for all 25 ordered pairs, made of hops the model knows *)
Theorem routes_total :
  forallb (fun a => forallb (fun b => (a =? b)%string || match find_hops a b with
                                      | Some hs => forallb (fun h => match hop_fn h with Some _ => true | None => false end) hs
                                      | None => false end) scales) scales = true.
Proof. exact routes_total_lemma. Qed.
Print Assumptions routes_total.

(* to_scale a b is the composition of the hops along the unique tree path utc - tai - {gps, tt - tcg} *)
Theorem route_is_tree_path : forall a b x, In a scales -> In b scales ->
  to_scale a b x = option_map (fun f => f x) (conv_tree a b) /\ conv_tree a b <> None.
Proof. exact route_lemma. Qed.
Print Assumptions route_is_tree_path.

(* A -> B -> C = A -> C exactly, for all epochs and all triples except those that go to UTC and come back
   (B = utc between two other scales, or utc -> B -> utc) *)
Theorem two_hop_path_independent_exact : forall a b c x y z w, In a scales -> In b scales -> In c scales ->
  exact_triple a b c = true ->
  to_scale a b x = Some y -> to_scale b c y = Some z -> to_scale a c x = Some w -> z == w.
Proof. exact path_exact_lemma. Qed.
Print Assumptions two_hop_path_independent_exact.

(* error of a route = error of its first part scaled by the rest (constant hops: factor 1, exact translations;
   TT -> TCG: factor 1/(1-L_G); TCG -> TT: factor 1-L_G) *)
Theorem hop_error_compose : forall k1 k2 f g, 0 <= k2 -> lip k1 f -> lip k2 g -> lip (k2 * k1) (fun x => g (f x)).
Proof. exact Proofs.C01_Paths.hop_error_compose. Qed.
Print Assumptions hop_error_compose.

Theorem hop_types :
  lip 1 gps2tai /\ lip 1 tai2gps /\ lip 1 tai2tt /\ lip 1 tt2tai /\
  lip k_tcg tt2tcg /\ lip (1 - L_G) tcg2tt /\ k_tcg == 1 / (1 - L_G).
Proof. exact hop_types_lemma. Qed.
Print Assumptions hop_types.

(* the computable domain utc_ok (Model) contains every instant of rt_dom of every row with a successor, and gives the
   two round-trip bounds: 4 ns back in UTC, 8 ns back in TAI.  What utc_ok leaves out of 1961-01-01 .. 9999-12-30:
   the first and last microsecond of each pre-1972 drift row (nine of their starts are the stepped boundaries of finding
   c01_inverse_drift_boundary) and the UTC labels skipped by a downward step (skips_are). TAI instants inside an inserted
   leap second are not the image of any UTC instant, so they are not in the domain of the theorems below. *)
Theorem utc_ok_domain :
  (forall l1 r n l2 u, table = (l1 ++ r :: n :: l2)%list -> rt_dom r n u -> utc_ok u = true) /\
  (forall u, utc_ok u = true ->
     Qabs (tai2utc (utc2tai u) - u) <= eps_rt /\
     Qabs (utc2tai (tai2utc (utc2tai u)) - utc2tai u) <= 2 * eps_rt).
Proof. split; [exact utc_ok_of_rt_dom|exact utc_ok_bounds]. Qed.
Print Assumptions utc_ok_domain.

(* PATH INDEPENDENCE, all 125 routes: x is the instant u (UTC Julian date in the domain utc_ok) expressed in scale a;
   then a -> b -> c and a -> c give the same instant within the property's 10 ns (tol_prop), for every a, b, c *)
Theorem two_hop_path_independent : forall a b c u x y z w, In a scales -> In b scales -> In c scales ->
  utc_ok u = true -> to_scale "utc" a u = Some x ->
  to_scale a b x = Some y -> to_scale b c y = Some z -> to_scale a c x = Some w ->
  Qabs (z - w) <= tol_prop.
Proof. exact path_all_lemma. Qed.
Print Assumptions two_hop_path_independent.

(* A -> B -> A, all 25 pairs, same domain, 10 ns *)
Theorem roundtrip_all_pairs_10ns : forall a b u x y z, In a scales -> In b scales ->
  utc_ok u = true -> to_scale "utc" a u = Some x ->
  to_scale a b x = Some y -> to_scale b a y = Some z -> Qabs (z - x) <= tol_prop.
Proof. exact roundtrip_all_lemma. Qed.
Print Assumptions roundtrip_all_pairs_10ns.

(* A -> B -> A: exact when neither is UTC; utc -> B -> utc within 4 ns on the domain *)
Theorem roundtrip_all_pairs :
  (forall a b x y z, In a scales -> In b scales -> a <> "utc"%string -> b <> "utc"%string ->
     to_scale a b x = Some y -> to_scale b a y = Some z -> z == x) /\
  (forall b r n u y z, In b scales -> adjacent table r n -> rt_dom r n u ->
     to_scale "utc" b u = Some y -> to_scale b "utc" y = Some z -> Qabs (z - u) <= eps_rt).
Proof. split; [exact roundtrip_non_utc_lemma|exact utc_via_any_lemma]. Qed.
Print Assumptions roundtrip_all_pairs.

(* arrays: the index-list / element-wise formulation of delta_tai_utc is the map of the scalar conversion
   (result element i depends on input element i only) *)
Theorem to_scale_pointwise : forall tbl xs, utc2tai_list tbl xs = map (utc2tai_t tbl) xs.
Proof. exact utc2tai_list_pointwise. Qed.
Print Assumptions to_scale_pointwise.

(* arrays (both directions of the table hop as coded with index lists, and every route): converting a permuted / re-indexed
   array = re-indexing the converted array; element i of the result is the conversion of element i of the input *)
Theorem array_alignment : forall tbl d xs perm,
  utc2tai_list tbl (take_idx d xs perm) = take_idx (utc2tai_t tbl d) (utc2tai_list tbl xs) perm /\
  tai2utc_list tbl (take_idx d xs perm) = take_idx (tai2utc_t tbl d) (tai2utc_list tbl xs) perm /\
  (forall a b, to_scale_list a b (take_idx d xs perm) = take_idx (to_scale a b d) (to_scale_list a b xs) perm) /\
  (forall i, nth_error (utc2tai_list tbl xs) i = option_map (utc2tai_t tbl) (nth_error xs i)) /\
  (forall i, nth_error (tai2utc_list tbl xs) i = option_map (tai2utc_t tbl) (nth_error xs i)).
Proof. exact array_alignment_lemma. Qed.
Print Assumptions array_alignment.

(* the CODE of delta_gps_tai / delta_tai_tt / delta_tcg_tt (translated from the source on every run, Gen/C01_Hops.v)
   returns the property's constants: +-19 s, +-32.184 s, L_G/(1-L_G) (TT-T0) resp. -L_G (TCG-T0), for every epoch *)
Theorem code_constants_match_spec : forall j1 j2,
  code_delta_gps_tai "gps" j1 j2 * day_s == tai_minus_gps_s /\
  code_delta_gps_tai "tai" j1 j2 * day_s == - tai_minus_gps_s /\
  code_delta_tai_tt "tai" j1 j2 * day_s == tt_minus_tai_s /\
  code_delta_tai_tt "tt" j1 j2 * day_s == - tt_minus_tai_s /\
  code_delta_tcg_tt "tt" j1 j2 == L_G_iers2010 / (1 - L_G_iers2010) * (j1 + j2 - T_0_iers2010) /\
  code_delta_tcg_tt "tcg" j1 j2 == - (L_G_iers2010 * (j1 + j2 - T_0_iers2010)).
Proof. exact code_constants_lemma. Qed.
Print Assumptions code_constants_match_spec.

(* every registered edge: its converter returns (jd1, jd2 + delta(x)) where delta is delta_tai_utc (the two table hops) or
   exactly what the model's hop adds - for every epoch *)
Theorem code_hops_match_model : hops_translated = true /\ Forall hop_matches edges.
Proof. exact code_hops_lemma. Qed.
Print Assumptions code_hops_match_model.

(* quirk: selecting the row with the double jd1+jd2 is NOT the specification: 2016-12-31 23:59:59.99998 UTC *)
Theorem c01_row_by_float_sum_refuted :
  let j1 := (24577535 # 10) in let j2 := dyq (Dy 9007199252655991 (-53)) in
  (F_utc2tai all_off j1 j2 - (j1 + j2)) * day == 36 /\
  (F_utc2tai q_float j1 j2 - (j1 + j2)) * day == 37.
Proof. exact float_quirk_witness. Qed.
Print Assumptions c01_row_by_float_sum_refuted.

(* the first instants of a drift row whose start is a step are NOT inverted by the two-step lookup, even in exact
   arithmetic: 1963-11-01 0h UTC comes back more than 4 ms off (0.1 s) *)
Theorem utc_tai_utc_boundary_refuted :
  let u := (4876669 # 2) in
  in_row u (nth 3 table dummy_row) = true /\ ~ Qabs (tai2utc (utc2tai u) - u) <= 1000000 * eps_rt.
Proof. exact drift_boundary_witness. Qed.
Print Assumptions utc_tai_utc_boundary_refuted.

(* ------------------------------------------------------------------ non-vacuity *)
Example eps_values : eps_rt * day * 1000000000 == 4 /\ eps_via * day * 1000000000 == 9 /\ us * day * 1000000 == 1.
Proof. repeat split; vm_compute; reflexivity. Qed.

(* the labels excluded at the end of each row, in seconds: 0.05 s (1961-08-01), 3.7 ns (rate change 1962-01-01),
   0.1 s (1968-02-01), nothing else *)
Example skips_are :
  map (fun p => Qred (skip (fst p) (snd p) * day)) (combine table (tl table)) =
  [1 # 20; 922929 # 250000000000000; 0; 0; 0; 0; 0; 0; 0; 0; 0; 1 # 10; 0; 0; 0; 0; 0; 0; 0; 0;
   0; 0; 0; 0; 0; 0; 0; 0; 0; 0; 0; 0; 0; 0; 0; 0; 0; 0; 0; 0].
Proof. exact skips_computed. Qed.

(* the domain predicate on concrete instants: half a second before / exactly at the 2017 leap second, 2024-01-01 (open last
   row), 1965-03-01 12h (drift row) are inside; exactly 1963-11-01 0h (stepped drift boundary) and 0.01 s before 1961-08-01
   (a UTC label that never existed) are outside *)
Example utc_ok_examples :
  utc_ok ((24577535 # 10) + (863995 # 864000)) = true /\ utc_ok (24577545 # 10) = true /\ utc_ok (24603105 # 10) = true /\
  utc_ok (2438821 # 1) = true /\ utc_ok (4876669 # 2) = false /\ utc_ok ((24375125 # 10) - (1 # 8640000)) = false.
Proof. repeat split; vm_compute; reflexivity. Qed.

Example leap_second_2016 :
  (* 2016-12-31 23:59:59.5 UTC -> 36 s; 2017-01-01 00:00:00 UTC -> 37 s; 1965-03-01 0h -> 3.716594 s; J2000 TT -> TCG-TT *)
  (utc2tai ((24577535 # 10) + (863995 # 864000)) - ((24577535 # 10) + (863995 # 864000))) * day == 36 /\
  (utc2tai (24577545 # 10) - (24577545 # 10)) * day == 37 /\
  (utc2tai (24388205 # 10) - (24388205 # 10)) * day == (3716594 # 1000000) /\
  rt_dom (nth 39 table dummy_row) (nth 40 table dummy_row) ((24577535 # 10) + (863995 # 864000)).
Proof. repeat split; vm_compute; try reflexivity; try discriminate. Qed.
