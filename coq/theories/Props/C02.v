(* C02 - Every time format represents the same instant and survives a round trip.
   Only statements, each closed by `exact <lemma>` and followed by Print Assumptions.
   (harness/core.py reads the Print Assumptions output in this order.)
   Instants: `u : Z` = microseconds since 2000-01-01T00:00:00 (the datetime grid), `T : Q` = Julian date. *)
From Coq Require Import ZArith QArith Qround Bool List String Ascii.
From Verif Require Import Lib.Dyadic Model.C02_Formats Model.C02_Arrays Gen.C02_Tables Proofs.C02_Formats Proofs.C02_Arrays
  Proofs.C02_Rounding.
Import ListNotations.
Open Scope Z_scope.

(* civil calendar: every day number (no range bound) maps to a valid date that maps back ... *)
Theorem civil_roundtrip : forall z,
  let '(y, m, d) := civil_from_days z in days_from_civil y m d = z /\ valid_date y m d = true.
Proof. exact civil_from_days_spec. Qed.
Print Assumptions civil_roundtrip.

(* ... and every valid date (any year) survives date -> day number -> date *)
Theorem civil_roundtrip_valid : forall y m d,
  valid_date y m d = true -> civil_from_days (days_from_civil y m d) = (y, m, d).
Proof. exact civil_of_days_from. Qed.
Print Assumptions civil_roundtrip_valid.

(* microsecond of day <-> h:m:s.us *)
Theorem sod_roundtrip :
  (forall r, 0 <= r < US_DAY ->
     let '(h, mi, s, us) := sod_split r in sod_join h mi s us = r /\ valid_tod h mi s us = true) /\
  (forall h mi s us, valid_tod h mi s us = true ->
     sod_split (sod_join h mi s us) = (h, mi, s, us) /\ 0 <= sod_join h mi s us < US_DAY).
Proof. split; [exact sod_join_split|exact sod_split_join]. Qed.
Print Assumptions sod_roundtrip.

(* format `datetime`: exact on the microsecond grid, both ways, for every instant *)
Theorem datetime_roundtrip :
  (forall u, us_of_dt (dt_of_us u) = u /\ valid_dt (dt_of_us u) = true) /\
  (forall x, valid_dt x = true -> dt_of_us (us_of_dt x) = x).
Proof. split; [exact us_of_dt_of_us|exact dt_of_us_of_dt]. Qed.
Print Assumptions datetime_roundtrip.

(* jd_int / jd_frac: half-integer day part, fraction in [0,1), sum preserved - for every rational *)
Theorem jd_split_invariant : forall v : Q,
  (exists k : Z, jd_int_q v == Qz k + (1 # 2))%Q /\ (0 <= jd_frac_q v)%Q /\ (jd_frac_q v < 1)%Q /\
  (jd_int_q v + jd_frac_q v == v)%Q.
Proof. exact jd_split_spec. Qed.
Print Assumptions jd_split_invariant.

(* ... and it is *the* split: a half-integer day plus a fraction in [0,1) is returned unchanged *)
Theorem jd_split_on_grid : forall (k : Z) (f : Q),
  (0 <= f)%Q -> (f < 1)%Q -> (jd_int_q (Qz k + (1 # 2) + f) == Qz k + (1 # 2))%Q.
Proof. exact jd_int_of_grid. Qed.
Print Assumptions jd_split_on_grid.

(* GPS week / second of week / day of week: every instant (no bound on the week, roll-overs included) *)
Theorem gps_ws_roundtrip : forall T : Q,
  let '(w, s, d) := gpsws_of_jd T in
  (jd_of_gpsws (Qz w) s == T)%Q /\ (0 <= s)%Q /\ (s < 604800)%Q /\ 0 <= d < 7 /\
  (Qz d * 86400 <= s)%Q /\ (s < (Qz d + 1) * 86400)%Q.
Proof. exact gpsws_rt. Qed.
Print Assumptions gps_ws_roundtrip.

Theorem gps_ws_roundtrip_inv : forall (w : Z) (s : Q), (0 <= s)%Q -> (s < 604800)%Q ->
  let '(w', s', d') := gpsws_of_jd (jd_of_gpsws (Qz w) s) in w' = w /\ (s' == s)%Q /\ d' = Qfloor (s / 86400).
Proof. exact gpsws_rt'. Qed.
Print Assumptions gps_ws_roundtrip_inv.

(* mjd, gps seconds, Julian year: exact inverse pairs over Q *)
Theorem format_roundtrip_numeric : forall x : Q,
  (jd_of_mjd (mjd_of_jd x) == x)%Q /\ (mjd_of_jd (jd_of_mjd x) == x)%Q /\
  (jd_of_gpssec (gpssec_of_jd x) == x)%Q /\ (gpssec_of_jd (jd_of_gpssec x) == x)%Q /\
  (jd_of_jyear (jyear_of_jd x) == x)%Q /\ (jyear_of_jd (jd_of_jyear x) == x)%Q.
Proof.
  intros x. repeat split;
    [apply mjd_rt|apply mjd_rt'|apply gpssec_rt|apply gpssec_rt'|apply jyear_rt|apply jyear_rt'].
Qed.
Print Assumptions format_roundtrip_numeric.

(* decimal year, with the year length the code uses (leap seconds for utc, regenerated TAI-UTC rows): no bound on
   the year for tai/tcg/gps/tt; for utc the whole range in which the code can form datetime(year + 1, 1, 1) *)
Theorem format_roundtrip_decimalyear : forall (s : scale) (T : Q),
  match s with Sutc => 1 <= year_of_jd T <= 9998 | _ => True end ->
  (jd_of_decyear (ylen_of gen_taiutc s) (decyear_of_jd (ylen_of gen_taiutc s) T) == T)%Q.
Proof. exact decyear_rt_all. Qed.
Print Assumptions format_roundtrip_decimalyear.

(* fixed-width text: parsing a rendered record returns the values, for every pattern *)
Theorem text_parse_render_generic : forall p vs, fits p vs -> parse p (render p vs) = Some vs.
Proof. exact parse_render_app. Qed.
Print Assumptions text_parse_render_generic.

(* isot / iso / yday / date / yy:ddd:sssss / yyyy:ddd:sssss: parse (render u) = u truncated to the grid *)
Theorem text_format_parse_render : forall f u,
  year_ok f (dY (dt_of_us u)) = true -> us_of_text f (text_of_us f u) = Some (trunc_us f u).
Proof. exact text_roundtrip. Qed.
Print Assumptions text_format_parse_render.

(* the grid point lies below the instant within the resolution: 1 us / 1 s / 1 day; exact on the grid *)
Theorem text_within_resolution : forall f u,
  0 <= u - trunc_us f u < match f with Tdate => US_DAY | Tyy | Tyyyy => US_S | _ => 1 end /\
  trunc_us f (trunc_us f u) = trunc_us f u.
Proof. intros f u. split; [apply trunc_us_bounds|apply trunc_us_idem]. Qed.
Print Assumptions text_within_resolution.

(* all formats of one instant denote that instant (within the resolution of the format) *)
Theorem formats_agree : forall (s : scale) (u : Z),
  let T := jd_of_us u in
  1900 <= year_of_jd T <= 2100 ->
  1969 <= dY (dt_of_us u) <= 2068 ->
  (jd_of_mjd (mjd_of_jd T) == T)%Q /\
  (let '(w, sec, _) := gpsws_of_jd T in jd_of_gpsws (Qz w) sec == T)%Q /\
  (jd_of_gpssec (gpssec_of_jd T) == T)%Q /\
  (jd_of_jyear (jyear_of_jd T) == T)%Q /\
  (jd_of_decyear (ylen_of gen_taiutc s) (decyear_of_jd (ylen_of gen_taiutc s) T) == T)%Q /\
  us_of_dt (dt_of_us u) = u /\
  (jd_int_q T + jd_frac_q T == T)%Q /\
  (forall f, exists g, us_of_text f (text_of_us f u) = Some g /\
                       0 <= u - g < match f with Tdate => US_DAY | Tyy | Tyyyy => US_S | _ => 1 end).
Proof. exact formats_agree_lemma. Qed.
Print Assumptions formats_agree.

(* the specification model of _jd_delta / jd_int / jd_frac (quirks off) is the exact split *)
Theorem split_spec_is_exact : forall jd1 jd2 : Q,
  (fst (split_model all_off jd1 jd2) == jd_int_q (jd1 + jd2))%Q /\
  (snd (split_model all_off jd1 jd2) == jd_frac_q (jd1 + jd2))%Q.
Proof. exact split_all_off. Qed.
Print Assumptions split_spec_is_exact.

(* regenerated from the source: unit constants, format epochs, WeekSec fields *)
Theorem gen_constants_match_spec : gen_constants_ok = true.
Proof. exact gen_constants_ok_true. Qed.
Print Assumptions gen_constants_match_spec.

(* regenerated strftime patterns of isot / iso / yday / date are the patterns of the specification *)
Theorem gen_patterns_match_spec : patterns_ok gen_strftime spec_strftime_table = true.
Proof. exact gen_patterns_ok. Qed.
Print Assumptions gen_patterns_match_spec.

(* the registered formats are the 13 formats of the property *)
Theorem gen_formats_match_spec : strs_eqb gen_formats spec_formats = true.
Proof. exact gen_formats_ok. Qed.
Print Assumptions gen_formats_match_spec.

(* with the regenerated TAI-UTC rows a UTC year is never shorter than the calendar year, years 1..9998 *)
Theorem gen_utc_year_not_shorter : forall y, 1 <= y <= 9998 -> (cal_len y <= ylen_utc gen_taiutc y)%Q.
Proof. exact gen_ylen_ok_all. Qed.
Print Assumptions gen_utc_year_not_shorter.

(* quirk: with binary64 evaluation of the coded expression (day taken from the rounded sum jd1 + jd2) the
   invariant fails for a normalised pair: 2020-02-29T23:59:59.999990 gives a negative jd_frac and the wrong day *)
Theorem c02_rounded_sum_refuted :
  exists jd1 jd2 : Q,
    (exists k : Z, jd1 == Qz k + (1 # 2))%Q /\ (0 <= jd2)%Q /\ (jd2 < 1)%Q /\
    (snd (split_model quirk_rounded_sum jd1 jd2) < 0)%Q /\
    ~ (fst (split_model quirk_rounded_sum jd1 jd2) == jd_int_q (jd1 + jd2))%Q.
Proof. exact rounded_sum_refuted. Qed.
Print Assumptions c02_rounded_sum_refuted.

(* ... and outside its class the quirk does nothing: for a normalised pair (half-integer jd1, years 1030..6770, binary64
   jd2 not in the last 2^-31 day = 40 us) binary64 evaluation of the coded expression is the exact split *)
Theorem c02_rounded_sum_agrees_outside : forall (k : Z) (jd2 : Q),
  2097153 <= k <= 4194302 -> (0 <= jd2)%Q -> (jd2 <= 1 - (1 # 2147483648))%Q -> (rn53 jd2 == jd2)%Q ->
  let jd1 := (Qz k + (1 # 2))%Q in
  (fst (split_model quirk_rounded_sum jd1 jd2) == fst (split_model all_off jd1 jd2))%Q /\
  (snd (split_model quirk_rounded_sum jd1 jd2) == snd (split_model all_off jd1 jd2))%Q /\
  (fst (split_model quirk_rounded_sum jd1 jd2) == jd1)%Q /\ (snd (split_model quirk_rounded_sum jd1 jd2) == jd2)%Q.
Proof. exact rounded_sum_agrees_outside_lemma. Qed.
Print Assumptions c02_rounded_sum_agrees_outside.

(* every format, every instant of the domain: the value read from T denotes T - exactly for the numeric formats,
   within half a microsecond (rounding of timedelta) plus the resolution of the format (0 / 1 s / 1 day) otherwise *)
Theorem format_roundtrip_all : forall (s : scale) (f : fmt) (T : Q),
  fmt_valid s f = true -> in_domain s f T = true ->
  exists v T', from_T gen_taiutc s f T = Some v /\ to_Tm gen_taiutc s f v = Some T' /\
    if on_us_grid f
    then (- (1 # 2) <= usq_of_jd T - usq_of_jd T')%Q /\ (usq_of_jd T - usq_of_jd T' <= Qz (res_us f) + (1 # 2))%Q
    else (T' == T)%Q.
Proof. exact format_roundtrip_all_lemma. Qed.
Print Assumptions format_roundtrip_all.

(* arrays: element i of the result is the scalar function of element i of the input, nothing else *)
Theorem pointwise : forall rows s f,
  (forall jd1 jd2 i, nth_error (from_jds_list rows s f jd1 jd2) i =
     match nth_error jd1 i, nth_error jd2 i with
     | Some a, Some b => Some (from_T rows s f (a + b))
     | _, _ => None
     end) /\
  (forall vs i, nth_error (to_jds_list rows s f vs) i =
     match nth_error vs i with Some v => Some (to_Tm rows s f v) | None => None end) /\
  (forall jd1 jd2 jd1' jd2' i, nth_error jd1 i = nth_error jd1' i -> nth_error jd2 i = nth_error jd2' i ->
     nth_error (from_jds_list rows s f jd1 jd2) i = nth_error (from_jds_list rows s f jd1' jd2') i) /\
  (forall vs vs' i, nth_error vs i = nth_error vs' i ->
     nth_error (to_jds_list rows s f vs) i = nth_error (to_jds_list rows s f vs') i) /\
  (forall jd1 jd2, List.length (from_jds_list rows s f jd1 jd2) = Nat.min (List.length jd1) (List.length jd2)) /\
  (forall vs, to_jds_list rows s f vs = map (to_Tm rows s f) vs).
Proof.
  intros rows s f. repeat split.
  - apply from_jds_list_nth.
  - apply to_jds_list_nth.
  - apply from_jds_list_local.
  - apply to_jds_list_local.
  - apply from_jds_list_length.
  - apply to_jds_list_map.
Qed.
Print Assumptions pointwise.

(* scalar, length-1 and element i of length-n inputs give the same value *)
Theorem shape_identity : forall rows s f,
  (forall jd1 jd2 i a b, nth_error jd1 i = Some a -> nth_error jd2 i = Some b ->
     from_jds_list rows s f [a] [b] = [from_T rows s f (a + b)] /\
     nth_error (from_jds_list rows s f jd1 jd2) i = Some (from_T rows s f (a + b)) /\
     nth_error (from_jds_list rows s f jd1 jd2) i = nth_error (from_jds_list rows s f [a] [b]) 0) /\
  (forall vs i v, nth_error vs i = Some v ->
     to_jds_list rows s f [v] = [to_Tm rows s f v] /\
     nth_error (to_jds_list rows s f vs) i = Some (to_Tm rows s f v) /\
     nth_error (to_jds_list rows s f vs) i = nth_error (to_jds_list rows s f [v]) 0).
Proof. intros rows s f. split; [apply shape_identity_from|apply shape_identity_to]. Qed.
Print Assumptions shape_identity.

(* non-vacuity *)
Example ex_agrees_outside_hyp : 2097153 <= 2458908 <= 4194302 /\ (rn53 (1 # 2) == 1 # 2)%Q /\ (rn53 w_jd2 == w_jd2)%Q.
Proof. split; [split; discriminate|]. split; vm_compute; reflexivity. Qed.
Example ex_roundtrip_all_domain : in_domain Sutc Fyy (jd_of_us 636292800000001) = true /\ in_domain Sutc Fdecimalyear (jd_of_us 0) = true.
Proof. split; vm_compute; reflexivity. Qed.
Example ex_from_T : from_T gen_taiutc Sgps Fisot (jd_of_us 636292800000001) = Some (MStr "2020-02-29T12:00:00.000001").
Proof. vm_compute. reflexivity. Qed.
Example ex_civil : civil_from_days 18321 = (2020, 2, 29) /\ days_from_civil 1900 1 1 = -25567.
Proof. split; reflexivity. Qed.
Example ex_isot : text_of_us Tisot 636292800000001 = "2020-02-29T12:00:00.000001"%string.
Proof. vm_compute. reflexivity. Qed.
Example ex_yy : us_of_text Tyy "69:001:00000" = Some (us_of_dt (Dt 1969 1 1 0 0 0 0)) /\
                 us_of_text Tyy "68:366:86399" = Some (us_of_dt (Dt 2068 12 31 23 59 59 0)).
Proof. split; vm_compute; reflexivity. Qed.
Example ex_gps_week_1024 : let '(w, s, d) := gpsws_of_jd (4902825 # 2) in w = 1024 /\ (s == 0)%Q /\ d = 0.
Proof. vm_compute. repeat split. Qed.
Example ex_utc_2016 : (ylen_utc gen_taiutc 2016 == 366 + (1 # 86400))%Q /\ (ylen_utc gen_taiutc 2017 == 365)%Q.
Proof. split; vm_compute; reflexivity. Qed.
Example ex_formats_agree_hyp : 1900 <= year_of_jd (jd_of_us 636292800000001) <= 2100 /\ 1969 <= dY (dt_of_us 636292800000001) <= 2068.
Proof. vm_compute. repeat split; discriminate. Qed.
