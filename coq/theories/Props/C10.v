(* C10 - Writing a Dataset to disk and reading it back is the identity.
   Only statements, each closed by `exact <lemma>` and followed by Print Assumptions.
   (harness/core.py reads the Print Assumptions output in this order.) *)
From Coq Require Import ZArith List Bool String Ascii Permutation.
From Verif Require Import Lib.Dyadic Model.C10_Attr Model.C10_File Proofs.C10_Attr Proofs.C10_File Proofs.C10_FileRT Proofs.C10_FileTop Model.C10_Session Proofs.C10_Session Model.C10_Graph Proofs.C10_Graph Proofs.C10_GraphRT.
Import ListNotations.
Open Scope Z_scope.

(* ---------------------------------------------------------------- (a) the attribute codec *)

(* specification codec (literal_eval that knows nan / inf, no regex): every tree that can be stored survives *)
Theorem attr_roundtrip : forall t, encodable t = true ->
  exists e, encode false t = Ok e /\ decode false e = Some t.
Proof. exact attr_roundtrip_spec. Qed.
Print Assumptions attr_roundtrip.

(* the code as it is (regex on the raw text + _recursive_replace): every tree, any depth and width, none of whose
   strings contains nan / inf as a word and whose dict keys hold no NaN / Inf, survives - NaN and +-Inf floats at any
   depth in value positions included.  Partial: the property asks this of every tree (see the refutations). *)
Theorem attr_roundtrip_partial : forall t, encodable t = true -> clean t = true ->
  exists e, encode true t = Ok e /\ decode true e = Some t.
Proof. exact attr_roundtrip_quirk. Qed.
Print Assumptions attr_roundtrip_partial.

(* literal_eval inverts repr on token level, for every nesting *)
Theorem literal_eval_inverts_repr : forall t, literal_eval (print t) = Some t.
Proof. exact literal_eval_print. Qed.
Print Assumptions literal_eval_inverts_repr.

(* escapes of repr(str): the literal's value is the string, for either quote character *)
Theorem str_literal_roundtrip : forall q s, (q = squote \/ q = dquote) -> unescape (escape q s) = Some s.
Proof. exact unescape_escape. Qed.
Print Assumptions str_literal_roundtrip.

(* different trees are stored differently *)
Theorem attr_encode_injective : forall t t' e, encode false t = Ok e -> encode false t' = Ok e -> t = t'.
Proof. exact encode_injective_spec. Qed.
Print Assumptions attr_encode_injective.

(* the regex is NOT harmless: nested -> write raises; top level -> silently changed; double-quoted literal -> silently changed;
   while the specification codec handles the same values *)
Theorem c10_nan_word_refuted :
  encode true (Dict [(Str (la "a"), Str (la "nan"))]) = Raise SyntaxErr /\
  decode true (EStr (la "nan")) = Some (Str (la "'nan'")) /\
  (exists e, encode true (List [Str (la "it's nan")]) = Ok e /\ decode true e = Some (List [Str (la "it's 'nan'")])) /\
  (exists e, encode false (Dict [(Str (la "a"), Str (la "nan"))]) = Ok e /\
             decode false e = Some (Dict [(Str (la "a"), Str (la "nan"))])).
Proof.
  split; [exact nan_word_encode_raises|]. split; [exact nan_word_str_corrupted|].
  split; [exact nan_word_dq_corrupted|exact nan_word_spec_ok].
Qed.
Print Assumptions c10_nan_word_refuted.

(* _recursive_replace skips dict keys: {inf: 1} comes back as {'inf': 1} *)
Theorem c10_inf_key_refuted :
  exists e, encode true (Dict [(Flt (FInf false), Int 1)]) = Ok e /\ decode true e = Some (Dict [(Str (la "inf"), Int 1)]).
Proof. exact inf_key_corrupted. Qed.
Print Assumptions c10_inf_key_refuted.

(* ---------------------------------------------------------------- (b) the file *)

(* THE round trip, specification (all quirks off): for every well-formed dataset (wf: distinct paths, sane names,
   encodable meta), shaped like a tree of collections, every write level, and every ACYCLIC reference topology
   (rank decreases along references - forward and backward references, chains, into and out of collections) whose
   references stay inside the written part (closed): the file can be written, can be read, and what is read is the
   dataset restricted to the level - same fields in the same order with the same kind, level, unit, multiplier,
   payload (class, attributes, arrays) and the same references (as a finite map), same meta, vars, num_obs. *)
Theorem file_roundtrip : forall d lvl rank,
  wf d = true -> tree_shaped d = true -> closed lvl d = true -> ranked rank d ->
  exists f, write all_off d lvl = Some f /\ exists d', read all_off f = Some d' /\ dataset_equiv d' (restrict lvl d).
Proof. exact file_roundtrip_final. Qed.
Print Assumptions file_roundtrip.

(* a reference to a field is, after reading, THE object of that field (same object number in the heap of objects
   created while reading), not a copy *)
Theorem reference_identity : forall d lvl rank f st fl,
  wf d = true -> tree_shaped d = true -> closed lvl d = true -> ranked rank d ->
  write all_off d lvl = Some f -> read_state all_off f = Some (st, fl) ->
  forall p l a q, In (p, ELeaf l) (d_fields d) -> (lvl <=? l_level l)%Z = true -> In (a, RField q) (l_refs l) ->
  exists k v u m idp k' v' u' m' idq o,
    In (p, RLeaf k v u m idp) fl /\ In (q, RLeaf k' v' u' m' idq) fl /\
    nlookup idp (heap st) = Some o /\ In (a, idq) (r_refs o).
Proof. exact reference_identity_final. Qed.
Print Assumptions reference_identity.

(* ... and different fields are different objects *)
Theorem field_objects_distinct : forall d lvl rank f st fl,
  wf d = true -> tree_shaped d = true -> closed lvl d = true -> ranked rank d ->
  write all_off d lvl = Some f -> read_state all_off f = Some (st, fl) ->
  forall p1 k1 v1 u1 m1 id1 p2 k2 v2 u2 m2 id2,
    In (p1, RLeaf k1 v1 u1 m1 id1) fl -> In (p2, RLeaf k2 v2 u2 m2 id2) fl -> p1 <> p2 -> id1 <> id2.
Proof. exact field_ids_distinct_final. Qed.
Print Assumptions field_objects_distinct.

(* the fields of the expected result are exactly the fields at or above the level (collections always) *)
Theorem restrict_drops_exactly_below_level : forall d lvl p,
  In p (map fst (d_fields (restrict lvl d))) <-> exists e, In (p, e) (d_fields d) /\ kept lvl e = true.
Proof. exact restrict_fields_lemma. Qed.
Print Assumptions restrict_drops_exactly_below_level.

(* defects of the code as found, each alone, on a well-formed dataset that the specification round-trips *)
Theorem c10_dangling_ref_refuted :
  wf w_dangling = true /\ roundtrips all_off w_dangling 3 = true /\
  exists f, write (set_q 3 all_off) w_dangling 3 = Some f /\ read (set_q 3 all_off) f = None.
Proof. exact dangling_refuted. Qed.
Print Assumptions c10_dangling_ref_refuted.

Theorem c10_parent_lookup_refuted :
  wf w_parent = true /\ closed 1 w_parent = true /\ roundtrips all_off w_parent 1 = true /\
  exists f, write (set_q 5 all_off) w_parent 1 = Some f /\ read (set_q 5 all_off) f = None.
Proof. exact parent_lookup_refuted. Qed.
Print Assumptions c10_parent_lookup_refuted.

Theorem c10_shallow_memo_refuted :
  wf w_shallow = true /\ closed 1 w_shallow = true /\ roundtrips all_off w_shallow 1 = true /\
  exists f d', write (set_q 4 all_off) w_shallow 1 = Some f /\ read (set_q 4 all_off) f = Some d' /\
               dataset_eqb d' (restrict 1 w_shallow) = false.
Proof. exact shallow_memo_refuted. Qed.
Print Assumptions c10_shallow_memo_refuted.

Theorem c10_np_string_refuted :
  wf w_text = true /\ roundtrips all_off w_text 1 = true /\ write (set_q 6 all_off) w_text 1 = None.
Proof. exact np_string_refuted. Qed.
Print Assumptions c10_np_string_refuted.

Theorem c10_meta_nan_file_refuted :
  wf w_meta = true /\ roundtrips all_off w_meta 1 = true /\ roundtrips (set_q 2 all_off) w_meta 1 = false.
Proof. exact meta_nan_refuted. Qed.
Print Assumptions c10_meta_nan_file_refuted.

(* ---------------------------------------------------------------- (d) the full object graph (Model/C10_Graph.v) *)

(* THE round trip for the full object graph, specification: for every well-formed dataset graph (gwf: tree of collections,
   distinct paths and keys, closed object table, HDF5 names unique), EVERY write level and every ACYCLIC reference graph -
   private objects shared between fields, private objects with references of their own (to fields or private objects),
   references to fields that the level omits (no `closed` hypothesis), forward references read on demand through group
   paths - the file can be written, can be read, and what is read is EXACTLY the expected dataset: the fields at or above
   the level, in order, with kind, level, unit, multiplier; every object unfolded, where a reference to the object of a
   written field is that field and any other reference is the referenced object itself (equal in value) *)
Theorem graph_roundtrip : forall g lvl rank, gwf g = true -> granked rank g ->
  exists f, write2 false g lvl = Some f /\ read2 false f = Some (expected lvl g).
Proof. exact graph_roundtrip_lemma. Qed.
Print Assumptions graph_roundtrip.

(* identity: the reference of a written field to a written field holds THE object number of that field *)
Theorem graph_reference_identity : forall g lvl rank f st fl, gwf g = true -> granked rank g ->
  write2 false g lvl = Some f -> read_fields2 false f st02 (f2_groups f) = Some (st, fl) ->
  forall p nd a q, klookup (KF p) (g_objs g) = Some nd -> written_leaf lvl (g_fields g) p = true ->
    In (a, KF q) (n_refs nd) -> written_leaf lvl (g_fields g) q = true ->
  exists k v u m idp k' v' u' m' idq o,
    In (p, RLeaf2 k v u m idp) fl /\ In (q, RLeaf2 k' v' u' m' idq) fl /\
    nlookup idp (heap2 st) = Some o /\ In (a, idq) (r_refs o).
Proof. exact graph_reference_identity_lemma. Qed.
Print Assumptions graph_reference_identity.

Theorem graph_field_objects_distinct : forall g lvl rank f st fl, gwf g = true -> granked rank g ->
  write2 false g lvl = Some f -> read_fields2 false f st02 (f2_groups f) = Some (st, fl) ->
  forall p1 k1 v1 u1 m1 id1 p2 k2 v2 u2 m2 id2,
  In (p1, RLeaf2 k1 v1 u1 m1 id1) fl -> In (p2, RLeaf2 k2 v2 u2 m2 id2) fl -> p1 <> p2 -> id1 <> id2.
Proof. exact graph_field_ids_distinct_lemma. Qed.
Print Assumptions graph_field_objects_distinct.

(* naming embedded attribute objects by the bare attribute name (the code before fixes/C10-5.diff) confuses a shared
   embedded object with another field's embedded object of the same attribute; group paths (specification) do not *)
Theorem c10_bare_names_refuted :
  roundtrips2 false w_shared 1 = true /\ roundtrips2 true w_shared 1 = false.
Proof. exact bare_names_refuted. Qed.
Print Assumptions c10_bare_names_refuted.

(* shared embedded object with an embedded object of its own + references to a field omitted by the level: round trip *)
Theorem graph_rich_example :
  roundtrips2 false w_rich 3 = true /\ roundtrips2 false w_rich 1 = true /\
  map fst (t_fields (expected 3 w_rich)) = [["a"%string]; ["b"%string]].
Proof. exact rich_roundtrips. Qed.
Print Assumptions graph_rich_example.

(* ---------------------------------------------------------------- (c) history independence *)

(* `decode` and `read` are Gallina functions of the stored value / the file.  In the session model with explicit state
   (decodes interleaved with in-place mutations of earlier results) the specification answers every decode with the
   decode of the stored value, whatever happened before *)
Theorem decode_history_independent : forall q ops st, srun q false st ops = map (decode q) (decs ops).
Proof. exact srun_pure. Qed.
Print Assumptions decode_history_independent.

(* a memo of parsed attribute texts (lru_cache on the parser) is NOT history independent *)
Theorem c10_parse_memo_refuted :
  srun false true [] ops_mut = [Some (List [Int 1; Int 2]); Some (List [Int 1; Int 2; Int 3])] /\
  srun false false [] ops_mut = [Some (List [Int 1; Int 2]); Some (List [Int 1; Int 2])].
Proof. exact memo_refuted. Qed.
Print Assumptions c10_parse_memo_refuted.

(* non-vacuity: the hypotheses of the partial codec theorem hold for a tree with special floats at depth *)
Example attr_partial_nonvacuous :
  let t := Dict [(Str (la "a"), List [Flt FNan; Flt (FInf true); Tuple [Flt (FInf false)]])] in
  encodable t = true /\ clean t = true /\ no_special t = false.
Proof. vm_compute. auto. Qed.

(* non-vacuity of file_roundtrip: a forward reference inside a collection meets all hypotheses *)
Example file_roundtrip_nonvacuous :
  wf w_parent = true /\ tree_shaped w_parent = true /\ closed 1 w_parent = true /\
  ranked (fun p => match p with ["g"; "site"] => 1%nat | _ => 0%nat end) w_parent.
Proof.
  repeat (split; [vm_compute; reflexivity|]).
  intros p l a q Hin Hr. cbn in Hin.
  destruct Hin as [H|[H|[H|[]]]]; inversion H; subst; cbn in Hr.
  - destruct Hr as [Hr|[]]. inversion Hr; subst. cbn. auto.
  - destruct Hr.
Qed.

(* non-vacuity of graph_roundtrip: shared private object with a private object of its own, reference to an omitted field *)
Example graph_roundtrip_nonvacuous : gwf ex_g = true /\ granked ex_rank ex_g /\ gwf ex_g2 = true /\ granked ex_rank2 ex_g2.
Proof. split; [exact ex_gwf|]. split; [exact ex_granked|]. split; [exact ex2_gwf|exact ex2_granked]. Qed.
