(* C15 - ANTEX antenna files are parsed into exactly the calibrations they contain.
   Only statements, each closed by `exact <lemma>` and followed by Print Assumptions.
   Model: Model/C15_Antex.v ([parse q tbl lines]: the chain parser on text lines, with quirk switches [q] and the
   label/field table [tbl]; specification = [parse all_off]); file models, rendering and [expected]: same file;
   well-formedness of file models: Model/C15_Wf.v. *)
From Coq Require Import Reals ZArith QArith Qabs Qreals List Bool String Ascii.
From Verif Require Import Lib.Dyadic Lib.Text Model.C15_Antex Model.C15_Wf Gen.C15_AntexFields Model.C15_Check
                          Proofs.C15_Lines Proofs.C15_Covers Proofs.C15_Antex Proofs.C15_Pi.
Import ListNotations.
Local Open Scope string_scope.

(* the label/field table re-read from the source covers the ANTEX 1.4 record layouts (every field's slot contains
   the standard's columns, touches no other field, ends before the label), names the modelled parse methods, uses
   no feature the model does not know; Unit.millimeter2meter is the double nearest to 1/1000 *)
Theorem antex_fields_wf : fields_wf = true.
Proof. exact fields_wf_true. Qed.
Print Assumptions antex_fields_wf.

(* the label / end_marker / skip_line lambdas behave as the model's on the probe lines *)
Theorem antex_lambdas_probe : lambdas_probe_ok = true.
Proof. exact lambdas_probe_true. Qed.
Print Assumptions antex_lambdas_probe.

(* comments, blank lines, unknown records: dropping any lines for which no parse method is called and which do not
   end an antenna block never changes the result (any table, any quirks) *)
Theorem comments_ignored : forall q tbl keep lines,
  (forall l, relevant tbl l = true -> keep l = true) ->
  parse_body q tbl (filter keep lines) = parse_body q tbl lines.
Proof. exact comments_ignored_body. Qed.
Print Assumptions comments_ignored.

(* THE property, file level: reading the rendering of any well-formed file model (any number of antennas,
   frequencies, rows, columns; receiver and satellite blocks; distinct antenna/validity keys) with the standard's
   table yields exactly the calibrations it contains, each once, in order *)
Theorem antex_file_roundtrip : forall m,
  good_file m = true -> parse all_off std_table (render_file m) = Ok (expected m).
Proof. exact roundtrip. Qed.
Print Assumptions antex_file_roundtrip.

(* any label/field table that covers the standard's (same labels and parse methods; every field slot contains the
   standard's columns of that field, ends before the label column and touches no other field of the record) reads
   every rendered well-formed file exactly like the standard's table - with or without quirks *)
Theorem gen_table_reads_like_std : forall q gen m,
  table_covers gen std_table = true -> good_file m = true ->
  parse q gen (render_file m) = parse q std_table (render_file m).
Proof. exact reads_like_std. Qed.
Print Assumptions gen_table_reads_like_std.

(* hence the roundtrip holds for the table re-read from the source on this run (antex_fields_wf) *)
Theorem antex_file_roundtrip_gen : forall m,
  good_file m = true -> parse all_off antex_corr_table (render_file m) = Ok (expected m).
Proof. exact roundtrip_gen. Qed.
Print Assumptions antex_file_roundtrip_gen.

(* the data of an AntennaCalibration object are exactly the calibrations of the file: in particular every validity
   period of a PRN keeps its own printed end (or datetime.max), whatever the other periods of that PRN are *)
Theorem antenna_calibration_entry_point : forall m,
  good_file m = true -> calibration_data all_off antex_corr_table (render_file m) = Ok (expected m).
Proof. exact roundtrip_gen. Qed.
Print Assumptions antenna_calibration_entry_point.

(* ... also when arbitrary ignorable lines are interspersed *)
Theorem antex_file_roundtrip_with_comments : forall m lines keep,
  good_file m = true ->
  (forall l, relevant std_table l = true -> keep l = true) ->
  filter keep lines = render_body m ->
  parse_body all_off std_table lines = Ok (expected m).
Proof. exact roundtrip_with_comments. Qed.
Print Assumptions antex_file_roundtrip_with_comments.

(* every frequency section of every antenna: offsets = printed mm x 1/1000, NOAZI = its own row, azimuth pattern =
   exactly its own rows (one per azimuth row of that section, each with that row's values) *)
Theorem frequency_section_spec : forall m a f,
  good_file m = true -> In a m -> In f (am_freqs a) ->
  exists dat, parse all_off std_table (render_file m) = Ok dat /\
    In (expected_key a, expected_entry a) dat /\
    In (fm_code f,
        {| fe_neu := [tokq (fm_north f) * mm2m; tokq (fm_east f) * mm2m; tokq (fm_up f) * mm2m]%Q;
           fe_noazi := map tokq (fm_noazi f);
           fe_azi := match fm_rows f with
                     | [] => None
                     | rows => Some (AziQ (map (fun r => map tokq (snd r)) rows))
                     end |}) (en_freqs (expected_entry a)).
Proof. exact frequency_sections. Qed.
Print Assumptions frequency_section_spec.

Theorem frequency_pattern_shape : forall f rows,
  fe_azi (snd (expected_freq f)) = Some (AziQ rows) ->
  List.length rows = List.length (fm_rows f) /\
  forall i, (i < List.length rows)%nat -> nth i rows [] = map tokq (snd (nth i (fm_rows f) ("", []))).
Proof. exact azi_shape. Qed.
Print Assumptions frequency_pattern_shape.

(* grids: zenith grid zen1, zen1+dzen, .., zen1+k*dzen gives the k+1 elevations 90 - zenith (any positive step);
   azimuth grid 0, dazi, .., 360 *)
Theorem grid_spec : forall zen1 dzen dazi (k n : nat),
  (0 < dzen)%Q -> (0 < dazi)%Q -> (inject_Z (Z.of_nat n) * dazi == 360)%Q ->
  let ge := elevation_grid all_off zen1 (zen1 + inject_Z (Z.of_nat k) * dzen) dzen in
  let ga := azimuth_grid all_off dazi in
  (List.length ge = S k /\
   forall i, (i <= k)%nat -> (nth i ge 0 == 90 - (zen1 + inject_Z (Z.of_nat i) * dzen))%Q) /\
  (List.length ga = S n /\
   (forall i, (i <= n)%nat -> (nth i ga 0 == inject_Z (Z.of_nat i) * dazi)%Q) /\ (nth n ga 0 == 360)%Q).
Proof.
  intros zen1 dzen dazi k n Hz Ha Hn. split; [exact (elevation_grid_spec zen1 dzen k Hz)|exact (azimuth_grid_spec dazi n Ha Hn)].
Qed.
Print Assumptions grid_spec.

(* validity dates, from the text line: the printed date and time plus the printed seconds (as seconds), in
   microseconds since 1970-01-01; [calendar] ties days_from_civil to the calendar (consecutive days are consecutive
   numbers, for all years 1..9999) *)
Theorem valid_from_until_spec : forall label pname key t c d,
  (label = "VALID FROM" /\ pname = "parse_valid_from" /\ key = "valid_from") \/
  (label = "VALID UNTIL" /\ pname = "parse_valid_until" /\ key = "valid_until") ->
  wf_valid (Some t) = true -> sem_valid (Some t) = true ->
  step all_off std_table (c, d) (render_valid t label) = Ok (cset key (CT (valid_us t)) c, d).
Proof. exact valid_line_spec. Qed.
Print Assumptions valid_from_until_spec.

Theorem calendar : forall y m d,
  (1 <= y <= 9999)%Z -> (1 <= m <= 12)%Z ->
  days_from_civil 1970 1 1 = 0%Z /\
  days_from_civil y m (d + 1) = (days_from_civil y m d + 1)%Z /\
  (days_from_civil y m (days_in_month y m) + 1)%Z
    = (if (m =? 12)%Z then days_from_civil (y + 1) 1 1 else days_from_civil y (m + 1) 1).
Proof. exact calendar_consecutive. Qed.
Print Assumptions calendar.

(* every receiver antenna / satellite validity period appears exactly once, under its own key, in file order;
   a block repeating a PRN with the same VALID FROM is refused *)
Theorem unique_keys : forall m, good_file m = true ->
  exists dat, parse all_off std_table (render_file m) = Ok dat /\
    map fst dat = map expected_key m /\ keys_distinct (map fst dat) = true.
Proof. exact keys_once. Qed.
Print Assumptions unique_keys.

Theorem duplicate_validity_refused : parse all_off std_table (render_file [wa; wa]) = Err "ParserError".
Proof. exact duplicate_refused. Qed.
Print Assumptions duplicate_validity_refused.

(* the rational bracket of pi used by the grid oracle *)
Theorem pi_bracket : (Q2R pi_lo < PI < Q2R pi_hi)%R.
Proof. exact pi_bracket_lemma. Qed.
Print Assumptions pi_bracket.

(* each quirk of the current code is NOT the specification: on a well-formed file the reader with the quirk does not
   deliver the file's content (witness_detail in Proofs/C15_Antex.v says what differs) *)
Theorem c15_azi_accumulates_refuted :
  good_file wfile = true /\ parse (quirks_of_mask 1) std_table (render_file wfile) <> Ok (expected wfile).
Proof. exact accumulates_refuted. Qed.
Print Assumptions c15_azi_accumulates_refuted.

Theorem c15_azi_strings_refuted :
  good_file wfile = true /\ parse (quirks_of_mask 2) std_table (render_file wfile) <> Ok (expected wfile).
Proof. exact strings_refuted. Qed.
Print Assumptions c15_azi_strings_refuted.

Theorem c15_seconds_as_days_refuted :
  good_file wfile = true /\ parse (quirks_of_mask 4) std_table (render_file wfile) <> Ok (expected wfile).
Proof. exact seconds_refuted. Qed.
Print Assumptions c15_seconds_as_days_refuted.

Theorem c15_grid_count_float_refuted :
  good_file wfile = true /\ parse (quirks_of_mask 8) std_table (render_file wfile) <> Ok (expected wfile).
Proof. exact count_float_refuted. Qed.
Print Assumptions c15_grid_count_float_refuted.

(* a satellite block without the optional VALID FROM record: the specification files it under datetime.min, the
   current code fails *)
Theorem c15_sat_without_valid_from_refuted :
  good_file wfile2 = true /\ parse (quirks_of_mask 16) std_table (render_file wfile2) = Err "UnboundLocalError"
  /\ map fst (expected wfile2) = [("E11", Some min_us); ("AERAT1675_120   SPKE", None)].
Proof. exact sat_without_from_refuted. Qed.
Print Assumptions c15_sat_without_valid_from_refuted.

(* a satellite block without VALID UNTIL is "still valid": valid_until = datetime.max; stamping it with the time of
   parsing (the behaviour before /repo 704e441) is not the specification *)
Theorem c15_valid_until_now_refuted :
  good_file wfile2 = true /\ parse (quirks_of_mask 32) std_table (render_file wfile2) <> Ok (expected wfile2)
  /\ match expected wfile2 with
     | (_, e) :: _ => match en_sat e with Some s => si_until s = Some max_us | None => False end
     | [] => False
     end.
Proof. exact until_now_refuted. Qed.
Print Assumptions c15_valid_until_now_refuted.

(* non-vacuity: a concrete two-frequency satellite block with azimuth rows, a FREQ RMS section, a non-dyadic zenith
   step and 59.9999999 s in VALID UNTIL satisfies the hypotheses of the theorems above *)
Example good_file_nonvacuous :
  good_file wfile = true /\ List.length (render_file wfile) = 32%nat.
Proof. vm_compute. split; reflexivity. Qed.
