(* Props/C13.v - proof obligations of property C13 (SP3 orbit files). *)
From Coq Require Import Ascii String List Bool Arith ZArith QArith Qabs.
From Verif Require Import Lib.Text Lib.Decimal Lib.Fixed Lib.Dyadic Spec.C13_Sp3Format Model.C13_Sp3 Gen.C13_Sp3Fields Proofs.C13_Sp3 Proofs.C13_Header.
From Verif Require Model.C02_Formats Proofs.C13_Jdn.
Import ListNotations.
Local Open Scope string_scope.

(* The column tables regenerated from midgard/parsers/sp3.py on this run are well formed (ordered, non-overlapping,
   header fields inside 60 columns, data fields inside 80). *)
Theorem sp3_fields_wf : exists T, gen_tables = Some T /\ all_tables_wf T = true.
Proof. exact sp3_fields_wf_l. Qed.
Print Assumptions sp3_fields_wf.

(* ... and are exactly the SP3-c/d layout of the format documents (Spec/C13_Sp3Format.v). *)
Theorem sp3_fields_match_spec : gen_tables = Some spec_tables.
Proof. exact sp3_fields_match_spec_l. Qed.
Print Assumptions sp3_fields_match_spec.

Theorem sp3_labels_spec :
  gen_header_label_len = 2%nat /\ gen_data_label_len = 1%nat /\
  gen_header_ends_before_star = true /\ gen_data_ends_before_star = true /\
  gen_header_has_skip_or_callback = false /\ gen_data_has_skip_or_callback = false /\
  gen_data_parsers = [("*", "_parse_date"); ("P", "_parse_position"); ("V", "_parse_velocity")].
Proof. exact sp3_labels_spec_l. Qed.
Print Assumptions sp3_labels_spec.

Theorem constants_spec :
  dy_toQ gen_c = Some c_light /\
  dy_toQ gen_kilometer2meter = Some km_in_m /\
  is_nearest_double us_in_s gen_microsecond2second = true /\
  is_nearest_double mm_in_m gen_millimeter2meter = true /\
  is_nearest_double ps_in_s gen_picosecond2second = true.
Proof. exact constants_spec_l. Qed.
Print Assumptions constants_spec.

(* ------------------------------------------------------------------------------------------------
   Position record (columns of Spec/C13_Sp3Format.spec_P).  [render_P] writes the 80-column record with every value
   right-justified in its columns; x y z clk are the numbers of the file in units of 1e-6 (F14.6), s1 s2 s3 sc the
   optional accuracy exponents, f1..f4 the flag characters. *)
Theorem position_record_roundtrip :
  forall m time v bp bc sat0 satr x y z clk s1 s2 s3 sc f1 f2 f3 f4,
    meta_get "version" m = Some (MStr v) -> v <> "a" ->
    meta_num "base_posvel" m = Some bp -> meta_num "base_clkrate" m = Some bc ->
    trimmed (String sat0 satr) = true -> (len (String sat0 satr) <= 3)%nat ->
    fits_F 14 6 x -> fits_F 14 6 y -> fits_F 14 6 z -> fits_F 14 6 clk ->
    code_ok 2 s1 -> code_ok 2 s2 -> code_ok 2 s3 -> code_ok 3 sc ->
    flag_ok f1 -> flag_ok f2 -> flag_ok f3 -> flag_ok f4 ->
    let line := render_P (String sat0 satr) x y z clk s1 s2 s3 sc f1 f2 f3 f4 in
    len line = 80%nat /\ slice 0 1 line = "P" /\
    parse_record spec_P line = P_vals (String sat0 satr) x y z clk s1 s2 s3 sc f1 f2 f3 f4 /\
    position_record all_off m time (parse_record spec_P line) =
    Some (mkR time (String sat0 satr) [pos_sem x; pos_sem y; pos_sem z] (clk_sem clk)
              [sig_sem bp mm_in_m s1; sig_sem bp mm_in_m s2; sig_sem bp mm_in_m s3]
              (sig_sem bc (ps_in_s * c_light) sc) (String sat0 "") [code_sem s1; code_sem s2; code_sem s3; code_sem sc]).
Proof. exact position_record_roundtrip_l. Qed.
Print Assumptions position_record_roundtrip.

(* The same record with its trailing blanks removed (lines cut after the clock field, after the accuracy columns, ...;
   this is also what ChainParser.read_data does with every line) parses to the same values. *)
Theorem position_record_cut_roundtrip :
  forall sat x y z clk s1 s2 s3 sc f1 f2 f3 f4,
    fits spec_P (P_vals sat x y z clk s1 s2 s3 sc f1 f2 f3 f4) ->
    parse_record spec_P (rstrip (render_P sat x y z clk s1 s2 s3 sc f1 f2 f3 f4)) =
    P_vals sat x y z clk s1 s2 s3 sc f1 f2 f3 f4.
Proof. exact position_record_cut_roundtrip_l. Qed.
Print Assumptions position_record_cut_roundtrip.

(* kilometres -> metres (x 1000), microseconds -> metres of light travel (x 1e-6 x c); x in units of 1e-6 *)
Theorem units_spec :
  forall w x,
    (x <> 0%Z -> exists q, pos_value (render_F w 6 x) = Some (FNum q) /\ q == inject_Z x / 1000) /\
    (x <> 999999999999%Z -> exists q, clk_value (render_F w 6 x) = Some (FNum q) /\
                                      q == inject_Z x * 299792458 / 1000000000000).
Proof. exact units_spec_l. Qed.
Print Assumptions units_spec.

(* NaN exactly for 0.000000 (positions), 999999.999999 (clock) and blank accuracy columns *)
Theorem sentinels_spec :
  forall w,
    pos_value (render_F w 6 0) = Some FNaN /\
    clk_value (render_F w 6 999999999999) = Some FNaN /\
    (forall Qk b u, sigma_value Qk b u "" = Some FNaN) /\
    (forall x, pos_value (render_F w 6 x) = Some FNaN <-> x = 0%Z) /\
    (forall x, clk_value (render_F w 6 x) = Some FNaN <-> x = 999999999999%Z).
Proof. exact sentinels_spec_l. Qed.
Print Assumptions sentinels_spec.

(* accuracy code n -> base^n units (mm resp. ps), as the format defines it *)
Theorem sigma_spec :
  forall base unit n, (0 <= n < 1000)%Z ->
    exists q, sigma_value all_off base unit (render_nat n) = Some (FNum q) /\ q == Qpower base n * unit.
Proof. exact sigma_spec_l. Qed.
Print Assumptions sigma_spec.

(* epoch header record with any blank separators -> "Y-MM-DDTHH:MM:SS.sssssss"; n7 = seconds in units of 1e-7 *)
Theorem epoch_spec :
  forall st s1 s2 s3 s4 s5 s6 y mo d h mi n7,
    sep_ok s1 -> sep_ok s2 -> sep_ok s3 -> sep_ok s4 -> sep_ok s5 -> sep_ok s6 ->
    (0 <= y)%Z -> (0 <= mo < 100)%Z -> (0 <= d < 100)%Z -> (0 <= h < 100)%Z -> (0 <= mi < 100)%Z ->
    (0 <= n7 < 1000000000)%Z ->
    date_step spec_tables st (epoch_line s1 s2 s3 s4 s5 s6 y mo d h mi n7) = Some (set_time st (time_string y mo d h mi n7)).
Proof. exact epoch_spec_full_l. Qed.
Print Assumptions epoch_spec.

(* velocity, correlation (EP, EV) and any other records of the data section change nothing *)
Theorem ignored_lines_spec :
  forall T Qk st c r, c <> "*"%char -> c <> "P"%char -> data_step T Qk st (String c r) = Some st.
Proof. exact ignored_lines_spec_l. Qed.
Print Assumptions ignored_lines_spec.

(* one epoch block (epoch header + any number of position / other records) appends exactly its position records,
   in file order, with the epoch of the block *)
Theorem sp3_epoch_block_roundtrip :
  forall m bp bc b st,
    st_meta st = m -> meta_good m bp bc -> block_ok b -> (forall r, In r (st_recs st) -> r_time r <> b_time b) ->
    exists st', run spec_tables all_off st false (render_block b) = Some st' /\
                st_hdr st' = false /\ st_meta st' = m /\
                st_recs st' = (rev (recs_of_block bp bc b) ++ st_recs st)%list.
Proof. exact run_block. Qed.
Print Assumptions sp3_epoch_block_roundtrip.

(* whole file: header lines that parse to the meta data m, any number (>= 1) of epoch blocks with distinct epochs,
   each with any number of satellites and interleaved V / EP / EV lines, then EOF-like lines *)
Theorem sp3_file_roundtrip :
  forall H n m bp bc bs trailer,
    H <> [] -> run spec_tables all_off init_state true H = Some (mkS true None n m []) ->
    meta_good m bp bc -> bs <> [] -> Forall block_ok bs -> NoDup (map b_time bs) ->
    Forall bline_ok trailer -> (forall l, In l trailer -> exists c r, l = LOther c r) ->
    parse_file spec_tables all_off (H ++ flat_map render_block bs ++ map render_bline trailer)%list =
    Some (m, flat_map (recs_of_block bp bc) bs).
Proof. exact sp3_file_roundtrip_l. Qed.
Print Assumptions sp3_file_roundtrip.

(* the Dataset epoch of a record: Julian day at 0h and seconds of day, fraction in units of 1e-7 s *)
Theorem dataset_epoch_spec :
  forall y mo d h mi n7,
    (1000 <= y <= 9999)%Z -> (1 <= mo <= 12)%Z -> (1 <= d <= 31)%Z -> (0 <= h <= 23)%Z -> (0 <= mi <= 59)%Z ->
    (0 <= n7 < 600000000)%Z ->
    epoch_of_time all_off (time_string y mo d h mi n7) =
    Some ((inject_Z (jdn y mo d) - (1 # 2))%Q,
          (inject_Z (h * 3600 + mi * 60 + n7 / 10000000) + inject_Z (n7 mod 10000000) / 10000000)%Q).
Proof. exact dataset_epoch_spec_l. Qed.
Print Assumptions dataset_epoch_spec.

Theorem c13_sigma_multiplied_refuted :
  exists q q', sigma_value all_off (5 # 4) mm_in_m "7" = Some (FNum q) /\
               sigma_value (mkQ true false) (5 # 4) mm_in_m "7" = Some (FNum q') /\ ~ q == q'.
Proof. exact c13_sigma_multiplied_refuted_l. Qed.
Print Assumptions c13_sigma_multiplied_refuted.

Theorem c13_dataset_fraction_as_ms_refuted :
  exists day sod sod', epoch_of_time all_off "2016-03-01T00:00:00.5000000" = Some (day, sod) /\
                       epoch_of_time (mkQ false true) "2016-03-01T00:00:00.5000000" = Some (day, sod') /\
                       sod == 1 # 2 /\ sod' == 5000.
Proof. exact c13_dataset_fraction_as_ms_refuted_l. Qed.
Print Assumptions c13_dataset_fraction_as_ms_refuted.

(* ------------------------------------------------------------------------------------------------
   Header.  [render_header h] writes the SP3-c/d header of Proofs/C13_Header.v: line 1, line 2, "+" satellite lines (any
   number of satellites, 17 per line, continuation lines), "++" accuracy lines, both %c, %f and %i lines, comments.
   Parsed through the header tables regenerated from the parser on this run (T), it yields exactly [meta_of h]; in
   particular the fields the property lists. *)
Theorem sp3_header_roundtrip :
  forall T h, gen_tables = Some T -> hdr_ok h ->
    exists n, run T all_off init_state true (render_header h) = Some (mkS true None n (meta_of h) []) /\
              listed_fields h (meta_of h).
Proof. exact sp3_header_roundtrip_T. Qed.
Print Assumptions sp3_header_roundtrip.

(* Whole file with that header, through the regenerated tables, WITHOUT assuming distinct epochs: the result is the
   meta data of the header and the records of [blocks_acc] - every position record in file order, except that a position
   record directly after an epoch header is dropped when records with the same epoch exist already (midgard's
   "identical epoch" rule; [drops], [block_recs_gen]). *)
Theorem sp3_file_roundtrip_full :
  forall T h bs trailer,
    gen_tables = Some T -> hdr_ok h -> bs <> [] -> Forall block_ok bs ->
    Forall bline_ok trailer -> (forall l, In l trailer -> exists c r, l = LOther c r) ->
    parse_file T all_off (render_header h ++ flat_map render_block bs ++ map render_bline trailer)%list =
    Some (meta_of h, rev (blocks_acc (dec_value (hbpv7 h) 7) (dec_value (hbclk9 h) 9) [] bs)).
Proof. exact sp3_file_roundtrip_full_l. Qed.
Print Assumptions sp3_file_roundtrip_full.

(* ... and with pairwise distinct epochs (every well-formed file): all position records, in file order *)
Theorem sp3_file_roundtrip_full_distinct :
  forall T h bs trailer,
    gen_tables = Some T -> hdr_ok h -> bs <> [] -> Forall block_ok bs -> NoDup (map b_time bs) ->
    Forall bline_ok trailer -> (forall l, In l trailer -> exists c r, l = LOther c r) ->
    parse_file T all_off (render_header h ++ flat_map render_block bs ++ map render_bline trailer)%list =
    Some (meta_of h, flat_map (recs_of_block (dec_value (hbpv7 h) 7) (dec_value (hbclk9 h) 9)) bs).
Proof. exact sp3_file_roundtrip_full_distinct_l. Qed.
Print Assumptions sp3_file_roundtrip_full_distinct.

(* the same with an abstract header and repeated epochs *)
Theorem sp3_file_roundtrip_dups :
  forall H n m bp bc bs trailer,
    H <> [] -> run spec_tables all_off init_state true H = Some (mkS true None n m []) ->
    meta_good m bp bc -> bs <> [] -> Forall block_ok bs ->
    Forall bline_ok trailer -> (forall l, In l trailer -> exists c r, l = LOther c r) ->
    parse_file spec_tables all_off (H ++ flat_map render_block bs ++ map render_bline trailer)%list =
    Some (m, rev (blocks_acc bp bc [] bs)).
Proof. exact sp3_file_roundtrip_gen_l. Qed.
Print Assumptions sp3_file_roundtrip_dups.

(* ------------------------------------------------------------------------------------------------
   The Julian day number used for the Dataset epochs, against the civil calendar of property C02
   (Model/C02_Formats.days_from_civil / civil_from_days; Props/C02.v civil_roundtrip, civil_roundtrip_valid):
   for every year (no bound), month 1..12 and day. *)
Theorem jdn_civil :
  forall y m d, (1 <= m <= 12)%Z -> jdn y m d = (Verif.Model.C02_Formats.days_from_civil y m d + 2440588)%Z.
Proof. exact Verif.Proofs.C13_Jdn.jdn_civil. Qed.
Print Assumptions jdn_civil.

Theorem jdn_inverse :
  (forall y m d, Verif.Model.C02_Formats.valid_date y m d = true ->
                 Verif.Model.C02_Formats.civil_from_days (jdn y m d - 2440588) = (y, m, d)) /\
  (forall z, let '(y, m, d) := Verif.Model.C02_Formats.civil_from_days z in jdn y m d = (z + 2440588)%Z).
Proof. split; [exact Verif.Proofs.C13_Jdn.jdn_inverse|exact Verif.Proofs.C13_Jdn.jdn_of_day_number]. Qed.
Print Assumptions jdn_inverse.

(* Dataset epoch of a record in C02's terms: Julian date (0h) of the civil date, exact seconds of day *)
Theorem dataset_epoch_civil :
  forall y mo d h mi n7,
    Verif.Model.C02_Formats.valid_date y mo d = true -> (1000 <= y <= 9999)%Z -> (0 <= h <= 23)%Z -> (0 <= mi <= 59)%Z ->
    (0 <= n7 < 600000000)%Z ->
    exists day sod, epoch_of_time all_off (time_string y mo d h mi n7) = Some (day, sod) /\
                    day == Verif.Model.C02_Formats.jd_of_date y mo d /\
                    sod == inject_Z (h * 3600 + mi * 60) + inject_Z n7 / 10000000.
Proof. exact Verif.Proofs.C13_Jdn.dataset_epoch_civil_l. Qed.
Print Assumptions dataset_epoch_civil.

(* non-vacuity: a concrete header satisfies the header hypothesis, a concrete block the block hypothesis *)
Example header_hypothesis_satisfiable :
  exists n m, run spec_tables all_off init_state true ex_header = Some (mkS true None n m []) /\
              meta_good m (12500000 # 10000000) (1025000000 # 1000000000).
Proof. exact ex_header_parses. Qed.
Example block_hypothesis_satisfiable : block_ok ex_block.
Proof. exact ex_block_ok. Qed.
Example block_text :
  render_block ex_block =
  ["*  2016 3  1  0  0  0.50000000";
   "PG01  10138.887745 -20456.557725 -13455.830128     13.095853  7  6  4 137       ";
   "EP   55   55   55     222 1234567 -1234567 5999999      -30      21 -1230000";
   "VG01  20298.880364 -18462.044804   1381.387685     -4.534317 14 14 14 191";
   "PG02      0.000000      0.000000      0.000000 999999.999999              EP  MP"].
Proof. exact ex_block_lines. Qed.
Example header_ok_satisfiable : hdr_ok ex_hdr.
Proof. exact ex_hdr_ok. Qed.
Example header_text :
  nth 0 (render_header ex_hdr) "" = "#dP2016  3  1  0  0  0.50000000       2 ORBIT IGb08 HLM  IGS" /\
  nth 2 (render_header ex_hdr) "" = "+   19   G01G02R07E11C21J02G03G04G05G06G07G08G09G10G11G12G13" /\
  nth 3 (render_header ex_hdr) "" = "+        G14G15  0  0  0  0  0  0  0  0  0  0  0  0  0  0  0" /\
  List.length (render_header ex_hdr) = 20%nat.
Proof. rewrite ex_hdr_text. repeat split. Qed.
Example duplicate_epoch_rule :
  map r_sat (rev (blocks_acc (5 # 4) (41 # 40) [] [ex_block; ex_block])) = ["G01"; "G02"; "G02"] /\
  map r_sat (flat_map (recs_of_block (5 # 4) (41 # 40)) [ex_block; ex_block]) = ["G01"; "G02"; "G01"; "G02"].
Proof. exact dup_example. Qed.
