(* Props/C13.v - proof obligations of property C13 (SP3 orbit files). *)
From Coq Require Import Ascii String List Bool Arith ZArith QArith Qabs.
From Verif Require Import Lib.Text Lib.Decimal Lib.Fixed Lib.Dyadic Spec.C13_Sp3Format Model.C13_Sp3 Gen.C13_Sp3Fields Proofs.C13_Sp3.
Import ListNotations.
Local Open Scope string_scope.

(* The column tables regenerated from midgard/parsers/sp3.py on this run are well formed (ordered, non-overlapping,
   header fields inside 60 columns, data fields inside 80). *)
Theorem sp3_fields_wf : exists T, gen_tables = Some T /\ all_tables_wf T = true.
Proof. exact sp3_fields_wf_l. Qed.
Print Assumptions sp3_fields_wf.

(* ... and are exactly the SP3-c/d layout of the format documents (Spec/C13_Sp3Format.v). *)
Theorem sp3_fields_match_spec : gen_tables = Some spec_tables.
Proof. exact sp3_fields_match_spec_l. Qed.
Print Assumptions sp3_fields_match_spec.

Theorem sp3_labels_spec :
  gen_header_label_len = 2%nat /\ gen_data_label_len = 1%nat /\
  gen_header_ends_before_star = true /\ gen_data_ends_before_star = true /\
  gen_header_has_skip_or_callback = false /\ gen_data_has_skip_or_callback = false /\
  gen_data_parsers = [("*", "_parse_date"); ("P", "_parse_position"); ("V", "_parse_velocity")].
Proof. exact sp3_labels_spec_l. Qed.
Print Assumptions sp3_labels_spec.

Theorem constants_spec :
  dy_toQ gen_c = Some c_light /\
  dy_toQ gen_kilometer2meter = Some km_in_m /\
  is_nearest_double us_in_s gen_microsecond2second = true /\
  is_nearest_double mm_in_m gen_millimeter2meter = true /\
  is_nearest_double ps_in_s gen_picosecond2second = true.
Proof. exact constants_spec_l. Qed.
Print Assumptions constants_spec.
