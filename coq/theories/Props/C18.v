(* C18 - Site-information history lookup returns the entry valid at the requested date.
   Only statements, each closed by `exact <lemma>` and followed by Print Assumptions.
   (harness/core.py reads the Print Assumptions output in this order.) *)
From Coq Require Import ZArith List Bool String Ascii Permutation.
From Verif Require Import Model.C18_History Proofs.C18_History.
Import ListNotations.
Open Scope Z_scope.

(* the lookup returns an entry whose validity interval [from, to) contains the date *)
Theorem get_sound : forall h d i,
  get h (At d) = Found i -> exists k, In (k, i) h /\ contains k d = true.
Proof. exact get_at_sound. Qed.
Print Assumptions get_sound.

(* ... returns something whenever some interval contains the date *)
Theorem get_complete : forall h d k i,
  In (k, i) h -> contains k d = true -> exists j, get h (At d) = Found j.
Proof. exact get_at_complete. Qed.
Print Assumptions get_complete.

(* ... and nothing exactly when no interval does (gaps) *)
Theorem get_none_in_gaps : forall h d,
  (forall k i, In (k, i) h -> contains k d = false) <-> get h (At d) = Nothing.
Proof. exact get_at_none. Qed.
Print Assumptions get_none_in_gaps.

(* for pairwise disjoint intervals the entry returned is *the* entry containing the date ... *)
Theorem get_unique : forall h d k i,
  disjoint h -> In (k, i) h -> contains k d = true -> get h (At d) = Found i.
Proof. exact get_at_unique. Qed.
Print Assumptions get_unique.

(* ... independent of insertion order *)
Theorem get_order_independent : forall h h' d,
  disjoint h -> Permutation h h' -> get h (At d) = get h' (At d).
Proof. exact get_at_perm. Qed.
Print Assumptions get_order_independent.

(* half-open intervals: installed <= date < removed *)
Theorem half_open_boundaries : forall f t d, contains (Fin f, Fin t) d = true <-> f <= d < t.
Proof. exact contains_fin. Qed.
Print Assumptions half_open_boundaries.

(* open-ended starts and ends behave as minus / plus infinity *)
Theorem open_ends_are_infinite : forall d f t i j,
  (contains (key_of_raw (None, Some t, i)) d = true <-> d < t) /\
  (contains (key_of_raw (Some f, None, j)) d = true <-> f <= d) /\
  contains (key_of_raw (None, None, i)) d = true.
Proof.
  intros d f t i j. split; [exact (contains_open_start t d)|].
  split; [exact (contains_open_end f d)|exact (contains_open_both d)].
Qed.
Print Assumptions open_ends_are_infinite.

(* 'last' is the entry with the latest start (greatest key in (start, end) order) *)
Theorem last_is_latest_start : forall h i,
  get h Last = Found i ->
  exists k, In (k, i) h /\ forall k' i', In (k', i') h -> ext_leb (fst k') (fst k) = true.
Proof. exact get_last_latest_start. Qed.
Print Assumptions last_is_latest_start.

Theorem last_defined_on_nonempty : forall h, h <> [] -> exists i, get h Last = Found i.
Proof. exact get_last_nonempty. Qed.
Print Assumptions last_defined_on_nonempty.

(* building the history from source records with pairwise different intervals keeps every record,
   in order, with open ends mapped to infinities *)
Theorem history_from_records : forall rs,
  NoDup (map key_of_raw rs) -> create_history rs = map entry_of rs.
Proof. exact create_history_nodup. Qed.
Print Assumptions history_from_records.

(* station lists: comma-separated text = list of its items; any letter case *)
Theorem station_forms_equal : forall sd l q,
  l <> [] -> forallb (no_char comma) l = true -> forallb stripped l = true ->
  module_get sd (AsText (join comma l)) q = module_get sd (AsList l) q.
Proof. exact module_get_forms. Qed.
Print Assumptions station_forms_equal.

Theorem station_case_irrelevant : forall sd l q,
  module_get sd (AsList (map upper l)) q = module_get sd (AsList l) q.
Proof. exact module_get_case. Qed.
Print Assumptions station_case_irrelevant.

Theorem combined_forms_equal : forall mods l q,
  l <> [] -> forallb (no_char comma) l = true -> forallb stripped l = true ->
  site_info_get mods (AsText (join comma l)) q = site_info_get mods (AsList l) q.
Proof. exact site_info_forms. Qed.
Print Assumptions combined_forms_equal.

(* the combined query returns, per station and module, what the module returns *)
Theorem combined_equals_modules : forall mods st q n sd,
  nth_error mods n = Some sd ->
  nth_error (site_info_get1 mods st q) n = Some (module_get1 sd st q).
Proof. exact site_info_row. Qed.
Print Assumptions combined_equals_modules.

(* station names given as a ONE-SHOT iterable (generator expression, map / filter object, iterator) denote the
   list they enumerate: every entry point - module and combined, dated query and get_history - answers as for
   the list form *)
Theorem iterable_forms_equal : forall sd mods l q,
  module_get sd (AsIter l) q = module_get sd (AsList l) q /\
  module_get_history sd (AsIter l) = module_get_history sd (AsList l) /\
  site_info_get mods (AsIter l) q = site_info_get mods (AsList l) q /\
  site_info_get_history mods (AsIter l) = site_info_get_history mods (AsList l).
Proof. exact iter_forms. Qed.
Print Assumptions iterable_forms_equal.

(* whatever form the station argument has (text, list, one-shot iterable), the combined result is, module by
   module, exactly the module's own answer for the list of names the argument denotes: no module column is
   missing or shorter *)
Theorem combined_any_form_equals_modules : forall mods st q n sd rows,
  nth_error mods n = Some sd ->
  site_info_get mods st q = inl rows ->
  module_get sd (AsList (normalize st)) q = inl (column n Nothing rows).
Proof. exact site_info_get_column. Qed.
Print Assumptions combined_any_form_equals_modules.

Theorem combined_history_equals_modules : forall mods st n sd rows,
  nth_error mods n = Some sd ->
  site_info_get_history mods st = inl rows ->
  module_get_history sd (AsList (normalize st)) = inl (column n None rows).
Proof. exact site_info_get_history_column. Qed.
Print Assumptions combined_history_equals_modules.

(* the dated query is the lookup in the history that get_history returns *)
Theorem get_is_lookup_in_history : forall sd st q,
  match module_hist1 sd st with
  | inl (Some h) => module_get1 sd st q = get h q
  | inl None => module_get1 sd st q = Nothing
  | inr e => module_get1 sd st q = e
  end.
Proof. exact module_get_via_history. Qed.
Print Assumptions get_is_lookup_in_history.

(* repeated queries on one source: every answer is the answer of that query alone *)
Theorem query_pure : forall rs qs,
  qrun all_off (Some rs) qs = map (fun q => snd (qstep all_off (Some rs) q)) qs.
Proof. exact qrun_pure. Qed.
Print Assumptions query_pure.

(* the behaviour `raw_info.pop("pos_vel")` is NOT pure: witness *)
Theorem c18_pop_refuted :
  exists rs qs, qrun {| pop_pos_vel := true; upper_key_err := false |} (Some rs) qs <> qrun all_off (Some rs) qs.
Proof. exact pop_quirk_refuted. Qed.
Print Assumptions c18_pop_refuted.

(* non-vacuity: a concrete gapped, open-ended, disjoint history meets the hypotheses *)
Definition ex_hist : history :=
  [((NegInf, Fin 100), 1); ((Fin 100, Fin 200), 2); ((Fin 250, PosInf), 3)].
Example history_nonvacuous :
  get ex_hist (At 100) = Found 2 /\ get ex_hist (At 99) = Found 1 /\ get ex_hist (At 200) = Nothing /\
  get ex_hist (At 225) = Nothing /\ get ex_hist (At 250) = Found 3 /\ get ex_hist Last = Found 3 /\
  normalize (AsText "zimm, Osls ,TRO1"%string) = ["zimm"; "osls"; "tro1"]%string /\
  stripped "zimm"%string = true.
Proof. vm_compute. repeat split. Qed.

(* non-vacuity of the combined theorems: a two-module source answers a one-shot iterable with full rows *)
Definition ex_mods : list source :=
  [[("zimm"%string, Some [(None, Some 100, 1)])]; [("ZIMM"%string, Some [(Some 0, None, 2)])]].
Example iterable_nonvacuous :
  site_info_get ex_mods (AsIter ["ZIMM"%string]) (At 50) = inl [("zimm"%string, [Found 1; Found 2])] /\
  site_info_get_history ex_mods (AsIter ["Zimm"%string])
    = inl [("zimm"%string, [Some [((NegInf, Fin 100), 1)]; Some [((Fin 0, PosInf), 2)]])].
Proof. vm_compute. split; reflexivity. Qed.
