From Coq Require Import ZArith QArith List Bool String Ascii Permutation.
From Verif Require Import Lib.Text Model.C14_Sinex Spec.C14_SinexFormat Gen.C14_SinexBlocks Proofs.C14_Sinex.
Import ListNotations.
Theorem sinex_tables_wf : forallb table_entry_wf all_tables = true.
Proof. exact all_tables_wf. Qed.
Print Assumptions sinex_tables_wf.
Theorem tables_match_spec : forallb table_entry_matches all_tables = true.
Proof. exact all_tables_match. Qed.
Print Assumptions tables_match_spec.
