(* C09 - A Dataset stays a rectangular, row-aligned table under any operation sequence.
   Only statements, each closed by `exact <lemma>` and followed by Print Assumptions.
   (harness/core.py reads the Print Assumptions output in this order.)

   `run all_off empty_dset ops` is the specification model (no deviation switched on) run over an
   arbitrary operation list; `arg_good` asks that the other datasets handed to extend / merge_with /
   difference are themselves rectangular and row-aligned (e.g. built by `build`, see
   built_datasets_are_good). *)
From Coq Require Import String Ascii ZArith QArith Bool Arith Lia List Permutation Sorted.
From Verif Require Import Lib.Dyadic Lib.C09_Table Model.C09_Dataset Proofs.C09_Dataset.
Import ListNotations.
Open Scope nat_scope.
Open Scope list_scope.

(* after ANY operation list every object of the store - the data of every field and nested field and
   every attached .other / .time / .ref_pos object - has exactly num_obs rows *)
Theorem rect_all_histories : forall ops d,
  Forall arg_good ops -> run all_off empty_dset ops = Some d ->
  length (rowids d) = num_obs d /\
  (forall o ob, In (o, ob) (store d) -> length (orows ob) = num_obs d) /\
  (forall p ob, field_obj d p = Some ob -> length (orows ob) = num_obs d) /\
  (forall p ob attr r ob', field_obj d p = Some ob -> In (attr, r) (orefs ob) ->
      lookup r (store d) = Some ob' -> length (orows ob') = num_obs d).
Proof. exact rect_all_histories_l. Qed.
Print Assumptions rect_all_histories.

(* ... and row k of every object carries the ghost observation id of table row k (or is a fill value) *)
Theorem row_aligned : forall ops d,
  Forall arg_good ops -> run all_off empty_dset ops = Some d ->
  forall o ob k c, In (o, ob) (store d) -> nth_error (orows ob) k = Some c ->
  exists r, nth_error (rowids d) k = Some r /\ (cgid c = None \/ cgid c = Some r).
Proof. exact row_aligned_l. Qed.
Print Assumptions row_aligned.

(* collections are nodes of the model (`colls`): a collection constrains no rows of its own; its length (the rows
   of the first field in it, at any depth) is num_obs, or 0 - and it is 0 when it holds no field.  Creating an
   empty collection and deleting the last field of one never touch num_obs, the rows or the other fields *)
Theorem collections_in_histories : forall ops d,
  Forall arg_good ops -> run all_off empty_dset ops = Some d ->
  forall c, (coll_len d c = num_obs d \/ coll_len d c = 0) /\
            ((forall pf, In pf (fields d) -> is_under c (fst pf) = false) -> coll_len d c = 0).
Proof. exact collections_in_histories_l. Qed.
Print Assumptions collections_in_histories.

Theorem empty_collection_leaves_table : forall d p d',
  step all_off d (AddColl p) = Some d' ->
  num_obs d' = num_obs d /\ rowids d' = rowids d /\ store d' = store d /\ fields d' = fields d /\
  existsb (String.eqb p) (colls d) = false.
Proof. exact add_collection_spec_l. Qed.
Print Assumptions empty_collection_leaves_table.

Theorem del_keeps_collections : forall d p d',
  step all_off d (Del p) = Some d' ->
  num_obs d' = num_obs d /\ store d' = store d /\ colls d' = colls d /\ slookup p (fields d') = None.
Proof. exact del_keeps_collections_l. Qed.
Print Assumptions del_keeps_collections.

(* filter(idx=mask, ...), the entry point that starts from a mask of the caller: a query - the dataset is unchanged -,
   the answer selects only rows the caller's mask selects, without conditions it is that mask, a mask of the wrong
   length is refused.  (That the caller's array itself is left alone is an observation of the correspondence.) *)
Theorem filter_idx_spec : forall d idx cs,
  (forall d', step all_off d (FilterIdx idx cs) = Some d' -> d' = d) /\
  (forall r, filter_mask_from d idx cs = Some r ->
     length idx = num_obs d /\ forall k, nth k r false = true -> nth k idx false = true) /\
  (length idx = num_obs d -> filter_mask_from d idx [] = Some idx) /\
  (length idx <> num_obs d -> filter_mask_from d idx cs = None).
Proof. exact filter_idx_spec_l. Qed.
Print Assumptions filter_idx_spec.

(* the hypothesis of the two theorems is satisfiable: datasets built from operation lists are good *)
Theorem built_datasets_are_good : forall ops, Forall arg_good ops -> Good (build ops).
Proof. exact build_good. Qed.
Print Assumptions built_datasets_are_good.

(* subset with an index list: num_obs = number of indices (not their sum), row k of every object is
   the old row ix[k], fields and references are untouched *)
Theorem subset_spec : forall d ix d',
  step all_off d (SubsetIdx ix) = Some d' ->
  (forall i, In i ix -> i < num_obs d) /\
  num_obs d' = length ix /\ rowids d' = take 0%Z ix (rowids d) /\ fields d' = fields d /\
  (forall o ob, In (o, ob) (store d) -> In (o, set_rows ob (take fillcell_d ix (orows ob))) (store d')).
Proof. exact subset_idx_spec. Qed.
Print Assumptions subset_spec.

(* subset with a boolean mask = subset with the positions of the true entries, which are exactly the
   selected rows, in increasing order; a mask of the wrong length is refused *)
Theorem subset_mask_keeps_order : forall d m,
  (length m = num_obs d -> step all_off d (SubsetMask m) = step all_off d (SubsetIdx (mask_idx m))) /\
  (length m <> num_obs d -> step all_off d (SubsetMask m) = None) /\
  (forall i, In i (mask_idx m) <-> nth i m false = true) /\
  StronglySorted lt (mask_idx m) /\ length (mask_idx m) = count_true m.
Proof. exact subset_mask_keeps_order_l. Qed.
Print Assumptions subset_mask_keeps_order.

(* extend: rows of self first, then the rows of other; an object of self that other does not have is
   padded with the fill value of its type, an object only other has is padded in front; paired
   objects get the other rows converted by the unit factors (self's unit is kept); an empty self
   takes the other object over unchanged *)
Theorem extend_spec : forall d o d',
  extend all_off d o = Some d' ->
  num_obs d' = num_obs d + num_obs o /\ rowids d' = rowids d ++ rowids o /\
  (forall a oa, In (a, oa) (store d) ->
     exists oa', In (a, oa') (store d') /\
       match paired_with d o a with
       | None => orows oa' = orows oa ++ repeat (mkCell None (fill_payload (okind oa) (otwo oa) (owidth oa))) (num_obs o)
       | Some b => exists ob, lookup b (store o) = Some ob /\
            (if Nat.eqb (num_obs d) 0 then orows oa' = orows ob /\ ounit oa' = ounit ob
             else exists fs, factors oa ob = Some fs /\ ounit oa' = ounit oa /\
                             orows oa' = orows oa ++ map (conv (okind oa) fs) (orows ob))
       end) /\
  (forall b ob, In (b, ob) (store o) ->
     existsb (fun ab => Nat.eqb (snd ab) b) (all_pairs d o) = false ->
     exists a' ob', In (a', ob') (store d') /\
       orows ob' = repeat (mkCell None (fill_payload (okind ob) (otwo ob) (owidth ob))) (num_obs d) ++ orows ob).
Proof. exact extend_spec_lemma. Qed.
Print Assumptions extend_spec.

(* merge_with(..., sort_by=p): after the extends every object is rearranged by ONE index list, the
   stable argsort of the key column: a permutation, keys non-decreasing, and rows with equal keys
   keep their relative order (sel k = the (key, original position) pairs equivalent to k) *)
Theorem merge_sort_spec : forall d os p d',
  merge all_off d os (Some p) = Some d' ->
  exists d1 keys, extend_all all_off d os = Some d1 /\ sort_keys d1 p = Some keys /\
    let sorted := isort dy_leb (enumerate keys) in
    d' = take_all (map snd sorted) d1 /\
    Permutation (enumerate keys) sorted /\
    Permutation (seq 0 (length keys)) (map snd sorted) /\
    StronglySorted (fun a b => dy_leb a b = true) (map fst sorted) /\
    (forall k, sel dy_leb k sorted = sel dy_leb k (enumerate keys)).
Proof. exact merge_sort_spec_l. Qed.
Print Assumptions merge_sort_spec.

(* ... and that pins the result completely: ANY rearrangement of the (key, position) pairs that is sorted by key and
   keeps equal keys in their original order is the model's, so whatever stable algorithm the code uses must agree *)
Theorem merge_sort_unique : forall keys s,
  StronglySorted (le_pair dy_leb) s ->
  (forall k, sel dy_leb k s = sel dy_leb k (enumerate keys)) ->
  s = isort dy_leb (enumerate keys) /\ map snd s = stable_argsort dy_leb keys.
Proof. exact merge_sort_unique_l. Qed.
Print Assumptions merge_sort_unique.

(* difference(index_by): the pairing.  For key columns a (self) and b (other) the common keys are
   exactly the keys occurring in both, each once; a common key is paired with its FIRST occurrence in
   either column *)
Theorem difference_spec : forall (K : Type) (eqb : K -> K -> bool),
  (forall x y, eqb x y = true <-> x = y) ->
  forall (a b : list K) (dflt : K),
  NoDup (common eqb a b) /\
  (forall t, In t (common eqb a b) <-> In t a /\ In t b) /\
  (forall t, In t (common eqb a b) ->
     nth (first_index eqb t a) a dflt = t /\ first_index eqb t a < length a /\
     nth (first_index eqb t b) b dflt = t /\ first_index eqb t b < length b /\
     (forall k, k < first_index eqb t a -> nth k a dflt <> t) /\
     (forall k, k < first_index eqb t b -> nth k b dflt <> t)).
Proof. exact difference_spec_l. Qed.
Print Assumptions difference_spec.

(* ... instantiated for the key cells the model (and the correspondence) uses: index tuples of doubles compared by
   bit pattern and texts compared literally.  For difference(index_by = p :: ps): row sidx[k] of self and row
   oidx[k] of other carry the same index tuple cm[k]; cm = the tuples in both datasets, each once, first occurrences *)
Theorem difference_rows_paired : forall d o p ps sidx oidx,
  diff_sel d o (p :: ps) = Some (sidx, oidx) ->
  exists ks ko cm,
    index_keys d (p :: ps) = Some ks /\ index_keys o (p :: ps) = Some ko /\
    NoDup cm /\ (forall t, In t cm <-> In t ks /\ In t ko) /\
    sidx = map (fun t => first_index tuple_eqb t ks) cm /\
    oidx = map (fun t => first_index tuple_eqb t ko) cm /\
    (forall t, In t cm ->
       nth (first_index tuple_eqb t ks) ks [] = t /\ first_index tuple_eqb t ks < length ks /\
       nth (first_index tuple_eqb t ko) ko [] = t /\ first_index tuple_eqb t ko < length ko /\
       (forall k, k < first_index tuple_eqb t ks -> nth k ks [] <> t) /\
       (forall k, k < first_index tuple_eqb t ko -> nth k ko [] <> t)).
Proof. exact diff_sel_spec. Qed.
Print Assumptions difference_rows_paired.

Theorem key_cells_leibniz : forall a b, tuple_eqb a b = true <-> a = b.
Proof. exact tuple_eqb_eq. Qed.
Print Assumptions key_cells_leibniz.

(* ... and the result of difference is again a rectangular, row-aligned table *)
Theorem difference_rect : forall d o ps d', Good d -> difference d o ps = Some d' -> Good d'.
Proof. exact difference_good. Qed.
Print Assumptions difference_rect.

(* The memo.  `subset_walk` is Dataset.subset / the sort of merge_with as the code performs them: field by field,
   every object looked up in the memo (old identity -> new object) first, otherwise its references walked through
   the same memo, the new object built and entered.  For every dataset (so for every state any operation list
   reaches) and every index list, if the walk terminates (no reference cycle):
   - every field keeps its name and names the memo image of its old object;
   - the memo is a function and one-to-one: what named ONE object before (two fields, a field and another field's
     .other / .time / .ref_pos, ...) names one object afterwards, different objects stay different;
   - every old object has exactly one new object (identities in the new store are unique) whose rows are the
     selected rows - selected once: `take_obj ix`, the same transformation as the specification `take_all` -
     and whose references are the memo images of the old references. *)
Theorem shared_reference_once : forall d ix d',
  subset_walk d ix = Some d' ->
  num_obs d' = length ix /\ rowids d' = take 0%Z ix (rowids d) /\
  exists memo : list (nat * nat),
    Forall2 (fun pf qf => fst qf = fst pf /\ In (snd pf, snd qf) memo) (fields d) (fields d') /\
    (forall o n1 n2, In (o, n1) memo -> In (o, n2) memo -> n1 = n2) /\
    (forall o1 o2 n, In (o1, n) memo -> In (o2, n) memo -> o1 = o2) /\
    NoDup (map fst (store d')) /\
    (forall o n, In (o, n) memo ->
       exists ob rs, lookup o (store d) = Some ob /\
                     lookup n (store d') = Some (set_refs (take_obj ix ob) rs) /\
                     Forall2 (fun ar r => fst r = fst ar /\ In (snd ar, snd r) memo) (orefs ob) rs).
Proof. exact shared_reference_once_l. Qed.
Print Assumptions shared_reference_once.

(* ... and the walk does terminate on every state any operation list reaches: `step` only produces datasets
   whose reference structure is well formed (`wf_dset`: unique identities, every field and reference names an
   object of the store, `depth` - the longest reference chain below an object - is defined, i.e. no cycle), so
   along every reference the depth strictly decreases and the walk needs no more fuel than the store has objects *)
Theorem walk_terminates_on_reachable : forall ops d ix,
  run all_off empty_dset ops = Some d -> exists d', subset_walk d ix = Some d'.
Proof. exact walk_terminates_l. Qed.
Print Assumptions walk_terminates_on_reachable.

Theorem reachable_stores_are_acyclic : forall ops d,
  run all_off empty_dset ops = Some d ->
  wf_dset d = true /\
  (forall o ob, In (o, ob) (store d) -> forall ar, In ar (orefs ob) ->
     exists ob' k k', lookup (snd ar) (store d) = Some ob' /\
        depth (S (length (store d))) (store d) o = Some k /\
        depth (S (length (store d))) (store d) (snd ar) = Some k' /\ k' < k).
Proof. exact reachable_wf_l. Qed.
Print Assumptions reachable_stores_are_acyclic.

(* extend / merge_with through the memo.  `ext_graph d o` is the situation before any row is moved (objects of self
   - a paired object also gets the references only its partner has - and copies of the objects only other has);
   `xrows a ob` is what insert() / append_empty / prepend_empty build for object a: rows ++ converted partner rows,
   rows ++ fill, fill ++ rows (ext_graph_fill).  `extend_walk` walks the fields with one memo.  Whenever it
   succeeds: fields name the memo images, the memo is a function and one-to-one, every object of the graph gets
   exactly one new object with the rows built once and its references mapped through the memo.  (That the walk
   and the pairing specification `extend` give the same table with the same sharing is evaluated in Coq for every
   extend / merge_with of every correspondence history - verdict class 9 -, not proven.) *)
Theorem shared_reference_once_extend : forall d o d',
  extend_walk d o = Some d' ->
  exists g xrows fl nx (memo : list (nat * nat)),
    ext_graph d o = Some (g, xrows, fl, nx) /\
    num_obs d' = num_obs d + num_obs o /\ rowids d' = rowids d ++ rowids o /\
    Forall2 (fun pf qf => fst qf = fst pf /\ In (snd pf, snd qf) memo) fl (fields d') /\
    (forall a n1 n2, In (a, n1) memo -> In (a, n2) memo -> n1 = n2) /\
    (forall a1 a2 n, In (a1, n) memo -> In (a2, n) memo -> a1 = a2) /\
    NoDup (map fst (store d')) /\
    (forall a n, In (a, n) memo ->
       exists ob rs, lookup a g = Some ob /\
                     lookup n (store d') = Some (set_refs (xrows a ob) rs) /\
                     Forall2 (fun ar r => fst r = fst ar /\ In (snd ar, snd r) memo) (orefs ob) rs).
Proof. exact shared_reference_once_extend_l. Qed.
Print Assumptions shared_reference_once_extend.

Theorem extend_walk_fill : forall d o g xrows fl nx id ob,
  ext_graph d o = Some (g, xrows, fl, nx) ->
  find (fun ab => Nat.eqb (fst ab) id) (all_pairs d o) = None ->
  orows (xrows id ob) =
    if existsb (fun x => Nat.eqb (fst x) id) (store d)
    then orows ob ++ fill_rows (num_obs o) ob else fill_rows (num_obs d) ob ++ orows ob.
Proof. exact ext_graph_fill. Qed.
Print Assumptions extend_walk_fill.

(* the store-level reading used by `step`: a reference resolves to the same identity, rows selected once *)
Theorem shared_reference_store_level : forall ix d o,
  lookup o (store (take_all ix d)) = option_map (take_obj ix) (lookup o (store d)) /\
  fields (take_all ix d) = fields d /\
  (forall ob, orefs (take_obj ix ob) = orefs ob /\ orows (take_obj ix ob) = take fillcell_d ix (orows ob)).
Proof. exact shared_reference_once_partial_l. Qed.
Print Assumptions shared_reference_store_level.

(* open finding c09_sharing_lost_on_empty_extend in the walk model: extend with a zero-row dataset that has `site`
   but not `sat`; with the early return of append_empty(0) site.other and the field sat are two objects afterwards,
   with the memo consulted they stay one *)
Theorem c09_sharing_lost_refuted :
  ref_is_field w_sharing "site" "other" "sat" = true /\
  (exists d, extend_empty_walk true w_sharing ["site"] = Some d /\ ref_is_field d "site" "other" "sat" = false) /\
  (exists d, extend_empty_walk false w_sharing ["site"] = Some d /\ ref_is_field d "site" "other" "sat" = true).
Proof. exact sharing_lost_refuted. Qed.
Print Assumptions c09_sharing_lost_refuted.

(* the known deviations really break the property (and the specification does not, on the same input) *)
Theorem c09_subset_sum_refuted :
  (exists d, run (mkQ true false) empty_dset w_subset_sum = Some d /\ rect_b d = false) /\
  (exists d, run all_off empty_dset w_subset_sum = Some d /\ rect_b d = true).
Proof. exact subset_sum_refuted. Qed.
Print Assumptions c09_subset_sum_refuted.

Theorem c09_attr_fill_refuted :
  (exists d, run (mkQ false true) empty_dset w_attr_fill = Some d /\ rect_b d = false) /\
  (exists d, run all_off empty_dset w_attr_fill = Some d /\ rect_b d = true).
Proof. exact attr_fill_refuted. Qed.
Print Assumptions c09_attr_fill_refuted.

(* the index list numpy's default argsort returned for keys 0,1,2,0,1,2,0,1 is a sorted permutation
   but not the stable one *)
Theorem c09_unstable_sort_refuted :
  Permutation (seq 0 8) w_numpy_perm /\
  StronglySorted (fun a b => dy_leb a b = true) (take DNaN w_numpy_perm w_keys) /\
  stable_argsort dy_leb w_keys = [0; 3; 6; 1; 4; 7; 2; 5] /\
  w_numpy_perm <> stable_argsort dy_leb w_keys.
Proof. exact unstable_sort_refuted. Qed.
Print Assumptions c09_unstable_sort_refuted.

(* non-vacuity of shared_reference_once_extend: the extend walk runs (self: sat, site.other = sat; other: site with
   an unattached .other, plus a field only other has), agrees with the pairing specification and keeps the sharing *)
Example extend_walk_runs :
  let o := build [New 3 10%Z;
                  Add "site" KPos false 1 None [PNum [Dy 1 0; Dy 1 0; Dy 1 0]; PNum [Dy 1 1; Dy 1 1; Dy 1 1]; PNum [Dy 3 0; Dy 3 0; Dy 3 0]]
                      [("other", TNew KPos [PNum [Dy 5 0; Dy 5 0; Dy 5 0]; PNum [Dy 7 0; Dy 7 0; Dy 7 0]; PNum [Dy 9 0; Dy 9 0; Dy 9 0]])];
                  Add "f" KFloat false 1 None [PNum [Dy 1 0]; PNum [Dy 1 1]; PNum [Dy 3 0]] []] in
  walk_agrees w_sharing o = true /\
  exists d, extend_walk w_sharing o = Some d /\ num_obs d = 5 /\ ref_is_field d "site" "other" "sat" = true /\
            option_map (fun ob => length (orows ob)) (field_obj d "f") = Some 5.
Proof. split; [vm_compute; reflexivity|]. eexists. vm_compute. repeat split. Qed.

(* non-vacuity of shared_reference_once: the walk terminates and keeps site.other = sat *)
Example walk_runs :
  exists d, subset_walk w_sharing [1; 0; 1] = Some d /\ num_obs d = 3 /\ ref_is_field d "site" "other" "sat" = true.
Proof. eexists. vm_compute. repeat split. Qed.

(* non-vacuity: a history with all kinds of steps runs in the model *)
Example history_runs :
  exists d, run all_off empty_dset
    [New 3 0%Z;
     Add "key" KFloat false 1 None [PNum [Dy 1 0]; PNum [DZero false]; PNum [Dy 1 0]] [];
     Add "sat" KPos false 1 None [PNum [Dy 1 0; Dy 1 0; Dy 1 0]; PNum [Dy 1 1; Dy 1 1; Dy 1 1]; PNum [Dy 3 0; Dy 3 0; Dy 3 0]] [];
     Add "site" KPos false 1 None [PNum [Dy 1 0; Dy 1 0; Dy 1 0]; PNum [Dy 1 1; Dy 1 1; Dy 1 1]; PNum [Dy 3 0; Dy 3 0; Dy 3 0]] [("other", TField "sat")];
     SubsetMask [true; false; true];
     Merge [build [New 1 10%Z; Add "key" KFloat false 1 None [PNum [DZero false]] []]] (Some "key");
     SubsetIdx [2; 0]] = Some d /\ num_obs d = 2 /\ rect_b d = true.
Proof. eexists. vm_compute. repeat split. Qed.
