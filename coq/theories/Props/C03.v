(* C03 - Time and time-difference arithmetic obeys the affine laws.
   Only statements, each closed by `exact <lemma>` and followed by Print Assumptions.
   `plus`/`minus` = Python's a + b / a - b on the specification model (two-part rational Julian dates,
   Model/C03_TimeArith.v); None = the operation is refused (NotImplemented -> TypeError).
   `same_point x y`: both refused, or same kind, same scale and jd1 + jd2 equal. *)
From Coq Require Import ZArith QArith Qabs List Bool String Reals.
From Flocq Require Import Core Binary Bits.
From Verif Require Import Lib.Dyadic Model.C03_TimeArith Model.C03_Formats Model.C03_Cells Gen.C03_TimeArith Model.C03_Classify
  Proofs.C03_TimeArith Proofs.C03_Formats Proofs.C03_Cells Proofs.C03_Gen Proofs.C03_Binary64.
Import ListNotations.
Open Scope Q_scope.

(* (t + d) - t = d     for all rational epochs and durations of one scale *)
Theorem add_sub_cancel : forall t d,
  okind t = KTime -> okind d = KDelta -> oscale t = oscale d ->
  same_point (obind (plus t d) (fun r => minus r t)) (Some d).
Proof. exact add_sub_cancel_l. Qed.
Print Assumptions add_sub_cancel.

(* (t - d) + d = t *)
Theorem sub_add_cancel : forall t d,
  okind t = KTime -> okind d = KDelta -> oscale t = oscale d ->
  same_point (obind (minus t d) (fun r => plus r d)) (Some t).
Proof. exact sub_add_cancel_l. Qed.
Print Assumptions sub_add_cancel.

(* (t2 - t1) + t1 = t2  and  t1 + (t2 - t1) = t2 *)
Theorem diff_add : forall t1 t2,
  okind t1 = KTime -> okind t2 = KTime -> oscale t1 = oscale t2 ->
  same_point (obind (minus t2 t1) (fun d => plus d t1)) (Some t2) /\
  same_point (obind (minus t2 t1) (fun d => plus t1 d)) (Some t2).
Proof. exact diff_add_l. Qed.
Print Assumptions diff_add.

(* t - d = t + (-d)   (both refused when the scales differ) *)
Theorem sub_is_add_neg : forall t d,
  okind t = KTime -> okind d = KDelta -> same_point (minus t d) (plus t (neg d)).
Proof. exact sub_is_add_neg_l. Qed.
Print Assumptions sub_is_add_neg.

(* d1 + d2 = d2 + d1 *)
Theorem delta_add_comm : forall d1 d2,
  okind d1 = KDelta -> okind d2 = KDelta -> same_point (plus d1 d2) (plus d2 d1).
Proof. exact delta_add_comm_l. Qed.
Print Assumptions delta_add_comm.

(* (d1 + d2) - d2 = d1 *)
Theorem delta_add_sub : forall d1 d2,
  okind d1 = KDelta -> okind d2 = KDelta -> oscale d1 = oscale d2 ->
  same_point (obind (plus d1 d2) (fun r => minus r d2)) (Some d1).
Proof. exact delta_add_sub_l. Qed.
Print Assumptions delta_add_sub.

(* t + d = d + t *)
Theorem time_delta_add_comm : forall t d,
  okind t = KTime -> okind d = KDelta -> same_point (plus t d) (plus d t).
Proof. exact time_delta_add_comm_l. Qed.
Print Assumptions time_delta_add_comm.

(* ALL operation sequences: every expression over epochs and durations built with +, - and unary minus that the
   specification accepts evaluates to the signed sum of its leaves, and is an epoch iff the signed number of
   epochs in it is 1 (a duration iff 0).  The six laws above are instances. *)
Theorem expression_affine : forall t r, run t = Some r ->
  value (ojd r) == aff t /\ kweight (okind r) = weight t.
Proof. exact run_affine_l. Qed.
Print Assumptions expression_affine.

(* two accepted expressions with the same signed sum of leaves denote the same point *)
Theorem expression_same_point : forall t t' r r',
  run t = Some r -> run t' = Some r' -> aff t == aff t' -> weight t = weight t' ->
  value (ojd r) == value (ojd r') /\ okind r = okind r'.
Proof. exact run_affine_eq. Qed.
Print Assumptions expression_same_point.

(* ... and an expression IS accepted when all leaves share one scale and every intermediate result is an epoch or a duration *)
Theorem expression_defined : forall sc t, wellformed sc t = true -> exists r, run t = Some r /\ oscale r = sc.
Proof. exact run_defined. Qed.
Print Assumptions expression_defined.

(* identically for every duration format: the format of an operand never influences the instant computed,
   and the same length given in two formats (days / jd / seconds / timedelta) yields the same (jd1, jd2) *)
Theorem duration_format_irrelevant :
  (forall op a b f f',
     same_point (spec op (with_fmt a f) b) (spec op a b) /\ same_point (spec op a (with_fmt b f')) (spec op a b)) /\
  (forall f f' v v', v * unit_days f == v' * unit_days f' ->
     jd1 (to_jds f v 0) == jd1 (to_jds f' v' 0) /\ jd2 (to_jds f v 0) == jd2 (to_jds f' v' 0)).
Proof. split; [exact fmt_irrelevant_l|exact to_jds_format_independent]. Qed.
Print Assumptions duration_format_irrelevant.

(* mixing scales is refused, for every operation and every pair of operand kinds *)
Theorem mixed_scale_refused : forall op a b,
  oscale a <> oscale b -> spec op a b = None /\ plus a b = None /\ minus a b = None.
Proof. exact mixed_scale_refused_l. Qed.
Print Assumptions mixed_scale_refused.

(* time + time and duration - time are refused *)
Theorem meaningless_refused : forall a b, okind b = KTime ->
  (okind a = KTime -> plus a b = None) /\ (okind a = KDelta -> minus a b = None).
Proof. exact meaningless_refused_l. Qed.
Print Assumptions meaningless_refused.

(* kind, scale and format of every result *)
Theorem result_scale_fmt : forall op a b r, spec op a b = Some r ->
  oscale r = oscale a /\ oscale r = oscale b /\ okind r = result_kind op (okind b) /\ ofmt r = result_fmt op a b.
Proof. exact result_scale_fmt_l. Qed.
Print Assumptions result_scale_fmt.

(* OPERAND INTEGRITY.  State machine over cells (caller arrays and the arrays of objects, with identity, contents and
   flags.writeable; Model/C03_Cells.v).  For ALL sequences of constructor / arithmetic / unary-minus / read-out calls of
   the specification, every cell that existed before still has the same contents and the same flag *)
Theorem operands_untouched : forall cs st id c,
  nth_error (st_heap st) id = Some c -> nth_error (st_heap (crun cq_off st cs)) id = Some c.
Proof. exact operands_untouched_l. Qed.
Print Assumptions operands_untouched.

(* ... the specification only ever appends cells, and the cells of new objects are frozen *)
Theorem results_fresh_and_frozen : forall st c,
  (exists ext, st_heap (cstep cq_off st c) = (st_heap st ++ ext)%list) /\
  (forall ext, st_heap (cstep cq_off st c) = (st_heap st ++ ext)%list -> (forall f a, c <> ReadOut f a) ->
     forall x, In x ext -> c_writeable x = false).
Proof. intros st c. split; [exact (cstep_off_extends st c)|exact (results_frozen_l st c)]. Qed.
Print Assumptions results_fresh_and_frozen.

(* the historical defects, as quirks of the machine, break it: `val *= second2day` rewrites the caller's array ... *)
Theorem c03_seconds_inplace_refuted :
  nth_error (st_heap (cstep (mkCQ true false) (mkState [caller_secs] []) (NewDelta DSeconds "utc" (ACell 0) ANone))) 0
    <> Some caller_secs /\
  nth_error (st_heap (cstep cq_off (mkState [caller_secs] []) (NewDelta DSeconds "utc" (ACell 0) ANone))) 0 = Some caller_secs.
Proof. exact seconds_inplace_refuted_l. Qed.
Print Assumptions c03_seconds_inplace_refuted.

(* ... and `val2 += val - whole` overwrites the caller's val2, freezes it and aliases it as jd2 of the new object *)
Theorem c03_val2_aliased_refuted :
  let st := mkState [caller_val; caller_val2] [] in
  let st' := cstep (mkCQ false true) st (NewDelta DDays "utc" (ACell 0) (ACell 1)) in
  option_map (fun c => (map Qred (c_data c), c_writeable c)) (nth_error (st_heap st') 1) = Some ([(1 # 4); (1 # 4)]%Q, false) /\
  map t_jd2 (st_objs st') = [1%nat] /\
  nth_error (st_heap (cstep cq_off st (NewDelta DDays "utc" (ACell 0) (ACell 1)))) 1 = Some caller_val2.
Proof. exact val2_aliased_refuted_l. Qed.
Print Assumptions c03_val2_aliased_refuted.

(* duration formats: _to_jds keeps the length, normalises to whole days + fraction in [0,1), and _from_jds inverts it *)
Theorem delta_to_jds_value : forall f v v2, value (to_jds f v v2) == (v + v2) * unit_days f.
Proof. exact to_jds_value_l. Qed.
Print Assumptions delta_to_jds_value.

Theorem delta_to_jds_normalised : forall f v v2,
  (exists z : Z, jd1 (to_jds f v v2) = inject_Z z) /\ 0 <= jd2 (to_jds f v v2) /\ jd2 (to_jds f v v2) < 1.
Proof. exact to_jds_normalised_l. Qed.
Print Assumptions delta_to_jds_normalised.

Theorem delta_from_to_jds : forall f v v2, from_jds f (to_jds f v v2) == v + v2.
Proof. exact from_to_jds_l. Qed.
Print Assumptions delta_from_to_jds.

(* "to better than 1 ns": evaluated with ANY rounding operator of relative error 2^-53 that is exact on
   half-integers (binary64 is one), two-part addition / subtraction of operands whose day parts are
   half-integers loses at most B * 2^-53 day, B a bound of the fraction sum; for B = 4 that is < 0.04 ns,
   independent of the size of the epochs and durations *)
Theorem two_part_accuracy : forall rnd : Q -> Q,
  (forall x, Qabs (rnd x - x) <= Qabs x * (1 # 9007199254740992)) ->
  (forall k : Z, (Z.abs k <= 9007199254740992)%Z -> rnd (k # 2) == k # 2) ->
  (forall x y, x == y -> rnd x == rnd y) ->
  (forall a b ka kb B, jd1 a == ka # 2 -> jd1 b == kb # 2 -> (Z.abs (ka + kb) <= 9007199254740992)%Z ->
     Qabs (jd2 a + jd2 b) <= B ->
     Qabs (value (fl_jadd rnd a b) - (value a + value b)) <= B * (1 # 9007199254740992)) /\
  (forall a b ka kb B, jd1 a == ka # 2 -> jd1 b == kb # 2 -> (Z.abs (ka - kb) <= 9007199254740992)%Z ->
     Qabs (jd2 a - jd2 b) <= B ->
     Qabs (value (fl_jsub rnd a b) - (value a - value b)) <= B * (1 # 9007199254740992)) /\
  4 * (1 # 9007199254740992) < ns * (1 # 25).
Proof.
  intros rnd H1 H2 H3. split; [|split].
  - exact (two_part_add_accuracy rnd H1 H2 H3).
  - exact (two_part_sub_accuracy rnd H1 H2 H3).
  - exact accuracy_budget.
Qed.
Print Assumptions two_part_accuracy.

(* ... and the rounding hypothesis DISCHARGED for actual IEEE-754 binary64 (Flocq's b64_plus / b64_minus, round to
   nearest even), over the reals: for finite doubles whose whole-day parts are half-integers (|ka +- kb| < 2^53) and whose
   fraction sum / difference is bounded by B <= 2^1000, two-part addition / subtraction errs by at most B * 2^-53;
   B = 4 gives < 1/25 ns.  (Uses the axioms of the real numbers of the standard library.) *)
Theorem two_part_accuracy_binary64 :
  (forall (a1 a2 b1 b2 : Bits.binary64) (ka kb : Z) (B : R),
     Binary.is_finite 53 1024 a1 = true -> Binary.is_finite 53 1024 a2 = true ->
     Binary.is_finite 53 1024 b1 = true -> Binary.is_finite 53 1024 b2 = true ->
     Binary.B2R 53 1024 a1 = (IZR ka / 2)%R -> Binary.B2R 53 1024 b1 = (IZR kb / 2)%R -> (Z.abs (ka + kb) < 2 ^ 53)%Z ->
     (Rabs (Binary.B2R 53 1024 a2 + Binary.B2R 53 1024 b2) <= B)%R -> (B <= Raux.bpow Zaux.radix2 1000)%R ->
     (Rabs ((Binary.B2R 53 1024 (Bits.b64_plus BinarySingleNaN.mode_NE a1 b1) + Binary.B2R 53 1024 (Bits.b64_plus BinarySingleNaN.mode_NE a2 b2))
            - ((Binary.B2R 53 1024 a1 + Binary.B2R 53 1024 a2) + (Binary.B2R 53 1024 b1 + Binary.B2R 53 1024 b2)))
      <= B * / 2 * Raux.bpow Zaux.radix2 (-52))%R) /\
  (forall (a1 a2 b1 b2 : Bits.binary64) (ka kb : Z) (B : R),
     Binary.is_finite 53 1024 a1 = true -> Binary.is_finite 53 1024 a2 = true ->
     Binary.is_finite 53 1024 b1 = true -> Binary.is_finite 53 1024 b2 = true ->
     Binary.B2R 53 1024 a1 = (IZR ka / 2)%R -> Binary.B2R 53 1024 b1 = (IZR kb / 2)%R -> (Z.abs (ka - kb) < 2 ^ 53)%Z ->
     (Rabs (Binary.B2R 53 1024 a2 - Binary.B2R 53 1024 b2) <= B)%R -> (B <= Raux.bpow Zaux.radix2 1000)%R ->
     (Rabs ((Binary.B2R 53 1024 (Bits.b64_minus BinarySingleNaN.mode_NE a1 b1) + Binary.B2R 53 1024 (Bits.b64_minus BinarySingleNaN.mode_NE a2 b2))
            - ((Binary.B2R 53 1024 a1 + Binary.B2R 53 1024 a2) - (Binary.B2R 53 1024 b1 + Binary.B2R 53 1024 b2)))
      <= B * / 2 * Raux.bpow Zaux.radix2 (-52))%R) /\
  (4 * / 2 * Raux.bpow Zaux.radix2 (-52) < / 86400000000000 * / 25)%R.
Proof. split; [exact two_part_add_binary64|split; [exact two_part_sub_binary64|exact budget_R]]. Qed.
Print Assumptions two_part_accuracy_binary64.

(* the decision procedure that compares regenerated methods with the models is sound for all operands ... *)
Theorem method_eqb_sound : forall m m',
  method_eqb m m' = true -> forall s o, oequiv (run_method m s o) (run_method m' s o).
Proof. exact method_eqb_sound_l. Qed.
Print Assumptions method_eqb_sound.

(* ... and complete on the arithmetic: expressions equal on all operands are accepted as equal *)
Theorem method_eqb_complete : forall e e',
  (forall s o, eval e s o == eval e' s o) -> lin_eqb (lin_of e) (lin_of e') = true.
Proof. exact expr_equiv_complete. Qed.
Print Assumptions method_eqb_complete.

(* REGENERATED: TimeArray.__add__/__sub__ and TimeDeltaArray.__add__/__sub__ as read from the source on this run
   equal, on all operands, the model with the quirk set `gen_quirks` (Some all_off = the specification) *)
Theorem gen_is_model :
  exists q, gen_quirks = Some q /\
    forall op s o, okind s = self_kind op -> oequiv (run_method (gen_method op) s o) (model q op s o).
Proof. exact gen_is_model_l. Qed.
Print Assumptions gen_is_model.

(* REGENERATED: the body of TimeDeltaArray.__neg__ read from the source negates both parts of every duration
   (NegAbsent = no such method, ndarray.__neg__ is inherited: quirk c03_neg_keeps_jds) *)
Theorem gen_neg_is_model :
  gen_neg = NegAbsent \/
  exists oc, gen_neg = NegBody oc /\ forall d, oequiv (run_unary oc d) (Some (neg d)).
Proof. exact gen_neg_is_model_l. Qed.
Print Assumptions gen_neg_is_model.

(* REGENERATED: the bodies of TimeDeltaJD/Sec/Day/DateTime._to_jds and ._from_jds read from the source (every
   try/except path) compute the specification's to_jds / from_jds for all rational inputs: which unit factor multiplies
   which part, the floor split into whole days + fraction, the inverse factor on the way back; every `Unit.<name>`
   constant has, at run time, the double nearest to its ideal value; all four formats are present *)
Theorem gen_delta_formats_are_model :
  (forall name, In name ["days"; "jd"; "seconds"; "timedelta"]%string ->
     exists fs, In fs gen_delta_fmt_srcs /\ fs_name fs = name) /\
  (forall fs, In fs gen_delta_fmt_srcs ->
     exists f, dfmt_of_name (fs_name fs) = Some f /\
       (forall e1 e2, In (e1, e2) (fs_to fs) -> forall v v2,
           feval e1 v v2 == jd1 (to_jds f v v2) /\ feval e2 v v2 == jd2 (to_jds f v v2)) /\
       (forall e, In e (fs_from fs) -> forall a b, feval e a b == from_jds f (mkJ a b)) /\
       fs_to fs <> [] /\ fs_from fs <> []).
Proof. exact gen_delta_formats_are_model_l. Qed.
Print Assumptions gen_delta_formats_are_model.

Theorem gen_laws_if_clean :
  gen_quirks = Some all_off ->
  forall t d, okind t = KTime -> okind d = KDelta -> oscale t = oscale d ->
    same_point (obind (gen_minus t d) (fun r => gen_plus r d)) (Some t) /\
    same_point (obind (gen_plus t d) (fun r => gen_minus r t)) (Some d).
Proof. exact gen_laws_if_clean_l. Qed.
Print Assumptions gen_laws_if_clean.

(* REGENERATED: every time scale has a duration class (time - time looks it up) and the four formats exist *)
Theorem gen_delta_class_for_every_scale : delta_class_for_every_scale = true /\ four_delta_formats = true.
Proof. exact gen_delta_class_l. Qed.
Print Assumptions gen_delta_class_for_every_scale.

(* quirks of the source as it was found: each falsifies a law *)
Theorem c03_sub_drops_days_refuted :
  ~ same_point (obind (minus_q (mkQuirks true false false) t_w d_w)
                      (fun r => plus_q (mkQuirks true false false) r d_w)) (Some t_w).
Proof. exact sub_drops_days_refuted_l. Qed.
Print Assumptions c03_sub_drops_days_refuted.

Theorem c03_add_collapses_refuted :
  is_nearest_double (qof w_o1 + qof w_o2) w_D = true /\
  is_nearest_double (qof w_s2 + qof w_D) w_r = true /\
  60 * ns < Qabs (qof w_r - (qof w_s2 + (qof w_o1 + qof w_o2))) /\
  is_nearest_double (qof w_s2 + qof w_o2) w_p = true /\
  Qabs (qof w_o1 + qof w_p - (qof w_o1 + (qof w_s2 + qof w_o2))) < ns * (1 # 25).
Proof. exact add_collapses_refuted_l. Qed.
Print Assumptions c03_add_collapses_refuted.

Theorem c03_neg_keeps_jds_refuted :
  ~ same_point (minus_q (mkQuirks false false true) t_w d_w)
               (plus_q (mkQuirks false false true) t_w (neg_q (mkQuirks false false true) d_w)).
Proof. exact neg_keeps_jds_refuted_l. Qed.
Print Assumptions c03_neg_keeps_jds_refuted.

(* non-vacuity: the hypotheses of the laws are satisfiable and the operations are defined there *)
Example laws_not_vacuous :
  okind t_w = KTime /\ okind d_w = KDelta /\ oscale t_w = oscale d_w /\
  (exists r, plus t_w d_w = Some r) /\ (exists r, minus t_w d_w = Some r) /\ (exists r, minus t_w t_w = Some r).
Proof. repeat split; eexists; reflexivity. Qed.

(* non-vacuity of the rounding hypotheses: exact arithmetic satisfies them *)
Example rounding_hypotheses_satisfiable :
  (forall x, Qabs ((fun y => y) x - x) <= Qabs x * (1 # 9007199254740992)) /\
  (forall k : Z, (Z.abs k <= 9007199254740992)%Z -> (fun y : Q => y) (k # 2) == k # 2).
Proof.
  split; [|intros; reflexivity].
  intros x. assert (E : x - x == 0) by ring. rewrite E. cbn.
  apply Qmult_le_0_compat; [apply Qabs_nonneg|discriminate].
Qed.

(* the witness of c03_sub_drops_days in numbers: JD 2458849.5 - 2.25 d + 2.25 d = JD 2458851.5 under the quirk *)
Example sub_drops_days_numbers :
  match obind (minus_q (mkQuirks true false false) t_w d_w) (fun r => plus_q (mkQuirks true false false) r d_w) with
  | Some r => Qeq_bool (value (ojd r)) (4917703 # 2) = true
  | None => False
  end.
Proof. vm_compute. reflexivity. Qed.
