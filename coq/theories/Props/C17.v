(* Proof obligations of property C17 (DESIGN 4.17).  Statements only; proofs in Proofs/C17_Layout.v (generic) and
   Proofs/C17_Instances.v (criteria evaluated on the layouts regenerated from the source, Gen/C17_WriterLayouts.v). *)
From Coq Require Import Ascii String List Bool Arith ZArith QArith Lia.
From Verif Require Import Lib.Text Lib.Decimal Lib.Dyadic Model.C17_Layout Gen.C17_WriterLayouts Proofs.C17_Layout Proofs.C17_Instances.
Import ListNotations.
Local Open Scope string_scope.

(* ---- writer / parser pairs: the column -> field map every parser column obtains (None = not readable) *)
Theorem compatible_bernese_crd :
  span_map L_crd P_crd = [Some (PFld 0); Some (PFld 1); Some (PFld 2); Some (PFld 3); Some (PFld 4); Some (PFld 5); Some (PConst "A")].
Proof. exact compatible_bernese_crd_l. Qed.
Print Assumptions compatible_bernese_crd.

Theorem compatible_bernese_clu : span_map L_clu P_clu = [Some (PFld 0); Some (PConst ""); Some (PConst "1")].
Proof. exact compatible_bernese_clu_l. Qed.
Print Assumptions compatible_bernese_clu.

Theorem compatible_bernese_sta_v52 :
  span_map L_sta2 P_sta52 =
  [Some (PFld 0); Some (PFld 1); Some (PConst "001"); Some (PFld 2); Some (PFld 3); Some (PFld 4); Some (PFld 5); Some (PFld 6);
   Some (PFld 7); Some (PFld 8); Some (PFld 9); Some (PFld 10); Some (PFld 11); Some (PFld 12); Some (PFld 13); Some (PFld 14);
   Some (PFld 15)].
Proof. exact compatible_bernese_sta_v52_l. Qed.
Print Assumptions compatible_bernese_sta_v52.

Theorem bernese_sta_v54_incompatible : compatible L_sta2 P_sta54 = false.
Proof. exact bernese_sta_v54_incompatible_l. Qed.
Print Assumptions bernese_sta_v54_incompatible.

Theorem compatible_tms_header :
  span_map L_tms_header P_tms_header =
  [Some (PFld 0); Some (PFld 1); Some (PFld 2); Some (PFld 3); Some (PFld 4); Some (PFld 5); Some (PFld 6); Some (PFld 7)].
Proof. exact compatible_tms_header_l. Qed.
Print Assumptions compatible_tms_header.

Theorem compatible_tms_file_reference :
  map (fun l => span_map l P_tms_file_reference)
      [L_tms_fr_description; L_tms_fr_contact; L_tms_fr_software; L_tms_fr_input; L_tms_fr_version] =
  [[Some (PConst "DESCRIPTION"); Some (PFld 0)]; [Some (PConst "CONTACT"); Some (PFld 0)]; [Some (PConst "SOFTWARE"); Some (PFld 0)];
   [Some (PConst "INPUT"); Some (PFld 0)]; [Some (PConst "VERSION NUMBER"); Some (PFld 0)]].
Proof. exact compatible_tms_file_reference_l. Qed.
Print Assumptions compatible_tms_file_reference.

Theorem compatible_tms_ref_coordinate :
  span_map L_tms_refcoord P_tms_refcoord =
  [Some (PFld 0); Some (PConst "A"); Some (PConst "----"); Some (PConst "P"); Some (PFld 1); Some (PFld 2); Some (PFld 3);
   Some (PFld 4); Some (PFld 5)].
Proof. exact compatible_tms_ref_coordinate_l. Qed.
Print Assumptions compatible_tms_ref_coordinate.

Theorem compatible_tms_columns :
  span_map L_tms_columns P_tms_columns = [Some (PFld 0); Some (PFld 1); Some (PFld 2); Some (PFld 3)].
Proof. exact compatible_tms_columns_l. Qed.
Print Assumptions compatible_tms_columns.

(* ---- SINEX-TMS block markers *)
Theorem tms_blocks_wf : forallb (fun nb => block_wf (snd nb)) tms_blocks = true /\ List.length tms_blocks = 6%nat.
Proof. exact tms_blocks_wf_l. Qed.
Print Assumptions tms_blocks_wf.

Theorem blocks_balanced : forall bs,
  Forall (fun bb => block_wf (fst bb) = true /\ Forall (fun l => body_line_ok l = true) (snd bb)) bs ->
  balanced None (file_lines bs) = true.
Proof. exact blocks_balanced_l. Qed.
Print Assumptions blocks_balanced.

Theorem tms_rows_start_blank : forall s r cs, body_line_ok (render_c (Lit (String " " s) :: r) cs) = true.
Proof. exact row_starts_blank_l. Qed.
Print Assumptions tms_rows_start_blank.

Theorem tms_types_shape :
  forallb (fun nf => (0 <? f_w (snd nf))%nat && (f_max (snd nf) =? f_w (snd nf))%nat) tms_types = true.
Proof. exact tms_types_shape_l. Qed.
Print Assumptions tms_types_shape.

Theorem sta_fields_in_ruler :
  fields_in_ruler ruler_sta1 L_sta1 = true /\ fields_in_ruler ruler_sta2 L_sta2 = true /\ fields_in_ruler ruler_sta3 L_sta3 = true.
Proof. exact sta_fields_in_ruler_l. Qed.
Print Assumptions sta_fields_in_ruler.

(* ---- rows read by splitting on white space *)
Theorem tokens_pieces : forall ps gend, Forall (fun p => is_token (snd p) = true) ps ->
  (split_ws (pieces_str ps gend) = map snd ps <-> gaps_ok ps = true).
Proof. exact tokens_pieces_l. Qed.
Print Assumptions tokens_pieces.

Theorem tms_tokens : forall lead ws cs, List.length ws = List.length cs ->
  Forall (fun c => is_token c = true) cs ->
  (split_ws (row_line lead ws cs) = cs <-> Forall2 (fun w c => (len c < w)%nat) (tl ws) (tl cs)).
Proof. exact tms_tokens_l. Qed.
Print Assumptions tms_tokens.

Theorem token_row_sound : forall lay cs ps ge,
  lay_pieces 0 lay cs = Some (ps, ge) -> fits lay cs = true -> Forall (fun c => is_token c = true) cs ->
  (parse_tokens (render_c lay cs) = cs <-> gaps_ok ps = true).
Proof. exact token_row_sound_l. Qed.
Print Assumptions token_row_sound.

Theorem tms_domain_fits :
  forallb (fun nd => match lookup_fld tms_types (fst nd) with Some f => fix_width_ok true f (snd nd) | None => false end) tms_domain = true.
Proof. exact tms_domain_fits_l. Qed.
Print Assumptions tms_domain_fits.

Theorem crd_domain_fits :
  forallb (fun i => fix_width_ok false (nth_fld L_crd i) 999999999999%Z) [3; 4; 5]%nat = true /\
  forallb (fun i => fix_width_ok false (nth_fld L_tms_refcoord i) 99999999999%Z) [2; 3; 4]%nat = true.
Proof. exact crd_domain_fits_l. Qed.
Print Assumptions crd_domain_fits.

(* ---- numbers *)
Theorem fits_characterisation : forall w d m, (0 < d)%nat ->
  (d + 2 + (if (m <? 0)%Z then 1 else 0) <= w)%nat ->
  (fits_F w d m <-> (Z.abs m < 10 ^ (Z.of_nat w - (if (m <? 0)%Z then 2 else 1)))%Z).
Proof. exact fits_characterisation_l. Qed.
Print Assumptions fits_characterisation.

Theorem narrower_characterisation : forall w d m, (0 < d)%nat ->
  (d + 3 + (if (m <? 0)%Z then 1 else 0) <= w)%nat ->
  ((len (render_F_raw d m) < w)%nat <-> (Z.abs m < 10 ^ (Z.of_nat w - (if (m <? 0)%Z then 3 else 2)))%Z).
Proof. exact narrower_characterisation_l. Qed.
Print Assumptions narrower_characterisation.

Theorem fix_readback : forall d m e,
  let r := fix_mant d m e in (r <> 0 \/ 0 < m)%Z -> parse_float (py_fix d (Dy m e)) = Some (dec_value r d).
Proof. exact fix_readback_l. Qed.
Print Assumptions fix_readback.

(* non-vacuity: "%12.4f" % 999999.9999 has 11 characters (fits with a blank), 1000000.0 has 12 (no blank left) *)
Example east_fits : (len (render_F_raw 4 9999999999) < 12)%nat /\ ~ (len (render_F_raw 4 10000000000) < 12)%nat.
Proof. split; vm_compute; lia. Qed.
