(* Proof obligations of property C17 (DESIGN 4.17).  Statements only; proofs in Proofs/C17_*.v *)
From Coq Require Import Ascii String List Bool Arith ZArith Lia.
From Verif Require Import Lib.Text Lib.Decimal Lib.Dyadic Model.C17_Layout Gen.C17_WriterLayouts Proofs.C17_Instances.
Import ListNotations.
Local Open Scope string_scope.

Theorem compatible_bernese_crd :
  span_map L_crd P_crd = [Some (PFld 0); Some (PFld 1); Some (PFld 2); Some (PFld 3); Some (PFld 4); Some (PFld 5); Some (PConst "A")].
Proof. exact compatible_bernese_crd_l. Qed.
Print Assumptions compatible_bernese_crd.
