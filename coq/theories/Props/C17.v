(* Proof obligations of property C17 (DESIGN 4.17).  Statements only; proofs in Proofs/C17_Layout.v (generic) and
   Proofs/C17_Instances.v (criteria evaluated on the layouts regenerated from the source, Gen/C17_WriterLayouts.v). *)
From Coq Require Import Ascii String List Bool Arith ZArith QArith Lia.
From Verif Require Import Lib.Text Lib.Decimal Lib.Dyadic Model.C17_Layout Gen.C17_WriterLayouts Proofs.C17_Layout Proofs.C17_Sound Proofs.C17_Instances.
Import ListNotations.
Local Open Scope string_scope.

(* ---- the generic theorem: for EVERY layout, column table and record: if the decidable criterion [compatible] holds and the
   values fit their columns, the fixed-column parser returns, column by column, the stripped formatted value of the field
   (or the literal) that [span_map] states *)
Theorem layout_compatible_sound : forall lay spans cs,
  compatible lay spans = true -> fits lay cs = true ->
  parse_slices spans (render_c lay cs) = map (expected1 cs) (span_map lay spans).
Proof. exact layout_compatible_sound_l. Qed.
Print Assumptions layout_compatible_sound.

Theorem layout_compatible_values : forall lay spans vals,
  compatible lay spans = true -> fits lay (contents lay vals) = true ->
  parse_slices spans (render_line lay vals) = map (expected1 (contents lay vals)) (span_map lay spans).
Proof. exact layout_compatible_values_l. Qed.
Print Assumptions layout_compatible_values.

(* ... and to printed precision: float() of a numeric column is the correctly rounded decimal the writer printed *)
Theorem column_reads_printed_value : forall lay spans vals k i d m e,
  compatible lay spans = true -> fits lay (contents lay vals) = true ->
  nth k (span_map lay spans) None = Some (PFld i) ->
  nth i (contents lay vals) "" = py_fix d (Dy m e) ->
  (fix_mant d m e <> 0 \/ 0 < m)%Z ->
  parse_float (nth k (parse_slices spans (render_line lay vals)) "") = Some (dec_value (fix_mant d m e) d).
Proof. exact column_reads_printed_value_l. Qed.
Print Assumptions column_reads_printed_value.

(* ---- writer / parser pairs, on the layouts and column tables regenerated from the current source: the round trip for ALL
   records whose values fit ([C n cs] = strip of the formatted value of field n) *)
Theorem compatible_bernese_crd : forall vals, let cs := contents L_crd vals in fits L_crd cs = true ->
  parse_slices P_crd (render_line L_crd vals) = [C 0 cs; C 1 cs; C 2 cs; C 3 cs; C 4 cs; C 5 cs; "A"].
Proof. exact roundtrip_bernese_crd_l. Qed.
Print Assumptions compatible_bernese_crd.

Theorem crd_reads_printed_coordinate : forall vals k d m e,
  fits L_crd (contents L_crd vals) = true -> (3 <= k <= 5)%nat ->
  nth k (contents L_crd vals) "" = py_fix d (Dy m e) -> (fix_mant d m e <> 0 \/ 0 < m)%Z ->
  parse_float (nth k (parse_slices P_crd (render_line L_crd vals)) "") = Some (dec_value (fix_mant d m e) d).
Proof. exact crd_reads_printed_coordinate_l. Qed.
Print Assumptions crd_reads_printed_coordinate.

Theorem compatible_bernese_clu : forall vals, let cs := contents L_clu vals in fits L_clu cs = true ->
  parse_slices P_clu (render_line L_clu vals) = [C 0 cs; ""; "1"].
Proof. exact roundtrip_bernese_clu_l. Qed.
Print Assumptions compatible_bernese_clu.

Theorem compatible_bernese_sta_v52 : forall vals, let cs := contents L_sta2 vals in fits L_sta2 cs = true ->
  parse_slices P_sta52 (render_line L_sta2 vals) =
  [C 0 cs; C 1 cs; "001"; C 2 cs; C 3 cs; C 4 cs; C 5 cs; C 6 cs; C 7 cs; C 8 cs; C 9 cs; C 10 cs; C 11 cs; C 12 cs; C 13 cs;
   C 14 cs; C 15 cs].
Proof. exact roundtrip_bernese_sta_v52_l. Qed.
Print Assumptions compatible_bernese_sta_v52.

Theorem bernese_sta_v54_incompatible : compatible L_sta2 P_sta54 = false.
Proof. exact bernese_sta_v54_incompatible_l. Qed.
Print Assumptions bernese_sta_v54_incompatible.

Theorem compatible_tms_header : forall vals, let cs := contents L_tms_header vals in fits L_tms_header cs = true ->
  parse_slices P_tms_header (render_line L_tms_header vals) = [C 0 cs; C 1 cs; C 2 cs; C 3 cs; C 4 cs; C 5 cs; C 6 cs; C 7 cs].
Proof. exact roundtrip_tms_header_l. Qed.
Print Assumptions compatible_tms_header.

Theorem compatible_tms_file_reference :
  (forall vals, let cs := contents L_tms_fr_description vals in fits L_tms_fr_description cs = true ->
     parse_slices P_tms_file_reference (render_line L_tms_fr_description vals) = ["DESCRIPTION"; C 0 cs]) /\
  (forall vals, let cs := contents L_tms_fr_contact vals in fits L_tms_fr_contact cs = true ->
     parse_slices P_tms_file_reference (render_line L_tms_fr_contact vals) = ["CONTACT"; C 0 cs]) /\
  (forall vals, let cs := contents L_tms_fr_software vals in fits L_tms_fr_software cs = true ->
     parse_slices P_tms_file_reference (render_line L_tms_fr_software vals) = ["SOFTWARE"; C 0 cs]) /\
  (forall vals, let cs := contents L_tms_fr_input vals in fits L_tms_fr_input cs = true ->
     parse_slices P_tms_file_reference (render_line L_tms_fr_input vals) = ["INPUT"; C 0 cs]) /\
  (forall vals, let cs := contents L_tms_fr_version vals in fits L_tms_fr_version cs = true ->
     parse_slices P_tms_file_reference (render_line L_tms_fr_version vals) = ["VERSION NUMBER"; C 0 cs]).
Proof. exact roundtrip_tms_file_reference_l. Qed.
Print Assumptions compatible_tms_file_reference.

Theorem compatible_tms_ref_coordinate : forall vals, let cs := contents L_tms_refcoord vals in fits L_tms_refcoord cs = true ->
  parse_slices P_tms_refcoord (render_line L_tms_refcoord vals) = [C 0 cs; "A"; "----"; "P"; C 1 cs; C 2 cs; C 3 cs; C 4 cs; C 5 cs].
Proof. exact roundtrip_tms_ref_coordinate_l. Qed.
Print Assumptions compatible_tms_ref_coordinate.

Theorem compatible_tms_columns : forall vals, let cs := contents L_tms_columns vals in fits L_tms_columns cs = true ->
  parse_slices P_tms_columns (render_line L_tms_columns vals) = [C 0 cs; C 1 cs; C 2 cs; C 3 cs].
Proof. exact roundtrip_tms_columns_l. Qed.
Print Assumptions compatible_tms_columns.

(* ---- SINEX-TMS block markers *)
Theorem tms_blocks_wf : forallb (fun nb => block_wf (snd nb)) tms_blocks = true /\ List.length tms_blocks = 6%nat.
Proof. exact tms_blocks_wf_l. Qed.
Print Assumptions tms_blocks_wf.

Theorem blocks_balanced : forall bs,
  Forall (fun bb => block_wf (fst bb) = true /\ Forall (fun l => body_line_ok l = true) (snd bb)) bs ->
  balanced None (file_lines bs) = true.
Proof. exact blocks_balanced_l. Qed.
Print Assumptions blocks_balanced.

Theorem tms_rows_start_blank : forall s r cs, body_line_ok (render_c (Lit (String " " s) :: r) cs) = true.
Proof. exact row_starts_blank_l. Qed.
Print Assumptions tms_rows_start_blank.

Theorem tms_types_shape :
  forallb (fun nf => (0 <? f_w (snd nf))%nat && (f_max (snd nf) =? f_w (snd nf))%nat) tms_types = true.
Proof. exact tms_types_shape_l. Qed.
Print Assumptions tms_types_shape.

Theorem sta_fields_in_ruler :
  fields_in_ruler ruler_sta1 L_sta1 = true /\ fields_in_ruler ruler_sta2 L_sta2 = true /\ fields_in_ruler ruler_sta3 L_sta3 = true.
Proof. exact sta_fields_in_ruler_l. Qed.
Print Assumptions sta_fields_in_ruler.

Theorem tms_fields_under_headers :
  fields_in_ruler hdr_tms_est L_tms_est = true /\ fields_in_ruler hdr_tms_est L_tms_est1 = true /\
  fields_in_ruler hdr_tms_refcoord L_tms_refcoord = true /\ fields_in_ruler hdr_tms_columns L_tms_columns = true.
Proof. exact tms_fields_under_headers_l. Qed.
Print Assumptions tms_fields_under_headers.

(* ---- rows read by splitting on white space *)
Theorem tokens_pieces : forall ps gend, Forall (fun p => is_token (snd p) = true) ps ->
  (split_ws (pieces_str ps gend) = map snd ps <-> gaps_ok ps = true).
Proof. exact tokens_pieces_l. Qed.
Print Assumptions tokens_pieces.

Theorem tms_tokens : forall lead ws cs, List.length ws = List.length cs ->
  Forall (fun c => is_token c = true) cs ->
  (split_ws (row_line lead ws cs) = cs <-> Forall2 (fun w c => (len c < w)%nat) (tl ws) (tl cs)).
Proof. exact tms_tokens_l. Qed.
Print Assumptions tms_tokens.

Theorem token_row_sound : forall lay cs ps ge,
  lay_pieces 0 lay cs = Some (ps, ge) -> fits lay cs = true -> Forall (fun c => is_token c = true) cs ->
  (parse_tokens (render_c lay cs) = cs <-> gaps_ok ps = true).
Proof. exact token_row_sound_l. Qed.
Print Assumptions token_row_sound.

Theorem tms_domain_fits :
  forallb (fun nd => match lookup_fld tms_types (fst nd) with Some f => fix_width_ok true f (snd nd) | None => false end) tms_domain = true.
Proof. exact tms_domain_fits_l. Qed.
Print Assumptions tms_domain_fits.

Theorem crd_domain_fits :
  forallb (fun i => fix_width_ok false (nth_fld L_crd i) 999999999999%Z) [3; 4; 5]%nat = true /\
  forallb (fun i => fix_width_ok false (nth_fld L_tms_refcoord i) 99999999999%Z) [2; 3; 4]%nat = true.
Proof. exact crd_domain_fits_l. Qed.
Print Assumptions crd_domain_fits.

(* ---- numbers *)
Theorem fits_characterisation : forall w d m, (0 < d)%nat ->
  (d + 2 + (if (m <? 0)%Z then 1 else 0) <= w)%nat ->
  (fits_F w d m <-> (Z.abs m < 10 ^ (Z.of_nat w - (if (m <? 0)%Z then 2 else 1)))%Z).
Proof. exact fits_characterisation_l. Qed.
Print Assumptions fits_characterisation.

Theorem narrower_characterisation : forall w d m, (0 < d)%nat ->
  (d + 3 + (if (m <? 0)%Z then 1 else 0) <= w)%nat ->
  ((len (render_F_raw d m) < w)%nat <-> (Z.abs m < 10 ^ (Z.of_nat w - (if (m <? 0)%Z then 3 else 2)))%Z).
Proof. exact narrower_characterisation_l. Qed.
Print Assumptions narrower_characterisation.

Theorem fix_readback : forall d m e,
  let r := fix_mant d m e in (r <> 0 \/ 0 < m)%Z -> parse_float (py_fix d (Dy m e)) = Some (dec_value r d).
Proof. exact fix_readback_l. Qed.
Print Assumptions fix_readback.

(* non-vacuity: "%12.4f" % 999999.9999 has 11 characters (fits with a blank), 1000000.0 has 12 (no blank left) *)
Example east_fits : (len (render_F_raw 4 9999999999) < 12)%nat /\ ~ (len (render_F_raw 4 10000000000) < 12)%nat.
Proof. split; vm_compute; lia. Qed.

(* non-vacuity of the round trip: a concrete CRD record fits and reads back *)
Example crd_roundtrip_example :
  let vals := [VI 1; VS "ADAC"; VS "10337M001"; VF (Dy 1 (-6)); VF (Dy (-5) (-1)); VF (Dy 123456789 (-4))] in
  fits L_crd (contents L_crd vals) = true /\
  parse_slices P_crd (render_line L_crd vals) = ["1"; "ADAC"; "10337M001"; "0.01562"; "-2.50000"; "7716049.31250"; "A"].
Proof. vm_compute. split; reflexivity. Qed.
