(* C07 - Orbit state <-> Keplerian elements conversion is invertible and consistent.
   Only statements, each closed by `exact <lemma>` and followed by Print Assumptions.
   (harness/core.py reads the Print Assumptions output in this order.)
   Model: Model/C07_Kepler.v (kepler2trs / trs2kepler of midgard/math/transformation.py, KeplerPosVel.M / .f).
   All statements are over the real numbers, for every GM > 0 and every element set with a > 0, 0 < e < 1, 0 < i < PI
   (`elliptic_inclined`) and arbitrary angles, unless a range is stated. *)
From Coq Require Import Reals ZArith QArith Qreals List Bool.
From Verif Require Import Lib.Dyadic Lib.Atan2 Lib.Ival Lib.Vec3 Lib.Mat3 Gen.C07_Const Model.C07_Kepler
  Proofs.C07_Kepler Proofs.C07_StateRoundtrip.
Import ListNotations.
Open Scope R_scope.

(* ---- the state produced from elements satisfies the two-body relations *)
Theorem r_norm : forall GM k, 0 < GM -> elliptic_inclined k ->
  norm (fst (kepler2trs GM k)) = k_a k * (1 - k_e k * cos (k_E k)).
Proof. exact r_norm_full. Qed.
Print Assumptions r_norm.

Theorem vis_viva : forall GM k, 0 < GM -> elliptic_inclined k ->
  let s := kepler2trs GM k in
  norm (snd s) * norm (snd s) = GM * (2 / norm (fst s) - 1 / k_a k).
Proof. exact vis_viva_thm. Qed.
Print Assumptions vis_viva.

Theorem h_norm2 : forall GM k, 0 < GM -> elliptic_inclined k ->
  let s := kepler2trs GM k in
  norm2 (cross (fst s) (snd s)) = GM * k_a k * (1 - k_e k * k_e k).
Proof. exact h_norm2_thm. Qed.
Print Assumptions h_norm2.

(* the unit angular-momentum vector as trs2kepler computes it (np.cross, nputil.unit_vector) *)
Theorem h_unit : forall GM k, 0 < GM -> elliptic_inclined k ->
  let s := kepler2trs GM k in
  t2k_hu (fst s) (snd s) =
    V3 (sin (k_i k) * sin (k_Omega k)) (- sin (k_i k) * cos (k_Omega k)) (cos (k_i k)).
Proof. exact h_unit_thm. Qed.
Print Assumptions h_unit.

Theorem r_dot_v : forall GM k, 0 < GM -> elliptic_inclined k ->
  let s := kepler2trs GM k in
  dot (fst s) (snd s) = sqrt (GM * k_a k) * k_e k * sin (k_E k).
Proof. exact r_dot_v_full. Qed.
Print Assumptions r_dot_v.

(* ---- trs2kepler recovers the elements *)
Theorem recover_a : forall GM k, 0 < GM -> elliptic_inclined k ->
  let s := kepler2trs GM k in t2k_a GM (fst s) (snd s) = k_a k.
Proof. exact recover_a_thm. Qed.
Print Assumptions recover_a.

Theorem recover_e : forall GM k, 0 < GM -> elliptic_inclined k ->
  let s := kepler2trs GM k in t2k_e GM (fst s) (snd s) = k_e k.
Proof. exact recover_e_thm. Qed.
Print Assumptions recover_e.

(* retrograde orbits included: i anywhere in (0, PI) *)
Theorem recover_i : forall GM k, 0 < GM -> elliptic_inclined k ->
  let s := kepler2trs GM k in t2k_i (fst s) (snd s) = k_i k.
Proof. exact recover_i_thm. Qed.
Print Assumptions recover_i.

(* any node angle: the result is the same angle up to whole turns, in (-PI, PI] *)
Theorem recover_Omega : forall GM k, 0 < GM -> elliptic_inclined k ->
  let s := kepler2trs GM k in
  (exists n : Z, t2k_Omega (fst s) (snd s) = k_Omega k + IZR n * (2 * PI)) /\
  - PI < t2k_Omega (fst s) (snd s) <= PI.
Proof. exact recover_Omega_full. Qed.
Print Assumptions recover_Omega.

(* ascending and descending arcs, before and after perigee: any E *)
Theorem recover_E : forall GM k, 0 < GM -> elliptic_inclined k ->
  let s := kepler2trs GM k in
  (exists n : Z, t2k_E GM (fst s) (snd s) = k_E k + IZR n * (2 * PI)) /\
  - PI < t2k_E GM (fst s) (snd s) <= PI.
Proof. exact recover_E_full. Qed.
Print Assumptions recover_E.

(* argument of perigee: u - f with the `omega < 0` wrap, for every combination of quadrants of u and f *)
Theorem recover_omega : forall GM k, 0 < GM -> elliptic_inclined k ->
  let s := kepler2trs GM k in
  (exists n : Z, t2k_omega GM (fst s) (snd s) = k_omega k + IZR n * (2 * PI)) /\
  0 <= t2k_omega GM (fst s) (snd s) < 2 * PI.
Proof. exact recover_omega_mod_thm. Qed.
Print Assumptions recover_omega.

(* elements in their principal ranges come back exactly *)
Theorem elements_roundtrip : forall GM k, 0 < GM -> elliptic_inclined k -> principal k ->
  let s := kepler2trs GM k in trs2kepler GM (fst s) (snd s) = k.
Proof. exact elements_roundtrip_thm. Qed.
Print Assumptions elements_roundtrip.

Theorem elements_roundtrip_mod2pi : forall GM k, 0 < GM -> elliptic_inclined k ->
  let s := kepler2trs GM k in
  exists n1 n2 n3 : Z,
    trs2kepler GM (fst s) (snd s) =
      Kep (k_a k) (k_e k) (k_i k) (k_Omega k + IZR n1 * (2 * PI)) (k_omega k + IZR n2 * (2 * PI)) (k_E k + IZR n3 * (2 * PI))
    /\ principal (trs2kepler GM (fst s) (snd s)).
Proof. exact elements_roundtrip_mod_thm. Qed.
Print Assumptions elements_roundtrip_mod2pi.

(* ---- principal ranges: whatever state is converted (no hypothesis at all), the inclination lies in [0, PI], the node and
   the eccentric anomaly in (-PI, PI], the perigee angle in [0, 2 PI) *)
Theorem principal_ranges : forall GM r v,
  let k := trs2kepler GM r v in 0 <= k_i k <= PI /\ principal k.
Proof. exact principal_ranges_thm. Qed.
Print Assumptions principal_ranges.

(* ---- the property's direction: state -> elements -> state is the identity on bound, inclined, non-circular states *)
Theorem state_roundtrip : forall GM r v,
  0 < GM -> bound_state GM r v -> inclined_state r v -> noncircular_state GM r v ->
  kepler2trs GM (trs2kepler GM r v) = (r, v).
Proof. exact C07_StateRoundtrip.state_roundtrip. Qed.
Print Assumptions state_roundtrip.

(* ---- anomalies *)
(* the true anomaly is the polar angle of the position in the orbital plane: r_orb = r (cos f, sin f, 0) *)
Theorem true_anomaly_is_polar_angle : forall e E, 0 <= e < 1 ->
  cos E - e = (1 - e * cos E) * cos (true_anom e E) /\
  sqrt (1 - e * e) * sin E = (1 - e * cos E) * sin (true_anom e E).
Proof. exact true_anom_polar. Qed.
Print Assumptions true_anomaly_is_polar_angle.

Theorem true_anomaly_half_angle : forall e E, 0 <= e < 1 -> - PI < E < PI ->
  tan (true_anom e E / 2) = sqrt ((1 + e) / (1 - e)) * tan (E / 2).
Proof. exact half_angle_thm. Qed.
Print Assumptions true_anomaly_half_angle.

(* KeplerPosVel.M is Kepler's equation, .f is the true anomaly of the elements *)
Theorem kepler_equation : forall k,
  mean_anomaly k = k_E k - k_e k * sin (k_E k) /\ true_anomaly k = true_anom (k_e k) (k_E k).
Proof. exact anomalies_def. Qed.
Print Assumptions kepler_equation.

(* ... and it determines E: for e < 1 the mean anomaly is strictly monotone in E *)
Theorem kepler_equation_unique : forall e E1 E2, 0 <= e < 1 ->
  E1 - e * sin E1 = E2 - e * sin E2 -> E1 = E2.
Proof. exact kepler_equation_thm. Qed.
Print Assumptions kepler_equation_unique.

(* ---- the correspondence evaluates the model: staged expressions = model, verdict 0 means "within the tolerance";
   for every rational GM `g` (check_k2t = check_k2t_g GM_Q; check_k2t_src n = check_k2t_g (n-th source's GM)) *)
Theorem model_exprs_ok : forall g a e i Om om E x y z vx' vy' vz',
  (let r := env_R (stages_R [a; e; i; Om; om; E] (k2t_stages g)) in
   let m := kepler2trs (Q2R g) (Kep a e i Om om E) in
   eval_R r (v_ 39) = vx (fst m) /\ eval_R r (v_ 40) = vy (fst m) /\ eval_R r (v_ 41) = vz (fst m) /\
   eval_R r (v_ 42) = vx (snd m) /\ eval_R r (v_ 43) = vy (snd m) /\ eval_R r (v_ 44) = vz (snd m)) /\
  (let r := env_R (stages_R [x; y; z; vx'; vy'; vz'] (t2k_stages g)) in
   let m := trs2kepler (Q2R g) (V3 x y z) (V3 vx' vy' vz') in
   eval_R r (v_ 15) = k_a m /\ eval_R r (v_ 21) = k_e m /\ eval_R r (v_ 17) = k_i m /\
   eval_R r (v_ 18) = k_Omega m /\ wrap_neg (eval_R r (v_ 25)) = k_omega m /\ eval_R r (v_ 22) = k_E m).
Proof. exact model_exprs_ok_thm. Qed.
Print Assumptions model_exprs_ok.

Theorem check_k2t_sound : forall g a e i Om om E px py pz qx qy qz,
  check_k2t_g g ([a; e; i; Om; om; E], [px; py; pz; qx; qy; qz]) = 0%Z ->
  let m := kepler2trs (Q2R g) (Kep (dyR a) (dyR e) (dyR i) (dyR Om) (dyR om) (dyR E)) in
  let tp := Q2R (tol_of rel10 [px; py; pz]) in
  let tv := Q2R (tol_of rel10 [qx; qy; qz]) in
  Rabs (vx (fst m) - dyR px) <= tp /\ Rabs (vy (fst m) - dyR py) <= tp /\ Rabs (vz (fst m) - dyR pz) <= tp /\
  Rabs (vx (snd m) - dyR qx) <= tv /\ Rabs (vy (snd m) - dyR qy) <= tv /\ Rabs (vz (snd m) - dyR qz) <= tv.
Proof. exact check_k2t_sound_thm. Qed.
Print Assumptions check_k2t_sound.

Theorem check_t2k_sound : forall g px py pz qx qy qz a e i Om om E,
  check_t2k_g g ([px; py; pz; qx; qy; qz], [a; e; i; Om; om; E]) = 0%Z ->
  let m := trs2kepler (Q2R g) (V3 (dyR px) (dyR py) (dyR pz)) (V3 (dyR qx) (dyR qy) (dyR qz)) in
  Rabs (k_a m - dyR a) <= Q2R rel10 * Rabs (dyR a) + Q2R 0 /\
  Rabs (k_e m - dyR e) <= Q2R rel10 * Rabs (dyR e) + Q2R abs12 /\
  Rabs (k_i m - dyR i) <= Q2R tol_angle /\
  (exists n : Z, Rabs (k_Omega m + IZR n * (2 * PI) - dyR Om) <= Q2R tol_angle) /\
  (exists n : Z, Rabs (k_omega m + IZR n * (2 * PI) - dyR om) <= Q2R tol_angle) /\
  (exists n : Z, Rabs (k_E m + IZR n * (2 * PI) - dyR E) <= Q2R tol_angle) /\
  0 <= dyR i /\ 0 <= dyR om < 2 * PI.
Proof. exact check_t2k_sound_thm. Qed.
Print Assumptions check_t2k_sound.

(* ---- the regenerated constant: [GM] default of constant.txt is positive (the hypothesis 0 < GM of every theorem above
   holds for the value the library uses; its value is free - other gravity models are legitimate) *)
Theorem gm_positive : 0 < Q2R GM_Q.
Proof. exact gm_pos. Qed.
Print Assumptions gm_positive.

(* ... and so is the GM of every source of constant.txt (the conversions may run inside constant.use_source(...)) *)
Theorem gm_sources_positive : forall g d, In (g, d) GM_sources -> 0 < Q2R g.
Proof. exact gm_sources_pos_R. Qed.
Print Assumptions gm_sources_positive.

(* ---- non-vacuity: a GPS-like orbit lies in the domain; the checks accept a correct answer and reject a wrong one *)
Example domain_inhabited : elliptic_inclined (Kep 26559700 (1 / 100) (PI / 3) 1 4 (-2)).
Proof. exact domain_example. Qed.
Example check_anomaly_accepts : (* e = 0.5, E = 1: M = 1 - 0.5 sin 1, f = atan2(sqrt(0.75) sin 1, cos 1 - 0.5) as numpy gives them *)
  check_anomaly (Dy 1 (-1), Dy 1 0, Dy 5217550841117065 (-53), Dy 3412711048286145 (-51)) = 0%Z.
Proof. vm_compute. reflexivity. Qed.
Example check_anomaly_rejects : (* M with the wrong sign of e sin E *)
  check_anomaly (Dy 1 (-1), Dy 1 0, Dy 1599605958545615 (-50), Dy 3412711048286145 (-51)) = 1%Z.
Proof. vm_compute. reflexivity. Qed.
