(* C06 - Local-frame conversions are proper rotations tied to the geodetic normal.
   Only statements, each closed by `exact <lemma>` and followed by Print Assumptions.
   (harness/core.py reads the Print Assumptions output in this order.)  All statements are over the real numbers and hold
   for every angle, latitude, longitude and vector. *)
From Coq Require Import Reals ZArith QArith List Bool.
From Coquelicot Require Import Coquelicot.
From Verif Require Import Lib.Dyadic Lib.Atan2 Lib.Ival Lib.Vec3 Lib.Mat3 Model.C06_Rot.
From Verif Require Proofs.C06_Rot Proofs.C06_Sound Proofs.C06_More.
Import ListNotations.
Open Scope R_scope.

Module P := Verif.Proofs.C06_Rot.
Module S := Verif.Proofs.C06_Sound.
Module M := Verif.Proofs.C06_More.

(* R(-a) = R(a)^T *)
Theorem R_neg_transpose : forall a,
  R1 (- a) = mtrans (R1 a) /\ R2 (- a) = mtrans (R2 a) /\ R3 (- a) = mtrans (R3 a).
Proof. exact P.R_neg_transpose. Qed.
Print Assumptions R_neg_transpose.

(* R(a) R(b) = R(a + b) *)
Theorem R_add : forall a b,
  mmul (R1 a) (R1 b) = R1 (a + b) /\ mmul (R2 a) (R2 b) = R2 (a + b) /\ mmul (R3 a) (R3 b) = R3 (a + b).
Proof. exact P.R_add. Qed.
Print Assumptions R_add.

Theorem R_det_one : forall a, mdet (R1 a) = 1 /\ mdet (R2 a) = 1 /\ mdet (R3 a) = 1.
Proof. exact P.R_det_one. Qed.
Print Assumptions R_det_one.

(* R^T R = I *)
Theorem R_orthogonal : forall a, orthogonal (R1 a) /\ orthogonal (R2 a) /\ orthogonal (R3 a).
Proof. exact P.R_orthogonal. Qed.
Print Assumptions R_orthogonal.

(* the published derivatives are the entrywise angle derivatives (Coquelicot is_derive) *)
Theorem dR_is_derivative : forall x,
  P.mat_is_derive R1 x (dR1 x) /\ P.mat_is_derive R2 x (dR2 x) /\ P.mat_is_derive R3 x (dR3 x).
Proof. exact P.dR_is_derivative. Qed.
Print Assumptions dR_is_derivative.

(* the docstring identities of rotation.enu2trs / trs2enu *)
Theorem enu2trs_as_R3R1 : forall lat lon,
  enu2trs lat lon = mmul (R3 (- (PI / 2 + lon))) (R1 (- (PI / 2 - lat))).
Proof. exact P.enu2trs_as_R3R1. Qed.
Print Assumptions enu2trs_as_R3R1.

Theorem trs2enu_as_R1R3 : forall lat lon,
  trs2enu lat lon = mmul (R1 (PI / 2 - lat)) (R3 (PI / 2 + lon)).
Proof. exact P.trs2enu_as_R1R3. Qed.
Print Assumptions trs2enu_as_R1R3.

Theorem trs2enu_transpose : forall lat lon, trs2enu lat lon = mtrans (enu2trs lat lon).
Proof. exact P.trs2enu_transpose. Qed.
Print Assumptions trs2enu_transpose.

(* proper rotations: M^T M = I and det M = +1 *)
Theorem enu_rotation : forall lat lon, rotation (enu2trs lat lon) /\ rotation (trs2enu lat lon).
Proof. exact P.enu_rotation. Qed.
Print Assumptions enu_rotation.

(* ... hence angles (dot products), lengths and orientation (cross products) are preserved, in both directions *)
Theorem enu_preserves : forall lat lon u v,
  (dot (mvec (trs2enu lat lon) u) (mvec (trs2enu lat lon) v) = dot u v /\
   norm (mvec (trs2enu lat lon) u) = norm u /\
   mvec (trs2enu lat lon) (cross u v) = cross (mvec (trs2enu lat lon) u) (mvec (trs2enu lat lon) v)) /\
  (dot (mvec (enu2trs lat lon) u) (mvec (enu2trs lat lon) v) = dot u v /\
   norm (mvec (enu2trs lat lon) u) = norm u /\
   mvec (enu2trs lat lon) (cross u v) = cross (mvec (enu2trs lat lon) u) (mvec (enu2trs lat lon) v)).
Proof. exact P.enu_preserves. Qed.
Print Assumptions enu_preserves.

(* there and back is the identity *)
Theorem enu_roundtrip : forall lat lon v,
  mvec (enu2trs lat lon) (mvec (trs2enu lat lon) v) = v /\ mvec (trs2enu lat lon) (mvec (enu2trs lat lon) v) = v.
Proof. exact P.enu_roundtrip. Qed.
Print Assumptions enu_roundtrip.

(* Up (third column of enu2trs) = (cos lat cos lon, cos lat sin lon, sin lat) *)
Theorem up_is_normal : forall lat lon, enu_up lat lon = normal lat lon.
Proof. exact P.up_is_normal. Qed.
Print Assumptions up_is_normal.

(* ... which is the outward normal of the ellipsoid at the geodetic foot point (gradient of the quadric, positive factor),
   the foot point being on the ellipsoid *)
Theorem normal_is_ellipsoid_gradient : forall a e2 lat lon,
  0 < a -> 0 <= e2 < 1 ->
  let N := a / sqrt (1 - e2 * (sin lat * sin lat)) in
  0 < N /\
  ellipsoid_F a e2 (geodetic_point a e2 lat lon 0) = 1 /\
  ellipsoid_grad a e2 (geodetic_point a e2 lat lon 0) = vscale (2 * N / (a * a)) (normal lat lon).
Proof. exact P.normal_is_ellipsoid_gradient. Qed.
Print Assumptions normal_is_ellipsoid_gradient.

(* the point of the ellipsoid with outward normal n, written with n alone (what check_normal evaluates on the reported Up), is
   that foot point *)
Theorem foot_of_normal : forall a e2 lat lon, 0 < a -> 0 <= e2 < 1 ->
  let n := normal lat lon in
  let b2 := a * a * (1 - e2) in
  let D := sqrt (a * a * (vx n * vx n + vy n * vy n) + b2 * (vz n * vz n)) in
  V3 (a * a * vx n / D) (a * a * vy n / D) (b2 * vz n / D) = geodetic_point a e2 lat lon 0.
Proof. exact P.foot_of_normal. Qed.
Print Assumptions foot_of_normal.

(* ... and the geodetic height runs along it *)
Theorem height_along_normal : forall a e2 lat lon h,
  geodetic_point a e2 lat lon h = vadd (geodetic_point a e2 lat lon 0) (vscale h (normal lat lon)).
Proof. exact P.height_along_normal. Qed.
Print Assumptions height_along_normal.

(* East is a unit vector perpendicular to the rotation axis and to Up (it is axis x Up, normalised by cos lat) *)
Theorem east_perp_axis_up : forall lat lon,
  dot (enu_east lat lon) ez = 0 /\ dot (enu_east lat lon) (enu_up lat lon) = 0 /\ norm2 (enu_east lat lon) = 1 /\
  cross ez (enu_up lat lon) = vscale (cos lat) (enu_east lat lon).
Proof. exact P.east_perp_axis_up. Qed.
Print Assumptions east_perp_axis_up.

(* North completes the right-handed triad: N = U x E *)
Theorem north_completes_rh : forall lat lon,
  enu_north lat lon = cross (enu_up lat lon) (enu_east lat lon) /\
  norm2 (enu_north lat lon) = 1 /\ norm2 (enu_up lat lon) = 1 /\ dot (enu_north lat lon) ez = cos lat.
Proof. exact P.north_completes_rh. Qed.
Print Assumptions north_completes_rh.

(* along/cross/radial: a proper rotation whenever r and v are not parallel *)
Theorem acr_orthonormal_rh : forall r v, cross r v <> vzero -> rotation (trs2acr r v) /\ rotation (acr2trs r v).
Proof. exact P.acr_orthonormal_rh. Qed.
Print Assumptions acr_orthonormal_rh.

(* radial = r/|r|, cross = (r x v)/|r x v|, along = cross x radial, pointing to the side of the velocity *)
Theorem acr_axes : forall r v, cross r v <> vzero ->
  row3 (trs2acr r v) = vunit r /\ row2 (trs2acr r v) = vunit (cross r v) /\
  row1 (trs2acr r v) = cross (row2 (trs2acr r v)) (row3 (trs2acr r v)) /\
  0 < dot (row1 (trs2acr r v)) v.
Proof. exact P.acr_axes. Qed.
Print Assumptions acr_axes.

(* a target whose vector has East/North/Up components rho (cos el sin az, cos el cos az, sin el) is reported at exactly that
   azimuth and elevation; zenith distance = pi/2 - elevation *)
Theorem az_el_are_angles_in_triad : forall lat lon p o rho az el,
  0 < rho -> - PI < az <= PI -> - (PI / 2) < el < PI / 2 ->
  vsub o p = vscale rho (mvec (enu2trs lat lon) (V3 (cos el * sin az) (cos el * cos az) (sin el))) ->
  azimuth lat lon p o = az /\ elevation lat lon p o = el /\ zenith_distance lat lon p o = PI / 2 - el.
Proof. exact P.az_el_are_angles_in_triad. Qed.
Print Assumptions az_el_are_angles_in_triad.

(* position/velocity differences: the block-diagonal 6x6 action of a rotation is invertible by the transposed block and
   preserves the length of both halves *)
Theorem posvel_block_roundtrip : forall M pv,
  rotation M ->
  block (mtrans M) (block M pv) = pv /\ block M (block (mtrans M) pv) = pv /\
  dot (fst (block M pv)) (fst (block M pv)) = dot (fst pv) (fst pv) /\
  dot (snd (block M pv)) (snd (block M pv)) = dot (snd pv) (snd pv).
Proof. exact P.posvel_block_roundtrip. Qed.
Print Assumptions posvel_block_roundtrip.

(* meaning of verdict 0 of the correspondence: the checked expressions are the model's entries, and a passed check bounds the
   distance between every shipped double and the real-number model *)
Theorem model_exprs_ok : forall a lat lon,
  map (eval_R (env_R [a])) R1e = mat_entries (R1 a) /\ map (eval_R (env_R [a])) R2e = mat_entries (R2 a) /\
  map (eval_R (env_R [a])) R3e = mat_entries (R3 a) /\ map (eval_R (env_R [a])) dR1e = mat_entries (dR1 a) /\
  map (eval_R (env_R [a])) dR2e = mat_entries (dR2 a) /\ map (eval_R (env_R [a])) dR3e = mat_entries (dR3 a) /\
  map (eval_R (env_R [lat; lon])) enu2trs_e = mat_entries (enu2trs lat lon) /\
  map (eval_R (env_R [lat; lon])) trs2enu_e = mat_entries (trs2enu lat lon).
Proof. exact P.model_exprs_ok. Qed.
Print Assumptions model_exprs_ok.

Theorem check_all_sound : forall p rel abs r rI es ds,
  (forall n, containsR (rI n) (r n)) ->
  check_all p rel abs rI es ds = true ->
  Forall2 (fun e d => Rabs (eval_R r e - dyR d) <= Q2R rel * Rabs (dyR d) + Q2R abs) es ds.
Proof. exact P.check_all_sound. Qed.
Print Assumptions check_all_sound.

Theorem check_rot_sound : forall k a m,
  check_rot (k, false, a, m) = 0%Z -> (k = 1 \/ k = 2 \/ k = 3)%Z ->
  Forall2 (fun x d => Rabs (x - dyR d) <= Q2R rel12 * Rabs (dyR d) + Q2R abs15)
          (mat_entries (match k with 1%Z => R1 (dyR a) | 2%Z => R2 (dyR a) | _ => R3 (dyR a) end)) m.
Proof. exact P.check_rot_sound. Qed.
Print Assumptions check_rot_sound.

Theorem check_enu_sound : forall to_trs lat lon m,
  check_enu (to_trs, lat, lon, m) = 0%Z ->
  Forall2 (fun x d => Rabs (x - dyR d) <= Q2R rel12 * Rabs (dyR d) + Q2R abs15)
          (mat_entries (if to_trs then enu2trs (dyR lat) (dyR lon) else trs2enu (dyR lat) (dyR lon))) m.
Proof. exact P.check_enu_sound. Qed.
Print Assumptions check_enu_sound.

(* a converted difference vector: every component within 1e-12 * |d|_1 of the real-number matrix-vector product *)
Theorem check_delta_sound : forall to_trs lat lon d1 d2 d3 out,
  check_delta (to_trs, lat, lon, [d1; d2; d3], out) = 0%Z ->
  Forall2 (fun x o => Rabs (x - dyR o) <= Q2R (delta_tol [d1; d2; d3]))
          (vec_entries (mvec (if to_trs then enu2trs (dyR lat) (dyR lon) else trs2enu (dyR lat) (dyR lon))
                             (V3 (dyR d1) (dyR d2) (dyR d3)))) out.
Proof. exact P.check_delta_sound. Qed.
Print Assumptions check_delta_sound.

(* along/cross/radial through the staged environments: verdict 0 = every entry within relative 1e-12 of trs2acr(r, v) over R,
   verdict 2 (the former quirk) = of its transpose; S.vd a b c is the real vector of three shipped doubles *)
Theorem check_acr_mat_sound : forall r1 r2 r3 v1 v2 v3 m,
  (check_acr_mat ([r1; r2; r3], [v1; v2; v3], m) = 0%Z ->
   Forall2 S.close12 (mat_entries (trs2acr (S.vd r1 r2 r3) (S.vd v1 v2 v3))) m) /\
  (check_acr_mat ([r1; r2; r3], [v1; v2; v3], m) = 2%Z ->
   Forall2 S.close12 (mat_entries (acr2trs (S.vd r1 r2 r3) (S.vd v1 v2 v3))) m).
Proof. exact S.check_acr_mat_sound. Qed.
Print Assumptions check_acr_mat_sound.

Theorem check_acr_delta_sound : forall to_trs r1 r2 r3 v1 v2 v3 d1 d2 d3 out,
  check_acr_delta (to_trs, [r1; r2; r3], [v1; v2; v3], [d1; d2; d3], out) = 0%Z ->
  Forall2 (fun x o => Rabs (x - dyR o) <= Q2R (delta_tol [d1; d2; d3]))
          (vec_entries (mvec (if to_trs then acr2trs (S.vd r1 r2 r3) (S.vd v1 v2 v3) else trs2acr (S.vd r1 r2 r3) (S.vd v1 v2 v3))
                             (S.vd d1 d2 d3))) out.
Proof. exact S.check_acr_delta_sound. Qed.
Print Assumptions check_acr_delta_sound.

(* verdict 0 of check_normal: S.normal_frame_ok = Up is a unit vector, the position lies on the line through the ellipsoid point
   with outward normal Up (foot_of_normal) along Up within 1e-9 (a + |h|), on the near side (h >= -a/2); East is a unit vector
   perpendicular to the axis and to Up with the right sense; North = Up x East; all within 1e-12 *)
Theorem check_normal_sound : forall a e2 x1 x2 x3 e1 e2' e3 n1 n2 n3 u1 u2 u3,
  check_normal (a, e2, [x1; x2; x3], [e1; e2'; e3], [n1; n2; n3], [u1; u2; u3]) = 0%Z ->
  S.normal_frame_ok (dyR a) (dyR e2) (S.vd x1 x2 x3) (S.vd e1 e2' e3) (S.vd n1 n2 n3) (S.vd u1 u2 u3).
Proof. exact S.check_normal_sound. Qed.
Print Assumptions check_normal_sound.

(* conversely the true frame satisfies the equations of check_normal exactly: for the geodetic point at height h and Up = normal,
   X - P(Up) = h Up and the height recovered is h (so the check is not vacuous and h >= -a/2 holds for every h >= -a/2) *)
Theorem normal_frame_complete : forall a e2 lat lon h,
  0 < a -> 0 <= e2 < 1 ->
  S.nf_W a e2 (geodetic_point a e2 lat lon h) (normal lat lon) = vscale h (normal lat lon) /\
  S.nf_h a e2 (geodetic_point a e2 lat lon h) (normal lat lon) = h.
Proof. exact M.normal_frame_complete. Qed.
Print Assumptions normal_frame_complete.

(* verdict 0 of check_azel: S.azel_ok = |az| <= pi, az within 1e-11 rad of `azimuth` modulo a turn or (east, north) along
   (sin az, cos az) within 1e-12; |el| <= pi/2, el within 1e-11 rad of asin(up projection) or sin el = projection within 1e-12;
   zd = pi/2 - el within 4 ulp *)
Theorem check_azel_sound : forall lat lon p1 p2 p3 o1 o2 o3 az el zd,
  check_azel (lat, lon, [p1; p2; p3], [o1; o2; o3], az, el, zd) = 0%Z ->
  S.azel_ok (dyR lat) (dyR lon) (S.vd p1 p2 p3) (S.vd o1 o2 o3) (dyR az) (dyR el) (dyR zd).
Proof. exact S.check_azel_sound. Qed.
Print Assumptions check_azel_sound.

(* the clip before the arcsine (bc81835) is the identity over R *)
Theorem elevation_clip_irrelevant : forall lat lon p o,
  vsub o p <> vzero -> elevation lat lon p o = asin (dot (direction p o) (enu_up lat lon)).
Proof. exact M.elevation_clip_irrelevant. Qed.
Print Assumptions elevation_clip_irrelevant.

(* targets straight above / below the position (excluded from az_el_are_angles_in_triad) *)
Theorem az_el_at_zenith : forall lat lon p o rho,
  0 < rho -> vsub o p = vscale rho (enu_up lat lon) ->
  elevation lat lon p o = PI / 2 /\ zenith_distance lat lon p o = 0 /\ azimuth lat lon p o = 0.
Proof. exact M.az_el_at_zenith. Qed.
Print Assumptions az_el_at_zenith.

Theorem az_el_at_nadir : forall lat lon p o rho,
  rho < 0 -> vsub o p = vscale rho (enu_up lat lon) ->
  elevation lat lon p o = - (PI / 2) /\ zenith_distance lat lon p o = PI /\ azimuth lat lon p o = 0.
Proof. exact M.az_el_at_nadir. Qed.
Print Assumptions az_el_at_nadir.

(* the block-diagonal 6x6 matrix np.block([[M, 0], [0, M]]) of a rotation M is a proper rotation of R^6: it preserves the
   scalar product, its determinant (Laplace expansion, M.det_l; equal to mdet on 3x3: det_l_rows3) is +1, and it acts as `block` *)
Theorem det_l_rows3 : forall A, M.det_l (M.rows3 A) = mdet A.
Proof. exact M.det_l_rows3. Qed.
Print Assumptions det_l_rows3.

Theorem posvel_block_is_rotation : forall A,
  rotation A ->
  (forall x y, M.dot6 (block A x) (block A y) = M.dot6 x y) /\
  M.det_l (M.block6 A) = 1 /\
  (forall pv, M.mvec_l (M.block6 A) (M.to6 pv) = M.to6 (block A pv)).
Proof. exact M.posvel_block_is_rotation. Qed.
Print Assumptions posvel_block_is_rotation.

Theorem enu_block_is_rotation : forall lat lon,
  (forall x y, M.dot6 (block (trs2enu lat lon) x) (block (trs2enu lat lon) y) = M.dot6 x y) /\ M.det_l (M.block6 (trs2enu lat lon)) = 1 /\
  (forall x y, M.dot6 (block (enu2trs lat lon) x) (block (enu2trs lat lon) y) = M.dot6 x y) /\ M.det_l (M.block6 (enu2trs lat lon)) = 1.
Proof. exact M.enu_block_is_rotation. Qed.
Print Assumptions enu_block_is_rotation.

Theorem acr_block_roundtrip : forall r v pv,
  cross r v <> vzero ->
  block (acr2trs r v) (block (trs2acr r v) pv) = pv /\ block (trs2acr r v) (block (acr2trs r v) pv) = pv /\
  (forall x y, M.dot6 (block (trs2acr r v) x) (block (trs2acr r v) y) = M.dot6 x y) /\ M.det_l (M.block6 (trs2acr r v)) = 1 /\
  (forall x y, M.dot6 (block (acr2trs r v) x) (block (acr2trs r v) y) = M.dot6 x y) /\ M.det_l (M.block6 (acr2trs r v)) = 1.
Proof. exact M.acr_block_roundtrip. Qed.
Print Assumptions acr_block_roundtrip.

(* the two-hop conversions ENU <-> ACR of position/velocity differences (PosBase.to_system goes over TRS): the composed matrices are
   proper rotations, the result is the product applied once, ENU -> ACR -> ENU is the identity, and the TRS value reached through
   the other local frame is the TRS value of the direct conversion *)
Theorem enu_acr_composition : forall lat lon r v d,
  cross r v <> vzero ->
  rotation (mmul (trs2acr r v) (enu2trs lat lon)) /\ rotation (mmul (trs2enu lat lon) (acr2trs r v)) /\
  mvec (trs2acr r v) (mvec (enu2trs lat lon) d) = mvec (mmul (trs2acr r v) (enu2trs lat lon)) d /\
  mvec (trs2enu lat lon) (mvec (acr2trs r v) (mvec (trs2acr r v) (mvec (enu2trs lat lon) d))) = d /\
  mvec (enu2trs lat lon) (mvec (trs2enu lat lon) (mvec (acr2trs r v) d)) = mvec (acr2trs r v) d.
Proof. exact M.enu_acr_composition. Qed.
Print Assumptions enu_acr_composition.

(* quirk c06_acr_1d_transposed (triad stacked as columns) is not the specification *)
Theorem acr_1d_transposed_refuted :
  exists r v d, cross r v <> vzero /\ mvec (trs2acr_q true r v) d <> mvec (trs2acr_q false r v) d.
Proof. exact P.acr_1d_transposed_refuted. Qed.
Print Assumptions acr_1d_transposed_refuted.

(* non-vacuity: hypotheses are satisfiable, checks accept a correct value and reject a wrong one *)
Example acr_hyp_satisfiable : cross ex ey <> vzero.
Proof. rewrite cross_ex_ey. intros H. apply (f_equal vz) in H. simpl in H. apply R1_neq_R0. exact H. Qed.
Example check_rot_accepts :   (* rotation.R3(0.5) *)
  check_rot (3%Z, false, Dy 1 (-1),
             [Dy 494035062339541 (-49); Dy 539785169252447 (-50); DZero false;
              Dy (-539785169252447) (-50); Dy 494035062339541 (-49); DZero false;
              DZero false; DZero false; Dy 1 0]) = 0%Z.
Proof. vm_compute. reflexivity. Qed.
Example check_rot_rejects_transposed :
  check_rot (3%Z, false, Dy 1 (-1),
             [Dy 494035062339541 (-49); Dy (-539785169252447) (-50); DZero false;
              Dy 539785169252447 (-50); Dy 494035062339541 (-49); DZero false;
              DZero false; DZero false; Dy 1 0]) = 1%Z.
Proof. vm_compute. reflexivity. Qed.
