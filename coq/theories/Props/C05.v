(* C05 - Geocentric <-> geodetic conversion is exact and keeps its ellipsoid: the obligations (DESIGN 4.5).
   Only statements; all proof work is in Proofs/C05_Geodetic.v and Proofs/C05_Flow.v. *)
From Coq Require Import Reals ZArith QArith List Bool String.
From Verif Require Import Lib.Dyadic Lib.Atan2 Lib.Ival Lib.C05_Prog.
From Verif Require Import Model.C05_Geodetic Model.C05_Flow Proofs.C05_Geodetic Proofs.C05_Flow Proofs.C05_FlowToday Proofs.C05_Table Model.C05_Dtype Proofs.C05_Dtype
  Proofs.C05_AccDefs Proofs.C05_Accuracy.
From Verif Require Gen.C05_EllipsoidFlow.
From Verif Require Gen.C05_Ellipsoids.
Import ListNotations.
Open Scope R_scope.

(* derived parameters of ellipsoid.py *)
Theorem ellipsoid_params : forall a f, a <> 0 ->
  ell_b a f = a * (1 - f) /\ ell_e2 a f = 2 * f - f * f /\ (1 - f)² = 1 - ell_e2 a f.
Proof. exact ellipsoid_params_l. Qed.
Print Assumptions ellipsoid_params.

(* the 7 registered ellipsoids carry the published constants (regenerated table) *)
Theorem ellipsoid_table_published :
  forallb (registered Gen.C05_Ellipsoids.ellipsoids) published_ellipsoids = true.
Proof. exact ellipsoid_table_published_l. Qed.
Print Assumptions ellipsoid_table_published.

(* llh2trs (lat, lon, h) is the point at distance h along the outward normal n through the foot point P = llh2trs (lat, lon, 0),
   P lies on the ellipsoid, and n is parallel to the gradient of the ellipsoid equation at P *)
Theorem llh2trs_on_normal : forall a f lat lon h, 0 < a -> f <> 1 ->
  let '(px, py, pz) := llh2trs_R a f lat lon 0 in
  let '(nx, ny, nz) := normal lat lon in
  let b := ell_b a f in
  llh2trs_R a f lat lon h = (px + h * nx, py + h * ny, pz + h * nz)
  /\ px² / a² + py² / a² + pz² / b² = 1
  /\ exists k, 0 < k /\ (2 * px / a², 2 * py / a², 2 * pz / b²) = (k * nx, k * ny, k * nz).
Proof. exact llh2trs_on_normal_l. Qed.
Print Assumptions llh2trs_on_normal.

(* longitude = atan2 y x in (-PI, PI]; PI on the +-180 degree meridian, 0 on the Greenwich meridian *)
Theorem trs2llh_lon : forall a f x y z,
  lon_of (trs2llh_R a f x y z) = atan2 y x
  /\ - PI < lon_of (trs2llh_R a f x y z) <= PI
  /\ (y = 0 -> x < 0 -> lon_of (trs2llh_R a f x y z) = PI)
  /\ (y = 0 -> 0 < x -> lon_of (trs2llh_R a f x y z) = 0).
Proof. exact trs2llh_lon_l. Qed.
Print Assumptions trs2llh_lon.

(* southern hemisphere: mirroring z negates the latitude and keeps longitude and height *)
Theorem trs2llh_mirror : forall a f x y z,
  trs2llh_R a f x y (- z) =
  (- lat_of (trs2llh_R a f x y z), lon_of (trs2llh_R a f x y z), h_of (trs2llh_R a f x y z)).
Proof. exact trs2llh_mirror_l. Qed.
Print Assumptions trs2llh_mirror.

(* the pole branch *)
Theorem trs2llh_pole : forall a f x y z, is_pole a x y ->
  trs2llh_R a f x y z = (PI / 2 * sign_R z, atan2 y x, Rabs z - ell_b a f)
  /\ (0 < z -> lat_of (trs2llh_R a f x y z) = PI / 2)
  /\ (z < 0 -> lat_of (trs2llh_R a f x y z) = - (PI / 2)).
Proof. exact trs2llh_pole_l. Qed.
Print Assumptions trs2llh_pole.

Theorem trs2llh_equator_lat : forall a f x y, lat_of (trs2llh_R a f x y 0) = 0.
Proof. exact trs2llh_equator_lat_l. Qed.
Print Assumptions trs2llh_equator_lat.

(* partial: the exact solution of the latitude equation is a fixed point of the Halley step.  NOT proved: the published
   accuracy of a single step from the start value of the code over the whole height range; that half is decided per sample
   by the interval certificates of the correspondence (geo_cert) *)
Theorem halley_fixed_point_partial : forall e2 ec pn zc s c,
  let A := sqrt (c² + s²) in
  0 < A -> pn * s - zc * c - e2 * s * c / A = 0 ->
  halley_S e2 ec pn zc s c * c = halley_C e2 ec pn zc s c * s.
Proof. exact halley_fixed_point_l. Qed.
Print Assumptions halley_fixed_point_partial.


(* non-vacuity of the fixed-point theorem in the setting of the code: for a point ON the ellipsoid (normalised coordinates
   pn = p/a, s0 = |z|/a with pn² + s0²/(1-e2) = 1) the start value of _trs2llh already solves the latitude equation, hence the
   step returns the exact tangent s0 / (ec pn), i.e. tan(lat) = |z| / ((1-e2) p) *)
Theorem halley_exact_on_surface : forall e2 pn s0,
  0 < 1 - e2 -> 0 < pn -> 0 <= s0 -> pn² + s0² / (1 - e2) = 1 ->
  let ec := sqrt (1 - e2) in
  halley_S e2 ec pn (ec * s0) s0 (ec * pn) * (ec * pn) = halley_C e2 ec pn (ec * s0) s0 (ec * pn) * s0.
Proof. exact halley_exact_on_surface_l. Qed.
Print Assumptions halley_exact_on_surface.

(* for f = 0 (the sphere) the one-step algorithm is the exact inverse of llh2trs (off the pole branch) *)
Theorem trs2llh_exact_on_sphere : forall a x y z, 0 < a -> ~ is_pole a x y ->
  let '(lat, lon, h) := trs2llh_R a 0 x y z in llh2trs_R a 0 lat lon h = (x, y, z).
Proof. exact trs2llh_exact_on_sphere_l. Qed.
Print Assumptions trs2llh_exact_on_sphere.

(* exact at any height on the polar axis and in the equatorial plane (restricted accuracy statements) *)
Theorem trs2llh_exact_on_axis : forall a f z, 0 < a -> f < 1 -> z <> 0 ->
  let '(lat, lon, h) := trs2llh_R a f 0 0 z in llh2trs_R a f lat lon h = (0, 0, z).
Proof. exact trs2llh_exact_on_axis_l. Qed.
Print Assumptions trs2llh_exact_on_axis.

(* (the excluded circle p = a e2, 42.7 km from the axis deep inside the Earth, is where the code divides 0 by 0) *)
Theorem trs2llh_exact_on_equator : forall a f x y, 0 < a -> f < 1 -> ~ is_pole a x y ->
  sqrt (x² + y²) <> a * ell_e2 a f ->
  trs2llh_R a f x y 0 = (0, atan2 y x, sqrt (x² + y²) - a)
  /\ llh2trs_R a f 0 (atan2 y x) (sqrt (x² + y²) - a) = (x, y, 0).
Proof. exact trs2llh_exact_on_equator_l. Qed.
Print Assumptions trs2llh_exact_on_equator.

(* ---------------------------------------------------------------- accuracy of the one step on curves (partial) *)
(* roundtrip_ok a f phi lam h: trs2llh (llh2trs (phi, lam, h)) gives back phi within 1.5e-13 rad (< 1e-6 m of arc) and h within
   1e-6 m.  GRS80 (grs80_a, grs80_f are the published constants of ellipsoid 2).  Proved on curves only - the bound on the
   whole band latitude x height is NOT a theorem (univariate Taylor models; see Proofs/C05_Accuracy.v) *)
Theorem grs80_constants :
  ell_params 2 = Some (6378137 # 1, Qinv (298257222101 # 1000000000))%Q
  /\ Q2R (6378137 # 1) = grs80_a /\ Q2R (Qinv (298257222101 # 1000000000)) = grs80_f.
Proof. exact grs80_is_published. Qed.
Print Assumptions grs80_constants.

(* all latitudes up to 1.57 rad = 89.95 deg north and south, all longitudes, on the surfaces h = +100 km and h = -100 km *)
Theorem halley_accuracy_on_height_surfaces_partial : forall phi lam h,
  (h = 100000 \/ h = -100000) -> - (157 / 100) <= phi <= 157 / 100 -> roundtrip_ok grs80_a grs80_f phi lam h.
Proof. exact accuracy_on_height_surfaces_l. Qed.
Print Assumptions halley_accuracy_on_height_surfaces_partial.

(* all heights -100 km .. 100 km, all longitudes, on the normals at |phi| = 1/4, 3/4, 5/4, 3/2 rad *)
Theorem halley_accuracy_on_normals_partial : forall phi lam h,
  (Rabs phi = 1 / 4 \/ Rabs phi = 3 / 4 \/ Rabs phi = 5 / 4 \/ Rabs phi = 3 / 2) -> -100000 <= h <= 100000 ->
  roundtrip_ok grs80_a grs80_f phi lam h.
Proof. exact accuracy_on_normals_l. Qed.
Print Assumptions halley_accuracy_on_normals_partial.

(* latitude and height depend on x, y only through the distance from the axis *)
Theorem trs2llh_axially_symmetric : forall a f x y z,
  lat_of (trs2llh_R a f x y z) = lat_of (trs2llh_R a f (sqrt (x² + y²)) 0 z)
  /\ h_of (trs2llh_R a f x y z) = h_of (trs2llh_R a f (sqrt (x² + y²)) 0 z).
Proof. exact trs2llh_axial. Qed.
Print Assumptions trs2llh_axially_symmetric.

(* verdict 0 of the correspondence, direction trs -> llh: the implementation's doubles (lat, lon, h) are within
   1e-8 m + 4 ulp (arc length at the distance r of the point) of trs2llh_R of the exact inputs on the published ellipsoid i,
   and the point at distance h on the normal through (lat, lon) misses the input by at most 1e-6 m (h <= 100 km) / 2 mm *)
Theorem check_trs2llh_sound : forall i xyz llh, check_trs2llh (i, xyz, llh) = 0%Z ->
  exists a f x y z lat lon h,
    ell_params i = Some (a, f) /\ xyz = [x; y; z] /\ llh = [lat; lon; h]
    /\ close_to_model a f x y z lat lon h /\ on_normal a f x y z lat lon h.
Proof. exact check_trs2llh_sound_l. Qed.
Print Assumptions check_trs2llh_sound.

(* direction llh -> trs: every coordinate within 1e-8 m + 4 ulp of llh2trs_R of the exact inputs *)
Theorem check_llh2trs_sound : forall i llh xyz, check_llh2trs (i, llh, xyz) = 0%Z ->
  exists a f lat lon h x y z,
    ell_params i = Some (a, f) /\ llh = [lat; lon; h] /\ xyz = [x; y; z] /\ llh2trs_close a f lat lon h x y z.
Proof. exact check_llh2trs_sound_l. Qed.
Print Assumptions check_llh2trs_sound.

(* the certificate's tolerance is the one of the property text *)
Theorem geo_cert_tolerance : forall h tol, tol_geo h = Some tol ->
  exists q, dy_toQ h = Some q /\ ((Qle q q_100km /\ tol = q_1em6) \/ (~ Qle q q_100km /\ tol = q_2mm)).
Proof. exact tol_geo_values. Qed.
Print Assumptions geo_cert_tolerance.

(* inputs of another dtype / container: verdict 0 means the result is, double for double, that of the float64 run *)
Theorem check_same_sound : forall a b, check_same (a, b) = 0%Z -> a = b.
Proof. exact check_same_sound_l. Qed.
Print Assumptions check_same_sound.

(* ---------------------------------------------------------------- ellipsoid retention *)
(* for every table of constructor call sites that forwards everywhere, every operation list keeps the ellipsoid,
   at the end and at every intermediate result *)
Theorem ellipsoid_preserved : forall tbl dflt, table_all_true tbl = true ->
  forall ops s, snd (run tbl dflt ops s) = snd s
                /\ Forall (fun t => t = snd s) (tags_along (step tbl dflt) s ops).
Proof.
  intros tbl dflt H ops s. split;
    [apply ellipsoid_preserved_l | apply ellipsoid_preserved_everywhere_l]; exact H.
Qed.
Print Assumptions ellipsoid_preserved.

(* the tree under test: its regenerated hand-over table forwards at every constructor call site ... *)
Theorem forwarding_table_all_true : table_all_true Gen.C05_EllipsoidFlow.forwarding_table = true.
Proof. exact forwarding_table_all_true_l. Qed.
Print Assumptions forwarding_table_all_true.

(* ... hence, unconditionally, every operation list keeps the ellipsoid, at the end and at every intermediate result *)
Theorem ellipsoid_preserved_today : forall dflt ops s,
  snd (run Gen.C05_EllipsoidFlow.forwarding_table dflt ops s) = snd s
  /\ Forall (fun t => t = snd s) (tags_along (step Gen.C05_EllipsoidFlow.forwarding_table dflt) s ops).
Proof. exact ellipsoid_preserved_today_l. Qed.
Print Assumptions ellipsoid_preserved_today.

(* no site of the regenerated table is outside the model *)
Theorem every_site_modelled :
  forallb (fun e => existsb (String.eqb (fst e)) model_sites) Gen.C05_EllipsoidFlow.forwarding_table = true.
Proof. exact every_site_modelled_l. Qed.
Print Assumptions every_site_modelled.

(* whatever the table says: operation lists that only pass through forwarding sites keep it *)
Theorem forwarding_ops_preserve : forall tbl dflt ops k t,
  ops_forward tbl k ops = true -> snd (run tbl dflt ops (k, t)) = t.
Proof. exact forwarding_ops_preserve_l. Qed.
Print Assumptions forwarding_ops_preserve.

(* verdict 0 of the correspondence means what it should *)
Theorem check_flow_sound : forall dflt k tag ops observed,
  check_flow (dflt, k, tag, ops, observed) = 0%Z ->
  List.length observed = List.length ops /\ Forall (fun t => t = tag) observed.
Proof. exact check_flow_sound_l. Qed.
Print Assumptions check_flow_sound.

(* quirk c05_ellipsoid_dropped (the hand-over table of the tree as found): the property fails *)
Theorem c05_ellipsoid_dropped_refuted :
  exists ops s, snd (run dropping_table_2026 2 ops s) <> snd s.
Proof. exact dropped_refuted_l. Qed.
Print Assumptions c05_ellipsoid_dropped_refuted.

(* non-vacuity *)
Example ex_all_true : table_all_true (map (fun s => (s, true)) model_sites) = true.
Proof. vm_compute. reflexivity. Qed.
Example ex_fixed_point_hyp : (* the surface point p = a, z = 0 of the sphere satisfies the hypotheses: s = 0, c = 1 *)
  let A := sqrt (1² + 0²) in 0 < A /\ 1 * 0 - 0 * 1 - 0 * 0 * 1 / A = 0.
Proof.
  simpl. assert (E : sqrt (1² + 0²) = 1) by (unfold Rsqr; replace (1 * 1 + 0 * 0) with 1 by ring; apply sqrt_1).
  rewrite E. split; [apply Rlt_0_1 | unfold Rdiv; ring].
Qed.

(* non-vacuity: a point of midgard's own output satisfies the checks (GRS80, xyz = 3512345.678, 1234567.891, 5123456.789) *)
Example ex_check_trs2llh :
  check_trs2llh (2%nat, [(Dy 7542704909628473 (-31)); (Dy 5302428716536693 (-32)); (Dy 5501269837806043 (-30))], [(Dy 8517286059770389 (-53)); (Dy 3044478560115055 (-53)); (Dy (-4237156421647641) (-37))]) = 0%Z.
Proof. vm_compute. reflexivity. Qed.
Example ex_check_llh2trs :
  check_llh2trs (2%nat, [(Dy 8517286059770389 (-53)); (Dy 3044478560115055 (-53)); (Dy (-4237156421647641) (-37))], [(Dy 7542704909628473 (-31)); (Dy 2651214358268347 (-31)); (Dy 2750634918903021 (-29))]) = 0%Z.
Proof. vm_compute. reflexivity. Qed.
(* ... and a latitude that is off by 1e-9 rad (6 mm) does not *)
Example ex_check_trs2llh_rejects :
  check_trs2llh (2%nat, [(Dy 7542704909628473 (-31)); (Dy 5302428716536693 (-32)); (Dy 5501269837806043 (-30))], [(Dy 2129321517194397 (-51)); (Dy 3044478560115055 (-53)); (Dy (-4237156421647641) (-37))]) = 11%Z.
Proof. vm_compute. reflexivity. Qed.
