(* C05 - Geocentric <-> geodetic conversion is exact and keeps its ellipsoid: the obligations (DESIGN 4.5).
   Only statements; all proof work is in Proofs/C05_Geodetic.v and Proofs/C05_Flow.v. *)
From Coq Require Import Reals ZArith QArith List Bool String.
From Verif Require Import Lib.Dyadic Lib.Atan2 Lib.Ival Lib.C05_Prog.
From Verif Require Import Model.C05_Geodetic Model.C05_Flow Proofs.C05_Geodetic Proofs.C05_Flow.
From Verif Require Gen.C05_Ellipsoids.
Import ListNotations.
Open Scope R_scope.

(* derived parameters of ellipsoid.py *)
Theorem ellipsoid_params : forall a f, a <> 0 ->
  ell_b a f = a * (1 - f) /\ ell_e2 a f = 2 * f - f * f /\ (1 - f)² = 1 - ell_e2 a f.
Proof. exact ellipsoid_params_l. Qed.
Print Assumptions ellipsoid_params.

(* the 7 registered ellipsoids carry the published constants (regenerated table) *)
Theorem ellipsoid_table_published :
  forallb (registered Gen.C05_Ellipsoids.ellipsoids) published_ellipsoids = true.
Proof. exact ellipsoid_table_published_l. Qed.
Print Assumptions ellipsoid_table_published.

(* llh2trs (lat, lon, h) is the point at distance h along the outward normal n through the foot point P = llh2trs (lat, lon, 0),
   P lies on the ellipsoid, and n is parallel to the gradient of the ellipsoid equation at P *)
Theorem llh2trs_on_normal : forall a f lat lon h, 0 < a -> f <> 1 ->
  let '(px, py, pz) := llh2trs_R a f lat lon 0 in
  let '(nx, ny, nz) := normal lat lon in
  let b := ell_b a f in
  llh2trs_R a f lat lon h = (px + h * nx, py + h * ny, pz + h * nz)
  /\ px² / a² + py² / a² + pz² / b² = 1
  /\ exists k, 0 < k /\ (2 * px / a², 2 * py / a², 2 * pz / b²) = (k * nx, k * ny, k * nz).
Proof. exact llh2trs_on_normal_l. Qed.
Print Assumptions llh2trs_on_normal.

(* longitude = atan2 y x in (-PI, PI]; PI on the +-180 degree meridian, 0 on the Greenwich meridian *)
Theorem trs2llh_lon : forall a f x y z,
  lon_of (trs2llh_R a f x y z) = atan2 y x
  /\ - PI < lon_of (trs2llh_R a f x y z) <= PI
  /\ (y = 0 -> x < 0 -> lon_of (trs2llh_R a f x y z) = PI)
  /\ (y = 0 -> 0 < x -> lon_of (trs2llh_R a f x y z) = 0).
Proof. exact trs2llh_lon_l. Qed.
Print Assumptions trs2llh_lon.

(* southern hemisphere: mirroring z negates the latitude and keeps longitude and height *)
Theorem trs2llh_mirror : forall a f x y z,
  trs2llh_R a f x y (- z) =
  (- lat_of (trs2llh_R a f x y z), lon_of (trs2llh_R a f x y z), h_of (trs2llh_R a f x y z)).
Proof. exact trs2llh_mirror_l. Qed.
Print Assumptions trs2llh_mirror.

(* the pole branch *)
Theorem trs2llh_pole : forall a f x y z, is_pole a x y ->
  trs2llh_R a f x y z = (PI / 2 * sign_R z, atan2 y x, Rabs z - ell_b a f)
  /\ (0 < z -> lat_of (trs2llh_R a f x y z) = PI / 2)
  /\ (z < 0 -> lat_of (trs2llh_R a f x y z) = - (PI / 2)).
Proof. exact trs2llh_pole_l. Qed.
Print Assumptions trs2llh_pole.

Theorem trs2llh_equator_lat : forall a f x y, lat_of (trs2llh_R a f x y 0) = 0.
Proof. exact trs2llh_equator_lat_l. Qed.
Print Assumptions trs2llh_equator_lat.

(* partial: the exact solution of the latitude equation is a fixed point of the Halley step.  NOT proved: the published
   accuracy of a single step from the start value of the code over the whole height range; that half is decided per sample
   by the interval certificates of the correspondence (geo_cert) *)
Theorem halley_fixed_point_partial : forall e2 ec pn zc s c,
  let A := sqrt (c² + s²) in
  0 < A -> pn * s - zc * c - e2 * s * c / A = 0 ->
  halley_S e2 ec pn zc s c * c = halley_C e2 ec pn zc s c * s.
Proof. exact halley_fixed_point_l. Qed.
Print Assumptions halley_fixed_point_partial.

(* ---------------------------------------------------------------- ellipsoid retention *)
(* for every table of constructor call sites that forwards everywhere, every operation list keeps the ellipsoid,
   at the end and at every intermediate result *)
Theorem ellipsoid_preserved : forall tbl dflt, table_all_true tbl = true ->
  forall ops s, snd (run tbl dflt ops s) = snd s
                /\ Forall (fun t => t = snd s) (tags_along (step tbl dflt) s ops).
Proof.
  intros tbl dflt H ops s. split;
    [apply ellipsoid_preserved_l | apply ellipsoid_preserved_everywhere_l]; exact H.
Qed.
Print Assumptions ellipsoid_preserved.

(* whatever the table says: operation lists that only pass through forwarding sites keep it *)
Theorem forwarding_ops_preserve : forall tbl dflt ops k t,
  ops_forward tbl k ops = true -> snd (run tbl dflt ops (k, t)) = t.
Proof. exact forwarding_ops_preserve_l. Qed.
Print Assumptions forwarding_ops_preserve.

(* verdict 0 of the correspondence means what it should *)
Theorem check_flow_sound : forall dflt posvel tag ops observed,
  check_flow (dflt, posvel, tag, ops, observed) = 0%Z ->
  List.length observed = List.length ops /\ Forall (fun t => t = tag) observed.
Proof. exact check_flow_sound_l. Qed.
Print Assumptions check_flow_sound.

(* quirk c05_ellipsoid_dropped (the hand-over table of the tree as found): the property fails *)
Theorem c05_ellipsoid_dropped_refuted :
  exists ops s, snd (run dropping_table_2026 2 ops s) <> snd s.
Proof. exact dropped_refuted_l. Qed.
Print Assumptions c05_ellipsoid_dropped_refuted.

(* non-vacuity *)
Example ex_all_true : table_all_true (map (fun s => (s, true)) model_sites) = true.
Proof. vm_compute. reflexivity. Qed.
Example ex_fixed_point_hyp : (* the surface point p = a, z = 0 of the sphere satisfies the hypotheses: s = 0, c = 1 *)
  let A := sqrt (1² + 0²) in 0 < A /\ 1 * 0 - 0 * 1 - 0 * 0 * 1 / A = 0.
Proof.
  simpl. assert (E : sqrt (1² + 0²) = 1) by (unfold Rsqr; replace (1 * 1 + 0 * 0) with 1 by ring; apply sqrt_1).
  rewrite E. split; [apply Rlt_0_1 | unfold Rdiv; ring].
Qed.
