(* C08 - Caching is invisible: results depend on current values, not on call history.
   Only statements, each closed by `exact <lemma>` and followed by Print Assumptions.

   `step pf q` is the model of the memoisation plumbing (Model/C08_Cache.v) around an ARBITRARY numerical
   function pf; `step pf all_off` is the specification; `run_uncached` wipes every memo before every
   operation; `reachable pf w` = w is the state after some operation list from the empty world. *)
From Coq Require Import ZArith List Bool.
From Verif Require Import Lib.C08_Lru Model.C08_Cache Proofs.C08_Cache Proofs.C08_Time Proofs.C08_PV Proofs.C08_Witness.
Import ListNotations.
Open Scope Z_scope.

(* functools.lru_cache, any capacity, any call sequence: every call returns f k, provided equal keys
   have equal function values *)
Theorem lru_transparent : forall (K V : Type) (keq : K -> K -> bool) (cap : nat) (f : K -> V) (ks : list K),
  respects keq f -> fst (lru_run keq cap f ks []) = map f ks.
Proof. exact C08_Lru.lru_transparent. Qed.
Print Assumptions lru_transparent.

Theorem lru_size_le : forall (K V : Type) (keq : K -> K -> bool) (cap : nat) (f : K -> V) (ks : list K),
  (length (snd (lru_run keq cap f ks [])) <= cap)%nat.
Proof. exact C08_Lru.lru_size_le. Qed.
Print Assumptions lru_size_le.

(* for every numerical function and EVERY operation list (create, raw calls, conversions, derived quantities,
   writes into results, item assignment, attach/replace/detach other, slices = views that share the buffer of
   their base, floods of the LRU) the specification machine shows exactly what the cache-free machine shows.
   The aliasing invariant behind it (Proofs: inv, setrow_inv): after item assignment through any object, whoever
   still holds memo data neither lives in the assigned buffer nor has an `other` living in it. *)
Theorem cache_invisible : forall pf ops,
  fst (run pf all_off empty_world ops) = fst (run_uncached pf all_off empty_world ops).
Proof. exact cache_invisible_lemma. Qed.
Print Assumptions cache_invisible.

(* item assignment to a position is followed by the conversion of the NEW contents *)
Theorem setitem_invalidates : forall pf w s p v w1 x1 w2 x2,
  reachable pf w -> slot w s = Some p -> 1 <= okind (get_obj w p) ->
  step pf all_off w (SetRow s v) = (w1, x1) -> step pf all_off w1 (Conv s) = (w2, x2) ->
  bufs w1 = upd_nth (obuf (get_obj w p)) (write_row0 v) (bufs w)
  /\ x2 = match pf (convfn (okind (get_obj w p))) 0 [(false, contents w1 (get_obj w1 p))] with
          | None => None | Some a => Some (a, 0) end.
Proof. exact setitem_lemma. Qed.
Print Assumptions setitem_invalidates.

(* mutating the attached `other` is reflected by the next derived quantity (p_read_obs = the quantity computed
   from the current contents without any memo) *)
Theorem other_mutation_propagates : forall pf w s t p y v qt w1 x1 w2 x2,
  reachable pf w -> slot w s = Some p -> slot w t = Some y ->
  1 <= okind (get_obj w p) -> 1 <= okind (get_obj w y) -> oother (get_obj w p) = Some y ->
  step pf all_off w (SetRow t v) = (w1, x1) -> step pf all_off w1 (Read s qt) = (w2, x2) ->
  bufs w1 = upd_nth (obuf (get_obj w y)) (write_row0 v) (bufs w)
  /\ oother (get_obj w1 p) = Some y
  /\ x2 = p_read_obs pf w1 p qt.
Proof. exact other_mutation_lemma. Qed.
Print Assumptions other_mutation_propagates.

(* views: item assignment through ANY object (base, a slice, another slice of the same base), then the conversion
   of ANY position: the conversion of what that position shows now (its view of the possibly re-written buffer) *)
Theorem view_write_invalidates : forall pf w s t p x v w1 x1 w2 x2,
  reachable pf w -> slot w s = Some p -> slot w t = Some x ->
  1 <= okind (get_obj w p) -> 1 <= okind (get_obj w x) ->
  step pf all_off w (SetRow t v) = (w1, x1) -> step pf all_off w1 (Conv s) = (w2, x2) ->
  bufs w1 = upd_nth (obuf (get_obj w x)) (write_row0 v) (bufs w)
  /\ obuf (get_obj w1 p) = obuf (get_obj w p) /\ oview (get_obj w1 p) = oview (get_obj w p)
  /\ x2 = match pf (convfn (okind (get_obj w p))) 0 [(false, contents w1 (get_obj w1 p))] with
          | None => None | Some a => Some (a, 0) end.
Proof. exact view_write_lemma. Qed.
Print Assumptions view_write_invalidates.

(* writing into a returned result changes nothing *)
Theorem result_write_isolated : forall pf w c, reachable pf w -> step pf all_off w (WriteRes c) = (w, ok_obs).
Proof. exact write_isolated_lemma. Qed.
Print Assumptions result_write_isolated.

(* a raw call leaves every buffer, every flag and every attribute as it was and reports "argument writeable" *)
Theorem args_untouched : forall pf w o w1 x,
  reachable pf w -> (exists fn ext s, o = Raw fn ext s) \/ (exists fn s, o = Rot fn s) ->
  step pf all_off w o = (w1, x) ->
  bufs w1 = bufs w /\ map o_clear (objs w1) = map o_clear (objs w)
  /\ (forall a c, x = Some (a, c) -> c = 1 \/ c = -9).
Proof. exact args_untouched_lemma. Qed.
Print Assumptions args_untouched.

(* the memo of TimeBase.to_scale keyed by (class/scale of the receiver, target scale, fmt, jd values incl. shape) is
   invisible for every conversion function and every history (TNew, TScale, floods) *)
Theorem time_cache_invisible : forall tf ops,
  trun tf false ([], []) ops = trun_uncached tf false ([], []) ops.
Proof. exact time_cache_invisible_lemma. Qed.
Print Assumptions time_cache_invisible.

(* PosVel / PositionDelta machine: for every function pvf and every operation list (create, read pos / vel / other
   system / trs2acr / distance / elevation / delta.enu, raw trs2kepler / kepler2trs, write into the result, row /
   slice / whole assignment, attach / detach other) the specification shows what the memo-free machine shows ... *)
Theorem pv_cache_invisible : forall pvf ops,
  map fst (pvrun pvf false false ([], None) false ops) = pvrun_uncached pvf ([], None) ops.
Proof. exact pv_cache_invisible_lemma. Qed.
Print Assumptions pv_cache_invisible.

(* ... and that is the uninterpreted function of the CURRENT contents of the object ... *)
Theorem pv_read_current : forall pvf w r s what k a l m,
  assoc_z s w = Some (k, a, l, m) ->
  pv_linked what = false -> (what =? 4) && (k =? 4) = false ->
  snd (pvstep pvf false false (w, r) (PRead s what))
  = match pvf (what * 100 + k * 10) [a] with None => None | Some v => Some (v, 0) end.
Proof. exact pv_read_plain_lemma. Qed.
Print Assumptions pv_read_current.

(* ... and of the object it is linked to (`other`, `ref_pos`) ... *)
Theorem pv_read_linked_current : forall pvf w r s what k a t m k2 a2 l2 m2,
  assoc_z s w = Some (k, a, Some t, m) -> assoc_z t w = Some (k2, a2, l2, m2) ->
  pv_linked what = true ->
  snd (pvstep pvf false false (w, r) (PRead s what))
  = match pvf (what * 100 + k * 10 + k2) [a; a2] with None => None | Some v => Some (v, 0) end.
Proof. exact pv_read_linked_lemma. Qed.
Print Assumptions pv_read_linked_current.

(* ... where item assignment changes exactly the contents of the assigned object *)
Theorem pv_set_current : forall pvf w r s mode v k a l m,
  assoc_z s w = Some (k, a, l, m) ->
  assoc_z s (fst (fst (pvstep pvf false false (w, r) (PSet s mode v)))) = Some (k, set_rows mode v a, l, [])
  /\ (forall t, t <> s -> option_map pv_strip1 (assoc_z t (fst (fst (pvstep pvf false false (w, r) (PSet s mode v)))))
                         = option_map pv_strip1 (assoc_z t w)).
Proof. exact pv_set_lemma. Qed.
Print Assumptions pv_set_current.

(* raw trs2kepler / kepler2trs, for every setting of the switches: no object changes (args_untouched), the
   observation says "argument writeable and unchanged", and writing into the result is the identity *)
Theorem raw_result_private : forall pvf sr h w r s c wr1 x,
  pvstep pvf sr h (w, r) (PRaw s) = (wr1, x) ->
  fst wr1 = w
  /\ pvstep pvf sr h wr1 (PWrite c) = (wr1, Some (([], []), 0))
  /\ (forall a k, x = Some (a, k) -> k = 1 \/ k = -9).
Proof. exact pv_raw_lemma. Qed.
Print Assumptions raw_result_private.

(* each quirk, switched on alone, breaks the property (computed witnesses) *)
Theorem c08_key_ignores_shape_refuted :
  exists pf ops, fst (run pf (mkQ true false false false false false) empty_world ops)
                 <> fst (run_uncached pf (mkQ true false false false false false) empty_world ops).
Proof. exact shape_refuted. Qed.
Print Assumptions c08_key_ignores_shape_refuted.

Theorem c08_result_aliases_cache_refuted :
  exists pf ops, fst (run pf (mkQ false true false false false false) empty_world ops)
                 <> fst (run_uncached pf (mkQ false true false false false false) empty_world ops).
Proof. exact alias_refuted. Qed.
Print Assumptions c08_result_aliases_cache_refuted.

Theorem c08_arg_made_readonly_refuted :
  exists pf ops, existsb oro (objs (snd (run pf (mkQ false false true false false false) empty_world ops))) = true
                 /\ In (Some (([], []), -1)) (fst (run pf (mkQ false false true false false false) empty_world ops)).
Proof. exact ro_refuted. Qed.
Print Assumptions c08_arg_made_readonly_refuted.

Theorem c08_view_write_stale_refuted :
  exists pf ops, fst (run pf (mkQ false false false true false false) empty_world ops)
                 <> fst (run_uncached pf (mkQ false false false true false false) empty_world ops).
Proof. exact view_refuted. Qed.
Print Assumptions c08_view_write_stale_refuted.

Theorem c08_object_cache_handout_refuted :
  exists pf ops, fst (run pf (mkQ false false false false true false) empty_world ops)
                 <> fst (run_uncached pf (mkQ false false false false true false) empty_world ops).
Proof. exact hand_refuted. Qed.
Print Assumptions c08_object_cache_handout_refuted.

Theorem c08_scalar_key_by_value_refuted :
  exists pf ops, fst (run pf (mkQ false false false false false true) empty_world ops)
                 <> fst (run_uncached pf (mkQ false false false false false true) empty_world ops).
Proof. exact sval_refuted. Qed.
Print Assumptions c08_scalar_key_by_value_refuted.

Theorem c08_time_cache_ignores_fmt_refuted :
  exists tf ops, trun tf true ([], []) ops <> trun_uncached tf true ([], []) ops
                 /\ trun tf false ([], []) ops = trun_uncached tf false ([], []) ops.
Proof. exact time_refuted. Qed.
Print Assumptions c08_time_cache_ignores_fmt_refuted.

(* non-vacuity: the witnesses of the refutations are handled correctly by the specification; a slice shares the
   buffer of its base in a reachable world *)
Example spec_agrees_on_witnesses :
  forallb (fun ops => negb (differs all_off ops)) [w_shape; w_alias; w_ro; w_view; w_hand] = true.
Proof. exact spec_on_witnesses. Qed.

Example slice_shares_buffer :
  let w := snd (run toy all_off empty_world [NewPos 0 1 a23; Conv 0; Slice 0 1 5]) in
  match slot w 0, slot w 5 with
  | Some p, Some x => Nat.eqb (obuf (get_obj w p)) (obuf (get_obj w x)) && negb (Nat.eqb p x)
  | _, _ => false
  end = true.
Proof. vm_compute. reflexivity. Qed.
