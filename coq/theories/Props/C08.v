(* C08 - Caching is invisible: results depend on current values, not on call history.
   Only statements, each closed by `exact <lemma>` and followed by Print Assumptions. *)
From Coq Require Import ZArith List Bool.
From Verif Require Import Lib.C08_Lru Model.C08_Cache Proofs.C08_Witness.
Import ListNotations.
Open Scope Z_scope.

(* functools.lru_cache, any capacity, any call sequence: every call returns f k, provided equal keys
   have equal function values *)
Theorem lru_transparent : forall (K V : Type) (keq : K -> K -> bool) (cap : nat) (f : K -> V) (ks : list K),
  respects keq f -> fst (lru_run keq cap f ks []) = map f ks.
Proof. exact C08_Lru.lru_transparent. Qed.
Print Assumptions lru_transparent.

Theorem lru_size_le : forall (K V : Type) (keq : K -> K -> bool) (cap : nat) (f : K -> V) (ks : list K),
  (length (snd (lru_run keq cap f ks [])) <= cap)%nat.
Proof. exact C08_Lru.lru_size_le. Qed.
Print Assumptions lru_size_le.
