(* C08 - Caching is invisible: results depend on current values, not on call history.
   Only statements, each closed by `exact <lemma>` and followed by Print Assumptions.

   `step pf q` is the model of the memoisation plumbing (Model/C08_Cache.v) around an ARBITRARY numerical
   function pf; `step pf all_off` is the specification; `run_uncached` wipes every memo before every
   operation; `reachable pf w` = w is the state after some operation list (without Slice) from the empty world. *)
From Coq Require Import ZArith List Bool.
From Verif Require Import Lib.C08_Lru Model.C08_Cache Proofs.C08_Cache Proofs.C08_Witness.
Import ListNotations.
Open Scope Z_scope.

(* functools.lru_cache, any capacity, any call sequence: every call returns f k, provided equal keys
   have equal function values *)
Theorem lru_transparent : forall (K V : Type) (keq : K -> K -> bool) (cap : nat) (f : K -> V) (ks : list K),
  respects keq f -> fst (lru_run keq cap f ks []) = map f ks.
Proof. exact C08_Lru.lru_transparent. Qed.
Print Assumptions lru_transparent.

Theorem lru_size_le : forall (K V : Type) (keq : K -> K -> bool) (cap : nat) (f : K -> V) (ks : list K),
  (length (snd (lru_run keq cap f ks [])) <= cap)%nat.
Proof. exact C08_Lru.lru_size_le. Qed.
Print Assumptions lru_size_le.

(* for every numerical function and every operation list (create, raw calls, conversions, derived quantities,
   writes into results, item assignment, attach/replace/detach other, floods of the LRU - everything but
   Slice), the specification machine shows exactly what the cache-free machine shows.
   _partial: operation lists containing Slice are not covered by the proof (they are by the correspondence). *)
Theorem cache_invisible_partial : forall pf ops,
  (forall s k s', ~ In (Slice s k s') ops) ->
  fst (run pf all_off empty_world ops) = fst (run_uncached pf all_off empty_world ops).
Proof. exact cache_invisible_lemma. Qed.
Print Assumptions cache_invisible_partial.

(* item assignment to a position is followed by the conversion of the NEW contents *)
Theorem setitem_invalidates : forall pf w s p v w1 x1 w2 x2,
  reachable pf w -> slot w s = Some p -> 1 <= okind (get_obj w p) ->
  step pf all_off w (SetRow s v) = (w1, x1) -> step pf all_off w1 (Conv s) = (w2, x2) ->
  bufs w1 = upd_nth (obuf (get_obj w p)) (write_row0 v) (bufs w)
  /\ x2 = match pf (convfn (okind (get_obj w p))) 0 [(false, contents w1 (get_obj w1 p))] with
          | None => None | Some a => Some (a, 0) end.
Proof. exact setitem_lemma. Qed.
Print Assumptions setitem_invalidates.

(* mutating the attached `other` is reflected by the next derived quantity (p_read_obs = the quantity computed
   from the current contents without any memo) *)
Theorem other_mutation_propagates : forall pf w s t p y v qt w1 x1 w2 x2,
  reachable pf w -> slot w s = Some p -> slot w t = Some y ->
  1 <= okind (get_obj w p) -> 1 <= okind (get_obj w y) -> oother (get_obj w p) = Some y ->
  step pf all_off w (SetRow t v) = (w1, x1) -> step pf all_off w1 (Read s qt) = (w2, x2) ->
  bufs w1 = upd_nth (obuf (get_obj w y)) (write_row0 v) (bufs w)
  /\ oother (get_obj w1 p) = Some y
  /\ x2 = p_read_obs pf w1 p qt.
Proof. exact other_mutation_lemma. Qed.
Print Assumptions other_mutation_propagates.

(* writing into a returned result changes nothing *)
Theorem result_write_isolated : forall pf w c, reachable pf w -> step pf all_off w (WriteRes c) = (w, ok_obs).
Proof. exact write_isolated_lemma. Qed.
Print Assumptions result_write_isolated.

(* a raw call leaves every buffer, every flag and every attribute as it was and reports "argument writeable" *)
Theorem args_untouched : forall pf w o w1 x,
  reachable pf w -> (exists fn ext s, o = Raw fn ext s) \/ (exists fn s, o = Rot fn s) ->
  step pf all_off w o = (w1, x) ->
  bufs w1 = bufs w /\ map o_clear (objs w1) = map o_clear (objs w)
  /\ (forall a c, x = Some (a, c) -> c = 1 \/ c = -9).
Proof. exact args_untouched_lemma. Qed.
Print Assumptions args_untouched.

(* each quirk, switched on alone, breaks the property (computed witnesses) *)
Theorem c08_key_ignores_shape_refuted :
  exists pf ops, fst (run pf (mkQ true false false false false) empty_world ops)
                 <> fst (run_uncached pf (mkQ true false false false false) empty_world ops).
Proof. exact shape_refuted. Qed.
Print Assumptions c08_key_ignores_shape_refuted.

Theorem c08_result_aliases_cache_refuted :
  exists pf ops, fst (run pf (mkQ false true false false false) empty_world ops)
                 <> fst (run_uncached pf (mkQ false true false false false) empty_world ops).
Proof. exact alias_refuted. Qed.
Print Assumptions c08_result_aliases_cache_refuted.

Theorem c08_arg_made_readonly_refuted :
  exists pf ops, existsb oro (objs (snd (run pf (mkQ false false true false false) empty_world ops))) = true
                 /\ In (Some (([], []), -1)) (fst (run pf (mkQ false false true false false) empty_world ops)).
Proof. exact ro_refuted. Qed.
Print Assumptions c08_arg_made_readonly_refuted.

Theorem c08_view_write_stale_refuted :
  exists pf ops, fst (run pf (mkQ false false false true false) empty_world ops)
                 <> fst (run_uncached pf (mkQ false false false true false) empty_world ops).
Proof. exact view_refuted. Qed.
Print Assumptions c08_view_write_stale_refuted.

Theorem c08_object_cache_handout_refuted :
  exists pf ops, fst (run pf (mkQ false false false false true) empty_world ops)
                 <> fst (run_uncached pf (mkQ false false false false true) empty_world ops).
Proof. exact hand_refuted. Qed.
Print Assumptions c08_object_cache_handout_refuted.

Theorem c08_time_cache_ignores_fmt_refuted :
  exists tf ops, trun tf true ([], []) ops <> trun_uncached tf true ([], []) ops
                 /\ trun tf false ([], []) ops = trun_uncached tf false ([], []) ops.
Proof. exact time_refuted. Qed.
Print Assumptions c08_time_cache_ignores_fmt_refuted.

(* non-vacuity: the witnesses of the refutations are handled correctly by the specification, and a world with
   objects, memo entries and an attached other is reachable *)
Example spec_agrees_on_witnesses :
  forallb (fun ops => negb (differs all_off ops)) [w_shape; w_alias; w_ro; w_view; w_hand] = true.
Proof. exact spec_on_witnesses. Qed.
