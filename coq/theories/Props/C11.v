(* Props/C11.v - proof obligations of property C11 (RINEX observation files are parsed into exactly the records
   they contain).  Model: Model/C11_Rinex.v (quirk off = specification); format: Spec/C11_RinexFormat.v;
   field tables: Gen/C11_Rinex{2,3}ObsFields.v (regenerated from the source on every run). *)
From Coq Require Import Ascii String List Bool ZArith QArith Arith Lia.
From Verif Require Import Lib.Text Lib.Decimal Lib.Fixed Model.C11_Rinex Model.C11_Check Spec.C11_RinexFormat Proofs.C11_Rinex.
Import ListNotations.
Local Open Scope nat_scope.
Local Open Scope string_scope.

(* the field tables midgard defines today contain the RINEX 2.11 / 3.0x record layouts (observation records 5 x 16
   columns, epoch records, # / TYPES OF OBSERV 9 per line, SYS / # / OBS TYPES 13 per line, position, times, receiver,
   antenna), with the strip modes of the data records, and each is an ordered, non-overlapping table within 80 columns *)
Theorem obs_fields_wf : tables_ok = true.
Proof. exact obs_fields_wf_l. Qed.
Print Assumptions obs_fields_wf.

(* F14.3 + I1 + I1: value, loss-of-lock and signal strength come back; blank or zero = absent *)
Theorem cell_roundtrip : forall c, cell_wf c -> parse_cell (render_cell c) = Some (cell_val c).
Proof. exact cell_roundtrip_l. Qed.
Print Assumptions cell_roundtrip.

(* RINEX 3: ANY number of observation types on one record, trailing blanks cut or not *)
Theorem obs_line_roundtrip_v3 : forall cut cs, Forall cell_wf cs ->
  v3_cells (List.length cs) (render_obs_v3 cut cs) = Some (map cell_val cs).
Proof. exact obs_line_roundtrip_v3_l. Qed.
Print Assumptions obs_line_roundtrip_v3.

(* RINEX 2: ANY number n of observation types on ceil(n/5) lines (continuation lines, all-blank ones included,
   trailing blanks cut or not): every line yields five values and the first n accumulated values are the record *)
Theorem obs_line_roundtrip_v2 : forall cut cs, Forall cell_wf cs ->
  exists per, map line_cells (render_obs_v2 cut cs) = map Some per /\
              Forall (fun l => List.length l = 5) per /\
              firstn (List.length cs) (concat per) = map cell_val cs.
Proof. intros cut cs F. apply (v2_lines_rt cut (List.length cs) cs (le_n _) F). Qed.
Print Assumptions obs_line_roundtrip_v2.

Theorem obs_lines_count_v2 : forall cut (cs : list cell), List.length (render_obs_v2 cut cs) = (List.length cs + 4) / 5.
Proof. intros cut cs. unfold render_obs_v2. rewrite map_length. apply chunks_count. apply le_n. Qed.
Print Assumptions obs_lines_count_v2.

(* ANY number of satellites on any number of epoch / continuation lines (12(A1,I2) each): the list comes back in
   order, blank system -> G, blank tens digit -> 0 *)
Theorem sat_list_roundtrip : forall chunks, Forall (Forall sat_ok) chunks ->
  sat_lines (map cat chunks) [] = Some (map fix3 (concat chunks)).
Proof. intros chunks F. apply (sat_list_roundtrip_l chunks [] F). Qed.
Print Assumptions sat_list_roundtrip.

(* header / continuation line of observation types, any number of fields: the non-blank fields in order.
   PARTIAL: stated on the fields of one line; the accumulation over continuation lines inside h_types_v2 / h_types_v3
   is covered by the correspondence only *)
Theorem obs_types_fields_roundtrip_partial : forall names ts acc vals, Forall (fun t => t <> "") ts -> looks names ts vals ->
  add_types names vals acc = (acc ++ ts)%list.
Proof. exact add_types_rt. Qed.
Print Assumptions obs_types_fields_roundtrip_partial.

(* epoch fields Iw / F11.7 (sub-second epochs): time text and second of day.
   PARTIAL: stated on the extracted fields, not through the epoch line's columns *)
Theorem epoch_fields_roundtrip_partial : forall y mo d h mi s7 w ws extra,
  time_of (("year", render_int w y) :: ("month", render_int w mo) :: ("day", render_int w d) :: ("hour", render_int w h)
           :: ("minute", render_int w mi) :: ("second", render_F ws 7 s7) :: extra) y
  = Some (time_text y mo d h mi (dec_value s7 7), (inject_Z (h * 3600 + mi * 60) + dec_value s7 7)%Q).
Proof. exact time_of_fields. Qed.
Print Assumptions epoch_fields_roundtrip_partial.

(* decimation keeps exactly the epochs whose second of day is a multiple of the sampling rate *)
Theorem decimation_spec : forall r sec, ~ (r == 0)%Q ->
  (on_grid (Some r) sec = true <-> exists k : Z, (sec == inject_Z k * r)%Q).
Proof. exact on_grid_spec. Qed.
Print Assumptions decimation_spec.

(* whole file, specification model: the witness file with a blank continuation line gives its three records *)
Theorem blank_continuation_file_spec :
  sats_of (model_v2 spec_q None witness_lines) = ["G01"; "G02"; "G03"] /\
  value_of (model_v2 spec_q None witness_lines) "L1" 0 = None /\
  value_of (model_v2 spec_q None witness_lines) "C1" 1 = Some (dec_value 21000 3).
Proof. exact blank_continuation_spec. Qed.
Print Assumptions blank_continuation_file_spec.

(* the current code: G03 is lost, G01's L1 is G02's C1 *)
Theorem c11_blank_continuation_refuted :
  sats_of (model_v2 impl_q None witness_lines) = ["G01"; "G02"] /\
  value_of (model_v2 impl_q None witness_lines) "L1" 0 = Some (dec_value 21000 3) /\
  value_of (model_v2 impl_q None witness_lines) "C1" 1 = Some (dec_value 26000 3) /\
  model_v2 impl_q None witness_lines <> model_v2 spec_q None witness_lines.
Proof. exact blank_continuation_refuted_l. Qed.
Print Assumptions c11_blank_continuation_refuted.

(* ---- non-vacuity *)
Example wf_cell_ex : cell_wf {| cv := VNum (-353); clli := Some 4%Z; cssi := None |}.
Proof. repeat split; try discriminate; try (unfold fits_F; vm_compute); lia. Qed.
Example seven_types_two_lines :
  render_obs_v2 true (map (fun m => {| cv := VNum m; clli := None; cssi := None |}) [11000; 12000; 13000; 14000; 15000]%Z
                      ++ [blankcell; blankcell])%list
  = ["        11.000          12.000          13.000          14.000          15.000"; ""].
Proof. vm_compute. reflexivity. Qed.
Example sat_ok_ex : Forall (Forall sat_ok) [["G07"; " 12"]; ["R 5"]].
Proof. repeat constructor; (eexists; eexists; eexists; split; [reflexivity|reflexivity]). Qed.
Example on_grid_ex : on_grid (Some (1 # 2)) (3 # 2) = true /\ on_grid (Some (30 # 1)) (47 # 1) = false.
Proof. split; reflexivity. Qed.
