(* Props/C11.v - proof obligations of property C11 (RINEX observation files are parsed into exactly the records
   they contain).  Model: Model/C11_Rinex.v (quirk off = specification); format: Spec/C11_RinexFormat.v;
   field tables: Gen/C11_Rinex{2,3}ObsFields.v (regenerated from the source on every run). *)
From Coq Require Import Ascii String List Bool ZArith QArith Arith Lia.
From Verif Require Import Lib.Text Lib.Decimal Lib.Fixed Model.C11_Rinex Model.C11_Check Spec.C11_RinexFormat Spec.C11_RinexFile
     Proofs.C11_Rinex Proofs.C11_File3 Proofs.C11_Hdr3 Proofs.C11_Hdr2 Proofs.C11_File2 Proofs.C11_Extras Proofs.C11_Body2 Proofs.C11_Final3 Proofs.C11_Comments Proofs.C11_FileText.
Import ListNotations.
Local Open Scope nat_scope.
Local Open Scope string_scope.

(* the field tables midgard defines today contain the RINEX 2.11 / 3.0x record layouts (observation records 5 x 16
   columns, epoch records, # / TYPES OF OBSERV 9 per line, SYS / # / OBS TYPES 13 per line, position, times, receiver,
   antenna), with the strip modes of the data records, and each is an ordered, non-overlapping table within 80 columns *)
Theorem obs_fields_wf : tables_ok = true.
Proof. exact obs_fields_wf_l. Qed.
Print Assumptions obs_fields_wf.

(* F14.3 + I1 + I1: value, loss-of-lock and signal strength come back; blank or zero = absent *)
Theorem cell_roundtrip : forall c, cell_wf c -> parse_cell (render_cell c) = Some (cell_val c).
Proof. exact cell_roundtrip_l. Qed.
Print Assumptions cell_roundtrip.

(* RINEX 3: ANY number of observation types on one record, trailing blanks cut or not *)
Theorem obs_line_roundtrip_v3 : forall cut cs, Forall cell_wf cs ->
  v3_cells (List.length cs) (render_obs_v3 cut cs) = Some (map cell_val cs).
Proof. exact obs_line_roundtrip_v3_l. Qed.
Print Assumptions obs_line_roundtrip_v3.

(* RINEX 2: ANY number n of observation types on ceil(n/5) lines (continuation lines, all-blank ones included,
   trailing blanks cut or not): every line yields five values and the first n accumulated values are the record *)
Theorem obs_line_roundtrip_v2 : forall cut cs, Forall cell_wf cs ->
  exists per, map line_cells (render_obs_v2 cut cs) = map Some per /\
              Forall (fun l => List.length l = 5) per /\
              firstn (List.length cs) (concat per) = map cell_val cs.
Proof. intros cut cs F. apply (v2_lines_rt cut (List.length cs) cs (le_n _) F). Qed.
Print Assumptions obs_line_roundtrip_v2.

Theorem obs_lines_count_v2 : forall cut (cs : list cell), List.length (render_obs_v2 cut cs) = (List.length cs + 4) / 5.
Proof. intros cut cs. unfold render_obs_v2. rewrite map_length. apply chunks_count. apply le_n. Qed.
Print Assumptions obs_lines_count_v2.

(* ANY number of satellites on any number of epoch / continuation lines (12(A1,I2) each): the list comes back in
   order, blank system -> G, blank tens digit -> 0 *)
Theorem sat_list_roundtrip : forall chunks, Forall (Forall sat_ok) chunks ->
  sat_lines (map cat chunks) [] = Some (map fix3 (concat chunks)).
Proof. intros chunks F. apply (sat_list_roundtrip_l chunks [] F). Qed.
Print Assumptions sat_list_roundtrip.

(* header / continuation line of observation types, any number of fields: the non-blank fields in order.
   PARTIAL: stated on the fields of one line; the accumulation over continuation lines inside h_types_v2 / h_types_v3
   is covered by the correspondence only *)
Theorem obs_types_fields_roundtrip_partial : forall names ts acc vals, Forall (fun t => t <> "") ts -> looks names ts vals ->
  add_types names vals acc = (acc ++ ts)%list.
Proof. exact add_types_rt. Qed.
Print Assumptions obs_types_fields_roundtrip_partial.

(* epoch fields Iw / F11.7 (sub-second epochs): time text and second of day.
   PARTIAL: stated on the extracted fields, not through the epoch line's columns *)
Theorem epoch_fields_roundtrip_partial : forall y mo d h mi s7 w ws extra,
  time_of (("year", render_int w y) :: ("month", render_int w mo) :: ("day", render_int w d) :: ("hour", render_int w h)
           :: ("minute", render_int w mi) :: ("second", render_F ws 7 s7) :: extra) y
  = Some (time_text y mo d h mi (dec_value s7 7), (inject_Z (h * 3600 + mi * 60) + dec_value s7 7)%Q).
Proof. exact time_of_fields. Qed.
Print Assumptions epoch_fields_roundtrip_partial.

(* decimation keeps exactly the epochs whose second of day is a multiple of the sampling rate *)
Theorem decimation_spec : forall r sec, ~ (r == 0)%Q ->
  (on_grid (Some r) sec = true <-> exists k : Z, (sec == inject_Z k * r)%Q).
Proof. exact on_grid_spec. Qed.
Print Assumptions decimation_spec.

(* whole file, specification model: the witness file with a blank continuation line gives its three records *)
Theorem blank_continuation_file_spec :
  sats_of (model_v2 spec_q None witness_lines) = ["G01"; "G02"; "G03"] /\
  value_of (model_v2 spec_q None witness_lines) "L1" 0 = None /\
  value_of (model_v2 spec_q None witness_lines) "C1" 1 = Some (dec_value 21000 3).
Proof. exact blank_continuation_spec. Qed.
Print Assumptions blank_continuation_file_spec.

(* the current code: G03 is lost, G01's L1 is G02's C1 *)
Theorem c11_blank_continuation_refuted :
  sats_of (model_v2 impl_q None witness_lines) = ["G01"; "G02"] /\
  value_of (model_v2 impl_q None witness_lines) "L1" 0 = Some (dec_value 21000 3) /\
  value_of (model_v2 impl_q None witness_lines) "C1" 1 = Some (dec_value 26000 3) /\
  model_v2 impl_q None witness_lines <> model_v2 spec_q None witness_lines.
Proof. exact blank_continuation_refuted_l. Qed.
Print Assumptions c11_blank_continuation_refuted.

(* ---- RINEX 3, whole file (Spec/C11_RinexFile.v: file3 = marker, SYS / # / OBS TYPES for any number of systems and types,
   any number of epochs and satellites; tables = the regenerated ones) *)

(* SYS / # / OBS TYPES through h_types_v3: ANY number of systems, ANY number of types per system (13 per line, continuation
   lines): the per-system lists and the list of all types come back *)
Theorem sys_obs_types_roundtrip : forall stt, systypes_ok stt ->
  exists h, hfold G3.header_table (concat (map types_lines_v3 stt)) st0
            = Some (with_types st0 (all_types stt []) stt h).
Proof.
  intros stt [ND F]. destruct (systems_ok stt st0 F ND) as [h H]; [intros k _ []|]. exists h. exact H.
Qed.
Print Assumptions sys_obs_types_roundtrip.

(* the epoch record through its columns (I4, I2 or I2.2, F11.7 sub-second epochs, flag, I3, optional F15.12 clock offset,
   trailing blanks cut or not): time text, second of day / decimation, flag and clock offset *)
Theorem epoch_roundtrip_v3 : forall rate t nsat s c, epoch_t_wf t -> fits_int 3 nsat ->
  v3_line rate G3.obs_table (render_epoch_v3 t nsat) s c =
  Some (s, {| c_epoch := Some (einfo3 rate t); c_sats := c_sats c; c_len := c_len c; c_acc := c_acc c |}).
Proof. exact v3_epoch_line. Qed.
Print Assumptions epoch_roundtrip_v3.

(* parse (render f) for EVERY well-formed file model f: the result is the post-processing of the state holding the marker,
   the per-system type lists and one row per (epoch on the sampling grid, satellite) in file order *)
Theorem rinex3_file_roundtrip : forall rate f, file3_ok f ->
  parse_v3 G3.header_table G3.obs_table rate (render_file3 f) = finish_v3 (final_state3 rate f).
Proof. exact rinex3_file_roundtrip_l. Qed.
Print Assumptions rinex3_file_roundtrip.

(* ... hence: rows = file rows in file order, and all per-record columns have the length of the row list *)
Theorem rinex3_file_rows : forall rate f, file3_ok f -> file_rows3 rate f <> [] ->
  exists r, parse_v3 G3.header_table G3.obs_table rate (render_file3 f) = Some r /\
            o_rows r = file_rows3 rate f /\
            Forall (fun col => List.length (snd col) = List.length (o_rows r)) (o_obs r).
Proof. exact rinex3_rows_l. Qed.
Print Assumptions rinex3_file_rows.

(* the rows kept with a sampling rate are exactly those of the epochs on the grid (see decimation_spec for on_grid) *)
Theorem decimation_file_spec : forall rate f,
  file_rows3 rate f =
  flat_map (fun e => if on_grid rate (sec_of (e3_t e))
                     then epoch_rows None (f3_systypes f) (all_types (f3_systypes f) []) (f3_marker f) e else []) (f3_epochs f).
Proof. exact decimation_file_spec_l. Qed.
Print Assumptions decimation_file_spec.

(* a row carries, for the types of its system, the values of its cells (row3) and is absent for every other type *)
Theorem undefined_types_absent : forall mk ts all e sa t, ~ In t ts -> cell_of t (row3 mk ts all e sa) = absent.
Proof. exact row3_undefined_absent. Qed.
Print Assumptions undefined_types_absent.

(* ---- RINEX 2, records through the model on the regenerated tables (Spec/C11_RinexFile.v, file2) *)

(* # / TYPES OF OBSERV through h_types_v2: ANY number of types (9 per line + continuation lines) *)
Theorem types_of_observ_roundtrip : forall types s, types <> [] -> Forall type2_ok types ->
  fits_int 6 (Z.of_nat (List.length types)) ->
  hfold G2.header_table (types_lines_v2 types) s = Some (with_v2 s types (Some (Z.of_nat (List.length types)))).
Proof. exact types_lines_ok2. Qed.
Print Assumptions types_of_observ_roundtrip.

(* TIME OF FIRST OBS (5I6, F13.7, 5X, A3) -> meta time_sys / time_first_obs *)
Theorem time_of_first_obs_roundtrip : forall t s, first_ok t ->
  header_line G2.header_table (first_obs_line t) s =
  Some (set_meta (assoc_set "time_first_obs" (MStr (time_text (ep_y t) (ep_mo t) (ep_d t) (ep_h t) (ep_mi t) (dec_value (ep_s7 t) 7)))
                            (assoc_set "time_sys" (MStr "GPS") (meta s))) s).
Proof. exact first_obs_ok. Qed.
Print Assumptions time_of_first_obs_roundtrip.

(* the epoch line through its columns: two-digit year resolved by the RINEX 2.11 rule (80-99 -> 19yy, 00-79 -> 20yy; every year
   1980..2079, no relation to the year of TIME OF FIRST OBS required), sub-second epoch,
   flag, number of satellites, up to 12 satellites (blank tens digit -> 0), optional F12.9 clock offset *)
Theorem epoch_roundtrip_v2 : forall rate Y fmo fd fh fmi fsec t nsat ids s c,
  inv2_meta Y fmo fd fh fmi fsec s -> epoch_t_wf t -> (1980 <= ep_y t < 2080)%Z ->
  match ep_clk t with None => True | Some v => fits_F 12 9 v end -> fits_int 3 nsat ->
  ids <> [] -> List.length ids <= 12 -> Forall sat2_id_ok ids ->
  v2_line spec_q rate G2.obs_table (epoch_first_line_v2 t nsat ids) s c =
  Some (s, {| c_epoch := Some (einfo2 rate t nsat); c_sats := Some (map fix3 ids); c_len := List.length ids; c_acc := c_acc c |}).
Proof. exact v2_first_line. Qed.
Print Assumptions epoch_roundtrip_v2.

(* satellite-list continuation line (32X, 12(A1,I2)): appended to the epoch's list, nothing else changes *)
Theorem sat_list_continuation_v2 : forall rate ids s c l0, c_sats c = Some l0 -> ids <> [] -> List.length ids <= 12 ->
  Forall sat2_id_ok ids ->
  v2_line spec_q rate G2.obs_table (epoch_cont_line_v2 ids) s c =
  Some (s, {| c_epoch := c_epoch c; c_sats := Some (l0 ++ map fix3 ids)%list; c_len := List.length (l0 ++ map fix3 ids)%list;
              c_acc := c_acc c |}).
Proof. exact v2_cont_line. Qed.
Print Assumptions sat_list_continuation_v2.

(* every non-empty observation line (1..5 cells, trailing blanks cut) is classified as observation line by the label
   function, and no observation line (cut or not, empty or not) is taken for the start of a new epoch *)
Theorem obs_line_classified_v2 : forall c1 r, Forall cell_wf (c1 :: r) ->
  (rstrip (cat (map render_cell (c1 :: r))) <> "" -> v2_label (rstrip (cat (map render_cell (c1 :: r)))) = true) /\
  (forall cut, v2_end_marker (maybe_rstrip cut (cat (map render_cell (c1 :: r))) ++ String "010"%char "") = false).
Proof. intros c1 r F. split; [apply obs_label, F|intros cut; apply obs_not_marker, F]. Qed.
Print Assumptions obs_line_classified_v2.

(* the observation record of ONE satellite through the model (run_obs on the regenerated table): any number n >= 1 of
   observation types on ceil(n/5) lines, trailing blanks cut or not, all-blank and EMPTY lines included (specification model =
   behaviour after fix ffb5f24): exactly one row with the record's values, the satellite is popped, the accumulator is empty.
   [cont2] = how ChainParser continues with the following lines (cache reset iff the next line starts a new epoch). *)
Theorem obs_record_roundtrip_v2 : forall rate e q sat rest num mk cut cells s c tail,
  e_sec e = Some q -> parse_int (drop 1 sat) = Some num ->
  Forall cell_wf cells -> cells <> [] -> List.length (types_all s) = List.length cells ->
  c_epoch c = Some e -> e_num_sat e = Z.of_nat (c_len c) -> num_types s = Some (Z.of_nat (List.length cells)) ->
  c_sats c = Some (sat :: rest) -> c_acc c = [] -> meta_str "marker_name" s = Some mk ->
  run_obs (v2_line spec_q rate G2.obs_table) v2_end_marker (render_obs_v2 cut cells ++ tail) s c =
  cont2 (v2_line spec_q rate G2.obs_table) v2_end_marker tail
        (add_row s (row2_of e sat num mk (types_all s) (map cell_val cells)))
        {| c_epoch := c_epoch c; c_sats := Some rest; c_len := c_len c; c_acc := [] |}.
Proof. exact sat_record_v2. Qed.
Print Assumptions obs_record_roundtrip_v2.

(* ---- RINEX 2, whole file (file2: marker, # / TYPES OF OBSERV any number of types, TIME OF FIRST OBS, any number of epochs,
   any number >= 1 of satellites per epoch with satellite-list continuation lines, records of ceil(n/5) lines incl. empty ones) *)

(* parse (render f) for EVERY well-formed file model f and every sampling rate, specification model (= code after fix ffb5f24) *)
Theorem rinex2_file_roundtrip : forall rate f, file2_ok f ->
  parse_v2 spec_q G2.header_table G2.obs_table rate (render_file2 f) = finish_v2 (final_state2 rate f).
Proof. exact rinex2_file_roundtrip_l. Qed.
Print Assumptions rinex2_file_roundtrip.

(* rows = one per (epoch on the grid, satellite) in file order, each with combine types (values of its record);
   every data column has the length of the row list *)
Theorem rinex2_file_rows : forall rate f, file2_ok f -> file_rows2 rate f <> [] ->
  exists r, parse_v2 spec_q G2.header_table G2.obs_table rate (render_file2 f) = Some r /\
            o_rows r = file_rows2 rate f /\
            Forall (fun col => List.length (snd col) = List.length (o_rows r)) (o_obs r).
Proof. exact rinex2_rows_l. Qed.
Print Assumptions rinex2_file_rows.

Theorem decimation_file_spec_v2 : forall rate f,
  file_rows2 rate f =
  flat_map (fun e => if on_grid rate (sec_of (e2_t e)) then epoch_rows2 None (f2_marker f) (f2_types f) e else []) (f2_epochs f).
Proof. exact decimation_file_spec_v2_l. Qed.
Print Assumptions decimation_file_spec_v2.

(* ---- optional header records through the regenerated header tables of BOTH parsers: MARKER NUMBER, REC # / TYPE / VERS,
   ANT # / TYPE, APPROX POSITION XYZ (meta pos_x/y/z and data["pos"]), ANTENNA: DELTA H/E/N, INTERVAL, COMMENT, TIME OF LAST OBS.
   [apply_hrec] is the explicit effect on meta / pos (Proofs/C11_Extras.v: meta_hrec, pos_hrec) *)
Theorem header_record_roundtrip : forall tbl, tbl = G2.header_table \/ tbl = G3.header_table -> forall year r s, hrec_ok year r ->
  header_line tbl (render_hrec r) s = Some (apply_hrec r s).
Proof. intros tbl [E|E] year r s H; subst tbl; [apply (hrec_line_ok _ has_extras_G2 year)|apply (hrec_line_ok _ has_extras_G3 year)]; exact H. Qed.
Print Assumptions header_record_roundtrip.

Theorem header_record_roundtrip_marker_number : forall tbl, tbl = G2.header_table \/ tbl = G3.header_table -> forall year a s,
  hrec_ok year (HMarkerNumber a) -> header_line tbl (render_hrec (HMarkerNumber a)) s = Some (apply_hrec (HMarkerNumber a) s).
Proof. intros tbl T year a s. apply (header_record_roundtrip tbl T year (HMarkerNumber a) s). Qed.
Print Assumptions header_record_roundtrip_marker_number.

Theorem header_record_roundtrip_receiver : forall tbl, tbl = G2.header_table \/ tbl = G3.header_table -> forall year a b c s,
  hrec_ok year (HReceiver a b c) -> header_line tbl (render_hrec (HReceiver a b c)) s = Some (apply_hrec (HReceiver a b c) s).
Proof. intros tbl T year a b c s. apply (header_record_roundtrip tbl T year (HReceiver a b c) s). Qed.
Print Assumptions header_record_roundtrip_receiver.

Theorem header_record_roundtrip_antenna : forall tbl, tbl = G2.header_table \/ tbl = G3.header_table -> forall year a b s,
  hrec_ok year (HAntenna a b) -> header_line tbl (render_hrec (HAntenna a b)) s = Some (apply_hrec (HAntenna a b) s).
Proof. intros tbl T year a b s. apply (header_record_roundtrip tbl T year (HAntenna a b) s). Qed.
Print Assumptions header_record_roundtrip_antenna.

Theorem header_record_roundtrip_approx_position : forall tbl, tbl = G2.header_table \/ tbl = G3.header_table -> forall year x y z s,
  hrec_ok year (HPosition x y z) -> header_line tbl (render_hrec (HPosition x y z)) s = Some (apply_hrec (HPosition x y z) s).
Proof. intros tbl T year x y z s. apply (header_record_roundtrip tbl T year (HPosition x y z) s). Qed.
Print Assumptions header_record_roundtrip_approx_position.

Theorem header_record_roundtrip_antenna_delta : forall tbl, tbl = G2.header_table \/ tbl = G3.header_table -> forall year x y z s,
  hrec_ok year (HDelta x y z) -> header_line tbl (render_hrec (HDelta x y z)) s = Some (apply_hrec (HDelta x y z) s).
Proof. intros tbl T year x y z s. apply (header_record_roundtrip tbl T year (HDelta x y z) s). Qed.
Print Assumptions header_record_roundtrip_antenna_delta.

Theorem header_record_roundtrip_interval : forall tbl, tbl = G2.header_table \/ tbl = G3.header_table -> forall year x s,
  hrec_ok year (HInterval x) -> header_line tbl (render_hrec (HInterval x)) s = Some (apply_hrec (HInterval x) s).
Proof. intros tbl T year x s. apply (header_record_roundtrip tbl T year (HInterval x) s). Qed.
Print Assumptions header_record_roundtrip_interval.

Theorem header_record_roundtrip_comment : forall tbl, tbl = G2.header_table \/ tbl = G3.header_table -> forall year a s,
  hrec_ok year (HComment a) -> header_line tbl (render_hrec (HComment a)) s = Some (apply_hrec (HComment a) s).
Proof. intros tbl T year a s. apply (header_record_roundtrip tbl T year (HComment a) s). Qed.
Print Assumptions header_record_roundtrip_comment.

Theorem header_record_roundtrip_time_of_last_obs : forall tbl, tbl = G2.header_table \/ tbl = G3.header_table -> forall year t s,
  hrec_ok year (HLastObs t) -> header_line tbl (render_hrec (HLastObs t)) s = Some (apply_hrec (HLastObs t) s).
Proof. intros tbl T year t s. apply (header_record_roundtrip tbl T year (HLastObs t) s). Qed.
Print Assumptions header_record_roundtrip_time_of_last_obs.

(* any list of optional records in any order, comments interleaved *)
Theorem header_records_any_order : forall tbl, tbl = G2.header_table \/ tbl = G3.header_table -> forall year rs s,
  Forall (hrec_ok year) rs -> hfold tbl (map render_hrec rs) s = Some (apply_hrecs rs s).
Proof. intros tbl [E|E] year rs s H; subst tbl; [apply (hrecs_ok _ has_extras_G2 year)|apply (hrecs_ok _ has_extras_G3 year)]; exact H. Qed.
Print Assumptions header_records_any_order.

(* ---- COMMENT lines inside the observation part (label COMMENT in columns 61..): both parsers leave state and cache unchanged,
   whatever the text and whatever the cache.  (Event flags > 1 make midgard exit via log.fatal - outside the domain.)
   Not yet part of the file models file2 / file3: see design/C11.md. *)
Theorem body_comment_line_ignored_v3 : forall rate text s c, comment_ok text ->
  v3_line rate G3.obs_table (comment_line text) s c = Some (s, c).
Proof. exact body_comment_v3. Qed.
Print Assumptions body_comment_line_ignored_v3.

Theorem body_comment_line_ignored_v2 : forall q rate text s c, comment_ok text ->
  v2_line q rate G2.obs_table (comment_line text) s c = Some (s, c).
Proof. exact body_comment_v2. Qed.
Print Assumptions body_comment_line_ignored_v2.

(* blank satellite-system identifier = GPS: one step of the satellite-list loop.  PARTIAL: the file theorem rinex2_file_roundtrip
   requires an upper-case system letter in every identifier (sat2_id_ok); with a blank first identifier the epoch line is still
   classified by the first conjunct of the label lambda, which is not proved. *)
Theorem blank_system_id_is_gps_partial : forall b c rest fuel acc, is_space c = false ->
  sat_loop (S fuel) (String " " (String b (String c rest))) acc =
  sat_loop fuel rest (acc ++ [String "G" (String (if Ascii.eqb b " " then "0"%char else b) (String c ""))])%list.
Proof.
  intros b c rest fuel acc Hc. cbn [sat_loop take drop].
  assert (R : rstrip (String " " (String b (String c ""))) = String " " (String b (String c ""))).
  { apply rstrip_by_rtrimmed. simpl. rewrite Hc. reflexivity. }
  rewrite R. reflexivity.
Qed.
Print Assumptions blank_system_id_is_gps_partial.

(* two-digit years over 1999/2000: the specification reads the record "00  1  1" after a first observation in 1999 as 2000-01-01;
   the current code (century of TIME OF FIRST OBS) returns 1900-01-01 *)
Theorem century_file_spec : times_of (model_v2 spec_q None witness_1999) = ["1999-12-31T23:59:30.0000000"; "2000-01-01T00:00:00.0000000"].
Proof. exact century_spec. Qed.
Print Assumptions century_file_spec.
Theorem c11_century_from_first_obs_refuted :
  times_of (model_v2 cent_q None witness_1999) = ["1999-12-31T23:59:30.0000000"; "1900-01-01T00:00:00.0000000"].
Proof. exact century_refuted_l. Qed.
Print Assumptions c11_century_from_first_obs_refuted.

(* ---- the text of a file: lines joined by "\n", WITH OR WITHOUT a final terminator, denote the same lines (what Python's file
   iteration yields); an unterminated text cannot end with an empty line.  Hence every whole-file theorem holds for both texts. *)
Theorem file_text_lines : forall term ls, ls <> [] -> Forall no_nl ls -> (term = true \/ last ls "x" <> "") ->
  text_lines (file_text term ls) = ls.
Proof. exact Proofs.C11_FileText.file_text_lines. Qed.
Print Assumptions file_text_lines.

Theorem rinex3_text_roundtrip : forall term rate f, file3_ok f -> Forall no_nl (render_file3 f) ->
  (term = true \/ last (render_file3 f) "x" <> "") ->
  parse_v3 G3.header_table G3.obs_table rate (text_lines (file_text term (render_file3 f))) = finish_v3 (final_state3 rate f).
Proof.
  intros term rate f Ok N T. rewrite Proofs.C11_FileText.file_text_lines; auto; [apply rinex3_file_roundtrip, Ok|].
  unfold render_file3, render_header3. destruct (rx (hx0 (f3_x f))); discriminate.
Qed.
Print Assumptions rinex3_text_roundtrip.

Theorem rinex2_text_roundtrip : forall term rate f, file2_ok f -> Forall no_nl (render_file2 f) ->
  (term = true \/ last (render_file2 f) "x" <> "") ->
  parse_v2 spec_q G2.header_table G2.obs_table rate (text_lines (file_text term (render_file2 f))) = finish_v2 (final_state2 rate f).
Proof.
  intros term rate f Ok N T. rewrite Proofs.C11_FileText.file_text_lines; auto; [apply rinex2_file_roundtrip, Ok|].
  unfold render_file2, render_header2. destruct (rx (hx0 (f2_x f))); discriminate.
Qed.
Print Assumptions rinex2_text_roundtrip.

(* ---- non-vacuity *)
Example wf_cell_ex : cell_wf {| cv := VNum (-353); clli := Some 4%Z; cssi := None |}.
Proof. repeat split; try discriminate; try (unfold fits_F; vm_compute); lia. Qed.
Example seven_types_two_lines :
  render_obs_v2 true (map (fun m => {| cv := VNum m; clli := None; cssi := None |}) [11000; 12000; 13000; 14000; 15000]%Z
                      ++ [blankcell; blankcell])%list
  = ["        11.000          12.000          13.000          14.000          15.000"; ""].
Proof. vm_compute. reflexivity. Qed.
Example sat_ok_ex : Forall (Forall sat_ok) [["G07"; " 12"]; ["R 5"]].
Proof. repeat constructor; (eexists; eexists; eexists; split; [reflexivity|reflexivity]). Qed.
Example on_grid_ex : on_grid (Some (1 # 2)) (3 # 2) = true /\ on_grid (Some (30 # 1)) (47 # 1) = false.
Proof. split; reflexivity. Qed.

(* a well-formed RINEX 3 file: two systems (E with a continuation line), two epochs, the second 2e-4 s off a 30 s grid *)
Definition num (m : Z) : cell := {| cv := VNum m; clli := None; cssi := Some 7%Z |}.
Definition ex_types_E : list string :=
  ["C1X"; "L1X"; "D1X"; "S1X"; "C5X"; "L5X"; "S5X"; "C8X"; "L8X"; "S8X"; "C7X"; "L7X"; "S7X"; "C6X"].
Definition ex_t (s7 : Z) (clk : option Z) : epoch_t :=
  {| ep_y := 2018; ep_mo := 2; ep_d := 1; ep_h := 0; ep_mi := 0; ep_s7 := s7; ep_clk := clk; ep_zero := true; ep_cut := true |}.
Definition ex_extras : hextras :=
  {| hx0 := [HComment "G = GPS R = GLONASS"];
     hx1 := [HMarkerNumber "10331M001"; HReceiver "5547R50473" "TRIMBLE NETR9" "5.20"; HComment ""; HAntenna "30318098" "TRM55971.00     NONE"];
     hx2 := [HPosition 28201711098 5134859023 56789357406; HDelta 55460 70 (-180); HInterval 30000];
     hx3 := [HLastObs {| ep_y := 2018; ep_mo := 2; ep_d := 1; ep_h := 23; ep_mi := 59; ep_s7 := 300000000; ep_clk := None;
                         ep_zero := false; ep_cut := false |}; HComment "*** note 3.5 ***"] |}.
Definition ex_file3 : file3 :=
  {| f3_marker := "TRDS";
     f3_systypes := [("G", ["C1C"; "L1C"]); ("E", ex_types_E)];
     f3_first := ex_t 300000000 None;
     f3_x := ex_extras;
     f3_epochs :=
       [ {| e3_t := ex_t 300000000 (Some (-123456789012)%Z);
            e3_sats := [ {| s3_id := "G01"; s3_cells := [num 23629347915; blankcell]; s3_cut := true |};
                         {| s3_id := "E11"; s3_cells := map num [1;2;3;4;5;6;7;8;9;10;11;12;13;14]%Z; s3_cut := false |} ] |};
         {| e3_t := ex_t 300002000 None;
            e3_sats := [ {| s3_id := "G01"; s3_cells := [num 23629347916; num (-353)]; s3_cut := true |} ] |} ] |}.

Lemma ex_file3_ok : file3_ok ex_file3.
Proof.
  unfold file3_ok, ex_file3. cbn [f3_marker f3_systypes f3_epochs]. split; [reflexivity|]. split; [vm_compute; lia|]. split.
  - split; [repeat constructor; cbn; intuition discriminate|].
    repeat constructor; cbn [fst snd]; try (eexists; split; reflexivity); try discriminate;
      try (unfold type3_ok; split; reflexivity); try (vm_compute; lia).
  - repeat constructor; cbn [e3_t e3_sats ex_t ep_y ep_mo ep_d ep_h ep_mi ep_s7 ep_clk]; try lia;
      try (unfold fits_int, fits_F; vm_compute; lia); try exact I.
    all: try (do 3 eexists; split; [reflexivity|]; split; [eexists; split; [cbn; eauto|reflexivity]|]; split; [vm_compute; lia|split; reflexivity]).
    all: try (cbn [s3_cells map]; repeat constructor; try discriminate; try (unfold fits_F; vm_compute; lia); try exact I; cbn; lia).
Qed.
Example ex_rows : map r_sat (file_rows3 (Some (30 # 1)) ex_file3) = ["G01"; "E11"] /\ map r_sat (file_rows3 None ex_file3) = ["G01"; "E11"; "G01"].
Proof. vm_compute. split; reflexivity. Qed.

(* a well-formed RINEX 2 file: 7 types (G01's continuation line is EMPTY), 13 satellites (satellite-list continuation line),
   clock offset, blank tens digit in a satellite id, second epoch 2e-4 s off a 30 s grid *)
Definition ex_t2 (s7 : Z) (clk : option Z) : epoch_t :=
  {| ep_y := 2018; ep_mo := 2; ep_d := 1; ep_h := 0; ep_mi := 0; ep_s7 := s7; ep_clk := clk; ep_zero := false; ep_cut := true |}.
Definition ex_sat2 (id : string) (k : Z) (last2 : bool) : sat2 :=
  {| s2_id := id;
     s2_cells := (map num [k + 1; k + 2; k + 3; k + 4; k + 5]%Z ++ (if last2 then [num (k + 6); num (k + 7)]%Z else [blankcell; blankcell]))%list;
     s2_cut := true |}.
(* 7 observation types; G01 has no L1/L2: its continuation line is empty; 13 satellites: continuation of the satellite list *)
Definition ex_file2 : file2 :=
  {| f2_marker := "TEST"; f2_types := ["C1"; "C2"; "C5"; "P1"; "P2"; "L1"; "L2"]; f2_first := ex_t2 0 None; f2_x := ex_extras;
     f2_epochs :=
       [ {| e2_t := ex_t2 0 (Some 123456789%Z);
            e2_sats := ex_sat2 "G01" 11000 false ::
                       map (fun i => ex_sat2 (String "G" (digits_fixed 2 i)) (i * 1000) true) [2;3;4;5;6;7;8;9;10;11;12;13]%Z |};
         {| e2_t := ex_t2 300002000 None; e2_sats := [ex_sat2 "R 5" 500 true] |} ] |}.
Lemma ex_file2_ok : file2_ok ex_file2.
Proof.
  unfold file2_ok, ex_file2. cbn [f2_marker f2_types f2_first f2_epochs].
  split; [reflexivity|]. split; [vm_compute; lia|]. split; [discriminate|]. split; [repeat constructor; cbn; intuition discriminate|].
  split; [repeat constructor|]. split; [unfold fits_int; vm_compute; lia|].
  split; [repeat split; cbn; try lia; try (unfold fits_int, fits_F; vm_compute; lia); exact I|].
  split; [cbn; lia|]. split; [unfold fits_int; vm_compute; lia|]. split; [unfold fits_F; vm_compute; lia|].
  repeat constructor; cbn [e2_t e2_sats ex_t2 ep_y ep_mo ep_d ep_h ep_mi ep_s7 ep_clk]; try lia; try reflexivity;
    try (unfold fits_int, fits_F; vm_compute; lia); try exact I; try discriminate.
  all: try (do 3 eexists; split; [reflexivity|]; vm_compute; repeat split; try lia; auto; fail).
  all: try (vm_compute; repeat constructor; try discriminate; try lia; fail).
Qed.
Example ex_rows2 : List.length (file_rows2 None ex_file2) = 14 /\ List.length (file_rows2 (Some (30 # 1)) ex_file2) = 13 /\
  nth 1 (render_sat_v2 (ex_sat2 "G01" 11000 false)) "x" = "".
Proof. vm_compute. repeat split; reflexivity. Qed.

(* the example files satisfy the text hypotheses: no line contains a newline character, the last line is not empty *)
Example ex_texts : Forall no_nl (render_file3 ex_file3) /\ last (render_file3 ex_file3) "x" <> "" /\
                   Forall no_nl (render_file2 ex_file2) /\ last (render_file2 ex_file2) "x" <> "".
Proof.
  assert (B : forall ls, forallb (all_by (fun c => negb (is_nl c))) ls = true -> Forall no_nl ls)
    by (intros ls H; apply Forall_forall; intros l Hl; exact (proj1 (forallb_forall _ _) H l Hl)).
  repeat split; try (apply B; vm_compute; reflexivity); vm_compute; discriminate.
Qed.
