(* C19 - Configuration lookup follows profile priority and fallback; text form reads back.
   Only statements, each closed by `exact <lemma>` and followed by Print Assumptions.
   (harness/core.py reads the Print Assumptions output in this order.)

   `run all_off ops (empty_config name)` is the configuration after an ARBITRARY list of operations
   (update, update_from_dict, update_from_options, update_from_file, profiles = ..., master_section = ...,
   fallback_config = ..., update_vars) applied to Configuration(name), in the specification model. *)
From Coq Require Import ZArith List Bool String Ascii Lia.
From Verif Require Import Gen.C19_BoolStates Model.C19_Config Proofs.C19_Config Proofs.C19_Text Proofs.C19_Replace Proofs.C19_Options.
Import ListNotations.
Open Scope string_scope.

(* after every operation sequence the flattened view is the one derived from the raw per-profile data and the
   current profile list, and looking a (section, key) up in it gives the entry of the FIRST listed profile that
   defines it (the profile-less data being listed last, see profiles_end_profileless) *)
Theorem view_is_flattened : forall ops name,
  let c := run all_off ops (empty_config name) in
  c_view c = flatten (c_profiles c) (c_raw c) /\
  forall sn key, lookup2 (c_view c) sn key = first_def (c_profiles c) (c_raw c) sn key.
Proof. exact view_flattened. Qed.
Print Assumptions view_is_flattened.

(* get returns the value of the first listed profile that defines (section, key), whatever fallback / default *)
Theorem lookup_priority : forall ops name sn key d e,
  let c := run all_off ops (empty_config name) in
  first_def (c_profiles c) (c_raw c) sn key = Some e ->
  get all_off c key None (Some sn) d = Ok e.
Proof. exact lookup_first. Qed.
Print Assumptions lookup_priority.

(* ... otherwise the fallback configuration's answer, otherwise the default, otherwise one of the two documented
   errors (MissingSectionError / MissingEntryError) *)
Theorem fallback_then_default : forall ops name sn key d,
  let c := run all_off ops (empty_config name) in
  first_def (c_profiles c) (c_raw c) sn key = None ->
  exists orig, (orig = ErrSection \/ orig = ErrEntry) /\
  get all_off c key None (Some sn) d =
  match c_fallback c with
  | Some f => match get all_off f key None (Some sn) None with
              | Ok e => Ok e
              | Err _ => match d with Some dv => Ok (mk_entry key dv "default value") | None => Err orig end
              end
  | None => match d with Some dv => Ok (mk_entry key dv "default value") | None => Err orig end
  end.
Proof. exact fallback_default. Qed.
Print Assumptions fallback_then_default.

(* an explicit override always wins (any configuration, any deviation switches) *)
Theorem override_wins : forall q c key v section d,
  get q c key (Some v) section d = Ok (mk_entry key v "method call").
Proof. exact override. Qed.
Print Assumptions override_wins.

(* no section named: the master section is used *)
Theorem master_default : forall ops name m key d,
  let c := run all_off ops (empty_config name) in
  c_master c = Some m ->
  (forall e, first_def (c_profiles c) (c_raw c) m key = Some e -> get all_off c key None None d = Ok e) /\
  (sget m (c_view c) <> None -> c_fallback c = None ->
   get all_off c key None None d = get all_off c key None (Some m) d).
Proof.
  intros ops name m key d c M. split.
  - intros e H. exact (master_first ops name m key d e M H).
  - intros S F. exact (master_no_fallback all_off c key m d M S F).
Qed.
Print Assumptions master_default.

(* changing the profile list re-derives the view from the raw per-profile data: whatever happened before, and
   whatever non-profile operations follow, lookups go by the NEW list only (no residue of the old order) *)
Theorem reprioritise : forall ops ps ops' name,
  forallb (fun o => negb (is_profiles_op o)) ops' = true ->
  let c := run all_off (ops ++ OProfiles ps :: ops') (empty_config name) in
  c_profiles c = norm_profiles ps /\
  c_view c = flatten (norm_profiles ps) (c_raw c) /\
  forall sn key, lookup2 (c_view c) sn key = first_def (norm_profiles ps) (c_raw c) sn key.
Proof. exact reprioritised. Qed.
Print Assumptions reprioritise.

(* the profile list always ends in the profile-less `None` *)
Theorem profiles_end_profileless : forall ops name,
  last (c_profiles (run all_off ops (empty_config name))) (Some EmptyString) = None.
Proof. exact profiles_end_none_run. Qed.
Print Assumptions profiles_end_profileless.

(* list / tuple / as_list / dict / as_dict are consistent with the stored text: the regular-expression split equals
   replace+split, every item is non-empty and free of commas and blanks, the dictionary forms agree *)
Theorem list_tuple_dict_consistent : forall v,
  val_as_list v = val_list v /\
  Forall (fun x => nonempty x = true /\ sall (fun a => negb (is_sep a)) x = true) (val_list v) /\
  (forall d, val_as_dict v = Ok d -> d = val_dict v) /\
  (forallb (has_char colon) (val_list v) = true -> val_as_dict v = Ok (val_dict v)).
Proof.
  intros v. split; [exact (as_list_is_list v)|]. split; [exact (list_items v)|].
  split; [exact (as_dict_consistent v)|exact (as_dict_defined v)].
Qed.
Print Assumptions list_tuple_dict_consistent.

(* int and float read the same text: whenever `int` succeeds, `float` succeeds with exactly that integer value
   (blanks, sign, underscores between digits included) *)
Theorem int_float_consistent : forall (v : string) (z : Z), val_int v = Ok z -> val_float v = Ok (FDec z 0%Z).
Proof. exact int_float_agree. Qed.
Print Assumptions int_float_consistent.

(* booleans: exactly the eight spellings, in any letter case (on the table regenerated from the source) *)
Theorem bool_eight_spellings : forall v,
  (forall b, val_bool v = Ok b <->
             In (lower v, b) [("0", false); ("1", true); ("false", false); ("no", false);
                              ("off", false); ("on", true); ("true", true); ("yes", true)]) /\
  ((forall b, ~ In (lower v, b) eight) -> val_bool v = Err ErrValue).
Proof. intros v. split; [intros b; exact (bool_spec v b)|exact (bool_other v)]. Qed.
Print Assumptions bool_eight_spellings.

(* variable replacement substitutes only known variables: a text none of whose {name} / {name:fmt} references
   is a known variable comes back unchanged (in particular a text without references) *)
Theorem replace_only_known : forall vars s,
  (forall m, In m (matches s) -> sget (m_var m) vars = None) ->
  py_replace all_off vars None s = Ok s.
Proof. intros vars s. exact (replace_unknown_kept 11 vars s). Qed.
Print Assumptions replace_only_known.

(* MIXED TEXTS.  A text is described as a list of segments: literal text without braces (`Lit`) and references {name} /
   {name:spec} (`Ref`; name = word characters, spec without braces).  If the values of the known variables contain no
   braces and their format specifiers are valid, the sequential str.replace of the code equals the simultaneous
   substitution: every known reference becomes its (formatted) value, everything else - literal text and every
   unknown reference, with or without format specifier - is kept exactly. *)
Theorem replace_mixed_texts : forall vars segs,
  Forall seg_ok segs -> Forall (known_ok vars) segs ->
  py_replace all_off vars None (render segs) = Ok (render' vars segs).
Proof. exact replace_mixed. Qed.
Print Assumptions replace_mixed_texts.

(* update_from_options: how one command-line option is taken apart (names without ":" and "="; the value is anything
   after the first "="):  --section:key=value,  --name:section:key=value (only for this configuration's name),
   --key=value (master section, MissingSectionError without one); everything else is ignored.
   (The order of application - the last option for a key wins - is the general update semantics of `run`.) *)
Theorem option_forms :
  (forall c sec key val p src, sec <> EmptyString -> plain sec -> plain key ->
     option_upd c ("--" ++ sec ++ ":" ++ key ++ "=" ++ val) p src =
     Some (Ok (Upd sec key val p (src ++ " (" ++ ("--" ++ sec ++ ":" ++ key ++ "=" ++ val) ++ ")") []))) /\
  (forall c name sec key val p src, sec <> EmptyString -> name <> EmptyString -> plain name -> plain sec -> plain key ->
     option_upd c ("--" ++ name ++ ":" ++ sec ++ ":" ++ key ++ "=" ++ val) p src =
     if String.eqb name (c_name c)
     then Some (Ok (Upd sec key val p (src ++ " (" ++ ("--" ++ name ++ ":" ++ sec ++ ":" ++ key ++ "=" ++ val) ++ ")") []))
     else None) /\
  (forall c key val p src, plain key ->
     option_upd c ("--" ++ key ++ "=" ++ val) p src =
     match master_section c with
     | Ok (m, _) => Some (Ok (Upd m key val p (src ++ " (" ++ ("--" ++ key ++ "=" ++ val) ++ ")") []))
     | Err e => Some (Err e)
     end) /\
  (forall c opt p src, prefix_b "--" opt = false \/ has_char eqsign opt = false -> option_upd c opt p src = None).
Proof.
  split; [exact option_section_key|]. split; [exact option_named|]. split; [exact option_master|exact option_ignored].
Qed.
Print Assumptions option_forms.

(* greedy wrapping: a text `P ++ " w1 w2 ... wn"` whose part P fits on the first line is wrapped by the model of
   textwrap.fill (break_long_words=False, break_on_hyphens=False, hanging indent 33) into a first line P followed by
   some of the words and lines of 33 blanks followed by a non-empty group of words; the groups are the words in order *)
Theorem wrap_partitions_words : forall w P ws,
  ends_nonblank P = true -> String.length P <= w -> Forall word_ok ws ->
  exists g0 groups, wlines w (P ++ tailtext ws) = (P ++ tailtext g0) :: map (line_of (key_width + 3)) groups /\
                    (g0 ++ List.concat groups)%list = ws /\ Forall (fun g => g <> []) groups.
Proof. exact wlines_words. Qed.
Print Assumptions wrap_partitions_words.

(* textwrap.fill (break_long_words=False, break_on_hyphens=False) leaves a line that fits unchanged: any text that
   does not end in a blank and is not longer than the width *)
Theorem fill_fits_unchanged : forall w h text,
  ends_nonblank text = true -> String.length text <= w -> fill w h text = text.
Proof. exact fill_fits. Qed.
Print Assumptions fill_fits_unchanged.

(* WHOLE FILE: write_to_file(width w) followed by update_from_file(case_sensitive = cs) of the written file gives the same
   sections, keys, values and metadata in the same order, for every configuration whose flattened view is in the
   sub-grammar `view_ok cs w`:
     - section names: non-empty, no "]", no line break, no "__", not starting with a blank; pairwise different;
     - sections non-empty, keys pairwise different; a key is non-empty, has no "=", ":" or line break, no trailing
       whitespace, does not start with "[", "#", ";" or whitespace, and is lower case unless case-sensitive;
     - a value (`val_cond`) either FITS: it is empty or has no leading/trailing whitespace and no line break, and the
       line `key<pad 30> = value` is not longer than the width (it may then contain anything else, also several
       blanks in a row); or it is WRAPPED: a non-empty sequence of words separated by single blanks (a word: non-empty,
       no whitespace, not starting with "#" or ";" - configparser drops a continuation line that starts with one
       of them) of any length, and only `key<pad 30> =` has to fit on the first line;
     - metadata: names pairwise different per entry, non-empty, no "=", no line break, no trailing whitespace, lower case
       unless case-sensitive; a metadata value is absent (line `key:meta`, which must fit) or a value as above for
       the key `key:meta` (that the option names key / key:meta of a section are then pairwise different is proved,
       not assumed).
   Outside: values that do not fit and contain two blanks in a row or other whitespace (textwrap drops the blanks
   at a line break), keys longer than the line, and words starting with "#" or ";" in a wrapped value.  The last
   exclusion is exactly the class of the open finding c19_comment_continuation_lost: for such values the specification
   (whose reader keeps continuation lines) still reads the value back, the implementation does not
   (c19_comment_continuation_refuted); the theorem is stated for the class on which both agree. *)
Theorem text_roundtrip : forall (cs : bool) (w : nat) (c : config),
  view_ok cs w (c_view c) ->
  answer all_off c (QReadBack w cs) = AContent (Ok (view_content (c_view c))).
Proof. exact readback_ok. Qed.
Print Assumptions text_roundtrip.

(* ---- the four deviations of the current source are real: computed witnesses *)

(* a failing update_from_dict leaves the view stale: lookup gives 'old' although the profile-less data says 'new' *)
Theorem c19_stale_refuted :
  let c := run q_only_stale w_stale_ops (empty_config "cfg") in
  c_view c <> flatten (c_profiles c) (c_raw c) /\
  option_map e_val (lookup2 (c_view c) "sa" "k1") = Some "old" /\
  option_map e_val (first_def (c_profiles c) (c_raw c) "sa" "k1") = Some "new".
Proof. exact stale_witness. Qed.
Print Assumptions c19_stale_refuted.

(* the fallback lacks the section: MissingSectionError instead of the default *)
Theorem c19_fbsect_refuted :
  get q_only_fbsect w_fbsect_cfg "k1" None (Some "sa") (Some "dflt") = Err ErrSection /\
  get all_off w_fbsect_cfg "k1" None (Some "sa") (Some "dflt") = Ok (mk_entry "k1" "dflt" "default value").
Proof. exact fbsect_witness. Qed.
Print Assumptions c19_fbsect_refuted.

(* get("k2", section="k1") returns the master section's entry k1 *)
Theorem c19_mkey_refuted :
  res_map e_key (get q_only_mkey w_mkey_cfg "k2" None (Some "k1") (Some "dflt")) = Ok "k1" /\
  get all_off w_mkey_cfg "k2" None (Some "k1") (Some "dflt") = Ok (mk_entry "k2" "dflt" "default value").
Proof. exact mkey_witness. Qed.
Print Assumptions c19_mkey_refuted.

(* an unknown variable with a format specifier is not kept *)
Theorem c19_fmt_refuted :
  py_replace q_only_fmt [] None "{x:>8}" = Ok "  {x:>8}" /\
  py_replace q_only_fmt [] None "{x:%Y}" = Err ErrValue /\
  py_replace all_off [] None "{x:>8}" = Ok "{x:>8}".
Proof. exact fmt_witness. Qed.
Print Assumptions c19_fmt_refuted.

(* a wrapped metadata value (help text) comes back with a line break in it *)
Theorem c19_metanl_refuted :
  answer all_off w_meta_cfg (QReadBack 60 true) = AContent (Ok (view_content (c_view w_meta_cfg))) /\
  answer q_only_metanl w_meta_cfg (QReadBack 60 true) <> AContent (Ok (view_content (c_view w_meta_cfg))).
Proof. exact metanl_witness. Qed.
Print Assumptions c19_metanl_refuted.

(* clear() followed by an update brings the cleared entries back *)
Theorem c19_clear_refuted :
  option_map e_val (lookup2 (c_view (run q_only_clear w_clear_ops (empty_config "cfg"))) "sa" "k1") = Some "v" /\
  lookup2 (c_view (run all_off w_clear_ops (empty_config "cfg"))) "sa" "k1" = None.
Proof. exact clear_witness. Qed.
Print Assumptions c19_clear_refuted.

(* variables are part of the configuration's state: replacement uses the variables known NOW, for every entry
   regardless of when it was created; clear_vars forgets all of them *)
Theorem replace_uses_current_vars :
  (forall q c c' sn key d extra,
     lookup2 (c_view c) sn key = lookup2 (c_view c') sn key -> c_vars c = c_vars c' ->
     answer q c (QReplaced sn key d extra) = answer q c' (QReplaced sn key d extra)) /\
  (forall q c, c_vars (fst (apply_op q c OClearVars)) = []).
Proof. split; [exact replaced_uses_current_vars|exact clear_vars_forgets]. Qed.
Print Assumptions replace_uses_current_vars.

(* a value whose first word does not fit on the first line comes back with a leading blank *)
Theorem c19_lead_refuted :
  answer all_off w_lead_cfg (QReadBack 60 true) = AContent (Ok (view_content (c_view w_lead_cfg))) /\
  answer q_only_lead w_lead_cfg (QReadBack 60 true) =
  AContent (Ok [("sa", [("k1", " a-word-that-is-longer-than-the-rest-of-the-line", [])])]).
Proof. exact lead_witness. Qed.
Print Assumptions c19_lead_refuted.

(* ConfigParser drops a continuation line that starts with # or ; : the wrapped value loses it.  The specification
   reader keeps continuation lines; this is the OPEN finding c19_comment_continuation_lost. *)
Theorem c19_comment_continuation_refuted :
  answer all_off w_comment_cfg (QReadBack 60 true) = AContent (Ok (view_content (c_view w_comment_cfg))) /\
  answer q_only_comment w_comment_cfg (QReadBack 60 true) = AContent (Ok [("sa", [("k1", "aaaaaaaaaaaaaaaaaaaaaaaa", [])])]).
Proof. exact comment_witness. Qed.
Print Assumptions c19_comment_continuation_refuted.

(* ---- non-vacuity *)

(* two profiles define sa.k1; the first listed one wins; after re-prioritising the other one wins *)
Example priority_example :
  let ops := [OUpdate (Upd "sa" "k1" "base" None "s" []) true;
              OUpdate (Upd "sa" "k1" "one" (Some "p1") "s" []) true;
              OUpdate (Upd "sa" "k1" "two" (Some "p2") "s" []) true] in
  res_map e_val (get all_off (run all_off (ops ++ [OProfiles (Some [Some "p1"; Some "p2"])]) (empty_config "c")) "k1" None (Some "sa") None) = Ok "one" /\
  res_map e_val (get all_off (run all_off (ops ++ [OProfiles (Some [Some "p1"; Some "p2"]); OProfiles (Some [Some "p2"; Some "p1"])]) (empty_config "c")) "k1" None (Some "sa") None) = Ok "two" /\
  res_map e_val (get all_off (run all_off (ops ++ [OProfiles (Some [Some "p3"])]) (empty_config "c")) "k1" None (Some "sa") None) = Ok "base".
Proof. vm_compute. repeat split; reflexivity. Qed.

Example key_value_ok_example : key_ok "file_name" /\ value_ok "/data/{yyyy}/a, b".
Proof.
  split.
  - split; [repeat split; discriminate|split; reflexivity].
  - repeat split; discriminate || reflexivity.
Qed.

(* a whole configuration written and read back (model of write_to_file + update_from_file) *)
Example roundtrip_example :
  let c := run all_off [OUpdate (Upd "sa" "k1" "a, b  c" None "s" [("type", Some "list"); ("help", None)]) true;
                        OUpdate (Upd "sb" "k2" "{yyyy}/x=1" (Some "p1") "s" []) true;
                        OUpdate (Upd "sa" "k3" "" None "s" []) true;
                        OProfiles (Some [Some "p1"])] (empty_config "c") in
  answer all_off c (QReadBack 200 false) = AContent (Ok (view_content (c_view c))).
Proof. vm_compute. reflexivity. Qed.

Example view_ok_example :
  view_ok false 200 (c_view (run all_off [OUpdate (Upd "sa" "k1" "a, b  c = d" None "s" []) true;
                                          OUpdate (Upd "sb" "file_name" "/data/{yyyy}/x-y.txt" (Some "p1") "s" []) true;
                                          OUpdate (Upd "sa" "k2" "" None "s" []) true;
                                          OProfiles (Some [Some "p1"])] (empty_config "c"))).
Proof.
  vm_compute c_view. split.
  - repeat constructor; simpl; intuition discriminate.
  - repeat match goal with
           | |- wval_ok _ => first [left; reflexivity|right]
           | |- val_cond _ _ _ => left
           | |- _ => constructor
           end; simpl; try (intuition discriminate); try discriminate; try reflexivity; try lia.
Qed.

Example view_ok_meta_example :
  view_ok true 200 (c_view (run all_off [OUpdate (Upd "sa" "k1" "a, b" None "s" [("type", Some "List[str]"); ("help", None)]) true;
                                         OUpdate (Upd "sa" "k2" "42" None "s" [("Unit", Some "m/s = meter per second")]) true]
                                        (empty_config "c"))).
Proof.
  vm_compute c_view. split.
  - repeat constructor; simpl; intuition discriminate.
  - repeat match goal with
           | |- wval_ok _ => first [left; reflexivity|right]
           | |- val_cond _ _ _ => left
           | |- _ => constructor
           end; simpl; try (intuition discriminate); try discriminate; try reflexivity; try lia.
Qed.

(* a value of 12 words at width 50: wrapped over several lines *)
Example view_ok_wrapped_example :
  view_ok true 50 (c_view (run all_off [OUpdate (Upd "sa" "stations"
                                                   "ny-alesund-01 ny-alesund-02 ny-alesund-03 ny-alesund-04 zimm 2020-01-01/2020-12-31"
                                                   None "s" [("help", Some "the stations that are used in the analysis of this session")]) true]
                                       (empty_config "c"))).
Proof.
  vm_compute c_view. split; [repeat constructor; simpl; intuition discriminate|].
  constructor; [|constructor]. split; [repeat split; discriminate || reflexivity|].
  split; [discriminate|]. split; [repeat constructor; simpl; intuition discriminate|].
  constructor; [|constructor]. cbn [fst snd e_key e_val e_meta].
  split; [reflexivity|]. split; [repeat split; discriminate || reflexivity|]. split; [reflexivity|]. split; [reflexivity|].
  split; [reflexivity|]. split.
  - right. exists ["ny-alesund-01"; "ny-alesund-02"; "ny-alesund-03"; "ny-alesund-04"; "zimm"; "2020-01-01/2020-12-31"].
    split; [discriminate|]. split; [repeat constructor; discriminate || reflexivity|]. split; [reflexivity|simpl; lia].
  - split; [repeat constructor; simpl; intuition discriminate|]. constructor; [|constructor].
    split; [repeat split; discriminate || reflexivity|]. split; [reflexivity|]. cbn [fst snd].
    right. exists ["the"; "stations"; "that"; "are"; "used"; "in"; "the"; "analysis"; "of"; "this"; "session"].
    split; [discriminate|]. split; [repeat constructor; discriminate || reflexivity|]. split; [reflexivity|simpl; lia].
Qed.

Example roundtrip_wrapped_example :
  let c := run all_off [OUpdate (Upd "sa" "stations"
                                     "ny-alesund-01 ny-alesund-02 ny-alesund-03 ny-alesund-04 zimm 2020-01-01/2020-12-31"
                                     None "s" [("help", Some "the stations that are used in the analysis of this session")]) true]
                       (empty_config "c") in
  as_str 50 true c =
  "[sa]
stations                       = ny-alesund-01
                                 ny-alesund-02
                                 ny-alesund-03
                                 ny-alesund-04
                                 zimm
                                 2020-01-01/2020-12-31
stations:help                  = the stations that
                                 are used in the
                                 analysis of this
                                 session
".
Proof. vm_compute. reflexivity. Qed.

Example replace_mixed_example :
  let segs := [Lit "/data/"; Ref "yyyy" None; Lit "/"; Ref "station" (Some ">6"); Lit "-"; Ref "unknown" (Some "%Y");
               Ref "yyyy" None; Lit ".txt"] in
  let vars := [("yyyy", "2021"); ("station", "zimm")] in
  Forall seg_ok segs /\ Forall (known_ok vars) segs /\
  render segs = "/data/{yyyy}/{station:>6}-{unknown:%Y}{yyyy}.txt" /\
  render' vars segs = "/data/2021/  zimm-{unknown:%Y}2021.txt".
Proof.
  split; [repeat constructor; discriminate|]. split; [|split; reflexivity].
  repeat constructor;
    try (match goal with H : sget _ _ = Some _ |- _ => vm_compute in H; inversion H; subst end;
         first [reflexivity|eexists; reflexivity]).
Qed.

Example replace_example :
  py_replace all_off [("yyyy", "2021"); ("root", "/mnt/{yyyy}")] None "{root}/{doy}/{yyyy:>6}" = Ok "/mnt/2021/{doy}/  2021".
Proof. vm_compute. reflexivity. Qed.
