(* C16 - Parsing is a pure function of file and arguments; every listed plug-in resolves.
   Only statements, each closed by `exact <lemma>` and followed by Print Assumptions.
   (harness/core.py reads the Print Assumptions output in this order.) *)
From Coq Require Import ZArith List Bool String.
From Verif Require Import Model.C16_Purity Proofs.C16_Purity Gen.C16_Plugins Proofs.C16_Plugins Model.C16_Resolve Proofs.C16_Resolve Model.C16_Write Proofs.C16_Write.
Import ListNotations.
Open Scope Z_scope.

Section Statements.
  Variables parser file content args result token : Type.
  Variable run : parser -> content -> args -> list token -> option result -> result.
  Variable emits : parser -> content -> args -> list token -> list token.
  Variable mutate : result -> result.
  Notation trace := (trace parser file content args result token run emits mutate).
  Notation exec := (exec parser file content args result token run emits mutate).
  Notation parse_fn := (parse_fn parser content args result token run).
  Notation empty_world := (empty_world parser file content args result token).

  (* For EVERY operation list `ops` (constructs, parses and drops of this and of other instances, caller mutations
     of earlier results) that leaves the name i bound to (p, f, a): the next Parse of i observes exactly
     parse_fn p (content of f) a - the parse of a fresh interpreter - and the file as it is. *)
  Theorem parse_pure : forall fs0 ops i p f a,
    bound parser file args ops i None = Some (p, f, a) ->
    trace all_off (empty_world fs0) (ops ++ [Parse i])
    = trace all_off (empty_world fs0) ops ++ [mkObs i (parse_fn p (fs0 f) a) (fs0 f) (fs0 f)].
  Proof. exact (parse_pure_last parser file content args result token run emits mutate). Qed.

  (* the same for the whole trace: it is the function spec_trace of the bindings alone *)
  Theorem parse_pure_trace : forall fs0 ops,
    trace all_off (empty_world fs0) ops = spec_trace parser file content args result token run fs0 ops [].
  Proof. exact (trace_spec parser file content args result token run emits mutate). Qed.

  (* two arbitrary histories that bind the name alike end in the same observation *)
  Theorem parse_history_independent : forall fs0 ops1 ops2 i b,
    bound parser file args ops1 i None = Some b -> bound parser file args ops2 i None = Some b ->
    last (trace all_off (empty_world fs0) (ops1 ++ [Parse i]))
         (mkObs i (parse_fn (fst (fst b)) (fs0 (snd (fst b))) (snd b)) (fs0 (snd (fst b))) (fs0 (snd (fst b))))
    = last (trace all_off (empty_world fs0) (ops2 ++ [Parse i]))
         (mkObs i (parse_fn (fst (fst b)) (fs0 (snd (fst b))) (snd b)) (fs0 (snd (fst b))) (fs0 (snd (fst b)))).
  Proof. exact (parse_history_independent parser file content args result token run emits mutate). Qed.

  (* no operation list changes a file - under every combination of quirks *)
  Theorem file_untouched : forall q ops w,
    fs parser file content args result token (fst (exec q w ops)) = fs parser file content args result token w.
  Proof. exact (fs_exec parser file content args result token run emits mutate). Qed.

  Theorem observations_report_unchanged_file : forall q ops w x, In x (trace q w ops) -> o_before x = o_after x.
  Proof. exact (obs_unchanged parser file content args result token run emits mutate). Qed.

  (* what a name is bound to depends on the Construct / Drop operations on that name only (every quirk) *)
  Theorem binding_is_local : forall q ops w i,
    option_map (binding_of parser file args result) (lookup i (insts parser file content args result token (fst (exec q w ops))))
    = bound parser file args ops i (option_map (binding_of parser file args result) (lookup i (insts parser file content args result token w))).
  Proof. exact (bound_exec parser file content args result token run emits mutate). Qed.

  (* with the shared cell ON, a parse that does not read the cell is still pure: why well-formed files hide the quirk *)
  Theorem cache_harmless_if_self_contained : forall al fs0 ops i p f a,
    bound parser file args ops i None = Some (p, f, a) ->
    self_contained parser content args result token run p (fs0 f) a ->
    trace (mkQ true false al) (empty_world fs0) (ops ++ [Parse i])
    = trace (mkQ true false al) (empty_world fs0) ops ++ [mkObs i (parse_fn p (fs0 f) a) (fs0 f) (fs0 f)].
  Proof. exact (cache_harmless_if_self_contained parser file content args result token run emits mutate). Qed.
End Statements.
Print Assumptions parse_pure.
Print Assumptions parse_pure_trace.
Print Assumptions parse_history_independent.
Print Assumptions file_untouched.
Print Assumptions observations_report_unchanged_file.
Print Assumptions binding_is_local.
Print Assumptions cache_harmless_if_self_contained.

(* the concrete cell: an OBS TYPES header whose first line names its system never reads the shared cache *)
Theorem obs_types_header_self_contained : forall s ts rest cache,
  hdr_run ((Some s, ts) :: rest) cache = hdr_run ((Some s, ts) :: rest) [].
Proof. exact hdr_self_contained. Qed.
Print Assumptions obs_types_header_self_contained.

(* quirk c16_parser_cache_shared: G-file then a file starting with a continuation line - the specification raises
   IndexError for the second (as a fresh interpreter does), the shared cache silently files its types under 'G' *)
Theorem c16_parser_cache_refuted :
  hdr_history all_off [[(Some 71, [1; 2])]; [(None, [3])]] = [HOk [(71, [1; 2])]; HIndexError] /\
  hdr_history (mkQ true false false) [[(Some 71, [1; 2])]; [(None, [3])]] = [HOk [(71, [1; 2])]; HOk [(71, [3])]] /\
  hdr_history (mkQ true false false) [[(None, [3])]] = [HIndexError].
Proof. exact cache_refuted. Qed.
Print Assumptions c16_parser_cache_refuted.

(* quirks c16_reparse_accumulates / result aliasing: visible on a second Parse of the SAME instance, never on another *)
Theorem c16_reparse_refuted :
  acc_trace all_off [Construct 0 tt 5 tt; Parse 0; Parse 0] = [5; 5] /\
  acc_trace (mkQ false true false) [Construct 0 tt 5 tt; Parse 0; Parse 0] = [5; 10] /\
  acc_trace all_off [Construct 0 tt 5 tt; Parse 0; Mutate 0; Parse 0] = [5; 5] /\
  acc_trace (mkQ false true true) [Construct 0 tt 5 tt; Parse 0; Mutate 0; Parse 0] = [5; 1010] /\
  acc_trace (mkQ false true true) [Construct 0 tt 5 tt; Parse 0; Mutate 0; Construct 1 tt 5 tt; Parse 1] = [5; 5].
Proof. exact reparse_refuted. Qed.
Print Assumptions c16_reparse_refuted.

(* the correspondence verdict: all-zero means the observations ARE the specification's prediction *)
Theorem check_history_zero_means_predicted : forall pred obsd flags,
  Forall (fun v => v = 0) (verdicts pred obsd flags) -> List.length flags = List.length pred -> obsd = pred.
Proof. exact verdicts_zero. Qed.
Print Assumptions check_history_zero_means_predicted.

(* every name listed by parsers.names() / writers.names() / fieldtypes.names() on the current tree: module file
   exists, loads, registered object of the advertised kind (exhaustive over the regenerated table) *)
Theorem plugins_resolve : forall r, In r (parser_rows ++ writer_rows ++ fieldtype_rows) -> row_resolves r = true.
Proof. exact resolve_all. Qed.
Print Assumptions plugins_resolve.

(* ... and parsers.parse_file's arguments bind to it (except the open finding named in known_uncallable) *)
Theorem plugins_callable : forall r, In r parser_rows -> row_callable_or_known r = true.
Proof. exact callable_all. Qed.
Print Assumptions plugins_callable.

Theorem plugins_listing_complete :
  (parser_listing_ok && writer_listing_ok && fieldtype_listing_ok = true) /\
  (negb (Nat.eqb (List.length parser_rows) 0) && negb (Nat.eqb (List.length writer_rows) 0)
   && negb (Nat.eqb (List.length fieldtype_rows) 0) = true) /\
  (no_dup_names parser_rows && no_dup_names writer_rows && no_dup_names fieldtype_rows = true).
Proof. exact listing_complete. Qed.
Print Assumptions plugins_listing_complete.

(* plug-in resolution: in EVERY history of listings (names), look-ups (exists / get / load, also failing ones in the
   "wrong" package) and parse_file calls over all packages, each operation answers as a function of the operation
   alone - has(package, name) - for the code as it is (no negative cache) and for a negative cache keyed on
   (package, name); `has`, the directory contents and the parse digests are arbitrary *)
Theorem resolution_pure : forall has files jobpn dig m ops,
  m = NoNeg \/ m = NegByPair ->
  rexec has files jobpn dig m (mkR [] []) ops = map (spec_obs has files jobpn dig) ops.
Proof. intros. apply rexec_pure; [assumption|apply rinv_empty]. Qed.
Print Assumptions resolution_pure.

(* quirk c16_negative_cache_by_name: a look-up that fails in package 1 makes module 7 of package 0 unloadable,
   missing from names(0) and unparsable - unless it was loaded before *)
Theorem c16_negative_cache_refuted :
  rexec wit_has (fun _ => [7]) (fun _ => (0, 7)) (fun _ => 99) NegByName (mkR [] []) [RExists 1 7; RGet 0 7; RNames 0; RParse 0]
    = [OBool false; OBool false; OList []; OBool false] /\
  rexec wit_has (fun _ => [7]) (fun _ => (0, 7)) (fun _ => 99) NoNeg (mkR [] []) [RExists 1 7; RGet 0 7; RNames 0; RParse 0]
    = [OBool false; OBool true; OList [7]; ODig 99] /\
  rexec wit_has (fun _ => [7]) (fun _ => (0, 7)) (fun _ => 99) NegByName (mkR [] []) [RGet 0 7; RExists 1 7; RGet 0 7]
    = [OBool true; OBool false; OBool true].
Proof. exact negcache_refuted. Qed.
Print Assumptions c16_negative_cache_refuted.

(* the file at a path is replaced between parses (operation Write, done by the environment): for EVERY list of
   Construct / Parse / Mutate / Drop / Write the specification's trace is wspec_trace - every Parse observes parse_fn of the
   content that is at the path at that moment, whatever was there (and was parsed) before *)
Theorem write_then_parse_pure : forall parser file content args result token
    (run : parser -> content -> args -> list token -> option result -> result)
    (emits : parser -> content -> args -> list token -> list token) (mutate : result -> result)
    (file_eqb : file -> file -> bool) fs0 ops,
  wtrace parser file content args result token run emits mutate file_eqb all_off
         (empty_world parser file content args result token fs0) ops
  = wspec_trace parser file content args result token run file_eqb fs0 ops [].
Proof. exact wtrace_spec. Qed.
Print Assumptions write_then_parse_pure.

(* without a Write the extended machine is the machine of parse_pure (every quirk) *)
Theorem write_extension_conservative : forall parser file content args result token
    (run : parser -> content -> args -> list token -> option result -> result)
    (emits : parser -> content -> args -> list token -> list token) (mutate : result -> result)
    (file_eqb : file -> file -> bool) q ops w,
  wexec parser file content args result token run emits mutate file_eqb q w (map (fun o => WOp o) ops)
  = exec parser file content args result token run emits mutate q w ops.
Proof. exact wexec_plain. Qed.
Print Assumptions write_extension_conservative.

(* non-vacuity: the hypotheses of parse_pure are satisfiable and the verdict codes are all reachable *)
Example bound_example :
  bound unit Z unit [Construct 0 tt 5 tt; Parse 0; Mutate 0; Construct 1 tt 6 tt; Drop 1] 0 None = Some (tt, 5, tt).
Proof. reflexivity. Qed.
Example verdict_codes_reachable :
  check_history ([((1, 10, 0), 77)], [(5, 10)], [Construct 0 1 5 0; Parse 0; Construct 1 1 5 0; Parse 1],
                 [(0, 77, 10, 10); (1, 78, 10, 10)]) = 1 /\
  check_history ([((1, 10, 0), 77)], [(5, 10)], [Construct 0 1 5 0; Parse 0; Parse 0],
                 [(0, 77, 10, 10); (0, 78, 10, 10)]) = 3 /\
  check_hdr ([[(Some 71, [1; 2])]; [(None, [3])]], [HOk [(71, [1; 2])]; HOk [(71, [3])]]) = 2.
Proof. repeat split; vm_compute; reflexivity. Qed.
Example write_example :
  map o_result (wtrace unit Z Z unit Z Z (fun _ c _ _ _ => c * 2) (fun _ _ _ v => v) (fun r => r) Z.eqb all_off
                       (empty_world unit Z Z unit Z Z (fun _ => 20)) wit_ops) = [40; 60].
Proof. exact write_witness. Qed.
