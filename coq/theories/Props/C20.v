(* C20 - Numeric helpers satisfy their defining identities.
   Only statements, each closed by `exact <lemma>` and followed by Print Assumptions
   (harness/core.py reads the Print Assumptions output in this order). *)
From Coq Require Import ZArith QArith Qabs Qround Bool List String Reals Permutation.
From Verif Require Import Lib.Dyadic
  Model.C20_Units Proofs.C20_Units Gen.C20_UnitTxt Proofs.C20_UnitTxt
  Model.C20_Dms Proofs.C20_Dms
  Model.C20_Lagrange Proofs.C20_Lagrange Model.C20_Linear Proofs.C20_Linear
  Model.C20_Dop Proofs.C20_Dop
  Model.C20_Plate Proofs.C20_Plate.
Import ListNotations.

(* ============================================================ units *)
(* a2b * b2a = 1 for all units of the table (48 units; val u = uq u * PI ^ uk u, factor a b = val a / val b) *)
Theorem unit_reciprocal : forall a b, In a units -> In b units -> (factor a b * factor b a = 1)%R.
Proof. exact unit_reciprocal_l. Qed.
Print Assumptions unit_reciprocal.

(* a2b * b2c = a2c for all triples *)
Theorem unit_transitive : forall a b c, In a units -> In b units -> In c units ->
  (factor a b * factor b c = factor a c)%R.
Proof. exact unit_transitive_l. Qed.
Print Assumptions unit_transitive.

(* the executable form q * pi^k used by the correspondence is the factor *)
Theorem unit_factor_symbolic : forall a b, In a units -> In b units -> interp (factor_sym a b) = factor a b.
Proof. exact factor_sym_correct_l. Qed.
Print Assumptions unit_factor_symbolic.

(* verdict 0 of the correspondence check means: the double is within 4 of its ulps of an enclosure of the factor *)
Theorem unit_check_sound : forall a b d, check_factor (a, b, d) = 0%Z ->
  exists ua ub v lo hi, In ua units /\ In ub units /\ uname ua = a /\ uname ub = b /\
    dy_toQ d = Some v /\ (Q2R lo <= factor ua ub <= Q2R hi)%R /\
    (Q2R lo - 4 * Q2R (ulpQ d) <= Q2R v <= Q2R hi + 4 * Q2R (ulpQ d))%R.
Proof. exact check_factor_sound_l. Qed.
Print Assumptions unit_check_sound.

(* every definition of midgard/math/unit.txt (regenerated) gives the table's value of the unit it defines *)
Theorem unit_txt_consistent : forall d, In d unit_txt -> txt_def_ok d = true.
Proof. exact unit_txt_consistent_in. Qed.
Print Assumptions unit_txt_consistent.

(* ============================================================ degrees, minutes, seconds *)
Theorem dms_roundtrip : forall x : Q, (from_dms false (to_dms x) == x)%Q.
Proof. exact dms_roundtrip_l. Qed.
Print Assumptions dms_roundtrip.

Theorem dms_components_in_range : forall x : Q, dms_wf (to_dms x).
Proof. exact to_dms_wf. Qed.
Print Assumptions dms_components_in_range.

(* negative angles below one degree: degree component (minus) zero, sign kept, value restored *)
Theorem dms_small_negative : forall x : Q, (-1 < x)%Q -> (x < 0)%Q ->
  dneg (to_dms x) = true /\ ddeg (to_dms x) = 0%Z /\ (from_dms false (to_dms x) == x)%Q.
Proof. exact to_dms_small_negative. Qed.
Print Assumptions dms_small_negative.

(* the decomposition is the only well-formed one: to_dms inverts from_dms *)
Theorem dms_unique : forall d, dms_wf d -> (dneg d = true -> ~ (from_dms false d == 0)%Q) ->
  let t := to_dms (from_dms false d) in
  dneg t = dneg d /\ ddeg t = ddeg d /\ dmin t = dmin d /\ (dsec t == dsec d)%Q.
Proof. exact to_dms_from_dms. Qed.
Print Assumptions dms_unique.

(* quirk sign_of_value (sign from the numeric value of the degree component) loses -0 deg 20' *)
Theorem dms_sign_of_value_refuted : ~ (from_dms true (to_dms (-1 # 3)) == (-1 # 3))%Q.
Proof. exact sign_of_value_refuted_l. Qed.
Print Assumptions dms_sign_of_value_refuted.

(* the radian API over R: rad_to_dms r decomposes |r| * 180 / PI, dms_to_rad multiplies by PI / 180 *)
Theorem dms_roundtrip_rad : forall r : R, dms_to_radR (rad_to_dmsR r) = r.
Proof. exact dms_roundtrip_rad_l. Qed.
Print Assumptions dms_roundtrip_rad.

Theorem dms_rad_components_in_range : forall r : R,
  (0 <= rdeg (rad_to_dmsR r))%Z /\ (0 <= rmin (rad_to_dmsR r) < 60)%Z /\ (0 <= rsec (rad_to_dmsR r) < 60)%R.
Proof. exact rad_to_dms_range. Qed.
Print Assumptions dms_rad_components_in_range.

Theorem dms_rad_small_negative : forall r : R, (- (PI / 180) < r)%R -> (r < 0)%R ->
  rneg (rad_to_dmsR r) = true /\ rdeg (rad_to_dmsR r) = 0%Z /\ dms_to_radR (rad_to_dmsR r) = r.
Proof. exact rad_to_dms_small_negative. Qed.
Print Assumptions dms_rad_small_negative.

(* ============================================================ Lagrange interpolation
   lagrange1 o w pts t / lagrange o ncols w pts t: the value at x_new = t of the interpolator built from the
   samples pts with window w, or None where the code raises ValueError (window < 3, window > n, abscissae
   not strictly increasing after the argsort, t out of bounds with bounds_error).  The hypothesis on
   `scaling o` says that the std used for rescaling is not zero. *)
(* the data are reproduced at the nodes - whatever the window, at the ends of the range too *)
Theorem lagrange_nodes : forall o w pts xk yk r,
  (forall m s, scaling o = Some (m, s) -> ~ (s == 0)%Q) ->
  In (xk, yk) pts -> lagrange1 o w pts xk = Some r -> (r == yk)%Q.
Proof. exact lagrange_nodes_l. Qed.
Print Assumptions lagrange_nodes.

(* linear in the data (same abscissae; defined / undefined together) *)
Theorem lagrange_linear_in_y : forall o w (l : list (Q * (Q * Q))) a b t,
  match lagrange1 o w (column fst l) t, lagrange1 o w (column snd l) t,
        lagrange1 o w (column (fun v => a * fst v + b * snd v)%Q l) t with
  | Some r1, Some r2, Some r3 => (r3 == a * r1 + b * r2)%Q
  | None, None, None => True
  | _, _, _ => False
  end.
Proof. exact lagrange_linear_l. Qed.
Print Assumptions lagrange_linear_in_y.

(* any reordering of the samples gives the same answer (unless the caller promises sorted input) *)
Theorem lagrange_perm_invariant : forall o n w pts pts' t,
  assume_sorted o = false -> Permutation pts pts' -> lagrange o n w pts t = lagrange o n w pts' t.
Proof. exact lagrange_nd_perm_l. Qed.
Print Assumptions lagrange_perm_invariant.

(* samples of a polynomial with at most `window` coefficients (degree < window) are interpolated exactly *)
Theorem lagrange_reproduces_poly : forall o w pts p t r,
  (forall m s, scaling o = Some (m, s) -> ~ (s == 0)%Q) ->
  (List.length p <= w)%nat -> (forall x y, In (x, y) pts -> (y == peval p x)%Q) ->
  lagrange1 o w pts t = Some r -> (r == peval p t)%Q.
Proof. exact lagrange_reproduces_poly_l. Qed.
Print Assumptions lagrange_reproduces_poly.

(* n-d data: column c of the result is the 1-d result for column c of the data *)
Theorem lagrange_ndim : forall o ncols w pts t c,
  (forall p, In p pts -> List.length (snd p) = ncols) -> (c < ncols)%nat ->
  match lagrange o ncols w pts t, lagrange1 o w (column (fun r => nth c r 0%Q) pts) t with
  | Some v, Some r => List.length v = ncols /\ (nth c v 0 == r)%Q
  | None, None => True
  | _, _ => False
  end.
Proof. exact lagrange_ndim_l. Qed.
Print Assumptions lagrange_ndim.

(* the (x - mean) / std rescaling of the code does not change the exact result *)
Theorem scaling_irrelevant : forall srt bnd m s w pts t, ~ (s == 0)%Q ->
  match lagrange1 (mkOpt srt bnd (Some (m, s))) w pts t, lagrange1 (mkOpt srt bnd None) w pts t with
  | Some r, Some r' => (r == r')%Q
  | None, None => True
  | _, _ => False
  end.
Proof. exact scaling_irrelevant_l. Qed.
Print Assumptions scaling_irrelevant.

(* ============================================================ linear interpolation (interp1d kind="linear")
   linear1 fl pts t / linear_nd fl pts t: LVal v, LNan (bounds_error=False outside the range) or LRaise (ValueError
   outside the range by default; fewer than two samples / equal abscissae are outside the model's domain) *)
Theorem linear_nodes : forall fl pts xk yk v,
  In (xk, yk) pts -> linear1 fl pts xk = LVal v -> (v == yk)%Q.
Proof. exact linear_nodes_l. Qed.
Print Assumptions linear_nodes.

Theorem linear_linear_in_y : forall fl (l : list (Q * (Q * Q))) k1 k2 t,
  match linear1 fl (column fst l) t, linear1 fl (column snd l) t,
        linear1 fl (column (fun v => k1 * fst v + k2 * snd v)%Q l) t with
  | LVal r1, LVal r2, LVal r3 => (r3 == k1 * r1 + k2 * r2)%Q
  | LNan, LNan, LNan => True
  | LRaise, LRaise, LRaise => True
  | _, _, _ => False
  end.
Proof. exact linear_linear_l. Qed.
Print Assumptions linear_linear_in_y.

Theorem linear_perm_invariant : forall fl pts pts' t,
  Permutation pts pts' -> linear_nd fl pts t = linear_nd fl pts' t.
Proof. exact linear_perm_l. Qed.
Print Assumptions linear_perm_invariant.

Theorem linear_ndim : forall fl ncols pts t c,
  (forall p, In p pts -> List.length (snd p) = ncols) -> (c < ncols)%nat ->
  match linear_nd fl pts t, linear1 fl (column (fun r => nth c r 0%Q) pts) t with
  | LVal v, LVal r => List.length v = ncols /\ (nth c v 0 == r)%Q
  | LNan, LNan => True
  | LRaise, LRaise => True
  | _, _ => False
  end.
Proof. exact linear_ndim_l. Qed.
Print Assumptions linear_ndim.

(* data on a straight line are reproduced everywhere, extrapolation included *)
Theorem linear_reproduces_affine : forall fl pts c0 c1 t v,
  (forall x y, In (x, y) pts -> (y == c0 + c1 * x)%Q) -> linear1 fl pts t = LVal v -> (v == c0 + c1 * t)%Q.
Proof. exact linear_reproduces_affine_l. Qed.
Print Assumptions linear_reproduces_affine.

(* with fill_value="extrapolate" the linear interpolator is defined for every x_new on its domain *)
Theorem linear_extrapolate_defined : forall pts t,
  (2 <= List.length pts)%nat -> strictly_increasing (map fst (sort_pts pts)) = true ->
  exists v, linear1 FExtrapolate pts t = LVal v.
Proof. exact linear_extrapolate_defined_l. Qed.
Print Assumptions linear_extrapolate_defined.

(* ============================================================ dilution of precision *)
Theorem dop_pythagoras : forall M : mat,
  (0 <= M i0 i0 -> 0 <= M i1 i1 -> 0 <= M i2 i2 -> 0 <= M i3 i3 ->
   (gdop M)² = (pdop M)² + (tdop M)² /\ (pdop M)² = (hdop M)² + (vdop M)²)%R.
Proof. exact dop_pythagoras_l. Qed.
Print Assumptions dop_pythagoras.

(* for the cofactor matrix of any geometry the side conditions hold *)
Theorem dop_pythagoras_geometry : forall sats M, inverse_of (normal sats) M ->
  ((gdop M)² = (pdop M)² + (tdop M)² /\ (pdop M)² = (hdop M)² + (vdop M)²)%R.
Proof. exact dop_pythagoras_geometry_l. Qed.
Print Assumptions dop_pythagoras_geometry.

Theorem dop_perm_invariant : forall s s' M M', Permutation s s' ->
  inverse_of (normal s) M -> inverse_of (normal s') M' ->
  gdop M' = gdop M /\ pdop M' = pdop M /\ tdop M' = tdop M /\ hdop M' = hdop M /\ vdop M' = vdop M.
Proof. exact dop_perm_values. Qed.
Print Assumptions dop_perm_invariant.

Theorem dop_azimuth_invariant : forall s theta M M',
  inverse_of (normal s) M -> inverse_of (normal (rotate theta s)) M' ->
  gdop M' = gdop M /\ pdop M' = pdop M /\ tdop M' = tdop M /\ hdop M' = hdop M /\ vdop M' = vdop M.
Proof. exact dop_azimuth_invariant_l. Qed.
Print Assumptions dop_azimuth_invariant.

(* four satellites: the design matrix H is square; the cofactor matrix is H^-1 H^-T ... *)
Theorem dop_square_case : forall s0 s1 s2 s3 G,
  inverse_of (Hmat s0 s1 s2 s3) G -> inverse_of (normal [s0; s1; s2; s3]) (mmul G (mT G)).
Proof. exact dop_square_case_l. Qed.
Print Assumptions dop_square_case.

(* ... and not (H H^T)^-1 = H^-T H^-1: witness north/east/south at the horizon + zenith, TDOP^2 = 1/2 versus 1 *)
Theorem dop_square_wrong_product_refuted :
  inverse_of (normal [wit0; wit1; wit2; wit3]) (mmul Gwit (mT Gwit)) /\
  inverse_of (mmul (Hmat wit0 wit1 wit2 wit3) (mT (Hmat wit0 wit1 wit2 wit3))) (mmul (mT Gwit) Gwit) /\
  (mmul Gwit (mT Gwit) i3 i3 = 1 / 2 /\ mmul (mT Gwit) Gwit i3 i3 = 1)%R.
Proof. exact dop_square_wrong_product_l. Qed.
Print Assumptions dop_square_wrong_product_refuted.

(* ============================================================ plate motion *)
Theorem velocity_perp_position : forall w r : vec, (dot (velocity w r) r == 0)%Q.
Proof. exact velocity_perp_position_l. Qed.
Print Assumptions velocity_perp_position.

Theorem velocity_perp_pole : forall w r : vec, (dot (velocity w r) w == 0)%Q.
Proof. exact velocity_perp_pole_l. Qed.
Print Assumptions velocity_perp_pole.

Theorem velocity_perp_real : forall w r : R * R * R,
  (dotR (crossR w r) r = 0 /\ dotR (crossR w r) w = 0)%R.
Proof. exact velocityR_perp_l. Qed.
Print Assumptions velocity_perp_real.

(* Euler pole (lat, lon in degrees, omega in deg/Myr) -> cartesian (mas/yr) -> back, off the poles and the date line cut *)
Theorem spherical_cartesian_roundtrip : forall lat lon om : R,
  (-90 < lat < 90)%R -> (-180 < lon <= 180)%R -> (0 < om)%R ->
  to_spherical (to_cartesian (lat, lon, om)) = (lat, lon, om).
Proof. exact spherical_cartesian_roundtrip_l. Qed.
Print Assumptions spherical_cartesian_roundtrip.

(* ============================================================ non-vacuity *)
Example units_nonempty : In (mkU "degree" Angle (1 # 180) 1) units /\ In (mkU "mas" Angle mas_q 1) units.
Proof. split; vm_compute; tauto. Qed.
Example dms_example : let t := to_dms (-1 # 3) in dneg t = true /\ ddeg t = 0%Z /\ dmin t = 20%Z /\ (dsec t == 0)%Q.
Proof. vm_compute. repeat split. Qed.
Example lagrange_example :
  lagrange1 default_opts 3 [(3, 9); (0, 0); (1, 1); (2, 4); (5, 25)]%Q (5 # 2) = Some (25 # 4)%Q
  \/ exists r, lagrange1 default_opts 3 [(3, 9); (0, 0); (1, 1); (2, 4); (5, 25)]%Q (5 # 2) = Some r /\ (r == 25 # 4)%Q.
Proof. right. eexists. split; [vm_compute; reflexivity|vm_compute; reflexivity]. Qed.
Example dop_example : inverse_of mI mI.
Proof. split; apply mmul_I_l. Qed.
Example linear_example : exists v, linear1 FRaise [(3, 9); (0, 0); (1, 1)]%Q (2 # 1) = LVal v /\ (v == 5)%Q.
Proof. eexists. split; [vm_compute; reflexivity|vm_compute; reflexivity]. Qed.
