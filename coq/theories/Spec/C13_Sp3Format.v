(* Spec/C13_Sp3Format.v - the SP3-c / SP3-d record layout, written from the format definitions
   (S. Hilla, "The Extended Standard Product 3 Orbit Format (SP3-c)", 2010, and "(SP3-d)", 2016), NOT from
   midgard/parsers/sp3.py.  Columns are 1-based and inclusive, as in the format documents; the field names
   are the dictionary keys under which the parser is expected to deliver the columns.

   This file is the independent oracle of property C13; Proofs/C13_Sp3.v proves that the tables regenerated
   from the parser (Gen/C13_Sp3Fields.v) are equal to these. *)
From Coq Require Import String List ZArith QArith.
From Verif Require Import Lib.Fixed.
Import ListNotations.
Local Open Scope string_scope.

(* 1-based inclusive columns -> Python slice bounds *)
Definition col (name : string) (first last : nat) : fieldspec := mkf name (first - 1) last.

(* Line 1:  #cP2016  3  1  0  0  0.00000000      96 ORBIT IGb08 HLM  IGS
   cols 1-2 version symbol "#c"/"#d" (the letter is the version), 3 P/V flag, 4-7 year, 9-10 month, 12-13 day,
   15-16 hour, 18-19 minute, 21-31 second (F11.8), 33-39 number of epochs (I7), 41-45 data used (A5),
   47-51 coordinate system (A5), 53-55 orbit type (A3), 57-60 agency (A4) *)
Definition spec_line1 : list fieldspec :=
  [col "version" 2 2; col "pv_flag" 3 3; col "year" 4 7; col "month" 9 10; col "day" 12 13; col "hour" 15 16;
   col "minute" 18 19; col "second" 21 31; col "num_epoch" 33 39; col "data_used" 41 45; col "coord_sys" 47 51;
   col "orb_type" 53 55; col "agency" 57 60].

(* Line 2:  ## 1886 172800.00000000   900.00000000 57448 0.0000000000000
   4-7 GPS week (I4), 9-23 seconds of week (F15.8), 25-38 epoch interval (F14.8), 40-44 MJD (I5),
   46-60 fractional day (F15.13) *)
Definition spec_line2 : list fieldspec :=
  [col "gpsweek" 4 7; col "gpssec" 9 23; col "epoch_interval" 25 38; col "mjd_int" 40 44; col "mjd_frac" 46 60].

(* First %c line:  %c G  cc GPS ccc cccc ...     4-5 file type (A2), 10-12 time system (A3) *)
Definition spec_pc : list fieldspec := [col "file_type" 4 5; col "time_sys" 10 12].

(* First %f line:  %f  1.2500000  1.025000000  0.00000000000  0.000000000000000
   4-13 floating point base for position/velocity accuracy (F10.7), 15-26 base for clock/rate accuracy (F12.9) *)
Definition spec_pf : list fieldspec := [col "base_posvel" 4 13; col "base_clkrate" 15 26].

(* Position and clock record:
   PG01  10138.887745 -20456.557725 -13455.830128     13.095853  7  6  4 137 EP  MP
   1 "P", 2-4 vehicle id (A1,I2.2), 5-18 x km (F14.6), 19-32 y, 33-46 z, 47-60 clock microsec (F14.6),
   62-63 x-sdev exponent (I2), 65-66 y-sdev, 68-69 z-sdev, 71-73 clock-sdev exponent (I3),
   75 clock event flag, 76 clock prediction flag, 79 maneuver flag, 80 orbit prediction flag *)
Definition spec_P : list fieldspec :=
  [col "sat" 2 4; col "pos_x" 5 18; col "pos_y" 19 32; col "pos_z" 33 46; col "clk_bias" 47 60;
   col "sig_pos_x" 62 63; col "sig_pos_y" 65 66; col "sig_pos_z" 68 69; col "sig_clk_bias" 71 73;
   col "clk_event_flag" 75 75; col "clk_pred_flag" 76 76; col "maneuver_flag" 79 79; col "orb_pred_flag" 80 80].

(* Velocity and clock-rate record: same columns, dm/s and 1e-4 microsec/s *)
Definition spec_V : list fieldspec :=
  [col "sat" 2 4; col "vel_x" 5 18; col "vel_y" 19 32; col "vel_z" 33 46; col "clk_rate" 47 60;
   col "sig_vel_x" 62 63; col "sig_vel_y" 65 66; col "sig_vel_z" 68 69; col "sig_clk_rate" 71 73].

(* Epoch header record:  *  2016  3  1  0  0  0.00000000
   1-2 "* ", 4-7 year, 9-10 month, 12-13 day, 15-16 hour, 18-19 minute, 21-31 second (F11.8): blank separated *)
Definition spec_epoch_names : list (option string) :=
  [None; Some "year"; Some "month"; Some "day"; Some "hour"; Some "minute"; Some "second"].

Definition spec_width : nat := 80.

(* Units and sentinels of the format *)
Definition km_in_m : Q := 1000.                         (* positions are kilometres *)
Definition us_in_s : Q := 1 # 1000000.                  (* clocks are microseconds *)
Definition mm_in_m : Q := 1 # 1000.                     (* position accuracy: base^n millimetres *)
Definition ps_in_s : Q := 1 # 1000000000000.            (* clock accuracy: base^n picoseconds *)
Definition c_light : Q := 299792458.                    (* m/s, exact by definition of the metre *)
Definition bad_position : Q := 0.                       (* 0.000000 = bad or absent position *)
Definition bad_clock : Q := 999999999999 # 1000000.     (* 999999.999999 = bad or absent clock *)
