(* Spec/C11_RinexFile.v - whole-file models of RINEX observation files and their rendering, written from the format
   definitions (RINEX 3.0x table A2/A3, RINEX 2.11 table A1/A2).  Nothing here is taken from midgard.  No proofs. *)
From Coq Require Import Ascii String List Bool ZArith QArith Arith.
From Verif Require Import Lib.Text Lib.Decimal Lib.Fixed Spec.C11_RinexFormat.
Import ListNotations.
Local Open Scope nat_scope.
Local Open Scope string_scope.

(* Iw (blank padded) or Iw.w (zero padded) *)
Definition int_field (zero : bool) (w : nat) (z : Z) : string := if zero then digits_fixed w z else render_int w z.
Definition fits_int (w : nat) (z : Z) : Prop := len (sign_str z ++ render_nat (Z.abs z)) <= w.

(* header record: 60 columns of content + label *)
Definition hdr_line (body label : string) : string := ljust 60 body ++ label.

(* epoch time: calendar fields and seconds in units of 1e-7 s; receiver clock offset in 1e-12 s (RINEX 3) / 1e-9 s (RINEX 2) *)
Record epoch_t := { ep_y : Z; ep_mo : Z; ep_d : Z; ep_h : Z; ep_mi : Z; ep_s7 : Z; ep_clk : option Z;
                    ep_zero : bool;      (* I2.2 (zero padded) or I2 *)
                    ep_cut : bool }.     (* trailing blanks removed by the writer *)
Definition epoch_t_wf (t : epoch_t) : Prop :=
  (0 <= ep_y t)%Z /\ fits_int 4 (ep_y t) /\
  (0 <= ep_mo t < 100)%Z /\ (0 <= ep_d t < 100)%Z /\ (0 <= ep_h t < 100)%Z /\ (0 <= ep_mi t < 100)%Z /\
  (0 <= ep_s7 t)%Z /\ fits_F 11 7 (ep_s7 t) /\
  match ep_clk t with None => True | Some c => fits_F 15 12 c end.

(* ------------------------------------------------------------------------------------------ optional header records *)
Inductive hrec :=
| HMarkerNumber (s : string)                    (* MARKER NUMBER        A20 *)
| HReceiver (num type vers : string)            (* REC # / TYPE / VERS  3A20 *)
| HAntenna (num type : string)                  (* ANT # / TYPE         2A20 *)
| HPosition (x y z : Z)                         (* APPROX POSITION XYZ  3F14.4, units of 1e-4 m *)
| HDelta (h e n : Z)                            (* ANTENNA: DELTA H/E/N 3F14.4 *)
| HInterval (i : Z)                             (* INTERVAL             F10.3 *)
| HComment (text : string)                      (* COMMENT              A60 *)
| HLastObs (t : epoch_t).                       (* TIME OF LAST OBS     5I6, F13.7, 5X, A3 *)

Definition last_obs_pieces (t : epoch_t) : list string :=
  [render_int 6 (ep_y t); render_int 6 (ep_mo t); render_int 6 (ep_d t); render_int 6 (ep_h t); render_int 6 (ep_mi t);
   render_F 13 7 (ep_s7 t); "     "; "GPS"].
Definition render_hrec (r : hrec) : string :=
  match r with
  | HMarkerNumber s => hdr_line (cat [ljust 20 s]) "MARKER NUMBER"
  | HReceiver a b c => hdr_line (cat [ljust 20 a; ljust 20 b; ljust 20 c]) "REC # / TYPE / VERS"
  | HAntenna a b => hdr_line (cat [ljust 20 a; ljust 20 b]) "ANT # / TYPE"
  | HPosition x y z => hdr_line (cat [render_F 14 4 x; render_F 14 4 y; render_F 14 4 z]) "APPROX POSITION XYZ"
  | HDelta h e n => hdr_line (cat [render_F 14 4 h; render_F 14 4 e; render_F 14 4 n]) "ANTENNA: DELTA H/E/N"
  | HInterval i => hdr_line (cat [render_F 10 3 i]) "INTERVAL"
  | HComment t => hdr_line (cat [ljust 60 t]) "COMMENT"
  | HLastObs t => hdr_line (cat (last_obs_pieces t)) "TIME OF LAST OBS"
  end.
Definition text_ok (w : nat) (s : string) : Prop := trimmed s = true /\ len s <= w.
Definition hrec_ok (year : Z) (r : hrec) : Prop :=
  match r with
  | HMarkerNumber s => text_ok 20 s
  | HReceiver a b c => text_ok 20 a /\ text_ok 20 b /\ text_ok 20 c
  | HAntenna a b => text_ok 20 a /\ text_ok 20 b
  | HPosition x y z => fits_F 14 4 x /\ fits_F 14 4 y /\ fits_F 14 4 z
  | HDelta h e n => fits_F 14 4 h /\ fits_F 14 4 e /\ fits_F 14 4 n
  | HInterval i => fits_F 10 3 i
  | HComment t => text_ok 60 t
  | HLastObs t => epoch_t_wf t /\ fits_int 6 (ep_y t) /\ fits_F 13 7 (ep_s7 t) /\ ep_y t = year     (* same year as the first observation *)
  end.

(* optional records before the marker, between marker and types, between types and first obs, after first obs - any records, any order *)
Record hextras := { hx0 : list hrec; hx1 : list hrec; hx2 : list hrec; hx3 : list hrec }.
Definition rx (l : list hrec) : list string := map render_hrec l.
Definition hextras_ok (year : Z) (x : hextras) : Prop :=
  Forall (hrec_ok year) (hx0 x) /\ Forall (hrec_ok year) (hx1 x) /\ Forall (hrec_ok year) (hx2 x) /\ Forall (hrec_ok year) (hx3 x).
Definition no_extras : hextras := {| hx0 := []; hx1 := []; hx2 := []; hx3 := [] |}.

(* ------------------------------------------------------------------------------------------ RINEX 3 *)
Record sat3 := { s3_id : string; s3_cells : list cell; s3_cut : bool }.
Record epoch3 := { e3_t : epoch_t; e3_sats : list sat3 }.
Record file3 := { f3_marker : string;
                  f3_systypes : list (string * list string);       (* SYS / # / OBS TYPES, in header order *)
                  f3_first : epoch_t;                              (* TIME OF FIRST OBS (GPS) *)
                  f3_x : hextras;                                  (* optional header records *)
                  f3_epochs : list epoch3 }.

(* > yyyy mm dd hh mm ss.sssssss  f nnn      ccc.cccccccccccc     A1,1X,I4,4(1X,I2.2),F11.7,2X,I1,I3,6X,F15.12 *)
Definition epoch_pieces_v3 (t : epoch_t) (nsat : Z) : list string :=
  [">"; " "; render_int 4 (ep_y t); " "; int_field (ep_zero t) 2 (ep_mo t); " "; int_field (ep_zero t) 2 (ep_d t); " ";
   int_field (ep_zero t) 2 (ep_h t); " "; int_field (ep_zero t) 2 (ep_mi t); render_F 11 7 (ep_s7 t); "  "; "0";
   render_int 3 nsat]
  ++ match ep_clk t with None => [] | Some c => ["      "; render_F 15 12 c] end.
Definition render_epoch_v3 (t : epoch_t) (nsat : Z) : string := maybe_rstrip (ep_cut t) (cat (epoch_pieces_v3 t nsat)).
(* A1,I2.2, m(F14.3,I1,I1) *)
Definition render_sat_v3 (s : sat3) : string := maybe_rstrip (s3_cut s) (s3_id s ++ cat (map render_cell (s3_cells s))).
Definition render_epoch3 (e : epoch3) : list string :=
  render_epoch_v3 (e3_t e) (Z.of_nat (List.length (e3_sats e))) :: map render_sat_v3 (e3_sats e).
Definition render_body_v3 (es : list epoch3) : list string := concat (map render_epoch3 es).

(* SYS / # / OBS TYPES: A1,2X,I3,13(1X,A3); continuation 6X,13(1X,A3) *)
Definition types_label_v3 := "SYS / # / OBS TYPES".
Definition types_body_v3 (first : option (string * Z)) (chunk : list string) : string :=
  match first with Some (sys, n) => sys ++ "  " ++ render_int 3 n | None => spaces 6 end
  ++ cat (map (fun t => " " ++ t) chunk).
Definition types_lines_v3 (st : string * list string) : list string :=
  match chunks (List.length (snd st)) 13 (snd st) with
  | [] => []
  | c0 :: cr => hdr_line (types_body_v3 (Some (fst st, Z.of_nat (List.length (snd st)))) c0) types_label_v3
                :: map (fun c => hdr_line (types_body_v3 None c) types_label_v3) cr
  end.
Definition end_of_header : string := hdr_line "" "END OF HEADER".
(* TIME OF FIRST OBS: 5I6, F13.7, 5X, A3 *)
Definition first_obs_pieces (t : epoch_t) : list string :=
  [render_int 6 (ep_y t); render_int 6 (ep_mo t); render_int 6 (ep_d t); render_int 6 (ep_h t); render_int 6 (ep_mi t);
   render_F 13 7 (ep_s7 t); "     "; "GPS"].
Definition first_obs_line (t : epoch_t) : string := hdr_line (cat (first_obs_pieces t)) "TIME OF FIRST OBS".
Definition first_ok (t : epoch_t) : Prop := epoch_t_wf t /\ fits_int 6 (ep_y t) /\ fits_F 13 7 (ep_s7 t).
Definition render_header3 (f : file3) : list string :=
  rx (hx0 (f3_x f)) ++ hdr_line (f3_marker f) "MARKER NAME" :: rx (hx1 (f3_x f)) ++ concat (map types_lines_v3 (f3_systypes f))
  ++ rx (hx2 (f3_x f)) ++ first_obs_line (f3_first f) :: rx (hx3 (f3_x f)) ++ [end_of_header].
Definition render_file3 (f : file3) : list string := render_header3 f ++ render_body_v3 (f3_epochs f).

(* well-formedness *)
Definition type3_ok (t : string) : Prop := len t = 3 /\ is_token t = true.
Definition systypes_ok (st : list (string * list string)) : Prop :=
  NoDup (map fst st) /\
  Forall (fun p => (exists a, fst p = String a "" /\ is_space a = false) /\ snd p <> [] /\ Forall type3_ok (snd p) /\
                   List.length (snd p) < 240 /\ fits_int 3 (Z.of_nat (List.length (snd p)))) st.
Definition sat3_ok (st : list (string * list string)) (s : sat3) : Prop :=
  (exists a b c, s3_id s = String a (String b (String c "")) /\
                 (exists ts, In (String a "", ts) st /\ List.length (s3_cells s) = List.length ts) /\
                 (65 <= nat_of_ascii a <= 90) /\ is_space b = false /\ is_space c = false) /\
  Forall cell_wf (s3_cells s).
Definition epoch3_ok st (e : epoch3) : Prop :=
  epoch_t_wf (e3_t e) /\ fits_int 3 (Z.of_nat (List.length (e3_sats e))) /\ Forall (sat3_ok st) (e3_sats e).
Definition file3_ok (f : file3) : Prop :=
  trimmed (f3_marker f) = true /\ len (f3_marker f) <= 60 /\
  systypes_ok (f3_systypes f) /\ first_ok (f3_first f) /\ hextras_ok (ep_y (f3_first f)) (f3_x f) /\
  Forall (epoch3_ok (f3_systypes f)) (f3_epochs f).

(* ------------------------------------------------------------------------------------------ RINEX 2 *)
Record sat2 := { s2_id : string; s2_cells : list cell; s2_cut : bool }.
Record epoch2 := { e2_t : epoch_t; e2_sats : list sat2 }.
Record file2 := { f2_marker : string;
                  f2_types : list string;                 (* # / TYPES OF OBSERV *)
                  f2_first : epoch_t;                     (* TIME OF FIRST OBS (GPS) *)
                  f2_x : hextras;                         (* optional header records *)
                  f2_epochs : list epoch2 }.

(* # / TYPES OF OBSERV: I6, 9(4X,A2); continuation 6X, 9(4X,A2) *)
Definition types_label_v2 := "# / TYPES OF OBSERV".
Definition types_body_v2 (first : option Z) (chunk : list string) : string :=
  match first with Some n => render_int 6 n | None => spaces 6 end ++ cat (map (fun t => "    " ++ t) chunk).
Definition types_lines_v2 (types : list string) : list string :=
  match chunks (List.length types) 9 types with
  | [] => []
  | c0 :: cr => hdr_line (types_body_v2 (Some (Z.of_nat (List.length types))) c0) types_label_v2
                :: map (fun c => hdr_line (types_body_v2 None c) types_label_v2) cr
  end.
Definition render_header2 (f : file2) : list string :=
  rx (hx0 (f2_x f)) ++ hdr_line (f2_marker f) "MARKER NAME" :: rx (hx1 (f2_x f)) ++ types_lines_v2 (f2_types f)
  ++ rx (hx2 (f2_x f)) ++ first_obs_line (f2_first f) :: rx (hx3 (f2_x f)) ++ [end_of_header].

(* EPOCH/SAT: 1X,I2.2, 4(1X,I2), F11.7, 2X,I1, I3, 12(A1,I2), F12.9; continuation 32X, 12(A1,I2) *)
Definition epoch_head_v2 (t : epoch_t) (nsat : Z) : list string :=
  [" " ++ int_field (ep_zero t) 2 (ep_y t mod 100); " " ++ int_field (ep_zero t) 2 (ep_mo t); " " ++ int_field (ep_zero t) 2 (ep_d t);
   " " ++ int_field (ep_zero t) 2 (ep_h t); " " ++ int_field (ep_zero t) 2 (ep_mi t); render_F 11 7 (ep_s7 t); "  0";
   render_int 3 nsat].
Definition epoch_first_line_v2 (t : epoch_t) (nsat : Z) (ids : list string) : string :=
  cat (epoch_head_v2 t nsat) ++ cat ids
  ++ match ep_clk t with None => "" | Some c => spaces (36 - 3 * List.length ids) ++ render_F 12 9 c end.
Definition epoch_cont_line_v2 (ids : list string) : string := spaces 32 ++ cat ids.
Definition epoch_lines_v2 (t : epoch_t) (ids : list string) : list string :=
  match chunks (List.length ids) 12 ids with
  | [] => [epoch_first_line_v2 t 0 []]
  | c0 :: cr => epoch_first_line_v2 t (Z.of_nat (List.length ids)) c0 :: map epoch_cont_line_v2 cr
  end.
Definition render_sat_v2 (s : sat2) : list string := render_obs_v2 (s2_cut s) (s2_cells s).
Definition render_epoch2 (e : epoch2) : list string :=
  epoch_lines_v2 (e2_t e) (map s2_id (e2_sats e)) ++ concat (map render_sat_v2 (e2_sats e)).
Definition render_body_v2 (es : list epoch2) : list string := concat (map render_epoch2 es).
Definition render_file2 (f : file2) : list string := render_header2 f ++ render_body_v2 (f2_epochs f).

(* well-formedness *)
Definition type2_ok (t : string) : Prop := len t = 2 /\ is_token t = true.
Definition sat2_id_ok (id : string) : Prop :=
  exists a b c, id = String a (String b (String c "")) /\ (65 <= nat_of_ascii a <= 90) /\
                (b = " "%char \/ (48 <= nat_of_ascii b <= 57)) /\ (48 <= nat_of_ascii c <= 57).
Definition sat2_ok (ntypes : nat) (s : sat2) : Prop :=
  sat2_id_ok (s2_id s) /\ List.length (s2_cells s) = ntypes /\ Forall cell_wf (s2_cells s).
Definition epoch2_ok (century : Z) (ntypes : nat) (e : epoch2) : Prop :=
  epoch_t_wf (e2_t e) /\ (1980 <= ep_y (e2_t e) < 2080)%Z /\       (* the years a two-digit year can denote; [century] is unused *)
  match ep_clk (e2_t e) with None => True | Some c => fits_F 12 9 c end /\
  fits_int 3 (Z.of_nat (List.length (e2_sats e))) /\ e2_sats e <> [] /\ Forall (sat2_ok ntypes) (e2_sats e).
Definition file2_ok (f : file2) : Prop :=
  trimmed (f2_marker f) = true /\ len (f2_marker f) <= 60 /\
  f2_types f <> [] /\ NoDup (f2_types f) /\ Forall type2_ok (f2_types f) /\ fits_int 6 (Z.of_nat (List.length (f2_types f))) /\
  epoch_t_wf (f2_first f) /\ (1000 <= ep_y (f2_first f) < 10000)%Z /\
  fits_int 6 (ep_y (f2_first f)) /\ fits_F 13 7 (ep_s7 (f2_first f)) /\ hextras_ok (ep_y (f2_first f)) (f2_x f) /\
  Forall (epoch2_ok (ep_y (f2_first f) / 100) (List.length (f2_types f))) (f2_epochs f).
