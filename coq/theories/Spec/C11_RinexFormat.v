(* Spec/C11_RinexFormat.v - record layouts of RINEX 2.11 (tables A1, A2) and RINEX 3.0x (tables A2, A3) observation
   files, written from the format definitions (Fortran edit descriptors), and the renderers of the records the
   round-trip theorems are about.  Nothing here is taken from midgard.  No proofs. *)
From Coq Require Import Ascii String List Bool ZArith QArith Arith.
From Verif Require Import Lib.Text Lib.Decimal Lib.Fixed.
Import ListNotations.
Local Open Scope nat_scope.
Local Open Scope string_scope.

(* ------------------------------------------------------------------------------------------ column layouts *)
(* fields of consecutive edit descriptors: (name, leading blanks nX, width) *)
Fixpoint layout (pos : nat) (l : list (string * nat * nat)) : list fieldspec :=
  match l with
  | [] => []
  | (nm, x, w) :: r => mkf nm (pos + x) (pos + x + w) :: layout (pos + x + w) r
  end.
Definition digit_str (k : nat) : string := String (ascii_of_nat (48 + k)) "".
Definition two_digits (k : nat) : string := digit_str (k / 10) ++ digit_str (k mod 10).

(* OBSERVATIONS: m(F14.3, I1, I1), at most 5 per record in RINEX 2 *)
Definition v2_obs_fields : list fieldspec :=
  layout 0 (map (fun k => ("obs_" ++ digit_str (S k), 0, 16)) (seq 0 5)).
(* EPOCH/SAT (RINEX 2): 1X,I2, 4(1X,I2), F11.7, 2X,I1, I3, 12(A1,I2), F12.9.  The parser reads each 1X with the number. *)
Definition v2_epoch_fields : list fieldspec :=
  layout 0 [("year", 0, 3); ("month", 0, 3); ("day", 0, 3); ("hour", 0, 3); ("minute", 0, 3); ("second", 0, 11);
            ("epoch_flag", 0, 3); ("num_sat", 0, 3); ("sat_list", 0, 36); ("rcv_clk_offset", 0, 12)].
(* EPOCH (RINEX 3): A1 '>', 1X,I4, 4(1X,I2.2), F11.7, 2X,I1, I3, 6X, F15.12 *)
Definition v3_epoch_fields : list fieldspec :=
  layout 1 [("year", 1, 4); ("month", 1, 2); ("day", 1, 2); ("hour", 1, 2); ("minute", 1, 2); ("second", 0, 11);
            ("epoch_flag", 2, 1); ("num_sat", 0, 3); ("rcv_clk_offset", 6, 15)].
(* OBSERVATION record (RINEX 3): A1,I2.2, m(F14.3,I1,I1) *)
Definition v3_sat_field : fieldspec := mkf "sat" 0 3.
Definition v3_obs_start : nat := 3.
(* # / TYPES OF OBSERV: I6, 9(4X,A2) *)
Definition v2_types_fields : list fieldspec :=
  layout 0 (("num_obstypes", 0, 6) :: map (fun k => ("type_" ++ digit_str (S k), 0, 6)) (seq 0 9)).
(* SYS / # / OBS TYPES: A1, 2X,I3, 13(1X,A3) *)
Definition v3_types_fields : list fieldspec :=
  layout 0 (("satellite_sys", 0, 1) :: ("num_obstypes", 2, 3) :: map (fun k => ("type_" ++ two_digits (S k), 1, 3)) (seq 0 13)).
(* APPROX POSITION XYZ: 3F14.4;  TIME OF FIRST OBS: 5I6, F13.7, 5X, A3;  MARKER NAME: A60 *)
Definition pos_fields : list fieldspec := layout 0 [("pos_x", 0, 14); ("pos_y", 0, 14); ("pos_z", 0, 14)].
Definition first_obs_fields : list fieldspec :=
  layout 0 [("year", 0, 6); ("month", 0, 6); ("day", 0, 6); ("hour", 0, 6); ("minute", 0, 6); ("second", 0, 13); ("time_sys", 5, 3)].
Definition marker_fields : list fieldspec := [mkf "marker_name" 0 60].
Definition rec_fields : list fieldspec := layout 0 [("receiver_number", 0, 20); ("receiver_type", 0, 20); ("receiver_version", 0, 20)].
Definition ant_fields : list fieldspec := layout 0 [("antenna_number", 0, 20); ("antenna_type", 0, 20)].
Definition delta_fields : list fieldspec := layout 0 [("antenna_height", 0, 14); ("antenna_east", 0, 14); ("antenna_north", 0, 14)].

(* what the field tables of a parser must contain: (label, strip-newline-only?, fields).  The strip mode is only
   prescribed for the data records, where the difference is observable. *)
Definition header_common : list (string * list fieldspec) :=
  [("APPROX POSITION XYZ", pos_fields); ("TIME OF FIRST OBS", first_obs_fields); ("TIME OF LAST OBS", first_obs_fields);
   ("MARKER NAME", marker_fields); ("REC # / TYPE / VERS", rec_fields); ("ANT # / TYPE", ant_fields);
   ("ANTENNA: DELTA H/E/N", delta_fields)].
Definition v2_header_spec := ("# / TYPES OF OBSERV", v2_types_fields) :: header_common.
Definition v3_header_spec := ("SYS / # / OBS TYPES", v3_types_fields) :: header_common.
Definition v2_obs_spec : list (string * bool * list fieldspec) :=
  [("True", true, v2_obs_fields); ("False", true, v2_epoch_fields)].
Definition v3_obs_spec : list (string * bool * list fieldspec) :=
  [("True", true, [v3_sat_field; mkf "obs" v3_obs_start 4000]); ("False", false, v3_epoch_fields ++ [mkf "comment" 60 80])%list].

(* ------------------------------------------------------------------------------------------ observation cells *)
Inductive vtext := VBlank | VZero | VNum (m : Z).              (* blank, 0.000, m/1000 with m <> 0 *)
Record cell := { cv : vtext; clli : option Z; cssi : option Z }.
Definition flag_char (f : option Z) : string :=
  match f with None => " " | Some d => String (digit_char d) "" end.
Definition value_text (v : vtext) : string :=
  match v with VBlank => spaces 14 | VZero => render_F 14 3 0 | VNum m => render_F 14 3 m end.
Definition render_cell (c : cell) : string := value_text (cv c) ++ flag_char (clli c) ++ flag_char (cssi c).

Definition flag_ok (f : option Z) : Prop := match f with None => True | Some d => (0 <= d <= 9)%Z end.
Definition cell_wf (c : cell) : Prop :=
  match cv c with
  | VBlank => clli c = None /\ cssi c = None       (* a missing observation carries no flags *)
  | VZero => True
  | VNum m => m <> 0%Z /\ fits_F 14 3 m
  end /\ flag_ok (clli c) /\ flag_ok (cssi c).

(* the meaning of a cell: value, loss-of-lock, signal strength; blank or zero = absent *)
Definition flag_val (f : option Z) : option Q :=
  match f with None => None | Some d => if (d =? 0)%Z then None else Some (inject_Z d) end.
Definition cell_val (c : cell) : option Q * option Q * option Q :=
  (match cv c with VNum m => Some (dec_value m 3) | _ => None end, flag_val (clli c), flag_val (cssi c)).

(* RINEX 3 observation record body; RINEX 2: five cells per line, continuation lines as needed.  [cut] = the writer removed trailing blanks *)
Definition maybe_rstrip (cut : bool) (s : string) : string := if cut then rstrip s else s.
Definition render_obs_v3 (cut : bool) (cells : list cell) : string := maybe_rstrip cut (cat (map render_cell cells)).
Fixpoint chunks {A} (fuel k : nat) (l : list A) : list (list A) :=
  match fuel with
  | O => []
  | S f => match l with [] => [] | _ => firstn k l :: chunks f k (skipn k l) end
  end.
Definition render_obs_v2 (cut : bool) (cells : list cell) : list string :=
  map (fun ch => maybe_rstrip cut (cat (map render_cell ch))) (chunks (List.length cells) 5 cells).

(* satellite identifiers A1,I2 *)
Definition sat_ok (s : string) : Prop :=
  exists a b c, s = String a (String b (String c "")) /\ is_space c = false.
