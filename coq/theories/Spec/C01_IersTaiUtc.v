(* C01 - independent oracle, typed in by hand (NOT generated from /repo).

   The published history of TAI-UTC (IERS Bulletin C / hpiers.obspm.fr UTC-TAI.history, the same
   content as USNO tai-utc.dat):

     1961 JAN 1   1.4228180 s + (MJD - 37300) x 0.001296  s      1972 JAN 1  10 s   1985 JUL 1  23 s
     1961 AUG 1   1.3728180 s + (MJD - 37300) x 0.001296  s      1972 JUL 1  11 s   1988 JAN 1  24 s
     1962 JAN 1   1.8458580 s + (MJD - 37665) x 0.0011232 s      1973 JAN 1  12 s   1990 JAN 1  25 s
     1963 NOV 1   1.9458580 s + (MJD - 37665) x 0.0011232 s      1974 JAN 1  13 s   1991 JAN 1  26 s
     1964 JAN 1   3.2401300 s + (MJD - 38761) x 0.001296  s      1975 JAN 1  14 s   1992 JUL 1  27 s
     1964 APR 1   3.3401300 s + (MJD - 38761) x 0.001296  s      1976 JAN 1  15 s   1993 JUL 1  28 s
     1964 SEP 1   3.4401300 s + (MJD - 38761) x 0.001296  s      1977 JAN 1  16 s   1994 JUL 1  29 s
     1965 JAN 1   3.5401300 s + (MJD - 38761) x 0.001296  s      1978 JAN 1  17 s   1996 JAN 1  30 s
     1965 MAR 1   3.6401300 s + (MJD - 38761) x 0.001296  s      1979 JAN 1  18 s   1997 JUL 1  31 s
     1965 JUL 1   3.7401300 s + (MJD - 38761) x 0.001296  s      1980 JAN 1  19 s   1999 JAN 1  32 s
     1965 SEP 1   3.8401300 s + (MJD - 38761) x 0.001296  s      1981 JUL 1  20 s   2006 JAN 1  33 s
     1966 JAN 1   4.3131700 s + (MJD - 39126) x 0.002592  s      1982 JUL 1  21 s   2009 JAN 1  34 s
     1968 FEB 1   4.2131700 s + (MJD - 39126) x 0.002592  s      1983 JUL 1  22 s   2012 JUL 1  35 s
                                                                                    2015 JUL 1  36 s
                                                                                    2017 JAN 1  37 s
   Each entry holds from 0h UTC of its date until 0h UTC of the next entry's date.  No leap second
   has been announced after 2017 JAN 1 (Bulletin C up to and including the one for 2026); when IERS
   announces one, this file has to be extended by hand - that is its purpose.

   Also the defining constants of the property text and of the IERS Conventions (2010):
     TAI - GPS = 19 s, TT - TAI = 32.184 s, L_G = 6.969290134e-10, T_0 = JD 2443144.5003725 (1977 JAN 1 0h TAI). *)
From Coq Require Import ZArith QArith List.
Import ListNotations.
Open Scope Z_scope.

(* one published entry: civil date it starts (year, month, day), offset [s] as decimal n/10^7,
   reference MJD and rate [s/day] as decimal n/10^7 *)
Record entry := { e_y : Z; e_m : Z; e_d : Z; e_off7 : Z; e_ref : Z; e_rate7 : Z }.
Definition E y m d o r f := {| e_y := y; e_m := m; e_d := d; e_off7 := o; e_ref := r; e_rate7 := f |}.

Definition published : list entry :=
  [ E 1961 1 1 14228180 37300 12960;
    E 1961 8 1 13728180 37300 12960;
    E 1962 1 1 18458580 37665 11232;
    E 1963 11 1 19458580 37665 11232;
    E 1964 1 1 32401300 38761 12960;
    E 1964 4 1 33401300 38761 12960;
    E 1964 9 1 34401300 38761 12960;
    E 1965 1 1 35401300 38761 12960;
    E 1965 3 1 36401300 38761 12960;
    E 1965 7 1 37401300 38761 12960;
    E 1965 9 1 38401300 38761 12960;
    E 1966 1 1 43131700 39126 25920;
    E 1968 2 1 42131700 39126 25920;
    E 1972 1 1 100000000 41317 0;
    E 1972 7 1 110000000 41317 0;
    E 1973 1 1 120000000 41317 0;
    E 1974 1 1 130000000 41317 0;
    E 1975 1 1 140000000 41317 0;
    E 1976 1 1 150000000 41317 0;
    E 1977 1 1 160000000 41317 0;
    E 1978 1 1 170000000 41317 0;
    E 1979 1 1 180000000 41317 0;
    E 1980 1 1 190000000 41317 0;
    E 1981 7 1 200000000 41317 0;
    E 1982 7 1 210000000 41317 0;
    E 1983 7 1 220000000 41317 0;
    E 1985 7 1 230000000 41317 0;
    E 1988 1 1 240000000 41317 0;
    E 1990 1 1 250000000 41317 0;
    E 1991 1 1 260000000 41317 0;
    E 1992 7 1 270000000 41317 0;
    E 1993 7 1 280000000 41317 0;
    E 1994 7 1 290000000 41317 0;
    E 1996 1 1 300000000 41317 0;
    E 1997 7 1 310000000 41317 0;
    E 1999 1 1 320000000 41317 0;
    E 2006 1 1 330000000 41317 0;
    E 2009 1 1 340000000 41317 0;
    E 2012 7 1 350000000 41317 0;
    E 2015 7 1 360000000 41317 0;
    E 2017 1 1 370000000 41317 0 ].

(* Julian day number of a Gregorian civil date (Fliegel & Van Flandern 1968; truncating division) *)
Definition jdn (y m d : Z) : Z :=
  let a := Z.quot (m - 14) 12 in
  Z.quot (1461 * (y + 4800 + a)) 4 + Z.quot (367 * (m - 2 - 12 * a)) 12
  - Z.quot (3 * Z.quot (y + 4900 + a) 100) 4 + d - 32075.

(* JD at 0h of the civil date = jdn - 1/2 *)
Definition jd0h (y m d : Z) : Q := (inject_Z (jdn y m d) - (1 # 2))%Q.

(* the table is open ended; the library closes it at 9999 DEC 31 0h *)
Definition far_future : Q := jd0h 9999 12 31.

(* TAI-UTC [s] in force at UTC Julian date x according to entry e *)
Definition e_value (e : entry) (x : Q) : Q :=
  (inject_Z (e_off7 e) / inject_Z 10000000
   + (x - (24000005 # 10) - inject_Z (e_ref e)) * (inject_Z (e_rate7 e) / inject_Z 10000000))%Q.

Definition e_start (e : entry) : Q := jd0h (e_y e) (e_m e) (e_d e).

(* defining constants *)
Definition tai_minus_gps_s : Q := 19.
Definition tt_minus_tai_s : Q := (32184 # 1000).
Definition L_G_iers2010 : Q := (6969290134 # 10000000000000000000).   (* 6.969290134e-10 *)
Definition T_0_iers2010 : Q := (24431445003725 # 10000000).           (* JD 2443144.5003725 *)
Definition day_s : Q := 86400.

(* sanity of the calendar function on dates known otherwise *)
Example jdn_2000 : jdn 2000 1 1 = 2451545. Proof. reflexivity. Qed.
Example jdn_1961 : (jdn 1961 1 1 - 2400001 = 37300)%Z. Proof. reflexivity. Qed.
Example jdn_1972 : (jdn 1972 1 1 - 2400001 = 41317)%Z. Proof. reflexivity. Qed.
Example jdn_2017 : (jdn 2017 1 1 - 2400001 = 57754)%Z. Proof. reflexivity. Qed.
Example T0_is_1977 : (T_0_iers2010 == jd0h 1977 1 1 + (32184 # 1000) / 86400)%Q. Proof. reflexivity. Qed.
