(* Spec/C14_SinexFormat.v - field positions of the SINEX line formats, written down from the format
   descriptions and NOT from midgard's SinexField tables:

     * "base": SINEX 2.02 (IERS, "SINEX - Solution (Software/technique) INdependent EXchange Format", Appendix 1:
       every block line is FORTRAN-formatted, e.g. SITE/ID  1X,A4,1X,A2,1X,A9,1X,A1,1X,A22,1X,I3,1X,I2,1X,F4.1,... ).
       First column is 0 here (the 1X in front of every line is column 0).
     * "base" SOLUTION/DISCONTINUITY and SOLUTION/EVENT (not official SINEX), "tro" (sinex_tropo.txt / Bernese
       output) and "tms" (SINEX-TMS 1.0): positions read from the ruler lines of the published examples.

   One entry per line, rigid layout (harness/drivers/c14.py reads this file too, for its independent writer):
       (parser, marker, [(column name, first column, width, kind); ...])
   kind: "A" text, "I" integer, "F" fixed-point number, "E" number with exponent (E or D), "T" epoch YY:DDD:SSSSS,
         "Y" epoch YYYY:DDD:SSSSS, "G" angle as DDD MM SS.S, "W" blank-separated words, "L" free list line.
   width 0 = open ended (up to the end of the line).

   Remarks.  SITE/GAL_PHASE_CENTER: three lines per antenna (L1/L5, L6/L7, L8/reserved), every line in the layout of
   SITE/GPS_PHASE_CENTER (1X,A20,1X,A5,6(1X,F6.4),1X,A10).  SITE/ID: the DOMES number A9 is (5 digits area/site)(1 letter M|S + 3 digits); midgard reads it as two
   columns "domes" and "marker", the spec lists the two parts.  The descriptive last text columns of the 80-column
   SINEX blocks end at column 79. *)
From Coq Require Import List String.
Import ListNotations.
Open Scope string_scope.

Definition spec_field := (string * nat * nat * string)%type.
Definition spec_block := (string * string * list spec_field)%type.

Definition sinex_format : list spec_block := [
("base", "%HEADER", [("version", 6, 4, "F"); ("agency", 11, 3, "A"); ("created", 15, 12, "T"); ("data_agency", 28, 3, "A"); ("start", 32, 12, "T"); ("end", 45, 12, "T"); ("technique", 58, 1, "A"); ("nparam", 60, 5, "I"); ("constraint", 66, 1, "A"); ("contents", 68, 11, "W")]);
("base", "FILE/REFERENCE", [("info_type", 1, 18, "A"); ("info", 20, 60, "A")]);
("base", "FILE/COMMENT", [("comment", 1, 79, "A")]);
("base", "INPUT/HISTORY", [("file_code", 1, 1, "A"); ("doc_type", 2, 3, "A"); ("version", 6, 4, "F"); ("agency", 11, 3, "A"); ("created", 15, 12, "T"); ("data_agency", 28, 3, "A"); ("start", 32, 12, "T"); ("end", 45, 12, "T"); ("technique", 58, 1, "A"); ("nparam", 60, 5, "I"); ("constraint", 66, 1, "A"); ("contents", 68, 11, "A")]);
("base", "INPUT/FILES", [("agency", 1, 3, "A"); ("created", 5, 12, "T"); ("file_name", 18, 29, "A"); ("description", 48, 32, "A")]);
("base", "INPUT/ACKNOWLEDGEMENTS", [("agency", 1, 3, "A"); ("description", 5, 75, "A")]);
("base", "NUTATION/DATA", [("code", 1, 8, "A"); ("comments", 10, 70, "A")]);
("base", "PRECESSION/DATA", [("code", 1, 8, "A"); ("comments", 10, 70, "A")]);
("base", "SOURCE/ID", [("code", 1, 4, "A"); ("iers", 6, 8, "A"); ("icrf", 15, 16, "A"); ("comments", 32, 48, "A")]);
("base", "SITE/ID", [("code", 1, 4, "A"); ("pt", 6, 2, "A"); ("domes_site", 9, 5, "A"); ("domes_point", 14, 4, "A"); ("technique", 19, 1, "A"); ("description", 21, 22, "A"); ("longitude", 44, 11, "G"); ("latitude", 56, 11, "G"); ("height", 68, 7, "F")]);
("base", "SITE/DATA", [("code", 1, 4, "A"); ("pt", 6, 2, "A"); ("soln", 9, 4, "A"); ("in_code", 14, 4, "A"); ("in_pt", 19, 2, "A"); ("in_soln", 22, 4, "A"); ("technique", 27, 1, "A"); ("start", 29, 12, "T"); ("end", 42, 12, "T"); ("agency", 55, 3, "A"); ("created", 59, 12, "T")]);
("base", "SITE/RECEIVER", [("code", 1, 4, "A"); ("pt", 6, 2, "A"); ("soln", 9, 4, "A"); ("technique", 14, 1, "A"); ("start", 16, 12, "T"); ("end", 29, 12, "T"); ("receiver", 42, 20, "A"); ("serial", 63, 5, "A"); ("firmware", 69, 11, "A")]);
("base", "SITE/ANTENNA", [("code", 1, 4, "A"); ("pt", 6, 2, "A"); ("soln", 9, 4, "A"); ("technique", 14, 1, "A"); ("start", 16, 12, "T"); ("end", 29, 12, "T"); ("antenna", 42, 20, "A"); ("serial", 63, 5, "A")]);
("base", "SITE/GPS_PHASE_CENTER", [("antenna", 1, 20, "A"); ("serial", 22, 5, "A"); ("l1_up", 28, 6, "F"); ("l1_north", 35, 6, "F"); ("l1_east", 42, 6, "F"); ("l2_up", 49, 6, "F"); ("l2_north", 56, 6, "F"); ("l2_east", 63, 6, "F"); ("model", 70, 10, "A")]);
("base", "SITE/GAL_PHASE_CENTER", [("antenna", 1, 20, "A"); ("serial", 22, 5, "A"); ("a_up", 28, 6, "F"); ("a_north", 35, 6, "F"); ("a_east", 42, 6, "F"); ("b_up", 49, 6, "F"); ("b_north", 56, 6, "F"); ("b_east", 63, 6, "F"); ("model", 70, 10, "A")]);
("base", "SITE/ECCENTRICITY", [("code", 1, 4, "A"); ("pt", 6, 2, "A"); ("soln", 9, 4, "A"); ("technique", 14, 1, "A"); ("start", 16, 12, "T"); ("end", 29, 12, "T"); ("system", 42, 3, "A"); ("up", 46, 8, "F"); ("north", 55, 8, "F"); ("east", 64, 8, "F")]);
("base", "SATELLITE/ID", [("code", 1, 4, "A"); ("prn", 6, 2, "A"); ("cospar", 9, 9, "A"); ("technique", 19, 1, "A"); ("start", 21, 12, "T"); ("end", 34, 12, "T"); ("antenna", 47, 20, "A")]);
("base", "SATELLITE/PHASE_CENTER", [("code", 1, 4, "A"); ("freq1", 6, 1, "A"); ("z1", 8, 6, "F"); ("x1", 15, 6, "F"); ("y1", 22, 6, "F"); ("freq2", 29, 1, "A"); ("z2", 31, 6, "F"); ("x2", 38, 6, "F"); ("y2", 45, 6, "F"); ("model", 52, 10, "A"); ("type", 63, 1, "A"); ("applied", 65, 1, "A")]);
("base", "SOLUTION/EPOCHS", [("code", 1, 4, "A"); ("pt", 6, 2, "A"); ("soln", 9, 4, "A"); ("technique", 14, 1, "A"); ("start", 16, 12, "T"); ("end", 29, 12, "T"); ("mean", 42, 12, "T")]);
("base", "BIAS/EPOCHS", [("code", 1, 4, "A"); ("pt", 6, 2, "A"); ("soln", 9, 4, "A"); ("bias_type", 14, 1, "A"); ("start", 16, 12, "T"); ("end", 29, 12, "T"); ("mean", 42, 12, "T")]);
("base", "SOLUTION/STATISTICS", [("info_type", 1, 30, "A"); ("info", 32, 22, "F")]);
("base", "SOLUTION/ESTIMATE", [("index", 1, 5, "I"); ("type", 7, 6, "A"); ("code", 14, 4, "A"); ("pt", 19, 2, "A"); ("soln", 22, 4, "A"); ("epoch", 27, 12, "T"); ("unit", 40, 4, "A"); ("constraint", 45, 1, "A"); ("value", 47, 21, "E"); ("std", 69, 11, "E")]);
("base", "SOLUTION/APRIORI", [("index", 1, 5, "I"); ("type", 7, 6, "A"); ("code", 14, 4, "A"); ("pt", 19, 2, "A"); ("soln", 22, 4, "A"); ("epoch", 27, 12, "T"); ("unit", 40, 4, "A"); ("constraint", 45, 1, "A"); ("value", 47, 21, "E"); ("std", 69, 11, "E")]);
("base", "SOLUTION/NORMAL_EQUATION_VECTOR", [("index", 1, 5, "I"); ("type", 7, 6, "A"); ("code", 14, 4, "A"); ("pt", 19, 2, "A"); ("soln", 22, 4, "A"); ("epoch", 27, 12, "T"); ("unit", 40, 4, "A"); ("constraint", 45, 1, "A"); ("value", 47, 21, "F")]);
("base", "SOLUTION/MATRIX_ESTIMATE", [("row", 1, 5, "I"); ("col", 7, 5, "I"); ("v0", 13, 21, "F"); ("v1", 35, 21, "F"); ("v2", 57, 21, "F")]);
("base", "SOLUTION/MATRIX_APRIORI", [("row", 1, 5, "I"); ("col", 7, 5, "I"); ("v0", 13, 21, "F"); ("v1", 35, 21, "F"); ("v2", 57, 21, "F")]);
("base", "SOLUTION/NORMAL_EQUATION_MATRIX", [("row", 1, 5, "I"); ("col", 7, 5, "I"); ("v0", 13, 21, "F"); ("v1", 35, 21, "F"); ("v2", 57, 21, "F")]);
("base", "SOLUTION/DISCONTINUITY", [("code", 1, 4, "A"); ("pt", 6, 2, "A"); ("soln", 9, 4, "A"); ("technique", 14, 1, "A"); ("start", 16, 12, "T"); ("end", 29, 12, "T"); ("event", 42, 1, "A"); ("description", 44, 0, "A")]);
("base", "SOLUTION/EVENT", [("code", 1, 4, "A"); ("pt", 6, 2, "A"); ("soln", 9, 4, "A"); ("technique", 14, 1, "A"); ("start", 16, 12, "T"); ("end", 29, 12, "T"); ("event", 42, 7, "A"); ("description", 51, 0, "A")]);
("tro", "TROP/DESCRIPTION", [("keyword", 1, 29, "A"); ("value", 31, 49, "A")]);
("tro", "TROP/STA_COORDINATES", [("site", 1, 4, "A"); ("pt", 6, 2, "A"); ("soln", 9, 4, "A"); ("technique", 14, 1, "A"); ("x", 16, 12, "F"); ("y", 29, 12, "F"); ("z", 42, 12, "F"); ("system", 55, 6, "A"); ("remark", 62, 5, "A")]);
("tro", "TROP/SOLUTION", [("site", 1, 4, "A"); ("epoch", 6, 12, "T"); ("trotot", 19, 6, "F"); ("trotot_std", 26, 6, "F"); ("tgntot", 34, 6, "F"); ("tgntot_std", 41, 6, "F"); ("tgetot", 49, 6, "F"); ("tgetot_std", 56, 6, "F")]);
("tms", "%HEADER", [("version", 6, 4, "F"); ("agency", 11, 3, "A"); ("created", 15, 14, "Y"); ("data_agency", 30, 3, "A"); ("start", 34, 14, "Y"); ("end", 49, 14, "Y"); ("technique", 64, 1, "A"); ("contents", 66, 0, "A")]);
("tms", "SITE/ID", [("station", 1, 9, "A"); ("pt", 11, 2, "A"); ("domes", 14, 9, "A"); ("technique", 24, 1, "A"); ("longitude", 26, 10, "F"); ("latitude", 37, 10, "F"); ("height", 48, 8, "F"); ("description", 57, 0, "A")]);
("tms", "SITE/RECEIVER", [("station", 1, 9, "A"); ("pt", 11, 2, "A"); ("soln", 14, 4, "A"); ("technique", 19, 1, "A"); ("start", 21, 14, "Y"); ("end", 36, 14, "Y"); ("receiver", 51, 20, "A"); ("serial", 72, 20, "A"); ("firmware", 93, 11, "A")]);
("tms", "SITE/ANTENNA", [("station", 1, 9, "A"); ("pt", 11, 2, "A"); ("soln", 14, 4, "A"); ("technique", 19, 1, "A"); ("start", 21, 14, "Y"); ("end", 36, 14, "Y"); ("antenna", 51, 20, "A"); ("serial", 72, 20, "A")]);
("tms", "SITE/ECCENTRICITY", [("station", 1, 9, "A"); ("pt", 11, 2, "A"); ("soln", 14, 4, "A"); ("technique", 19, 1, "A"); ("start", 21, 14, "Y"); ("end", 36, 14, "Y"); ("system", 51, 3, "A"); ("up", 55, 8, "F"); ("north", 64, 8, "F"); ("east", 73, 8, "F")]);
("tms", "TIMESERIES/REF_COORDINATE", [("station", 1, 9, "A"); ("pt", 11, 2, "A"); ("soln", 14, 4, "A"); ("technique", 19, 1, "A"); ("epoch", 21, 14, "Y"); ("x", 36, 13, "F"); ("y", 50, 13, "F"); ("z", 64, 13, "F"); ("system", 78, 6, "A")]);
("tms", "TIMESERIES/COLUMNS", [("col", 1, 5, "F"); ("name", 7, 20, "A"); ("unit", 28, 20, "A"); ("description", 49, 0, "A")]);
("tms", "TIMESERIES/DATA", [("data", 1, 0, "L")])
].
