(* C16 - lemmas about Model/C16_Resolve.v *)
From Coq Require Import ZArith List Bool Lia.
From Verif Require Import Model.C16_Resolve.
Import ListNotations.
Open Scope Z_scope.

Lemma pair_eqb_eq : forall a b, pair_eqb a b = true -> a = b.
Proof.
  intros [a1 a2] [b1 b2]. unfold pair_eqb. cbn. rewrite andb_true_iff, !Z.eqb_eq. intros [-> ->]. reflexivity.
Qed.
Lemma pair_eqb_refl : forall a, pair_eqb a a = true.
Proof. intros [a1 a2]. unfold pair_eqb. cbn. rewrite !Z.eqb_refl. reflexivity. Qed.

Lemma mem_cons : forall k x l, mem k (x :: l) = pair_eqb k x || mem k l.
Proof. reflexivity. Qed.

Section Resolve.
  Variable has : Z -> Z -> bool.
  Variable files : Z -> list Z.
  Variable jobpn : Z -> Z * Z.
  Variable dig : Z -> Z.
  Notation import_one := (import_one has).
  Notation import_all := (import_all has).
  Notation rstep := (rstep has files jobpn dig).
  Notation rexec := (rexec has files jobpn dig).
  Notation spec_obs := (spec_obs has files jobpn dig).
  Notation rinv := (rinv has).

  Definition sound_mode (m : negmode) : Prop := m = NoNeg \/ m = NegByPair.

  Lemma import_one_ok : forall m w p n, sound_mode m -> rinv w ->
    snd (import_one m w p n) = has p n /\ rinv (fst (import_one m w p n)) /\
    (forall k, mem k (loaded w) = true -> mem k (loaded (fst (import_one m w p n))) = true) /\
    (has p n = true -> mem (p, n) (loaded (fst (import_one m w p n))) = true).
  Proof.
    intros m w p n Hm [Hl Hn]. unfold C16_Resolve.import_one.
    destruct (mem (p, n) (loaded w)) eqn:Em.
    - cbn. repeat split; auto. symmetry. apply Hl. exact Em.
    - assert (Hhit : neg_hit m (p, n) (neg w) = true -> has p n = false).
      { destruct Hm as [-> | ->]; cbn; [discriminate|]. apply Hn. }
      destruct (neg_hit m (p, n) (neg w)) eqn:En.
      + cbn. rewrite (Hhit eq_refl). repeat split; auto. discriminate.
      + destruct (has p n) eqn:Eh; cbn [fst snd loaded neg].
        * repeat split; auto.
          -- intros p' n' H. cbn [loaded neg] in H. rewrite mem_cons in H. apply orb_true_iff in H. destruct H as [H|H]; [|apply Hl; exact H].
             apply pair_eqb_eq in H. injection H as -> ->. exact Eh.
          -- intros k H. cbn [loaded neg]. rewrite mem_cons, H. apply orb_true_r.
          -- intros _. cbn [loaded neg]. rewrite mem_cons, pair_eqb_refl. reflexivity.
        * repeat split; auto; try discriminate.
          intros p' n' H. destruct Hm as [-> | ->]; cbn [loaded neg] in H; [apply Hn; exact H|].
          rewrite mem_cons in H. apply orb_true_iff in H. destruct H as [H|H]; [|apply Hn; exact H].
          apply pair_eqb_eq in H. injection H as -> ->. exact Eh.
  Qed.

  Lemma import_all_ok : forall m p l w, sound_mode m -> rinv w ->
    rinv (import_all m w p l) /\
    (forall k, mem k (loaded w) = true -> mem k (loaded (import_all m w p l)) = true) /\
    (forall n, In n l -> has p n = true -> mem (p, n) (loaded (import_all m w p l)) = true).
  Proof.
    intros m p. induction l as [|n r IH]; intros w Hm Hi; cbn.
    - split; [exact Hi|]. split; [auto|]. intros n [].
    - destruct (import_one_ok m w p n Hm Hi) as (_ & Hi' & Hmono & Hin).
      destruct (IH (fst (import_one m w p n)) Hm Hi') as (Hi2 & Hmono2 & Hin2).
      split; [exact Hi2|]. split; [intros k H; apply Hmono2, Hmono, H|].
      intros n' [<-|H] Hh; [apply Hmono2, Hin; exact Hh|apply Hin2; assumption].
  Qed.

  Lemma rstep_ok : forall m w o, sound_mode m -> rinv w ->
    snd (rstep m w o) = spec_obs o /\ rinv (fst (rstep m w o)).
  Proof.
    intros m w o Hm Hi. destruct o as [p|p n|p n|j]; cbn.
    - destruct (import_all_ok m p (files p) w Hm Hi) as (Hi' & _ & Hin). split; [|exact Hi'].
      f_equal. apply filter_ext_in. intros n Hn.
      destruct (has p n) eqn:Eh; [apply Hin; assumption|].
      destruct (mem (p, n) (loaded (import_all m w p (files p)))) eqn:Em; [|reflexivity].
      destruct Hi' as [Hl _]. rewrite (Hl p n Em) in Eh. discriminate.
    - destruct (import_one_ok m w p n Hm Hi) as (Hb & Hi' & _).
      destruct (import_one m w p n) as [w' b]. cbn in *. subst b. auto.
    - destruct (import_one_ok m w p n Hm Hi) as (Hb & Hi' & _).
      destruct (import_one m w p n) as [w' b]. cbn in *. subst b. auto.
    - destruct (import_one_ok m w (fst (jobpn j)) (snd (jobpn j)) Hm Hi) as (Hb & Hi' & _).
      destruct (import_one m w (fst (jobpn j)) (snd (jobpn j))) as [w' b]. cbn in *. subst b. auto.
  Qed.

  (* every look-up, listing and parse_file in every history answers as the specification: a function of the operation *)
  Lemma rexec_pure : forall m ops w, sound_mode m -> rinv w -> rexec m w ops = map spec_obs ops.
  Proof.
    intros m. induction ops as [|o r IH]; intros w Hm Hi; [reflexivity|].
    cbn. destruct (rstep_ok m w o Hm Hi) as [Ho Hi'].
    destruct (rstep m w o) as [w' x]. cbn in *. subst x. f_equal. apply IH; assumption.
  Qed.

  Lemma rinv_empty : rinv (mkR [] []).
  Proof. split; intros p n H; discriminate. Qed.
End Resolve.

(* the quirk: a negative cache keyed on the bare name.  Package 0 has module 7 (a plug-in), package 1 has not. *)
Definition wit_has (p n : Z) : bool := (p =? 0) && (n =? 7).
Lemma negcache_refuted :
  rexec wit_has (fun _ => [7]) (fun _ => (0, 7)) (fun _ => 99) NegByName (mkR [] []) [RExists 1 7; RGet 0 7; RNames 0; RParse 0]
    = [OBool false; OBool false; OList []; OBool false] /\
  rexec wit_has (fun _ => [7]) (fun _ => (0, 7)) (fun _ => 99) NoNeg (mkR [] []) [RExists 1 7; RGet 0 7; RNames 0; RParse 0]
    = [OBool false; OBool true; OList [7]; ODig 99] /\
  rexec wit_has (fun _ => [7]) (fun _ => (0, 7)) (fun _ => 99) NegByName (mkR [] []) [RGet 0 7; RExists 1 7; RGet 0 7]
    = [OBool true; OBool false; OBool true].
Proof. repeat split; vm_compute; reflexivity. Qed.
