(* C19 - lemmas about the configuration model (all unbounded: any operation sequence, any profile list). *)
From Coq Require Import ZArith List Bool String Ascii Lia.
From Verif Require Import Gen.C19_BoolStates Model.C19_Config.
Import ListNotations.
Open Scope string_scope.

(* ================================================================== association lists *)
Section AssocFacts.
  Variables (K V : Type) (eqb : K -> K -> bool).
  Hypothesis eqb_spec : forall a b, eqb a b = true <-> a = b.

  Lemma eqb_refl_ k : eqb k k = true.
  Proof. apply eqb_spec. reflexivity. Qed.

  Lemma eqb_neq_ a b : a <> b -> eqb a b = false.
  Proof. intros H. destruct (eqb a b) eqn:E; [apply eqb_spec in E; contradiction|reflexivity]. Qed.

  Lemma aget_aset_same (l : list (K * V)) k v : aget eqb k (aset eqb l k v) = Some v.
  Proof.
    induction l as [|[k' v'] r IH]; simpl.
    - rewrite eqb_refl_. reflexivity.
    - destruct (eqb k k') eqn:E; simpl; rewrite E; [reflexivity|exact IH].
  Qed.

  Lemma aget_aset_other (l : list (K * V)) k k' v : k <> k' -> aget eqb k' (aset eqb l k v) = aget eqb k' l.
  Proof.
    intros N. induction l as [|[k0 v0] r IH]; simpl.
    - rewrite eqb_neq_; [reflexivity|congruence].
    - destruct (eqb k k0) eqn:E; simpl.
      + apply eqb_spec in E. subst k0. rewrite !eqb_neq_ by congruence. reflexivity.
      + destruct (eqb k' k0); [reflexivity|exact IH].
  Qed.

  Lemma aget_none_notin (l : list (K * V)) k : aget eqb k l = None <-> ~ In k (map fst l).
  Proof.
    induction l as [|[k0 v0] r IH]; simpl.
    - split; [intros _ []|reflexivity].
    - destruct (eqb k k0) eqn:E.
      + apply eqb_spec in E. subst. split; [discriminate|intros H; exfalso; apply H; left; reflexivity].
      + rewrite IH. split.
        * intros H [H1|H1]; [subst; rewrite eqb_refl_ in E; discriminate|contradiction].
        * intros H H1. apply H. right. exact H1.
  Qed.

  Lemma keys_aset (l : list (K * V)) k v :
    map fst (aset eqb l k v) = if amem eqb k l then map fst l else (map fst l ++ [k])%list.
  Proof.
    unfold amem. induction l as [|[k0 v0] r IH]; simpl; [reflexivity|].
    destruct (eqb k k0) eqn:E; simpl; [reflexivity|].
    rewrite IH. destruct (aget eqb k r); reflexivity.
  Qed.

  Lemma nodup_snoc (l : list K) k : NoDup l -> ~ In k l -> NoDup (l ++ [k]).
  Proof.
    induction l as [|a r IH]; simpl; intros ND NI.
    - constructor; [intros []|constructor].
    - inversion ND; subst. constructor.
      + rewrite in_app_iff. intros [H|[H|[]]]; [contradiction|subst; apply NI; left; reflexivity].
      + apply IH; [assumption|intros H; apply NI; right; exact H].
  Qed.

  Lemma nodup_aset (l : list (K * V)) k v : NoDup (map fst l) -> NoDup (map fst (aset eqb l k v)).
  Proof.
    intros ND. rewrite keys_aset. unfold amem. destruct (aget eqb k l) eqn:E; [exact ND|].
    apply nodup_snoc; [exact ND|]. apply aget_none_notin. exact E.
  Qed.

  Lemma in_aset (l : list (K * V)) k v x : In x (aset eqb l k v) -> x = (k, v) \/ In x l.
  Proof.
    induction l as [|[k0 v0] r IH]; simpl.
    - intros [H|[]]; left; symmetry; exact H.
    - destruct (eqb k k0) eqn:E; simpl.
      + apply eqb_spec in E. subst. intros [H|H]; [left; symmetry; exact H|right; right; exact H].
      + intros [H|H]; [right; left; exact H|]. destruct (IH H); [left; assumption|right; right; assumption].
  Qed.

  Lemma aget_in (l : list (K * V)) k v : aget eqb k l = Some v -> In (k, v) l.
  Proof.
    induction l as [|[k0 v0] r IH]; simpl; [discriminate|].
    destruct (eqb k k0) eqn:E.
    - apply eqb_spec in E. subst. intros H. inversion H. left. reflexivity.
    - intros H. right. apply IH. exact H.
  Qed.

  Lemma in_aget (l : list (K * V)) k v : NoDup (map fst l) -> In (k, v) l -> aget eqb k l = Some v.
  Proof.
    induction l as [|[k0 v0] r IH]; simpl; [intros _ []|].
    intros ND [H|H].
    - inversion H. subst. rewrite eqb_refl_. reflexivity.
    - inversion ND; subst. destruct (eqb k k0) eqn:E.
      + apply eqb_spec in E. subst. exfalso. apply H2. apply (in_map fst) in H. exact H.
      + apply IH; assumption.
  Qed.

  Lemma aget_app_notin (l : list (K * V)) k k' v :
    aget eqb k' (l ++ [(k, v)]) = match aget eqb k' l with Some x => Some x | None => if eqb k' k then Some v else None end.
  Proof.
    induction l as [|[k0 v0] r IH]; simpl; [reflexivity|].
    destruct (eqb k' k0); [reflexivity|exact IH].
  Qed.

  (* last binding of a key in a list of pairs that is written into a dictionary one after the other *)
  Fixpoint alast (k : K) (l : list (K * V)) : option V :=
    match l with
    | [] => None
    | (k', v) :: r => match alast k r with Some x => Some x | None => if eqb k k' then Some v else None end
    end.

  Lemma alast_nodup (l : list (K * V)) k : NoDup (map fst l) -> alast k l = aget eqb k l.
  Proof.
    induction l as [|[k0 v0] r IH]; simpl; [reflexivity|].
    intros ND. inversion ND; subst. rewrite (IH H2).
    destruct (eqb k k0) eqn:E.
    - apply eqb_spec in E. subst. apply aget_none_notin in H1. rewrite H1. reflexivity.
    - destruct (aget eqb k r); reflexivity.
  Qed.
End AssocFacts.

Lemma string_eqb_spec (a b : string) : String.eqb a b = true <-> a = b.
Proof. apply String.eqb_eq. Qed.

Lemma prof_eqb_spec (a b : profile) : prof_eqb a b = true <-> a = b.
Proof.
  destruct a, b; simpl; try (split; [discriminate|intros H; discriminate H]); try tauto.
  rewrite String.eqb_eq. split; [intros ->; reflexivity|intros H; inversion H; reflexivity].
Qed.

(* ================================================================== well-formed dictionaries *)

Definition wf_sections (ss : sections) : Prop :=
  NoDup (map fst ss) /\ Forall (fun ns => NoDup (map fst (snd ns))) ss.
Definition wf_raw (raw : rawdata) : Prop := Forall (fun px => wf_sections (snd px)) raw.

Lemma sget_in {V} (l : list (string * V)) k v : sget k l = Some v -> In (k, v) l.
Proof. apply aget_in. exact string_eqb_spec. Qed.

Lemma wf_sections_sect ss sn s : wf_sections ss -> sget sn ss = Some s -> NoDup (map fst s).
Proof.
  intros [_ F] H. apply sget_in in H. rewrite Forall_forall in F. apply (F _ H).
Qed.

Lemma wf_raw_get raw p ps : wf_raw raw -> pget p raw = Some ps -> wf_sections ps.
Proof.
  intros F H. apply (aget_in _ _ _ prof_eqb_spec) in H. unfold wf_raw in F. rewrite Forall_forall in F. apply (F _ H).
Qed.

Lemma forall_aset {K V} (eqb : K -> K -> bool) (spec : forall a b, eqb a b = true <-> a = b)
      (P : K * V -> Prop) (l : list (K * V)) k v :
  Forall P l -> P (k, v) -> Forall P (aset eqb l k v).
Proof.
  intros F Pk. rewrite Forall_forall in *. intros x Hx.
  destruct (in_aset _ _ _ spec _ _ _ _ Hx) as [->|H]; [exact Pk|apply F; exact H].
Qed.

Lemma wf_ensure ss sn : wf_sections ss -> wf_sections (ensure_section ss sn).
Proof.
  intros [ND F]. unfold ensure_section. destruct (sget sn ss) eqn:E; [split; assumption|].
  split.
  - rewrite map_app. simpl. apply nodup_snoc; [exact ND|].
    apply (aget_none_notin _ _ _ string_eqb_spec). exact E.
  - apply Forall_app. split; [exact F|]. constructor; [simpl; constructor|constructor].
Qed.

Lemma wf_set_entry ss sn key e : wf_sections ss -> wf_sections (set_entry ss sn key e).
Proof.
  intros W. unfold set_entry. pose proof (wf_ensure ss sn W) as W'.
  destruct (sget sn (ensure_section ss sn)) as [s|] eqn:E; [|exact W'].
  destruct W' as [ND F]. split.
  - apply nodup_aset; [exact string_eqb_spec|exact ND].
  - apply forall_aset; [exact string_eqb_spec|exact F|]. simpl.
    apply nodup_aset; [exact string_eqb_spec|].
    apply (wf_sections_sect (ensure_section ss sn) sn); [split; assumption|exact E].
Qed.

Lemma wf_sections_nil : wf_sections [].
Proof. split; constructor. Qed.

Lemma wf_raw_pset raw p ps : wf_raw raw -> wf_sections ps -> wf_raw (pset raw p ps).
Proof. intros F W. apply forall_aset; [exact prof_eqb_spec|exact F|exact W]. Qed.

(* ================================================================== lookup in the flattened view *)

Lemma lookup2_ensure ss sn sn' k : lookup2 (ensure_section ss sn) sn' k = lookup2 ss sn' k.
Proof.
  unfold ensure_section, lookup2, sget. destruct (aget String.eqb sn ss) eqn:E; [reflexivity|].
  rewrite aget_app_notin. destruct (aget String.eqb sn' ss) eqn:E'.
  - unfold sections, sect in *. rewrite E'. reflexivity.
  - unfold sections, sect in *. rewrite E'. destruct (String.eqb sn' sn); reflexivity.
Qed.

Lemma sget_ensure ss sn : exists s, sget sn (ensure_section ss sn) = Some s /\
                                    (forall k, sget k s = lookup2 ss sn k).
Proof.
  unfold ensure_section, lookup2, sget, sections, sect in *. destruct (aget String.eqb sn ss) as [s|] eqn:E.
  - exists s. rewrite E. split; reflexivity.
  - exists []. split; [|reflexivity]. rewrite aget_app_notin.
    rewrite E, String.eqb_refl. reflexivity.
Qed.

Lemma lookup2_set_entry ss sn key e sn' k' :
  lookup2 (set_entry ss sn key e) sn' k' =
  if (String.eqb sn sn' && String.eqb key k')%bool then Some e else lookup2 ss sn' k'.
Proof.
  unfold set_entry. destruct (sget_ensure ss sn) as [s [E Hs]]. rewrite E.
  destruct (String.eqb sn sn') eqn:En; simpl.
  - apply String.eqb_eq in En. subst sn'. unfold lookup2 at 1. unfold sset, sget.
    rewrite (aget_aset_same _ _ _ string_eqb_spec).
    destruct (String.eqb key k') eqn:Ek.
    + apply String.eqb_eq in Ek. subst. apply (aget_aset_same _ _ _ string_eqb_spec).
    + rewrite (aget_aset_other _ _ _ string_eqb_spec).
      * apply Hs.
      * intros ->. rewrite String.eqb_refl in Ek. discriminate.
  - rewrite <- (lookup2_ensure ss sn sn' k'). unfold lookup2, sset, sget.
    rewrite (aget_aset_other _ _ _ string_eqb_spec); [reflexivity|].
    intros ->. rewrite String.eqb_refl in En. discriminate.
Qed.

Lemma lookup2_fold_entries (s : sect) : forall v sn sn' k',
  lookup2 (fold_left (fun v' ke => set_entry v' sn (fst ke) (snd ke)) s v) sn' k' =
  if String.eqb sn sn'
  then match alast _ _ String.eqb k' s with Some e => Some e | None => lookup2 v sn' k' end
  else lookup2 v sn' k'.
Proof.
  induction s as [|[k0 e0] r IH]; intros v sn sn' k'; simpl.
  - destruct (String.eqb sn sn'); reflexivity.
  - rewrite IH. rewrite lookup2_set_entry. simpl.
    destruct (String.eqb sn sn') eqn:En; simpl; [|reflexivity].
    destruct (alast _ _ String.eqb k' r); [reflexivity|].
    rewrite (String.eqb_sym k' k0). destruct (String.eqb k0 k'); reflexivity.
Qed.

Lemma lookup2_merge_section v sn s sn' k' :
  NoDup (map fst s) ->
  lookup2 (merge_section v sn s) sn' k' =
  if String.eqb sn sn' then match sget k' s with Some e => Some e | None => lookup2 v sn' k' end
  else lookup2 v sn' k'.
Proof.
  intros ND. unfold merge_section. rewrite lookup2_fold_entries, lookup2_ensure.
  rewrite (alast_nodup _ _ _ string_eqb_spec _ _ ND). reflexivity.
Qed.

Lemma lookup2_merge_sections ps : forall v sn k,
  wf_sections ps ->
  lookup2 (merge_sections v ps) sn k =
  match lookup2 ps sn k with Some e => Some e | None => lookup2 v sn k end.
Proof.
  induction ps as [|[sn0 s0] r IH]; intros v sn k [ND F]; [reflexivity|].
  unfold merge_sections. simpl. fold (merge_sections (merge_section v sn0 s0) r).
  inversion ND; subst. inversion F; subst. simpl in *.
  rewrite IH by (split; assumption).
  rewrite lookup2_merge_section by assumption.
  assert (Hc : lookup2 ((sn0, s0) :: r) sn k = if String.eqb sn sn0 then sget k s0 else lookup2 r sn k).
  { unfold lookup2, sget. simpl. destruct (String.eqb sn sn0); reflexivity. }
  rewrite Hc. destruct (String.eqb sn sn0) eqn:E.
  - apply String.eqb_eq in E. subst sn0. rewrite String.eqb_refl.
    assert (Hn : lookup2 r sn k = None).
    { unfold lookup2, sget. unfold sections, sect in *.
      rewrite (proj2 (aget_none_notin _ _ _ string_eqb_spec r sn) H1). reflexivity. }
    rewrite Hn. reflexivity.
  - rewrite String.eqb_sym, E. reflexivity.
Qed.

Lemma flatten_cons p ps raw :
  flatten (p :: ps) raw =
  match pget p raw with Some x => merge_sections (flatten ps raw) x | None => flatten ps raw end.
Proof. unfold flatten. simpl. rewrite fold_left_app. reflexivity. Qed.

(* the flattened view is the declarative "first listed profile that defines it" *)
Lemma flatten_lookup raw ps sn k :
  wf_raw raw -> lookup2 (flatten ps raw) sn k = first_def ps raw sn k.
Proof.
  intros W. induction ps as [|p r IH]; [reflexivity|].
  rewrite flatten_cons. simpl. destruct (pget p raw) as [x|] eqn:E; [|exact IH].
  rewrite lookup2_merge_sections by (eapply wf_raw_get; eassumption).
  rewrite IH. reflexivity.
Qed.

(* ================================================================== the invariant over operation sequences *)

Definition inv (c : config) : Prop := wf_raw (c_raw c) /\ c_view c = flatten (c_profiles c) (c_raw c).

Lemma inv_refresh c : wf_raw (c_raw c) -> inv (refresh c).
Proof. destruct c. intros W. split; [exact W|reflexivity]. Qed.

Lemma refresh_profiles c : c_profiles (refresh c) = c_profiles c.
Proof. destruct c; reflexivity. Qed.
Lemma refresh_raw c : c_raw (refresh c) = c_raw c.
Proof. destruct c; reflexivity. Qed.

Lemma update1_ok c u a c' :
  update1 c u a = Ok c' -> wf_raw (c_raw c) -> wf_raw (c_raw c') /\ c_profiles c' = c_profiles c.
Proof.
  unfold update1. intros H W.
  destruct (if a then Ok tt else _) ; [|discriminate].
  inversion H; subst; clear H. destruct c; simpl in *. split; [|reflexivity].
  apply wf_raw_pset; [exact W|]. apply wf_set_entry.
  destruct (pget (u_prof u) raw) eqn:E; [eapply wf_raw_get; eassumption|exact wf_sections_nil].
Qed.

Lemma batch_inv us : forall c a s,
  wf_raw (c_raw c) ->
  inv (fst (batch all_off c us a s)) /\ c_profiles (fst (batch all_off c us a s)) = c_profiles c.
Proof.
  induction us as [|[u|e] r IH]; intros c a s W; simpl.
  - split; [apply inv_refresh; exact W|apply refresh_profiles].
  - destruct (update1 c u a) as [c'|e] eqn:E.
    + destruct (update1_ok _ _ _ _ E W) as [W' P']. destruct (IH c' a s W') as [I P]. split; [exact I|congruence].
    + destruct e; try (split; [apply inv_refresh; exact W|apply refresh_profiles]).
      destruct s; [apply IH; exact W|split; [apply inv_refresh; exact W|apply refresh_profiles]].
  - split; [apply inv_refresh; exact W|apply refresh_profiles].
Qed.

Lemma options_batch_inv opts : forall c p src a,
  wf_raw (c_raw c) ->
  inv (fst (options_batch all_off c opts p src a)) /\
  c_profiles (fst (options_batch all_off c opts p src a)) = c_profiles c.
Proof.
  induction opts as [|o r IH]; intros c p src a W; simpl.
  - split; [apply inv_refresh; exact W|apply refresh_profiles].
  - destruct (option_upd c o p src) as [[u|e]|].
    + destruct (update1 c u a) as [c'|e] eqn:E.
      * destruct (update1_ok _ _ _ _ E W) as [W' P']. destruct (IH c' p src a W') as [I P]. split; [exact I|congruence].
      * destruct e; try (split; [apply inv_refresh; exact W|apply refresh_profiles]). apply IH; exact W.
    + split; [apply inv_refresh; exact W|apply refresh_profiles].
    + apply IH; exact W.
Qed.

Lemma with_vars_facts c x : c_raw (with_vars c x) = c_raw c /\ c_profiles (with_vars c x) = c_profiles c
                            /\ c_view (with_vars c x) = c_view c.
Proof. destruct c; repeat split. Qed.

Definition is_profiles_op (o : op) : bool := match o with OProfiles _ => true | _ => false end.

Lemma flatten_nil_raw ps : flatten ps [] = [].
Proof. induction ps as [|p r IH]; [reflexivity|]. rewrite flatten_cons. simpl. exact IH. Qed.

Lemma apply_op_inv c o : inv c -> inv (fst (apply_op all_off c o)).
Proof.
  intros [W V]. destruct o; simpl.
  - destruct (update1 c u allow_new) as [c'|e] eqn:E; simpl; [|split; assumption].
    apply inv_refresh. apply (update1_ok _ _ _ _ E W).
  - destruct (match sec with Some s => Ok s | None => _ end); [|split; assumption]. apply batch_inv. exact W.
  - apply options_batch_inv. exact W.
  - destruct (parse_ini all_off case_sensitive text); [|split; assumption].
    apply batch_inv. destruct (sget "__vars__" a); [|exact W].
    destruct (with_vars_facts c (merge_vars (c_vars c) (valued l))) as [-> _]. exact W.
  - apply inv_refresh. destruct c; exact W.
  - destruct c; split; assumption.
  - destruct c; split; assumption.
  - destruct c; split; assumption.
  - destruct c; split; assumption.
  - destruct c; simpl. split; [constructor|]. simpl. symmetry. apply flatten_nil_raw.
Qed.

Lemma apply_op_profiles c o :
  wf_raw (c_raw c) -> is_profiles_op o = false -> c_profiles (fst (apply_op all_off c o)) = c_profiles c.
Proof.
  intros W N. destruct o; simpl in *; try discriminate.
  - destruct (update1 c u allow_new) as [c'|e] eqn:E; simpl; [|reflexivity].
    rewrite refresh_profiles. apply (update1_ok _ _ _ _ E W).
  - destruct (match sec with Some s => Ok s | None => _ end); [|reflexivity]. apply batch_inv. exact W.
  - apply options_batch_inv. exact W.
  - destruct (parse_ini all_off case_sensitive text); [|reflexivity].
    destruct (sget "__vars__" a).
    + destruct (with_vars_facts c (merge_vars (c_vars c) (valued l))) as [R [P _]].
      rewrite <- P. apply batch_inv. rewrite R. exact W.
    + apply batch_inv. exact W.
  - destruct c; reflexivity.
  - destruct c; reflexivity.
  - destruct c; reflexivity.
  - destruct c; reflexivity.
  - destruct c; reflexivity.
Qed.

Lemma run_inv ops : forall c, inv c -> inv (run all_off ops c).
Proof.
  induction ops as [|o r IH]; intros c I; [exact I|].
  unfold run. simpl. apply IH. apply apply_op_inv. exact I.
Qed.

Lemma inv_empty name : inv (empty_config name).
Proof. split; [constructor|reflexivity]. Qed.

Lemma run_app q a b c : run q (a ++ b) c = run q b (run q a c).
Proof. unfold run. apply fold_left_app. Qed.

Lemma run_profiles_stable ops : forall c,
  inv c -> forallb (fun o => negb (is_profiles_op o)) ops = true ->
  c_profiles (run all_off ops c) = c_profiles c.
Proof.
  induction ops as [|o r IH]; intros c I H; [reflexivity|].
  simpl in H. apply andb_true_iff in H. destruct H as [H1 H2].
  unfold run. simpl. fold (run all_off r (fst (apply_op all_off c o))).
  rewrite IH; [|apply apply_op_inv; exact I|exact H2].
  apply apply_op_profiles; [exact (proj1 I)|]. destruct (is_profiles_op o); [discriminate|reflexivity].
Qed.

(* ---- statements used by Props *)

Lemma view_flattened ops name :
  let c := run all_off ops (empty_config name) in
  c_view c = flatten (c_profiles c) (c_raw c) /\
  forall sn key, lookup2 (c_view c) sn key = first_def (c_profiles c) (c_raw c) sn key.
Proof.
  intros c. destruct (run_inv ops _ (inv_empty name)) as [W V]. fold c in W, V.
  split; [exact V|]. intros sn key. rewrite V. apply flatten_lookup. exact W.
Qed.

Definition default_or (key : string) (d : option string) (orig : err) : res entry :=
  match d with Some dv => Ok (mk_entry key dv "default value") | None => Err orig end.

Lemma get_unfold q c key section d :
  get q c key None section d =
  match local_get q c key section with
  | Ok e => Ok e
  | Err orig =>
      match c_fallback c with
      | None => default_or key d orig
      | Some f =>
          match get q f key None section None with
          | Ok e => Ok e
          | Err ErrSection => if q_fbsect q then Err ErrSection else default_or key d orig
          | Err _ => default_or key d orig
          end
      end
  end.
Proof. destruct c; reflexivity. Qed.

Lemma get_local_ok q c key section d e : local_get q c key section = Ok e -> get q c key None section d = Ok e.
Proof. intros H. rewrite get_unfold, H. reflexivity. Qed.

Lemma get_of_view q c key sn d e :
  lookup2 (c_view c) sn key = Some e -> get q c key None (Some sn) d = Ok e.
Proof.
  intros H. unfold lookup2 in H. destruct (sget sn (c_view c)) as [s|] eqn:E; [|discriminate].
  apply get_local_ok.
  unfold local_get. destruct c; simpl in *. rewrite E. unfold sect_get. rewrite H. reflexivity.
Qed.

Lemma lookup_first ops name sn key d e :
  let c := run all_off ops (empty_config name) in
  first_def (c_profiles c) (c_raw c) sn key = Some e ->
  get all_off c key None (Some sn) d = Ok e.
Proof.
  intros c H. apply get_of_view. rewrite (proj2 (view_flattened ops name)). exact H.
Qed.

Lemma getitem_err c k e : getitem c k = Err e -> e = ErrSection \/ e = ErrEntry.
Proof.
  destruct c; simpl. destruct (sget k view); [discriminate|].
  destruct (master_section _) as [[m ms]|e0].
  - destruct (sget k ms); [discriminate|]. intros H; inversion H; right; reflexivity.
  - destruct fallback.
    + destruct (getitem c k); [discriminate|]. intros H; inversion H; left; reflexivity.
    + intros H; inversion H; left; reflexivity.
Qed.

Lemma getitem_unfold c key :
  getitem c key =
  match sget key (c_view c) with
  | Some s => Ok (ISection s)
  | None =>
      match master_section c with
      | Ok (_, ms) => match sget key ms with Some e => Ok (IEntry e) | None => Err ErrEntry end
      | Err _ =>
          match c_fallback c with
          | None => Err ErrSection
          | Some f => match getitem f key with Ok i => Ok i | Err _ => Err ErrSection end
          end
      end
  end.
Proof. destruct c as [n raw ps view m [f|] vs]; reflexivity. Qed.

(* when no listed profile defines (section, key): either the local lookup fails with one of the two documented
   errors, or (section unknown here, no master section) __getitem__ already answered from the fallback *)
Lemma local_get_cases c key sn :
  lookup2 (c_view c) sn key = None ->
  (exists orig, (orig = ErrSection \/ orig = ErrEntry) /\ local_get all_off c key (Some sn) = Err orig) \/
  (exists f e, c_fallback c = Some f /\ local_get all_off c key (Some sn) = Ok e /\
               local_get all_off f key (Some sn) = Ok e).
Proof.
  intros H. unfold lookup2 in H. unfold local_get at 1 2. rewrite getitem_unfold.
  destruct (sget sn (c_view c)) as [s|] eqn:E.
  - left. unfold sect_get. rewrite H. exists ErrEntry. split; [right|]; reflexivity.
  - destruct (master_section c) as [[m0 ms]|e0].
    + left. destruct (sget sn ms); [exists ErrSection; split; [left|]; reflexivity|exists ErrEntry; split; [right|]; reflexivity].
    + destruct (c_fallback c) as [f|] eqn:F; [|left; exists ErrSection; split; [left|]; reflexivity].
      destruct (getitem f sn) as [i|e1] eqn:G; [|left; exists ErrSection; split; [left|]; reflexivity].
      destruct i as [s|e1].
      * destruct (sect_get s key) as [e|e2] eqn:S.
        -- right. exists f, e. split; [reflexivity|]. split; [reflexivity|].
           unfold local_get. rewrite G. exact S.
        -- left. exists e2. split; [|reflexivity]. unfold sect_get in S. destruct (sget key s); [discriminate|].
           inversion S. right. reflexivity.
      * left. exists ErrSection. split; [left|]; reflexivity.
Qed.

Lemma get_fallback_default c key sn d :
  lookup2 (c_view c) sn key = None ->
  exists orig, (orig = ErrSection \/ orig = ErrEntry) /\
  get all_off c key None (Some sn) d =
  match c_fallback c with
  | Some f => match get all_off f key None (Some sn) None with Ok e => Ok e | Err _ => default_or key d orig end
  | None => default_or key d orig
  end.
Proof.
  intros H. destruct (local_get_cases c key sn H) as [[orig [Ho L]]|[f [e [F [L Lf]]]]].
  - exists orig. split; [exact Ho|]. rewrite get_unfold, L. destruct (c_fallback c) as [f|]; [|reflexivity].
    destruct (get all_off f key None (Some sn) None) as [e|[]]; reflexivity.
  - exists ErrSection. split; [left; reflexivity|]. rewrite (get_local_ok _ _ _ _ _ _ L), F.
    rewrite (get_local_ok _ _ _ _ _ _ Lf). reflexivity.
Qed.

Lemma fallback_default ops name sn key d :
  let c := run all_off ops (empty_config name) in
  first_def (c_profiles c) (c_raw c) sn key = None ->
  exists orig, (orig = ErrSection \/ orig = ErrEntry) /\
  get all_off c key None (Some sn) d =
  match c_fallback c with
  | Some f => match get all_off f key None (Some sn) None with Ok e => Ok e | Err _ => default_or key d orig end
  | None => default_or key d orig
  end.
Proof.
  intros c H. apply get_fallback_default. rewrite (proj2 (view_flattened ops name)). exact H.
Qed.

Lemma override q c key v section d : get q c key (Some v) section d = Ok (mk_entry key v "method call").
Proof. destruct c; reflexivity. Qed.

(* master section *)
Lemma local_master q c key m s :
  c_master c = Some m -> sget m (c_view c) = Some s ->
  local_get q c key None = sect_get s key /\ local_get q c key (Some m) = sect_get s key.
Proof.
  intros M S. destruct c as [n raw ps view m0 fb vs]. simpl in *. subst m0.
  unfold local_get, master_section. simpl. rewrite S. split; reflexivity.
Qed.

Lemma master_no_fallback q c key m d :
  c_master c = Some m -> sget m (c_view c) <> None -> c_fallback c = None ->
  get q c key None None d = get q c key None (Some m) d.
Proof.
  intros M S F. destruct (sget m (c_view c)) as [s|] eqn:E; [|contradiction].
  destruct (local_master q c key m s M E) as [L1 L2].
  rewrite !get_unfold, L1, L2, F. reflexivity.
Qed.

Lemma master_first ops name m key d e :
  let c := run all_off ops (empty_config name) in
  c_master c = Some m -> first_def (c_profiles c) (c_raw c) m key = Some e ->
  get all_off c key None None d = Ok e.
Proof.
  intros c M H. rewrite <- (proj2 (view_flattened ops name)) in H. fold c in H.
  unfold lookup2 in H. destruct (sget m (c_view c)) as [s|] eqn:E; [|discriminate].
  destruct (local_master all_off c key m s M E) as [L1 _].
  apply get_local_ok. rewrite L1. unfold sect_get. rewrite H. reflexivity.
Qed.

(* re-prioritisation *)
Lemma last_norm ps : last (norm_profiles ps) (Some EmptyString) = None.
Proof.
  destruct ps as [l|]; [|reflexivity]. simpl.
  destruct (last l (Some EmptyString)) eqn:E; [apply last_last|exact E].
Qed.

Lemma reprioritised ops ps ops' name :
  forallb (fun o => negb (is_profiles_op o)) ops' = true ->
  let c := run all_off (ops ++ OProfiles ps :: ops') (empty_config name) in
  c_profiles c = norm_profiles ps /\
  c_view c = flatten (norm_profiles ps) (c_raw c) /\
  forall sn key, lookup2 (c_view c) sn key = first_def (norm_profiles ps) (c_raw c) sn key.
Proof.
  intros N c.
  assert (P : c_profiles c = norm_profiles ps).
  { unfold c. rewrite run_app. change (OProfiles ps :: ops') with (([OProfiles ps] ++ ops')%list). rewrite run_app.
    rewrite run_profiles_stable; [| |exact N].
    - unfold run. simpl. rewrite refresh_profiles. destruct (fold_left _ ops _); reflexivity.
    - apply run_inv. apply run_inv. apply inv_empty. }
  destruct (view_flattened (ops ++ OProfiles ps :: ops') name) as [V L]. fold c in V, L.
  rewrite P in V, L. repeat split; assumption.
Qed.

Lemma profiles_end_none ops : forall c,
  last (c_profiles c) (Some EmptyString) = None -> wf_raw (c_raw c) -> inv c ->
  last (c_profiles (run all_off ops c)) (Some EmptyString) = None.
Proof.
  induction ops as [|o r IH]; intros c H W I; [exact H|].
  unfold run. simpl. fold (run all_off r (fst (apply_op all_off c o))).
  pose proof (apply_op_inv c o I) as I'.
  apply IH; [|exact (proj1 I')|exact I'].
  destruct (is_profiles_op o) eqn:E.
  - destruct o; try discriminate. simpl. rewrite refresh_profiles. destruct c; simpl. apply last_norm.
  - rewrite apply_op_profiles; assumption.
Qed.

Lemma profiles_end_none_run ops name :
  last (c_profiles (run all_off ops (empty_config name))) (Some EmptyString) = None.
Proof. apply profiles_end_none; [reflexivity|constructor|apply inv_empty]. Qed.

(* ================================================================== typed accessors *)

Lemma split_where_comma v :
  split_where is_space (smap (fun a => if Ascii.eqb a comma then sp else a) v) = split_where is_sep v.
Proof.
  induction v as [|a r IH]; [reflexivity|]. simpl. unfold is_sep at 1.
  destruct (Ascii.eqb a comma) eqn:E.
  - rewrite orb_true_r. change (is_space sp) with true. simpl. rewrite IH. reflexivity.
  - rewrite orb_false_r. destruct (is_space a); rewrite IH; reflexivity.
Qed.

Lemma as_list_is_list v : val_as_list v = val_list v.
Proof. unfold val_as_list, val_list, py_split. rewrite split_where_comma. reflexivity. Qed.

Lemma split_where_pieces p s : Forall (fun x => sall (fun a => negb (p a)) x = true) (split_where p s).
Proof.
  induction s as [|a r IH]; simpl; [repeat constructor|].
  destruct (p a) eqn:E; [constructor; [reflexivity|exact IH]|].
  destruct (split_where p r) as [|h t]; [repeat constructor; simpl; rewrite E; reflexivity|].
  inversion IH; subst. constructor; [simpl; rewrite E; simpl; assumption|assumption].
Qed.

Lemma list_items v : Forall (fun x => nonempty x = true /\ sall (fun a => negb (is_sep a)) x = true) (val_list v).
Proof.
  rewrite <- as_list_is_list. unfold val_as_list. rewrite Forall_forall. intros x Hx.
  apply filter_In in Hx. destruct Hx as [Hx Hn]. split; [exact Hn|].
  pose proof (split_where_pieces is_sep v) as F. rewrite Forall_forall in F. apply F. exact Hx.
Qed.

Lemma partition_found c s : snd (fst (partition_on c s)) = has_char c s.
Proof.
  induction s as [|a r IH]; [reflexivity|]. simpl. unfold has_char in *. simpl.
  rewrite (Ascii.eqb_sym c a). destruct (Ascii.eqb a c); [reflexivity|].
  destruct (partition_on c r) as [[b f] t]. simpl in *. exact IH.
Qed.

Lemma dict_maps l :
  map (fun p : string * bool * string => (fst (fst p), snd p)) (map (partition_on colon) l) =
  map (fun i => let '(k, _, t) := partition_on colon i in (k, t)) l.
Proof.
  rewrite map_map. apply map_ext. intros i. destruct (partition_on colon i) as [[k f] t]. reflexivity.
Qed.

Lemma as_dict_consistent v d : val_as_dict v = Ok d -> d = val_dict v.
Proof.
  unfold val_as_dict, val_dict. rewrite as_list_is_list.
  destruct (forallb _ _); [|discriminate]. intros H. inversion H. rewrite dict_maps. reflexivity.
Qed.

Lemma as_dict_defined v :
  forallb (has_char colon) (val_list v) = true -> val_as_dict v = Ok (val_dict v).
Proof.
  intros H. unfold val_as_dict, val_dict. rewrite as_list_is_list.
  assert (E : forallb (fun p : string * bool * string => snd (fst p)) (map (partition_on colon) (val_list v)) = true).
  { rewrite forallb_forall in *. intros p Hp. apply in_map_iff in Hp. destruct Hp as [i [<- Hi]].
    rewrite partition_found. apply H. exact Hi. }
  rewrite E, dict_maps. reflexivity.
Qed.

(* ---- booleans *)
Definition eight : list (string * bool) :=
  [("0", false); ("1", true); ("false", false); ("no", false); ("off", false); ("on", true); ("true", true); ("yes", true)].

Lemma bool_states_eight : bool_states = eight.
Proof. reflexivity. Qed.

Lemma eight_nodup : NoDup (map fst eight).
Proof. simpl. repeat (constructor; [simpl; intuition discriminate|]). constructor. Qed.

Lemma bool_spec v b : val_bool v = Ok b <-> In (lower v, b) eight.
Proof.
  unfold val_bool. rewrite bool_states_eight. split.
  - destruct (sget (lower v) eight) eqn:E; [|discriminate]. intros H. inversion H. subst. apply sget_in. exact E.
  - intros H. unfold sget. rewrite (in_aget _ _ _ string_eqb_spec _ _ _ eight_nodup H). reflexivity.
Qed.

Lemma bool_other v : (forall b, ~ In (lower v, b) eight) -> val_bool v = Err ErrValue.
Proof.
  intros H. destruct (val_bool v) as [b|e] eqn:E.
  - exfalso. apply (H b). apply bool_spec. exact E.
  - unfold val_bool in E. destruct (sget (lower v) bool_states); [discriminate|]. inversion E. reflexivity.
Qed.

(* ================================================================== _replace *)

Lemma replace_unknown_kept f vars s :
  (forall m, In m (matches s) -> sget (m_var m) vars = None) ->
  replace_vars_in all_off (S f) vars None s = Ok s.
Proof.
  intros H. cbn [replace_vars_in]. revert H. generalize (matches s). intros l H. generalize s.
  induction l as [|m r IH]; intros cur; [reflexivity|]. simpl.
  rewrite (H m (or_introl eq_refl)). apply IH. intros m' Hm. apply H. right. exact Hm.
Qed.

(* ================================================================== text form, one entry line *)

Lemma sall_app p a b : sall p (a ++ b) = (sall p a && sall p b)%bool.
Proof. induction a as [|x r IH]; simpl; [reflexivity|]. rewrite IH. apply andb_assoc. Qed.

Lemma sall_spaces n : sall is_space (spaces n) = true.
Proof. induction n; simpl; [reflexivity|exact IHn]. Qed.

Lemma rstrip_all_space w : sall is_space w = true -> rstrip w = EmptyString.
Proof.
  induction w as [|a r IH]; simpl; [reflexivity|]. intros H. apply andb_true_iff in H. destruct H as [Ha Hr].
  rewrite (IH Hr), Ha. reflexivity.
Qed.

Lemma rstrip_app_space k w : sall is_space w = true -> rstrip (k ++ w) = rstrip k.
Proof.
  intros H. induction k as [|a r IH]; simpl; [apply rstrip_all_space; exact H|]. rewrite IH. reflexivity.
Qed.

Lemma rstrip_app_keep x v : rstrip v = v -> v <> EmptyString -> rstrip (x ++ v) = x ++ v.
Proof.
  intros Hv Hn. induction x as [|a r IH]; simpl; [exact Hv|]. rewrite IH.
  destruct (r ++ v) eqn:E; [|reflexivity].
  destruct r; simpl in E; [contradiction|discriminate].
Qed.

Lemma any_app p a b : sany p (a ++ b) = (sany p a || sany p b)%bool.
Proof. induction a as [|x r IH]; simpl; [reflexivity|]. rewrite IH. apply orb_assoc. Qed.

Lemma any_spaces p n : p sp = false -> sany p (spaces n) = false.
Proof. intros H. induction n; simpl; [reflexivity|]. rewrite H. exact IHn. Qed.

Lemma partition_app_nochar c a b : has_char c a = false -> partition_on c (a ++ String c b) = (a, true, b).
Proof.
  unfold has_char. induction a as [|x r IH]; simpl.
  - intros _. rewrite Ascii.eqb_refl. reflexivity.
  - intros H. apply orb_false_iff in H. destruct H as [Hx Hr]. rewrite Ascii.eqb_sym, Hx, (IH Hr). reflexivity.
Qed.

Lemma smap_id f s : sall (fun a => Ascii.eqb (f a) a) s = true -> smap f s = s.
Proof.
  induction s as [|a r IH]; simpl; [reflexivity|]. intros H. apply andb_true_iff in H. destruct H as [Ha Hr].
  apply Ascii.eqb_eq in Ha. rewrite Ha, (IH Hr). reflexivity.
Qed.

Definition plain_line (k v : string) : string := pad_right key_width k ++ " = " ++ v.

(* what a key must look like to be written and read back as a key *)
Definition key_ok (k : string) : Prop :=
  match k with
  | EmptyString => False
  | String a _ => a <> "["%char /\ a <> "#"%char /\ a <> ";"%char /\ is_space a = false
  end /\ rstrip k = k /\ has_char eqsign k = false.
Definition value_ok (v : string) : Prop :=
  v <> EmptyString /\ lstrip v = v /\ rstrip v = v /\ has_char nl v = false.

Lemma header_of_other a r : a <> "["%char -> header_of (String a r) = None.
Proof.
  intros H. destruct a as [[] [] [] [] [] [] [] []]; try reflexivity. exfalso. apply H. reflexivity.
Qed.

Lemma is_comment_other a r : a <> "#"%char -> a <> ";"%char -> is_comment (String a r) = false.
Proof.
  intros H1 H2. destruct a as [[] [] [] [] [] [] [] []]; try reflexivity; exfalso;
    ((apply H1; reflexivity) || (apply H2; reflexivity)).
Qed.

Lemma app_assoc_s (a b c : string) : (a ++ b) ++ c = a ++ (b ++ c).
Proof. induction a; simpl; [reflexivity|]. rewrite IHa. reflexivity. Qed.

Lemma lstrip_nonspace a r : is_space a = false -> lstrip (String a r) = String a r.
Proof. intros H. simpl. rewrite H. reflexivity. Qed.

Lemma read_entry_line (cs : bool) (st : rstate) (k v sn : string) opts :
  key_ok k -> value_ok v ->
  r_sect st = Some sn -> sget sn (r_done st) = Some opts ->
  let k' := if cs then k else lower k in
  smem k' opts = false ->
  read_line cs (Ok st) (plain_line k v) =
  Ok (RState (sset (r_done st) sn (opts ++ [(k', Some [v])])%list) (Some sn) (Some k') 0).
Proof.
  intros [Hk [Hkr Hke]] [Hvn [Hvl [Hvr _]]] Hs Ho k' Hm.
  destruct k as [|a kr]; [contradiction|]. destruct Hk as [Ha1 [Ha2 [Ha3 Ha4]]].
  (* the line is already stripped *)
  assert (Eline : plain_line (String a kr) v = String a (kr ++ spaces (key_width - String.length (String a kr)) ++ " = " ++ v)).
  { unfold plain_line, pad_right. simpl. rewrite !app_assoc_s. reflexivity. }
  assert (Els : lstrip (plain_line (String a kr) v) = plain_line (String a kr) v).
  { rewrite Eline. apply lstrip_nonspace. exact Ha4. }
  assert (Estrip : strip (plain_line (String a kr) v) = plain_line (String a kr) v).
  { unfold strip. rewrite Els. unfold plain_line.
    replace (pad_right key_width (String a kr) ++ " = " ++ v) with ((pad_right key_width (String a kr) ++ " = ") ++ v)
      by (rewrite app_assoc_s; reflexivity).
    apply rstrip_app_keep; assumption. }
  assert (Ecom : is_comment (plain_line (String a kr) v) = false).
  { rewrite Eline. apply is_comment_other; assumption. }
  assert (Eind : indent_of (plain_line (String a kr) v) = 0).
  { unfold indent_of. rewrite Els. apply Nat.sub_diag. }
  unfold read_line. rewrite Estrip, Ecom. cbn [andb]. rewrite Eline at 1. cbv iota. try rewrite <- Eline.
  rewrite Eind, Hs.
  assert (Enew : new_line cs st (plain_line (String a kr) v) 0 =
                 Ok (RState (sset (r_done st) sn (opts ++ [(k', Some [v])])%list) (Some sn) (Some k') 0)).
  { unfold new_line. rewrite Eline at 1. rewrite header_of_other by assumption. rewrite Hs.
    assert (Epart : partition_on eqsign (plain_line (String a kr) v) =
                    (pad_right key_width (String a kr) ++ " ", true, " " ++ v)).
    { unfold plain_line.
      change (pad_right key_width (String a kr) ++ " = " ++ v)
        with (pad_right key_width (String a kr) ++ String sp (String eqsign (" " ++ v))).
      replace (pad_right key_width (String a kr) ++ String sp (String eqsign (" " ++ v)))
        with ((pad_right key_width (String a kr) ++ " ") ++ String eqsign (" " ++ v))
        by (rewrite app_assoc_s; reflexivity).
      apply partition_app_nochar. unfold has_char, pad_right. rewrite !any_app.
      unfold has_char in Hke. rewrite Hke. rewrite any_spaces by reflexivity. reflexivity. }
    rewrite Epart.
    assert (Ers : rstrip (pad_right key_width (String a kr) ++ " ") = String a kr).
    { unfold pad_right. rewrite app_assoc_s. rewrite rstrip_app_space; [exact Hkr|].
      rewrite sall_app, sall_spaces. reflexivity. }
    rewrite Ers. rewrite Ho. fold k'. rewrite Hm.
    assert (Esv : strip (" " ++ v) = v).
    { unfold strip. simpl. rewrite Hvl. exact Hvr. }
    rewrite Esv. reflexivity. }
  destruct (r_opt st); [simpl; exact Enew|exact Enew].
Qed.

Lemma joined_single v : value_ok v -> joined_value [v] = v.
Proof.
  intros [_ [Hl [Hr Hn]]]. unfold joined_value, joined_raw. simpl join. rewrite Hr.
  rewrite smap_id; [exact Hl|].
  unfold has_char in Hn. clear Hr Hl. induction v as [|a r IH]; [reflexivity|].
  cbn [sany] in Hn. cbn [sall]. apply orb_false_iff in Hn. destruct Hn as [Ha Hr].
  rewrite (Ascii.eqb_sym a nl), Ha, Ascii.eqb_refl. apply IH. exact Hr.
Qed.

Lemma read_header_line cs st sn :
  sn <> EmptyString -> has_char "]"%char sn = false -> is_space (match sn with String a _ => a | _ => sp end) = false ->
  smem sn (r_done st) = false ->
  exists ind,
  read_line cs (Ok st) ("[" ++ sn ++ "]") = Ok (RState (r_done st ++ [(sn, [])])%list (Some sn) None ind).
Proof.
  intros Hn Hb Hsp Hm.
  assert (Ers : rstrip (sn ++ "]") = sn ++ "]") by (apply rstrip_app_keep; [reflexivity|discriminate]).
  assert (Estrip : strip ("[" ++ sn ++ "]") = "[" ++ sn ++ "]").
  { unfold strip. simpl. rewrite Ers. destruct (sn ++ "]") eqn:E; [destruct sn; discriminate|reflexivity]. }
  assert (Eh : header_of ("[" ++ sn ++ "]") = Some sn).
  { simpl. assert (P : rpartition_aux "]" (sn ++ "]") = Some (sn, EmptyString)).
    { clear -Hb. unfold has_char in Hb. induction sn as [|a r IH]; [reflexivity|].
      simpl in *. apply orb_false_iff in Hb. destruct Hb as [Ha Hr]. rewrite (IH Hr). reflexivity. }
    rewrite P. destruct sn; [contradiction|reflexivity]. }
  assert (Ecom : is_comment ("[" ++ sn ++ "]") = false) by reflexivity.
  assert (Eline : "[" ++ sn ++ "]" = String "[" (sn ++ "]")) by reflexivity.
  exists (indent_of ("[" ++ sn ++ "]")).
  unfold read_line. cbv zeta. rewrite Estrip, Ecom. cbn [andb]. rewrite Eline at 1. cbv iota.
  assert (En : new_line cs st ("[" ++ sn ++ "]") (indent_of ("[" ++ sn ++ "]")) =
               Ok (RState (r_done st ++ [(sn, [])])%list (Some sn) None (indent_of ("[" ++ sn ++ "]")))).
  { unfold new_line. rewrite Eh, Hm. reflexivity. }
  destruct (r_sect st); [|exact En]. destruct (r_opt st); [|exact En].
  assert (Eind : indent_of ("[" ++ sn ++ "]") = 0).
  { unfold indent_of. rewrite Eline, lstrip_nonspace by reflexivity. apply Nat.sub_diag. }
  rewrite Eind in *. simpl. exact En.
Qed.

(* ================================================================== the deviations are real (computed witnesses) *)

Definition q_only_stale := {| q_stale := true; q_fbsect := false; q_mkey := false; q_fmt := false; q_metanl := false; q_clear := false; q_lead := false; q_comment_cont := false |}.
Definition q_only_fbsect := {| q_stale := false; q_fbsect := true; q_mkey := false; q_fmt := false; q_metanl := false; q_clear := false; q_lead := false; q_comment_cont := false |}.
Definition q_only_mkey := {| q_stale := false; q_fbsect := false; q_mkey := true; q_fmt := false; q_metanl := false; q_clear := false; q_lead := false; q_comment_cont := false |}.
Definition q_only_fmt := {| q_stale := false; q_fbsect := false; q_mkey := false; q_fmt := true; q_metanl := false; q_clear := false; q_lead := false; q_comment_cont := false |}.

Definition w_stale_ops : list op :=
  [OUpdate (Upd "sa" "k1" "old" None "s" []) true; ODict (Some "sa") [("k1", "new"); ("zz", "2")] "dictionary" false].

Lemma stale_witness :
  let c := run q_only_stale w_stale_ops (empty_config "cfg") in
  c_view c <> flatten (c_profiles c) (c_raw c) /\
  option_map e_val (lookup2 (c_view c) "sa" "k1") = Some "old" /\
  option_map e_val (first_def (c_profiles c) (c_raw c) "sa" "k1") = Some "new".
Proof. vm_compute. repeat split. discriminate. Qed.

Definition w_fb : config := run all_off [OUpdate (Upd "sb" "k1" "f" None "s" []) true] (empty_config "fb").
Definition w_fbsect_cfg : config := run all_off [OFallback (Some w_fb)] (empty_config "cfg").

Lemma fbsect_witness :
  get q_only_fbsect w_fbsect_cfg "k1" None (Some "sa") (Some "dflt") = Err ErrSection /\
  get all_off w_fbsect_cfg "k1" None (Some "sa") (Some "dflt") = Ok (mk_entry "k1" "dflt" "default value").
Proof. vm_compute. split; reflexivity. Qed.

Definition w_mkey_cfg : config :=
  run all_off [OUpdate (Upd "sa" "k1" "bar" None "s" []) true; OMaster (Some "sa")] (empty_config "cfg").

Lemma mkey_witness :
  res_map e_key (get q_only_mkey w_mkey_cfg "k2" None (Some "k1") (Some "dflt")) = Ok "k1" /\
  get all_off w_mkey_cfg "k2" None (Some "k1") (Some "dflt") = Ok (mk_entry "k2" "dflt" "default value").
Proof. vm_compute. split; reflexivity. Qed.

Lemma fmt_witness :
  py_replace q_only_fmt [] None "{x:>8}" = Ok "  {x:>8}" /\
  py_replace q_only_fmt [] None "{x:%Y}" = Err ErrValue /\
  py_replace all_off [] None "{x:>8}" = Ok "{x:>8}".
Proof. vm_compute. repeat split; reflexivity. Qed.

Definition q_only_metanl := {| q_stale := false; q_fbsect := false; q_mkey := false; q_fmt := false; q_metanl := true; q_clear := false; q_lead := false; q_comment_cont := false |}.

Definition w_meta_cfg : config :=
  run all_off [OUpdate (Upd "sa" "k1" "v" None "s" [("help", Some "some words of help that do not fit on one line")]) true]
      (empty_config "cfg").

Lemma metanl_witness :
  answer all_off w_meta_cfg (QReadBack 60 true) = AContent (Ok (view_content (c_view w_meta_cfg))) /\
  answer q_only_metanl w_meta_cfg (QReadBack 60 true) <> AContent (Ok (view_content (c_view w_meta_cfg))).
Proof. split; [vm_compute; reflexivity|]. vm_compute. discriminate. Qed.

Definition q_only_clear :=
  {| q_stale := false; q_fbsect := false; q_mkey := false; q_fmt := false; q_metanl := false; q_clear := true; q_lead := false; q_comment_cont := false |}.
Definition w_clear_ops : list op :=
  [OUpdate (Upd "sa" "k1" "v" None "s" []) true; OClear; OUpdate (Upd "sb" "k2" "w" None "s" []) true].

Lemma clear_witness :
  option_map e_val (lookup2 (c_view (run q_only_clear w_clear_ops (empty_config "cfg"))) "sa" "k1") = Some "v" /\
  lookup2 (c_view (run all_off w_clear_ops (empty_config "cfg"))) "sa" "k1" = None.
Proof. vm_compute. split; reflexivity. Qed.

(* replacement uses the variables known NOW, whatever the entry's time of creation: the answer to QReplaced depends
   on the configuration's current variables and the entry's text only *)
Lemma replaced_uses_current_vars q c c' sn key d extra :
  lookup2 (c_view c) sn key = lookup2 (c_view c') sn key -> c_vars c = c_vars c' ->
  answer q c (QReplaced sn key d extra) = answer q c' (QReplaced sn key d extra).
Proof. intros H V. simpl. rewrite H, V. reflexivity. Qed.

Lemma clear_vars_forgets q c : c_vars (fst (apply_op q c OClearVars)) = [].
Proof. destruct c; reflexivity. Qed.

(* ================================================================== int and float read the same text *)
Lemma scan_of_int_digits s : forall acc au z n,
  int_digits acc au s = Some z -> (0 < n)%Z ->
  exists n', (0 < n')%Z /\ scan_digits acc n (negb au) s = Some (z, n', EmptyString).
Proof.
  induction s as [|a r IH]; intros acc au z n H Hn; simpl in *.
  - destruct au; [discriminate|]. inversion H. subst. exists n. split; [exact Hn|reflexivity].
  - destruct (digit_val a) as [d|].
    + destruct (IH _ _ _ (n + 1)%Z H ltac:(lia)) as [n' [Hn' E]]. exists n'. split; [exact Hn'|exact E].
    + destruct (Ascii.eqb a underscore); [|discriminate]. destruct au; [discriminate|]. simpl in *.
      destruct (IH _ _ _ n H Hn) as [n' [Hn' E]]. exists n'. split; [exact Hn'|exact E].
Qed.

Lemma float_of_int_unsigned s z : int_unsigned s = Some z -> float_unsigned s = Some (z, 0%Z).
Proof.
  unfold int_unsigned, float_unsigned. destruct s as [|a r]; [discriminate|].
  cbn [scan_digits]. destruct (digit_val a) as [d|]; [|discriminate]. intros H.
  destruct (scan_of_int_digits r d false z 1%Z H ltac:(lia)) as [n' [Hn' E]].
  simpl negb in E. change (0 * 10 + d)%Z with d. change (0 + 1)%Z with 1%Z. rewrite E.
  assert (L : (0 <? n' + 0)%Z = true) by (apply Z.ltb_lt; lia). rewrite L. reflexivity.
Qed.

Lemma int_float_agree (v : string) (z : Z) : val_int v = Ok z -> val_float v = Ok (FDec z 0%Z).
Proof.
  unfold val_int, val_float. destruct (strip v) as [|a r] eqn:E.
  - simpl. discriminate.
  - assert (G : forall (s : string) (zz : Z), int_unsigned s = Some zz -> forall neg : bool,
                 match float_unsigned s with
                 | Some (m, e) => Ok (FDec (if neg then (- m)%Z else m) e)
                 | None => match float_special s with
                           | Some (FInf _) => Ok (FInf neg) | Some f => Ok f | None => Err ErrValue end
                 end = Ok (FDec (if neg then (- zz)%Z else zz) 0%Z)).
    { intros s zz H neg. rewrite (float_of_int_unsigned s zz H). reflexivity. }
    destruct a as [[] [] [] [] [] [] [] []];
      try (destruct (int_unsigned (String _ r)) as [zz|] eqn:U; [|discriminate];
           intros H; inversion H; subst; exact (G _ _ U false)).
    + destruct (int_unsigned r) as [zz|] eqn:U; [|discriminate]. intros H. inversion H. subst.
      first [exact (G _ _ U true)|exact (G _ _ U false)].
    + destruct (int_unsigned r) as [zz|] eqn:U; [|discriminate]. intros H. inversion H. subst.
      first [exact (G _ _ U true)|exact (G _ _ U false)].
Qed.

Definition q_only_lead :=
  {| q_stale := false; q_fbsect := false; q_mkey := false; q_fmt := false; q_metanl := false; q_clear := false; q_lead := true; q_comment_cont := false |}.
Definition w_lead_cfg : config :=
  run all_off [OUpdate (Upd "sa" "k1" "a-word-that-is-longer-than-the-rest-of-the-line" None "s" []) true] (empty_config "cfg").

Lemma lead_witness :
  answer all_off w_lead_cfg (QReadBack 60 true) = AContent (Ok (view_content (c_view w_lead_cfg))) /\
  answer q_only_lead w_lead_cfg (QReadBack 60 true) =
  AContent (Ok [("sa", [("k1", " a-word-that-is-longer-than-the-rest-of-the-line", [])])]).
Proof. split; vm_compute; reflexivity. Qed.

Definition q_only_comment :=
  {| q_stale := false; q_fbsect := false; q_mkey := false; q_fmt := false; q_metanl := false; q_clear := false; q_lead := false;
     q_comment_cont := true |}.
Definition w_comment_cfg : config :=
  run all_off [OUpdate (Upd "sa" "k1" "aaaaaaaaaaaaaaaaaaaaaaaa #second more" None "s" []) true] (empty_config "cfg").

Lemma comment_witness :
  answer all_off w_comment_cfg (QReadBack 60 true) = AContent (Ok (view_content (c_view w_comment_cfg))) /\
  answer q_only_comment w_comment_cfg (QReadBack 60 true) = AContent (Ok [("sa", [("k1", "aaaaaaaaaaaaaaaaaaaaaaaa", [])])]).
Proof. split; vm_compute; reflexivity. Qed.
