(* C19 - lemmas about the configuration model (all unbounded: any operation sequence, any profile list). *)
From Coq Require Import ZArith List Bool String Ascii Lia.
From Verif Require Import Gen.C19_BoolStates Model.C19_Config.
Import ListNotations.
Open Scope string_scope.

(* ================================================================== association lists *)
Section AssocFacts.
  Variables (K V : Type) (eqb : K -> K -> bool).
  Hypothesis eqb_spec : forall a b, eqb a b = true <-> a = b.

  Lemma eqb_refl_ k : eqb k k = true.
  Proof. apply eqb_spec. reflexivity. Qed.

  Lemma eqb_neq_ a b : a <> b -> eqb a b = false.
  Proof. intros H. destruct (eqb a b) eqn:E; [apply eqb_spec in E; contradiction|reflexivity]. Qed.

  Lemma aget_aset_same (l : list (K * V)) k v : aget eqb k (aset eqb l k v) = Some v.
  Proof.
    induction l as [|[k' v'] r IH]; simpl.
    - rewrite eqb_refl_. reflexivity.
    - destruct (eqb k k') eqn:E; simpl; rewrite E; [reflexivity|exact IH].
  Qed.

  Lemma aget_aset_other (l : list (K * V)) k k' v : k <> k' -> aget eqb k' (aset eqb l k v) = aget eqb k' l.
  Proof.
    intros N. induction l as [|[k0 v0] r IH]; simpl.
    - rewrite eqb_neq_; [reflexivity|congruence].
    - destruct (eqb k k0) eqn:E; simpl.
      + apply eqb_spec in E. subst k0. rewrite !eqb_neq_ by congruence. reflexivity.
      + destruct (eqb k' k0); [reflexivity|exact IH].
  Qed.

  Lemma aget_none_notin (l : list (K * V)) k : aget eqb k l = None <-> ~ In k (map fst l).
  Proof.
    induction l as [|[k0 v0] r IH]; simpl.
    - split; [intros _ []|reflexivity].
    - destruct (eqb k k0) eqn:E.
      + apply eqb_spec in E. subst. split; [discriminate|intros H; exfalso; apply H; left; reflexivity].
      + rewrite IH. split.
        * intros H [H1|H1]; [subst; rewrite eqb_refl_ in E; discriminate|contradiction].
        * intros H H1. apply H. right. exact H1.
  Qed.

  Lemma keys_aset (l : list (K * V)) k v :
    map fst (aset eqb l k v) = if amem eqb k l then map fst l else (map fst l ++ [k])%list.
  Proof.
    unfold amem. induction l as [|[k0 v0] r IH]; simpl; [reflexivity|].
    destruct (eqb k k0) eqn:E; simpl; [reflexivity|].
    rewrite IH. destruct (aget eqb k r); reflexivity.
  Qed.

  Lemma nodup_snoc (l : list K) k : NoDup l -> ~ In k l -> NoDup (l ++ [k]).
  Proof.
    induction l as [|a r IH]; simpl; intros ND NI.
    - constructor; [intros []|constructor].
    - inversion ND; subst. constructor.
      + rewrite in_app_iff. intros [H|[H|[]]]; [contradiction|subst; apply NI; left; reflexivity].
      + apply IH; [assumption|intros H; apply NI; right; exact H].
  Qed.

  Lemma nodup_aset (l : list (K * V)) k v : NoDup (map fst l) -> NoDup (map fst (aset eqb l k v)).
  Proof.
    intros ND. rewrite keys_aset. unfold amem. destruct (aget eqb k l) eqn:E; [exact ND|].
    apply nodup_snoc; [exact ND|]. apply aget_none_notin. exact E.
  Qed.

  Lemma in_aset (l : list (K * V)) k v x : In x (aset eqb l k v) -> x = (k, v) \/ In x l.
  Proof.
    induction l as [|[k0 v0] r IH]; simpl.
    - intros [H|[]]; left; symmetry; exact H.
    - destruct (eqb k k0) eqn:E; simpl.
      + apply eqb_spec in E. subst. intros [H|H]; [left; symmetry; exact H|right; right; exact H].
      + intros [H|H]; [right; left; exact H|]. destruct (IH H); [left; assumption|right; right; assumption].
  Qed.

  Lemma aget_in (l : list (K * V)) k v : aget eqb k l = Some v -> In (k, v) l.
  Proof.
    induction l as [|[k0 v0] r IH]; simpl; [discriminate|].
    destruct (eqb k k0) eqn:E.
    - apply eqb_spec in E. subst. intros H. inversion H. left. reflexivity.
    - intros H. right. apply IH. exact H.
  Qed.

  Lemma in_aget (l : list (K * V)) k v : NoDup (map fst l) -> In (k, v) l -> aget eqb k l = Some v.
  Proof.
    induction l as [|[k0 v0] r IH]; simpl; [intros _ []|].
    intros ND [H|H].
    - inversion H. subst. rewrite eqb_refl_. reflexivity.
    - inversion ND; subst. destruct (eqb k k0) eqn:E.
      + apply eqb_spec in E. subst. exfalso. apply H2. apply (in_map fst) in H. exact H.
      + apply IH; assumption.
  Qed.

  Lemma aget_app_notin (l : list (K * V)) k k' v :
    aget eqb k' (l ++ [(k, v)]) = match aget eqb k' l with Some x => Some x | None => if eqb k' k then Some v else None end.
  Proof.
    induction l as [|[k0 v0] r IH]; simpl; [reflexivity|].
    destruct (eqb k' k0); [reflexivity|exact IH].
  Qed.

  (* last binding of a key in a list of pairs that is written into a dictionary one after the other *)
  Fixpoint alast (k : K) (l : list (K * V)) : option V :=
    match l with
    | [] => None
    | (k', v) :: r => match alast k r with Some x => Some x | None => if eqb k k' then Some v else None end
    end.

  Lemma alast_nodup (l : list (K * V)) k : NoDup (map fst l) -> alast k l = aget eqb k l.
  Proof.
    induction l as [|[k0 v0] r IH]; simpl; [reflexivity|].
    intros ND. inversion ND; subst. rewrite (IH H2).
    destruct (eqb k k0) eqn:E.
    - apply eqb_spec in E. subst. apply aget_none_notin in H1. rewrite H1. reflexivity.
    - destruct (aget eqb k r); reflexivity.
  Qed.
End AssocFacts.

Lemma string_eqb_spec (a b : string) : String.eqb a b = true <-> a = b.
Proof. apply String.eqb_eq. Qed.

Lemma prof_eqb_spec (a b : profile) : prof_eqb a b = true <-> a = b.
Proof.
  destruct a, b; simpl; try (split; [discriminate|intros H; discriminate H]); try tauto.
  rewrite String.eqb_eq. split; [intros ->; reflexivity|intros H; inversion H; reflexivity].
Qed.

(* ================================================================== well-formed dictionaries *)

Definition wf_sections (ss : sections) : Prop :=
  NoDup (map fst ss) /\ Forall (fun ns => NoDup (map fst (snd ns))) ss.
Definition wf_raw (raw : rawdata) : Prop := Forall (fun px => wf_sections (snd px)) raw.

Lemma sget_in {V} (l : list (string * V)) k v : sget k l = Some v -> In (k, v) l.
Proof. apply aget_in. exact string_eqb_spec. Qed.

Lemma wf_sections_sect ss sn s : wf_sections ss -> sget sn ss = Some s -> NoDup (map fst s).
Proof.
  intros [_ F] H. apply sget_in in H. rewrite Forall_forall in F. apply (F _ H).
Qed.

Lemma wf_raw_get raw p ps : wf_raw raw -> pget p raw = Some ps -> wf_sections ps.
Proof.
  intros F H. apply (aget_in _ _ _ prof_eqb_spec) in H. unfold wf_raw in F. rewrite Forall_forall in F. apply (F _ H).
Qed.

Lemma forall_aset {K V} (eqb : K -> K -> bool) (spec : forall a b, eqb a b = true <-> a = b)
      (P : K * V -> Prop) (l : list (K * V)) k v :
  Forall P l -> P (k, v) -> Forall P (aset eqb l k v).
Proof.
  intros F Pk. rewrite Forall_forall in *. intros x Hx.
  destruct (in_aset _ _ _ spec _ _ _ _ Hx) as [->|H]; [exact Pk|apply F; exact H].
Qed.

Lemma wf_ensure ss sn : wf_sections ss -> wf_sections (ensure_section ss sn).
Proof.
  intros [ND F]. unfold ensure_section. destruct (sget sn ss) eqn:E; [split; assumption|].
  split.
  - rewrite map_app. simpl. apply nodup_snoc; [exact ND|].
    apply (aget_none_notin _ _ _ string_eqb_spec). exact E.
  - apply Forall_app. split; [exact F|]. constructor; [simpl; constructor|constructor].
Qed.

Lemma wf_set_entry ss sn key e : wf_sections ss -> wf_sections (set_entry ss sn key e).
Proof.
  intros W. unfold set_entry. pose proof (wf_ensure ss sn W) as W'.
  destruct (sget sn (ensure_section ss sn)) as [s|] eqn:E; [|exact W'].
  destruct W' as [ND F]. split.
  - apply nodup_aset; [exact string_eqb_spec|exact ND].
  - apply forall_aset; [exact string_eqb_spec|exact F|]. simpl.
    apply nodup_aset; [exact string_eqb_spec|].
    apply (wf_sections_sect (ensure_section ss sn) sn); [split; assumption|exact E].
Qed.

Lemma wf_sections_nil : wf_sections [].
Proof. split; constructor. Qed.

Lemma wf_raw_pset raw p ps : wf_raw raw -> wf_sections ps -> wf_raw (pset raw p ps).
Proof. intros F W. apply forall_aset; [exact prof_eqb_spec|exact F|exact W]. Qed.

(* ================================================================== lookup in the flattened view *)

Lemma lookup2_ensure ss sn sn' k : lookup2 (ensure_section ss sn) sn' k = lookup2 ss sn' k.
Proof.
  unfold ensure_section, lookup2, sget. destruct (aget String.eqb sn ss) eqn:E; [reflexivity|].
  rewrite aget_app_notin. destruct (aget String.eqb sn' ss) eqn:E'.
  - unfold sections, sect in *. rewrite E'. reflexivity.
  - unfold sections, sect in *. rewrite E'. destruct (String.eqb sn' sn); reflexivity.
Qed.

Lemma sget_ensure ss sn : exists s, sget sn (ensure_section ss sn) = Some s /\
                                    (forall k, sget k s = lookup2 ss sn k).
Proof.
  unfold ensure_section, lookup2, sget, sections, sect in *. destruct (aget String.eqb sn ss) as [s|] eqn:E.
  - exists s. rewrite E. split; reflexivity.
  - exists []. split; [|reflexivity]. rewrite aget_app_notin.
    rewrite E, String.eqb_refl. reflexivity.
Qed.

Lemma lookup2_set_entry ss sn key e sn' k' :
  lookup2 (set_entry ss sn key e) sn' k' =
  if (String.eqb sn sn' && String.eqb key k')%bool then Some e else lookup2 ss sn' k'.
Proof.
  unfold set_entry. destruct (sget_ensure ss sn) as [s [E Hs]]. rewrite E.
  destruct (String.eqb sn sn') eqn:En; simpl.
  - apply String.eqb_eq in En. subst sn'. unfold lookup2 at 1. unfold sset, sget.
    rewrite (aget_aset_same _ _ _ string_eqb_spec).
    destruct (String.eqb key k') eqn:Ek.
    + apply String.eqb_eq in Ek. subst. apply (aget_aset_same _ _ _ string_eqb_spec).
    + rewrite (aget_aset_other _ _ _ string_eqb_spec).
      * apply Hs.
      * intros ->. rewrite String.eqb_refl in Ek. discriminate.
  - rewrite <- (lookup2_ensure ss sn sn' k'). unfold lookup2, sset, sget.
    rewrite (aget_aset_other _ _ _ string_eqb_spec); [reflexivity|].
    intros ->. rewrite String.eqb_refl in En. discriminate.
Qed.

Lemma lookup2_fold_entries (s : sect) : forall v sn sn' k',
  lookup2 (fold_left (fun v' ke => set_entry v' sn (fst ke) (snd ke)) s v) sn' k' =
  if String.eqb sn sn'
  then match alast _ _ String.eqb k' s with Some e => Some e | None => lookup2 v sn' k' end
  else lookup2 v sn' k'.
Proof.
  induction s as [|[k0 e0] r IH]; intros v sn sn' k'; simpl.
  - destruct (String.eqb sn sn'); reflexivity.
  - rewrite IH. rewrite lookup2_set_entry. simpl.
    destruct (String.eqb sn sn') eqn:En; simpl; [|reflexivity].
    destruct (alast _ _ String.eqb k' r); [reflexivity|].
    rewrite (String.eqb_sym k' k0). destruct (String.eqb k0 k'); reflexivity.
Qed.

Lemma lookup2_merge_section v sn s sn' k' :
  NoDup (map fst s) ->
  lookup2 (merge_section v sn s) sn' k' =
  if String.eqb sn sn' then match sget k' s with Some e => Some e | None => lookup2 v sn' k' end
  else lookup2 v sn' k'.
Proof.
  intros ND. unfold merge_section. rewrite lookup2_fold_entries, lookup2_ensure.
  rewrite (alast_nodup _ _ _ string_eqb_spec _ _ ND). reflexivity.
Qed.

Lemma lookup2_merge_sections ps : forall v sn k,
  wf_sections ps ->
  lookup2 (merge_sections v ps) sn k =
  match lookup2 ps sn k with Some e => Some e | None => lookup2 v sn k end.
Proof.
  induction ps as [|[sn0 s0] r IH]; intros v sn k [ND F]; [reflexivity|].
  unfold merge_sections. simpl. fold (merge_sections (merge_section v sn0 s0) r).
  inversion ND; subst. inversion F; subst. simpl in *.
  rewrite IH by (split; assumption).
  rewrite lookup2_merge_section by assumption.
  assert (Hc : lookup2 ((sn0, s0) :: r) sn k = if String.eqb sn sn0 then sget k s0 else lookup2 r sn k).
  { unfold lookup2, sget. simpl. destruct (String.eqb sn sn0); reflexivity. }
  rewrite Hc. destruct (String.eqb sn sn0) eqn:E.
  - apply String.eqb_eq in E. subst sn0. rewrite String.eqb_refl.
    assert (Hn : lookup2 r sn k = None).
    { unfold lookup2, sget. unfold sections, sect in *.
      rewrite (proj2 (aget_none_notin _ _ _ string_eqb_spec r sn) H1). reflexivity. }
    rewrite Hn. reflexivity.
  - rewrite String.eqb_sym, E. reflexivity.
Qed.

Lemma flatten_cons p ps raw :
  flatten (p :: ps) raw =
  match pget p raw with Some x => merge_sections (flatten ps raw) x | None => flatten ps raw end.
Proof. unfold flatten. simpl. rewrite fold_left_app. reflexivity. Qed.

(* the flattened view is the declarative "first listed profile that defines it" *)
Lemma flatten_lookup raw ps sn k :
  wf_raw raw -> lookup2 (flatten ps raw) sn k = first_def ps raw sn k.
Proof.
  intros W. induction ps as [|p r IH]; [reflexivity|].
  rewrite flatten_cons. simpl. destruct (pget p raw) as [x|] eqn:E; [|exact IH].
  rewrite lookup2_merge_sections by (eapply wf_raw_get; eassumption).
  rewrite IH. reflexivity.
Qed.

(* ================================================================== the invariant over operation sequences *)

Definition inv (c : config) : Prop := wf_raw (c_raw c) /\ c_view c = flatten (c_profiles c) (c_raw c).

Lemma inv_refresh c : wf_raw (c_raw c) -> inv (refresh c).
Proof. destruct c. intros W. split; [exact W|reflexivity]. Qed.

Lemma refresh_profiles c : c_profiles (refresh c) = c_profiles c.
Proof. destruct c; reflexivity. Qed.
Lemma refresh_raw c : c_raw (refresh c) = c_raw c.
Proof. destruct c; reflexivity. Qed.

Lemma update1_ok c u a c' :
  update1 c u a = Ok c' -> wf_raw (c_raw c) -> wf_raw (c_raw c') /\ c_profiles c' = c_profiles c.
Proof.
  unfold update1. intros H W.
  destruct (if a then Ok tt else _) ; [|discriminate].
  inversion H; subst; clear H. destruct c; simpl in *. split; [|reflexivity].
  apply wf_raw_pset; [exact W|]. apply wf_set_entry.
  destruct (pget (u_prof u) raw) eqn:E; [eapply wf_raw_get; eassumption|exact wf_sections_nil].
Qed.

Lemma batch_inv us : forall c a s,
  wf_raw (c_raw c) ->
  inv (fst (batch all_off c us a s)) /\ c_profiles (fst (batch all_off c us a s)) = c_profiles c.
Proof.
  induction us as [|[u|e] r IH]; intros c a s W; simpl.
  - split; [apply inv_refresh; exact W|apply refresh_profiles].
  - destruct (update1 c u a) as [c'|e] eqn:E.
    + destruct (update1_ok _ _ _ _ E W) as [W' P']. destruct (IH c' a s W') as [I P]. split; [exact I|congruence].
    + destruct e; try (split; [apply inv_refresh; exact W|apply refresh_profiles]).
      destruct s; [apply IH; exact W|split; [apply inv_refresh; exact W|apply refresh_profiles]].
  - split; [apply inv_refresh; exact W|apply refresh_profiles].
Qed.

Lemma options_batch_inv opts : forall c p src a,
  wf_raw (c_raw c) ->
  inv (fst (options_batch all_off c opts p src a)) /\
  c_profiles (fst (options_batch all_off c opts p src a)) = c_profiles c.
Proof.
  induction opts as [|o r IH]; intros c p src a W; simpl.
  - split; [apply inv_refresh; exact W|apply refresh_profiles].
  - destruct (option_upd c o p src) as [[u|e]|].
    + destruct (update1 c u a) as [c'|e] eqn:E.
      * destruct (update1_ok _ _ _ _ E W) as [W' P']. destruct (IH c' p src a W') as [I P]. split; [exact I|congruence].
      * destruct e; try (split; [apply inv_refresh; exact W|apply refresh_profiles]). apply IH; exact W.
    + split; [apply inv_refresh; exact W|apply refresh_profiles].
    + apply IH; exact W.
Qed.

Lemma with_vars_facts c x : c_raw (with_vars c x) = c_raw c /\ c_profiles (with_vars c x) = c_profiles c
                            /\ c_view (with_vars c x) = c_view c.
Proof. destruct c; repeat split. Qed.

Definition is_profiles_op (o : op) : bool := match o with OProfiles _ => true | _ => false end.

Lemma apply_op_inv c o : inv c -> inv (fst (apply_op all_off c o)).
Proof.
  intros [W V]. destruct o; simpl.
  - destruct (update1 c u allow_new) as [c'|e] eqn:E; simpl; [|split; assumption].
    apply inv_refresh. apply (update1_ok _ _ _ _ E W).
  - destruct (match sec with Some s => Ok s | None => _ end); [|split; assumption]. apply batch_inv. exact W.
  - apply options_batch_inv. exact W.
  - destruct (parse_ini case_sensitive text); [|split; assumption].
    apply batch_inv. destruct (sget "__vars__" a); [|exact W].
    destruct (with_vars_facts c (merge_vars (c_vars c) (valued l))) as [-> _]. exact W.
  - apply inv_refresh. destruct c; exact W.
  - destruct c; split; assumption.
  - destruct c; split; assumption.
  - destruct c; split; assumption.
Qed.

Lemma apply_op_profiles c o :
  wf_raw (c_raw c) -> is_profiles_op o = false -> c_profiles (fst (apply_op all_off c o)) = c_profiles c.
Proof.
  intros W N. destruct o; simpl in *; try discriminate.
  - destruct (update1 c u allow_new) as [c'|e] eqn:E; simpl; [|reflexivity].
    rewrite refresh_profiles. apply (update1_ok _ _ _ _ E W).
  - destruct (match sec with Some s => Ok s | None => _ end); [|reflexivity]. apply batch_inv. exact W.
  - apply options_batch_inv. exact W.
  - destruct (parse_ini case_sensitive text); [|reflexivity].
    destruct (sget "__vars__" a).
    + destruct (with_vars_facts c (merge_vars (c_vars c) (valued l))) as [R [P _]].
      rewrite <- P. apply batch_inv. rewrite R. exact W.
    + apply batch_inv. exact W.
  - destruct c; reflexivity.
  - destruct c; reflexivity.
  - destruct c; reflexivity.
Qed.

Lemma run_inv ops : forall c, inv c -> inv (run all_off ops c).
Proof.
  induction ops as [|o r IH]; intros c I; [exact I|].
  unfold run. simpl. apply IH. apply apply_op_inv. exact I.
Qed.

Lemma inv_empty name : inv (empty_config name).
Proof. split; [constructor|reflexivity]. Qed.

Lemma run_app q a b c : run q (a ++ b) c = run q b (run q a c).
Proof. unfold run. apply fold_left_app. Qed.

Lemma run_profiles_stable ops : forall c,
  inv c -> forallb (fun o => negb (is_profiles_op o)) ops = true ->
  c_profiles (run all_off ops c) = c_profiles c.
Proof.
  induction ops as [|o r IH]; intros c I H; [reflexivity|].
  simpl in H. apply andb_true_iff in H. destruct H as [H1 H2].
  unfold run. simpl. fold (run all_off r (fst (apply_op all_off c o))).
  rewrite IH; [|apply apply_op_inv; exact I|exact H2].
  apply apply_op_profiles; [exact (proj1 I)|]. destruct (is_profiles_op o); [discriminate|reflexivity].
Qed.

(* ---- statements used by Props *)

Lemma view_flattened ops name :
  let c := run all_off ops (empty_config name) in
  c_view c = flatten (c_profiles c) (c_raw c) /\
  forall sn key, lookup2 (c_view c) sn key = first_def (c_profiles c) (c_raw c) sn key.
Proof.
  intros c. destruct (run_inv ops _ (inv_empty name)) as [W V]. fold c in W, V.
  split; [exact V|]. intros sn key. rewrite V. apply flatten_lookup. exact W.
Qed.

Definition default_or (key : string) (d : option string) (orig : err) : res entry :=
  match d with Some dv => Ok (mk_entry key dv "default value") | None => Err orig end.

Lemma get_unfold q c key section d :
  get q c key None section d =
  match local_get q c key section with
  | Ok e => Ok e
  | Err orig =>
      match c_fallback c with
      | None => default_or key d orig
      | Some f =>
          match get q f key None section None with
          | Ok e => Ok e
          | Err ErrSection => if q_fbsect q then Err ErrSection else default_or key d orig
          | Err _ => default_or key d orig
          end
      end
  end.
Proof. destruct c; reflexivity. Qed.

Lemma get_local_ok q c key section d e : local_get q c key section = Ok e -> get q c key None section d = Ok e.
Proof. intros H. rewrite get_unfold, H. reflexivity. Qed.

Lemma get_of_view q c key sn d e :
  lookup2 (c_view c) sn key = Some e -> get q c key None (Some sn) d = Ok e.
Proof.
  intros H. unfold lookup2 in H. destruct (sget sn (c_view c)) as [s|] eqn:E; [|discriminate].
  apply get_local_ok.
  unfold local_get. destruct c; simpl in *. rewrite E. unfold sect_get. rewrite H. reflexivity.
Qed.

Lemma lookup_first ops name sn key d e :
  let c := run all_off ops (empty_config name) in
  first_def (c_profiles c) (c_raw c) sn key = Some e ->
  get all_off c key None (Some sn) d = Ok e.
Proof.
  intros c H. apply get_of_view. rewrite (proj2 (view_flattened ops name)). exact H.
Qed.

Lemma getitem_err c k e : getitem c k = Err e -> e = ErrSection \/ e = ErrEntry.
Proof.
  destruct c; simpl. destruct (sget k view); [discriminate|].
  destruct (master_section _) as [[m ms]|e0].
  - destruct (sget k ms); [discriminate|]. intros H; inversion H; right; reflexivity.
  - destruct fallback.
    + destruct (getitem c k); [discriminate|]. intros H; inversion H; left; reflexivity.
    + intros H; inversion H; left; reflexivity.
Qed.

(* when no listed profile defines (section, key): either the local lookup fails with one of the two documented
   errors, or (section unknown here, no master section) __getitem__ already answered from the fallback *)
Lemma local_get_cases c key sn :
  lookup2 (c_view c) sn key = None ->
  (exists orig, (orig = ErrSection \/ orig = ErrEntry) /\ local_get all_off c key (Some sn) = Err orig) \/
  (exists f e, c_fallback c = Some f /\ local_get all_off c key (Some sn) = Ok e /\
               local_get all_off f key (Some sn) = Ok e).
Proof.
  intros H. unfold lookup2 in H. destruct c as [n raw ps view m fb vs]. simpl in H.
  unfold local_get at 1 2. simpl getitem. destruct (sget sn view) as [s|] eqn:E.
  - left. unfold sect_get. rewrite H. exists ErrEntry. split; [right|]; reflexivity.
  - destruct (master_section _) as [[m0 ms]|e0].
    + left. destruct (sget sn ms); [exists ErrSection; split; [left|]; reflexivity|exists ErrEntry; split; [right|]; reflexivity].
    + destruct fb as [f|]; [|left; exists ErrSection; split; [left|]; reflexivity].
      destruct (getitem f sn) as [i|e1] eqn:G; [|left; exists ErrSection; split; [left|]; reflexivity].
      unfold local_get. rewrite G. destruct i as [s|e1].
      * destruct (sect_get s key) as [e|e2] eqn:S.
        -- right. exists f, e. repeat split; reflexivity.
        -- left. exists e2. split; [|reflexivity]. unfold sect_get in S. destruct (sget key s); [discriminate|].
           inversion S. right. reflexivity.
      * left. exists ErrSection. split; [left|]; reflexivity.
Qed.

Lemma get_fallback_default c key sn d :
  lookup2 (c_view c) sn key = None ->
  exists orig, (orig = ErrSection \/ orig = ErrEntry) /\
  get all_off c key None (Some sn) d =
  match c_fallback c with
  | Some f => match get all_off f key None (Some sn) None with Ok e => Ok e | Err _ => default_or key d orig end
  | None => default_or key d orig
  end.
Proof.
  intros H. destruct (local_get_cases c key sn H) as [[orig [Ho L]]|[f [e [F [L Lf]]]]].
  - exists orig. split; [exact Ho|]. rewrite get_unfold, L. destruct (c_fallback c) as [f|]; [|reflexivity].
    destruct (get all_off f key None (Some sn) None) as [e|[]]; reflexivity.
  - exists ErrSection. split; [left; reflexivity|]. rewrite (get_local_ok _ _ _ _ _ _ L), F.
    rewrite (get_local_ok _ _ _ _ _ _ Lf). reflexivity.
Qed.

Lemma fallback_default ops name sn key d :
  let c := run all_off ops (empty_config name) in
  first_def (c_profiles c) (c_raw c) sn key = None ->
  exists orig, (orig = ErrSection \/ orig = ErrEntry) /\
  get all_off c key None (Some sn) d =
  match c_fallback c with
  | Some f => match get all_off f key None (Some sn) None with Ok e => Ok e | Err _ => default_or key d orig end
  | None => default_or key d orig
  end.
Proof.
  intros c H. apply get_fallback_default. rewrite (proj2 (view_flattened ops name)). exact H.
Qed.

Lemma override q c key v section d : get q c key (Some v) section d = Ok (mk_entry key v "method call").
Proof. destruct c; reflexivity. Qed.

(* master section *)
Lemma local_master q c key m s :
  c_master c = Some m -> sget m (c_view c) = Some s ->
  local_get q c key None = sect_get s key /\ local_get q c key (Some m) = sect_get s key.
Proof.
  intros M S. destruct c as [n raw ps view m0 fb vs]. simpl in *. subst m0.
  unfold local_get, master_section. simpl. rewrite S. split; reflexivity.
Qed.

Lemma master_no_fallback q c key m d :
  c_master c = Some m -> sget m (c_view c) <> None -> c_fallback c = None ->
  get q c key None None d = get q c key None (Some m) d.
Proof.
  intros M S F. destruct (sget m (c_view c)) as [s|] eqn:E; [|contradiction].
  destruct (local_master q c key m s M E) as [L1 L2].
  rewrite !get_unfold, L1, L2, F. reflexivity.
Qed.

Lemma master_first ops name m key d e :
  let c := run all_off ops (empty_config name) in
  c_master c = Some m -> first_def (c_profiles c) (c_raw c) m key = Some e ->
  get all_off c key None None d = Ok e.
Proof.
  intros c M H. rewrite <- (proj2 (view_flattened ops name)) in H. fold c in H.
  unfold lookup2 in H. destruct (sget m (c_view c)) as [s|] eqn:E; [|discriminate].
  destruct (local_master all_off c key m s M E) as [L1 _].
  apply get_local_ok. rewrite L1. unfold sect_get. rewrite H. reflexivity.
Qed.

(* re-prioritisation *)
Lemma last_norm ps : last (norm_profiles ps) (Some EmptyString) = None.
Proof.
  destruct ps as [l|]; [|reflexivity]. simpl.
  destruct (last l (Some EmptyString)) eqn:E; [apply last_last|exact E].
Qed.

Lemma reprioritised ops ps ops' name :
  forallb (fun o => negb (is_profiles_op o)) ops' = true ->
  let c := run all_off (ops ++ OProfiles ps :: ops') (empty_config name) in
  c_profiles c = norm_profiles ps /\
  c_view c = flatten (norm_profiles ps) (c_raw c) /\
  forall sn key, lookup2 (c_view c) sn key = first_def (norm_profiles ps) (c_raw c) sn key.
Proof.
  intros N c.
  assert (P : c_profiles c = norm_profiles ps).
  { unfold c. rewrite run_app. change (OProfiles ps :: ops') with ([OProfiles ps] ++ ops'). rewrite run_app.
    rewrite run_profiles_stable; [| |exact N].
    - unfold run. simpl. rewrite refresh_profiles. destruct (fold_left _ ops _); reflexivity.
    - apply run_inv. apply run_inv. apply inv_empty. }
  destruct (view_flattened (ops ++ OProfiles ps :: ops') name) as [V L]. fold c in V, L.
  rewrite P in V, L. repeat split; assumption.
Qed.

Lemma profiles_end_none ops : forall c,
  last (c_profiles c) (Some EmptyString) = None -> wf_raw (c_raw c) -> inv c ->
  last (c_profiles (run all_off ops c)) (Some EmptyString) = None.
Proof.
  induction ops as [|o r IH]; intros c H W I; [exact H|].
  unfold run. simpl. fold (run all_off r (fst (apply_op all_off c o))).
  pose proof (apply_op_inv c o I) as I'.
  apply IH; [|exact (proj1 I')|exact I'].
  destruct (is_profiles_op o) eqn:E.
  - destruct o; try discriminate. simpl. rewrite refresh_profiles. destruct c; simpl. apply last_norm.
  - rewrite apply_op_profiles; assumption.
Qed.

Lemma profiles_end_none_run ops name :
  last (c_profiles (run all_off ops (empty_config name))) (Some EmptyString) = None.
Proof. apply profiles_end_none; [reflexivity|constructor|apply inv_empty]. Qed.
