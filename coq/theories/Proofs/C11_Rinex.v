(* Proofs/C11_Rinex.v - lemmas behind Props/C11.v *)
From Coq Require Import Ascii String List Bool ZArith QArith Arith Lia.
From Verif Require Import Lib.Text Lib.Decimal Lib.Fixed Lib.Dyadic Model.C11_Rinex Model.C11_Check Spec.C11_RinexFormat.
From Verif Require Gen.C11_Rinex2ObsFields Gen.C11_Rinex3ObsFields.
Import ListNotations.
Local Open Scope nat_scope.
Local Open Scope string_scope.

Module G2 := Gen.C11_Rinex2ObsFields.
Module G3 := Gen.C11_Rinex3ObsFields.

(* ------------------------------------------------------------------------------------------ generated tables vs format *)
Definition fs_eqb (a b : fieldspec) : bool :=
  String.eqb (fname a) (fname b) && Nat.eqb (fstart a) (fstart b) && Nat.eqb (fstop a) (fstop b).
Definition header_has (t : table) (e : string * list fieldspec) : bool :=
  match table_find (fst e) t with
  | Some (_, _, fs) => list_eqb fs_eqb fs (snd e) && table_wf 80 fs
  | None => false
  end.
Definition obs_has (t : table) (e : string * bool * list fieldspec) : bool :=
  match table_find (fst (fst e)) t with
  | Some (_, nl, fs) => list_eqb fs_eqb fs (snd e) && Bool.eqb nl (snd (fst e))
  | None => false
  end.
Definition tables_ok : bool :=
  forallb (header_has G2.header_table) v2_header_spec && forallb (obs_has G2.obs_table) v2_obs_spec &&
  forallb (header_has G3.header_table) v3_header_spec && forallb (obs_has G3.obs_table) v3_obs_spec &&
  Nat.eqb (List.length G2.obs_table) 2 && Nat.eqb (List.length G3.obs_table) 2.

Lemma obs_fields_wf_l : tables_ok = true.
Proof. vm_compute. reflexivity. Qed.

(* ------------------------------------------------------------------------------------------ the blank continuation line *)
Definition witness_lines : list string :=
  ["     2.11           OBSERVATION DATA    G                   RINEX VERSION / TYPE";
   "TEST                                                        MARKER NAME";
   "  2820171.1098   513485.9023  5678935.7406                  APPROX POSITION XYZ";
   "     7    C1    C2    C5    P1    P2    L1    L2            # / TYPES OF OBSERV";
   "  2018     2     1     0     0    0.0000000     GPS         TIME OF FIRST OBS";
   "                                                            END OF HEADER";
   " 18  2  1  0  0  0.0000000  0  3G01G02G03";
   "        11.000          12.000          13.000          14.000          15.000";
   "";
   "        21.000          22.000          23.000          24.000          25.000";
   "        26.000          27.000";
   "        31.000          32.000          33.000          34.000          35.000";
   "        36.000          37.000"].

Definition sats_of (r : option result) : list string := match r with Some x => map r_sat (o_rows x) | None => [] end.
Definition value_of (r : option result) (t : string) (i : nat) : option Q :=
  match r with
  | Some x => match assoc t (o_obs x) with Some col => fst (fst (nth i col absent)) | None => None end
  | None => None
  end.

(* what the file says: three satellites; G01 has no L1; G02 has C1 = 21.000 *)
Lemma blank_continuation_spec :
  sats_of (model_v2 spec_q None witness_lines) = ["G01"; "G02"; "G03"] /\
  value_of (model_v2 spec_q None witness_lines) "L1" 0 = None /\
  value_of (model_v2 spec_q None witness_lines) "C1" 1 = Some (dec_value 21000 3).
Proof. vm_compute. repeat split; reflexivity. Qed.

(* the current code (quirk on): G03 is lost, G01 is given G02's C1 as its L1, G02's C1 becomes 26.000 *)
Lemma blank_continuation_refuted_l :
  sats_of (model_v2 impl_q None witness_lines) = ["G01"; "G02"] /\
  value_of (model_v2 impl_q None witness_lines) "L1" 0 = Some (dec_value 21000 3) /\
  value_of (model_v2 impl_q None witness_lines) "C1" 1 = Some (dec_value 26000 3) /\
  model_v2 impl_q None witness_lines <> model_v2 spec_q None witness_lines.
Proof.
  split; [vm_compute; reflexivity|]. split; [vm_compute; reflexivity|]. split; [vm_compute; reflexivity|].
  intro H. assert (H2 : sats_of (model_v2 impl_q None witness_lines) = sats_of (model_v2 spec_q None witness_lines)) by (rewrite H; reflexivity).
  vm_compute in H2. discriminate.
Qed.

(* ------------------------------------------------------------------------------------------ two-digit years over 1999/2000 *)
Definition witness_1999 : list string :=
  ["     2.11           OBSERVATION DATA    G                   RINEX VERSION / TYPE";
   "TEST                                                        MARKER NAME";
   "     1    C1                                                # / TYPES OF OBSERV";
   "  1999    12    31    23    59   30.0000000     GPS         TIME OF FIRST OBS";
   "                                                            END OF HEADER";
   " 99 12 31 23 59 30.0000000  0  1G01";
   "  20000000.000";
   " 00  1  1  0  0  0.0000000  0  1G01";
   "  20000001.000"].
Definition times_of (r : option result) : list string := match r with Some x => map r_time (o_rows x) | None => [] end.

Lemma century_spec : times_of (model_v2 spec_q None witness_1999) = ["1999-12-31T23:59:30.0000000"; "2000-01-01T00:00:00.0000000"].
Proof. vm_compute. reflexivity. Qed.
Lemma century_refuted_l : times_of (model_v2 cent_q None witness_1999) = ["1999-12-31T23:59:30.0000000"; "1900-01-01T00:00:00.0000000"].
Proof. vm_compute. reflexivity. Qed.

(* ------------------------------------------------------------------------------------------ one observation cell *)
Lemma isspace_all_space s : isspace s = true -> all_space s = true.
Proof. destruct s; simpl; [discriminate|auto]. Qed.

Lemma isspace_parse_none s : isspace s = true -> parse_float s = None.
Proof.
  intros H. unfold parse_float. rewrite <- parse_float_strip.
  rewrite strip_all_space by (apply isspace_all_space; exact H). reflexivity.
Qed.

Lemma Qeq_bool_dec0 m d : Qeq_bool (dec_value m d) 0 = (m =? 0)%Z.
Proof. unfold dec_value, Qeq_bool. simpl. destruct m; reflexivity. Qed.

Lemma float_nan_F w d m :
  float_nan (render_F w d m) = Some (if (m =? 0)%Z then None else Some (dec_value m d)).
Proof.
  unfold float_nan. pose proof (parse_render_F w d m) as P.
  destruct (isspace (render_F w d m)) eqn:E.
  - apply isspace_parse_none in E. congruence.
  - destruct (String.eqb (render_F w d m) "") eqn:E2.
    + apply String.eqb_eq in E2. rewrite E2 in P. discriminate.
    + simpl. rewrite P, Qeq_bool_dec0. reflexivity.
Qed.

Lemma float_nan_flag f : flag_ok f -> float_nan (flag_char f) = Some (flag_val f).
Proof.
  destruct f as [d|]; simpl; intros H; [|reflexivity].
  assert (C : (d = 0 \/ d = 1 \/ d = 2 \/ d = 3 \/ d = 4 \/ d = 5 \/ d = 6 \/ d = 7 \/ d = 8 \/ d = 9)%Z) by lia.
  repeat (destruct C as [C|C]; [subst d; vm_compute; reflexivity|]). subst d; vm_compute; reflexivity.
Qed.

Lemma flag_char_one f : exists ch, flag_char f = String ch "".
Proof. destruct f; simpl; eauto. Qed.

Lemma cell_slices v a b : len v = 14 ->
  slice 0 14 (v ++ String a "" ++ String b "") = v /\
  slice 14 15 (v ++ String a "" ++ String b "") = String a "" /\
  slice 15 16 (v ++ String a "" ++ String b "") = String b "".
Proof.
  intros L. repeat split.
  - rewrite <- L. apply slice_0_len.
  - pose proof (slice_app_mid v (String a "") (String b "")) as P. rewrite L in P.
    change (14 + len (String a "")) with 15 in P. exact P.
  - pose proof (slice_app_shift v 1 2 (String a "" ++ String b "")) as P. rewrite L in P.
    change (14 + 1) with 15 in P. change (14 + 2) with 16 in P. rewrite P. reflexivity.
Qed.

Lemma fits_zero : fits_F 14 3 0.
Proof. unfold fits_F. vm_compute. lia. Qed.

Lemma len_value_text c : cell_wf c -> len (value_text (cv c)) = 14.
Proof.
  intros [H _]. destruct (cv c); cbn [value_text].
  - apply len_spaces.
  - apply render_F_length, fits_zero.
  - apply render_F_length, H.
Qed.

Lemma len_render_cell c : cell_wf c -> len (render_cell c) = 16.
Proof.
  intros H. unfold render_cell. rewrite !len_app, (len_value_text c H).
  destruct (flag_char_one (clli c)) as [x ->]. destruct (flag_char_one (cssi c)) as [y ->]. reflexivity.
Qed.

Lemma cell_roundtrip_l c : cell_wf c -> parse_cell (render_cell c) = Some (cell_val c).
Proof.
  intros H. pose proof (len_value_text c H) as L. destruct H as [Hv [Hl Hs]].
  unfold parse_cell, render_cell.
  pose proof (float_nan_flag _ Hl) as Fl. pose proof (float_nan_flag _ Hs) as Fs.
  destruct (flag_char_one (clli c)) as [x Ex]. destruct (flag_char_one (cssi c)) as [y Ey].
  rewrite Ex, Ey in *. destruct (cell_slices _ x y L) as [S1 [S2 S3]]. rewrite S1, S2, S3, Fl, Fs.
  unfold cell_val. destruct (cv c) as [| |m]; cbn [value_text] in *; cbn beta iota in Hv.
  - vm_compute. reflexivity.
  - rewrite float_nan_F. reflexivity.
  - rewrite float_nan_F. destruct Hv as [Hm _]. destruct (Z.eqb_spec m 0); [contradiction|reflexivity].
Qed.

(* ------------------------------------------------------------------------------------------ trailing blanks *)
Definition blank_or_nonspace (c : ascii) : bool := negb (is_space c) || Ascii.eqb c " ".
Definition blank_ws := all_by blank_or_nonspace.

Lemma all_by_impl (p q : ascii -> bool) s : (forall c, p c = true -> q c = true) -> all_by p s = true -> all_by q s = true.
Proof.
  intros I. induction s as [|c r IH]; simpl; auto. intros H. apply andb_prop in H. destruct H as [H1 H2].
  rewrite (I _ H1), IH; auto.
Qed.

Lemma space_blank_is_spaces w : all_space w = true -> blank_ws w = true -> w = spaces (len w).
Proof.
  induction w as [|c r IH]; simpl; auto. intros H1 H2.
  apply andb_prop in H1. destruct H1 as [A1 A2]. apply andb_prop in H2. destruct H2 as [B1 B2].
  unfold blank_or_nonspace in B1. rewrite A1 in B1. simpl in B1. apply Ascii.eqb_eq in B1. subst c.
  unfold spaces in *. simpl. f_equal. apply IH; auto.
Qed.

Lemma ljust_rstrip s : blank_ws s = true -> ljust (len s) (rstrip s) = s.
Proof.
  intros B. destruct (rstrip_decomp s) as [w [W E]].
  set (r := rstrip s) in *. assert (Bw : blank_ws w = true).
  { unfold blank_ws in *. rewrite E, all_by_app in B. apply andb_prop in B. tauto. }
  pose proof (space_blank_is_spaces w W Bw) as Sw.
  unfold ljust, ljust_with. rewrite E at 1. rewrite len_app.
  replace (len r + len w - len r) with (len w) by lia. fold (spaces (len w)). rewrite <- Sw. symmetry. exact E.
Qed.

Lemma blank_ws_app a b : blank_ws (a ++ b) = blank_ws a && blank_ws b.
Proof. apply all_by_app. Qed.

Lemma nonspace_blank_ws s : nonspace s = true -> blank_ws s = true.
Proof. apply all_by_impl. intros c H. unfold blank_or_nonspace. rewrite H. reflexivity. Qed.

Lemma blank_ws_spaces n : blank_ws (spaces n) = true.
Proof. apply all_by_rep. reflexivity. Qed.

Lemma blank_ws_render_F w d m : blank_ws (render_F w d m) = true.
Proof.
  unfold render_F, rjust, rjust_with. rewrite blank_ws_app. fold (spaces (w - len (render_F_raw d m))).
  rewrite blank_ws_spaces. simpl. apply nonspace_blank_ws. unfold render_F_raw.
  rewrite !nonspace_app, nonspace_sign, nonspace_frac. unfold render_nat. rewrite nonspace_digits. reflexivity.
Qed.

Lemma blank_ws_flag f : flag_ok f -> blank_ws (flag_char f) = true.
Proof.
  destruct f as [d|]; intros H; [|reflexivity].
  unfold flag_char, blank_ws. cbn [all_by]. unfold blank_or_nonspace. cbn [flag_ok] in H.
  rewrite digit_char_nonspace by lia. reflexivity.
Qed.

Lemma blank_ws_cell c : cell_wf c -> blank_ws (render_cell c) = true.
Proof.
  intros [_ [Hl Hs]]. unfold render_cell. rewrite !blank_ws_app, (blank_ws_flag _ Hl), (blank_ws_flag _ Hs), !andb_true_r.
  destruct (cv c); simpl; [apply blank_ws_spaces | apply blank_ws_render_F | apply blank_ws_render_F].
Qed.

Lemma blank_ws_cells cs : Forall cell_wf cs -> blank_ws (cat (map render_cell cs)) = true.
Proof. induction 1; simpl; auto. rewrite blank_ws_app, blank_ws_cell, IHForall; auto. Qed.

Lemma len_cells cs : Forall cell_wf cs -> len (cat (map render_cell cs)) = 16 * List.length cs.
Proof. induction 1; simpl; auto. rewrite len_app, len_render_cell, IHForall; auto. lia. Qed.

(* ------------------------------------------------------------------------------------------ RINEX 3 observation record *)
Lemma cells_index cs : forall pre j, Forall cell_wf cs -> len pre = 16 * j ->
  map (fun k => parse_cell (slice (16 * k) (16 * k + 16) (pre ++ cat (map render_cell cs)))) (seq j (List.length cs))
  = map (fun c => parse_cell (render_cell c)) cs.
Proof.
  induction cs as [|c r IH]; intros pre j F L; [reflexivity|].
  inversion F as [|? ? Fc Fr]; subst. cbn [List.length seq map cat]. f_equal.
  - f_equal. pose proof (slice_app_mid pre (render_cell c) (cat (map render_cell r))) as P.
    rewrite L, (len_render_cell c Fc) in P. exact P.
  - rewrite <- Text.app_assoc. apply IH; [exact Fr|]. rewrite len_app, L, (len_render_cell c Fc). lia.
Qed.

Lemma opt_all_cells cs : Forall cell_wf cs -> opt_all (map (fun c => parse_cell (render_cell c)) cs) = Some (map cell_val cs).
Proof. induction 1; simpl; auto. rewrite cell_roundtrip_l, IHForall; auto. Qed.

Lemma obs_line_roundtrip_v3_l cut cs : Forall cell_wf cs ->
  v3_cells (List.length cs) (render_obs_v3 cut cs) = Some (map cell_val cs).
Proof.
  intros F. unfold v3_cells, render_obs_v3.
  assert (E : ljust (16 * List.length cs) (maybe_rstrip cut (cat (map render_cell cs))) = cat (map render_cell cs)).
  { rewrite <- (len_cells cs F). destruct cut; simpl.
    - apply ljust_rstrip, blank_ws_cells, F.
    - unfold ljust, ljust_with. rewrite Nat.sub_diag. simpl. apply app_nil_r. }
  rewrite E. pose proof (cells_index cs "" 0 F eq_refl) as I. change ("" ++ cat (map render_cell cs)) with (cat (map render_cell cs)) in I. rewrite I. apply opt_all_cells, F.
Qed.

(* ------------------------------------------------------------------------------------------ RINEX 2 observation lines *)
Lemma drop_rep c j k : drop j (rep c k) = rep c (k - j).
Proof. revert k; induction j; intros [|k]; simpl; auto. Qed.
Lemma take_rep c i k : take i (rep c k) = rep c (Nat.min i k).
Proof. revert k; induction i; intros [|k]; simpl; auto. rewrite IHi. reflexivity. Qed.

(* a field of a short line, padded, is the field of the padded line *)
Lemma ljust_slice t a n : a + 16 <= n -> len t <= n ->
  ljust 16 (slice a (a + 16) t) = slice a (a + 16) (ljust n t).
Proof.
  intros H1 H2. unfold ljust, ljust_with, slice. replace (a + 16 - a) with 16 by lia.
  rewrite drop_app, take_app, drop_rep, take_rep, len_take, !len_drop.
  f_equal. f_equal. lia.
Qed.

Lemma bon_not_nl c : blank_or_nonspace c = true -> is_nl c = false.
Proof.
  intros H. destruct (is_nl c) eqn:E; auto. apply Ascii.eqb_eq in E. subst c. vm_compute in H. discriminate.
Qed.

Lemma strip_by_none p x : all_by (fun c => negb (p c)) x = true -> strip_by p x = x.
Proof.
  intros H. unfold strip_by.
  assert (R : rtrimmed p x = true).
  { induction x as [|c r IH]; auto. simpl in H. apply andb_prop in H. destruct H as [H1 H2].
    simpl. destruct r; auto. }
  assert (L : ltrimmed p x = true) by (destruct x; simpl in *; auto; apply andb_prop in H; tauto).
  rewrite (rstrip_by_rtrimmed p x R). apply lstrip_by_ltrimmed, L.
Qed.

Lemma strip_nl_id x : blank_ws x = true -> strip_nl x = x.
Proof.
  intros H. apply strip_by_none. revert H. apply all_by_impl. intros c Hc. rewrite (bon_not_nl c Hc). reflexivity.
Qed.

Lemma blank_ws_slice a b t : blank_ws t = true -> blank_ws (slice a b t) = true.
Proof. intros H. unfold slice. apply all_by_take, all_by_drop, H. Qed.

Lemma blank_ws_rstrip s : blank_ws s = true -> blank_ws (rstrip s) = true.
Proof.
  intros H. destruct (rstrip_decomp s) as [w [_ E]]. rewrite E, blank_ws_app in H. apply andb_prop in H. tauto.
Qed.

Lemma rstrip_idem s : rstrip (rstrip s) = rstrip s.
Proof. apply rstrip_by_rtrimmed, rtrimmed_rstrip_by. Qed.

Lemma rstrip_maybe cut s : rstrip (maybe_rstrip cut s) = rstrip s.
Proof. destruct cut; simpl; auto using rstrip_idem. Qed.

Definition line_cells (line : string) : option (list cellv) :=
  v2_line_cells (fields_of true v2_obs_fields (rstrip line)).

Lemma v2_names t : names_with_prefix "obs_" (parse_record_by is_nl v2_obs_fields t) = ["obs_1"; "obs_2"; "obs_3"; "obs_4"; "obs_5"].
Proof. reflexivity. Qed.

Lemma field_cell t k : blank_ws t = true -> len t <= 80 -> k < 5 ->
  ljust 16 (strip_nl (slice (16 * k) (16 * k + 16) t)) = slice (16 * k) (16 * k + 16) (ljust 80 t).
Proof.
  intros B L K. rewrite strip_nl_id by (apply blank_ws_slice, B). apply ljust_slice; lia.
Qed.

Lemma line_cells_5 cut cs : Forall cell_wf cs -> List.length cs = 5 ->
  line_cells (maybe_rstrip cut (cat (map render_cell cs))) = Some (map cell_val cs).
Proof.
  intros F L5. unfold line_cells. rewrite rstrip_maybe.
  set (s := cat (map render_cell cs)). set (t := rstrip s).
  assert (Ls : len s = 80) by (unfold s; rewrite (len_cells cs F), L5; reflexivity).
  assert (Bs : blank_ws s = true) by (apply blank_ws_cells, F).
  assert (Bt : blank_ws t = true) by (apply blank_ws_rstrip, Bs).
  assert (Lt : len t <= 80).
  { destruct (rstrip_decomp s) as [w [_ E]]. fold t in E. rewrite E, len_app in Ls. lia. }
  assert (J : ljust 80 t = s) by (rewrite <- Ls; apply ljust_rstrip, Bs).
  unfold v2_line_cells, fields_of. rewrite v2_names.
  pose proof (cells_index cs "" 0 F eq_refl) as I.
  change ("" ++ cat (map render_cell cs)) with s in I. rewrite L5 in I.
  rewrite <- (opt_all_cells cs F), <- I.
  cbn [map seq]. rewrite <- J.
  rewrite <- (field_cell t 0 Bt Lt), <- (field_cell t 1 Bt Lt), <- (field_cell t 2 Bt Lt), <- (field_cell t 3 Bt Lt), <- (field_cell t 4 Bt Lt) by lia.
  reflexivity.
Qed.

Definition blankcell : cell := {| cv := VBlank; clli := None; cssi := None |}.
Lemma blankcell_wf : cell_wf blankcell.
Proof. repeat split. Qed.

Lemma cat_app a b : cat (a ++ b)%list = cat a ++ cat b.
Proof. induction a; simpl; auto. rewrite IHa, Text.app_assoc. reflexivity. Qed.

Lemma all_space_blanks k : all_space (cat (map render_cell (repeat blankcell k))) = true.
Proof. induction k; auto. Qed.

Lemma map_cell_val_blank k : map cell_val (repeat blankcell k) = repeat absent k.
Proof. induction k; [reflexivity|]. cbn [repeat map]. rewrite IHk. reflexivity. Qed.

Lemma line_cells_chunk cut ch : Forall cell_wf ch -> List.length ch <= 5 ->
  line_cells (maybe_rstrip cut (cat (map render_cell ch))) = Some (map cell_val ch ++ repeat absent (5 - List.length ch))%list.
Proof.
  intros F L. set (pad := repeat blankcell (5 - List.length ch)).
  assert (E : line_cells (maybe_rstrip cut (cat (map render_cell ch))) = line_cells (maybe_rstrip false (cat (map render_cell (ch ++ pad)%list)))).
  { unfold line_cells. rewrite !rstrip_maybe, map_app, cat_app, rstrip_app_space; auto. apply all_space_blanks. }
  rewrite E, line_cells_5.
  - rewrite map_app. unfold pad. rewrite map_cell_val_blank. reflexivity.
  - apply Forall_app. split; auto. apply Forall_forall. intros x Hx. apply repeat_spec in Hx. subst. apply blankcell_wf.
  - rewrite app_length. unfold pad. rewrite repeat_length. lia.
Qed.

Lemma chunks_count : forall fuel (l : list cell), List.length l <= fuel -> List.length (chunks fuel 5 l) = (List.length l + 4) / 5.
Proof.
  induction fuel; intros l H.
  - destruct l; simpl in *; [reflexivity|lia].
  - destruct l as [|x r]; [reflexivity|]. cbn [chunks List.length]. rewrite IHfuel.
    + rewrite skipn_length. cbn [List.length]. 
      destruct (Nat.le_gt_cases 5 (S (List.length r))) as [G|G].
      * replace (S (List.length r) + 4) with ((S (List.length r) - 5 + 4) + 1 * 5) by lia. rewrite Nat.div_add by lia. lia.
      * replace (S (List.length r) - 5) with 0 by lia. 
        replace ((S (List.length r) + 4) / 5) with 1; [reflexivity|].
        apply Nat.div_unique with (r := List.length r); lia.
    + rewrite skipn_length. cbn [List.length] in *. lia.
Qed.

Lemma v2_lines_rt cut : forall fuel cells, List.length cells <= fuel -> Forall cell_wf cells ->
  exists per, map line_cells (map (fun ch => maybe_rstrip cut (cat (map render_cell ch))) (chunks fuel 5 cells)) = map Some per /\
              Forall (fun l => List.length l = 5) per /\
              firstn (List.length cells) (concat per) = map cell_val cells.
Proof.
  induction fuel; intros cells H F.
  - destruct cells; [|simpl in H; lia]. exists []. split; [reflexivity|split; [constructor|reflexivity]].
  - destruct cells as [|x r]; [exists []; split; [reflexivity|split; [constructor|reflexivity]]|].
    cbn [chunks]. remember (x :: r) as l eqn:El.
    assert (Ll : 1 <= List.length l) by (subst l; simpl; lia).
    assert (F2 : Forall cell_wf (firstn 5 l) /\ Forall cell_wf (skipn 5 l)).
    { apply Forall_app. rewrite firstn_skipn. exact F. }
    destruct F2 as [Ff Fs].
    destruct (IHfuel (skipn 5 l)) as [per [P1 [P2 P3]]].
    + rewrite skipn_length. lia.
    + exact Fs.
    + exists ((map cell_val (firstn 5 l) ++ repeat absent (5 - List.length (firstn 5 l)))%list :: per).
      split; [|split].
      * cbn [map]. rewrite P1. f_equal. apply line_cells_chunk; auto. rewrite firstn_length. lia.
      * constructor; auto. rewrite app_length, map_length, repeat_length, firstn_length. lia.
      * cbn [concat]. rewrite skipn_length in P3.
        transitivity (map cell_val (firstn 5 l ++ skipn 5 l)%list); [|rewrite firstn_skipn; reflexivity]. rewrite map_app.
        destruct (Nat.le_gt_cases 5 (List.length l)) as [G|G].
        -- rewrite firstn_length, Nat.min_l by lia. replace (5 - 5) with 0 by lia. cbn [repeat]. rewrite List.app_nil_r.
           rewrite firstn_app, map_length, firstn_length, Nat.min_l by lia.
           rewrite firstn_all2 by (rewrite map_length, firstn_length; lia). f_equal. exact P3.
        -- rewrite (firstn_all2 l) by lia. rewrite (skipn_all2 l) by lia. cbn [map]. rewrite List.app_nil_r.
           rewrite <- List.app_assoc. rewrite firstn_app, map_length. replace (List.length l - List.length l) with 0 by lia.
           cbn [firstn]. rewrite List.app_nil_r. apply firstn_all2. rewrite map_length. lia.
Qed.

(* ------------------------------------------------------------------------------------------ satellite lists *)
Definition fix3 (s : string) : string := match fix_sat s with Some x => x | None => s end.

Fixpoint sat_lines (ls : list string) (acc : list string) : option (list string) :=
  match ls with
  | [] => Some acc
  | l :: r => match sat_loop (S (len l)) l acc with Some a => sat_lines r a | None => None end
  end.

Lemma sat_loop_ids : forall ids fuel acc, Forall sat_ok ids -> List.length ids < fuel ->
  sat_loop fuel (cat ids) acc = Some (acc ++ map fix3 ids)%list.
Proof.
  induction ids as [|s r IH]; intros fuel acc F L.
  - destruct fuel; [simpl in L; lia|]. simpl. rewrite List.app_nil_r. reflexivity.
  - inversion F as [|? ? Fs Fr]; subst. destruct Fs as [a [b [c [E Hc]]]]. subst s.
    destruct fuel; [simpl in L; lia|]. cbn [cat sat_loop].
    change (String a (String b (String c "")) ++ cat r) with (String a (String b (String c (cat r)))).
    cbn [take drop]. 
    assert (R : rstrip (String a (String b (String c ""))) = String a (String b (String c ""))).
    { apply rstrip_by_rtrimmed. simpl. rewrite Hc. reflexivity. }
    rewrite R. cbn [String.eqb]. 
    replace (String.eqb (String a (String b (String c ""))) "") with false by reflexivity.
    cbn [fix_sat]. assert (L' : List.length r < fuel) by (simpl in L; lia).
    rewrite (IH fuel _ Fr L'). rewrite <- List.app_assoc. reflexivity.
Qed.

Lemma len_cat_ge ids : Forall sat_ok ids -> List.length ids <= len (cat ids).
Proof.
  induction 1 as [|s r Fs Fr IH]; simpl; auto. destruct Fs as [a [b [c [E _]]]]. subst s. rewrite len_app. simpl. lia.
Qed.

Lemma sat_list_roundtrip_l : forall chunks acc, Forall (Forall sat_ok) chunks ->
  sat_lines (map cat chunks) acc = Some (acc ++ map fix3 (concat chunks))%list.
Proof.
  induction chunks as [|ch r IH]; intros acc F; cbn [map sat_lines concat].
  - rewrite List.app_nil_r. reflexivity.
  - inversion F as [|? ? Fc Fr]; subst. rewrite sat_loop_ids; auto.
    + rewrite IH; auto. rewrite map_app, List.app_assoc. reflexivity.
    + pose proof (len_cat_ge ch Fc). lia.
Qed.

(* ------------------------------------------------------------------------------------------ decimation *)
Lemma on_grid_spec r sec : ~ (r == 0)%Q ->
  (on_grid (Some r) sec = true <-> exists k : Z, (sec == inject_Z k * r)%Q).
Proof.
  intros Hr. unfold on_grid. destruct (Qeq_bool r 0) eqn:E; [apply Qeq_bool_iff in E; contradiction|].
  set (x := (sec / r)%Q). rewrite Z.eqb_eq.
  assert (Sx : (sec == x * r)%Q) by (unfold x; field; exact Hr).
  clearbody x. split.
  - intros H. apply Z.mod_divide in H; [|discriminate]. destruct H as [k Hk]. exists k.
    rewrite Sx. apply Qmult_comp; [|reflexivity]. unfold Qeq. simpl. rewrite Hk. ring.
  - intros [k Hk]. assert (Xk : (x == inject_Z k)%Q) by (apply (Qmult_inj_r _ _ r Hr); rewrite <- Sx; exact Hk).
    unfold Qeq in Xk. simpl in Xk. rewrite Z.mul_1_r in Xk. rewrite Xk. apply Z.mod_mul. discriminate.
Qed.

Lemma on_grid_none sec : on_grid None sec = true.
Proof. reflexivity. Qed.

(* ------------------------------------------------------------------------------------------ epoch fields *)
Lemma time_of_fields y mo d h mi s7 w ws (extra : list (string * string)) :
  time_of (("year", render_int w y) :: ("month", render_int w mo) :: ("day", render_int w d) :: ("hour", render_int w h)
           :: ("minute", render_int w mi) :: ("second", render_F ws 7 s7) :: extra) y
  = Some (time_text y mo d h mi (dec_value s7 7), (inject_Z (h * 3600 + mi * 60) + dec_value s7 7)%Q).
Proof.
  unfold time_of.
  match goal with |- context [lookup "month" ?v] => set (vals := v) end.
  replace (lookup "month" vals) with (render_int w mo) by reflexivity.
  replace (lookup "day" vals) with (render_int w d) by reflexivity.
  replace (lookup "hour" vals) with (render_int w h) by reflexivity.
  replace (lookup "minute" vals) with (render_int w mi) by reflexivity.
  replace (lookup "second" vals) with (render_F ws 7 s7) by reflexivity.
  rewrite !parse_render_int, parse_render_F. reflexivity.
Qed.

(* ------------------------------------------------------------------------------------------ observation-type lists *)
Fixpoint looks (names ts : list string) (vals : list (string * string)) : Prop :=
  match names, ts with
  | nm :: r, t :: ts' => lookup nm vals = t /\ looks r ts' vals
  | nm :: r, [] => lookup nm vals = "" /\ looks r [] vals
  | [], [] => True
  | [], _ :: _ => False
  end.

Lemma add_types_rt : forall names ts acc vals, Forall (fun t => t <> "") ts -> looks names ts vals ->
  add_types names vals acc = (acc ++ ts)%list.
Proof.
  induction names as [|nm r IH]; intros ts acc vals F L.
  - destruct ts; [|contradiction]. simpl. rewrite List.app_nil_r. reflexivity.
  - destruct ts as [|t ts']; simpl in L; destruct L as [L1 L2]; cbn [add_types]; rewrite L1.
    + simpl. apply (IH [] acc vals); auto.
    + inversion F as [|? ? Ft Fr]; subst. destruct (String.eqb_spec (lookup nm vals) ""); [contradiction|].
      rewrite (IH ts' _ vals Fr L2). rewrite <- List.app_assoc. reflexivity.
Qed.
