(* C08 - computed witnesses: each quirk, switched on alone, breaks the property. *)
From Coq Require Import ZArith List Bool Lia.
From Verif Require Import Lib.C08_Lru Model.C08_Cache.
Import ListNotations.
Open Scope Z_scope.

(* a function that depends on descriptor and words of its first argument *)
Definition toy (fn ext : Z) (args : list karg) : option arr :=
  match args with
  | (_, a) :: _ => Some (fst a, map (fun x => x + fn + 100 * ext + Z.of_nat (length args)) (snd a))
  | [] => None
  end.

Definition qs := mkQ true false false false false.
Definition qa := mkQ false true false false false.
Definition qr := mkQ false false true false false.
Definition qv := mkQ false false false true false.
Definition qh := mkQ false false false false true.

Definition a3 : arr := ([0; 3], [10; 20; 30]).
Definition a13 : arr := ([0; 1; 3], [10; 20; 30]).
Definition a23 : arr := ([0; 2; 3], [10; 20; 30; 40; 50; 60]).
Definition b3 : arr := ([0; 3], [11; 21; 31]).

Definition w_shape : list op := [NewArr 0 a3; NewArr 1 a13; Raw 1 0 0; Raw 1 0 1].
Definition w_alias : list op := [NewArr 0 a3; NewArr 1 a3; Raw 1 0 0; WriteRes 7; Raw 1 0 1].
Definition w_ro : list op := [NewArr 0 a3; Raw 1 0 0; SetRow 0 [1; 2; 3]].
Definition w_view : list op := [NewPos 0 1 a23; Conv 0; Slice 0 1 5; SetRow 5 [1; 2; 3]; Conv 0].
Definition w_hand : list op := [NewPos 0 2 a3; NewPos 1 1 b3; SetOther 0 (Some 1); Conv 1; WriteRes 7; Read 0 1].

Definition differs (q : quirks) (ops : list op) : bool :=
  negb (forallb2_obs (fst (run toy q empty_world ops)) (fst (run_uncached toy q empty_world ops))).

Lemma shape_witness : differs qs w_shape = true.   Proof. vm_compute. reflexivity. Qed.
Lemma alias_witness : differs qa w_alias = true.   Proof. vm_compute. reflexivity. Qed.
Lemma view_witness : differs qv w_view = true.     Proof. vm_compute. reflexivity. Qed.
Lemma hand_witness : differs qh w_hand = true.     Proof. vm_compute. reflexivity. Qed.
Lemma ro_witness :
  nth 2 (fst (run toy qr empty_world w_ro)) None = Some (([], []), -1)
  /\ existsb oro (objs (snd (run toy qr empty_world w_ro))) = true.
Proof. vm_compute. split; reflexivity. Qed.
(* the same histories on the specification machine agree with the cache-free machine *)
Lemma spec_on_witnesses :
  forallb (fun ops => negb (differs all_off ops)) [w_shape; w_alias; w_ro; w_view; w_hand] = true.
Proof. vm_compute. reflexivity. Qed.

Definition ttoy (a b : Z) (jd : arr) : option arr := Some (fst jd, map (fun x => x + a + 10 * b) (snd jd)).
Definition jd0 : arr := ([0; 2], [5; 6; 0; 1]).
Definition w_time : list top := [TNew 0 0 0 jd0; TNew 1 0 2 jd0; TScale 0 1; TScale 1 1].
Lemma time_witness :
  trun ttoy true ([], []) w_time <> trun_uncached ttoy true ([], []) w_time
  /\ trun ttoy false ([], []) w_time = trun_uncached ttoy false ([], []) w_time.
Proof. split; [vm_compute; discriminate|vm_compute; reflexivity]. Qed.
