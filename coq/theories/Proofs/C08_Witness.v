(* C08 - computed witnesses: each quirk, switched on alone, breaks the property. *)
From Coq Require Import ZArith List Bool Lia.
From Verif Require Import Lib.C08_Lru Model.C08_Cache.
Import ListNotations.
Open Scope Z_scope.

(* a function that depends on descriptor and words of its first argument *)
Definition toy (fn ext : Z) (args : list karg) : option arr :=
  match args with
  | (_, a) :: _ => Some (fst a, map (fun x => x + fn + 100 * ext + Z.of_nat (length args)) (snd a))
  | [] => None
  end.

Definition qs := mkQ true false false false false false.
Definition qa := mkQ false true false false false false.
Definition qr := mkQ false false true false false false.
Definition qv := mkQ false false false true false false.
Definition qh := mkQ false false false false true false.

Definition a3 : arr := ([0; 3], [10; 20; 30]).
Definition a13 : arr := ([0; 1; 3], [10; 20; 30]).
Definition a23 : arr := ([0; 2; 3], [10; 20; 30; 40; 50; 60]).
Definition b3 : arr := ([0; 3], [11; 21; 31]).

Definition w_shape : list op := [NewArr 0 a3; NewArr 1 a13; Raw 1 0 0; Raw 1 0 1].
Definition w_alias : list op := [NewArr 0 a3; NewArr 1 a3; Raw 1 0 0; WriteRes 7; Raw 1 0 1].
Definition w_ro : list op := [NewArr 0 a3; Raw 1 0 0; SetRow 0 [1; 2; 3]].
Definition w_view : list op := [NewPos 0 1 a23; Conv 0; Slice 0 1 5; SetRow 5 [1; 2; 3]; Conv 0].
Definition w_hand : list op := [NewPos 0 2 a3; NewPos 1 1 b3; SetOther 0 (Some 1); Conv 1; WriteRes 7; Read 0 1].

Definition differs (q : quirks) (ops : list op) : bool :=
  negb (forallb2_obs (fst (run toy q empty_world ops)) (fst (run_uncached toy q empty_world ops))).

Lemma shape_witness : differs qs w_shape = true.   Proof. vm_compute. reflexivity. Qed.
Lemma alias_witness : differs qa w_alias = true.   Proof. vm_compute. reflexivity. Qed.
Lemma view_witness : differs qv w_view = true.     Proof. vm_compute. reflexivity. Qed.
Lemma hand_witness : differs qh w_hand = true.     Proof. vm_compute. reflexivity. Qed.
Lemma ro_witness :
  nth 2 (fst (run toy qr empty_world w_ro)) None = Some (([], []), -1)
  /\ existsb oro (objs (snd (run toy qr empty_world w_ro))) = true.
Proof. vm_compute. split; reflexivity. Qed.
(* the same histories on the specification machine agree with the cache-free machine *)
Lemma spec_on_witnesses :
  forallb (fun ops => negb (differs all_off ops)) [w_shape; w_alias; w_ro; w_view; w_hand] = true.
Proof. vm_compute. reflexivity. Qed.

Definition ttoy (a b : Z) (jd : arr) : option arr := Some (fst jd, map (fun x => x + a + 10 * b) (snd jd)).
Definition jd0 : arr := ([0; 2], [5; 6; 0; 1]).
Definition w_time : list top := [TNew 0 0 0 jd0; TNew 1 0 2 jd0; TScale 0 1; TScale 1 1].
Lemma time_witness :
  trun ttoy true ([], []) w_time <> trun_uncached ttoy true ([], []) w_time
  /\ trun ttoy false ([], []) w_time = trun_uncached ttoy false ([], []) w_time.
Proof. split; [vm_compute; discriminate|vm_compute; reflexivity]. Qed.

Lemma differs_neq : forall q ops, differs q ops = true ->
  fst (run toy q empty_world ops) <> fst (run_uncached toy q empty_world ops).
Proof.
  intros q ops H E. unfold differs in H. rewrite E in H.
  assert (R : forall l, forallb2_obs l l = true).
  { induction l as [|a l IH]; simpl; auto. rewrite IH, andb_true_r.
    destruct a as [[[d w] i]|]; simpl; auto. unfold arr_eqb. simpl.
    assert (Z1 : forall z, zlist_eqb z z = true) by (induction z; simpl; auto; rewrite Z.eqb_refl; auto).
    rewrite !Z1, Z.eqb_refl. reflexivity. }
  rewrite R in H. discriminate.
Qed.

Lemma shape_refuted : exists pf ops, fst (run pf qs empty_world ops) <> fst (run_uncached pf qs empty_world ops).
Proof. exists toy, w_shape. apply differs_neq. exact shape_witness. Qed.
Lemma alias_refuted : exists pf ops, fst (run pf qa empty_world ops) <> fst (run_uncached pf qa empty_world ops).
Proof. exists toy, w_alias. apply differs_neq. exact alias_witness. Qed.
Lemma view_refuted : exists pf ops, fst (run pf qv empty_world ops) <> fst (run_uncached pf qv empty_world ops).
Proof. exists toy, w_view. apply differs_neq. exact view_witness. Qed.
Lemma hand_refuted : exists pf ops, fst (run pf qh empty_world ops) <> fst (run_uncached pf qh empty_world ops).
Proof. exists toy, w_hand. apply differs_neq. exact hand_witness. Qed.
Lemma ro_refuted : exists pf ops, existsb oro (objs (snd (run pf qr empty_world ops))) = true
                                  /\ In (Some (([], []), -1)) (fst (run pf qr empty_world ops)).
Proof. exists toy, w_ro. split; [vm_compute; reflexivity|]. vm_compute. right. right. left. reflexivity. Qed.
Lemma time_refuted : exists tf ops, trun tf true ([], []) ops <> trun_uncached tf true ([], []) ops
                                    /\ trun tf false ([], []) ops = trun_uncached tf false ([], []) ops.
Proof. exists ttoy, w_time. exact time_witness. Qed.

(* scalar memo keys compared by value: a single llh position with lat = -0.0 gets the rotation matrix made for +0.0 *)
Definition qz := mkQ false false false false false true.
Definition lz_pos : arr := ([0; 3], [0; 5; 7]).
Definition lz_neg : arr := ([0; 3], [9223372036854775808; 5; 7]).
Definition w_sval : list op := [NewPos 0 2 lz_pos; NewPos 1 2 lz_neg; Read 0 5; Read 1 5].
Lemma sval_witness : differs qz w_sval = true /\ differs all_off w_sval = false.
Proof. split; vm_compute; reflexivity. Qed.
Lemma sval_refuted : exists pf ops, fst (run pf qz empty_world ops) <> fst (run_uncached pf qz empty_world ops).
Proof. exists toy, w_sval. apply differs_neq. exact (proj1 sval_witness). Qed.
