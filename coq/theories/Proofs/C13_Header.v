(* Proofs/C13_Header.v - the SP3-c/d header: renderer and round trip through the header tables. *)
From Coq Require Import Ascii String List Bool Arith ZArith QArith Lia.
From Verif Require Import Lib.Text Lib.Decimal Lib.Fixed Lib.Dyadic Spec.C13_Sp3Format Model.C13_Sp3 Proofs.C13_Sp3.
Import ListNotations.
Local Open Scope string_scope.

(* ------------------------------------------------------------------------------------ the header *)
Record hdr := mkH {
  hv : ascii;                       (* version letter: c or d *)
  hpv : string;                     (* P or V *)
  hy : Z; hmo : Z; hd : Z; hh : Z; hmi : Z; hs8 : Z;       (* first epoch; seconds in units of 1e-8 *)
  hnep : Z;                         (* number of epochs *)
  hdata : string; hcoord : string; horb : string; hagency : string;
  hweek : Z; hsow8 : Z; hint8 : Z; hmjd : Z; hfrac13 : Z;  (* line 2; interval in 1e-8 s, day fraction in 1e-13 *)
  hsats : list string;              (* satellite ids, any number *)
  haccs : list Z;                   (* accuracy exponents of the ++ lines *)
  hftype : string; htsys : string;  (* %c: file type, time system *)
  hbpv7 : Z; hbclk9 : Z;            (* %f: bases in units of 1e-7 / 1e-9 *)
  hcomments : list string;
}.

Definition vals1 (h : hdr) : list (string * string) :=
  [("version", String (hv h) ""); ("pv_flag", hpv h); ("year", render_nat (hy h)); ("month", render_nat (hmo h));
   ("day", render_nat (hd h)); ("hour", render_nat (hh h)); ("minute", render_nat (hmi h)); ("second", render_F_raw 8 (hs8 h));
   ("num_epoch", render_nat (hnep h)); ("data_used", hdata h); ("coord_sys", hcoord h); ("orb_type", horb h);
   ("agency", hagency h)].
Definition vals2 (h : hdr) : list (string * string) :=
  [("gpsweek", render_nat (hweek h)); ("gpssec", render_F_raw 8 (hsow8 h)); ("epoch_interval", render_F_raw 8 (hint8 h));
   ("mjd_int", render_nat (hmjd h)); ("mjd_frac", render_F_raw 13 (hfrac13 h))].
Definition valsc (h : hdr) : list (string * string) := [("file_type", hftype h); ("time_sys", htsys h)].
Definition valsf (h : hdr) : list (string * string) :=
  [("base_posvel", render_F_raw 7 (hbpv7 h)); ("base_clkrate", render_F_raw 9 (hbclk9 h))].

(* numbers right-justified, texts left-justified (any choice parses the same) *)
Definition rj_num (f : fieldspec) : bool :=
  negb (existsb (String.eqb (fname f)) ["data_used"; "coord_sys"; "orb_type"; "file_type"; "time_sys"]).

Definition bg1 : string := "#" ++ blank_line 59.
Definition bg2 : string := "##" ++ blank_line 58.
Definition bgc : string := "%c    cc     ccc cccc cccc cccc cccc ccccc ccccc ccccc ccccc".
Definition bgf : string := "%f                          0.00000000000  0.000000000000000".
Definition line_c2 : string := "%c cc cc ccc ccc cccc cccc cccc cccc ccccc ccccc ccccc ccccc".
Definition line_f2 : string := "%f  0.0000000  0.000000000  0.00000000000  0.000000000000000".
Definition line_i : string := "%i    0    0    0    0      0      0      0      0         0".

Definition line1 (h : hdr) : string := render_record_gen rj_num bg1 spec_line1 (vals1 h).
Definition line2 (h : hdr) : string := render_record_gen rj_num bg2 spec_line2 (vals2 h).
Definition linec (h : hdr) : string := render_record_gen rj_num bgc spec_pc (valsc h).
Definition linef (h : hdr) : string := render_record_gen rj_num bgf spec_pf (valsf h).

(* satellite list / accuracy lines: 17 entries per line, continuation lines, at least five lines *)
Definition pad17 (fill : string) (l : list string) : list string := firstn 17 (l ++ repeat fill 17).
Fixpoint rows (fuel : nat) (fill : string) (ids : list string) : list (list string) :=
  match fuel with
  | O => []
  | S f => pad17 fill ids :: (if (List.length ids <=? 17)%nat then [] else rows f fill (skipn 17 ids))
  end.
Definition rows5 (fill : string) (ids : list string) : list (list string) :=
  let rs := rows (S (List.length ids)) fill ids in (rs ++ repeat (repeat fill 17) (5 - List.length rs))%list.
Definition plus_lines (sats : list string) : list string :=
  match rows5 "  0" sats with
  | [] => []
  | r0 :: rr => ("+  " ++ rjust 3 (render_nat (Z.of_nat (List.length sats))) ++ "   " ++ cat r0)
                :: map (fun r => "+        " ++ cat r) rr
  end.
Definition pp_lines (accs : list Z) : list string :=
  map (fun r => "++       " ++ cat r) (rows5 "  0" (map (fun a => rjust 3 (render_nat a)) accs)).
Definition comment_lines (cs : list string) : list string := map (fun c => "/* " ++ c) cs.

Definition render_header (h : hdr) : list string :=
  (line1 h :: line2 h :: plus_lines (hsats h) ++ pp_lines (haccs h) ++
   [linec h; line_c2; linef h; line_f2; line_i; line_i] ++ comment_lines (hcomments h))%list.

(* what the parser must deliver *)
Definition meta_of (h : hdr) : meta :=
  [("version", MStr (String (hv h) "")); ("pv_flag", MStr (hpv h)); ("year", MStr (render_nat (hy h)));
   ("month", MStr (render_nat (hmo h))); ("day", MStr (render_nat (hd h))); ("hour", MStr (render_nat (hh h)));
   ("minute", MStr (render_nat (hmi h))); ("second", MStr (render_F_raw 8 (hs8 h)));
   ("num_epoch", MStr (render_nat (hnep h))); ("data_used", MStr (hdata h)); ("coord_sys", MStr (hcoord h));
   ("orb_type", MStr (horb h)); ("agency", MStr (hagency h));
   ("gpsweek", MStr (render_nat (hweek h))); ("gpssec", MStr (render_F_raw 8 (hsow8 h)));
   ("epoch_interval", MStr (render_F_raw 8 (hint8 h))); ("mjd_int", MStr (render_nat (hmjd h)));
   ("mjd_frac", MStr (render_F_raw 13 (hfrac13 h)));
   ("file_type", MStr (hftype h)); ("time_sys", MStr (htsys h));
   ("base_posvel", MNum (dec_value (hbpv7 h) 7)); ("base_clkrate", MNum (dec_value (hbclk9 h) 9))].

Definition text_ok (w : nat) (s : string) : Prop := trimmed s = true /\ (len s <= w)%nat.
Definition nat_ok (k : nat) (v : Z) : Prop := (0 <= v < 10 ^ Z.of_nat k)%Z.
Definition hdr_ok (h : hdr) : Prop :=
  (hv h = "c"%char \/ hv h = "d"%char) /\ text_ok 1 (hpv h) /\
  nat_ok 4 (hy h) /\ nat_ok 2 (hmo h) /\ nat_ok 2 (hd h) /\ nat_ok 2 (hh h) /\ nat_ok 2 (hmi h) /\ fits_F 11 8 (hs8 h) /\
  nat_ok 7 (hnep h) /\ text_ok 5 (hdata h) /\ text_ok 5 (hcoord h) /\ text_ok 3 (horb h) /\ text_ok 4 (hagency h) /\
  nat_ok 4 (hweek h) /\ fits_F 15 8 (hsow8 h) /\ fits_F 14 8 (hint8 h) /\ nat_ok 5 (hmjd h) /\ fits_F 15 13 (hfrac13 h) /\
  text_ok 2 (hftype h) /\ hftype h <> "cc" /\ text_ok 3 (htsys h) /\
  fits_F 10 7 (hbpv7 h) /\ fits_F 12 9 (hbclk9 h).

(* ------------------------------------------------------------------------------------ fits *)
Lemma nat_fits k v : (1 <= k)%nat -> nat_ok k v -> trimmed (render_nat v) = true /\ (len (render_nat v) <= k)%nat.
Proof. intros Hk H. split; [apply trimmed_token, render_nat_token|apply len_render_nat_le; auto]. Qed.
Lemma F_fits w d v : fits_F w d v -> trimmed (render_F_raw d v) = true /\ (len (render_F_raw d v) <= w)%nat.
Proof. intros H. split; [apply trimmed_token, render_F_raw_token|exact H]. Qed.

Ltac fits_tac :=
  unfold fits; repeat (apply Forall2_cons; [cbn [fst snd fname fstart fstop col]; split; [reflexivity|]|]); try apply Forall2_nil.

Lemma fits1 h : hdr_ok h -> fits spec_line1 (vals1 h).
Proof.
  intros [Hv [Hpv [Hy [Hmo [Hd [Hh [Hmi [Hs [Hn [Hda [Hco [Ho [Ha _]]]]]]]]]]]]].
  unfold vals1, spec_line1. fits_tac; cbn [Nat.sub];
    try (apply nat_fits; [lia|assumption]); try (apply F_fits; assumption); try assumption.
  destruct Hv as [-> | ->]; split; try reflexivity; simpl; lia.
Qed.
Lemma fits2 h : hdr_ok h -> fits spec_line2 (vals2 h).
Proof.
  intros [_ [_ [_ [_ [_ [_ [_ [_ [_ [_ [_ [_ [_ [Hw [Hsow [Hi [Hmjd [Hf _]]]]]]]]]]]]]]]]]].
  unfold vals2, spec_line2. fits_tac; cbn [Nat.sub];
    try (apply nat_fits; [lia|assumption]); try (apply F_fits; assumption).
Qed.
Lemma fitsc h : hdr_ok h -> fits spec_pc (valsc h).
Proof.
  intros [_ [_ [_ [_ [_ [_ [_ [_ [_ [_ [_ [_ [_ [_ [_ [_ [_ [_ [Hft [_ [Hts _]]]]]]]]]]]]]]]]]]]]].
  unfold valsc, spec_pc. fits_tac; cbn [Nat.sub]; assumption.
Qed.
Lemma fitsf h : hdr_ok h -> fits spec_pf (valsf h).
Proof.
  intros [_ [_ [_ [_ [_ [_ [_ [_ [_ [_ [_ [_ [_ [_ [_ [_ [_ [_ [_ [_ [_ [Hb1 Hb2]]]]]]]]]]]]]]]]]]]]]].
  unfold valsf, spec_pf. fits_tac; cbn [Nat.sub]; apply F_fits; assumption.
Qed.

(* ------------------------------------------------------------------------------------ small string facts *)
Lemma take_plus n k s : take (n + k) s = take n s ++ take k (drop n s).
Proof. revert s; induction n; intros [|c r]; simpl; auto; [rewrite take_nil; reflexivity|rewrite IHn; reflexivity]. Qed.
Lemma slice_split a b c s : (a <= b)%nat -> (b <= c)%nat -> slice a c s = slice a b s ++ slice b c s.
Proof.
  intros H1 H2. unfold slice. replace (c - a)%nat with ((b - a) + (c - b))%nat by lia.
  rewrite take_plus, drop_drop. do 3 f_equal. lia.
Qed.
Lemma two_chars s a b : slice 0 2 s = String a (String b "") -> exists r, s = String a (String b r).
Proof.
  destruct s as [|x [|y r]]; unfold slice; simpl; intros H; inversion H. subst. destruct r; eauto.
Qed.
Lemma rstrip_head2 c1 c2 r : is_space c2 = false -> exists r', rstrip (String c1 (String c2 r)) = String c1 (String c2 r').
Proof.
  intros H. destruct (rstrip_head c2 r H) as [r' E]. exists r'. unfold rstrip in *.
  change (rstrip_by is_space (String c1 (String c2 r))) with
    (match rstrip_by is_space (String c2 r) with "" => if is_space c1 then "" else String c1 "" | x => String c1 x end).
  rewrite E. reflexivity.
Qed.

(* ------------------------------------------------------------------------------------ stepping through the header *)
Definition hstate (n : nat) (m : meta) : state := mkS true None n m [].

Lemma run_hdr_cons first n m l rest st2 :
  (first = true \/ startswith "*" l = false) ->
  step spec_tables all_off (hstate n m) (rstrip l) = Some st2 ->
  run spec_tables all_off (hstate n m) first (l :: rest) = run spec_tables all_off st2 false rest.
Proof.
  intros Hf Hs. cbn [run].
  replace (negb first && startswith "*" l) with false by (destruct Hf as [-> | ->]; [reflexivity|rewrite andb_false_r; reflexivity]).
  rewrite Hs. reflexivity.
Qed.

Lemma step_string_line n m lab fs line vals :
  assoc lab (t_header spec_tables) = Some (KString, fs) -> slice 0 2 (rstrip line) = lab ->
  parse_record fs (rstrip line) = vals ->
  step spec_tables all_off (hstate n m) (rstrip line) = Some (hstate (S n) (parse_string_loop vals m)).
Proof. intros Ha Hl Hp. unfold step, hstate. cbn [st_hdr st_time st_lnum st_meta st_recs]. unfold header_step. rewrite Hl, Ha, Hp. reflexivity. Qed.
Lemma step_float_line n m m' lab fs line vals :
  assoc lab (t_header spec_tables) = Some (KFloat, fs) -> slice 0 2 (rstrip line) = lab ->
  parse_record fs (rstrip line) = vals -> parse_float_loop vals m = Some m' ->
  step spec_tables all_off (hstate n m) (rstrip line) = Some (hstate (S n) m').
Proof.
  intros Ha Hl Hp Hf. unfold step, hstate. cbn [st_hdr st_time st_lnum st_meta st_recs]. unfold header_step.
  rewrite Hl, Ha, Hp. cbn [st_hdr st_time st_lnum st_meta st_recs]. rewrite Hf. reflexivity.
Qed.

(* lines without a header parser *)
Definition hign (l : string) : Prop :=
  startswith "*" l = false /\ assoc (slice 0 2 (rstrip l)) (t_header spec_tables) = None.
Lemma step_ignored n m l : hign l -> step spec_tables all_off (hstate n m) (rstrip l) = Some (hstate (S n) m).
Proof. intros [_ H]. unfold step, hstate. cbn [st_hdr st_time st_lnum st_meta st_recs]. unfold header_step. rewrite H. reflexivity. Qed.
Lemma run_ignored : forall ls n m rest, Forall hign ls ->
  run spec_tables all_off (hstate n m) false (ls ++ rest)%list = run spec_tables all_off (hstate (n + List.length ls) m) false rest.
Proof.
  induction ls as [|l ls IH]; intros n m rest H.
  - simpl. rewrite Nat.add_0_r. reflexivity.
  - inversion H as [|? ? H1 H2]; subst. cbn [app]. rewrite (run_hdr_cons false n m l _ (hstate (S n) m)).
    + rewrite IH by auto. cbn [List.length]. f_equal. f_equal. lia.
    + right. apply H1.
    + apply step_ignored; auto.
Qed.

Lemma hign_first c r : is_space c = false -> c <> "#"%char -> c <> "%"%char -> c <> "*"%char -> hign (String c r).
Proof.
  intros Hs H1 H2 H3. split.
  - rewrite startswith_star_cons. destruct (Ascii.eqb_spec "*" c); [congruence|reflexivity].
  - destruct (rstrip_head c r Hs) as [r' ->].
    assert (E : exists x, slice 0 2 (String c r') = String c x) by (destruct r'; unfold slice; simpl; eauto).
    destruct E as [x ->]. unfold spec_tables, t_header, assoc.
    cbn [String.eqb].
    destruct (Ascii.eqb_spec "#" c); [congruence|]. destruct (Ascii.eqb_spec "%" c); [congruence|]. reflexivity.
Qed.
Lemma hign_plus r : hign (String "+" r).
Proof. apply hign_first; [reflexivity|discriminate..]. Qed.
Lemma hign_comment c : hign ("/* " ++ c).
Proof. apply hign_first; [reflexivity|discriminate..]. Qed.
Lemma hign_i : hign line_i.
Proof. split; vm_compute; reflexivity. Qed.

Lemma plus_lines_ign sats : Forall hign (plus_lines sats).
Proof.
  unfold plus_lines. destruct (rows5 "  0" sats) as [|r0 rr]; constructor.
  - apply hign_plus.
  - apply Forall_forall. intros l Hl. apply in_map_iff in Hl as [r [<- _]]. apply hign_plus.
Qed.
Lemma pp_lines_ign accs : Forall hign (pp_lines accs).
Proof. unfold pp_lines. apply Forall_forall. intros l Hl. apply in_map_iff in Hl as [r [<- _]]. apply hign_plus. Qed.
Lemma comment_lines_ign cs : Forall hign (comment_lines cs).
Proof. unfold comment_lines. apply Forall_forall. intros l Hl. apply in_map_iff in Hl as [r [<- _]]. apply hign_comment. Qed.

(* ------------------------------------------------------------------------------------ the four table lines *)
Lemma line_facts rj bg fs vals lab a b pos :
  table_wf 60 fs = true -> table_wf_from pos fs = true -> (2 <= pos)%nat -> (60 <= len bg)%nat -> fits fs vals ->
  slice 0 2 bg = String a (String b "") -> is_space b = false -> a <> "*"%char -> lab = String a (String b "") ->
  let line := render_record_gen rj bg fs vals in
  startswith "*" line = false /\ slice 0 2 (rstrip line) = lab /\ parse_record fs (rstrip line) = vals.
Proof.
  intros Hwf Hfrom Hpos Hbg Hfit Hs Hb Ha -> line.
  assert (Hw : forallb (fun f => (fstop f <=? 60)%nat) fs = true) by (apply andb_true_iff in Hwf; apply Hwf).
  assert (S2 : slice 0 2 line = String a (String b "")).
  { unfold line, render_record_gen. rewrite (slice_render_outside bg pos 60); auto using cells_of_ok. }
  destruct (two_chars _ _ _ S2) as [r Hr]. destruct (rstrip_head2 a b r Hb) as [r' Hr'].
  split; [|split].
  - rewrite Hr, startswith_star_cons. destruct (Ascii.eqb_spec "*" a); [congruence|reflexivity].
  - rewrite Hr, Hr'. destruct r'; reflexivity.
  - apply (record_roundtrip_rstrip rj bg 60); auto.
Qed.

Lemma line1_facts h : hdr_ok h ->
  startswith "*" (line1 h) = false /\ slice 0 2 (rstrip (line1 h)) = String "#" (String (hv h) "") /\
  parse_record spec_line1 (rstrip (line1 h)) = vals1 h.
Proof.
  intros Hok. pose proof (fits1 h Hok) as Hfit.
  assert (Hvs : is_space (hv h) = false) by (destruct Hok as [[-> | ->] _]; reflexivity).
  assert (S2 : slice 0 2 (line1 h) = String "#" (String (hv h) "")).
  { rewrite (slice_split 0 1 2) by lia. unfold line1, render_record_gen.
    rewrite (slice_render_outside bg1 1 60); [| vm_compute; reflexivity | vm_compute; reflexivity | vm_compute; lia
                                             | apply cells_of_ok; auto | lia].
    change (slice 0 1 bg1) with "#".
    change (render_cells bg1 spec_line1 (cells_of rj_num spec_line1 (vals1 h))) with
      (place 1 (String (hv h) "") (render_cells bg1 (tl spec_line1) (cells_of rj_num (tl spec_line1) (tl (vals1 h))))).
    change 2%nat with (1 + len (String (hv h) ""))%nat.
    rewrite slice_place_same; [reflexivity|].
    rewrite (len_render_cells bg1 2 60); [vm_compute; lia| vm_compute; reflexivity | vm_compute; reflexivity | vm_compute; lia|].
    apply cells_of_ok. unfold fits in *. inversion Hfit; subst. assumption. }
  destruct (two_chars _ _ _ S2) as [r Hr]. destruct (rstrip_head2 "#" (hv h) r Hvs) as [r' Hr'].
  split; [|split].
  - rewrite Hr. reflexivity.
  - rewrite Hr, Hr'. destruct r'; reflexivity.
  - apply (record_roundtrip_rstrip rj_num bg1 60); auto; vm_compute; try reflexivity; lia.
Qed.

(* ------------------------------------------------------------------------------------ the meta data built up *)
Lemma float_loop_two m v1 v2 q1 q2 :
  meta_has "base_posvel" m = false -> parse_float v1 = Some q1 -> parse_float v2 = Some q2 ->
  parse_float_loop [("base_posvel", v1); ("base_clkrate", v2)] m =
  Some (meta_set "base_clkrate" (MNum q2) (meta_set "base_posvel" (MNum q1) m)).
Proof.
  intros H0 H1 H2. cbn [parse_float_loop]. change ("base_posvel" =? "base_posvel") with true. rewrite H0, H1.
  change ("base_clkrate" =? "base_posvel") with false. cbn [andb]. rewrite H2. reflexivity.
Qed.

Definition meta1 (h : hdr) : meta := parse_string_loop (vals1 h) [].
Definition meta2 (h : hdr) : meta := parse_string_loop (vals2 h) (meta1 h).
Definition meta3 (h : hdr) : meta := parse_string_loop (valsc h) (meta2 h).

Lemma meta4 h : hftype h <> "cc" -> parse_float_loop (valsf h) (meta3 h) = Some (meta_of h).
Proof.
  intros Hcc. unfold meta3, valsc. cbn [parse_string_loop].
  change ("file_type" =? "file_type") with true. rewrite (proj2 (String.eqb_neq _ _) Hcc).
  change ("time_sys" =? "file_type") with false. cbn [andb].
  unfold valsf. rewrite (float_loop_two _ _ _ (dec_value (hbpv7 h) 7) (dec_value (hbclk9 h) 9)).
  - reflexivity.
  - reflexivity.
  - apply parse_float_render_F_raw.
  - apply parse_float_render_F_raw.
Qed.

Lemma c2_vals : parse_record spec_pc (rstrip line_c2) = [("file_type", "cc"); ("time_sys", "ccc")].
Proof. vm_compute. reflexivity. Qed.
Lemma f2_vals : parse_record spec_pf (rstrip line_f2) = [("base_posvel", "0.0000000"); ("base_clkrate", "0.000000000")].
Proof. vm_compute. reflexivity. Qed.

(* ------------------------------------------------------------------------------------ the header round trip *)
Lemma sp3_header_roundtrip_l h :
  hdr_ok h -> exists n, run spec_tables all_off init_state true (render_header h) = Some (mkS true None n (meta_of h) []).
Proof.
  intros Hok. pose proof Hok as Hok0.
  destruct Hok as [Hv [_ [_ [_ [_ [_ [_ [_ [_ [_ [_ [_ [_ [_ [_ [_ [_ [_ [_ [Hcc _]]]]]]]]]]]]]]]]]]]].
  destruct (line1_facts h Hok0) as [A1 [B1 C1]].
  destruct (line_facts rj_num bg2 spec_line2 (vals2 h) "##" "#" "#" 3 eq_refl eq_refl ltac:(lia) ltac:(vm_compute; lia)
              (fits2 h Hok0) eq_refl eq_refl ltac:(discriminate) eq_refl) as [A2 [B2 C2]].
  destruct (line_facts rj_num bgc spec_pc (valsc h) "%c" "%" "c" 3 eq_refl eq_refl ltac:(lia) ltac:(vm_compute; lia)
              (fitsc h Hok0) eq_refl eq_refl ltac:(discriminate) eq_refl) as [A3 [B3 C3]].
  destruct (line_facts rj_num bgf spec_pf (valsf h) "%f" "%" "f" 3 eq_refl eq_refl ltac:(lia) ltac:(vm_compute; lia)
              (fitsf h Hok0) eq_refl eq_refl ltac:(discriminate) eq_refl) as [A4 [B4 C4]].
  fold (line2 h) in A2, B2, C2. fold (linec h) in A3, B3, C3. fold (linef h) in A4, B4, C4.
  unfold render_header. change init_state with (hstate 0 []).
  rewrite (run_hdr_cons true 0 [] (line1 h) _ (hstate 1 (meta1 h))); [|left; reflexivity|].
  2:{ apply (step_string_line 0 [] (String "#" (String (hv h) "")) spec_line1); auto.
      destruct Hv as [-> | ->]; reflexivity. }
  rewrite (run_hdr_cons false 1 (meta1 h) (line2 h) _ (hstate 2 (meta2 h))); [|right; exact A2|].
  2:{ apply (step_string_line 1 (meta1 h) "##" spec_line2); auto. }
  rewrite run_ignored by apply plus_lines_ign. rewrite run_ignored by apply pp_lines_ign.
  set (n0 := (2 + List.length (plus_lines (hsats h)) + List.length (pp_lines (haccs h)))%nat).
  cbn [app].
  rewrite (run_hdr_cons false n0 (meta2 h) (linec h) _ (hstate (S n0) (meta3 h))); [|right; exact A3|].
  2:{ apply (step_string_line n0 (meta2 h) "%c" spec_pc); auto. }
  rewrite (run_hdr_cons false (S n0) (meta3 h) line_c2 _ (hstate (S (S n0)) (meta3 h))); [|right; reflexivity|].
  2:{ rewrite (step_string_line (S n0) (meta3 h) "%c" spec_pc line_c2 _ eq_refl eq_refl c2_vals). reflexivity. }
  rewrite (run_hdr_cons false (S (S n0)) (meta3 h) (linef h) _ (hstate (S (S (S n0))) (meta_of h))); [|right; exact A4|].
  2:{ apply (step_float_line _ (meta3 h) (meta_of h) "%f" spec_pf _ (valsf h)); auto. apply meta4; auto. }
  rewrite (run_hdr_cons false _ (meta_of h) line_f2 _ (hstate (S (S (S (S n0)))) (meta_of h))); [|right; reflexivity|].
  2:{ apply (step_float_line _ (meta_of h) (meta_of h) "%f" spec_pf line_f2 _ eq_refl eq_refl f2_vals). reflexivity. }
  rewrite (run_hdr_cons false _ (meta_of h) line_i _ (hstate (S (S (S (S (S n0))))) (meta_of h))); [|right; reflexivity|apply step_ignored, hign_i].
  rewrite (run_hdr_cons false _ (meta_of h) line_i _ (hstate (S (S (S (S (S (S n0)))))) (meta_of h))); [|right; reflexivity|apply step_ignored, hign_i].
  rewrite <- (List.app_nil_r (comment_lines (hcomments h))). rewrite run_ignored by apply comment_lines_ign.
  eexists. reflexivity.
Qed.

(* ------------------------------------------------------------------------------------ statements of record *)
Definition listed_fields (h : hdr) (m : meta) : Prop :=
  meta_get "version" m = Some (MStr (String (hv h) "")) /\
  meta_get "time_sys" m = Some (MStr (htsys h)) /\
  meta_get "coord_sys" m = Some (MStr (hcoord h)) /\
  meta_get "agency" m = Some (MStr (hagency h)) /\
  meta_get "num_epoch" m = Some (MStr (render_nat (hnep h))) /\
  meta_get "epoch_interval" m = Some (MStr (render_F_raw 8 (hint8 h))).

Lemma sp3_header_roundtrip_T T h :
  gen_tables = Some T -> hdr_ok h ->
  exists n, run T all_off init_state true (render_header h) = Some (mkS true None n (meta_of h) []) /\
            listed_fields h (meta_of h).
Proof.
  intros HT Hok. rewrite sp3_fields_match_spec_l in HT. inversion HT; subst T.
  destruct (sp3_header_roundtrip_l h Hok) as [n Hn]. exists n. split; [exact Hn|]. repeat split.
Qed.

Lemma meta_of_good h : hdr_ok h -> meta_good (meta_of h) (dec_value (hbpv7 h) 7) (dec_value (hbclk9 h) 9).
Proof.
  intros [Hv _]. split; [|split; reflexivity]. exists (String (hv h) ""). split; [reflexivity|].
  destruct Hv as [-> | ->]; discriminate.
Qed.
Lemma render_header_nonempty h : render_header h <> [].
Proof. unfold render_header. discriminate. Qed.

(* whole file with the concrete header; epochs may repeat *)
Lemma sp3_file_roundtrip_full_l T h bs trailer :
  gen_tables = Some T -> hdr_ok h -> bs <> [] -> Forall block_ok bs ->
  Forall bline_ok trailer -> (forall l, In l trailer -> exists c r, l = LOther c r) ->
  parse_file T all_off (render_header h ++ flat_map render_block bs ++ map render_bline trailer)%list =
  Some (meta_of h, rev (blocks_acc (dec_value (hbpv7 h) 7) (dec_value (hbclk9 h) 9) [] bs)).
Proof.
  intros HT Hok Hbs Hb Htr Htr2. rewrite sp3_fields_match_spec_l in HT. inversion HT; subst T.
  destruct (sp3_header_roundtrip_l h Hok) as [n Hn].
  apply (sp3_file_roundtrip_gen_l _ n); auto using render_header_nonempty, meta_of_good.
Qed.
(* ... and with pairwise distinct epochs: every position record, in file order *)
Lemma sp3_file_roundtrip_full_distinct_l T h bs trailer :
  gen_tables = Some T -> hdr_ok h -> bs <> [] -> Forall block_ok bs -> NoDup (map b_time bs) ->
  Forall bline_ok trailer -> (forall l, In l trailer -> exists c r, l = LOther c r) ->
  parse_file T all_off (render_header h ++ flat_map render_block bs ++ map render_bline trailer)%list =
  Some (meta_of h, flat_map (recs_of_block (dec_value (hbpv7 h) 7) (dec_value (hbclk9 h) 9)) bs).
Proof.
  intros HT Hok Hbs Hb Hnd Htr Htr2. rewrite sp3_fields_match_spec_l in HT. inversion HT; subst T.
  destruct (sp3_header_roundtrip_l h Hok) as [n Hn].
  apply (sp3_file_roundtrip_l _ n); auto using render_header_nonempty, meta_of_good.
Qed.

(* ------------------------------------------------------------------------------------ non-vacuity *)
Definition ex_hdr : hdr :=
  mkH "d" "P" 2016 3 1 0 0 50000000 2 "ORBIT" "IGb08" "HLM" "IGS" 1886 17280050000000 90000000000 57448 58
      ["G01"; "G02"; "R07"; "E11"; "C21"; "J02"; "G03"; "G04"; "G05"; "G06"; "G07"; "G08"; "G09"; "G10"; "G11"; "G12"; "G13"; "G14"; "G15"]
      [7; 8; 0; 5] "M" "GPS" 12500000 1025000000 ["comment"; "* a star"].
Lemma ex_hdr_ok : hdr_ok ex_hdr.
Proof.
  unfold hdr_ok, ex_hdr, text_ok, nat_ok. cbn [hv hpv hy hmo hd hh hmi hs8 hnep hdata hcoord horb hagency hweek hsow8 hint8 hmjd hfrac13 hftype htsys hbpv7 hbclk9].
  repeat match goal with
         | |- _ /\ _ => split
         | |- _ \/ _ => right; reflexivity
         | |- trimmed _ = true => reflexivity
         | |- (len _ <= _)%nat => cbn; lia
         | |- (_ <= _ < _)%Z => cbn; lia
         | |- (_ <= _)%Z => cbn; lia
         | |- (_ < _)%Z => cbn; lia
         | |- _ <> _ => discriminate
         | |- fits_F _ _ _ => vm_compute; lia
         end.
Qed.
Lemma ex_hdr_text :
  render_header ex_hdr =
  ["#dP2016  3  1  0  0  0.50000000       2 ORBIT IGb08 HLM  IGS";
   "## 1886 172800.50000000   900.00000000 57448 0.0000000000058";
   "+   19   G01G02R07E11C21J02G03G04G05G06G07G08G09G10G11G12G13";
   "+        G14G15  0  0  0  0  0  0  0  0  0  0  0  0  0  0  0";
   "+          0  0  0  0  0  0  0  0  0  0  0  0  0  0  0  0  0";
   "+          0  0  0  0  0  0  0  0  0  0  0  0  0  0  0  0  0";
   "+          0  0  0  0  0  0  0  0  0  0  0  0  0  0  0  0  0";
   "++         7  8  0  5  0  0  0  0  0  0  0  0  0  0  0  0  0";
   "++         0  0  0  0  0  0  0  0  0  0  0  0  0  0  0  0  0";
   "++         0  0  0  0  0  0  0  0  0  0  0  0  0  0  0  0  0";
   "++         0  0  0  0  0  0  0  0  0  0  0  0  0  0  0  0  0";
   "++         0  0  0  0  0  0  0  0  0  0  0  0  0  0  0  0  0";
   "%c M  cc GPS ccc cccc cccc cccc cccc ccccc ccccc ccccc ccccc";
   "%c cc cc ccc ccc cccc cccc cccc cccc ccccc ccccc ccccc ccccc";
   "%f  1.2500000  1.025000000  0.00000000000  0.000000000000000";
   "%f  0.0000000  0.000000000  0.00000000000  0.000000000000000";
   "%i    0    0    0    0      0      0      0      0         0";
   "%i    0    0    0    0      0      0      0      0         0";
   "/* comment"; "/* * a star"].
Proof. vm_compute. reflexivity. Qed.
