(* C06 - proofs about Model/C06_Rot.v (all statements over R, for all angles / vectors). *)
From Coq Require Import Reals Lra ZArith QArith List Bool.
From Coquelicot Require Import Coquelicot.
From Verif Require Import Lib.Dyadic Lib.Atan2 Lib.Ival Lib.Vec3 Lib.Mat3 Model.C06_Rot.
Import ListNotations.
Open Scope R_scope.

Lemma sc a : sin a * sin a + cos a * cos a = 1.
Proof. pose proof (sin2_cos2 a) as H. unfold Rsqr in H. exact H. Qed.

Ltac rot_unfold := unfold enu_east, enu_north, enu_up, normal; unfold R1, R2, R3, dR1, dR2, dR3, enu2trs, trs2enu.

(* ---------------------------------------------------------------- elementary rotations *)
Lemma R_neg_transpose a : R1 (- a) = mtrans (R1 a) /\ R2 (- a) = mtrans (R2 a) /\ R3 (- a) = mtrans (R3 a).
Proof. rot_unfold. rewrite cos_neg, sin_neg. repeat split; mat3. Qed.

Lemma R_add a b : mmul (R1 a) (R1 b) = R1 (a + b) /\ mmul (R2 a) (R2 b) = R2 (a + b) /\ mmul (R3 a) (R3 b) = R3 (a + b).
Proof. rot_unfold. rewrite cos_plus, sin_plus. repeat split; mat3. Qed.

Lemma R_det_one a : mdet (R1 a) = 1 /\ mdet (R2 a) = 1 /\ mdet (R3 a) = 1.
Proof. pose proof (sc a). rot_unfold. repeat split; mat3_with ltac:(nra). Qed.

Lemma R_orthogonal a : orthogonal (R1 a) /\ orthogonal (R2 a) /\ orthogonal (R3 a).
Proof. pose proof (sc a). rot_unfold. repeat split; mat3_with ltac:(nra). Qed.

Lemma R_rotation a : rotation (R1 a) /\ rotation (R2 a) /\ rotation (R3 a).
Proof.
  destruct (R_orthogonal a) as [O1 [O2 O3]]. destruct (R_det_one a) as [D1 [D2 D3]].
  repeat split; assumption.
Qed.

(* entrywise derivative with respect to the angle *)
Definition mat_is_derive (F : R -> mat3) (x : R) (D : mat3) : Prop :=
  is_derive (fun a => m11 (F a)) x (m11 D) /\ is_derive (fun a => m12 (F a)) x (m12 D) /\ is_derive (fun a => m13 (F a)) x (m13 D) /\
  is_derive (fun a => m21 (F a)) x (m21 D) /\ is_derive (fun a => m22 (F a)) x (m22 D) /\ is_derive (fun a => m23 (F a)) x (m23 D) /\
  is_derive (fun a => m31 (F a)) x (m31 D) /\ is_derive (fun a => m32 (F a)) x (m32 D) /\ is_derive (fun a => m33 (F a)) x (m33 D).

Ltac derive_entry := cbn [m11 m12 m13 m21 m22 m23 m31 m32 m33]; auto_derive; [exact Logic.I | ring].

Lemma dR_is_derivative x : mat_is_derive R1 x (dR1 x) /\ mat_is_derive R2 x (dR2 x) /\ mat_is_derive R3 x (dR3 x).
Proof. unfold mat_is_derive. rot_unfold. repeat (match goal with |- _ /\ _ => split end); derive_entry. Qed.

(* ---------------------------------------------------------------- enu2trs / trs2enu *)
Lemma cos_PI2_plus x : cos (PI / 2 + x) = - sin x.
Proof. rewrite (sin_cos x). ring. Qed.
Lemma sin_PI2_plus x : sin (PI / 2 + x) = cos x.
Proof. symmetry. apply cos_sin. Qed.

Lemma enu2trs_as_R3R1 lat lon : enu2trs lat lon = mmul (R3 (- (PI / 2 + lon))) (R1 (- (PI / 2 - lat))).
Proof.
  rot_unfold. rewrite !cos_neg, !sin_neg, cos_PI2_plus, sin_PI2_plus, cos_shift, sin_shift. mat3.
Qed.

Lemma trs2enu_as_R1R3 lat lon : trs2enu lat lon = mmul (R1 (PI / 2 - lat)) (R3 (PI / 2 + lon)).
Proof. rot_unfold. rewrite cos_PI2_plus, sin_PI2_plus, cos_shift, sin_shift. mat3. Qed.

Lemma trs2enu_transpose lat lon : trs2enu lat lon = mtrans (enu2trs lat lon).
Proof. rot_unfold. mat3. Qed.

Lemma enu_rotation lat lon : rotation (enu2trs lat lon) /\ rotation (trs2enu lat lon).
Proof.
  assert (H : rotation (enu2trs lat lon)).
  { rewrite enu2trs_as_R3R1. apply rotation_mul.
    - exact (proj2 (proj2 (R_rotation _))).
    - exact (proj1 (R_rotation _)). }
  split; [exact H|]. rewrite trs2enu_transpose. apply rotation_trans. exact H.
Qed.

(* lengths, angles (dot products) and orientation (cross products) are preserved, both ways *)
Lemma enu_preserves lat lon u v :
  (dot (mvec (trs2enu lat lon) u) (mvec (trs2enu lat lon) v) = dot u v /\
   norm (mvec (trs2enu lat lon) u) = norm u /\
   mvec (trs2enu lat lon) (cross u v) = cross (mvec (trs2enu lat lon) u) (mvec (trs2enu lat lon) v)) /\
  (dot (mvec (enu2trs lat lon) u) (mvec (enu2trs lat lon) v) = dot u v /\
   norm (mvec (enu2trs lat lon) u) = norm u /\
   mvec (enu2trs lat lon) (cross u v) = cross (mvec (enu2trs lat lon) u) (mvec (enu2trs lat lon) v)).
Proof.
  destruct (enu_rotation lat lon) as [H1 H2].
  split; (split; [apply orthogonal_preserves_dot | split; [apply orthogonal_preserves_norm | apply rotation_preserves_cross]]);
    first [exact H1 | exact H2 | exact (proj1 H1) | exact (proj1 H2)].
Qed.

Lemma enu_roundtrip lat lon v :
  mvec (enu2trs lat lon) (mvec (trs2enu lat lon) v) = v /\ mvec (trs2enu lat lon) (mvec (enu2trs lat lon) v) = v.
Proof.
  destruct (enu_rotation lat lon) as [H1 _]. rewrite trs2enu_transpose.
  split; [apply rotation_roundtrip' | apply rotation_roundtrip]; exact H1.
Qed.

(* ---------------------------------------------------------------- the triad and the ellipsoid *)
Lemma up_is_normal lat lon : enu_up lat lon = normal lat lon.
Proof. rot_unfold. mat3. Qed.

Lemma height_along_normal a e2 lat lon h :
  geodetic_point a e2 lat lon h = vadd (geodetic_point a e2 lat lon 0) (vscale h (normal lat lon)).
Proof. unfold geodetic_point, normal. vec3. Qed.

(* the foot point lies on the ellipsoid x²/a² + y²/a² + z²/(a²(1-e²)) = 1 and the gradient of that quadratic form there is a
   positive multiple of `normal`: Up is the outward ellipsoid normal *)
Lemma normal_is_ellipsoid_gradient a e2 lat lon :
  0 < a -> 0 <= e2 < 1 ->
  let N := a / sqrt (1 - e2 * (sin lat * sin lat)) in
  0 < N /\
  ellipsoid_F a e2 (geodetic_point a e2 lat lon 0) = 1 /\
  ellipsoid_grad a e2 (geodetic_point a e2 lat lon 0) = vscale (2 * N / (a * a)) (normal lat lon).
Proof.
  intros Ha He N.
  pose proof (sc lat) as Hlat. pose proof (sc lon) as Hlon.
  assert (Hs2 : 0 <= sin lat * sin lat <= 1).
  { pose proof (Rle_0_sqr (sin lat)). pose proof (Rle_0_sqr (cos lat)). unfold Rsqr in *. lra. }
  assert (Hw : 0 < 1 - e2 * (sin lat * sin lat)) by nra.
  set (w := 1 - e2 * (sin lat * sin lat)) in *.
  assert (HW : 0 < sqrt w) by (apply sqrt_lt_R0; exact Hw).
  assert (HWW : sqrt w * sqrt w = w) by (apply sqrt_sqrt; lra).
  assert (HN : 0 < N) by (unfold N; apply Rdiv_lt_0_compat; assumption).
  assert (HNN : N * N * w = a * a).
  { unfold N. transitivity (a / sqrt w * (a / sqrt w) * (sqrt w * sqrt w)); [rewrite HWW; reflexivity | field; lra]. }
  split; [exact HN|]. split.
  - unfold ellipsoid_F, geodetic_point. fold w. fold N. cbn [vx vy vz].
    replace ((N + 0) * cos lat * cos lon * ((N + 0) * cos lat * cos lon) + (N + 0) * cos lat * sin lon * ((N + 0) * cos lat * sin lon))
      with (N * N * (cos lat * cos lat) * (sin lon * sin lon + cos lon * cos lon)) by ring.
    rewrite Hlon.
    replace (N * N * (cos lat * cos lat) * 1 / (a * a) + (N * (1 - e2) + 0) * sin lat * ((N * (1 - e2) + 0) * sin lat) / (a * a * (1 - e2)))
      with (N * N * (cos lat * cos lat + (1 - e2) * (sin lat * sin lat)) / (a * a)) by (field; lra).
    replace (cos lat * cos lat + (1 - e2) * (sin lat * sin lat)) with w by (unfold w; lra).
    rewrite HNN. field. lra.
  - unfold ellipsoid_grad, geodetic_point, normal. fold w. fold N. cbn [vx vy vz].
    unfold vscale. cbn [vx vy vz]. f_equal; field; lra.
Qed.

(* the foot point written in terms of the normal vector alone (the form check_normal evaluates) *)
Lemma foot_of_normal a e2 lat lon : 0 < a -> 0 <= e2 < 1 ->
  let n := normal lat lon in
  let b2 := a * a * (1 - e2) in
  let D := sqrt (a * a * (vx n * vx n + vy n * vy n) + b2 * (vz n * vz n)) in
  V3 (a * a * vx n / D) (a * a * vy n / D) (b2 * vz n / D) = geodetic_point a e2 lat lon 0.
Proof.
  intros Ha He n b2 D.
  pose proof (sc lat) as Hlat. pose proof (sc lon) as Hlon.
  assert (Hs2 : 0 <= sin lat * sin lat <= 1).
  { pose proof (Rle_0_sqr (sin lat)). pose proof (Rle_0_sqr (cos lat)). unfold Rsqr in *. lra. }
  set (w := 1 - e2 * (sin lat * sin lat)).
  assert (Hw : 0 < w) by (unfold w; nra).
  assert (HW : 0 < sqrt w) by (apply sqrt_lt_R0; exact Hw).
  assert (HD : D = a * sqrt w).
  { unfold D, b2, n, normal; cbn [vx vy vz].
    replace (a * a * (cos lat * cos lon * (cos lat * cos lon) + cos lat * sin lon * (cos lat * sin lon)) + a * a * (1 - e2) * (sin lat * sin lat))
      with (a * a * ((sin lon * sin lon + cos lon * cos lon) * (cos lat * cos lat) + (1 - e2) * (sin lat * sin lat))) by ring.
    rewrite Hlon.
    replace (1 * (cos lat * cos lat) + (1 - e2) * (sin lat * sin lat)) with w by (unfold w; lra).
    rewrite sqrt_mult_alt by nra. rewrite sqrt_square by lra. reflexivity. }
  rewrite HD. unfold geodetic_point, b2, n, normal; cbn [vx vy vz]. fold w.
  f_equal; field; lra.
Qed.

Lemma east_perp_axis_up lat lon :
  dot (enu_east lat lon) ez = 0 /\ dot (enu_east lat lon) (enu_up lat lon) = 0 /\ norm2 (enu_east lat lon) = 1 /\
  cross ez (enu_up lat lon) = vscale (cos lat) (enu_east lat lon).
Proof. pose proof (sc lon). rot_unfold. repeat split; mat3_with ltac:(nra). Qed.

Lemma north_completes_rh lat lon :
  enu_north lat lon = cross (enu_up lat lon) (enu_east lat lon) /\
  norm2 (enu_north lat lon) = 1 /\ norm2 (enu_up lat lon) = 1 /\ dot (enu_north lat lon) ez = cos lat.
Proof.
  pose proof (sc lon) as Hlon. pose proof (sc lat) as Hlat.
  assert (Hc : 0 <= cos lat * cos lat) by (pose proof (Rle_0_sqr (cos lat)); unfold Rsqr in *; lra).
  assert (Hz : cos lat * (sin lon * sin lon + cos lon * cos lon) = cos lat) by (rewrite Hlon; ring).
  rot_unfold. split; [mat3_with ltac:(first [ring | nra]) | split; [|split]].
  - mat3_unfold.
    match goal with |- ?l = 1 =>
      replace l with ((sin lon * sin lon + cos lon * cos lon) * (sin lat * sin lat) + cos lat * cos lat) by ring end.
    rewrite Hlon. lra.
  - mat3_unfold.
    match goal with |- ?l = 1 =>
      replace l with ((sin lon * sin lon + cos lon * cos lon) * (cos lat * cos lat) + sin lat * sin lat) by ring end.
    rewrite Hlon. lra.
  - mat3_unfold. ring.
Qed.

(* ---------------------------------------------------------------- along / cross / radial *)
Lemma unitv_vunit a : unitv a = vunit a.
Proof. unfold unitv, vunit, vscale. apply vec3_eq; simpl; unfold Rdiv; ring. Qed.

Lemma cross_zero_l v : cross vzero v = vzero.
Proof. vec3. Qed.
Lemma cross_zero_r v : cross v vzero = vzero.
Proof. vec3. Qed.
Lemma vscale_zero k : vscale k vzero = vzero.
Proof. vec3. Qed.

Lemma vscale_nonzero k w : k <> 0 -> w <> vzero -> vscale k w <> vzero.
Proof.
  intros Hk Hw H. apply Hw.
  assert (E : w = vscale (/ k) (vscale k w)) by (rewrite vscale_scale, Rinv_l, vscale_1; auto).
  rewrite E, H. apply vscale_zero.
Qed.

Lemma vunit_scale_pos k w : 0 < k -> w <> vzero -> vunit (vscale k w) = vunit w.
Proof.
  intros Hk Hw. unfold vunit. rewrite norm_scale_pos by lra. rewrite vscale_scale.
  pose proof (norm_pos w Hw). f_equal. field. lra.
Qed.

Lemma vunit_of_unit w : norm2 w = 1 -> vunit w = w.
Proof.
  intros H. unfold vunit, norm. rewrite H, sqrt_1, Rinv_1. apply vscale_1.
Qed.

Lemma triple_id a b : dot (cross (cross a b) a) b = norm2 (cross a b).
Proof. vec3. Qed.

Section Acr.
  Variables r v : vec3.
  Hypothesis Hrv : cross r v <> vzero.

  Let Hr : r <> vzero.
  Proof. intros E. apply Hrv. rewrite E. apply cross_zero_l. Qed.
  Let Hv : v <> vzero.
  Proof. intros E. apply Hrv. rewrite E. apply cross_zero_r. Qed.

  Lemma acr_c_eq : acr_c r v = vunit (cross r v).
  Proof.
    unfold acr_c. rewrite !unitv_vunit. unfold vunit at 2 3.
    rewrite cross_scale_l, cross_scale_r, vscale_scale.
    apply vunit_scale_pos; [|exact Hrv].
    apply Rmult_lt_0_compat; apply Rinv_0_lt_compat; apply norm_pos; assumption.
  Qed.

  Lemma acr_r_eq : acr_r r v = vunit r.
  Proof. unfold acr_r. apply unitv_vunit. Qed.

  Lemma acr_c_unit : norm2 (acr_c r v) = 1.
  Proof. rewrite acr_c_eq. apply vunit_norm2. exact Hrv. Qed.
  Lemma acr_r_unit : norm2 (acr_r r v) = 1.
  Proof. rewrite acr_r_eq. apply vunit_norm2. exact Hr. Qed.
  Lemma acr_c_perp_r : dot (acr_c r v) (acr_r r v) = 0.
  Proof.
    rewrite acr_c_eq, acr_r_eq. unfold vunit. rewrite dot_scale_l, dot_scale_r, cross_perp_l. ring.
  Qed.

  Lemma acr_a_eq : acr_a r v = cross (acr_c r v) (acr_r r v).
  Proof.
    unfold acr_a. rewrite unitv_vunit. fold (acr_r r v).
    apply vunit_of_unit. apply cross_unit_perp; [apply acr_c_unit | apply acr_r_unit | apply acr_c_perp_r].
  Qed.

  Lemma acr_a_unit : norm2 (acr_a r v) = 1.
  Proof. rewrite acr_a_eq. apply cross_unit_perp; [apply acr_c_unit | apply acr_r_unit | apply acr_c_perp_r]. Qed.

  Lemma acr_orthonormal_rh : rotation (trs2acr r v) /\ rotation (acr2trs r v).
  Proof.
    assert (H : rotation (trs2acr r v)).
    { split.
      - unfold trs2acr. apply orthogonal_of_rows.
        + apply acr_a_unit. + apply acr_c_unit. + apply acr_r_unit.
        + rewrite acr_a_eq. apply cross_perp_l.
        + rewrite acr_a_eq. apply cross_perp_r.
        + apply acr_c_perp_r.
      - unfold trs2acr. rewrite det_of_rows. rewrite <- acr_a_eq. apply acr_a_unit. }
    split; [exact H | apply rotation_trans; exact H].
  Qed.

  (* radial = r/|r|, cross = (r x v)/|r x v|, along = cross x radial and has a positive component along v *)
  Lemma acr_axes :
    row3 (trs2acr r v) = vunit r /\ row2 (trs2acr r v) = vunit (cross r v) /\
    row1 (trs2acr r v) = cross (row2 (trs2acr r v)) (row3 (trs2acr r v)) /\
    0 < dot (row1 (trs2acr r v)) v.
  Proof.
    assert (R1' : row1 (trs2acr r v) = acr_a r v) by (unfold trs2acr; destruct (acr_a r v); reflexivity).
    assert (R2' : row2 (trs2acr r v) = acr_c r v) by (unfold trs2acr; destruct (acr_c r v); reflexivity).
    assert (R3' : row3 (trs2acr r v) = acr_r r v) by (unfold trs2acr; destruct (acr_r r v); reflexivity).
    rewrite R1', R2', R3'.
    split; [apply acr_r_eq|]. split; [apply acr_c_eq|]. split; [apply acr_a_eq|].
    rewrite acr_a_eq, acr_c_eq, acr_r_eq.
    (* (c x ru) . v = |r x v| / |r| *)
    unfold vunit. rewrite cross_scale_l, cross_scale_r, !dot_scale_l, triple_id.
    pose proof (norm_pos _ Hrv) as Hn. pose proof (norm_pos _ Hr) as Hnr. pose proof (norm2_pos _ Hrv) as Hn2.
    apply Rmult_lt_0_compat; [apply Rinv_0_lt_compat; exact Hn|].
    apply Rmult_lt_0_compat; [apply Rinv_0_lt_compat; exact Hnr | exact Hn2].
  Qed.
End Acr.

(* ---------------------------------------------------------------- azimuth / elevation *)
Lemma clip1_id x : -1 <= x <= 1 -> clip1 x = x.
Proof. intros [H1 H2]. unfold clip1. rewrite Rmin_right by exact H2. apply Rmax_right. exact H1. Qed.

Lemma az_el_are_angles_in_triad lat lon p o rho az el :
  0 < rho -> - PI < az <= PI -> - (PI / 2) < el < PI / 2 ->
  vsub o p = vscale rho (mvec (enu2trs lat lon) (V3 (cos el * sin az) (cos el * cos az) (sin el))) ->
  azimuth lat lon p o = az /\ elevation lat lon p o = el /\ zenith_distance lat lon p o = PI / 2 - el.
Proof.
  intros Hrho Haz Hel Hd.
  destruct (enu_rotation lat lon) as [[HO _] _].
  set (x := V3 (cos el * sin az) (cos el * cos az) (sin el)) in *.
  assert (Hx : norm2 x = 1).
  { unfold x, norm2, dot; cbn [vx vy vz]. pose proof (sc az). pose proof (sc el).
    replace (cos el * sin az * (cos el * sin az) + cos el * cos az * (cos el * cos az) + sin el * sin el)
      with ((sin az * sin az + cos az * cos az) * (cos el * cos el) + sin el * sin el) by ring.
    rewrite H. lra. }
  set (w := mvec (enu2trs lat lon) x) in *.
  assert (Hw : norm2 w = 1) by (unfold w; rewrite orthogonal_preserves_norm2 by exact HO; exact Hx).
  assert (Hwnz : w <> vzero).
  { intros E. rewrite E in Hw. unfold norm2 in Hw. rewrite dot_zero_l in Hw. lra. }
  assert (Hdir : direction p o = w).
  { unfold direction. rewrite unitv_vunit, Hd, vunit_scale_pos by assumption. apply vunit_of_unit. exact Hw. }
  assert (HE : dot w (enu_east lat lon) = cos el * sin az).
  { unfold enu_east. rewrite <- mvec_ex. unfold w. rewrite orthogonal_preserves_dot by exact HO. unfold x. vec3. }
  assert (HN : dot w (enu_north lat lon) = cos el * cos az).
  { unfold enu_north. rewrite <- mvec_ey. unfold w. rewrite orthogonal_preserves_dot by exact HO. unfold x. vec3. }
  assert (HU : dot w (enu_up lat lon) = sin el).
  { unfold enu_up. rewrite <- mvec_ez. unfold w. rewrite orthogonal_preserves_dot by exact HO. unfold x. vec3. }
  assert (Hel' : elevation lat lon p o = el).
  { unfold elevation. rewrite Hdir, HU. rewrite clip1_id by (pose proof (SIN_bound el); lra). apply asin_sin. lra. }
  split; [|split].
  - unfold azimuth. rewrite Hdir, HE, HN. apply atan2_polar; [|exact Haz]. apply cos_gt_0; lra.
  - exact Hel'.
  - unfold zenith_distance. rewrite Hel'. reflexivity.
Qed.

(* ---------------------------------------------------------------- position/velocity differences (6x6 block diagonal) *)
Lemma posvel_block_roundtrip M pv :
  rotation M ->
  block (mtrans M) (block M pv) = pv /\ block M (block (mtrans M) pv) = pv /\
  dot (fst (block M pv)) (fst (block M pv)) = dot (fst pv) (fst pv) /\
  dot (snd (block M pv)) (snd (block M pv)) = dot (snd pv) (snd pv).
Proof.
  intros H. destruct pv as [a b]. unfold block; cbn [fst snd].
  rewrite !(rotation_roundtrip M _ H), !(rotation_roundtrip' M _ H).
  rewrite !(orthogonal_preserves_dot M _ _ (proj1 H)). repeat split.
Qed.

(* ---------------------------------------------------------------- the expressions of the correspondence mean the model *)
Lemma model_exprs_ok a lat lon :
  map (eval_R (env_R [a])) R1e = mat_entries (R1 a) /\ map (eval_R (env_R [a])) R2e = mat_entries (R2 a) /\
  map (eval_R (env_R [a])) R3e = mat_entries (R3 a) /\ map (eval_R (env_R [a])) dR1e = mat_entries (dR1 a) /\
  map (eval_R (env_R [a])) dR2e = mat_entries (dR2 a) /\ map (eval_R (env_R [a])) dR3e = mat_entries (dR3 a) /\
  map (eval_R (env_R [lat; lon])) enu2trs_e = mat_entries (enu2trs lat lon) /\
  map (eval_R (env_R [lat; lon])) trs2enu_e = mat_entries (trs2enu lat lon).
Proof. repeat split; reflexivity. Qed.

Lemma check_all_sound p rel abs r rI es ds :
  (forall n, containsR (rI n) (r n)) ->
  check_all p rel abs rI es ds = true ->
  Forall2 (fun e d => Rabs (eval_R r e - dyR d) <= Q2R rel * Rabs (dyR d) + Q2R abs) es ds.
Proof.
  intros H. revert ds. induction es as [|e es IH]; intros [|d ds] Hc; simpl in Hc; try discriminate.
  - constructor.
  - apply andb_prop in Hc. destruct Hc as [H1 H2]. constructor.
    + exact (check_close_rel_sound p rel abs e r rI d H H1).
    + apply IH. exact H2.
Qed.

(* verdict 0 of check_rot / check_enu: every shipped entry is within relative 1e-12 (+1e-22) of the real-number model *)
Lemma check_rot_sound k a m :
  check_rot (k, false, a, m) = 0%Z -> (k = 1 \/ k = 2 \/ k = 3)%Z ->
  Forall2 (fun x d => Rabs (x - dyR d) <= Q2R rel12 * Rabs (dyR d) + Q2R abs15)
          (mat_entries (match k with 1%Z => R1 (dyR a) | 2%Z => R2 (dyR a) | _ => R3 (dyR a) end)) m.
Proof.
  intros Hc Hk. unfold check_rot, verdict in Hc.
  destruct (_ && _ && _) eqn:E; [|discriminate].
  apply andb_prop in E. destruct E as [E _]. apply andb_prop in E. destruct E as [_ E].
  pose proof (check_all_sound p128 rel12 abs15 (env_dyR [a]) (env_dy p128 [a]) _ m (env_dy_contains p128 [a]) E) as G.
  destruct (model_exprs_ok (dyR a) 0 0) as [E1 [E2 [E3 _]]].
  assert (F2map : forall es, Forall2 (fun e d => Rabs (eval_R (env_dyR [a]) e - dyR d) <= Q2R rel12 * Rabs (dyR d) + Q2R abs15) es m ->
                             Forall2 (fun x d => Rabs (x - dyR d) <= Q2R rel12 * Rabs (dyR d) + Q2R abs15) (map (eval_R (env_dyR [a])) es) m).
  { intros es. generalize m. induction es; intros m' HF; inversion HF; subst; simpl; constructor; auto. }
  destruct Hk as [-> | [-> | ->]]; simpl rot_expr in G; apply F2map in G.
  - rewrite <- E1. exact G.
  - rewrite <- E2. exact G.
  - rewrite <- E3. exact G.
Qed.

(* the same for enu2trs/trs2enu and for converted difference vectors *)
Lemma check_all_abs_sound p tol r rI es ds :
  (forall n, containsR (rI n) (r n)) ->
  check_all_abs p tol rI es ds = true ->
  Forall2 (fun e d => Rabs (eval_R r e - dyR d) <= Q2R tol) es ds.
Proof.
  intros H. revert ds. induction es as [|e es IH]; intros [|d ds] Hc; simpl in Hc; try discriminate.
  - constructor.
  - apply andb_prop in Hc. destruct Hc as [H1 H2]. constructor.
    + exact (check_close_sound p tol e r rI d H H1).
    + apply IH. exact H2.
Qed.

Lemma Forall2_map_eval (P : R -> dy -> Prop) r es m :
  Forall2 (fun e d => P (eval_R r e) d) es m -> Forall2 P (map (eval_R r) es) m.
Proof. revert m. induction es; intros m' HF; inversion HF; subst; simpl; constructor; auto. Qed.

Lemma check_enu_sound to_trs lat lon m :
  check_enu (to_trs, lat, lon, m) = 0%Z ->
  Forall2 (fun x d => Rabs (x - dyR d) <= Q2R rel12 * Rabs (dyR d) + Q2R abs15)
          (mat_entries (if to_trs then enu2trs (dyR lat) (dyR lon) else trs2enu (dyR lat) (dyR lon))) m.
Proof.
  intros Hc. unfold check_enu, verdict in Hc.
  destruct (_ && _) eqn:E; [|discriminate].
  apply andb_prop in E. destruct E as [E _].
  pose proof (check_all_sound p128 rel12 abs15 (env_dyR [lat; lon]) (env_dy p128 [lat; lon]) _ m (env_dy_contains p128 [lat; lon]) E) as G.
  apply (Forall2_map_eval (fun x d => Rabs (x - dyR d) <= Q2R rel12 * Rabs (dyR d) + Q2R abs15)) in G.
  destruct (model_exprs_ok 0 (dyR lat) (dyR lon)) as [_ [_ [_ [_ [_ [_ [E1 E2]]]]]]].
  destruct to_trs; [rewrite <- E1 | rewrite <- E2]; exact G.
Qed.

Lemma check_delta_sound to_trs lat lon d1 d2 d3 out :
  check_delta (to_trs, lat, lon, [d1; d2; d3], out) = 0%Z ->
  Forall2 (fun x o => Rabs (x - dyR o) <= Q2R (delta_tol [d1; d2; d3]))
          (vec_entries (mvec (if to_trs then enu2trs (dyR lat) (dyR lon) else trs2enu (dyR lat) (dyR lon))
                             (V3 (dyR d1) (dyR d2) (dyR d3)))) out.
Proof.
  intros Hc. unfold check_delta, verdict in Hc.
  destruct (_ && _) eqn:E; [|discriminate].
  apply andb_prop in E. destruct E as [E _].
  pose proof (check_all_abs_sound p128 _ (env_dyR (lat :: lon :: [d1; d2; d3])) (env_dy p128 (lat :: lon :: [d1; d2; d3])) _ out
                (env_dy_contains p128 _) E) as G.
  apply (Forall2_map_eval (fun x o => Rabs (x - dyR o) <= Q2R (delta_tol [d1; d2; d3]))) in G.
  destruct to_trs; exact G.
Qed.

(* ---------------------------------------------------------------- the quirk is not the specification *)
Lemma norm_ex : norm ex = 1.
Proof. unfold norm, norm2, dot, ex; simpl. replace (1 * 1 + 0 * 0 + 0 * 0) with 1 by ring. apply sqrt_1. Qed.
Lemma norm_ey : norm ey = 1.
Proof. unfold norm, norm2, dot, ey; simpl. replace (0 * 0 + 1 * 1 + 0 * 0) with 1 by ring. apply sqrt_1. Qed.
Lemma norm_ez : norm ez = 1.
Proof. unfold norm, norm2, dot, ez; simpl. replace (0 * 0 + 0 * 0 + 1 * 1) with 1 by ring. apply sqrt_1. Qed.
Lemma unitv_ex : unitv ex = ex.
Proof. unfold unitv. rewrite norm_ex. unfold ex; simpl. f_equal; field. Qed.
Lemma unitv_ey : unitv ey = ey.
Proof. unfold unitv. rewrite norm_ey. unfold ey; simpl. f_equal; field. Qed.
Lemma unitv_ez : unitv ez = ez.
Proof. unfold unitv. rewrite norm_ez. unfold ez; simpl. f_equal; field. Qed.

Lemma acr_1d_transposed_refuted :
  exists r v d, cross r v <> vzero /\ mvec (trs2acr_q true r v) d <> mvec (trs2acr_q false r v) d.
Proof.
  exists ex, ey, ex. split.
  - rewrite cross_ex_ey. unfold ez, vzero. intros H. apply (f_equal vz) in H. simpl in H. lra.
  - unfold trs2acr_q, trs2acr, acr_a, acr_c, acr_r.
    rewrite unitv_ex, unitv_ey, cross_ex_ey, unitv_ez, cross_ez_ex, unitv_ey.
    intros H. apply (f_equal vy) in H. unfold mvec, of_cols, of_rows, ex, ey, ez in H. simpl in H. lra.
Qed.
