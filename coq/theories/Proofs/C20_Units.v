(* C20 / units - proofs: reciprocity and transitivity of the conversion factors for all units of the
   table, correctness of the symbolic form q * pi^k, the rational bracket of pi and soundness of
   the enclosure used by the correspondence check. *)
From Coq Require Import ZArith QArith Qabs Bool List String Reals Qreals Lia Lra.
From Interval Require Import Tactic.
From Verif Require Import Lib.Dyadic Model.C20_Units.
Import ListNotations.
Open Scope R_scope.

Lemma units_q_nonzero_b : forallb (fun u => negb (Qeq_bool (uq u) 0)) units = true.
Proof. vm_compute. reflexivity. Qed.

Lemma units_q_nonzero u : In u units -> ~ (uq u == 0)%Q.
Proof.
  intros Hin H. pose proof units_q_nonzero_b as Hb.
  rewrite forallb_forall in Hb. specialize (Hb u Hin).
  apply negb_true_iff in Hb. apply Qeq_bool_iff in H. congruence.
Qed.

Lemma Q2R_nonzero q : ~ (q == 0)%Q -> Q2R q <> 0.
Proof. intros H E. apply H. apply eqR_Qeq. rewrite E. unfold Q2R. simpl. lra. Qed.

Lemma PI_neq0' : PI <> 0.
Proof. apply PI_neq0. Qed.

Lemma Rval_nonzero u : In u units -> Rval u <> 0.
Proof.
  intros Hin. unfold Rval. apply Rmult_integral_contrapositive_currified.
  - apply Q2R_nonzero, units_q_nonzero, Hin.
  - apply powerRZ_NOR, PI_neq0'.
Qed.

Lemma unit_reciprocal_l a b : In a units -> In b units -> factor a b * factor b a = 1.
Proof.
  intros Ha Hb. unfold factor.
  pose proof (Rval_nonzero a Ha). pose proof (Rval_nonzero b Hb). field. split; assumption.
Qed.

Lemma unit_transitive_l a b c : In a units -> In b units -> In c units ->
  factor a b * factor b c = factor a c.
Proof.
  intros Ha Hb Hc. unfold factor.
  pose proof (Rval_nonzero b Hb). pose proof (Rval_nonzero c Hc). field. split; assumption.
Qed.

Lemma factor_self a : In a units -> factor a a = 1.
Proof. intros Ha. unfold factor. pose proof (Rval_nonzero a Ha). field. assumption. Qed.

Lemma factor_sym_correct_l a b : In a units -> In b units -> interp (factor_sym a b) = factor a b.
Proof.
  intros Ha Hb. unfold interp, factor_sym, factor, Rval. cbn [fst snd].
  pose proof (units_q_nonzero b Hb) as Hq.
  rewrite Q2R_div by exact Hq.
  unfold Z.sub. rewrite powerRZ_add by apply PI_neq0'.
  rewrite powerRZ_neg'.
  field. split.
  - apply powerRZ_NOR, PI_neq0'.
  - apply Q2R_nonzero, Hq.
Qed.

(* ---- pi *)
Lemma pi_bracket : Q2R pi_lo < PI < Q2R pi_hi.
Proof.
  unfold pi_lo, pi_hi, Q2R. cbn [Qnum Qden].
  split; interval with (i_prec 140).
Qed.

Lemma pi_lo_pos : 0 < Q2R pi_lo.
Proof.
  unfold pi_lo, Q2R. cbn [Qnum Qden]. apply Rmult_lt_0_compat.
  - apply IZR_lt. reflexivity.
  - apply Rinv_0_lt_compat. apply IZR_lt. reflexivity.
Qed.

Lemma Qle_bool_R a b : Qle_bool a b = true -> Q2R a <= Q2R b.
Proof. intros H. apply Qle_Rle. apply Qle_bool_iff. exact H. Qed.

Lemma Qle_bool_false_R a b : Qle_bool a b = false -> Q2R b <= Q2R a.
Proof.
  intros H. apply Qle_Rle. destruct (Qlt_le_dec b a) as [L|L].
  - apply Qlt_le_weak. exact L.
  - apply Qle_bool_iff in L. congruence.
Qed.

Lemma enclose_sound f lo hi : enclose f = Some (lo, hi) -> Q2R lo <= interp f <= Q2R hi.
Proof.
  destruct f as [q k]. unfold enclose, interp. cbn [fst snd].
  pose proof pi_bracket as [Hl Hh]. pose proof pi_lo_pos as Hp.
  assert (Hlo : ~ (pi_lo == 0)%Q) by (intro E; apply Qeq_eqR in E; unfold Q2R at 2 in E; simpl in E; lra).
  assert (Hhi : ~ (pi_hi == 0)%Q) by (intro E; apply Qeq_eqR in E; unfold Q2R at 2 in E; simpl in E; lra).
  destruct k as [|p|p].
  - intros E. inversion E; subst. simpl. lra.
  - destruct p; try discriminate. intros E. simpl powerRZ. rewrite Rmult_1_r.
    destruct (Qle_bool 0 q) eqn:S; inversion E; subst; clear E; rewrite !Q2R_mult.
    + apply Qle_bool_R in S. unfold Q2R at 1 in S. simpl in S. split; nra.
    + apply Qle_bool_false_R in S. unfold Q2R at 2 in S. simpl in S. split; nra.
  - destruct p; try discriminate. intros E.
    change (powerRZ PI (-1)) with (/ (PI * 1)). rewrite Rmult_1_r.
    assert (Hi1 : / Q2R pi_hi < / PI) by (apply Rinv_lt_contravar; nra).
    assert (Hi2 : / PI < / Q2R pi_lo) by (apply Rinv_lt_contravar; nra).
    assert (Hi0 : 0 < / Q2R pi_hi) by (apply Rinv_0_lt_compat; lra).
    destruct (Qle_bool 0 q) eqn:S; inversion E; subst; clear E;
      rewrite !Q2R_div by assumption; unfold Rdiv.
    + apply Qle_bool_R in S. unfold Q2R at 1 in S. simpl in S. split; nra.
    + apply Qle_bool_false_R in S. unfold Q2R at 2 in S. simpl in S. split; nra.
Qed.

(* what verdict 0 of check_factor means: the implementation's double is within 4 of its ulps of the
   exact conversion factor val a / val b (up to the width 1e-30 of the bracket of pi). *)
Lemma find_unit_In l n u : find_unit l n = Some u -> In u l /\ uname u = n.
Proof.
  induction l as [|x r IH]; simpl; [discriminate|].
  destruct (String.eqb (uname x) n) eqn:E.
  - intros H. inversion H; subst. split; [left; reflexivity| apply String.eqb_eq; exact E].
  - intros H. destruct (IH H). split; [right; assumption | assumption].
Qed.

Lemma check_factor_sound_l a b d : check_factor (a, b, d) = 0%Z ->
  exists ua ub v lo hi, In ua units /\ In ub units /\ uname ua = a /\ uname ub = b /\
    dy_toQ d = Some v /\ Q2R lo <= factor ua ub <= Q2R hi /\
    Q2R lo - 4 * Q2R (ulpQ d) <= Q2R v <= Q2R hi + 4 * Q2R (ulpQ d).
Proof.
  unfold check_factor.
  destruct (find_unit units a) as [ua|] eqn:Ea; [|discriminate].
  destruct (find_unit units b) as [ub|] eqn:Eb; [|discriminate].
  destruct (negb (dim_eqb (udim ua) (udim ub))); [discriminate|].
  destruct (enclose (factor_sym ua ub)) as [[lo hi]|] eqn:Ee; [|discriminate].
  destruct (near_interval 4 lo hi d) eqn:En; [|discriminate].
  intros _. apply find_unit_In in Ea. apply find_unit_In in Eb.
  destruct Ea as [Ia Na], Eb as [Ib Nb].
  unfold near_interval in En. destruct (dy_toQ d) as [v|] eqn:Ev; [|discriminate].
  apply andb_prop in En. destruct En as [E1 E2].
  apply Qle_bool_R in E1. apply Qle_bool_R in E2.
  rewrite Q2R_minus, Q2R_mult in E1. rewrite Q2R_plus, Q2R_mult in E2.
  assert (H4 : Q2R (inject_Z 4) = 4) by (unfold Q2R; simpl; lra).
  rewrite H4 in E1, E2.
  exists ua, ub, v, lo, hi. repeat split; try assumption.
  - rewrite <- factor_sym_correct_l by assumption. apply (enclose_sound _ _ _ Ee).
  - rewrite <- factor_sym_correct_l by assumption. apply (enclose_sound _ _ _ Ee).
Qed.

(* non-vacuity material *)
Lemma units_count : List.length units = 49%nat.
Proof. reflexivity. Qed.

Lemma unit_names_distinct_b :
  forallb (fun u => match find_unit units (uname u) with Some v => Qeq_bool (uq u) (uq v) && Z.eqb (uk u) (uk v) | None => false end) units = true.
Proof. vm_compute. reflexivity. Qed.
