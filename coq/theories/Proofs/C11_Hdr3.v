(* Proofs/C11_Hdr3.v - RINEX 3 header (marker, SYS / # / OBS TYPES with continuation lines) and the whole-file theorem *)
From Coq Require Import Ascii String List Bool ZArith QArith Arith Lia.
From Verif Require Import Lib.Text Lib.Decimal Lib.Fixed Lib.Dyadic Model.C11_Rinex Model.C11_Check
     Spec.C11_RinexFormat Spec.C11_RinexFile Proofs.C11_Rinex Proofs.C11_File3.
Import ListNotations.
Local Open Scope nat_scope.
Local Open Scope string_scope.

(* ------------------------------------------------------------------------------------------ header lines in general *)
Definition label_ok (L : string) : Prop := L <> "" /\ trimmed L = true.

Lemma len_hdr_body body : len body <= 60 -> len (ljust 60 body) = 60.
Proof. apply len_ljust. Qed.

Lemma rstrip_hdr_line body L : label_ok L -> rstrip (hdr_line body L) = hdr_line body L.
Proof.
  intros [Hn Ht]. apply rstrip_by_rtrimmed. unfold hdr_line. apply rtrimmed_app; auto.
  unfold trimmed, trimmed_by in Ht. apply andb_prop in Ht. tauto.
Qed.

Lemma drop60_hdr_line body L : len body <= 60 -> drop 60 (hdr_line body L) = L.
Proof. intros H. unfold hdr_line. rewrite <- (len_hdr_body body H) at 1. apply drop_app_len. Qed.

Lemma slice_hdr_line a b body L : len body <= 60 -> b <= 60 -> slice a b (hdr_line body L) = slice a b (ljust 60 body).
Proof. intros H Hb. unfold hdr_line. apply slice_app_left. rewrite len_hdr_body; auto. Qed.

Lemma label_of_hdr_line body L : len body <= 60 -> label_ok L -> strip (drop 60 (rstrip (hdr_line body L))) = L.
Proof. intros H K. rewrite rstrip_hdr_line, drop60_hdr_line by auto. apply strip_trimmed, K. Qed.

Lemma end_marker_hdr_line body L : len body <= 60 -> label_ok L ->
  is_end_of_header (hdr_line body L) = String.eqb (slice 0 13 L) "END OF HEADER".
Proof.
  intros H K. unfold is_end_of_header. rewrite rstrip_hdr_line by auto. unfold hdr_line.
  pose proof (slice_app_shift (ljust 60 body) 0 13 L) as P. rewrite (len_hdr_body body H) in P.
  change (60 + 0) with 60 in P. change (60 + 13) with 73 in P. rewrite P. reflexivity.
Qed.

(* fold of header_line over lines that are not END OF HEADER *)
Fixpoint hfold (t : table) (ls : list string) (s : st) : option st :=
  match ls with
  | [] => Some s
  | l :: r => match header_line t l s with Some s' => hfold t r s' | None => None end
  end.

Lemma run_header_app t ls : forall s s' rest, Forall (fun l => is_end_of_header l = false) ls -> hfold t ls s = Some s' ->
  run_header t (ls ++ rest) s = run_header t rest s'.
Proof.
  induction ls as [|l r IH]; intros s s' rest F H.
  - inversion H. reflexivity.
  - inversion F as [|? ? Fl Fr]; subst. cbn [hfold] in H. cbn [app run_header].
    destruct (header_line t l s) as [s1|]; [|discriminate]. rewrite Fl. apply IH; auto.
Qed.

Lemma hfold_app t a : forall b s, hfold t (a ++ b) s = match hfold t a s with Some s' => hfold t b s' | None => None end.
Proof.
  induction a as [|l r IH]; intros b s; [reflexivity|]. cbn [app hfold]. destruct (header_line t l s); [apply IH|reflexivity].
Qed.

(* ------------------------------------------------------------------------------------------ MARKER NAME *)
Lemma marker_line_ok m s : trimmed m = true -> len m <= 60 ->
  header_line G3.header_table (hdr_line m "MARKER NAME") s = Some (set_meta (assoc_set "marker_name" (MStr m) (meta s)) s).
Proof.
  intros T L. unfold header_line.
  assert (K : label_ok "MARKER NAME") by (split; [discriminate|reflexivity]).
  rewrite (label_of_hdr_line m _ L K), (rstrip_hdr_line m _ K).
  change (table_find "MARKER NAME" G3.header_table) with (Some ("_parse_string", false, [mkf "marker_name" 0 60])).
  cbv iota beta. unfold fields_of, parse_record, parse_record_by. cbn [map fname fstart fstop].
  rewrite (slice_hdr_line 0 60 m _ L (le_n _)).
  assert (S60 : slice 0 60 (ljust 60 m) = ljust 60 m).
  { unfold slice. rewrite drop_0. apply take_all. rewrite len_hdr_body; auto. }
  rewrite S60. fold (strip (ljust 60 m)). rewrite (strip_ljust 60 m T). reflexivity.
Qed.

(* ------------------------------------------------------------------------------------------ SYS / # / OBS TYPES *)
Definition sp (t : string) : string := " " ++ t.

Lemma type3_strip t : type3_ok t -> strip t = t.
Proof. intros [_ T]. apply strip_trimmed, trimmed_token, T. Qed.

Lemma types_cols : forall chunk pre tail j, len pre = 6 + 4 * j -> Forall type3_ok chunk ->
  map (fun k => strip (slice (7 + 4 * k) (10 + 4 * k) (pre ++ cat (map sp chunk) ++ tail))) (seq j (List.length chunk)) = chunk.
Proof.
  induction chunk as [|t r IH]; intros pre tail j L F; [reflexivity|].
  inversion F as [|? ? Ft Fr]; subst. cbn [List.length seq map cat]. f_equal.
  - unfold sp at 1. rewrite !Text.app_assoc.
    replace (pre ++ " " ++ t ++ cat (map sp r) ++ tail) with ((pre ++ " ") ++ t ++ cat (map sp r) ++ tail)
      by (rewrite !Text.app_assoc; reflexivity).
    pose proof (slice_app_mid (pre ++ " ") t (cat (map sp r) ++ tail)) as P.
    rewrite len_app, L in P. destruct Ft as [Lt Tt]. rewrite Lt in P.
    replace (6 + 4 * j + len " ") with (7 + 4 * j) in P by (simpl; lia).
    replace (7 + 4 * j + 3) with (10 + 4 * j) in P by lia. rewrite P. apply type3_strip. split; auto.
  - replace (pre ++ (sp t ++ cat (map sp r)) ++ tail) with ((pre ++ sp t) ++ cat (map sp r) ++ tail)
      by (rewrite !Text.app_assoc; reflexivity).
    apply IH; auto. rewrite len_app, L. unfold sp. destruct Ft as [Lt _]. rewrite len_app, Lt. simpl. lia.
Qed.

Lemma blank_col x p L a b : len x <= a -> a <= b -> b <= len x + p -> strip (slice a b (x ++ spaces p ++ L)) = "".
Proof.
  intros H1 H0 H2. apply strip_all_space.
  pose proof (slice_app_shift x (a - len x) (b - len x) (spaces p ++ L)) as P.
  replace (len x + (a - len x)) with a in P by lia. replace (len x + (b - len x)) with b in P by lia.
  rewrite P, slice_app_left by (rewrite len_spaces; lia).
  unfold slice. apply all_by_take, all_by_drop, all_space_spaces.
Qed.

Definition names13 : list string :=
  ["type_01"; "type_02"; "type_03"; "type_04"; "type_05"; "type_06"; "type_07"; "type_08"; "type_09"; "type_10"; "type_11";
   "type_12"; "type_13"].

Lemma types_names line : names_with_prefix "type_" (parse_record v3_types_fields line) = names13.
Proof. reflexivity. Qed.

Lemma types_lookups line :
  map (fun nm => lookup nm (parse_record v3_types_fields line)) names13
  = map (fun k => strip (slice (7 + 4 * k) (10 + 4 * k) line)) (seq 0 13).
Proof. reflexivity. Qed.

Lemma add_types_filter vals : forall names acc,
  add_types names vals acc = (acc ++ filter (fun v => negb (String.eqb v "")) (map (fun nm => lookup nm vals) names))%list.
Proof.
  induction names as [|nm r IH]; intros acc; cbn [add_types map filter]; [rewrite List.app_nil_r; reflexivity|].
  rewrite IH. destruct (String.eqb (lookup nm vals) ""); cbn [negb]; [reflexivity|].
  rewrite <- List.app_assoc. reflexivity.
Qed.

Lemma filter_types chunk k : Forall type3_ok chunk ->
  filter (fun v => negb (String.eqb v "")) (chunk ++ repeat "" k)%list = chunk.
Proof.
  induction 1 as [|t r [Lt _] Fr IH]; cbn [app filter].
  - induction k; [reflexivity|exact IHk].
  - destruct (String.eqb_spec t ""); [subst; simpl in Lt; lia|]. cbn [negb]. rewrite IH. reflexivity.
Qed.

Lemma map_const_seq {A} (x : A) a m : map (fun _ : nat => x) (seq a m) = repeat x m.
Proof. revert a; induction m; intros a; [reflexivity|]. cbn [seq map repeat]. rewrite IHm. reflexivity. Qed.

(* the type columns of a header line: the chunk, then blanks *)
Lemma types_columns p6 chunk : len p6 = 6 -> Forall type3_ok chunk -> List.length chunk <= 13 ->
  map (fun k => strip (slice (7 + 4 * k) (10 + 4 * k) (hdr_line (p6 ++ cat (map sp chunk)) types_label_v3))) (seq 0 13)
  = (chunk ++ repeat "" (13 - List.length chunk))%list.
Proof.
  intros L6 F L13. set (n := List.length chunk).
  assert (Lc : len (cat (map sp chunk)) = 4 * n).
  { unfold n. clear L13. induction F as [|t r [Lt _] Fr IH]; [reflexivity|]. cbn [map cat List.length]. unfold sp at 1.
    rewrite !len_app, IH, Lt. simpl. lia. }
  unfold hdr_line, ljust, ljust_with. rewrite len_app, L6, Lc. fold (spaces (60 - (6 + 4 * n))).
  replace 13 with (n + (13 - n)) at 1 by lia. rewrite seq_app, map_app. f_equal.
  - rewrite !Text.app_assoc. apply (types_cols chunk p6 _ 0); [rewrite L6; reflexivity|exact F].
  - cbn [plus]. rewrite <- (map_const_seq "" n (13 - n)).
    apply map_ext_in. intros k Hk. apply in_seq in Hk.
    rewrite (Text.app_assoc (p6 ++ cat (map sp chunk))). apply blank_col; rewrite ?len_app, ?L6, ?Lc; lia.
Qed.

Definition with_types (s : st) (all : list string) (stt : list (string * list string)) (h : option string) : st :=
  {| meta := meta s; pos := pos s; types_all := all; num_types := num_types s; sys_types := stt; hsys := h; rows := rows s |}.

Lemma header_record_types vals s : header_record "_parse_sys_obs_types" vals s = h_types_v3 vals s.
Proof. reflexivity. Qed.

Lemma table_types3 : table_find types_label_v3 G3.header_table = Some ("_parse_sys_obs_types", false, v3_types_fields).
Proof. reflexivity. Qed.

Lemma types_label_ok : label_ok types_label_v3.
Proof. split; [discriminate|reflexivity]. Qed.

Lemma len_sp_cat chunk : Forall type3_ok chunk -> len (cat (map sp chunk)) = 4 * List.length chunk.
Proof.
  induction 1 as [|t r [Lt _] Fr IH]; [reflexivity|]. cbn [map cat List.length]. unfold sp at 1.
  rewrite !len_app, IH, Lt. simpl. lia.
Qed.

Definition tfirst_ok (first : option (string * Z)) (s : st) : Prop :=
  match first with
  | Some (sys, n) => (exists a, sys = String a "" /\ is_space a = false) /\ fits_int 3 n
  | None => True
  end.

Lemma len_p6 first s : tfirst_ok first s ->
  len (match first with Some (sys, n) => sys ++ "  " ++ render_int 3 n | None => spaces 6 end) = 6.
Proof.
  destruct first as [[sys n]|]; [|reflexivity]. intros [[a [E _]] Fn]. subst sys.
  rewrite !len_app, (len_render_int 3 n Fn). reflexivity.
Qed.

Lemma types_line_ok first chunk s : tfirst_ok first s -> chunk <> [] -> Forall type3_ok chunk -> List.length chunk <= 13 ->
  header_line G3.header_table (hdr_line (types_body_v3 first chunk) types_label_v3) s =
  match (match first with Some (sy, _) => Some sy | None => hsys s end) with
  | Some c =>
      let old := match first with Some _ => [] | None => match assoc c (sys_types s) with Some l => l | None => [] end end in
      Some (with_types s (add_all chunk (types_all s)) (assoc_set c (old ++ chunk)%list (sys_types s)) (Some c))
  | None => None
  end.
Proof.
  intros Fo Ne F L13. pose proof (len_p6 first s Fo) as L6. unfold types_body_v3.
  set (p6 := match first with Some (sys, n) => sys ++ "  " ++ render_int 3 n | None => spaces 6 end) in *.
  assert (Lb : len (p6 ++ cat (map (fun t => " " ++ t) chunk)) <= 60).
  { rewrite len_app, L6. change (fun t => " " ++ t) with sp. rewrite (len_sp_cat chunk F). lia. }
  unfold header_line. rewrite (label_of_hdr_line _ _ Lb types_label_ok), (rstrip_hdr_line _ _ types_label_ok), table_types3.
  rewrite header_record_types. unfold fields_of.
  set (line := hdr_line (p6 ++ cat (map (fun t => " " ++ t) chunk)) types_label_v3).
  assert (Ty : add_types (names_with_prefix "type_" (parse_record v3_types_fields line)) (parse_record v3_types_fields line) [] = chunk).
  { rewrite types_names, add_types_filter, types_lookups. cbn [app]. unfold line. change (fun t => " " ++ t) with sp.
    rewrite (types_columns p6 chunk L6 F L13). apply filter_types, F. }
  assert (Sy : lookup "satellite_sys" (parse_record v3_types_fields line) = match first with Some (sy, _) => sy | None => "" end).
  { transitivity (strip (slice 0 1 line)); [reflexivity|]. unfold line. rewrite (slice_hdr_line 0 1 _ _ Lb) by lia.
    unfold p6. destruct first as [[sy n]|].
    - destruct Fo as [[a [E Sa]] _]. subst sy. cbn. unfold strip, strip_by. cbn. rewrite Sa. cbn. rewrite Sa. reflexivity.
    - reflexivity. }
  unfold h_types_v3. rewrite Ty, Sy.
  destruct chunk as [|t0 r0]; [contradiction|].
  destruct first as [[sy n]|].
  - destruct Fo as [[a [E Sa]] _]. subst sy. cbn [String.eqb]. 
    replace (String.eqb (String a "") "") with false by reflexivity. cbn [negb]. reflexivity.
  - cbn [String.eqb negb]. destruct (hsys s); reflexivity.
Qed.

(* ------------------------------------------------------------------------------------------ chunks, association lists *)
Lemma chunks_props {A} (P : A -> Prop) k : 1 <= k -> forall fuel (l : list A), List.length l <= fuel -> Forall P l ->
  concat (chunks fuel k l) = l /\
  Forall (fun c => c <> [] /\ List.length c <= k /\ Forall P c) (chunks fuel k l).
Proof.
  intros K. induction fuel as [|f IH]; intros l L F.
  - destruct l; [split; [reflexivity|constructor]|simpl in L; lia].
  - destruct l as [|x r]; [split; [reflexivity|constructor]|]. cbn [chunks].
    remember (x :: r) as l0 eqn:E.
    assert (F2 : Forall P (firstn k l0) /\ Forall P (skipn k l0)) by (apply Forall_app; rewrite firstn_skipn; exact F).
    destruct F2 as [Ff Fs].
    destruct (IH (skipn k l0)) as [C1 C2]; [rewrite skipn_length; subst l0; cbn [List.length] in *; lia|exact Fs|].
    split.
    + cbn [concat]. rewrite C1. apply firstn_skipn.
    + constructor; [|exact C2]. split; [|split; [rewrite firstn_length; lia|exact Ff]].
      subst l0. destruct k; [lia|]. discriminate.
Qed.

Lemma assoc_assoc_set {A} k (v : A) l : assoc k (assoc_set k v l) = Some v.
Proof.
  induction l as [|[k' v'] r IH]; cbn [assoc_set assoc]; [rewrite String.eqb_refl; reflexivity|].
  destruct (String.eqb_spec k' k); cbn [assoc].
  - rewrite String.eqb_refl. reflexivity.
  - destruct (String.eqb_spec k' k); [contradiction|exact IH].
Qed.

Lemma assoc_set_set {A} k (v1 v2 : A) l : assoc_set k v2 (assoc_set k v1 l) = assoc_set k v2 l.
Proof.
  induction l as [|[k' v'] r IH]; cbn [assoc_set]; [rewrite String.eqb_refl; reflexivity|].
  destruct (String.eqb_spec k' k); cbn [assoc_set].
  - rewrite String.eqb_refl. reflexivity.
  - destruct (String.eqb_spec k' k); [contradiction|rewrite IH; reflexivity].
Qed.

Lemma assoc_set_fresh {A} k (v : A) l : ~ In k (map fst l) -> assoc_set k v l = (l ++ [(k, v)])%list.
Proof.
  induction l as [|[k' v'] r IH]; intros N; [reflexivity|]. cbn [assoc_set app].
  destruct (String.eqb_spec k' k) as [E|E]; [exfalso; apply N; left; exact E|].
  rewrite IH; [reflexivity|]. intro I. apply N. right. exact I.
Qed.

Lemma add_all_app a : forall b all, add_all (a ++ b) all = add_all b (add_all a all).
Proof. induction a as [|t r IH]; intros b all; [reflexivity|]. cbn [app add_all]. apply IH. Qed.

(* ------------------------------------------------------------------------------------------ all lines of one system *)
Definition cont_line (c : list string) : string := hdr_line (types_body_v3 None c) types_label_v3.

Lemma cont_lines_ok sys : forall cr s prev, hsys s = Some sys -> assoc sys (sys_types s) = Some prev ->
  Forall (fun c => c <> [] /\ List.length c <= 13 /\ Forall type3_ok c) cr ->
  hfold G3.header_table (map cont_line cr) s =
  Some (with_types s (add_all (concat cr) (types_all s)) (assoc_set sys (prev ++ concat cr)%list (sys_types s)) (Some sys)).
Proof.
  induction cr as [|c r IH]; intros s prev Hs As F.
  - cbn [map hfold concat add_all]. rewrite List.app_nil_r. f_equal. destruct s. unfold with_types. cbn in *. subst.
    f_equal. clear - As. revert As. generalize dependent sys_types. induction sys_types as [|[k v] l IHl]; intros As; [discriminate|].
    cbn [assoc assoc_set] in *. destruct (String.eqb_spec k sys); [inversion As; subst; reflexivity|]. rewrite <- IHl; auto.
  - inversion F as [|? ? [Ne [L13 Fc]] Fr]; subst. cbn [map hfold concat]. unfold cont_line at 1.
    rewrite (types_line_ok None c s I Ne Fc L13). rewrite Hs, As. cbv beta iota zeta.
    rewrite (IH _ (prev ++ c)%list); [| reflexivity | apply assoc_assoc_set | exact Fr].
    unfold with_types. cbn [meta pos types_all num_types sys_types hsys rows].
    rewrite assoc_set_set, add_all_app, List.app_assoc. reflexivity.
Qed.

Definition sys_ok (p : string * list string) : Prop :=
  (exists a, fst p = String a "" /\ is_space a = false) /\ snd p <> [] /\ Forall type3_ok (snd p) /\
  List.length (snd p) < 240 /\ fits_int 3 (Z.of_nat (List.length (snd p))).

Lemma sys_lines_ok p s : sys_ok p ->
  hfold G3.header_table (types_lines_v3 p) s =
  Some (with_types s (add_all (snd p) (types_all s)) (assoc_set (fst p) (snd p) (sys_types s)) (Some (fst p))).
Proof.
  destruct p as [sys types]. intros [Hsys [Ne [Ft [_ Fn]]]]. cbn [fst snd] in *.
  destruct (chunks_props type3_ok 13 ltac:(lia) (List.length types) types (le_n _) Ft) as [C1 C2].
  unfold types_lines_v3. cbn [fst snd].
  destruct (chunks (List.length types) 13 types) as [|c0 cr] eqn:E.
  - cbn [concat] in C1. subst types. contradiction.
  - apply Forall_cons_iff in C2. destruct C2 as [[Ne0 [L0 F0]] Fr]. cbn [hfold].
    rewrite (types_line_ok (Some (sys, Z.of_nat (List.length types))) c0 s (conj Hsys Fn) Ne0 F0 L0). cbv beta iota zeta.
    fold (map cont_line cr). cbn [app].
    rewrite (cont_lines_ok sys cr _ c0); [| reflexivity | apply assoc_assoc_set | exact Fr].
    unfold with_types. cbn [meta pos types_all num_types sys_types hsys rows].
    rewrite assoc_set_set, <- add_all_app. cbn [concat] in C1. rewrite C1. reflexivity.
Qed.

(* ------------------------------------------------------------------------------------------ all systems, whole header *)
Definition all_types (stt : list (string * list string)) (acc : list string) : list string :=
  fold_left (fun a p => add_all (snd p) a) stt acc.

Lemma with_types_id s : with_types s (types_all s) (sys_types s) (hsys s) = s.
Proof. destruct s; reflexivity. Qed.

Lemma systems_ok : forall stt s, Forall sys_ok stt -> NoDup (map fst stt) ->
  (forall k, In k (map fst stt) -> ~ In k (map fst (sys_types s))) ->
  exists h, hfold G3.header_table (concat (map types_lines_v3 stt)) s
            = Some (with_types s (all_types stt (types_all s)) (sys_types s ++ stt)%list h).
Proof.
  induction stt as [|p r IH]; intros s F ND Fr.
  - exists (hsys s). cbn [map concat hfold all_types fold_left]. rewrite List.app_nil_r, with_types_id. reflexivity.
  - inversion F as [|? ? Fp Frest]; subst. inversion ND as [|? ? Np NDr]; subst.
    cbn [map concat]. rewrite hfold_app, (sys_lines_ok p s Fp).
    set (s1 := with_types s (add_all (snd p) (types_all s)) (assoc_set (fst p) (snd p) (sys_types s)) (Some (fst p))).
    assert (E1 : sys_types s1 = (sys_types s ++ [p])%list).
    { unfold s1, with_types. cbn [sys_types]. rewrite assoc_set_fresh by (apply Fr; left; reflexivity). destruct p; reflexivity. }
    destruct (IH s1 Frest NDr) as [h Hh].
    { intros k Hk. rewrite E1, map_app. intro I. apply in_app_or in I. destruct I as [I|I].
      - apply (Fr k); [right; exact Hk|exact I].
      - cbn in I. destruct I as [I|[]]. subst k. contradiction. }
    exists h. rewrite Hh. f_equal. unfold with_types. rewrite E1. cbn [meta pos num_types rows types_all all_types fold_left].
    rewrite <- List.app_assoc. reflexivity.
Qed.

Lemma len_types_body first chunk s : tfirst_ok first s -> Forall type3_ok chunk -> List.length chunk <= 13 ->
  len (types_body_v3 first chunk) <= 60.
Proof.
  intros Fo F L. unfold types_body_v3. rewrite len_app, (len_p6 first s Fo). change (fun t => " " ++ t) with sp.
  rewrite (len_sp_cat chunk F). lia.
Qed.

Lemma types_line_not_end first chunk s : tfirst_ok first s -> Forall type3_ok chunk -> List.length chunk <= 13 ->
  is_end_of_header (hdr_line (types_body_v3 first chunk) types_label_v3) = false.
Proof.
  intros Fo F L. rewrite (end_marker_hdr_line _ _ (len_types_body first chunk s Fo F L) types_label_ok). reflexivity.
Qed.

Lemma types_lines_not_end p : sys_ok p -> Forall (fun l => is_end_of_header l = false) (types_lines_v3 p).
Proof.
  destruct p as [sys types]. intros [Hsys [Ne [Ft [_ Fn]]]]. cbn [fst snd] in *.
  destruct (chunks_props type3_ok 13 ltac:(lia) (List.length types) types (le_n _) Ft) as [_ C2].
  unfold types_lines_v3. cbn [fst snd]. destruct (chunks (List.length types) 13 types) as [|c0 cr]; [constructor|].
  apply Forall_cons_iff in C2. destruct C2 as [[_ [L0 F0]] Fr]. constructor.
  - apply (types_line_not_end (Some (sys, Z.of_nat (List.length types))) c0 st0 (conj Hsys Fn) F0 L0).
  - apply Forall_forall. intros l Hl. apply in_map_iff in Hl. destruct Hl as [c [E Hc]]. subst l.
    destruct (proj1 (Forall_forall _ _) Fr c Hc) as [_ [Lc Fc]]. apply (types_line_not_end None c st0 I Fc Lc).
Qed.

