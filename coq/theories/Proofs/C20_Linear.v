(* C20 / interpolation - proofs about the piecewise-linear model (Model/C20_Linear.v). *)
From Coq Require Import ZArith QArith Qabs Bool List Lia Lqa Permutation Sorting.Sorted SetoidList.
From Verif Require Import Lib.Dyadic Model.C20_Lagrange Proofs.C20_Lagrange Model.C20_Linear.
Import ListNotations.
Open Scope Q_scope.

Definition pmap {V W : Type} (f : V -> W) (p : Q * V) : Q * W := (fst p, f (snd p)).
Definition smap {V W : Type} (f : V -> W) (s : (Q * V) * (Q * V)) : (Q * W) * (Q * W) := (pmap f (fst s), pmap f (snd s)).

(* ------------------------------------------------------------------ the segment *)
Lemma seg_column {V W} (f : V -> W) (l : list (Q * V)) t :
  seg (column f l) t = option_map (smap f) (seg l t).
Proof.
  induction l as [|a r IH]; [reflexivity|].
  destruct r as [|b r']; [reflexivity|].
  change (column f (a :: b :: r')) with (pmap f a :: pmap f b :: column f r') in *.
  cbn [seg]. cbn [pmap fst].
  destruct (Qle_bool t (fst b)); [reflexivity|].
  destruct r' as [|c r'']; [reflexivity|].
  change (column f (c :: r'')) with (pmap f c :: column f r'').
  exact IH.
Qed.

Lemma keys_sorted_cons {V} (a : Q * V) r :
  StronglySorted Qlt (map fst (a :: r)) -> StronglySorted Qlt (map fst r) /\ forall p, In p r -> fst a < fst p.
Proof.
  intros H. simpl in H. inversion H as [|? ? Hs Hall]; subst. split; [exact Hs|].
  rewrite Forall_forall in Hall. intros p Hp. apply Hall, in_map, Hp.
Qed.

Lemma seg_in {V} (l : list (Q * V)) t a b :
  StronglySorted Qlt (map fst l) -> seg l t = Some (a, b) -> In a l /\ In b l /\ fst a < fst b.
Proof.
  revert a b. induction l as [|x r IH]; intros a b S H; [discriminate|].
  destruct r as [|y r']; [discriminate|].
  destruct (keys_sorted_cons x (y :: r') S) as [S' Hx].
  cbn [seg] in H.
  destruct (Qle_bool t (fst y)).
  - inversion H; subst. split; [left; reflexivity|]. split; [right; left; reflexivity|]. apply Hx. left. reflexivity.
  - destruct r' as [|z r''].
    + inversion H; subst. split; [left; reflexivity|]. split; [right; left; reflexivity|]. apply Hx. left. reflexivity.
    + destruct (IH a b S' H) as [Ia [Ib L]]. split; [right; exact Ia|]. split; [right; exact Ib|exact L].
Qed.

Lemma seg_node {V} (l : list (Q * V)) xk v :
  StronglySorted Qlt (map fst l) -> (2 <= length l)%nat -> In (xk, v) l ->
  exists a b, seg l xk = Some (a, b) /\ fst a < fst b /\ (a = (xk, v) \/ b = (xk, v)).
Proof.
  induction l as [|x r IH]; intros S Hlen Hin; [simpl in Hlen; lia|].
  destruct r as [|y r']; [simpl in Hlen; lia|].
  destruct (keys_sorted_cons x (y :: r') S) as [S' Hx].
  destruct (keys_sorted_cons y r' S') as [S'' Hy].
  cbn [seg].
  destruct (Qle_bool xk (fst y)) eqn:E.
  - apply Qle_bool_iff in E. exists x, y. split; [reflexivity|]. split; [apply Hx; left; reflexivity|].
    destruct Hin as [H1|[H1|Hin]]; [left; exact H1|right; exact H1|].
    specialize (Hy _ Hin). simpl in Hy. lra.
  - apply Qle_bool_false in E.
    assert (Hx' : fst x < fst y) by (apply Hx; left; reflexivity).
    destruct r' as [|z r''].
    + exfalso. destruct Hin as [H1|[H1|[]]]; rewrite H1 in *; simpl in *; lra.
    + assert (Hin' : In (xk, v) (y :: z :: r'')).
      { destruct Hin as [H1|Hin]; [rewrite H1 in *; simpl in *; lra|exact Hin]. }
      destruct (IH S' ltac:(simpl; lia) Hin') as [a [b [Hs [L C]]]].
      exists a, b. repeat split; assumption.
Qed.

(* ------------------------------------------------------------------ the selection looks at the abscissae only *)
Lemma linear_sel_column {V W} (f : V -> W) fl (pts : list (Q * V)) t :
  linear_sel fl (column f pts) t = lres_map (smap f) (linear_sel fl pts t).
Proof.
  unfold linear_sel. cbv zeta. rewrite sort_column, map_fst_column, seg_column.
  destruct ((length (map fst (sort_pts pts)) <? 2)%nat || negb (strictly_increasing (map fst (sort_pts pts)))); [reflexivity|].
  destruct fl, (Qlt_b t (hd 0 (map fst (sort_pts pts))) || Qlt_b (last (map fst (sort_pts pts)) 0) t);
    try reflexivity; destruct (seg (sort_pts pts) t); reflexivity.
Qed.

Lemma linear_sel_facts {V} fl (pts : list (Q * V)) t a b :
  linear_sel fl pts t = LVal (a, b) ->
  In a pts /\ In b pts /\ fst a < fst b /\ seg (sort_pts pts) t = Some (a, b) /\
  StronglySorted Qlt (map fst (sort_pts pts)) /\ (2 <= length pts)%nat.
Proof.
  unfold linear_sel. cbv zeta.
  destruct (length (map fst (sort_pts pts)) <? 2)%nat eqn:E1; [discriminate|].
  destruct (strictly_increasing (map fst (sort_pts pts))) eqn:E2; [|discriminate]. cbn [orb negb].
  apply Nat.ltb_ge in E1. rewrite map_length in E1. rewrite (Permutation_length (sort_perm pts)) in E1.
  pose proof (strictly_increasing_sorted _ E2) as S.
  intros H.
  assert (Hs : seg (sort_pts pts) t = Some (a, b)).
  { destruct fl, (Qlt_b t (hd 0 (map fst (sort_pts pts))) || Qlt_b (last (map fst (sort_pts pts)) 0) t);
      try discriminate; destruct (seg (sort_pts pts) t) as [s|]; try discriminate; inversion H; reflexivity. }
  destruct (seg_in _ t a b S Hs) as [Ia [Ib L]].
  repeat split; try assumption; apply (Permutation_in _ (sort_perm pts)); assumption.
Qed.

(* ------------------------------------------------------------------ the laws *)
Lemma linear_nodes_l fl pts xk yk v :
  In (xk, yk) pts -> linear1 fl pts xk = LVal v -> v == yk.
Proof.
  intros Hin H. unfold linear1 in H.
  destruct (linear_sel fl pts xk) as [[a b]| |] eqn:E; try discriminate.
  simpl in H. inversion H; subst v. clear H.
  destruct (linear_sel_facts fl pts xk a b E) as [_ [_ [_ [Hs [S Hlen]]]]].
  assert (Hin' : In (xk, yk) (sort_pts pts)) by (apply (Permutation_in _ (Permutation_sym (sort_perm pts))); exact Hin).
  destruct (seg_node (sort_pts pts) xk yk S ltac:(rewrite (Permutation_length (sort_perm pts)); exact Hlen) Hin')
    as [a' [b' [Hs' [L C]]]].
  rewrite Hs in Hs'. inversion Hs'; subst a' b'.
  unfold lin1. destruct C as [C|C]; rewrite C in *; cbn [fst snd] in *; field; lra.
Qed.

Lemma lin1_linear (a b : Q * (Q * Q)) k1 k2 t :
  lin1 (pmap (fun v => k1 * fst v + k2 * snd v) a) (pmap (fun v => k1 * fst v + k2 * snd v) b) t ==
  k1 * lin1 (pmap fst a) (pmap fst b) t + k2 * lin1 (pmap snd a) (pmap snd b) t.
Proof. unfold lin1, pmap. cbn [fst snd]. unfold Qdiv. ring. Qed.

Lemma linear_linear_l fl (l : list (Q * (Q * Q))) k1 k2 t :
  match linear1 fl (column fst l) t, linear1 fl (column snd l) t,
        linear1 fl (column (fun v => k1 * fst v + k2 * snd v) l) t with
  | LVal r1, LVal r2, LVal r3 => r3 == k1 * r1 + k2 * r2
  | LNan, LNan, LNan => True
  | LRaise, LRaise, LRaise => True
  | _, _, _ => False
  end.
Proof.
  unfold linear1. rewrite !linear_sel_column.
  destruct (linear_sel fl l t) as [[a b]| |]; simpl; try exact I.
  apply lin1_linear.
Qed.

Lemma sort_perm_cases {V} (pts pts' : list (Q * V)) : Permutation pts pts' ->
  sort_pts pts = sort_pts pts' \/
  (strictly_increasing (map fst (sort_pts pts)) = false /\ strictly_increasing (map fst (sort_pts pts')) = false).
Proof.
  intros P. destruct (strictly_increasing (map fst (sort_pts pts))) eqn:E1.
  - left. apply sort_perm_eq; [exact P|].
    apply (distinct_perm (map fst (sort_pts pts))); [apply Permutation_map, sort_perm|].
    apply sorted_distinct, strictly_increasing_sorted, E1.
  - destruct (strictly_increasing (map fst (sort_pts pts'))) eqn:E2; [|right; split; reflexivity].
    left. symmetry. apply sort_perm_eq; [apply Permutation_sym, P|].
    apply (distinct_perm (map fst (sort_pts pts'))); [apply Permutation_map, sort_perm|].
    apply sorted_distinct, strictly_increasing_sorted, E2.
Qed.

Lemma linear_sel_perm {V} fl (pts pts' : list (Q * V)) t :
  Permutation pts pts' -> linear_sel fl pts t = linear_sel fl pts' t.
Proof.
  intros P. unfold linear_sel. cbv zeta. destruct (sort_perm_cases pts pts' P) as [E|[E1 E2]].
  - rewrite E. reflexivity.
  - rewrite E1, E2. cbn [negb]. rewrite !orb_true_r. reflexivity.
Qed.

Lemma linear_perm_l fl pts pts' t : Permutation pts pts' -> linear_nd fl pts t = linear_nd fl pts' t.
Proof. intros P. unfold linear_nd. rewrite (linear_sel_perm fl pts pts' t P). reflexivity. Qed.

Lemma linear1_perm_l fl pts pts' t : Permutation pts pts' -> linear1 fl pts t = linear1 fl pts' t.
Proof. intros P. unfold linear1. rewrite (linear_sel_perm fl pts pts' t P). reflexivity. Qed.

(* n-d = column-wise *)
Lemma nth_map2q f a b c : (c < length a)%nat -> (c < length b)%nat ->
  nth c (map2q f a b) 0 = f (nth c a 0) (nth c b 0).
Proof.
  revert a b. induction c as [|c IH]; intros [|x a] [|y b] Ha Hb; simpl in *; try lia; try reflexivity.
  apply IH; lia.
Qed.

Lemma map2q_length f a b : length a = length b -> length (map2q f a b) = length a.
Proof.
  revert b. induction a as [|x a IH]; intros [|y b] H; simpl in *; try reflexivity; try discriminate.
  f_equal. apply IH. lia.
Qed.

Lemma linear_ndim_l fl ncols pts t c :
  (forall p, In p pts -> length (snd p) = ncols) -> (c < ncols)%nat ->
  match linear_nd fl pts t, linear1 fl (column (fun r => nth c r 0) pts) t with
  | LVal v, LVal r => length v = ncols /\ nth c v 0 == r
  | LNan, LNan => True
  | LRaise, LRaise => True
  | _, _ => False
  end.
Proof.
  intros Hrows Hc. unfold linear_nd, linear1. rewrite linear_sel_column.
  destruct (linear_sel fl pts t) as [[a b]| |] eqn:E; simpl; try exact I.
  destruct (linear_sel_facts fl pts t a b E) as [Ia [Ib _]].
  pose proof (Hrows a Ia) as La. pose proof (Hrows b Ib) as Lb.
  unfold lin_row. split.
  - rewrite map2q_length; congruence.
  - rewrite nth_map2q by lia. unfold lin1, pmap. cbn [fst snd]. reflexivity.
Qed.

(* data on a straight line are reproduced everywhere (also when extrapolating) *)
Lemma linear_reproduces_affine_l fl pts c0 c1 t v :
  (forall x y, In (x, y) pts -> y == c0 + c1 * x) -> linear1 fl pts t = LVal v -> v == c0 + c1 * t.
Proof.
  intros Hy H. unfold linear1 in H.
  destruct (linear_sel fl pts t) as [[a b]| |] eqn:E; try discriminate.
  simpl in H. inversion H; subst v. clear H.
  destruct (linear_sel_facts fl pts t a b E) as [Ia [Ib [L _]]].
  destruct a as [xa ya], b as [xb yb]. cbn [fst snd] in *.
  unfold lin1. cbn [fst snd]. rewrite (Hy xa ya Ia), (Hy xb yb Ib). field. lra.
Qed.

(* between two neighbouring nodes the value is the convex combination of their data *)
Lemma linear_between_l fl pts t a b :
  linear_sel fl pts t = LVal (a, b) ->
  lin1 a b t == snd a * ((fst b - t) / (fst b - fst a)) + snd b * ((t - fst a) / (fst b - fst a)).
Proof.
  intros E. destruct (linear_sel_facts fl pts t a b E) as [_ [_ [L _]]].
  unfold lin1. field. lra.
Qed.

(* with fill_value="extrapolate" the interpolator is defined everywhere on the model's domain *)
Lemma seg_some {V} (l : list (Q * V)) t : (2 <= length l)%nat -> exists s, seg l t = Some s.
Proof.
  induction l as [|a r IH]; intros H; [simpl in H; lia|].
  destruct r as [|b r']; [simpl in H; lia|]. cbn [seg].
  destruct (Qle_bool t (fst b)); [eexists; reflexivity|].
  destruct r' as [|c r'']; [eexists; reflexivity|]. apply IH. simpl. lia.
Qed.

Lemma linear_extrapolate_defined_l pts t :
  (2 <= length pts)%nat -> strictly_increasing (map fst (sort_pts pts)) = true ->
  exists v, linear1 FExtrapolate pts t = LVal v.
Proof.
  intros Hlen Hs. unfold linear1, linear_sel. cbv zeta. rewrite Hs. cbn [negb].
  assert (E : (length (map fst (sort_pts pts)) <? 2)%nat = false).
  { apply Nat.ltb_ge. rewrite map_length, (Permutation_length (sort_perm pts)). exact Hlen. }
  rewrite E. cbn [orb].
  destruct (seg_some (sort_pts pts) t) as [s Hs']; [rewrite (Permutation_length (sort_perm pts)); exact Hlen|].
  destruct (Qlt_b t (hd 0 (map fst (sort_pts pts))) || Qlt_b (last (map fst (sort_pts pts)) 0) t); rewrite Hs'; eexists; reflexivity.
Qed.
