(* C04 - lemmas about the time-array model (all proof work; statements collected in Props/C04.v) *)
From Coq Require Import ZArith List Bool Lia ZifyBool.
From Verif Require Import Model.C04_TimeArray.
Import ListNotations.
Open Scope Z_scope.

(* ------------------------------------------------------------------ list helpers *)
Lemma mapM_length {A B} (f : A -> option B) l r : mapM f l = Some r -> length r = length l.
Proof.
  revert r; induction l as [|x l IH]; cbn; intros r H.
  - now inversion H.
  - destruct (f x); [|discriminate]. destruct (mapM f l); [|discriminate].
    inversion H; subst; cbn. now rewrite (IH l0 eq_refl).
Qed.

Lemma pick_map {A B} (f : A -> B) l idx : pick (map f l) idx = option_map (map f) (pick l idx).
Proof.
  unfold pick. induction idx as [|i idx IH]; cbn; [reflexivity|].
  rewrite nth_error_map. destruct (nth_error l i); cbn; [|reflexivity].
  rewrite IH. now destruct (mapM (fun i0 => nth_error l i0) idx).
Qed.

Lemma index_map {A B} (f : A -> B) l it : index (map f l) it = option_map (map f) (index l it).
Proof.
  unfold index. rewrite map_length. destruct (sel (length l) it); [|reflexivity]. apply pick_map.
Qed.

Lemma insert_at_map {A B} (f : A -> B) l pos xs :
  insert_at (map f l) pos (map f xs) = option_map (map f) (insert_at l pos xs).
Proof.
  unfold insert_at. rewrite map_length.
  destruct ((- Z.of_nat (length l) <=? pos) && (pos <=? Z.of_nat (length l))); cbn; [|reflexivity].
  now rewrite !map_app, firstn_map, skipn_map.
Qed.

(* Sel R src es: es are the elements of R at the positions src *)
Definition Sel {A} (R : list A) (src : list nat) (es : list A) : Prop :=
  Forall2 (fun s e => nth_error R s = Some e) src es.

Lemma Forall2_nth_r {A B} (P : A -> B -> Prop) l1 l2 i e :
  Forall2 P l1 l2 -> nth_error l2 i = Some e -> exists s, nth_error l1 i = Some s /\ P s e.
Proof.
  intros H; revert i; induction H; intros i Hn.
  - destruct i; discriminate.
  - destruct i; cbn in *.
    + inversion Hn; subst. eauto.
    + eauto.
Qed.

Lemma Forall2_len {A B} (P : A -> B -> Prop) l1 l2 : Forall2 P l1 l2 -> length l1 = length l2.
Proof. induction 1; cbn; congruence. Qed.

Lemma Forall2_firstn {A B} (P : A -> B -> Prop) n l1 l2 :
  Forall2 P l1 l2 -> Forall2 P (firstn n l1) (firstn n l2).
Proof. intros H; revert n; induction H; intros [|n]; cbn; auto. Qed.

Lemma Forall2_skipn {A B} (P : A -> B -> Prop) n l1 l2 :
  Forall2 P l1 l2 -> Forall2 P (skipn n l1) (skipn n l2).
Proof. intros H; revert n; induction H; intros [|n]; cbn; auto. Qed.

Lemma pick_Sel {A} (P : nat -> A -> Prop) (src : list nat) (es : list A) idx es' :
  Forall2 P src es -> pick es idx = Some es' ->
  exists src', pick src idx = Some src' /\ Forall2 P src' es'.
Proof.
  intros HS. unfold pick. revert es'. induction idx as [|i idx IH]; cbn; intros es' H.
  - inversion H; subst. exists []. split; [reflexivity|constructor].
  - destruct (nth_error es i) eqn:E; [|discriminate].
    destruct (mapM (fun i0 => nth_error es i0) idx) eqn:E2; [|discriminate].
    inversion H; subst.
    destruct (Forall2_nth_r _ _ _ _ _ HS E) as (s & Hs & Ps).
    destruct (IH _ eq_refl) as (src' & Hp & Hf).
    exists (s :: src'). rewrite Hs, Hp. split; [reflexivity|now constructor].
Qed.

Lemma index_Sel {A} (P : nat -> A -> Prop) src es it es' :
  Forall2 P src es -> index es it = Some es' ->
  exists src', index src it = Some src' /\ Forall2 P src' es'.
Proof.
  intros HS H. unfold index in *. rewrite (Forall2_len _ _ _ HS).
  destruct (sel (length es) it); [|discriminate]. eapply pick_Sel; eauto.
Qed.

Lemma insert_at_Sel {A} (P : nat -> A -> Prop) sa ea sb eb pos r :
  Forall2 P sa ea -> Forall2 P sb eb -> insert_at ea pos eb = Some r ->
  exists s, insert_at sa pos sb = Some s /\ Forall2 P s r.
Proof.
  intros Ha Hb. unfold insert_at. rewrite (Forall2_len _ _ _ Ha).
  destruct ((- Z.of_nat (length ea) <=? pos) && (pos <=? Z.of_nat (length ea))); [|discriminate].
  intros H; inversion H; subst. eexists; split; [reflexivity|].
  apply Forall2_app; [now apply Forall2_firstn|]. apply Forall2_app; [assumption|now apply Forall2_skipn].
Qed.

Lemma index_length_int {A} (l : list A) it r : is_int it = true -> index l it = Some r -> length r = 1%nat.
Proof.
  destruct it; try discriminate. intros _. unfold index, sel.
  destruct (norm_idx (Z.of_nat (length l)) i); cbn; [|discriminate].
  destruct (nth_error l n); [|discriminate]. intros H; now inversion H.
Qed.

Lemma list_eqb_sound {A C} (e : A -> A -> bool) (canon : A -> C) :
  (forall x y, e x y = true -> canon x = canon y) ->
  forall a b, list_eqb e a b = true -> map canon a = map canon b.
Proof.
  intros He. induction a as [|x a IH]; destruct b as [|y b]; cbn; try discriminate; auto.
  intros H. apply andb_prop in H as [H1 H2]. now rewrite (He _ _ H1), (IH _ H2).
Qed.

(* ================================================================== the model *)
Section Proofs.
  Variables V J : Type.
  Variable jeqb : J -> J -> bool.
  Variable vj : Z -> Z -> J -> V.
  Variable cv : J -> J.
  Variable cvi : J -> J.
  Variable fmt_to : Z -> Z.
  Variable cv_iter : bool.

  Notation obj := (obj V J).
  Notation state := (state V J).
  Notation result := (result V J).
  Notation jdv := (jdv J).
  Notation stepq := (step V J jeqb vj cv cvi fmt_to cv_iter).
  Notation runq := (run V J jeqb vj cv cvi fmt_to cv_iter).
  Notation S := (step V J jeqb vj cv cvi fmt_to cv_iter quirks_off).
  Notation runS := (run V J jeqb vj cv cvi fmt_to cv_iter quirks_off).
  Notation flat := (flat J).
  Notation is_js := (is_js J).
  Notation getobj := (getobj V J).
  Notation push := (push V J).
  Notation alias := (alias V J).
  Notation from_jds := (from_jds V J vj).
  Notation init := (init V J jeqb vj).
  Notation root_obj := (root_obj V J vj).

  (* scale 0 is the scale of the root, scale 1 its conversion *)
  (* Conv s e j: the jd pair j (of scale s) is the root epoch e taken through a chain of scale conversions
     (scale 0 is the scale of the root; the two conversions are not exact inverses of each other, so an epoch
     that went to scale 1 and back may differ from e in its last bits - it is still the image of e) *)
  Inductive Conv : Z -> J -> J -> Prop :=
  | Conv_root e : Conv 0 e e
  | Conv_to e j : Conv 0 e j -> Conv 1 e (cv j)
  | Conv_back e j : Conv 1 e j -> Conv 0 e (cvi j).

  Definition From (R : list J) (s : Z) (i : nat) (j : J) : Prop :=
    exists e, nth_error R i = Some e /\ Conv s e j.

  (* an array is aligned with the root R: one list of source positions gives its jd pairs (each the conversion of
     the root epoch at that position into the scale of the array), its values are the values of exactly these
     jd pairs, and its shape flags agree *)
  Definition Aligned (R : list J) (o : obj) : Prop :=
    exists src : list nat,
      Forall2 (From R (o_scale _ _ o)) src (flat (o_jd _ _ o)) /\
      o_vals _ _ o = map (vj (o_scale _ _ o) (o_fmt _ _ o)) (flat (o_jd _ _ o)) /\
      o_scalar _ _ o = is_js (o_jd _ _ o) /\
      o_sl _ _ o = None.

  Definition res_aligned (R : list J) (r : result) : Prop :=
    match r with
    | RObj o _ => Aligned R o
    | RList l => Forall (fun ob => Aligned R (fst ob)) l
    | _ => True
    end.

  Lemma aligned_lengths R o :
    Aligned R o ->
    length (o_vals _ _ o) = length (flat (o_jd _ _ o)) /\ olen _ _ o = length (flat (o_jd _ _ o)).
  Proof.
    intros (src & HS & Hv & Hsc & _). unfold olen.
    rewrite Hv, map_length. split; [reflexivity|].
    rewrite Hsc. destruct (o_jd _ _ o); reflexivity.
  Qed.

  Lemma aligned_src_length R o :
    Aligned R o -> exists src, Forall (fun s => (s < length R)%nat) src /\ olen _ _ o = length src.
  Proof.
    intros HA. destruct (aligned_lengths _ _ HA) as [_ Hl].
    destruct HA as (src & HS & _). exists src. split.
    - clear -HS. induction HS as [|i j ? ? (e & He & _)]; constructor; auto. apply nth_error_Some. congruence.
    - rewrite Hl. symmetry. eapply Forall2_len; eauto.
  Qed.

  Lemma mk_aligned R sc vs jd f s src :
    Forall2 (From R s) src (flat jd) -> vs = map (vj s f) (flat jd) -> sc = is_js jd ->
    Aligned R (mkObj V J sc vs jd f s None).
  Proof. intros. exists src. cbn. auto. Qed.

  Lemma aligned_vals R o : Aligned R o -> o_vals _ _ o = map (vj (o_scale _ _ o) (o_fmt _ _ o)) (flat (o_jd _ _ o)).
  Proof. intros (_ & _ & Hv & _). exact Hv. Qed.

  (* ---------------------------------------------------------------- reductions for the specification *)
  Lemma new_obj_off st o :
    new_obj V J jeqb quirks_off st o = (push st o, RObj o (is_js (o_jd _ _ o))).
  Proof. reflexivity. Qed.

  Lemma ref_obj_off st h :
    ref_obj V J jeqb quirks_off st h =
    match nth_error (heap _ _ st) h with None => (st, RErr) | Some o => (alias st h, RObj o (is_js (o_jd _ _ o))) end.
  Proof. unfold ref_obj. destruct (nth_error (heap _ _ st) h); reflexivity. Qed.

  Lemma observe_all_off st os :
    observe_all V J jeqb quirks_off st os = (st, map (fun o => (o, is_js (o_jd _ _ o))) os).
  Proof.
    induction os as [|o os IH]; cbn; [reflexivity|]. cbn in IH. now rewrite IH.
  Qed.

  Lemma getobj_In st k h o : getobj st k = Some (h, o) -> nth_error (heap _ _ st) h = Some o.
  Proof.
    unfold getobj. destruct (nth_error (names _ _ st) k); [|discriminate].
    destruct (nth_error (heap _ _ st) n) eqn:E; [|discriminate]. intros H; inversion H; subst. exact E.
  Qed.

  (* ---------------------------------------------------------------- alignment is preserved *)
  Lemma aligned_index_jd R o it r :
    Aligned R o -> index_jd J (o_jd _ _ o) it = Some r ->
    exists src', Forall2 (From R (o_scale _ _ o)) src' (flat r) /\
                 index (flat (o_jd _ _ o)) it = Some (flat r) /\ is_js r = is_int it.
  Proof.
    intros (src & HS & Hv & Hsc & Hsl) H.
    unfold index_jd in H. destruct (o_jd _ _ o) as [j|l] eqn:Ejd; [discriminate|].
    cbn [flat C04_TimeArray.flat] in *. destruct (index l it) as [r'|] eqn:Ei; [|discriminate].
    destruct (index_Sel _ _ _ _ _ HS Ei) as (src' & _ & HS').
    exists src'. destruct (is_int it) eqn:Eint.
    - destruct r' as [|j [|]]; try discriminate. inversion H; subst. cbn. auto.
    - inversion H; subst. cbn. auto.
  Qed.

  Definition st_aligned (R : list J) (st : state) : Prop := Forall (Aligned R) (heap _ _ st).

  Lemma st_aligned_push R st o : st_aligned R st -> Aligned R o -> st_aligned R (push st o).
  Proof. intros H Ho. unfold st_aligned, push; cbn. apply Forall_app; split; auto. Qed.

  Lemma getobj_aligned R st k h o : st_aligned R st -> getobj st k = Some (h, o) -> Aligned R o.
  Proof.
    intros H G. apply getobj_In in G. unfold st_aligned in H. rewrite Forall_forall in H.
    apply H. eapply nth_error_In; eauto.
  Qed.

  Ltac fin_new R :=
    rewrite new_obj_off; intros HH; inversion HH; subst; split; [apply st_aligned_push; auto|cbn; auto].
  Ltac fin_err := intros HH; inversion HH; subst; split; cbn; auto.

  Lemma sliced_aligned R o it r0 vs :
    Aligned R o -> index_jd J (o_jd _ _ o) it = Some r0 -> index (o_vals _ _ o) it = Some vs ->
    Aligned R (mkObj V J (is_int it) vs r0 (o_fmt _ _ o) (o_scale _ _ o) None).
  Proof.
    intros Ho Ej Ev. destruct (aligned_index_jd _ _ _ _ Ho Ej) as (src' & HS' & Hidx & Hjs).
    eapply mk_aligned; [exact HS'| |now rewrite Hjs].
    rewrite (aligned_vals _ _ Ho), index_map, Hidx in Ev. cbn in Ev. now inversion Ev.
  Qed.

  Lemma step_get_aligned R st k it st' r :
    st_aligned R st -> do_get V J jeqb vj quirks_off st k it = (st', r) -> st_aligned R st' /\ res_aligned R r.
  Proof.
    intros HA. unfold do_get. destruct (getobj st k) as [[h o]|] eqn:G; [|fin_err].
    pose proof (getobj_aligned _ _ _ _ _ HA G) as Ho.
    destruct (o_scalar _ _ o); [fin_err|].
    cbn [q_side quirks_off].
    destruct (index_jd J (o_jd _ _ o) it) as [r0|] eqn:Ej; [|fin_err].
    destruct (aligned_index_jd _ _ _ _ Ho Ej) as (src' & HS' & Hidx & Hjs).
    destruct (is_int it) eqn:Eint.
    - assert (Al : Aligned R (from_jds (o_scale _ _ o) (o_fmt _ _ o) r0)).
      { unfold C04_TimeArray.from_jds. eapply mk_aligned; [exact HS'|reflexivity|reflexivity]. }
      fin_new R.
    - destruct (index (o_vals _ _ o) it) as [vs|] eqn:Ev; [|fin_err].
      pose proof (sliced_aligned _ _ _ _ _ Ho Ej Ev) as Al. rewrite Eint in Al. fin_new R.
  Qed.

  Lemma step_gett_aligned R st k it st' r :
    st_aligned R st -> do_gett V J jeqb quirks_off st k it = (st', r) -> st_aligned R st' /\ res_aligned R r.
  Proof.
    intros HA. unfold do_gett. destruct (getobj st k) as [[h o]|] eqn:G; [|fin_err].
    pose proof (getobj_aligned _ _ _ _ _ HA G) as Ho.
    destruct (o_scalar _ _ o || negb (is_slice it)) eqn:Ec; [fin_err|].
    unfold finalize_jd; cbn [q_side quirks_off].
    destruct (index (o_vals _ _ o) it) as [vs|] eqn:Ev; [|fin_err].
    destruct (index_jd J (o_jd _ _ o) it) as [r0|] eqn:Ej; [|fin_err].
    assert (Eint : is_int it = false) by (destruct it; cbn in *; auto; rewrite orb_true_r in Ec; discriminate).
    pose proof (sliced_aligned _ _ _ _ _ Ho Ej Ev) as Al. rewrite Eint in Al. fin_new R.
  Qed.

  Lemma same_aligned R o :
    Aligned R o -> Aligned R (mkObj V J (o_scalar _ _ o) (o_vals _ _ o) (o_jd _ _ o) (o_fmt _ _ o) (o_scale _ _ o) None).
  Proof. intros (src & ? & ? & ? & ?). eapply mk_aligned; eauto. Qed.

  Lemma step_view_aligned R st k st' r :
    st_aligned R st -> do_view V J jeqb quirks_off st k = (st', r) -> st_aligned R st' /\ res_aligned R r.
  Proof.
    intros HA. unfold do_view. destruct (getobj st k) as [[h o]|] eqn:G; [|fin_err].
    pose proof (same_aligned _ _ (getobj_aligned _ _ _ _ _ HA G)) as Al.
    unfold finalize_jd; cbn [q_side quirks_off]. fin_new R.
  Qed.

  Lemma step_copy_aligned R st k st' r :
    st_aligned R st -> do_copy V J jeqb quirks_off st k = (st', r) -> st_aligned R st' /\ res_aligned R r.
  Proof.
    intros HA. unfold do_copy. destruct (getobj st k) as [[h o]|] eqn:G; [|fin_err].
    pose proof (same_aligned _ _ (getobj_aligned _ _ _ _ _ HA G)) as Al.
    cbn [q_rebuild quirks_off andb]. fin_new R.
  Qed.

  Lemma step_iter_aligned R st k st' r :
    st_aligned R st -> do_iter V J jeqb vj quirks_off st k = (st', r) -> st_aligned R st' /\ res_aligned R r.
  Proof.
    intros HA. unfold do_iter. destruct (getobj st k) as [[h o]|] eqn:G; [|fin_err].
    pose proof (getobj_aligned _ _ _ _ _ HA G) as Ho.
    destruct (o_scalar _ _ o); [fin_err|].
    destruct (o_jd _ _ o) as [j|l] eqn:Ejd; [fin_err|].
    cbn [q_side quirks_off]. rewrite observe_all_off. intros H; inversion H; subst. split; [assumption|].
    cbn. rewrite Forall_map, Forall_map. cbn.
    destruct Ho as (src & HS & _). rewrite Ejd in HS. cbn in HS.
    clear -HS. induction HS; cbn; constructor; auto.
    unfold C04_TimeArray.from_jds. eapply (mk_aligned _ _ _ _ _ _ [x]); try reflexivity.
    repeat constructor; auto.
  Qed.

  Lemma step_subset_aligned R st k it st' r :
    st_aligned R st -> do_subset V J jeqb quirks_off st k it = (st', r) -> st_aligned R st' /\ res_aligned R r.
  Proof.
    intros HA. unfold do_subset. destruct (getobj st k) as [[h o]|] eqn:G; [|fin_err].
    pose proof (getobj_aligned _ _ _ _ _ HA G) as Ho.
    destruct (o_scalar _ _ o); [fin_err|].
    destruct (index (o_vals _ _ o) it) as [vs|] eqn:Ev; [|fin_err].
    destruct (index_jd J (o_jd _ _ o) it) as [r0|] eqn:Ej; [|fin_err].
    cbn [q_rebuild quirks_off andb].
    pose proof (sliced_aligned _ _ _ _ _ Ho Ej Ev) as Al. fin_new R.
  Qed.

  Lemma convert_anon_off st h o :
    convert_anon V J jeqb vj cv fmt_to cv_iter quirks_off st h o =
    (st, Some (from_jds 1 (fmt_to (o_fmt _ _ o)) (map_jdv J cv (o_jd _ _ o)))).
  Proof. reflexivity. Qed.

  Lemma convert_back_off st h o :
    convert_back V J jeqb vj cvi cv_iter quirks_off st h o =
    (st, Some (from_jds 0 (o_fmt _ _ o) (map_jdv J cvi (o_jd _ _ o)))).
  Proof. reflexivity. Qed.

  Lemma Forall2_imp {A B} (P Q : A -> B -> Prop) l1 l2 :
    (forall a b, P a b -> Q a b) -> Forall2 P l1 l2 -> Forall2 Q l1 l2.
  Proof. intros HPQ H; induction H; constructor; auto. Qed.

  Lemma Forall2_map_r {A B C} (P : A -> B -> Prop) (Q : A -> C -> Prop) (f : B -> C) l1 l2 :
    (forall a b, P a b -> Q a (f b)) -> Forall2 P l1 l2 -> Forall2 Q l1 (map f l2).
  Proof. intros HPQ H; induction H; cbn; constructor; auto. Qed.

  Lemma converted_aligned R o :
    Aligned R o -> o_scale _ _ o = 0 -> Aligned R (from_jds 1 (fmt_to (o_fmt _ _ o)) (map_jdv J cv (o_jd _ _ o))).
  Proof.
    intros (src & HS & Hv & Hsc & Hsl) E0. rewrite E0 in HS.
    unfold C04_TimeArray.from_jds. eapply (mk_aligned _ _ _ _ _ _ src); [|reflexivity|reflexivity].
    assert (G : Forall2 (From R 1) src (map cv (flat (o_jd _ _ o)))).
    { eapply Forall2_map_r; [|exact HS]. intros i j (e & He & Hc). exists e. split; auto. now constructor. }
    destruct (o_jd _ _ o); exact G.
  Qed.

  Lemma converted_back_aligned R o :
    Aligned R o -> o_scale _ _ o = 1 -> Aligned R (from_jds 0 (o_fmt _ _ o) (map_jdv J cvi (o_jd _ _ o))).
  Proof.
    intros (src & HS & Hv & Hsc & Hsl) E1. rewrite E1 in HS.
    unfold C04_TimeArray.from_jds. eapply (mk_aligned _ _ _ _ _ _ src); [|reflexivity|reflexivity].
    assert (G : Forall2 (From R 0) src (map cvi (flat (o_jd _ _ o)))).
    { eapply Forall2_map_r; [|exact HS]. intros i j (e & He & Hc). exists e. split; auto. now constructor. }
    destruct (o_jd _ _ o); exact G.
  Qed.

  Lemma ins_aligned R st a b pos st' r :
    st_aligned R st -> Aligned R a -> Aligned R b -> o_scale _ _ a = o_scale _ _ b -> o_fmt _ _ a = o_fmt _ _ b ->
    ins V J jeqb quirks_off st a b pos = (st', r) -> st_aligned R st' /\ res_aligned R r.
  Proof.
    intros HA Hoa Hob Es Ef. unfold ins.
    destruct (insert_at (o_vals _ _ a) pos (o_vals _ _ b)) as [vs|] eqn:Ev; [|fin_err].
    destruct (insert_at (flat (o_jd _ _ a)) pos (flat (o_jd _ _ b))) as [js|] eqn:Ej; [|fin_err].
    destruct Hoa as (sa & HSa & Hva & _ & _).
    destruct Hob as (sb & HSb & Hvb & _ & _).
    assert (Al : Aligned R (mkObj V J false vs (JA js) (o_fmt _ _ a) (o_scale _ _ a) None)).
    { rewrite <- Es in HSb.
      destruct (insert_at_Sel _ _ _ _ _ _ _ HSa HSb Ej) as (s' & _ & HS').
      eapply (mk_aligned _ _ _ _ _ _ s'); [exact HS'| |reflexivity]. cbn [flat C04_TimeArray.flat].
      rewrite Hva, Hvb, <- Es, <- Ef, insert_at_map, Ej in Ev. cbn in Ev. now inversion Ev. }
    fin_new R.
  Qed.

  Lemma step_insert_aligned R st k pos j st' r :
    st_aligned R st -> do_insert V J jeqb vj cv cvi fmt_to cv_iter quirks_off st k pos j = (st', r) ->
    st_aligned R st' /\ res_aligned R r.
  Proof.
    intros HA. unfold do_insert. destruct (getobj st k) as [[ha a]|] eqn:Ga; [|fin_err].
    destruct (getobj st j) as [[hb b]|] eqn:Gb; [|fin_err].
    pose proof (getobj_aligned _ _ _ _ _ HA Ga) as Hoa.
    pose proof (getobj_aligned _ _ _ _ _ HA Gb) as Hob.
    destruct (o_scalar _ _ a); [fin_err|].
    destruct (o_scale _ _ a =? o_scale _ _ b) eqn:Es.
    - apply Z.eqb_eq in Es. destruct (o_fmt _ _ a =? o_fmt _ _ b) eqn:Ef; [|fin_err].
      apply Z.eqb_eq in Ef. now apply ins_aligned.
    - destruct ((o_scale _ _ a =? 1) && (o_scale _ _ b =? 0)) eqn:Ec.
      + apply andb_prop in Ec as [E1 E0]. apply Z.eqb_eq in E1. apply Z.eqb_eq in E0.
        rewrite convert_anon_off.
        destruct (o_fmt _ _ a =? o_fmt _ _ (from_jds 1 (fmt_to (o_fmt _ _ b)) (map_jdv J cv (o_jd _ _ b)))) eqn:Ef;
          [|fin_err].
        apply Z.eqb_eq in Ef. apply ins_aligned; auto using converted_aligned.
      + destruct ((o_scale _ _ a =? 0) && (o_scale _ _ b =? 1)) eqn:Ec'; [|fin_err].
        apply andb_prop in Ec' as [E0 E1]. apply Z.eqb_eq in E1. apply Z.eqb_eq in E0.
        rewrite convert_back_off.
        destruct (o_fmt _ _ a =? o_fmt _ _ (from_jds 0 (o_fmt _ _ b) (map_jdv J cvi (o_jd _ _ b)))) eqn:Ef; [|fin_err].
        apply Z.eqb_eq in Ef. apply ins_aligned; auto using converted_back_aligned.
  Qed.

  Lemma step_scale_aligned R st k s st' r :
    st_aligned R st -> do_scale V J jeqb vj cv fmt_to cv_iter quirks_off st k s = (st', r) ->
    st_aligned R st' /\ res_aligned R r.
  Proof.
    intros HA. unfold do_scale. destruct (getobj st k) as [[h o]|] eqn:G; [|fin_err].
    pose proof (getobj_aligned _ _ _ _ _ HA G) as Ho.
    cbn [q_cache q_side quirks_off andb].
    destruct (s =? o_scale _ _ o).
    - rewrite ref_obj_off. rewrite (getobj_In _ _ _ _ G). intros H; inversion H; subst. split; [exact HA|exact Ho].
    - destruct ((o_scale _ _ o =? 0) && (s =? 1)) eqn:Ec; [|fin_err].
      apply andb_prop in Ec as [E0 E1]. apply Z.eqb_eq in E0.
      pose proof (converted_aligned _ _ Ho E0) as Al. fin_new R.
  Qed.

  Lemma step_aligned R st p st' r :
    st_aligned R st -> S st p = (st', r) -> st_aligned R st' /\ res_aligned R r.
  Proof.
    intros HA. destruct p; cbn [step].
    - apply step_get_aligned; auto.
    - apply step_gett_aligned; auto.
    - apply step_iter_aligned; auto.
    - apply step_view_aligned; auto.
    - apply step_copy_aligned; auto.
    - apply step_copy_aligned; auto.
    - apply step_subset_aligned; auto.
    - apply step_insert_aligned; auto.
    - apply step_scale_aligned; auto.
    - intros H; inversion H; subst; split; cbn; auto.
  Qed.

  Lemma run_aligned R ps : forall st st' rs,
    st_aligned R st -> runS st ps = (st', rs) -> st_aligned R st' /\ Forall (res_aligned R) rs.
  Proof.
    induction ps as [|p ps IH]; cbn; intros st st' rs HA H.
    - inversion H; subst. split; auto.
    - destruct (S st p) as [st1 x] eqn:E1. destruct (runS st1 ps) as [st2 xs] eqn:E2.
      inversion H; subst. destruct (step_aligned _ _ _ _ _ HA E1) as [HA1 Hx].
      destruct (IH _ _ _ HA1 E2) as [HA2 Hxs]. split; auto.
  Qed.

  Lemma seq_Sel (R : list J) : Sel R (seq 0 (length R)) R.
  Proof.
    unfold Sel. assert (G : forall pre, Forall2 (fun s e => nth_error (pre ++ R) s = Some e) (seq (length pre) (length R)) R).
    { induction R as [|x R IH]; intros pre; cbn; constructor.
      - rewrite nth_error_app2 by lia. now rewrite Nat.sub_diag.
      - specialize (IH (pre ++ [x])). rewrite app_length in IH. cbn in IH.
        rewrite Nat.add_1_r in IH. rewrite <- app_assoc in IH. exact IH. }
    exact (G []).
  Qed.

  Lemma init_aligned fmt R : st_aligned R (init quirks_off fmt R).
  Proof.
    unfold init; cbn. constructor; [|constructor].
    unfold C04_TimeArray.root_obj, C04_TimeArray.from_jds.
    eapply (mk_aligned _ _ _ _ _ _ (seq 0 (length R))); try reflexivity. cbn.
    eapply Forall2_imp; [|apply seq_Sel]. intros i e He. exists e. split; [exact He|constructor].
  Qed.

  (* every array that can be reached in the specification, whatever the history, is aligned *)
  Lemma aligned_all fmt R ps st rs :
    runS (init quirks_off fmt R) ps = (st, rs) ->
    Forall (Aligned R) (heap _ _ st) /\ Forall (res_aligned R) rs.
  Proof. intros H. eapply run_aligned; eauto using init_aligned. Qed.

  Lemma length_epochs fmt R ps st rs o :
    runS (init quirks_off fmt R) ps = (st, rs) -> In o (heap _ _ st) ->
    length (o_vals _ _ o) = length (flat (o_jd _ _ o)) /\
    exists src, Forall (fun s => (s < length R)%nat) src /\ olen _ _ o = length src /\
                olen _ _ o = length (flat (o_jd _ _ o)).
  Proof.
    intros H Hin. destruct (aligned_all _ _ _ _ _ H) as [HA _]. rewrite Forall_forall in HA.
    specialize (HA _ Hin). destruct (aligned_lengths _ _ HA) as [L1 L2].
    destruct (aligned_src_length _ _ HA) as (src & F & L3). split; auto. exists src. auto.
  Qed.

  (* ---------------------------------------------------------------- immutability *)
  Lemma write_fails q st k w : stepq q st (Write k w) = (st, RErr).
  Proof. reflexivity. Qed.

  Definition extends (st st' : state) : Prop :=
    (exists new, heap _ _ st' = heap _ _ st ++ new) /\ (exists nn, names _ _ st' = names _ _ st ++ nn).

  Lemma extends_refl st : extends st st.
  Proof. split; exists []; now rewrite app_nil_r. Qed.

  Lemma extends_trans a b c : extends a b -> extends b c -> extends a c.
  Proof.
    intros [[n1 H1] [m1 G1]] [[n2 H2] [m2 G2]]. split.
    - exists (n1 ++ n2). now rewrite H2, H1, app_assoc.
    - exists (m1 ++ m2). now rewrite G2, G1, app_assoc.
  Qed.

  Lemma extends_push st o : extends st (push st o).
  Proof. split; cbn; eauto. Qed.

  Lemma extends_alias st h : extends st (alias st h).
  Proof. split; cbn; [exists []; now rewrite app_nil_r|eauto]. Qed.

  Ltac ext_tac :=
    repeat match goal with
    | |- context [match ?x with _ => _ end] => destruct x eqn:?
    | |- (_, _) = (_, _) -> _ => intros HH; inversion HH; subst; clear HH
    end; auto using extends_refl, extends_push, extends_alias.

  Lemma step_extends st p st' r : S st p = (st', r) -> extends st st'.
  Proof.
    destruct p; cbn [step].
    - unfold do_get. cbn [q_side quirks_off]. rewrite ?new_obj_off. ext_tac; rewrite new_obj_off in *; ext_tac.
    - unfold do_gett. ext_tac; rewrite new_obj_off in *; ext_tac.
    - unfold do_iter. destruct (getobj st k) as [[h o]|]; [|ext_tac].
      destruct (o_scalar _ _ o); [ext_tac|]. destruct (o_jd _ _ o); [ext_tac|].
      cbn [q_side quirks_off]. rewrite observe_all_off. ext_tac.
    - unfold do_view. ext_tac; rewrite new_obj_off in *; ext_tac.
    - unfold do_copy. ext_tac; rewrite new_obj_off in *; ext_tac.
    - unfold do_copy. ext_tac; rewrite new_obj_off in *; ext_tac.
    - unfold do_subset. ext_tac; rewrite new_obj_off in *; ext_tac.
    - unfold do_insert, ins. destruct (getobj st k) as [[ha a]|]; [|ext_tac].
      destruct (getobj st j) as [[hb b]|]; [|ext_tac]. rewrite convert_anon_off, convert_back_off.
      ext_tac; rewrite ?new_obj_off in *; ext_tac.
    - unfold do_scale. cbn [q_side q_cache quirks_off andb]. rewrite ?ref_obj_off.
      ext_tac; rewrite ?new_obj_off, ?ref_obj_off in *; ext_tac.
    - ext_tac.
  Qed.

  Lemma run_extends ps : forall st st' rs, runS st ps = (st', rs) -> extends st st'.
  Proof.
    induction ps as [|p ps IH]; cbn; intros st st' rs H.
    - inversion H; subst. apply extends_refl.
    - destruct (S st p) as [st1 x] eqn:E1. destruct (runS st1 ps) as [st2 xs] eqn:E2.
      inversion H; subst. eapply extends_trans; [eapply step_extends|eapply IH]; eauto.
  Qed.

  (* ---------------------------------------------------------------- history independence *)
  Definition wf (st : state) : Prop := Forall (fun h => (h < length (heap _ _ st))%nat) (names _ _ st).

  Definition op_names (p : op) : list nat :=
    match p with
    | Get k _ | GetT k _ | Iter k | View k | Copy k | Deepcopy k | Subset k _ | Scale k _ | Write k _ => [k]
    | Insert k _ j => [k; j]
    end.

  Lemma getobj_extends st st' k :
    wf st -> extends st st' -> (k < length (names _ _ st))%nat -> getobj st' k = getobj st k.
  Proof.
    intros W [[new Hh] [nn Hn]] Hk. unfold getobj. rewrite Hn, nth_error_app1 by assumption.
    destruct (nth_error (names _ _ st) k) as [h|] eqn:E; [|reflexivity].
    assert (h < length (heap _ _ st))%nat.
    { unfold wf in W. rewrite Forall_forall in W. apply W. eapply nth_error_In; eauto. }
    now rewrite Hh, nth_error_app1.
  Qed.

  Lemma step_local st st' p :
    (forall k, In k (op_names p) -> getobj st' k = getobj st k) -> snd (S st' p) = snd (S st p).
  Proof.
    intros G. destruct p; cbn [step op_names] in *;
      try (rewrite (G k (or_introl eq_refl))).
    - unfold do_get. rewrite (G k (or_introl eq_refl)). cbn [q_side quirks_off].
      repeat match goal with |- context [match ?x with _ => _ end] => destruct x end; rewrite ?new_obj_off; reflexivity.
    - unfold do_gett. rewrite (G k (or_introl eq_refl)).
      repeat match goal with |- context [match ?x with _ => _ end] => destruct x end; rewrite ?new_obj_off; reflexivity.
    - unfold do_iter. rewrite (G k (or_introl eq_refl)). cbn [q_side quirks_off].
      destruct (getobj st k) as [[h o]|]; [|reflexivity].
      destruct (o_scalar _ _ o); [reflexivity|]. destruct (o_jd _ _ o); [reflexivity|].
      now rewrite !observe_all_off.
    - unfold do_view. rewrite (G k (or_introl eq_refl)).
      repeat match goal with |- context [match ?x with _ => _ end] => destruct x end; rewrite ?new_obj_off; reflexivity.
    - unfold do_copy. rewrite (G k (or_introl eq_refl)).
      repeat match goal with |- context [match ?x with _ => _ end] => destruct x end; rewrite ?new_obj_off; reflexivity.
    - unfold do_copy. rewrite (G k (or_introl eq_refl)).
      repeat match goal with |- context [match ?x with _ => _ end] => destruct x end; rewrite ?new_obj_off; reflexivity.
    - unfold do_subset. rewrite (G k (or_introl eq_refl)).
      repeat match goal with |- context [match ?x with _ => _ end] => destruct x end; rewrite ?new_obj_off; reflexivity.
    - unfold do_insert, ins. rewrite (G k (or_introl eq_refl)), (G j (or_intror (or_introl eq_refl))).
      destruct (getobj st k) as [[ha a]|]; [|reflexivity]. destruct (getobj st j) as [[hb b]|]; [|reflexivity].
      rewrite !convert_anon_off, !convert_back_off.
      repeat match goal with |- context [match ?x with _ => _ end] => destruct x end; rewrite ?new_obj_off; reflexivity.
    - unfold do_scale. rewrite (G k (or_introl eq_refl)). cbn [q_side q_cache quirks_off andb].
      destruct (getobj st k) as [[h o]|] eqn:Eg; [|reflexivity].
      destruct (s =? o_scale _ _ o).
      + rewrite !ref_obj_off.
        assert (E1 := getobj_In _ _ _ _ Eg).
        assert (E2 : getobj st' k = Some (h, o)) by (rewrite (G k (or_introl eq_refl)); exact Eg).
        apply getobj_In in E2. now rewrite E1, E2.
      + destruct ((o_scale _ _ o =? 0) && (s =? 1)); [|reflexivity]. now rewrite !new_obj_off.
    - reflexivity.
  Qed.

  Lemma push_wf st o : wf st -> wf (push st o).
  Proof.
    unfold wf, push; cbn. intros W. rewrite app_length; cbn. apply Forall_app; split.
    - eapply Forall_impl; [|exact W]. cbn; intros; lia.
    - constructor; [lia|constructor].
  Qed.

  Lemma alias_wf st h : wf st -> (h < length (heap _ _ st))%nat -> wf (alias st h).
  Proof. unfold wf, alias; cbn. intros W Hh. apply Forall_app; split; auto. Qed.

  Ltac wf_tac :=
    repeat match goal with
    | |- context [match ?x with _ => _ end] => destruct x eqn:?
    | |- (_, _) = (_, _) -> _ => intros HH; inversion HH; subst; clear HH
    end; auto using push_wf.

  Lemma step_wf st p st' r : wf st -> S st p = (st', r) -> wf st'.
  Proof.
    intros W. destruct p; cbn [step].
    - unfold do_get. cbn [q_side quirks_off]. wf_tac; rewrite new_obj_off in *; wf_tac.
    - unfold do_gett. wf_tac; rewrite new_obj_off in *; wf_tac.
    - unfold do_iter. destruct (getobj st k) as [[h o]|]; [|wf_tac].
      destruct (o_scalar _ _ o); [wf_tac|]. destruct (o_jd _ _ o); [wf_tac|].
      cbn [q_side quirks_off]. rewrite observe_all_off. wf_tac.
    - unfold do_view. wf_tac; rewrite new_obj_off in *; wf_tac.
    - unfold do_copy. wf_tac; rewrite new_obj_off in *; wf_tac.
    - unfold do_copy. wf_tac; rewrite new_obj_off in *; wf_tac.
    - unfold do_subset. wf_tac; rewrite new_obj_off in *; wf_tac.
    - unfold do_insert, ins. destruct (getobj st k) as [[ha a]|]; [|wf_tac].
      destruct (getobj st j) as [[hb b]|]; [|wf_tac]. rewrite convert_anon_off, convert_back_off.
      wf_tac; rewrite ?new_obj_off in *; wf_tac.
    - unfold do_scale. cbn [q_side q_cache quirks_off andb]. rewrite ?ref_obj_off.
      wf_tac; rewrite ?new_obj_off, ?ref_obj_off in *; wf_tac.
      apply alias_wf; auto. apply nth_error_Some. congruence.
    - wf_tac.
  Qed.

  Lemma run_wf ps : forall st st' rs, wf st -> runS st ps = (st', rs) -> wf st'.
  Proof.
    induction ps as [|p ps IH]; cbn; intros st st' rs W H.
    - now inversion H; subst.
    - destruct (S st p) as [st1 x] eqn:E1. destruct (runS st1 ps) as [st2 xs] eqn:E2.
      inversion H; subst. eapply IH; [eapply step_wf; eauto|eauto].
  Qed.

  Lemma init_wf fmt R : wf (init quirks_off fmt R).
  Proof. unfold wf, init; cbn. constructor; [lia|constructor]. Qed.

  (* the result of an operation on objects of a history does not depend on what was read afterwards *)
  Lemma history_indep fmt R before reads p st1 rs1 st2 rs2 :
    runS (init quirks_off fmt R) before = (st1, rs1) ->
    runS st1 reads = (st2, rs2) ->
    Forall (fun k => (k < length (names _ _ st1))%nat) (op_names p) ->
    snd (S st2 p) = snd (S st1 p).
  Proof.
    intros H1 H2 Hn. apply step_local. intros k Hk. apply getobj_extends.
    - eapply run_wf; [apply init_wf|eauto].
    - eapply run_extends; eauto.
    - rewrite Forall_forall in Hn. auto.
  Qed.

  (* ---------------------------------------------------------------- eq / hash *)
  Lemma eq_hash_spec {C} (canon : J -> C) :
    (forall x y, jeqb x y = true -> canon x = canon y) ->
    forall a b : obj, eq_spec V J jeqb a b = true ->
                      map canon (hash_model V J a) = map canon (hash_model V J b).
  Proof.
    intros Hc a b H. unfold eq_spec in H. apply andb_prop in H as [_ H].
    unfold hash_model. eapply list_eqb_sound; eauto.
  Qed.

  (* ---------------------------------------------------------------- the source's hand-over agrees with the
     specification as long as no view is taken through a stale slot *)
  Definition Qs : quirks := mkQ true false false false.
  Notation Fs := (step V J jeqb vj cv cvi fmt_to cv_iter Qs).
  Notation runF := (run V J jeqb vj cv cvi fmt_to cv_iter Qs).
  Notation set_heap_sl := (set_heap_sl V J).

  Definition erase_obj (o : obj) : obj := set_sl V J o None.
  Definition erase (st : state) : state :=
    mkState V J (map erase_obj (heap _ _ st)) (names _ _ st) (scache _ _ st) (fcache _ _ st).
  Definition erase_res (r : result) : result :=
    match r with
    | RObj o b => RObj (erase_obj o) b
    | RList l => RList (map (fun ob => (erase_obj (fst ob), snd ob)) l)
    | RErr => RErr
    | RMixed => RMixed
    end.

  Definition shape_ok (st : state) : Prop :=
    Forall (fun o => o_scalar _ _ o = is_js (o_jd _ _ o)) (heap _ _ st).

  (* a view (o.view()) is fine when nothing is waiting in the slot of its parent; a tuple index never is *)
  Definition ok_op (st : state) (p : op) : Prop :=
    match p with
    | View k => match getobj st k with Some (_, o) => o_sl _ _ o = None | None => True end
    | GetT _ _ => False
    | _ => True
    end.

  Fixpoint no_stale (st : state) (ps : list op) : Prop :=
    match ps with
    | [] => True
    | p :: r => ok_op st p /\ no_stale (fst (Fs st p)) r
    end.

  Lemma getobj_erase st k :
    getobj (erase st) k = match getobj st k with Some (h, o) => Some (h, erase_obj o) | None => None end.
  Proof.
    unfold C04_TimeArray.getobj, erase; cbn. destruct (nth_error (names _ _ st) k); [|reflexivity].
    rewrite nth_error_map. destruct (nth_error (heap _ _ st) n); reflexivity.
  Qed.

  Lemma erase_push st o : erase (push st o) = push (erase st) (erase_obj o).
  Proof. unfold erase, C04_TimeArray.push; cbn. now rewrite map_app, map_length. Qed.

  Lemma erase_alias st h : erase (alias st h) = alias (erase st) h.
  Proof. reflexivity. Qed.

  Lemma map_upd_erase l h o s :
    nth_error l h = Some o -> map erase_obj (upd l h (set_sl V J o s)) = map erase_obj l.
  Proof.
    revert h; induction l as [|x l IH]; intros [|h]; cbn; intros H; try discriminate.
    - inversion H; subst. reflexivity.
    - now rewrite IH.
  Qed.

  Lemma erase_set_heap_sl st h s : erase (set_heap_sl st h s) = erase st.
  Proof.
    unfold C04_TimeArray.set_heap_sl. destruct (nth_error (heap _ _ st) h) eqn:E; [|reflexivity].
    unfold erase; cbn. now rewrite (map_upd_erase _ _ _ _ E).
  Qed.

  Lemma shape_push st o : shape_ok st -> o_scalar _ _ o = is_js (o_jd _ _ o) -> shape_ok (push st o).
  Proof. unfold shape_ok, C04_TimeArray.push; cbn. intros. apply Forall_app; split; auto. Qed.

  Lemma Forall_upd {A} (P : A -> Prop) l h x : Forall P l -> P x -> Forall P (upd l h x).
  Proof.
    intros H Hx; revert h; induction H; intros [|h]; cbn; auto.
  Qed.

  Lemma shape_set_heap_sl st h s : shape_ok st -> shape_ok (set_heap_sl st h s).
  Proof.
    unfold shape_ok, C04_TimeArray.set_heap_sl. intros H.
    destruct (nth_error (heap _ _ st) h) eqn:E; [|exact H]. cbn.
    apply Forall_upd; auto. cbn. rewrite Forall_forall in H. apply H. eapply nth_error_In; eauto.
  Qed.

  Lemma shape_getobj st k h o : shape_ok st -> getobj st k = Some (h, o) -> o_scalar _ _ o = is_js (o_jd _ _ o).
  Proof.
    intros H G. apply getobj_In in G. unfold shape_ok in H. rewrite Forall_forall in H.
    apply H. eapply nth_error_In; eauto.
  Qed.

  Lemma new_obj_side st o :
    new_obj V J jeqb Qs st o = (push st o, RObj o (is_js (o_jd _ _ o))).
  Proof. reflexivity. Qed.

  Lemma ref_obj_side st h :
    ref_obj V J jeqb Qs st h =
    match nth_error (heap _ _ st) h with None => (st, RErr) | Some o => (alias st h, RObj o (is_js (o_jd _ _ o))) end.
  Proof. unfold ref_obj. destruct (nth_error (heap _ _ st) h); reflexivity. Qed.

  Lemma observe_all_side st os :
    observe_all V J jeqb Qs st os = (st, map (fun o => (o, is_js (o_jd _ _ o))) os).
  Proof. induction os as [|o os IH]; cbn; [reflexivity|]. cbn in IH. now rewrite IH. Qed.

  Definition sim (xF xS : state * result) : Prop :=
    erase (fst xF) = fst xS /\ erase_res (snd xF) = snd xS /\ shape_ok (fst xF).

  Lemma sim_err st st1 : erase st1 = erase st -> shape_ok st1 -> sim (st1, RErr) (erase st, RErr).
  Proof. intros E H. repeat split; auto. Qed.

  Lemma sim_new st st1 o :
    erase st1 = erase st -> shape_ok st1 -> o_sl _ _ o = None -> o_scalar _ _ o = is_js (o_jd _ _ o) ->
    sim (new_obj V J jeqb Qs st1 o) (new_obj V J jeqb quirks_off (erase st) o).
  Proof.
    intros E H Hsl Hsh. rewrite new_obj_side, new_obj_off. unfold sim; cbn [fst snd].
    assert (Eo : erase_obj o = o) by (destruct o; cbn in *; subst; reflexivity).
    split; [now rewrite erase_push, E, Eo|]. split; [cbn; now rewrite Eo|]. now apply shape_push.
  Qed.

  Lemma index_jd_shape x it r : index_jd J x it = Some r -> is_js r = is_int it.
  Proof.
    unfold index_jd. destruct x; [discriminate|]. destruct (index l it) as [r'|]; [|discriminate].
    destruct (is_int it).
    - destruct r' as [|j [|]]; try discriminate. intros H; now inversion H.
    - intros H; now inversion H.
  Qed.

  Lemma side_state st h (o : obj) :
    shape_ok st ->
    let st0 := if true && cv_iter && negb (o_scalar _ _ o)
               then match rev (flat (o_jd _ _ o)) with j :: _ => set_heap_sl st h (Some (JS j)) | [] => st end
               else st in
    erase st0 = erase st /\ shape_ok st0.
  Proof.
    intros HS. cbn zeta. destruct (true && cv_iter && negb (o_scalar _ _ o)); [|auto].
    destruct (rev (flat (o_jd _ _ o))); auto using erase_set_heap_sl, shape_set_heap_sl.
  Qed.

  Lemma convert_anon_side st h (o : obj) :
    shape_ok st -> o_scalar _ _ o = is_js (o_jd _ _ o) ->
    exists st0, convert_anon V J jeqb vj cv fmt_to cv_iter Qs st h o =
                (st0, Some (from_jds 1 (fmt_to (o_fmt _ _ o)) (map_jdv J cv (o_jd _ _ o)))) /\
                erase st0 = erase st /\ shape_ok st0.
  Proof.
    intros HS Hsh. unfold convert_anon. cbn [q_cache q_side Qs].
    replace (true && cv_iter && negb (o_scalar _ _ o) && is_js (o_jd _ _ o)) with false
      by (rewrite Hsh; destruct cv_iter, (is_js (o_jd _ _ o)); reflexivity).
    cbn [andb]. eexists. split; [reflexivity|]. apply (side_state st h o HS).
  Qed.

  Lemma convert_back_side st h (o : obj) :
    shape_ok st -> o_scalar _ _ o = is_js (o_jd _ _ o) ->
    exists st0, convert_back V J jeqb vj cvi cv_iter Qs st h o =
                (st0, Some (from_jds 0 (o_fmt _ _ o) (map_jdv J cvi (o_jd _ _ o)))) /\
                erase st0 = erase st /\ shape_ok st0.
  Proof.
    intros HS Hsh. unfold convert_back. cbn [q_cache q_side Qs].
    replace (true && cv_iter && negb (o_scalar _ _ o) && is_js (o_jd _ _ o)) with false
      by (rewrite Hsh; destruct cv_iter, (is_js (o_jd _ _ o)); reflexivity).
    cbn [andb]. eexists. split; [reflexivity|]. apply (side_state st h o HS).
  Qed.

  Lemma step_sim st p : shape_ok st -> ok_op st p -> sim (Fs st p) (S (erase st) p).
  Proof.
    intros HS Hok. destruct p; cbn [step].
    - (* Get *)
      unfold do_get. rewrite getobj_erase. destruct (getobj st k) as [[h o]|] eqn:G; [|now apply sim_err].
      pose proof (shape_getobj _ _ _ _ HS G) as Hsh. cbn [o_scalar erase_obj set_sl o_jd o_vals o_fmt o_scale].
      destruct (o_scalar _ _ o) eqn:Esc; [now apply sim_err|].
      cbn [q_side Qs quirks_off].
      destruct (o_jd _ _ o) as [j|l] eqn:Ejd; [cbn in Hsh; discriminate|].
      destruct (index_jd J (JA l) it) as [r0|] eqn:Ej; [|now apply sim_err].
      pose proof (index_jd_shape _ _ _ Ej) as Hr.
      destruct (is_int it) eqn:Eint.
      + apply sim_new; auto using erase_set_heap_sl, shape_set_heap_sl.
      + destruct (index (o_vals _ _ o) it) as [vs|].
        * apply sim_new; auto using erase_set_heap_sl, shape_set_heap_sl.
        * apply sim_err; auto using erase_set_heap_sl, shape_set_heap_sl.
    - (* GetT *) destruct Hok.
    - (* Iter *)
      unfold do_iter. rewrite getobj_erase. destruct (getobj st k) as [[h o]|] eqn:G; [|now apply sim_err].
      cbn [o_scalar erase_obj set_sl o_jd o_vals o_fmt o_scale].
      destruct (o_scalar _ _ o); [now apply sim_err|].
      destruct (o_jd _ _ o) as [j|l]; [now apply sim_err|].
      cbn [q_side Qs quirks_off]. rewrite observe_all_side, observe_all_off.
      unfold sim; cbn [fst snd].
      assert (E1 : erase match rev l with [] => st | j :: _ => set_heap_sl st h (Some (JS j)) end = erase st)
        by (destruct (rev l); auto using erase_set_heap_sl).
      assert (E2 : shape_ok match rev l with [] => st | j :: _ => set_heap_sl st h (Some (JS j)) end)
        by (destruct (rev l); auto using shape_set_heap_sl).
      repeat split; auto. cbn. rewrite !map_map. cbn. reflexivity.
    - (* View *)
      unfold do_view. rewrite getobj_erase. cbn [ok_op] in Hok.
      destruct (getobj st k) as [[h o]|] eqn:G; [|now apply sim_err].
      pose proof (shape_getobj _ _ _ _ HS G) as Hsh.
      unfold finalize_jd. cbn [q_side Qs quirks_off o_scalar erase_obj set_sl o_jd o_vals o_fmt o_scale].
      rewrite Hok. apply sim_new; auto.
    - (* Copy *)
      unfold do_copy. rewrite getobj_erase. destruct (getobj st k) as [[h o]|] eqn:G; [|now apply sim_err].
      pose proof (shape_getobj _ _ _ _ HS G) as Hsh.
      cbn [q_rebuild Qs quirks_off andb o_scalar erase_obj set_sl o_jd o_vals o_fmt o_scale].
      apply sim_new; auto.
    - (* Deepcopy *)
      unfold do_copy. rewrite getobj_erase. destruct (getobj st k) as [[h o]|] eqn:G; [|now apply sim_err].
      pose proof (shape_getobj _ _ _ _ HS G) as Hsh.
      cbn [q_rebuild Qs quirks_off andb o_scalar erase_obj set_sl o_jd o_vals o_fmt o_scale].
      apply sim_new; auto.
    - (* Subset *)
      unfold do_subset. rewrite getobj_erase. destruct (getobj st k) as [[h o]|] eqn:G; [|now apply sim_err].
      cbn [q_rebuild Qs quirks_off andb o_scalar erase_obj set_sl o_jd o_vals o_fmt o_scale].
      destruct (o_scalar _ _ o); [now apply sim_err|].
      destruct (index (o_vals _ _ o) it); [|now apply sim_err].
      destruct (index_jd J (o_jd _ _ o) it) as [r0|] eqn:Ej; [|now apply sim_err].
      apply sim_new; auto. cbn. symmetry. eapply index_jd_shape; eauto.
    - (* Insert *)
      unfold do_insert. rewrite !getobj_erase.
      destruct (getobj st k) as [[ha a]|]; [|now apply sim_err].
      destruct (getobj st j) as [[hb b]|] eqn:Gb; [|now apply sim_err].
      cbn [o_scalar erase_obj set_sl o_jd o_vals o_fmt o_scale].
      destruct (o_scalar _ _ a); [now apply sim_err|].
      destruct (o_scale _ _ a =? o_scale _ _ b).
      + destruct (o_fmt _ _ a =? o_fmt _ _ b); [|now apply sim_err].
        unfold ins. cbn [o_scalar erase_obj set_sl o_jd o_vals o_fmt o_scale].
        destruct (insert_at (o_vals _ _ a) pos (o_vals _ _ b)); [|now apply sim_err].
        destruct (insert_at (flat (o_jd _ _ a)) pos (flat (o_jd _ _ b))); [|now apply sim_err].
        apply sim_new; auto.
      + pose proof (shape_getobj _ _ _ _ HS Gb) as Hsh.
        destruct ((o_scale _ _ a =? 1) && (o_scale _ _ b =? 0)).
        * rewrite convert_anon_off.
          destruct (convert_anon_side st hb b HS Hsh) as (st0 & -> & E0 & S0).
          destruct (o_fmt _ _ a =? _); [|now apply sim_err].
          unfold ins. cbn [o_scalar erase_obj set_sl o_jd o_vals o_fmt o_scale].
          destruct (insert_at (o_vals _ _ a) pos _); [|now apply sim_err].
          destruct (insert_at (flat (o_jd _ _ a)) pos _); [|now apply sim_err].
          apply sim_new; auto.
        * destruct ((o_scale _ _ a =? 0) && (o_scale _ _ b =? 1)); [|now apply sim_err].
          rewrite convert_back_off.
          destruct (convert_back_side st hb b HS Hsh) as (st0 & -> & E0 & S0).
          destruct (o_fmt _ _ a =? _); [|now apply sim_err].
          unfold ins. cbn [o_scalar erase_obj set_sl o_jd o_vals o_fmt o_scale].
          destruct (insert_at (o_vals _ _ a) pos _); [|now apply sim_err].
          destruct (insert_at (flat (o_jd _ _ a)) pos _); [|now apply sim_err].
          apply sim_new; auto.
    - (* Scale *)
      unfold do_scale. rewrite getobj_erase. destruct (getobj st k) as [[h o]|] eqn:G; [|now apply sim_err].
      pose proof (shape_getobj _ _ _ _ HS G) as Hsh.
      cbn [q_cache q_side Qs quirks_off andb o_scalar erase_obj set_sl o_jd o_vals o_fmt o_scale].
      destruct (s =? o_scale _ _ o).
      + rewrite ref_obj_side, ref_obj_off. pose proof (getobj_In _ _ _ _ G) as E.
        unfold erase at 1; cbn [heap]. rewrite nth_error_map, E. cbn [option_map].
        unfold sim; cbn [fst snd]. repeat split; auto.
      + destruct ((o_scale _ _ o =? 0) && (s =? 1)); [|now apply sim_err].
        rewrite Hsh. destruct cv_iter; cbn [andb].
        * destruct (is_js (o_jd _ _ o)) eqn:Ejs; cbn [negb andb].
          -- apply sim_new; auto.
          -- apply sim_new; [destruct (rev (flat (o_jd _ _ o))); auto using erase_set_heap_sl
                            |destruct (rev (flat (o_jd _ _ o))); auto using shape_set_heap_sl| |]; reflexivity.
        * apply sim_new; auto; reflexivity.
    - (* Write *) now apply sim_err.
  Qed.

  Lemma run_sim ps : forall st,
    shape_ok st -> no_stale st ps ->
    map erase_res (snd (runF st ps)) = snd (runS (erase st) ps).
  Proof.
    induction ps as [|p ps IH]; cbn; intros st HS Hn; [reflexivity|].
    destruct Hn as [Hok Hn]. pose proof (step_sim st p HS Hok) as (E1 & E2 & E3).
    destruct (Fs st p) as [st1 x] eqn:EF. destruct (S (erase st) p) as [st1' x'] eqn:ES. cbn [fst snd] in *.
    specialize (IH st1 E3 Hn). rewrite E1 in IH.
    destruct (runF st1 ps) as [st2 xs]. destruct (runS st1' ps) as [st2' xs']. cbn [fst snd map] in *.
    now rewrite E2, IH.
  Qed.

  Lemma agrees_when_fresh fmt R ps :
    no_stale (init Qs fmt R) ps ->
    map erase_res (snd (runF (init Qs fmt R) ps)) = snd (runS (init quirks_off fmt R) ps).
  Proof.
    intros Hn. rewrite (run_sim ps (init Qs fmt R)); auto.
    unfold shape_ok, C04_TimeArray.init; cbn. constructor; [reflexivity|constructor].
  Qed.
End Proofs.

(* ================================================================== refutations of the quirk variants
   (computed witnesses on a concrete instance: tokens are integers) *)
Definition w_vj (s f : Z) (j : tJ) : tV := [fst j; snd j; s; f].
Definition w_cv (j : tJ) : tJ := (fst j, snd j + 100).
Definition w_fmt_to (f : Z) : Z := 0.
Definition w_cvi (j : tJ) : tJ := (fst j, snd j - 99).
Definition w_step := step tV tJ tJ_eqb w_vj w_cv w_cvi w_fmt_to true.
Definition w_run := run tV tJ tJ_eqb w_vj w_cv w_cvi w_fmt_to true.
Definition w_init := init tV tJ tJ_eqb w_vj.
Definition w_R : list tJ := [(1, 11); (2, 12); (3, 13); (4, 14)].
Definition Q_side := mkQ true false false false.
Definition Q_cache := mkQ false true false false.
Definition Q_rebuild := mkQ false false true false.

(* t[0]; t.view(): four values, one bare jd pair *)
Lemma side_channel_misaligned :
  exists o b, nth_error (snd (w_run Q_side (w_init Q_side 0 w_R) [Get 0 (IInt 0); View 0])) 1 = Some (RObj o b) /\
              length (o_vals _ _ o) = 4%nat /\ o_jd _ _ o = JS (1, 11) /\
              snd (w_step quirks_off (fst (w_run quirks_off (w_init quirks_off 0 w_R) [Get 0 (IInt 0)])) (View 0))
              = snd (w_step quirks_off (w_init quirks_off 0 w_R) (View 0)) /\
              snd (w_step Q_side (fst (w_run Q_side (w_init Q_side 0 w_R) [Get 0 (IInt 0)])) (View 0))
              <> snd (w_step Q_side (w_init Q_side 0 w_R) (View 0)).
Proof.
  eexists. eexists. split; [vm_compute; reflexivity|]. split; [reflexivity|]. split; [reflexivity|].
  split; [vm_compute; reflexivity|]. vm_compute. discriminate.
Qed.

(* t[1:3]; t.view() and a tuple index on a fresh array: lengths differ *)
Lemma side_channel_lengths :
  (exists o b, nth_error (snd (w_run Q_side (w_init Q_side 0 w_R) [Get 0 (ISlice (Some 1) (Some 3) 1); View 0])) 1
               = Some (RObj o b) /\ length (o_vals _ _ o) = 4%nat /\ length (flat _ (o_jd _ _ o)) = 2%nat) /\
  (exists o b, nth_error (snd (w_run Q_side (w_init Q_side 0 w_R) [GetT 0 (ISlice (Some 1) (Some 3) 1)])) 0
               = Some (RObj o b) /\ length (o_vals _ _ o) = 2%nat /\ length (flat _ (o_jd _ _ o)) = 4%nat) /\
  (* the conversion utc -> tai iterates over its argument: t.tai; t.view() *)
  (exists o b, nth_error (snd (w_run Q_side (w_init Q_side 0 w_R) [Scale 0 1; View 0])) 1
               = Some (RObj o b) /\ length (o_vals _ _ o) = 4%nat /\ o_jd _ _ o = JS (4, 14)).
Proof.
  repeat split; eexists; eexists; (split; [vm_compute; reflexivity|]); split; reflexivity.
Qed.

(* t[0] then t[0:1]: the derived format of the one-element array comes back as a scalar, and .tai of the
   array is the very object built for the scalar *)
Lemma cache_wrong_shape :
  (exists o, nth_error (snd (w_run Q_cache (w_init Q_cache 0 w_R) [Get 0 (IInt 0); Get 0 (ISlice (Some 0) (Some 1) 1)])) 1
             = Some (RObj o true) /\ o_scalar _ _ o = false /\ o_jd _ _ o = JA [(1, 11)]) /\
  (exists o b, nth_error (snd (w_run Q_cache (w_init Q_cache 0 w_R)
                         [Get 0 (IInt 0); Scale 1 1; Get 0 (ISlice (Some 0) (Some 1) 1); Scale 3 1])) 3
             = Some (RObj o b) /\ o_scalar _ _ o = true) /\
  (exists o b, nth_error (snd (w_run quirks_off (w_init quirks_off 0 w_R)
                         [Get 0 (IInt 0); Scale 1 1; Get 0 (ISlice (Some 0) (Some 1) 1); Scale 3 1])) 3
             = Some (RObj o b) /\ o_scalar _ _ o = false /\ b = false).
Proof.
  split; [|split].
  - eexists. split; [vm_compute; reflexivity|]. split; reflexivity.
  - eexists. eexists. split; [vm_compute; reflexivity|]. reflexivity.
  - eexists. eexists. split; [vm_compute; reflexivity|]. split; reflexivity.
Qed.

(* copy.copy(t[0]) for the three-column format *)
Lemma rebuild_fails :
  nth_error (snd (w_run Q_rebuild (w_init Q_rebuild 2 w_R) [Get 0 (IInt 0); Copy 1])) 1 = Some RErr /\
  exists o b, nth_error (snd (w_run quirks_off (w_init quirks_off 2 w_R) [Get 0 (IInt 0); Copy 1])) 1 = Some (RObj o b).
Proof. split; [vm_compute; reflexivity|]. eexists. eexists. vm_compute. reflexivity. Qed.

(* t[[0,0]] == t[0] by broadcasting, but the hashed bytes differ *)
Lemma eq_broadcast_no_hash :
  exists a b : obj tV tJ, eq_model tV tJ tJ_eqb a b = true /\ hash_model tV tJ a <> hash_model tV tJ b /\
                          eq_spec tV tJ tJ_eqb a b = false.
Proof.
  exists (mkObj tV tJ false [[1]; [1]] (JA [(1, 11); (1, 11)]) 0 0 None), (mkObj tV tJ true [[1]] (JS (1, 11)) 0 0 None).
  split; [reflexivity|]. split; [cbn; discriminate|reflexivity].
Qed.

(* equality on instants (jd1 + jd2) against a hash of the separate parts: same instant, other split *)
Definition inst_eqb (a b : tJ) : bool := (fst a + snd a) =? (fst b + snd b).

Lemma eq_instant_no_hash :
  exists a b : obj tV tJ, eq_spec tV tJ inst_eqb a b = true /\ hash_model tV tJ a <> hash_model tV tJ b.
Proof.
  exists (mkObj tV tJ false [[1]] (JA [(10, 5)]) 0 0 None), (mkObj tV tJ false [[1]] (JA [(9, 6)]) 0 0 None).
  split; [reflexivity|cbn; discriminate].
Qed.

(* ... and the law holds again when the hash goes through the instant *)
Lemma eq_instant_hash_instant (a b : obj tV tJ) :
  eq_spec tV tJ inst_eqb a b = true ->
  map (fun j => fst j + snd j) (hash_model tV tJ a) = map (fun j => fst j + snd j) (hash_model tV tJ b).
Proof.
  apply (eq_hash_spec tV tJ inst_eqb (fun j => fst j + snd j)).
  intros x y H. unfold inst_eqb in H. now apply Z.eqb_eq in H.
Qed.

