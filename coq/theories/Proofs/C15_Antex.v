(* C15 - lemmas about the ANTEX model (Model/C15_Antex.v): regenerated table checks, ignorable lines, grids,
   the per-antenna cache machine (head, frequency sections, save_correction), whole files, text level
   (with Proofs/C15_Lines.v and Proofs/C15_Covers.v), FREQ RMS sections, witnesses against the quirks, calendar. *)
From Coq Require Import ZArith QArith Qabs Qround List Bool String Ascii Lia.
From Verif Require Import Lib.Dyadic Lib.Text Model.C15_Antex Model.C15_Wf Gen.C15_AntexFields Model.C15_Check
                          Proofs.C15_Lines Proofs.C15_Covers.
Import ListNotations.
Local Open Scope string_scope.

(* ------------------------------------------------------------------ regenerated definitions *)
Lemma fields_wf_true : fields_wf = true.
Proof. vm_compute. reflexivity. Qed.

Lemma lambdas_probe_true : lambdas_probe_ok = true.
Proof. vm_compute. reflexivity. Qed.

(* ------------------------------------------------------------------ ignorable lines *)
Lemma step_lexed_skip q st : step_lexed q st (None, false) = Ok st.
Proof. destruct st; reflexivity. Qed.

Lemma run_filter q tbl keep : (forall l, relevant tbl l = true -> keep l = true) ->
  forall lines st, run q tbl st (filter keep lines) = run q tbl st lines.
Proof.
  intros Hk. unfold run. induction lines as [|l r IH]; intros st; [reflexivity|].
  cbn [filter]. destruct (keep l) eqn:K.
  - cbn [map run_lexed]. destruct (step_lexed q st (prelex tbl l)); [apply IH|reflexivity].
  - cbn [map run_lexed].
    assert (R : relevant tbl l = false).
    { destruct (relevant tbl l) eqn:R; [|reflexivity]. rewrite (Hk _ R) in K. discriminate. }
    unfold relevant in R. destruct (prelex tbl l) as [[x|] e]; [discriminate|]. subst e.
    rewrite step_lexed_skip. apply IH.
Qed.

Lemma comments_ignored_body q tbl keep lines :
  (forall l, relevant tbl l = true -> keep l = true) ->
  parse_body q tbl (filter keep lines) = parse_body q tbl lines.
Proof.
  intros Hk. unfold parse_body, parse_lexed.
  change (run_lexed q ([], []) (map (prelex tbl) (filter keep lines))) with (run q tbl ([], []) (filter keep lines)).
  rewrite (run_filter q tbl keep Hk). reflexivity.
Qed.

(* ------------------------------------------------------------------ grids *)
Lemma Zceil_Q_int q n : (q == inject_Z n)%Q -> Zceil_Q q = n.
Proof.
  intros H. change (Zceil_Q q) with (Qceiling q). rewrite H. apply Qceiling_Z.
Qed.

Lemma arange_off_length start stop step n :
  ((stop - start) / step == inject_Z (Z.of_nat n))%Q ->
  List.length (arange all_off start stop step) = n.
Proof.
  intros H. unfold arange, grid_count. cbn [zen_count_float all_off].
  rewrite map_length, seq_length, (Zceil_Q_int _ _ H). apply Nat2Z.id.
Qed.

Lemma arange_off_nth start stop step n i :
  ((stop - start) / step == inject_Z (Z.of_nat n))%Q -> (i < n)%nat ->
  nth i (arange all_off start stop step) 0%Q = (start + inject_Z (Z.of_nat i) * step)%Q.
Proof.
  intros H Hi. unfold arange, grid_count. cbn [zen_count_float all_off].
  rewrite (Zceil_Q_int _ _ H), Nat2Z.id.
  set (f := fun i0 : nat => (start + inject_Z (Z.of_nat i0) * step)%Q).
  rewrite (nth_indep _ 0%Q (f 0%nat)) by (rewrite map_length, seq_length; exact Hi).
  rewrite (map_nth f), seq_nth by exact Hi. reflexivity.
Qed.

Lemma elevation_grid_spec zen1 dzen (k : nat) :
  (0 < dzen)%Q ->
  let g := elevation_grid all_off zen1 (zen1 + inject_Z (Z.of_nat k) * dzen) dzen in
  List.length g = S k /\
  forall i, (i <= k)%nat -> (nth i g 0 == 90 - (zen1 + inject_Z (Z.of_nat i) * dzen))%Q.
Proof.
  intros Hd g.
  assert (H : ((90 - (zen1 + inject_Z (Z.of_nat k) * dzen + dzen) - (90 - zen1)) / (- dzen)
               == inject_Z (Z.of_nat (S k)))%Q).
  { rewrite Nat2Z.inj_succ. unfold Z.succ. rewrite inject_Z_plus. field. intros E. rewrite E in Hd. discriminate. }
  split.
  - unfold g, elevation_grid, flq. cbn [zen_count_float all_off]. apply arange_off_length. exact H.
  - intros i Hi. unfold g, elevation_grid, flq. cbn [zen_count_float all_off].
    rewrite (arange_off_nth _ _ _ (S k) i H) by lia. ring.
Qed.

Lemma azimuth_grid_spec dazi (k : nat) :
  (0 < dazi)%Q -> (inject_Z (Z.of_nat k) * dazi == 360)%Q ->
  let g := azimuth_grid all_off dazi in
  List.length g = S k /\
  (forall i, (i <= k)%nat -> (nth i g 0 == inject_Z (Z.of_nat i) * dazi)%Q) /\
  (nth k g 0 == 360)%Q.
Proof.
  intros Hd Hk g.
  assert (H : ((360 + dazi - 0) / dazi == inject_Z (Z.of_nat (S k)))%Q).
  { rewrite Nat2Z.inj_succ. unfold Z.succ. rewrite inject_Z_plus, <- Hk. field. intros E. rewrite E in Hd. discriminate. }
  assert (N : forall i, (i <= k)%nat -> (nth i g 0 == inject_Z (Z.of_nat i) * dazi)%Q).
  { intros i Hi. unfold g, azimuth_grid, flq. cbn [zen_count_float all_off].
    rewrite (arange_off_nth _ _ _ (S k) i H) by lia. ring. }
  split; [|split].
  - unfold g, azimuth_grid, flq. cbn [zen_count_float all_off]. apply arange_off_length. exact H.
  - exact N.
  - rewrite N by lia. exact Hk.
Qed.

(* ------------------------------------------------------------------ cache and decoding lemmas *)
Lemma cget_cset k' k v c : cget k' (cset k v c) = if String.eqb k' k then Some v else cget k' c.
Proof. reflexivity. Qed.

Lemma cget_cdel k' k c : cget k' (cdel k c) = if String.eqb k' k then None else cget k' c.
Proof.
  unfold cget. induction c as [|[k0 v0] r IH]; cbn [cdel assoc].
  - destruct (String.eqb k' k); reflexivity.
  - destruct (String.eqb_spec k k0) as [E|E].
    + subst k0. rewrite IH. destruct (String.eqb_spec k' k); reflexivity.
    + cbn [assoc]. rewrite IH. destruct (String.eqb_spec k' k0) as [E2|E2]; [|reflexivity].
      subst k0. destruct (String.eqb_spec k' k); [congruence|reflexivity].
Qed.

Lemma need_q_dec s : isdec s = true -> need_q s = Ok (tokq s).
Proof. unfold isdec, need_q, tokq. destruct (dec_q s); [reflexivity|discriminate]. Qed.

Lemma need_z_dec s : isint s = true -> need_z s = Ok (tokz s).
Proof. unfold isint, need_z, tokz. destruct (dec_z s); [reflexivity|discriminate]. Qed.

Lemma mapM_need_q l : forallb isdec l = true -> mapM need_q l = Ok (map tokq l).
Proof.
  induction l as [|x r IH]; [reflexivity|]. cbn [forallb mapM map]. intros H.
  apply andb_prop in H. destruct H as [H1 H2]. rewrite (need_q_dec _ H1), (IH H2). reflexivity.
Qed.

Lemma mapM_mapM_need_q rows : forallb (forallb isdec) rows = true ->
  mapM (mapM need_q) rows = Ok (map (map tokq) rows).
Proof.
  induction rows as [|x r IH]; [reflexivity|]. cbn [forallb mapM map]. intros H.
  apply andb_prop in H. destruct H as [H1 H2]. rewrite (mapM_need_q _ H1), (IH H2). reflexivity.
Qed.

Lemma run_lexed_app q l1 : forall st l2,
  run_lexed q st (l1 ++ l2)%list =
  match run_lexed q st l1 with Ok st' => run_lexed q st' l2 | Err e => Err e end.
Proof.
  induction l1 as [|x r IH]; intros st l2; [reflexivity|].
  cbn [app run_lexed]. destruct (step_lexed q st x); [apply IH|reflexivity].
Qed.

Lemma akey_eqb_refl k : akey_eqb k k = true.
Proof.
  unfold akey_eqb. rewrite String.eqb_refl. destruct (snd k) as [x|]; cbn; [apply Qeq_bool_iff; reflexivity|reflexivity].
Qed.

Lemma dget_app_none k d e : dget k d = None -> dget k (d ++ [(k, e)])%list = Some e.
Proof.
  induction d as [|[k0 e0] r IH]; cbn [dget app].
  - intros _. assert (R : akey_eqb k k = true).
    { unfold akey_eqb. rewrite String.eqb_refl. destruct (snd k) as [x|]; cbn; [apply Qeq_bool_iff; reflexivity|reflexivity]. }
    rewrite R. reflexivity.
  - destruct (akey_eqb k k0); [discriminate|exact IH].
Qed.

Lemma dset_app_none k d e : dget k d = None -> dset k e d = (d ++ [(k, e)])%list.
Proof.
  induction d as [|[k0 e0] r IH]; cbn [dget dset app]; [reflexivity|].
  destruct (akey_eqb k k0); [discriminate|]. intros H. rewrite (IH H). reflexivity.
Qed.

Lemma dset_app_last k d e0 e : dget k d = None -> dset k e (d ++ [(k, e0)])%list = (d ++ [(k, e)])%list.
Proof.
  induction d as [|[k1 e1] r IH]; cbn [dget dset app].
  - intros _. rewrite akey_eqb_refl. reflexivity.
  - destruct (akey_eqb k k1); [discriminate|]. intros H. rewrite (IH H). reflexivity.
Qed.

(* ------------------------------------------------------------------ the head of an antenna block *)
Definition opt_date (key : string) (t : option (list string)) (c : cache) : cache :=
  match t with Some t => cset key (CT (valid_us t)) c | None => c end.

Definition c_head (a : ant_m) : cache :=
  opt_date "valid_until" (am_until a) (opt_date "valid_from" (am_from a)
   (cset "num_freq_counter" (CN 0) (cset "num_freq" (CS (am_nfreq a))
    (cset "dzen" (CF (tokq (am_dzen a))) (cset "zen2" (CF (tokq (am_zen2 a))) (cset "zen1" (CF (tokq (am_zen1 a)))
     (cset "dazi" (CF (tokq (am_dazi a)))
      (cset "cospar_id" (CS (am_cospar a)) (cset "sat_code" (CS (am_sat a))
       (cset "antenna_code" (CS (am_serial a)) (cset "antenna_type" (CS (am_type a)) []))))))))))).

Lemma parse_valid_ok key t c :
  sem_valid (Some t) = true ->
  forall y m d h mi s, t = [y; m; d; h; mi; s] ->
  parse_valid all_off key [("year", y); ("month", m); ("day", d); ("hour", h); ("minute", mi); ("second", s)] c
  = Ok (cset key (CT (valid_us t)) c).
Proof.
  intros H y m d h mi s E. subst t. cbn [sem_valid] in H.
  repeat (apply andb_prop in H; destruct H as [H ?]).
  unfold parse_valid. cbn [vget assoc String.eqb Ascii.eqb Bool.eqb bind].
  rewrite !need_z_dec by assumption. cbn [bind].
  match goal with V : valid_civil _ _ _ _ _ = true |- _ => rewrite V end.
  rewrite need_q_dec by assumption. cbn [bind seconds_as_days all_off valid_us]. reflexivity.
Qed.

Lemma sem_valid_shape t : sem_valid (Some t) = true -> exists y m d h mi s, t = [y; m; d; h; mi; s].
Proof.
  destruct t as [|y [|m [|d [|h [|mi [|s [|x r]]]]]]]; cbn [sem_valid]; try discriminate.
  intros _. do 6 eexists. reflexivity.
Qed.

Lemma step_valid key pname t c d :
  (pname = "parse_valid_from" /\ key = "valid_from") \/ (pname = "parse_valid_until" /\ key = "valid_until") ->
  sem_valid (Some t) = true ->
  step_lexed all_off (c, d) (lex_valid t pname) = Ok (cset key (CT (valid_us t)) c, d).
Proof.
  intros Hp H. destruct (sem_valid_shape t H) as (y & m & dd & h & mi & s & E).
  pose proof (parse_valid_ok key t c H y m dd h mi s E) as P. subst t.
  destruct Hp as [[-> ->]|[-> ->]]; unfold step_lexed, lex_valid, ev; cbn [fst snd apply_parser String.eqb Ascii.eqb Bool.eqb];
    rewrite P; reflexivity.
Qed.

Lemma step_opt_valid key pname t c d rest :
  (pname = "parse_valid_from" /\ key = "valid_from") \/ (pname = "parse_valid_until" /\ key = "valid_until") ->
  sem_valid t = true ->
  run_lexed all_off (c, d) (lex_opt_valid t pname ++ rest)%list = run_lexed all_off (opt_date key t c, d) rest.
Proof.
  intros Hp H. destruct t as [t|]; [|reflexivity].
  cbn [lex_opt_valid app run_lexed opt_date]. rewrite (step_valid key pname t c d Hp H). reflexivity.
Qed.

Lemma run_cons_ok q st x st' r : step_lexed q st x = Ok st' -> run_lexed q st (x :: r) = run_lexed q st' r.
Proof. intros H. cbn [run_lexed]. rewrite H. reflexivity. Qed.

Lemma step_upd_string q v c d : step_lexed q (c, d) (ev "parse_section_string" v) = Ok (upd_string v c, d).
Proof. reflexivity. Qed.

Lemma step_upd_float q v c d c' : upd_float v c = Ok c' ->
  step_lexed q (c, d) (ev "parse_section_float" v) = Ok (c', d).
Proof.
  intros H. unfold step_lexed, ev. cbn [fst snd apply_parser String.eqb Ascii.eqb Bool.eqb]. rewrite H. reflexivity.
Qed.

Lemma step_numfreq q s c d :
  step_lexed q (c, d) (ev "parse_num_of_frequencies" [("num_freq", s)])
  = Ok (cset "num_freq_counter" (CN 0) (cset "num_freq" (CS s) c), d).
Proof. reflexivity. Qed.

Lemma upd_float1 k s c : isdec s = true -> upd_float [(k, s)] c = Ok (cset k (CF (tokq s)) c).
Proof. intros H. cbn [upd_float]. rewrite (need_q_dec _ H). reflexivity. Qed.

Lemma upd_float3 k1 s1 k2 s2 k3 s3 c : isdec s1 = true -> isdec s2 = true -> isdec s3 = true ->
  upd_float [(k1, s1); (k2, s2); (k3, s3)] c
  = Ok (cset k3 (CF (tokq s3)) (cset k2 (CF (tokq s2)) (cset k1 (CF (tokq s1)) c))).
Proof.
  intros H1 H2 H3. cbn [upd_float]. rewrite (need_q_dec _ H1). cbn [bind].
  rewrite (need_q_dec _ H2). cbn [bind]. rewrite (need_q_dec _ H3). reflexivity.
Qed.

Lemma head_run a d rest :
  sem_ant a = true ->
  run_lexed all_off ([], d) (lex_ant_head a ++ rest)%list = run_lexed all_off (c_head a, d) rest.
Proof.
  intros H. unfold sem_ant in H.
  repeat (apply andb_prop in H; destruct H as [H ?]).
  unfold lex_ant_head. rewrite <- !List.app_assoc. cbn [app].
  rewrite (run_cons_ok _ _ _ _ _ (step_lexed_skip _ _)).
  rewrite (run_cons_ok _ _ _ _ _ (step_upd_string _ _ _ _)). cbn [upd_string].
  erewrite run_cons_ok by (apply step_upd_float, upd_float1; assumption).
  erewrite run_cons_ok by (apply step_upd_float, upd_float3; assumption).
  rewrite (run_cons_ok _ _ _ _ _ (step_numfreq _ _ _ _)).
  rewrite (step_opt_valid "valid_from" "parse_valid_from") by (auto; assumption).
  rewrite (step_opt_valid "valid_until" "parse_valid_until") by (auto; assumption).
  reflexivity.
Qed.

(* ------------------------------------------------------------------ one frequency section *)
Fixpoint rows_push (acc rows : list (list string)) (c : cache) : cache :=
  match rows with
  | [] => c
  | r :: rs => rows_push (acc ++ [r])%list rs (cset "azi" (CR (acc ++ [r])%list) c)
  end.

Definition azi_rows (c : cache) : list (list string) :=
  match cget "azi" c with Some (CR r) => r | _ => [] end.

Lemma cget_rows_push_other k rows : forall acc c,
  String.eqb k "azi" = false -> cget k (rows_push acc rows c) = cget k c.
Proof.
  induction rows as [|r rs IH]; intros acc c H; [reflexivity|].
  cbn [rows_push]. rewrite IH by exact H. rewrite cget_cset, H. reflexivity.
Qed.

Lemma cget_rows_push_azi rows : forall acc c, rows <> [] ->
  cget "azi" (rows_push acc rows c) = Some (CR (acc ++ rows)%list).
Proof.
  induction rows as [|r rs IH]; intros acc c H; [congruence|].
  cbn [rows_push]. destruct rs as [|r2 rs2].
  - cbn [rows_push]. reflexivity.
  - rewrite IH by discriminate. rewrite <- List.app_assoc. reflexivity.
Qed.

Lemma numtok_not_noazi w az : numtok w az = true -> String.eqb az "NOAZI" = false.
Proof.
  intros H. destruct (numtok_inv _ _ H) as (Hne & Hall & _).
  destruct az as [|c r]; [congruence|]. cbn [all_by] in Hall. apply andb_prop in Hall. destruct Hall as [Hc _].
  cbn [String.eqb]. destruct (Ascii.eqb_spec c "N") as [E|E]; [subst c; discriminate Hc|reflexivity].
Qed.

Definition row_ev (r : string * list string) : lexed :=
  ev "parse_correction" [("values", fst r ++ render_values (snd r))].

Lemma rows_run q d rest rows : forall c,
  forallb (fun r => numtok 8 (fst r) && forallb (numtok 7) (snd r)) rows = true ->
  run_lexed q (c, d) (map row_ev rows ++ rest)%list
  = run_lexed q (rows_push (azi_rows c) (map snd rows) c, d) rest.
Proof.
  induction rows as [|[az vals] rs IH]; intros c H; [reflexivity|].
  cbn [forallb fst snd] in H. apply andb_prop in H. destruct H as [H Hrs]. apply andb_prop in H. destruct H as [Haz Hv].
  cbn [map app snd rows_push].
  assert (S : step_lexed q (c, d) (row_ev (az, vals)) = Ok (cset "azi" (CR (azi_rows c ++ [vals])%list) c, d)).
  { unfold step_lexed, row_ev, ev. cbn [fst snd apply_parser String.eqb Ascii.eqb Bool.eqb].
    unfold parse_correction. cbn [vget assoc String.eqb Ascii.eqb Bool.eqb bind].
    destruct (numtok_inv _ _ Haz) as (_ & _ & _ & Htok & _).
    rewrite (split_values az vals Htok Hv). rewrite (numtok_not_noazi _ _ Haz).
    unfold azi_rows. reflexivity. }
  rewrite (run_cons_ok _ _ _ _ _ S). rewrite IH by exact Hrs.
  unfold azi_rows at 1. rewrite cget_cset. cbn [String.eqb Ascii.eqb Bool.eqb]. reflexivity.
Qed.

(* the cache when END OF FREQUENCY is reached *)
Definition c_freq (f : freq_m) (c : cache) : cache :=
  rows_push [] (map snd (fm_rows f))
    (cset "noazi" (CL (map tokq (fm_noazi f)))
      (cset "up" (CF (tokq (fm_up f))) (cset "east" (CF (tokq (fm_east f))) (cset "north" (CF (tokq (fm_north f)))
        (cset "frequency_code" (CS (fm_code f)) c))))).

Lemma step_noazi q vals c d :
  forallb (numtok 7) vals = true -> forallb isdec vals = true ->
  step_lexed q (c, d) (ev "parse_correction" [("values", "NOAZI" ++ render_values vals)])
  = Ok (cset "noazi" (CL (map tokq vals)) c, d).
Proof.
  intros Hw Hd. unfold step_lexed, ev. cbn [fst snd apply_parser String.eqb Ascii.eqb Bool.eqb].
  unfold parse_correction. cbn [vget assoc String.eqb Ascii.eqb Bool.eqb bind].
  rewrite (split_values "NOAZI" vals eq_refl Hw). cbn [String.eqb Ascii.eqb Bool.eqb].
  rewrite (mapM_need_q _ Hd). reflexivity.
Qed.

Lemma step_save q v c d : step_lexed q (c, d) (ev "save_correction" v) =
  match save_correction q c d with Ok st' => Ok st' | Err e => Err e end.
Proof.
  unfold step_lexed, ev. cbn [fst snd apply_parser String.eqb Ascii.eqb Bool.eqb].
  destruct (save_correction q c d); reflexivity.
Qed.

Lemma freq_run f c d rest :
  wf_freq f = true -> sem_freq f = true -> cget "azi" c = None ->
  run_lexed all_off (c, d) (lex_freq f ++ rest)%list =
  match save_correction all_off (c_freq f c) d with
  | Ok st' => run_lexed all_off st' rest
  | Err e => Err e
  end.
Proof.
  intros W S A. unfold wf_freq in W. unfold sem_freq in S.
  repeat (apply andb_prop in W; destruct W as [W ?]).
  repeat (apply andb_prop in S; destruct S as [S ?]).
  unfold lex_freq. rewrite <- !List.app_assoc. cbn [app].
  rewrite (run_cons_ok _ _ _ _ _ (step_upd_string _ _ _ _)). cbn [upd_string].
  erewrite run_cons_ok by (apply step_upd_float, upd_float3; assumption).
  erewrite run_cons_ok by (apply step_noazi; assumption).
  change (map (fun r : string * list string => ev "parse_correction" [("values", fst r ++ render_values (snd r))]) (fm_rows f))
    with (map row_ev (fm_rows f)).
  rewrite rows_run by assumption.
  cbn [app run_lexed]. rewrite step_save.
  assert (Z : azi_rows (cset "noazi" (CL (map tokq (fm_noazi f)))
                (cset "up" (CF (tokq (fm_up f))) (cset "east" (CF (tokq (fm_east f))) (cset "north" (CF (tokq (fm_north f)))
                  (cset "frequency_code" (CS (fm_code f)) c))))) = []).
  { unfold azi_rows. rewrite !cget_cset. cbn [String.eqb Ascii.eqb Bool.eqb]. rewrite A. reflexivity. }
  rewrite Z. fold (c_freq f c).
  destruct (save_correction all_off (c_freq f c) d); reflexivity.
Qed.

(* ------------------------------------------------------------------ END OF FREQUENCY: save_correction *)
Definition head_keys : list string :=
  ["antenna_type"; "antenna_code"; "sat_code"; "cospar_id"; "dazi"; "zen1"; "zen2"; "dzen"; "valid_from"; "valid_until"].

Definition head_ok (a : ant_m) (c : cache) : Prop :=
  forall k, In k head_keys -> cget k c = cget k (c_head a).

Lemma not_head k' : existsb (String.eqb k') head_keys = false -> forall k, In k head_keys -> String.eqb k k' = false.
Proof.
  intros E k Hin. destruct (String.eqb_spec k k') as [->|]; [|reflexivity].
  assert (X : existsb (String.eqb k') head_keys = true).
  { apply existsb_exists. exists k'. split; [exact Hin|apply String.eqb_refl]. }
  rewrite X in E. discriminate.
Qed.

Lemma head_ok_cset a c k' v : head_ok a c -> existsb (String.eqb k') head_keys = false -> head_ok a (cset k' v c).
Proof. intros H E k Hin. rewrite cget_cset, (not_head k' E k Hin). apply H. exact Hin. Qed.

Lemma head_ok_cdel a c k' : head_ok a c -> existsb (String.eqb k') head_keys = false -> head_ok a (cdel k' c).
Proof. intros H E k Hin. rewrite cget_cdel, (not_head k' E k Hin). apply H. exact Hin. Qed.

Lemma head_ok_rows_push a rows acc c : head_ok a c -> head_ok a (rows_push acc rows c).
Proof.
  intros H k Hin. rewrite cget_rows_push_other; [apply H; exact Hin|].
  apply (not_head "azi" eq_refl k Hin).
Qed.

Definition dateval (t : option (list string)) : option cval := option_map (fun t => CT (valid_us t)) t.

Lemma c_head_lookups a :
  cget "antenna_type" (c_head a) = Some (CS (am_type a)) /\
  cget "antenna_code" (c_head a) = Some (CS (am_serial a)) /\
  cget "sat_code" (c_head a) = Some (CS (am_sat a)) /\
  cget "cospar_id" (c_head a) = Some (CS (am_cospar a)) /\
  cget "dazi" (c_head a) = Some (CF (tokq (am_dazi a))) /\
  cget "zen1" (c_head a) = Some (CF (tokq (am_zen1 a))) /\
  cget "zen2" (c_head a) = Some (CF (tokq (am_zen2 a))) /\
  cget "dzen" (c_head a) = Some (CF (tokq (am_dzen a))) /\
  cget "valid_from" (c_head a) = dateval (am_from a) /\
  cget "valid_until" (c_head a) = dateval (am_until a) /\
  cget "azi" (c_head a) = None /\
  cget "num_freq_counter" (c_head a) = Some (CN 0).
Proof.
  unfold c_head. destruct (am_from a), (am_until a); cbn; repeat split; reflexivity.
Qed.

(* what the antenna block contributes besides the frequencies *)
Definition entry_after (a : ant_m) (fs : list freq_m) : entry :=
  {| en_sat := en_sat (expected_entry a); en_elev := en_elev (expected_entry a);
     en_azim := en_azim (expected_entry a); en_freqs := map expected_freq fs |}.

Definition old_entry (a : ant_m) (fs : list freq_m) : entry :=
  match fs with [] => empty_entry | _ => entry_after a fs end.

Lemma save_ok a f fs c d0 :
  sem_ant a = true -> sem_freq f = true ->
  head_ok a c ->
  cget "frequency_code" c = Some (CS (fm_code f)) ->
  cget "north" c = Some (CF (tokq (fm_north f))) ->
  cget "east" c = Some (CF (tokq (fm_east f))) ->
  cget "up" c = Some (CF (tokq (fm_up f))) ->
  cget "noazi" c = Some (CL (map tokq (fm_noazi f))) ->
  cget "azi" c = match fm_rows f with [] => None | rows => Some (CR (map snd rows)) end ->
  cget "num_freq_counter" c = Some (CN (Z.of_nat (List.length fs))) ->
  dget (expected_key a) d0 = None ->
  assoc (fm_code f) (map expected_freq fs) = None ->
  let d := match fs with [] => d0 | _ => (d0 ++ [(expected_key a, entry_after a fs)])%list end in
  save_correction all_off c d =
  Ok (cdel "azi" (cset "num_freq_counter" (CN (Z.of_nat (List.length fs) + 1)) c),
      (d0 ++ [(expected_key a, entry_after a (fs ++ [f]))])%list).
Proof.
  intros SA SF HO Hcode Hn He Hu Hnoazi Hazi Hcnt Hd0 Hnew d.
  destruct (c_head_lookups a) as (L1 & L2 & L3 & L4 & L5 & L6 & L7 & L8 & L9 & L10 & _ & _).
  assert (K : forall k, In k head_keys -> cget k c = cget k (c_head a)) by exact HO.
  rewrite <- (K "antenna_type") in L1 by (cbn; tauto).
  rewrite <- (K "antenna_code") in L2 by (cbn; tauto).
  rewrite <- (K "sat_code") in L3 by (cbn; tauto).
  rewrite <- (K "cospar_id") in L4 by (cbn; tauto).
  rewrite <- (K "dazi") in L5 by (cbn; tauto).
  rewrite <- (K "zen1") in L6 by (cbn; tauto).
  rewrite <- (K "zen2") in L7 by (cbn; tauto).
  rewrite <- (K "dzen") in L8 by (cbn; tauto).
  rewrite <- (K "valid_from") in L9 by (cbn; tauto).
  rewrite <- (K "valid_until") in L10 by (cbn; tauto).
  clear K.
  unfold sem_ant in SA. repeat (apply andb_prop in SA; destruct SA as [SA ?]).
  unfold sem_freq in SF. repeat (apply andb_prop in SF; destruct SF as [SF ?]).
  assert (Hkey : expected_key a = (if String.eqb (am_sat a) "" then am_type a else am_serial a,
                                   if negb (String.eqb (am_sat a) "") then
                                     match dateval (am_from a) with Some (CT t) => Some t | _ => Some min_us end
                                   else None)).
  { unfold expected_key, dateval. destruct (String.eqb (am_sat a) ""); cbn [negb]; [reflexivity|].
    destruct (am_from a); reflexivity. }
  assert (Hazi' : azi_of_cache all_off c = Ok (fe_azi (snd (expected_freq f)))).
  { unfold azi_of_cache. rewrite Hazi. cbn [expected_freq snd fe_azi].
    destruct (fm_rows f) as [|r0 rs]; [reflexivity|].
    rewrite H8. cbn [negb azi_strings all_off].
    rewrite mapM_mapM_need_q.
    - cbn [bind]. rewrite map_map. reflexivity.
    - rewrite forallb_forall in *. intros x Hx. apply in_map_iff in Hx. destruct Hx as (r & <- & Hr).
      apply (H9 r Hr). }
  unfold save_correction, need_s, need_f.
  rewrite L3. cbn [bind].
  set (is_sat := negb (String.eqb (am_sat a) "")) in *.
  assert (Hant : match cget (if is_sat then "antenna_code" else "antenna_type") c with
                 | Some (CS x) => Ok x | Some _ => Err "TypeError" | None => Err "KeyError" end
                 = Ok (fst (expected_key a))).
  { rewrite Hkey. unfold is_sat. destruct (String.eqb (am_sat a) ""); cbn [negb fst]; [rewrite L1|rewrite L2]; reflexivity. }
  rewrite Hant. cbn [bind]. rewrite Hcode. cbn [bind]. rewrite Hcnt, L9. cbn [sat_from_required until_now all_off].
  assert (Hk2 : (fst (expected_key a),
                 if is_sat then match dateval (am_from a) with Some (CT t) => Some t | _ => Some min_us end else None)
                = expected_key a).
  { rewrite Hkey. cbn [fst]. reflexivity. }
  rewrite !Hk2.
  assert (Hold : match dget (expected_key a) d with Some e0 => e0 | None => empty_entry end = old_entry a fs).
  { unfold d, old_entry. destruct fs as [|f0 fs0]; [rewrite Hd0; reflexivity|].
    rewrite (dget_app_none _ _ _ Hd0). reflexivity. }
  rewrite !Hold.
  assert (Hunb : is_sat && match match dateval (am_from a) with Some (CT t) => Some t | _ => Some min_us end with
                           | Some _ => false | None => true end = false).
  { destruct is_sat; [|reflexivity]. destruct (am_from a); reflexivity. }
  rewrite L5, L6, L7, L8, L10, L4, L1, Hn, He, Hu, Hnoazi, Hazi', Hunb.
  cbn [azi_accumulates all_off].
  destruct fs as [|f0 fs0].
  - (* first frequency of the block *)
    cbn [List.length Z.of_nat Z.eqb andb old_entry empty_entry en_freqs assoc en_sat en_elev en_azim app map].
    unfold d. rewrite Hd0.
    assert (Hsat : (if is_sat
                    then match match dateval (am_from a) with Some (CT t) => Some t | _ => Some min_us end with
                         | Some _ =>
                             bind (Ok (am_cospar a)) (fun cospar : string =>
                             bind (Ok (am_type a)) (fun atype : string =>
                             Ok (Some {| si_cospar := cospar; si_code := am_sat a; si_type := atype;
                                         si_until := match dateval (am_until a) with Some (CT t) => Some t | _ => Some max_us end |})))
                         | None => Err "UnboundLocalError"
                         end
                    else Ok None) = Ok (en_sat (expected_entry a))).
    { unfold is_sat, expected_entry. cbn [en_sat]. destruct (String.eqb (am_sat a) ""); cbn [negb]; [reflexivity|].
      destruct (am_from a); cbn [dateval option_map bind]; destruct (am_until a); reflexivity. }
    rewrite Hsat. cbn [bind].
    unfold entry_after, expected_entry. cbn [en_sat en_elev en_azim en_freqs map expected_freq fst snd fe_azi or_else].
    destruct (Qeq_bool (tokq (am_dzen a)) 0), (Qeq_bool (tokq (am_dazi a)) 0); cbn [bind or_else];
      rewrite (dset_app_none _ _ _ Hd0);
      destruct (if String.eqb (am_sat a) "" then None else _); reflexivity.
  - (* a further frequency *)
    assert (Hz : (Z.of_nat (List.length (f0 :: fs0)) =? 0)%Z = false) by reflexivity.
    rewrite Hz. cbn [andb bind].
    cbn [old_entry]. unfold entry_after at 1. cbn [en_freqs]. rewrite Hnew.
    unfold d. rewrite (dset_app_last _ _ _ _ Hd0).
    unfold entry_after. cbn [en_sat en_elev en_azim en_freqs or_else].
    rewrite map_app. reflexivity.
Qed.

(* ------------------------------------------------------------------ all frequency sections of a block *)
Definition data_after (a : ant_m) (d0 : data) (fs : list freq_m) : data :=
  match fs with [] => d0 | _ => (d0 ++ [(expected_key a, entry_after a fs)])%list end.

Lemma nodupb_app_notin l1 : forall x l2, nodupb (l1 ++ x :: l2)%list = true -> existsb (String.eqb x) l1 = false.
Proof.
  induction l1 as [|y r IH]; intros x l2 H; [reflexivity|].
  cbn [app nodupb] in H. apply andb_prop in H. destruct H as [H1 H2].
  cbn [existsb]. rewrite (IH _ _ H2), orb_false_r.
  apply negb_true_iff in H1.
  destruct (String.eqb_spec x y) as [->|]; [|reflexivity].
  assert (X : existsb (String.eqb y) (r ++ y :: l2)%list = true).
  { apply existsb_exists. exists y. split; [apply in_or_app; right; left; reflexivity|apply String.eqb_refl]. }
  rewrite X in H1. discriminate.
Qed.

Lemma assoc_expected_none x fs : existsb (String.eqb x) (map fm_code fs) = false -> assoc x (map expected_freq fs) = None.
Proof.
  induction fs as [|f r IH]; [reflexivity|]. cbn [map existsb assoc expected_freq]. intros H.
  apply orb_false_elim in H. destruct H as [H1 H2]. rewrite H1. exact (IH H2).
Qed.

Lemma c_freq_lookups a f c n :
  head_ok a c -> cget "azi" c = None -> cget "num_freq_counter" c = Some (CN n) ->
  head_ok a (c_freq f c) /\
  cget "frequency_code" (c_freq f c) = Some (CS (fm_code f)) /\
  cget "north" (c_freq f c) = Some (CF (tokq (fm_north f))) /\
  cget "east" (c_freq f c) = Some (CF (tokq (fm_east f))) /\
  cget "up" (c_freq f c) = Some (CF (tokq (fm_up f))) /\
  cget "noazi" (c_freq f c) = Some (CL (map tokq (fm_noazi f))) /\
  cget "azi" (c_freq f c) = match fm_rows f with [] => None | rows => Some (CR (map snd rows)) end /\
  cget "num_freq_counter" (c_freq f c) = Some (CN n).
Proof.
  intros HO A N. unfold c_freq. split.
  { apply head_ok_rows_push. repeat (apply head_ok_cset; [|reflexivity]). exact HO. }
  repeat split; try (rewrite cget_rows_push_other by reflexivity; rewrite !cget_cset; cbn [String.eqb Ascii.eqb Bool.eqb];
                     first [reflexivity | assumption]).
  destruct (fm_rows f) as [|r0 rs] eqn:E.
  - cbn [map rows_push]. rewrite !cget_cset. cbn [String.eqb Ascii.eqb Bool.eqb]. exact A.
  - rewrite cget_rows_push_azi by (cbn [map]; discriminate). reflexivity.
Qed.

Lemma freqs_run a d0 rest : sem_ant a = true -> dget (expected_key a) d0 = None ->
  forall todo done c,
  head_ok a c -> cget "azi" c = None ->
  cget "num_freq_counter" c = Some (CN (Z.of_nat (List.length done))) ->
  forallb wf_freq todo = true -> forallb sem_freq todo = true ->
  nodupb (map fm_code (done ++ todo)%list) = true ->
  exists c',
    run_lexed all_off (c, data_after a d0 done) (List.concat (map lex_freq todo) ++ rest)%list
    = run_lexed all_off (c', data_after a d0 (done ++ todo)%list) rest.
Proof.
  intros SA Hd0. induction todo as [|f todo IH]; intros done c HO A N W S ND.
  - exists c. rewrite List.app_nil_r. reflexivity.
  - cbn [forallb] in W, S. apply andb_prop in W. destruct W as [Wf W]. apply andb_prop in S. destruct S as [Sf S].
    cbn [map List.concat]. rewrite <- List.app_assoc.
    rewrite (freq_run f c _ _ Wf Sf A).
    destruct (c_freq_lookups a f c _ HO A N) as (HO' & Q1 & Q2 & Q3 & Q4 & Q5 & Q6 & Q7).
    assert (Hnew : assoc (fm_code f) (map expected_freq done) = None).
    { apply assoc_expected_none. rewrite map_app in ND. cbn [map] in ND. exact (nodupb_app_notin _ _ _ ND). }
    pose proof (save_ok a f done (c_freq f c) d0 SA Sf HO' Q1 Q2 Q3 Q4 Q5 Q6 Q7 Hd0 Hnew) as SV.
    cbn zeta in SV. change (match done with [] => d0 | _ :: _ => (d0 ++ [(expected_key a, entry_after a done)])%list end)
      with (data_after a d0 done) in SV.
    rewrite SV.
    set (c2 := cdel "azi" (cset "num_freq_counter" (CN (Z.of_nat (List.length done) + 1)) (c_freq f c))).
    assert (E : (d0 ++ [(expected_key a, entry_after a (done ++ [f]))])%list = data_after a d0 (done ++ [f])%list).
    { unfold data_after. destruct done; reflexivity. }
    rewrite E.
    destruct (IH (done ++ [f])%list c2) as [c' Hc'].
    + unfold c2. apply head_ok_cdel; [|reflexivity]. apply head_ok_cset; [|reflexivity]. exact HO'.
    + unfold c2. rewrite cget_cdel. reflexivity.
    + unfold c2. rewrite cget_cdel, cget_cset. cbn [String.eqb Ascii.eqb Bool.eqb].
      rewrite app_length. cbn [List.length]. rewrite Nat2Z.inj_add. reflexivity.
    + exact W.
    + exact S.
    + rewrite <- List.app_assoc. exact ND.
    + exists c'. rewrite <- List.app_assoc in Hc'. exact Hc'.
Qed.

(* ------------------------------------------------------------------ FREQ RMS sections: cache only, no result *)
Lemma rms_run q f c d rest :
  wf_freq f = true -> sem_freq f = true ->
  exists c', run_lexed q (c, d) (lex_rms f ++ rest)%list = run_lexed q (c', d) rest.
Proof.
  intros W S. unfold wf_freq in W. unfold sem_freq in S.
  repeat (apply andb_prop in W; destruct W as [W ?]).
  repeat (apply andb_prop in S; destruct S as [S ?]).
  unfold lex_rms. rewrite <- !List.app_assoc. cbn [app].
  rewrite (run_cons_ok _ _ _ _ _ (step_lexed_skip _ _)).
  erewrite run_cons_ok by (apply step_upd_float, upd_float3; assumption).
  erewrite run_cons_ok by (apply step_noazi; assumption).
  change (map (fun r : string * list string => ev "parse_correction" [("values", fst r ++ render_values (snd r))]) (fm_rows f))
    with (map row_ev (fm_rows f)).
  rewrite rows_run by assumption.
  cbn [app]. rewrite (run_cons_ok _ _ _ _ _ (step_lexed_skip _ _)).
  eexists. reflexivity.
Qed.

Lemma rmss_run q d rest fs : forall c,
  forallb wf_freq fs = true -> forallb sem_freq fs = true ->
  exists c', run_lexed q (c, d) (List.concat (map lex_rms fs) ++ rest)%list = run_lexed q (c', d) rest.
Proof.
  induction fs as [|f r IH]; intros c W S.
  - exists c. reflexivity.
  - cbn [forallb] in W, S. apply andb_prop in W. destruct W as [Wf W]. apply andb_prop in S. destruct S as [Sf S].
    cbn [map List.concat]. rewrite <- List.app_assoc.
    destruct (rms_run q f c d (List.concat (map lex_rms r) ++ rest)%list Wf Sf) as [c1 H1].
    destruct (IH c1 W S) as [c2 H2]. exists c2. rewrite H1. exact H2.
Qed.

(* ------------------------------------------------------------------ one antenna block, a whole file *)
Lemma ant_run a d0 rest : good_ant a = true -> dget (expected_key a) d0 = None ->
  run_lexed all_off ([], d0) (lex_ant a ++ rest)%list
  = run_lexed all_off ([], (d0 ++ [(expected_key a, expected_entry a)])%list) rest.
Proof.
  intros G Hd0. unfold good_ant in G. apply andb_prop in G. destruct G as [W SA].
  unfold lex_ant. rewrite <- !List.app_assoc. rewrite (head_run a d0 _ SA).
  destruct (c_head_lookups a) as (_ & _ & _ & _ & _ & _ & _ & _ & _ & _ & A & N).
  assert (Wf : forallb wf_freq (am_freqs a) = true /\ forallb wf_freq (am_rms a) = true).
  { unfold wf_ant in W. apply andb_prop in W. destruct W as [W W2]. apply andb_prop in W. destruct W as [_ W1]. split; assumption. }
  destruct Wf as [Wf Wr].
  assert (Sx : forallb sem_freq (am_freqs a) = true /\ forallb sem_freq (am_rms a) = true /\
               nodupb (map fm_code (am_freqs a)) = true /\ am_freqs a <> []).
  { pose proof SA as SA'. unfold sem_ant in SA'. repeat (apply andb_prop in SA'; destruct SA' as [SA' ?]).
    repeat split; try assumption. intros E. rewrite E in *. discriminate. }
  destruct Sx as (Sf & Sr & ND & NE).
  set (tail := (List.concat (map lex_rms (am_rms a)) ++ [(None, true)] ++ rest)%list).
  destruct (freqs_run a d0 tail SA Hd0 (am_freqs a) [] (c_head a)) as [c' Hc']; try assumption.
  - intros k _. reflexivity.
  - change (data_after a d0 []) with d0 in Hc'. cbn [app] in Hc'. etransitivity; [exact Hc'|].
    unfold tail.
    destruct (rmss_run all_off (data_after a d0 (am_freqs a)) ([(None, true)] ++ rest)%list (am_rms a) c' Wr Sr) as [c2 H2].
    etransitivity; [exact H2|].
    cbn [app run_lexed]. unfold step_lexed. cbn [fst snd bind].
    unfold data_after. destruct (am_freqs a) eqn:E; [congruence|]. rewrite <- E. reflexivity.
Qed.

Lemma akey_eqb_sym a b : akey_eqb a b = akey_eqb b a.
Proof.
  unfold akey_eqb. rewrite (String.eqb_sym (fst a) (fst b)). f_equal.
  destruct (snd a) as [x|], (snd b) as [y|]; cbn [optQ_eqb]; try reflexivity.
  destruct (Qeq_bool x y) eqn:E1, (Qeq_bool y x) eqn:E2; try reflexivity.
  - apply Qeq_bool_iff in E1. apply Qeq_bool_neq in E2. symmetry in E1. contradiction.
  - apply Qeq_bool_iff in E2. apply Qeq_bool_neq in E1. symmetry in E2. contradiction.
Qed.

Lemma dget_app_other k k0 e d : dget k d = None -> akey_eqb k k0 = false -> dget k (d ++ [(k0, e)])%list = None.
Proof.
  induction d as [|[k1 e1] r IH]; cbn [dget app]; intros H E.
  - rewrite E. reflexivity.
  - destruct (akey_eqb k k1); [discriminate|]. exact (IH H E).
Qed.

Lemma file_run m : forall d0,
  forallb good_ant m = true -> keys_distinct (map expected_key m) = true ->
  (forall a, In a m -> dget (expected_key a) d0 = None) ->
  run_lexed all_off ([], d0) (List.concat (map lex_ant m)) = Ok ([], (d0 ++ expected m)%list).
Proof.
  induction m as [|a r IH]; intros d0 G K D.
  - cbn. rewrite List.app_nil_r. reflexivity.
  - cbn [forallb] in G. apply andb_prop in G. destruct G as [Ga G].
    cbn [map keys_distinct] in K. apply andb_prop in K. destruct K as [Ka K]. apply negb_true_iff in Ka.
    cbn [map List.concat]. rewrite (ant_run a d0 _ Ga (D a (or_introl eq_refl))).
    rewrite IH; [| exact G | exact K |].
    + unfold expected. cbn [map]. rewrite <- List.app_assoc. reflexivity.
    + intros a' Ha'. apply dget_app_other; [apply D; right; exact Ha'|].
      rewrite akey_eqb_sym.
      destruct (akey_eqb (expected_key a) (expected_key a')) eqn:E; [|reflexivity].
      assert (X : existsb (akey_eqb (expected_key a)) (map expected_key r) = true).
      { apply existsb_exists. exists (expected_key a'). split; [apply in_map; exact Ha'|exact E]. }
      rewrite X in Ka. discriminate.
Qed.

(* ------------------------------------------------------------------ text level: reading a rendered file *)
Lemma after_header_render m : after_header (render_file m) = render_body m.
Proof. reflexivity. Qed.

Lemma prelex_render_body m : forallb good_ant m = true ->
  map (prelex std_table) (render_body m) = List.concat (map lex_ant m).
Proof.
  unfold render_body. induction m as [|a r IH]; intros G; [reflexivity|].
  cbn [forallb] in G. apply andb_prop in G. destruct G as [Ga G].
  cbn [map List.concat]. rewrite map_app, (IH G).
  unfold good_ant in Ga. apply andb_prop in Ga. destruct Ga as [W _].
  rewrite (prelex_render_ant a W). reflexivity.
Qed.

Lemma roundtrip m : good_file m = true -> parse all_off std_table (render_file m) = Ok (expected m).
Proof.
  intros G. unfold good_file in G. apply andb_prop in G. destruct G as [G K].
  unfold parse. rewrite after_header_render. unfold parse_body, parse_lexed.
  rewrite (prelex_render_body m G).
  pose proof (file_run m [] G K (fun _ _ => eq_refl)) as F. cbn [app] in F.
  set (r := run_lexed _ _ _).
  assert (R : r = Ok ([], expected m)) by exact F.
  rewrite R. reflexivity.
Qed.

Lemma roundtrip_with_comments m lines keep :
  good_file m = true ->
  (forall l, relevant std_table l = true -> keep l = true) ->
  filter keep lines = render_body m ->
  parse_body all_off std_table lines = Ok (expected m).
Proof.
  intros G Hk E. rewrite <- (comments_ignored_body all_off std_table keep lines Hk), E.
  pose proof (roundtrip m G) as R. unfold parse in R. rewrite after_header_render in R. exact R.
Qed.

(* any table that covers the standard's reads rendered files like the standard's *)
Lemma prelex_body_covers gen m : table_covers gen std_table = true -> forallb good_ant m = true ->
  map (prelex gen) (render_body m) = map (prelex std_table) (render_body m).
Proof.
  intros C. unfold render_body. induction m as [|a r IH]; intros G; [reflexivity|].
  cbn [forallb] in G. apply andb_prop in G. destruct G as [Ga G].
  cbn [map List.concat]. rewrite !map_app, (IH G).
  unfold good_ant in Ga. apply andb_prop in Ga. destruct Ga as [W _].
  rewrite (prelex_covers gen a C W). reflexivity.
Qed.

Lemma reads_like_std q gen m : table_covers gen std_table = true -> good_file m = true ->
  parse q gen (render_file m) = parse q std_table (render_file m).
Proof.
  intros C G. unfold good_file in G. apply andb_prop in G. destruct G as [G _].
  unfold parse. rewrite after_header_render. unfold parse_body.
  rewrite (prelex_body_covers gen m C G). reflexivity.
Qed.

Lemma fields_wf_covers : fields_wf = true -> table_covers antex_corr_table std_table = true.
Proof.
  unfold fields_wf. intros H. apply andb_prop in H. destruct H as [H _]. apply andb_prop in H. exact (proj1 H).
Qed.

Lemma roundtrip_gen m : good_file m = true -> parse all_off antex_corr_table (render_file m) = Ok (expected m).
Proof.
  intros G. rewrite (reads_like_std all_off antex_corr_table m (fields_wf_covers fields_wf_true) G).
  exact (roundtrip m G).
Qed.

(* every frequency section of every antenna: exactly its own numbers *)
Lemma frequency_sections m a f :
  good_file m = true -> In a m -> In f (am_freqs a) ->
  exists dat, parse all_off std_table (render_file m) = Ok dat /\
    In (expected_key a, expected_entry a) dat /\
    In (fm_code f,
        {| fe_neu := [tokq (fm_north f) * mm2m; tokq (fm_east f) * mm2m; tokq (fm_up f) * mm2m]%Q;
           fe_noazi := map tokq (fm_noazi f);
           fe_azi := match fm_rows f with
                     | [] => None
                     | rows => Some (AziQ (map (fun r => map tokq (snd r)) rows))
                     end |}) (en_freqs (expected_entry a)).
Proof.
  intros G Ha Hf. exists (expected m). split; [exact (roundtrip m G)|]. split.
  - unfold expected. apply (in_map (fun a0 => (expected_key a0, expected_entry a0))). exact Ha.
  - unfold expected_entry. cbn [en_freqs]. apply (in_map expected_freq) in Hf. exact Hf.
Qed.

Lemma azi_shape f rows :
  fe_azi (snd (expected_freq f)) = Some (AziQ rows) ->
  List.length rows = List.length (fm_rows f) /\
  forall i, (i < List.length rows)%nat ->
    nth i rows [] = map tokq (snd (nth i (fm_rows f) ("", []))).
Proof.
  cbn [expected_freq snd fe_azi]. intros H.
  assert (X : rows = map (fun r : string * list string => map tokq (snd r)) (fm_rows f)).
  { destruct (fm_rows f) as [|r0 rs]; [discriminate|]. injection H as <-. reflexivity. }
  subst rows. clear H. split; [apply map_length|].
  intros i Hi. rewrite map_length in Hi.
  rewrite (nth_indep _ [] ((fun r => map tokq (snd r)) ("", []))) by (rewrite map_length; exact Hi).
  rewrite (map_nth (fun r : string * list string => map tokq (snd r))). reflexivity.
Qed.

Lemma keys_once m : good_file m = true ->
  exists dat, parse all_off std_table (render_file m) = Ok dat /\
    map fst dat = map expected_key m /\ keys_distinct (map fst dat) = true.
Proof.
  intros G. exists (expected m). split; [exact (roundtrip m G)|].
  assert (E : map fst (expected m) = map expected_key m).
  { unfold expected. rewrite map_map. reflexivity. }
  rewrite E. split; [reflexivity|]. unfold good_file in G. apply andb_prop in G. exact (proj2 G).
Qed.

(* validity dates, text level *)
Lemma valid_line_spec label pname key t c d :
  (label = "VALID FROM" /\ pname = "parse_valid_from" /\ key = "valid_from") \/
  (label = "VALID UNTIL" /\ pname = "parse_valid_until" /\ key = "valid_until") ->
  wf_valid (Some t) = true -> sem_valid (Some t) = true ->
  step all_off std_table (c, d) (render_valid t label) = Ok (cset key (CT (valid_us t)) c, d).
Proof.
  intros Hl W S. unfold step.
  destruct Hl as [(-> & -> & ->)|(-> & -> & ->)].
  - rewrite (prelex_valid t "VALID FROM" "parse_valid_from") by (auto; assumption).
    apply step_valid; [auto|exact S].
  - rewrite (prelex_valid t "VALID UNTIL" "parse_valid_until") by (auto; assumption).
    apply step_valid; [auto|exact S].
Qed.

(* ------------------------------------------------------------------ witnesses against the quirks *)
Definition wf1 : freq_m := {| fm_code := "G01"; fm_north := "279.00"; fm_east := "0.00"; fm_up := "2319.50";
  fm_noazi := ["-0.80"; "+0.90"]; fm_rows := [("0.0", ["-0.10"; "0.20"]); ("180.0", ["-0.30"; "0.40"]); ("360.0", ["-0.10"; "0.20"])] |}.
Definition wf2 : freq_m := {| fm_code := "G02"; fm_north := "1.00"; fm_east := "-2.00"; fm_up := "3.50";
  fm_noazi := ["-0.70"; "+0.60"]; fm_rows := [("0.0", ["-1.10"; "1.20"]); ("180.0", ["-1.30"; "1.40"]); ("360.0", ["-1.10"; "1.20"])] |}.
Definition wa : ant_m := {| am_type := "BLOCK IIA"; am_serial := "G01"; am_sat := "G032"; am_cospar := "1992-079A";
  am_dazi := "180.0"; am_zen1 := "0.0"; am_zen2 := "0.1"; am_dzen := "0.1"; am_nfreq := "2";
  am_from := Some ["1992"; "11"; "22"; "0"; "0"; "0.0000000"];
  am_until := Some ["2008"; "10"; "16"; "23"; "59"; "59.9999999"]; am_freqs := [wf1; wf2]; am_rms := [wf2] |}.
Definition wfile : file_m := [wa].

(* a satellite block without VALID FROM (and without VALID UNTIL), followed by a receiver antenna *)
Definition wb : ant_m := {| am_type := "GALILEO-2"; am_serial := "E11"; am_sat := "E101"; am_cospar := "2011-060A";
  am_dazi := "0.0"; am_zen1 := "0.0"; am_zen2 := "1.0"; am_dzen := "1.0"; am_nfreq := "1";
  am_from := None; am_until := None;
  am_freqs := [{| fm_code := "E01"; fm_north := "1.00"; fm_east := "-2.00"; fm_up := "3.50";
                  fm_noazi := ["-0.70"; "+0.60"]; fm_rows := [] |}]; am_rms := [] |}.
Definition wr : ant_m := {| am_type := "AERAT1675_120   SPKE"; am_serial := ""; am_sat := ""; am_cospar := "";
  am_dazi := "0.0"; am_zen1 := "0.0"; am_zen2 := "5.0"; am_dzen := "5.0"; am_nfreq := "1";
  am_from := None; am_until := None;
  am_freqs := [{| fm_code := "G01"; fm_north := "-0.01"; fm_east := "+0.57"; fm_up := "+80.51";
                  fm_noazi := ["+0.00"; "-0.07"]; fm_rows := [] |}]; am_rms := [] |}.
Definition wfile2 : file_m := [wb; wr].

Definition only (k : Z) : quirks := quirks_of_mask k.

Lemma wfile_good : good_file wfile = true.
Proof. vm_compute. reflexivity. Qed.

Lemma accumulates_refuted :
  good_file wfile = true /\ parse (only 1) std_table (render_file wfile) <> Ok (expected wfile).
Proof. split; [exact wfile_good|]. intros H. vm_compute in H. discriminate H. Qed.

Lemma strings_refuted :
  good_file wfile = true /\ parse (only 2) std_table (render_file wfile) <> Ok (expected wfile).
Proof. split; [exact wfile_good|]. intros H. vm_compute in H. discriminate H. Qed.

Lemma seconds_refuted :
  good_file wfile = true /\ parse (only 4) std_table (render_file wfile) <> Ok (expected wfile).
Proof. split; [exact wfile_good|]. intros H. vm_compute in H. discriminate H. Qed.

Lemma count_float_refuted :
  good_file wfile = true /\ parse (only 8) std_table (render_file wfile) <> Ok (expected wfile).
Proof. split; [exact wfile_good|]. intros H. vm_compute in H. discriminate H. Qed.

Lemma wfile2_good : good_file wfile2 = true.
Proof. vm_compute. reflexivity. Qed.

Lemma sat_without_from_refuted :
  good_file wfile2 = true /\ parse (only 16) std_table (render_file wfile2) = Err "UnboundLocalError"
  /\ map fst (expected wfile2) = [("E11", Some min_us); ("AERAT1675_120   SPKE", None)].
Proof. split; [exact wfile2_good|]. split; vm_compute; reflexivity. Qed.

Lemma until_now_refuted :
  good_file wfile2 = true /\ parse (only 32) std_table (render_file wfile2) <> Ok (expected wfile2)
  /\ match expected wfile2 with
     | (_, e) :: _ => match en_sat e with Some s => si_until s = Some max_us | None => False end
     | [] => False
     end.
Proof.
  split; [exact wfile2_good|]. split; [|vm_compute; reflexivity].
  intros H. vm_compute in H. discriminate H.
Qed.

(* what exactly goes wrong in the witness *)
Example witness_detail :
  match parse (only 1) std_table (render_file wfile), parse (only 4) std_table (render_file wfile),
        parse (only 8) std_table (render_file wfile), parse all_off std_table (render_file wfile) with
  | Ok [(_, e1)], Ok [(_, e4)], Ok [(_, e8)], Ok [(_, e0)] =>
      (* second frequency: 6 rows instead of 3 *)
      (match assoc "G02" (en_freqs e1), assoc "G02" (en_freqs e0) with
       | Some f1, Some f0 => match fe_azi f1, fe_azi f0 with
                             | Some (AziQ r1), Some (AziQ r0) => (List.length r1 =? 6)%nat && (List.length r0 =? 3)%nat
                             | _, _ => false end
       | _, _ => false end)
      (* VALID UNTIL 59.9999999 s later vs 59.9999999 days later *)
      && (match en_sat e4, en_sat e0 with
          | Some s4, Some s0 => match si_until s4, si_until s0 with
                                | Some t4, Some t0 => Qeq_bool (t4 - t0) ((599999999 # 10000000) * (86400000000 - 1000000))
                                | _, _ => false end
          | _, _ => false end)
      (* zenith grid 0.0, 0.1: 3 elevations instead of 2 *)
      && (match en_elev e8, en_elev e0 with
          | Some g8, Some g0 => (List.length g8 =? 3)%nat && (List.length g0 =? 2)%nat
          | _, _ => false end)
  | _, _, _, _ => false
  end = true.
Proof. vm_compute. reflexivity. Qed.

(* a second block with the same PRN and VALID FROM is refused *)
Lemma duplicate_refused :
  parse all_off std_table (render_file [wa; wa]) = Err "ParserError".
Proof. vm_compute. reflexivity. Qed.

(* ------------------------------------------------------------------ calendar *)
Definition month_ok (y m : Z) : bool :=
  (* days of the month are consecutive, and the first of the next month follows the last *)
  let dim := days_in_month y m in
  let nxt := if (m =? 12)%Z then days_from_civil (y + 1) 1 1 else days_from_civil y (m + 1) 1 in
  (days_from_civil y m dim + 1 =? nxt)%Z && (28 <=? dim)%Z.

Definition years : list Z := map Z.of_nat (seq 1 (Z.to_nat 9999)).
Definition months : list Z := map Z.of_nat (seq 1 12).

Lemma calendar_computed : forallb (fun y => forallb (month_ok y) months) years = true.
Proof. vm_compute. reflexivity. Qed.

Lemma in_range lo n z : (Z.of_nat lo <= z < Z.of_nat lo + Z.of_nat n)%Z -> In z (map Z.of_nat (seq lo n)).
Proof.
  intros H. apply in_map_iff. exists (Z.to_nat z). split; [lia|]. apply in_seq. lia.
Qed.

Lemma calendar_consecutive y m d :
  (1 <= y <= 9999)%Z -> (1 <= m <= 12)%Z ->
  days_from_civil 1970 1 1 = 0%Z /\
  days_from_civil y m (d + 1) = (days_from_civil y m d + 1)%Z /\
  (days_from_civil y m (days_in_month y m) + 1)%Z
    = (if (m =? 12)%Z then days_from_civil (y + 1) 1 1 else days_from_civil y (m + 1) 1).
Proof.
  intros Hy Hm. split; [reflexivity|]. split.
  - unfold days_from_civil. lia.
  - pose proof calendar_computed as C. rewrite forallb_forall in C.
    assert (Iy : In y years) by (apply (in_range 1); lia).
    specialize (C y Iy). rewrite forallb_forall in C.
    assert (Im : In m months) by (apply (in_range 1); lia).
    specialize (C m Im). unfold month_ok in C. apply andb_prop in C. destruct C as [C _].
    apply Z.eqb_eq in C. exact C.
Qed.
