(* C01 - lemmas about Model/C01_Scales.v *)
From Coq Require Import ZArith QArith Qabs Qround Bool List String Lia Lqa.
From Verif Require Import Lib.Dyadic Gen.C01_TaiUtc Gen.C01_Const Gen.C01_Graph Spec.C01_IersTaiUtc Model.C01_Scales.
Import ListNotations.
Open Scope Q_scope.

(* ================================================================== computed facts about the regenerated data *)

(* Gen table against the hand-typed history: same number of rows, row k starts at 0h of the k-th published
   date, ends where the next one starts (the last at 9999-12-31), and denotes the same affine function *)
Fixpoint match_published (tbl : list row) (pub : list entry) : bool :=
  match tbl, pub with
  | [], [] => true
  | r :: t, e :: pt =>
      Qeq_bool (r_start r) (e_start e) &&
      Qeq_bool (r_end r) (match pt with e' :: _ => e_start e' | [] => far_future end) &&
      Qeq_bool (r_fac r) (inject_Z (e_rate7 e) / inject_Z 10000000) &&
      Qeq_bool (delta_s r 0) (e_value e mjd0) &&
      match_published t pt
  | _, _ => false
  end.

Lemma table_matches_published : match_published table published = true.
Proof. vm_compute. reflexivity. Qed.

Lemma table_is_wf : table_wf table = true /\ List.length table = List.length published.
Proof. split; vm_compute; reflexivity. Qed.

Definition row_nearest (t : Q * Q * Q * Q * Q) (d : dy * dy * dy * dy * dy) : bool :=
  let '(a, b, c, e, f) := t in
  let '(a', b', c', e', f') := d in
  is_nearest_double a a' && is_nearest_double b b' && is_nearest_double c c' &&
  is_nearest_double e e' && is_nearest_double f f'.

Fixpoint all2 {A B} (p : A -> B -> bool) (l : list A) (m : list B) : bool :=
  match l, m with
  | [], [] => true
  | a :: l', b :: m' => p a b && all2 p l' m'
  | _, _ => false
  end.

Lemma loaded_is_text : all2 row_nearest taiutc_txt taiutc_loaded = true.
Proof. vm_compute. reflexivity. Qed.

Lemma constants_ok :
  L_G == L_G_iers2010 /\ T0 == T_0_iers2010 /\ T_0_txt == T_0_iers2010 /\
  c_gps * day_s == tai_minus_gps_s /\ c_tt * day_s == tt_minus_tai_s /\
  is_nearest_double L_G_txt L_G_loaded = true /\
  is_nearest_double T_0_jd1_txt T_0_jd1_loaded = true /\
  is_nearest_double T_0_jd2_txt T_0_jd2_loaded = true /\
  is_nearest_double (1 / day) seconds2day_loaded = true.
Proof. repeat split; vm_compute; reflexivity. Qed.

(* ================================================================== booleans <-> propositions *)
Lemma Qlt_b_true a b : Qlt_b a b = true <-> a < b.
Proof.
  unfold Qlt_b. rewrite negb_true_iff. split; intro H.
  - apply Qnot_le_lt. intro K. apply Qle_bool_iff in K. congruence.
  - destruct (Qle_bool b a) eqn:E; [|reflexivity]. apply Qle_bool_iff in E. exfalso. apply (Qlt_not_le _ _ H E).
Qed.

Lemma Qle_b_true a b : Qle_bool a b = true <-> a <= b.
Proof. apply Qle_bool_iff. Qed.

Lemma in_row_iff x r : in_row x r = true <-> r_start r <= x /\ x < r_end r.
Proof. unfold in_row. rewrite andb_true_iff, Qle_b_true, Qlt_b_true. tauto. Qed.

Lemma in_row_compat x x' r : x == x' -> in_row x r = in_row x' r.
Proof.
  intro H. apply eq_true_iff_eq. rewrite !in_row_iff. rewrite H. tauto.
Qed.

(* ================================================================== the row in force is unique *)
Lemma chain_lower l : forall e r, chain_ok e l = true -> In r l -> e <= r_start r.
Proof.
  induction l as [|a t IH]; intros e r Hc Hin; [destruct Hin|].
  cbn [chain_ok] in Hc. apply andb_true_iff in Hc. destruct Hc as [Hc Ht].
  apply andb_true_iff in Hc. destruct Hc as [He Hlt].
  apply Qeq_bool_iff in He. apply Qlt_b_true in Hlt.
  destruct Hin as [->|Hin].
  - rewrite He. apply Qle_refl.
  - specialize (IH _ _ Ht Hin). rewrite He. apply Qlt_le_weak. eapply Qlt_le_trans; eauto.
Qed.

Lemma find_in_row l : forall e r x, chain_ok e l = true -> In r l -> in_row x r = true ->
  find (in_row x) l = Some r.
Proof.
  induction l as [|a t IH]; intros e r x Hc Hin Hx; [destruct Hin|].
  cbn [chain_ok] in Hc. apply andb_true_iff in Hc. destruct Hc as [Hc Ht].
  cbn [find]. destruct (in_row x a) eqn:Ea.
  - destruct Hin as [->|Hin]; [reflexivity|].
    exfalso. pose proof (chain_lower _ _ _ Ht Hin) as Hl.
    apply in_row_iff in Ea. apply in_row_iff in Hx. destruct Ea, Hx. lra.
  - destruct Hin as [->|Hin]; [congruence|]. eapply IH; eauto.
Qed.

Lemma find_row_spec tbl e r x : chain_ok e tbl = true -> In r tbl -> r_start r <= x -> x < r_end r ->
  find_row tbl x = r.
Proof.
  intros Hc Hin H1 H2. unfold find_row. rewrite (find_in_row tbl e r x Hc Hin); [reflexivity|].
  apply in_row_iff. split; assumption.
Qed.

Lemma find_row_compat tbl x x' : x == x' -> find_row tbl x = find_row tbl x'.
Proof.
  intro H. unfold find_row. replace (find (in_row x) tbl) with (find (in_row x') tbl); [reflexivity|].
  induction tbl as [|a t IH]; [reflexivity|]. cbn [find]. rewrite (in_row_compat x x' a H). rewrite IH. reflexivity.
Qed.

Definition table_start : Q := match table with r :: _ => r_start r | [] => 0 end.
Lemma table_chain : chain_ok table_start table = true.
Proof. vm_compute. reflexivity. Qed.

Lemma row_unique_lemma : forall r x, In r table -> r_start r <= x -> x < r_end r -> find_row table x = r.
Proof. intros. eapply find_row_spec; eauto using table_chain. Qed.

(* two rows of the table holding the same instant are the same row *)
Lemma row_unique_lemma2 : forall r r' x, In r table -> In r' table ->
  in_row x r = true -> in_row x r' = true -> r = r'.
Proof.
  intros r r' x H H' Hx Hx'. apply in_row_iff in Hx. apply in_row_iff in Hx'.
  rewrite <- (row_unique_lemma r x H) by tauto. apply row_unique_lemma; tauto.
Qed.

(* ================================================================== defining relation utc -> tai, against the published history *)
Definition next_start (pub : list entry) (k : nat) : Q :=
  match nth_error pub (S k) with Some e' => e_start e' | None => far_future end.

Lemma e_value_affine e x : e_value e x == e_value e mjd0 + (x - mjd0) * (inject_Z (e_rate7 e) / inject_Z 10000000).
Proof. unfold e_value, mjd0. field. Qed.

Lemma delta_s_affine r y : delta_s r y == delta_s r 0 + y * r_fac r.
Proof. unfold delta_s. ring. Qed.

Lemma match_published_nth tbl : forall pub k e, match_published tbl pub = true -> nth_error pub k = Some e ->
  exists r, In r tbl /\ r_start r == e_start e /\ r_end r == next_start pub k /\
            forall x, delta_s r (x - mjd0) == e_value e x.
Proof.
  induction tbl as [|r t IH]; intros pub k e Hm Hk.
  - destruct pub; [destruct k; discriminate|discriminate].
  - destruct pub as [|e0 pt]; [discriminate|].
    cbn [match_published] in Hm.
    repeat (apply andb_true_iff in Hm; destruct Hm as [Hm ?]).
    destruct k as [|k].
    + injection Hk as <-. exists r. split; [left; reflexivity|].
      split; [apply Qeq_bool_iff; assumption|].
      split.
      * unfold next_start. cbn [nth_error]. destruct pt; apply Qeq_bool_iff; assumption.
      * intro x. rewrite delta_s_affine, e_value_affine.
        apply Qeq_bool_iff in H1. apply Qeq_bool_iff in H0. rewrite H1, H0. reflexivity.
    + cbn [nth_error] in Hk. destruct (IH pt k e H Hk) as [r' [Hin [H1' [H2' H3']]]].
      exists r'. split; [right; assumption|]. split; [assumption|]. split; [|assumption].
      unfold next_start in *. cbn [nth_error]. assumption.
Qed.

Lemma utc_tai_defining_lemma : forall k e x, nth_error published k = Some e ->
  e_start e <= x -> x < next_start published k ->
  utc2tai x == x + e_value e x / day_s.
Proof.
  intros k e x Hk H1 H2.
  destruct (match_published_nth table published k e table_matches_published Hk) as [r [Hin [Hs [He Hv]]]].
  unfold utc2tai, utc2tai_t, utc2tai_delta.
  rewrite (row_unique_lemma r x Hin); [| rewrite Hs; assumption | rewrite He; assumption].
  unfold delta_d. rewrite Hv. reflexivity.
Qed.

(* ================================================================== constant / affine hops *)
Lemma LG_ne : ~ 1 - L_G == 0.
Proof. intro H. vm_compute in H. discriminate. Qed.

Lemma gps_tai_lemma x : gps2tai x - x == tai_minus_gps_s / day_s /\ x - tai2gps x == tai_minus_gps_s / day_s.
Proof. unfold gps2tai, tai2gps, c_gps, tai_minus_gps_s, day_s, day. split; field. Qed.

Lemma tt_tai_lemma x : tai2tt x - x == tt_minus_tai_s / day_s /\ x - tt2tai x == tt_minus_tai_s / day_s.
Proof. unfold tai2tt, tt2tai, c_tt, tt_minus_tai_s, day_s, day. split; field. Qed.

(* TCG - TT = L_G/(1-L_G) (TT - T0), stated on the TT date in both directions *)
Lemma tcg_tt_lemma x : tt2tcg x - x == L_G / (1 - L_G) * (x - T0) /\
                       tcg2tt x - x == - (L_G / (1 - L_G) * (tcg2tt x - T0)).
Proof.
  unfold tt2tcg, tcg2tt, tt2tcg_L, tcg2tt_L. split; field; exact LG_ne.
Qed.

Lemma hop_inverse_lemma x :
  gps2tai (tai2gps x) == x /\ tai2gps (gps2tai x) == x /\
  tai2tt (tt2tai x) == x /\ tt2tai (tai2tt x) == x /\
  tt2tcg (tcg2tt x) == x /\ tcg2tt (tt2tcg x) == x.
Proof.
  unfold gps2tai, tai2gps, tai2tt, tt2tai, tt2tcg, tcg2tt, tt2tcg_L, tcg2tt_L.
  repeat split; try ring; field; exact LG_ne.
Qed.

(* ================================================================== round trip utc -> tai -> utc: generic lemma *)
Definition bq (r : row) : Q := r_fac r / day.

Lemma delta_d_affine r x y : delta_d r y - delta_d r x == bq r * (y - x).
Proof. unfold bq, delta_d, delta_s, day. field. Qed.

Lemma bq_nonneg r : 0 <= r_fac r -> 0 <= bq r.
Proof. intro H. unfold bq, day. apply Qle_shift_div_l; lra. Qed.

Lemma mul_le_l b x y : 0 <= b -> x <= y -> b * x <= b * y.
Proof. intros. rewrite !(Qmult_comm b). apply Qmult_le_compat_r; assumption. Qed.

Lemma delta_d_mono r x y : 0 <= r_fac r -> x <= y -> delta_d r x <= delta_d r y.
Proof.
  intros Hf Hxy. pose proof (delta_d_affine r x y) as A. pose proof (bq_nonneg r Hf) as B.
  assert (0 <= bq r * (y - x)) by (apply Qmult_le_0_compat; lra). lra.
Qed.

Lemma Qmax_ge_l a b : a <= Qmax a b. Proof. unfold Qmax. destruct (Qle_bool a b) eqn:E; [apply Qle_bool_iff in E; lra|lra]. Qed.
Lemma Qmax_ge_r a b : b <= Qmax a b.
Proof. unfold Qmax. destruct (Qle_bool a b) eqn:E; [lra|]. assert (~ a <= b) by (intro K; apply Qle_bool_iff in K; congruence). lra. Qed.
Lemma Qmin_le_l a b : Qmin a b <= a.
Proof. unfold Qmin. destruct (Qle_bool a b) eqn:E; [lra|]. assert (~ a <= b) by (intro K; apply Qle_bool_iff in K; congruence). lra. Qed.
Lemma Qmin_le_r a b : Qmin a b <= b. Proof. unfold Qmin. destruct (Qle_bool a b) eqn:E; [apply Qle_bool_iff in E; lra|lra]. Qed.

(* an affine function on an interval lies between its end values *)
Lemma jump_affine r n x y : jump r n y - jump r n x == (bq n - bq r) * (y - x).
Proof. unfold jump. pose proof (delta_d_affine r x y). pose proof (delta_d_affine n x y). lra. Qed.

Lemma jump_bounds r n lo hi x : lo <= x -> x <= hi ->
  Qmin (jump r n lo) (jump r n hi) <= jump r n x /\ jump r n x <= Qmax (jump r n lo) (jump r n hi).
Proof.
  intros H1 H2.
  pose proof (jump_affine r n lo x) as A1. pose proof (jump_affine r n x hi) as A2.
  pose proof (Qmin_le_l (jump r n lo) (jump r n hi)). pose proof (Qmin_le_r (jump r n lo) (jump r n hi)).
  pose proof (Qmax_ge_l (jump r n lo) (jump r n hi)). pose proof (Qmax_ge_r (jump r n lo) (jump r n hi)).
  destruct (Qlt_le_dec (bq n - bq r) 0) as [C|C].
  - assert ((bq n - bq r) * (x - lo) <= 0).
    { setoid_replace ((bq n - bq r) * (x - lo)) with (- ((bq r - bq n) * (x - lo))) by ring.
      assert (0 <= (bq r - bq n) * (x - lo)) by (apply Qmult_le_0_compat; lra). lra. }
    assert ((bq n - bq r) * (hi - x) <= 0).
    { setoid_replace ((bq n - bq r) * (hi - x)) with (- ((bq r - bq n) * (hi - x))) by ring.
      assert (0 <= (bq r - bq n) * (hi - x)) by (apply Qmult_le_0_compat; lra). lra. }
    split; lra.
  - assert (0 <= (bq n - bq r) * (x - lo)) by (apply Qmult_le_0_compat; lra).
    assert (0 <= (bq n - bq r) * (hi - x)) by (apply Qmult_le_0_compat; lra).
    split; lra.
Qed.


Lemma row_self_ok_facts r : row_self_ok r = true ->
  0 <= r_fac r /\ r_fac r <= day /\ 0 <= delta_d r (r_start r) /\ r_start r < r_end r /\
  bq r * dmax r <= guard r /\ bq r * (bq r * dmax r) <= eps_rt.
Proof.
  unfold row_self_ok. fold (bq r). intro H.
  repeat (apply andb_true_iff in H; let K := fresh "K" in destruct H as [H K]).
  rewrite ?Qle_b_true, ?Qlt_b_true in *. tauto.
Qed.

Lemma row_rt_ok_facts r n : row_rt_ok r n = true ->
  row_self_ok r = true /\ 0 <= r_fac n /\ r_end r == r_start n /\
  r_end r + dmax r < r_end n /\
  jump_hi r n + bq r * dmax r + dmax r <= r_end r - r_start r /\
  bq r * (jump_hi r n + bq r * dmax r) <= eps_rt /\
  bq r * (- jump_lo r n) <= eps_rt /\
  (is_const r = false \/ (is_const n = true /\ 0 <= jump_lo r n)).
Proof.
  unfold row_rt_ok. fold (bq r). intro H.
  do 8 (apply andb_true_iff in H; let K := fresh "K" in destruct H as [H K]).
  rewrite ?Qle_b_true, ?Qlt_b_true in *.
  repeat (split; [first [assumption | lra]|]).
  destruct (is_const r); [right|left; reflexivity].
  cbn in K. apply andb_true_iff in K. destruct K as [KA KB]. apply Qle_b_true in KB. tauto.
Qed.

Lemma is_const_b r : is_const r = true -> bq r == 0.
Proof. unfold is_const, bq. intro H. apply Qeq_bool_iff in H. rewrite H. unfold day. field. Qed.

Lemma guard_nonneg r : 0 <= guard r.
Proof. unfold guard. destruct (is_const r); [lra|]. unfold us. apply Qle_shift_div_l; lra. Qed.

Lemma eps_rt_pos : 0 <= eps_rt.
Proof. vm_compute. discriminate. Qed.

Lemma eps_lt_us : eps_rt < us.
Proof. vm_compute. reflexivity. Qed.

Definition rt (tbl : list row) (u : Q) : Q := tai2utc_t tbl (utc2tai_t tbl u).

Section RoundTrip.
  Variable tbl : list row.
  Variable e0 : Q.
  Hypothesis Hchain : chain_ok e0 tbl = true.
  Variable r : row.
  Hypothesis Hr : In r tbl.

  (* the TAI label of u is still inside row r *)
  Lemma rt_caseA u : row_self_ok r = true ->
    r_start r + guard r <= u -> u + delta_d r u < r_end r ->
    0 <= rt tbl u - u /\ rt tbl u - u <= eps_rt /\ (is_const r = true -> rt tbl u == u).
  Proof.
    intros Hok D1 CA.
    destruct (row_self_ok_facts r Hok) as (F1 & F1' & F3 & F4 & F7 & F9).
    pose proof (guard_nonneg r) as G0. pose proof (bq_nonneg r F1) as B0.
    assert (Hu1 : r_start r <= u) by lra.
    assert (Hd0 : 0 <= delta_d r u) by (pose proof (delta_d_mono r (r_start r) u F1 Hu1); lra).
    assert (Hu2 : u < r_end r) by lra.
    assert (Hfu : find_row tbl u = r) by (eapply find_row_spec; eauto).
    unfold rt, utc2tai_t, utc2tai_delta. rewrite Hfu.
    set (d := delta_d r u) in *.
    assert (Hd1 : d <= dmax r) by (unfold d, dmax; apply delta_d_mono; lra).
    assert (Hbd : bq r * d <= bq r * dmax r) by (apply mul_le_l; assumption).
    assert (Hbd0 : 0 <= bq r * d) by (apply Qmult_le_0_compat; assumption).
    unfold tai2utc_t, tai2utc_delta.
    assert (Hf1 : find_row tbl (u + d) = r) by (eapply find_row_spec; eauto; lra).
    rewrite Hf1.
    pose proof (delta_d_affine r u (u + d)) as A1. fold d in A1.
    set (tmp := u + d - delta_d r (u + d)).
    assert (Htmp : u - tmp == bq r * d) by (unfold tmp; lra).
    assert (Hf2 : find_row tbl tmp = r) by (eapply find_row_spec; eauto; lra).
    rewrite Hf2.
    pose proof (delta_d_affine r tmp u) as A2. fold d in A2.
    assert (Hres : u + d + - delta_d r tmp - u == bq r * (bq r * d)).
    { rewrite <- Htmp. lra. }
    assert (Hbb : bq r * (bq r * d) <= bq r * (bq r * dmax r)) by (apply mul_le_l; assumption).
    assert (Hbb0 : 0 <= bq r * (bq r * d)) by (apply Qmult_le_0_compat; assumption).
    split; [lra|split; [lra|]].
    intro Hc. pose proof (is_const_b r Hc) as Hb. rewrite Hb in Hres. lra.
  Qed.

  Variable n : row.
  Hypothesis Hn : In n tbl.
  Hypothesis Hok : row_rt_ok r n = true.

  Lemma rt_generic u : rt_dom r n u ->
    Qabs (rt tbl u - u) <= eps_rt /\ (is_const r = true -> rt tbl u == u).
  Proof.
    intros [D1 D2].
    destruct (row_rt_ok_facts r n Hok) as (Hself & F2 & F5 & F6 & F8 & F10 & F11 & F12).
    destruct (row_self_ok_facts r Hself) as (F1 & F1' & F3 & F4 & F7 & F9).
    pose proof (guard_nonneg r) as G0. pose proof (bq_nonneg r F1) as B0.
    pose proof eps_rt_pos as E0.
    assert (Sk : 0 <= skip r n /\ - jump_lo r n <= skip r n).
    { unfold skip, jump_lo. split; [apply Qmax_ge_l|apply Qmax_ge_r]. }
    destruct Sk as [Sk0 Sk1].
    assert (Hu1 : r_start r <= u) by lra. assert (Hu2 : u < r_end r) by lra.
    destruct (Qlt_le_dec (u + delta_d r u) (r_end r)) as [CA|CB].
    - destruct (rt_caseA u Hself D1 CA) as (R1 & R2 & R3).
      split; [|assumption]. apply Qabs_Qle_condition. split; lra.
    - assert (Hfu : find_row tbl u = r) by (eapply find_row_spec; eauto).
      unfold rt, utc2tai_t, utc2tai_delta. rewrite Hfu.
      set (d := delta_d r u) in *.
      assert (Hd0 : 0 <= d) by (pose proof (delta_d_mono r (r_start r) u F1 Hu1); unfold d; lra).
      assert (Hd1 : d <= dmax r) by (unfold d, dmax; apply delta_d_mono; lra).
      assert (Hbd : bq r * d <= bq r * dmax r) by (apply mul_le_l; assumption).
      assert (Hbd0 : 0 <= bq r * d) by (apply Qmult_le_0_compat; assumption).
      unfold tai2utc_t, tai2utc_delta.
      assert (Hf1 : find_row tbl (u + d) = n) by (eapply find_row_spec; eauto; lra).
      rewrite Hf1.
      pose proof (delta_d_affine r u (u + d)) as A1. fold d in A1.
      set (tmp := u + d - delta_d n (u + d)).
      assert (HJ : u - tmp == jump r n (u + d) + bq r * d).
      { unfold tmp, jump. lra. }
      destruct (jump_bounds r n (r_end r) (r_end r + dmax r) (u + d)) as [J1 J2]; [lra|lra|].
      fold (jump_lo r n) in J1. fold (jump_hi r n) in J2.
      assert (Hf2 : find_row tbl tmp = r) by (eapply find_row_spec; eauto; lra).
      rewrite Hf2.
      pose proof (delta_d_affine r tmp u) as A2. fold d in A2.
      assert (Hres : u + d + - delta_d r tmp - u == bq r * (u - tmp)) by lra.
      assert (Hlo : bq r * jump_lo r n <= bq r * (u - tmp)) by (apply mul_le_l; lra).
      assert (Hhi : bq r * (u - tmp) <= bq r * (jump_hi r n + bq r * dmax r)) by (apply mul_le_l; lra).
      assert (Hneg : bq r * (- jump_lo r n) == - (bq r * jump_lo r n)) by ring.
      split.
      + rewrite Hres. apply Qabs_Qle_condition. split; lra.
      + intro Hc. pose proof (is_const_b r Hc) as Hb. rewrite Hb in Hres. lra.
  Qed.

  (* the result of the round trip is again in row r, so that converting it forward again gives the TAI date back *)
  Lemma rt_tai u : rt_dom r n u ->
    Qabs (utc2tai_t tbl (rt tbl u) - utc2tai_t tbl u) <= 2 * eps_rt /\
    (is_const r = true -> utc2tai_t tbl (rt tbl u) == utc2tai_t tbl u).
  Proof.
    intros D. pose proof D as [D1 D2].
    destruct (rt_generic u D) as [R1 R2].
    destruct (row_rt_ok_facts r n Hok) as (Hself & F2 & F5 & F6 & F8 & F10 & F11 & F12).
    destruct (row_self_ok_facts r Hself) as (F1 & F1' & F3 & F4 & F7 & F9).
    pose proof (guard_nonneg r) as G0. pose proof (bq_nonneg r F1) as B0.
    pose proof eps_rt_pos as E0. pose proof eps_lt_us as E1.
    assert (Sk0 : 0 <= skip r n) by (unfold skip; apply Qmax_ge_l).
    apply Qabs_Qle_condition in R1. destruct R1 as [R1a R1b].
    assert (Hin : r_start r <= rt tbl u /\ rt tbl u < r_end r).
    { destruct (is_const r) eqn:Ec.
      - specialize (R2 eq_refl). rewrite R2. lra.
      - unfold guard in *. rewrite Ec in *. lra. }
    assert (Hfu : find_row tbl u = r) by (eapply find_row_spec; eauto; lra).
    assert (Hfr : find_row tbl (rt tbl u) = r) by (eapply find_row_spec; eauto; tauto).
    unfold utc2tai_t, utc2tai_delta. rewrite Hfu, Hfr.
    pose proof (delta_d_affine r u (rt tbl u)) as A.
    assert (Hb1 : bq r <= 1). { unfold bq, day in *. apply Qle_shift_div_r; lra. }
    assert (Hx : rt tbl u + delta_d r (rt tbl u) - (u + delta_d r u) == (rt tbl u - u) + bq r * (rt tbl u - u)) by lra.
    assert (P1 : bq r * (rt tbl u - u) <= bq r * eps_rt) by (apply mul_le_l; lra).
    assert (P2 : bq r * (- eps_rt) <= bq r * (rt tbl u - u)) by (apply mul_le_l; lra).
    assert (P3 : bq r * eps_rt <= 1 * eps_rt) by (apply Qmult_le_compat_r; lra).
    assert (P4 : bq r * (- eps_rt) == - (bq r * eps_rt)) by ring.
    split.
    - rewrite Hx. apply Qabs_Qle_condition. split; lra.
    - intro Hc. specialize (R2 Hc). pose proof (is_const_b r Hc) as Hb. rewrite Hb in Hx. lra.
  Qed.
End RoundTrip.

Lemma pairs_ok_adjacent tbl : forall r n, pairs_ok tbl = true -> adjacent tbl r n -> row_rt_ok r n = true.
Proof.
  intros r n H [l1 [l2 ->]]. induction l1 as [|a l1 IH].
  - cbn in H. apply andb_true_iff in H. tauto.
  - apply IH. destruct l1 as [|b l1]; cbn [app pairs_ok] in H |- *; apply andb_true_iff in H; tauto.
Qed.

Lemma adjacent_in tbl r n : adjacent tbl r n -> In r tbl /\ In n tbl.
Proof. intros [l1 [l2 ->]]. split; apply in_or_app; right; cbn; tauto. Qed.

Lemma table_pairs_ok : pairs_ok table = true. Proof. vm_compute. reflexivity. Qed.
Lemma table_last_ok : row_self_ok (last_row table) = true /\ In (last_row table) table /\ is_const (last_row table) = true.
Proof. split; [vm_compute; reflexivity|]. split; [|vm_compute; reflexivity]. unfold last_row. vm_compute. tauto. Qed.

(* ================================================================== round trips on the regenerated table *)
Lemma skip_const r n : 0 <= jump_lo r n -> skip r n == 0.
Proof.
  intro H. unfold skip. fold (jump_lo r n). unfold Qmax.
  destruct (Qle_bool 0 (- jump_lo r n)) eqn:E; [|reflexivity]. apply Qle_bool_iff in E. lra.
Qed.

Lemma utc_tai_utc_lemma : forall r n u, adjacent table r n -> rt_dom r n u ->
  Qabs (tai2utc (utc2tai u) - u) <= eps_rt.
Proof.
  intros r n u Ha D. destruct (adjacent_in _ _ _ Ha) as [Hr Hn].
  exact (proj1 (rt_generic table table_start table_chain r Hr n Hn (pairs_ok_adjacent _ _ _ table_pairs_ok Ha) u D)).
Qed.

Lemma utc_tai_utc_leap_lemma : forall r n u, adjacent table r n -> is_const r = true ->
  r_start r <= u -> u < r_end r -> tai2utc (utc2tai u) == u.
Proof.
  intros r n u Ha Hc H1 H2. destruct (adjacent_in _ _ _ Ha) as [Hr Hn].
  pose proof (pairs_ok_adjacent _ _ _ table_pairs_ok Ha) as Hok.
  refine (proj2 (rt_generic table table_start table_chain r Hr n Hn Hok u _) Hc).
  destruct (row_rt_ok_facts r n Hok) as (_ & _ & _ & _ & _ & _ & _ & F12).
  destruct F12 as [F|[_ F]]; [congruence|].
  pose proof (skip_const r n F) as Hs. unfold rt_dom, guard. rewrite Hc. lra.
Qed.

Lemma utc_tai_utc_last_lemma : forall u, r_start (last_row table) <= u -> u + 1 < r_end (last_row table) ->
  tai2utc (utc2tai u) == u.
Proof.
  intros u H1 H2. destruct table_last_ok as (Hok & Hin & Hc).
  assert (Hd : dmax (last_row table) < 1) by (vm_compute; reflexivity).
  destruct (row_self_ok_facts _ Hok) as (F1 & _).
  assert (Hm : delta_d (last_row table) u <= dmax (last_row table)) by (unfold dmax; apply delta_d_mono; lra).
  refine (proj2 (proj2 (rt_caseA table table_start table_chain _ Hin u Hok _ _)) Hc).
  - unfold guard. rewrite Hc. lra.
  - lra.
Qed.

Lemma tai_utc_tai_lemma : forall r n u, adjacent table r n -> rt_dom r n u ->
  Qabs (utc2tai (tai2utc (utc2tai u)) - utc2tai u) <= 2 * eps_rt.
Proof.
  intros r n u Ha D. destruct (adjacent_in _ _ _ Ha) as [Hr Hn].
  exact (proj1 (rt_tai table table_start table_chain r Hr n Hn (pairs_ok_adjacent _ _ _ table_pairs_ok Ha) u D)).
Qed.

(* the domain is not empty and the excluded labels are exactly the two downward steps (values in seconds) *)
Lemma skips_computed :
  map (fun p => Qred (skip (fst p) (snd p) * day)) (combine table (tl table)) =
  [1 # 20; 922929 # 250000000000000; 0; 0; 0; 0; 0; 0; 0; 0; 0; 1 # 10; 0; 0; 0; 0; 0; 0; 0; 0;
   0; 0; 0; 0; 0; 0; 0; 0; 0; 0; 0; 0; 0; 0; 0; 0; 0; 0; 0; 0].
Proof. vm_compute. reflexivity. Qed.

(* witness: exactly at a stepped drift boundary (1963-11-01 0h UTC) the two-step inverse is off by the step *)
Lemma drift_boundary_witness :
  let u := (4876669 # 2) in
  in_row u (nth 3 table dummy_row) = true /\ ~ Qabs (tai2utc (utc2tai u) - u) <= 1000000 * eps_rt.
Proof. split; [vm_compute; reflexivity|]. intro H. vm_compute in H. apply H. reflexivity. Qed.

(* ================================================================== morphisms *)
Lemma delta_d_compat r x x' : x == x' -> delta_d r x == delta_d r x'.
Proof. intro H. unfold delta_d, delta_s. rewrite H. reflexivity. Qed.

Lemma utc2tai_compat x x' : x == x' -> utc2tai x == utc2tai x'.
Proof.
  intro H. unfold utc2tai, utc2tai_t, utc2tai_delta.
  rewrite (find_row_compat table x x' H), (delta_d_compat _ x x' H), H. reflexivity.
Qed.

Lemma tai2utc_compat x x' : x == x' -> tai2utc x == tai2utc x'.
Proof.
  intro H. unfold tai2utc, tai2utc_t, tai2utc_delta.
  rewrite (find_row_compat table x x' H).
  set (r1 := find_row table x').
  assert (Ht : x - delta_d r1 x == x' - delta_d r1 x') by (rewrite (delta_d_compat r1 x x' H), H; reflexivity).
  rewrite (find_row_compat table _ _ Ht), (delta_d_compat _ _ _ Ht), H. reflexivity.
Qed.

(* ================================================================== routes *)
Open Scope string_scope.
Definition conv_tree (a b : string) : option (Q -> Q) :=
  match a, b with
  | "utc", "utc" => Some (fun x => x)
  | "utc", "tai" => Some utc2tai
  | "utc", "gps" => Some (fun x => tai2gps (utc2tai x))
  | "utc", "tt" => Some (fun x => tai2tt (utc2tai x))
  | "utc", "tcg" => Some (fun x => tt2tcg (tai2tt (utc2tai x)))
  | "tai", "utc" => Some tai2utc
  | "tai", "tai" => Some (fun x => x)
  | "tai", "gps" => Some tai2gps
  | "tai", "tt" => Some tai2tt
  | "tai", "tcg" => Some (fun x => tt2tcg (tai2tt x))
  | "gps", "utc" => Some (fun x => tai2utc (gps2tai x))
  | "gps", "tai" => Some gps2tai
  | "gps", "gps" => Some (fun x => x)
  | "gps", "tt" => Some (fun x => tai2tt (gps2tai x))
  | "gps", "tcg" => Some (fun x => tt2tcg (tai2tt (gps2tai x)))
  | "tt", "utc" => Some (fun x => tai2utc (tt2tai x))
  | "tt", "tai" => Some tt2tai
  | "tt", "gps" => Some (fun x => tai2gps (tt2tai x))
  | "tt", "tt" => Some (fun x => x)
  | "tt", "tcg" => Some tt2tcg
  | "tcg", "utc" => Some (fun x => tai2utc (tt2tai (tcg2tt x)))
  | "tcg", "tai" => Some (fun x => tt2tai (tcg2tt x))
  | "tcg", "gps" => Some (fun x => tai2gps (tt2tai (tcg2tt x)))
  | "tcg", "tt" => Some tcg2tt
  | "tcg", "tcg" => Some (fun x => x)
  | _, _ => None
  end.

Lemma routes_total_lemma :
  forallb (fun a => forallb (fun b => (a =? b) || match find_hops a b with
                                      | Some hs => forallb (fun h => match hop_fn h with Some _ => true | None => false end) hs
                                      | None => false end) scales) scales = true.
Proof. vm_compute. reflexivity. Qed.

Ltac in_scales H :=
  unfold scales in H; cbn [In] in H;
  repeat (destruct H as [<-|H]; [|]); [..|destruct H].

Lemma route_lemma : forall a b x, In a scales -> In b scales ->
  to_scale a b x = option_map (fun f => f x) (conv_tree a b) /\ conv_tree a b <> None.
Proof.
  intros a b x Ha Hb. in_scales Ha; in_scales Hb; (split; [reflexivity|discriminate]).
Qed.

(* ================================================================== path independence *)
Definition exact_triple (a b c : string) : bool :=
  if b =? "utc" then (a =? "utc") || (c =? "utc") else negb ((a =? "utc") && (c =? "utc")).

Ltac hops_cbv H := cbv -[utc2tai tai2utc tai2tt tt2tai tt2tcg tcg2tt gps2tai tai2gps] in H.
Ltac hop_arith :=
  unfold gps2tai, tai2gps, tai2tt, tt2tai, tt2tcg, tcg2tt, tt2tcg_L, tcg2tt_L;
  first [ reflexivity | ring | (field; exact LG_ne) ].
Ltac finish_exact :=
  first [ reflexivity
        | (apply tai2utc_compat; hop_arith)
        | hop_arith ].

Lemma path_exact_lemma : forall a b c x y z w, In a scales -> In b scales -> In c scales ->
  exact_triple a b c = true ->
  to_scale a b x = Some y -> to_scale b c y = Some z -> to_scale a c x = Some w -> z == w.
Proof.
  intros a b c x y z w Ha Hb Hc He H1 H2 H3.
  in_scales Ha; in_scales Hb; in_scales Hc; cbv in He; try discriminate He;
    hops_cbv H1; injection H1 as <-; hops_cbv H2; injection H2 as <-; hops_cbv H3; injection H3 as <-;
    finish_exact.
Qed.

(* utc -> b -> utc for every scale b *)
Lemma utc_via_any_lemma : forall b r n u y z, In b scales -> adjacent table r n -> rt_dom r n u ->
  to_scale "utc" b u = Some y -> to_scale b "utc" y = Some z -> Qabs (z - u) <= eps_rt.
Proof.
  intros b r n u y z Hb Ha D H1 H2.
  pose proof (utc_tai_utc_lemma r n u Ha D) as R.
  in_scales Hb; hops_cbv H1; injection H1 as <-; hops_cbv H2; injection H2 as <-.
  - setoid_replace (u - u) with 0 by ring. apply eps_rt_pos.
  - exact R.
  - assert (E : tai2utc (gps2tai (tai2gps (utc2tai u))) == tai2utc (utc2tai u)) by (apply tai2utc_compat; hop_arith).
    rewrite E. exact R.
  - assert (E : tai2utc (tt2tai (tai2tt (utc2tai u))) == tai2utc (utc2tai u)) by (apply tai2utc_compat; hop_arith).
    rewrite E. exact R.
  - assert (E : tai2utc (tt2tai (tcg2tt (tt2tcg (tai2tt (utc2tai u))))) == tai2utc (utc2tai u)) by (apply tai2utc_compat; hop_arith).
    rewrite E. exact R.
Qed.

(* a -> b -> a for scales other than utc: exact (instance of path_exact_lemma, stated for convenience) *)
Lemma roundtrip_non_utc_lemma : forall a b x y z, In a scales -> In b scales ->
  a <> "utc" -> b <> "utc" ->
  to_scale a b x = Some y -> to_scale b a y = Some z -> z == x.
Proof.
  intros a b x y z Ha Hb Na Nb H1 H2.
  assert (H3 : to_scale a a x = Some x) by (unfold to_scale; rewrite String.eqb_refl; reflexivity).
  apply (path_exact_lemma a b a x y z x Ha Hb Ha); try assumption.
  unfold exact_triple. destruct (b =? "utc") eqn:E; [apply String.eqb_eq in E; congruence|].
  destruct (a =? "utc") eqn:E2; [apply String.eqb_eq in E2; congruence|]. reflexivity.
Qed.

(* element i of an array conversion depends on element i only: the index/zip formulation of delta_tai_utc
   is the map of the scalar conversion *)
Lemma argmax_row_find tbl x : nth (argmax_row tbl x) tbl dummy_row = find_row tbl x.
Proof.
  unfold argmax_row, find_row.
  assert (G : forall l i, (forall j, (j < i)%nat -> True) ->
              match find (in_row x) l with
              | Some r => existsb (in_row x) l = true /\ forall pre, List.length pre = i -> nth (index_of x l i) (pre ++ l) dummy_row = r
              | None => existsb (in_row x) l = false
              end).
  { induction l as [|a t IH]; intros i _; cbn [find existsb index_of]; [reflexivity|].
    destruct (in_row x a) eqn:E.
    - split; [reflexivity|]. intros pre <-. rewrite app_nth2 by lia. rewrite Nat.sub_diag. reflexivity.
    - specialize (IH (S i) (fun _ _ => I)). destruct (find (in_row x) t).
      + destruct IH as [IH1 IH2]. split; [assumption|]. intros pre Hl.
        specialize (IH2 (pre ++ [a])%list). rewrite <- app_assoc in IH2. apply IH2.
        rewrite app_length. cbn. lia.
      + exact IH. }
  specialize (G tbl O (fun _ _ => I)). destruct (find (in_row x) tbl).
  - destruct G as [G1 G2]. rewrite G1. apply (G2 []). reflexivity.
  - rewrite G. destruct tbl; reflexivity.
Qed.

Lemma utc2tai_list_pointwise tbl xs : utc2tai_list tbl xs = map (utc2tai_t tbl) xs.
Proof.
  unfold utc2tai_list. induction xs as [|x t IH]; [reflexivity|].
  cbn [map combine fst snd]. rewrite IH. f_equal.
  unfold utc2tai_t, utc2tai_delta. rewrite argmax_row_find. reflexivity.
Qed.

(* ================================================================== the float quirk is refuted by a witness *)
Lemma float_quirk_witness :
  let j1 := (24577535 # 10) in let j2 := dyq (Dy 9007199252655991 (-53)) in   (* 2016-12-31 23:59:59.99998 UTC *)
  (F_utc2tai all_off j1 j2 - (j1 + j2)) * day == 36 /\
  (F_utc2tai q_float j1 j2 - (j1 + j2)) * day == 37.
Proof. split; vm_compute; reflexivity. Qed.

Lemma F_all_off_is_spec j1 j2 :
  F_utc2tai all_off j1 j2 = utc2tai (j1 + j2) /\ F_tai2utc all_off j1 j2 = tai2utc (j1 + j2).
Proof. split; reflexivity. Qed.

(* ================================================================== A -> utc -> C versus A -> C (UTC as the intermediate scale) *)
Require Import Coq.Classes.Morphisms Coq.Setoids.Setoid.
#[global] Instance utc2tai_proper : Proper (Qeq ==> Qeq) utc2tai. Proof. intros x y H. apply utc2tai_compat; assumption. Qed.
#[global] Instance tai2utc_proper : Proper (Qeq ==> Qeq) tai2utc. Proof. intros x y H. apply tai2utc_compat; assumption. Qed.
#[global] Instance tai2tt_proper : Proper (Qeq ==> Qeq) tai2tt. Proof. intros x y H. unfold tai2tt. rewrite H. reflexivity. Qed.
#[global] Instance tt2tai_proper : Proper (Qeq ==> Qeq) tt2tai. Proof. intros x y H. unfold tt2tai. rewrite H. reflexivity. Qed.
#[global] Instance gps2tai_proper : Proper (Qeq ==> Qeq) gps2tai. Proof. intros x y H. unfold gps2tai. rewrite H. reflexivity. Qed.
#[global] Instance tai2gps_proper : Proper (Qeq ==> Qeq) tai2gps. Proof. intros x y H. unfold tai2gps. rewrite H. reflexivity. Qed.
#[global] Instance tt2tcg_proper : Proper (Qeq ==> Qeq) tt2tcg. Proof. intros x y H. unfold tt2tcg, tt2tcg_L. rewrite H. reflexivity. Qed.
#[global] Instance tcg2tt_proper : Proper (Qeq ==> Qeq) tcg2tt. Proof. intros x y H. unfold tcg2tt, tcg2tt_L. rewrite H. reflexivity. Qed.

Definition eps_via : Q := 9 * ns.

Definition k_tcg : Q := 1 + L_G / (1 - L_G).
Lemma tcg_slope_small : k_tcg * (2 * eps_rt) <= eps_via /\ 0 <= k_tcg /\ 2 * eps_rt <= eps_via.
Proof. repeat split; vm_compute; discriminate. Qed.

Lemma abs_scale k d e : 0 <= k -> Qabs d <= e -> Qabs (k * d) <= k * e.
Proof. intros Hk H. rewrite Qabs_Qmult, (Qabs_pos _ Hk). apply mul_le_l; assumption. Qed.

Lemma via_utc_core p q :
  Qabs (p - q) <= 2 * eps_rt ->
  Qabs (p - q) <= eps_via /\ Qabs (tai2gps p - tai2gps q) <= eps_via /\ Qabs (tai2tt p - tai2tt q) <= eps_via /\
  Qabs (tt2tcg (tai2tt p) - tt2tcg (tai2tt q)) <= eps_via.
Proof.
  intro H. destruct tcg_slope_small as (S1 & S2 & S3).
  assert (H' : Qabs (p - q) <= eps_via) by (apply (Qle_trans _ (2 * eps_rt)); [exact H|exact S3]).
  split; [exact H'|]. split; [|split].
  - assert (E1 : tai2gps p - tai2gps q == p - q) by (unfold tai2gps; ring). rewrite E1. exact H'.
  - assert (E2 : tai2tt p - tai2tt q == p - q) by (unfold tai2tt; ring). rewrite E2. exact H'.
  - assert (E3 : tt2tcg (tai2tt p) - tt2tcg (tai2tt q) == k_tcg * (p - q)).
    { unfold k_tcg, tt2tcg, tt2tcg_L, tai2tt. field. exact LG_ne. }
    rewrite E3. apply (Qle_trans _ (k_tcg * (2 * eps_rt))); [apply abs_scale; [exact S2|exact H]|exact S1].
Qed.

Lemma via_utc_from_tai_lemma : forall c r n u y z w, In c scales ->
  adjacent table r n -> rt_dom r n u ->
  to_scale "tai" "utc" (utc2tai u) = Some y -> to_scale "utc" c y = Some z -> to_scale "tai" c (utc2tai u) = Some w ->
  Qabs (z - w) <= eps_via.
Proof.
  intros c r n u y z w Hc Hadj D H1 H2 H3.
  pose proof (tai_utc_tai_lemma r n u Hadj D) as T.
  destruct (via_utc_core _ _ T) as (V1 & V2 & V3 & V4).
  hops_cbv H1; injection H1 as <-.
  in_scales Hc; hops_cbv H2; injection H2 as <-; hops_cbv H3; injection H3 as <-;
    [ | exact V1 | exact V2 | exact V3 | exact V4 ].
  setoid_replace (tai2utc (utc2tai u) - tai2utc (utc2tai u)) with 0 by ring. vm_compute. discriminate.
Qed.
