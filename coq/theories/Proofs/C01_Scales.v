(* C01 - lemmas about Model/C01_Scales.v *)
From Coq Require Import ZArith QArith Qabs Qround Bool List String Lia Lqa Lra.
From Verif Require Import Lib.Dyadic Gen.C01_TaiUtc Gen.C01_Const Gen.C01_Graph Spec.C01_IersTaiUtc Model.C01_Scales.
Import ListNotations.
Open Scope Q_scope.

(* ================================================================== computed facts about the regenerated data *)

(* Gen table against the hand-typed history: same number of rows, row k starts at 0h of the k-th published
   date, ends where the next one starts (the last at 9999-12-31), and denotes the same affine function *)
Fixpoint match_published (tbl : list row) (pub : list entry) : bool :=
  match tbl, pub with
  | [], [] => true
  | r :: t, e :: pt =>
      Qeq_bool (r_start r) (e_start e) &&
      Qeq_bool (r_end r) (match pt with e' :: _ => e_start e' | [] => far_future end) &&
      Qeq_bool (r_fac r) (inject_Z (e_rate7 e) / inject_Z 10000000) &&
      Qeq_bool (delta_s r 0) (e_value e mjd0) &&
      match_published t pt
  | _, _ => false
  end.

Lemma table_matches_published : match_published table published = true.
Proof. vm_compute. reflexivity. Qed.

Lemma table_is_wf : table_wf table = true /\ List.length table = List.length published.
Proof. split; vm_compute; reflexivity. Qed.

Definition row_nearest (t : Q * Q * Q * Q * Q) (d : dy * dy * dy * dy * dy) : bool :=
  let '(a, b, c, e, f) := t in
  let '(a', b', c', e', f') := d in
  is_nearest_double a a' && is_nearest_double b b' && is_nearest_double c c' &&
  is_nearest_double e e' && is_nearest_double f f'.

Fixpoint all2 {A B} (p : A -> B -> bool) (l : list A) (m : list B) : bool :=
  match l, m with
  | [], [] => true
  | a :: l', b :: m' => p a b && all2 p l' m'
  | _, _ => false
  end.

Lemma loaded_is_text : all2 row_nearest taiutc_txt taiutc_loaded = true.
Proof. vm_compute. reflexivity. Qed.

Lemma constants_ok :
  L_G == L_G_iers2010 /\ T0 == T_0_iers2010 /\ T_0_txt == T_0_iers2010 /\
  c_gps * day_s == tai_minus_gps_s /\ c_tt * day_s == tt_minus_tai_s /\
  is_nearest_double L_G_txt L_G_loaded = true /\
  is_nearest_double T_0_jd1_txt T_0_jd1_loaded = true /\
  is_nearest_double T_0_jd2_txt T_0_jd2_loaded = true /\
  is_nearest_double (1 / day) seconds2day_loaded = true.
Proof. repeat split; vm_compute; reflexivity. Qed.
