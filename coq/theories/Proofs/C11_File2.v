(* Proofs/C11_File2.v - RINEX 2 records through the model: epoch line (two-digit year, satellite list + continuation),
   observation lines (label classification, blank lines), accumulation per satellite *)
From Coq Require Import Ascii String List Bool ZArith QArith Arith Lia.
From Verif Require Import Lib.Text Lib.Decimal Lib.Fixed Lib.Dyadic Model.C11_Rinex Model.C11_Check
     Spec.C11_RinexFormat Spec.C11_RinexFile Proofs.C11_Rinex Proofs.C11_File3 Proofs.C11_Hdr3 Proofs.C11_Hdr2.
Import ListNotations.
Local Open Scope nat_scope.
Local Open Scope string_scope.

(* ------------------------------------------------------------------------------------------ digits, years *)
Lemma ndig_lt10 f v : (v < 10)%Z -> ndig_aux f v = 1.
Proof. intros H. destruct f; cbn [ndig_aux]; [reflexivity|]. destruct (Z.ltb_spec v 10); [reflexivity|lia]. Qed.

Lemma ndig_aux_eq k : forall f v, k <= f -> (10 ^ Z.of_nat k <= v < 10 ^ Z.of_nat (S k))%Z -> ndig_aux f v = S k.
Proof.
  induction k as [|k IH]; intros f v Hf Hv.
  - apply ndig_lt10. change (10 ^ Z.of_nat 1)%Z with 10%Z in Hv. lia.
  - destruct f as [|f]; [lia|]. cbn [ndig_aux].
    assert (P : (10 ^ Z.of_nat (S k) = 10 * 10 ^ Z.of_nat k)%Z) by (rewrite Nat2Z.inj_succ, Z.pow_succ_r; lia).
    assert (P2 : (10 ^ Z.of_nat (S (S k)) = 10 * 10 ^ Z.of_nat (S k))%Z) by (rewrite (Nat2Z.inj_succ (S k)), Z.pow_succ_r; lia).
    assert (Pk : (0 < 10 ^ Z.of_nat k)%Z) by (apply Z.pow_pos_nonneg; lia).
    destruct (Z.ltb_spec v 10); [lia|]. f_equal. apply IH; [lia|]. split.
    + apply Z.div_le_lower_bound; lia.
    + apply Z.div_lt_upper_bound; lia.
Qed.

Lemma ndigits_eq k v : (10 ^ Z.of_nat k <= v < 10 ^ Z.of_nat (S k))%Z -> ndigits v = S k.
Proof.
  intros H. unfold ndigits. apply ndig_aux_eq; [|exact H].
  assert (Pk : (0 < 10 ^ Z.of_nat k)%Z) by (apply Z.pow_pos_nonneg; lia).
  assert (L : (Z.of_nat k <= Z.log2 v)%Z).
  { apply Z.log2_le_pow2; [lia|]. apply Z.le_trans with (10 ^ Z.of_nat k)%Z; [|lia]. apply Z.pow_le_mono_l. lia. }
  lia.
Qed.

Lemma digits_fixed_app a : forall b v, digits_fixed (a + b) v = digits_fixed a (v / 10 ^ Z.of_nat b) ++ digits_fixed b v.
Proof.
  induction b as [|b IH]; intros v.
  - rewrite Nat.add_0_r. change (10 ^ Z.of_nat 0)%Z with 1%Z. rewrite Z.div_1_r, Text.app_nil_r. reflexivity.
  - rewrite Nat.add_succ_r. cbn [digits_fixed]. rewrite IH, <- Text.app_assoc. f_equal. f_equal.
    rewrite Z.div_div by (try lia; apply Z.pow_pos_nonneg; lia). f_equal. rewrite Nat2Z.inj_succ, Z.pow_succ_r; lia.
Qed.

Lemma parse_int_two a b : (0 <= a < 100)%Z -> (0 <= b < 100)%Z ->
  parse_int (digits_fixed 2 a ++ digits_fixed 2 b) = Some (a * 100 + b)%Z.
Proof.
  intros Ha Hb. unfold parse_int.
  assert (N : nonspace (digits_fixed 2 a ++ digits_fixed 2 b) = true) by (rewrite nonspace_app, !nonspace_digits; reflexivity).
  assert (T : strip (digits_fixed 2 a ++ digits_fixed 2 b) = digits_fixed 2 a ++ digits_fixed 2 b).
  { apply strip_trimmed, trimmed_token. unfold is_token.
    destruct (digits_fixed 2 a ++ digits_fixed 2 b) eqn:E; [|exact N].
    apply (f_equal len) in E. rewrite len_app, !len_digits_fixed in E. simpl in E. lia. }
  rewrite T, sign_split_head_ok by (apply head_ok_app, head_ok_digits; lia).
  rewrite read_digits_fixed. rewrite <- (Text.app_nil_r (digits_fixed 2 b)), read_digits_fixed. cbn [read_digits].
  change (10 ^ Z.of_nat 2)%Z with 100%Z. rewrite !Z.mod_small by lia. cbn [plus]. f_equal.
Qed.

Lemma render_nat_4 y : (1000 <= y < 10000)%Z -> render_nat y = digits_fixed 2 (y / 100) ++ digits_fixed 2 y.
Proof.
  intros H. unfold render_nat. rewrite (ndigits_eq 3 y) by (change (10 ^ Z.of_nat 3)%Z with 1000%Z; change (10 ^ Z.of_nat 4)%Z with 10000%Z; lia).
  apply (digits_fixed_app 2 2).
Qed.

Lemma d2_digits v : (0 <= v < 100)%Z -> zfill 2 (render_nat v) = digits_fixed 2 v.
Proof.
  intros H. unfold render_nat. destruct (Z.ltb_spec v 10) as [A|A].
  - unfold ndigits. rewrite ndig_lt10 by exact A. unfold zfill, rjust_with. rewrite len_digits_fixed. cbn [Nat.sub rep].
    change (digits_fixed 2 v) with (digits_fixed (1 + 1) v). rewrite (digits_fixed_app 1 1). change (10 ^ Z.of_nat 1)%Z with 10%Z.
    rewrite Z.div_small by lia. reflexivity.
  - rewrite (ndigits_eq 1 v) by (change (10 ^ Z.of_nat 1)%Z with 10%Z; change (10 ^ Z.of_nat 2)%Z with 100%Z; lia).
    unfold zfill, rjust_with. rewrite len_digits_fixed. reflexivity.
Qed.

Lemma strip_lead w s : all_space w = true -> strip (w ++ s) = strip s.
Proof.
  intros W. destruct (strip_decomp s) as [a [b [Ha [Hb E]]]]. rewrite E at 1. rewrite <- Text.app_assoc.
  apply strip_pad; [unfold all_space in *; rewrite all_by_app, W, Ha; reflexivity|exact Hb|apply trimmed_strip].
Qed.

(* text of a two-digit field " " ++ I2 / I2.2 after strip *)
Lemma strip_int_field zero v : (0 <= v < 100)%Z ->
  strip (" " ++ int_field zero 2 v) = (if zero then digits_fixed 2 v else render_nat v).
Proof.
  intros H. rewrite strip_lead by reflexivity. destruct zero; unfold int_field.
  - apply strip_trimmed, trimmed_token. unfold is_token. pose proof (len_digits_fixed 2 v) as L.
    destruct (digits_fixed 2 v) eqn:E; [simpl in L; lia|]. rewrite <- E. apply nonspace_digits.
  - apply strip_render_int_nonneg. lia.
Qed.

Lemma zfill_year (zero : bool) v : (0 <= v < 100)%Z -> zfill 2 (if zero then digits_fixed 2 v else render_nat v) = digits_fixed 2 v.
Proof.
  intros H. destruct zero; [|apply d2_digits, H]. unfold zfill, rjust_with. rewrite len_digits_fixed. reflexivity.
Qed.

Lemma isnumeric_year (zero : bool) v : isnumeric (if zero then digits_fixed 2 v else render_nat v) = true.
Proof.
  destruct zero; [|apply isnumeric_render_nat]. unfold isnumeric, nonempty_all. pose proof (len_digits_fixed 2 v) as L.
  destruct (digits_fixed 2 v) eqn:E; [simpl in L; lia|]. rewrite <- E. apply digits_all_digit.
Qed.

(* ------------------------------------------------------------------------------------------ satellite identifiers *)
Lemma digit_facts c : 48 <= nat_of_ascii c <= 57 -> is_space c = false /\ is_alpha c = false /\ is_digit c = true.
Proof.
  intros H.
  assert (T : forallb (fun n => negb (Nat.leb 48 n && Nat.leb n 57) ||
                (negb (is_space (ascii_of_nat n)) && negb (is_alpha (ascii_of_nat n)) && is_digit (ascii_of_nat n))) (seq 0 256) = true)
    by (vm_compute; reflexivity).
  rewrite forallb_forall in T. specialize (T (nat_of_ascii c)). rewrite ascii_nat_embedding in T.
  assert (I : In (nat_of_ascii c) (seq 0 256)) by (apply in_seq; pose proof (nat_ascii_bounded c); lia).
  specialize (T I). destruct H as [H1 H2]. apply Nat.leb_le in H1, H2. rewrite H1, H2 in T. simpl in T.
  apply andb_prop in T. destruct T as [T12 T3]. apply andb_prop in T12. destruct T12 as [T1 T2].
  repeat split; [destruct (is_space c)|destruct (is_alpha c)|]; try discriminate; auto.
Qed.

Lemma two_digits_parse b c : 48 <= nat_of_ascii b <= 57 -> 48 <= nat_of_ascii c <= 57 ->
  exists z, parse_int (String b (String c "")) = Some z.
Proof.
  intros Hb Hc.
  assert (T : forallb (fun n => forallb (fun m => match parse_int (String (ascii_of_nat n) (String (ascii_of_nat m) "")) with Some _ => true | None => false end)
                                        (seq 48 10)) (seq 48 10) = true) by (vm_compute; reflexivity).
  rewrite forallb_forall in T. specialize (T (nat_of_ascii b) ltac:(apply in_seq; lia)).
  rewrite forallb_forall in T. specialize (T (nat_of_ascii c) ltac:(apply in_seq; lia)).
  rewrite !ascii_nat_embedding in T. destruct (parse_int (String b (String c ""))) as [z|]; [exists z; reflexivity|discriminate].
Qed.

Record id_facts (id : string) : Prop := {
  idf_shape : exists a b c, id = String a (String b (String c "")) /\ is_alpha a = true /\ is_space a = false /\
                            is_alpha b = false /\ is_alpha c = false /\ is_space c = false;
  idf_blank : blank_ws id = true;
  idf_satok : sat_ok id;
  idf_num : exists z, parse_int (drop 1 (fix3 id)) = Some z
}.

Lemma sat2_id_facts id : sat2_id_ok id -> id_facts id.
Proof.
  intros [a [b [c [E [Ha [Hb Hc]]]]]]. subst id. destruct (upper_facts a Ha) as [Sa Aa]. destruct (digit_facts c Hc) as [Sc [Ac Dc]].
  assert (Bb : is_alpha b = false /\ blank_or_nonspace b = true /\
               exists z, parse_int (String (if Ascii.eqb b " " then "0"%char else b) (String c "")) = Some z).
  { destruct Hb as [Hb|Hb].
    - subst b. repeat split; try reflexivity.
      change (if Ascii.eqb " " " " then "0"%char else " "%char) with "0"%char.
      apply two_digits_parse; [change (nat_of_ascii "0") with 48; lia|exact Hc].
    - destruct (digit_facts b Hb) as [Sb [Ab Db]]. repeat split; auto; [unfold blank_or_nonspace; rewrite Sb; reflexivity|].
      destruct (Ascii.eqb_spec b " ") as [E|E]; [subst b; change (nat_of_ascii " ") with 32 in Hb; lia|]. apply two_digits_parse; auto. }
  destruct Bb as [Ab [Bb Pb]]. constructor.
  - exists a, b, c. repeat split; auto.
  - unfold blank_ws. cbn [all_by]. rewrite Bb. unfold blank_or_nonspace. rewrite Sa, Sc. reflexivity.
  - exists a, b, c. split; auto.
  - cbn [fix3 fix_sat drop]. exact Pb.
Qed.

Lemma len_cat_ids ids : Forall sat2_id_ok ids -> len (cat ids) = 3 * List.length ids.
Proof.
  induction 1 as [|id r [a [b [c [E _]]]] Fr IH]; [reflexivity|]. subst id. cbn [cat List.length]. rewrite len_app, IH. simpl. lia.
Qed.

Lemma blank_ws_ids ids : Forall sat2_id_ok ids -> blank_ws (cat ids) = true.
Proof. induction 1 as [|id r Hid Fr IH]; [reflexivity|]. cbn [cat]. rewrite blank_ws_app, IH, (idf_blank _ (sat2_id_facts id Hid)). reflexivity. Qed.

Lemma sat_loop_spaces : forall fuel m acc, m < fuel -> sat_loop fuel (spaces m) acc = Some acc.
Proof.
  induction fuel as [|f IH]; intros m acc H; [lia|]. cbn [sat_loop]. destruct m as [|m]; [reflexivity|].
  change (spaces (S m)) with (String " " (spaces m)).
  assert (R : rstrip (take 3 (String " " (spaces m))) = "").
  { apply rstrip_by_all. apply all_by_take. apply (all_space_spaces (S m)). }
  rewrite R. cbn [String.eqb]. change (String " " (spaces m)) with (spaces (S m)). unfold spaces. rewrite drop_rep. apply IH. lia.
Qed.

Lemma sat_loop_ids_tail : forall ids fuel acc tail, Forall sat_ok ids -> List.length ids <= fuel ->
  sat_loop fuel (cat ids ++ tail) acc = sat_loop (fuel - List.length ids) tail (acc ++ map fix3 ids)%list.
Proof.
  induction ids as [|s r IH]; intros fuel acc tail F L.
  - cbn [cat List.length map]. rewrite Nat.sub_0_r, List.app_nil_r. reflexivity.
  - inversion F as [|? ? Fs Fr]; subst. destruct Fs as [a [b [c [E Hc]]]]. subst s.
    destruct fuel; [simpl in L; lia|]. cbn [cat sat_loop List.length Nat.sub].
    change ((String a (String b (String c "")) ++ cat r) ++ tail) with (String a (String b (String c (cat r ++ tail)))).
    cbn [take drop].
    assert (R : rstrip (String a (String b (String c ""))) = String a (String b (String c ""))).
    { apply rstrip_by_rtrimmed. simpl. rewrite Hc. reflexivity. }
    rewrite R. replace (String.eqb (String a (String b (String c ""))) "") with false by reflexivity.
    cbn [fix_sat]. rewrite IH; [|exact Fr|simpl in L; lia]. cbn [map]. rewrite <- List.app_assoc. reflexivity.
Qed.

Lemma sat_loop_line ids m acc : Forall sat2_id_ok ids ->
  sat_loop (S (len (cat ids ++ spaces m))) (cat ids ++ spaces m) acc = Some (acc ++ map fix3 ids)%list.
Proof.
  intros F. assert (Fo : Forall sat_ok ids) by (eapply Forall_impl; [|exact F]; intros id H; apply (idf_satok _ (sat2_id_facts id H))).
  rewrite len_app, (len_cat_ids ids F), len_spaces.
  rewrite sat_loop_ids_tail by (auto; lia). apply sat_loop_spaces. lia.
Qed.

(* ------------------------------------------------------------------------------------------ lines without trailing blanks *)
Definition ends_nonspace (s : string) : Prop := exists x c, s = x ++ String c "" /\ is_space c = false.

Lemma ends_nonspace_app a s : ends_nonspace s -> ends_nonspace (a ++ s).
Proof. intros [x [c [E H]]]. exists (a ++ x), c. split; [rewrite E, Text.app_assoc; reflexivity|exact H]. Qed.

Lemma rstrip_ends s : ends_nonspace s -> rstrip s = s.
Proof.
  intros [x [c [E H]]]. subst s. apply rstrip_by_rtrimmed. apply rtrimmed_app; [discriminate|]. simpl. rewrite H. reflexivity.
Qed.

Lemma ends_digits k v : ends_nonspace (digits_fixed (S k) v).
Proof. cbn [digits_fixed]. eexists _, _. split; [reflexivity|]. apply digit_char_nonspace, mod10_range. Qed.

Lemma ends_render_F w d m : ends_nonspace (render_F w (S d) m).
Proof.
  unfold render_F, rjust, rjust_with. apply ends_nonspace_app. unfold render_F_raw. do 2 apply ends_nonspace_app.
  unfold frac_str. change (String "." (digits_fixed (S d) (Z.abs m))) with ("." ++ digits_fixed (S d) (Z.abs m)).
  apply ends_nonspace_app, ends_digits.
Qed.

Lemma ends_ids ids : ids <> [] -> Forall sat2_id_ok ids -> ends_nonspace (cat ids).
Proof.
  intros Ne F. induction F as [|id r Hid Fr IH]; [contradiction|]. cbn [cat]. destruct r as [|id2 r2].
  - destruct (idf_shape _ (sat2_id_facts id Hid)) as [a [b [c [E [_ [_ [_ [_ Sc]]]]]]]]. subst id. cbn [cat].
    exists (String a (String b "")), c. split; [reflexivity|exact Sc].
  - apply ends_nonspace_app, IH. discriminate.
Qed.

(* ------------------------------------------------------------------------------------------ RINEX 2 epoch line *)
Lemma table_true2 : table_find "True" G2.obs_table = Some ("_parse_observation", true, v2_obs_fields).
Proof. reflexivity. Qed.
Lemma table_false2 : table_find "False" G2.obs_table = Some ("_parse_observation_epoch", true, v2_epoch_fields).
Proof. reflexivity. Qed.

Definition ws2 : list nat := [3; 3; 3; 3; 3; 11; 3; 3].

Lemma head_widths t nsat : epoch_t_wf t -> fits_int 3 nsat -> widths_ok (epoch_head_v2 t nsat) ws2.
Proof.
  intros [Hy [Fy [Hmo [Hd [Hh [Hmi [Hs [Fs Fc]]]]]]]] Fn. unfold epoch_head_v2, ws2. cbn [widths_ok].
  assert (Y : (0 <= ep_y t mod 100 < 100)%Z) by (apply Z.mod_pos_bound; lia).
  rewrite !len_app, !len_int_field, (render_F_length 11 7 _ Fs), (len_render_int 3 _ Fn) by assumption.
  repeat split; reflexivity.
Qed.

Lemma blank_ws_int_field zero w z : blank_ws (int_field zero w z) = true.
Proof.
  destruct zero; unfold int_field; [apply nonspace_blank_ws, nonspace_digits|].
  unfold render_int, rjust, rjust_with. rewrite blank_ws_app. fold (spaces (w - len (sign_str z ++ render_nat (Z.abs z)))).
  rewrite blank_ws_spaces. apply nonspace_blank_ws. rewrite nonspace_app, nonspace_sign. apply nonspace_digits.
Qed.

Lemma blank_ws_render_int w z : blank_ws (render_int w z) = true.
Proof. apply (blank_ws_int_field false). Qed.

Lemma blank_ws_head t nsat : blank_ws (cat (epoch_head_v2 t nsat)) = true.
Proof.
  unfold epoch_head_v2. cbn [cat]. rewrite !blank_ws_app, !blank_ws_int_field, blank_ws_render_F, blank_ws_render_int. reflexivity.
Qed.

Definition einfo2 (rate : option Q) (t : epoch_t) (nsat : Z) : einfo :=
  {| e_time := time_text (ep_y t) (ep_mo t) (ep_d t) (ep_h t) (ep_mi t) (dec_value (ep_s7 t) 7);
     e_sec := if on_grid rate (sec_of t) then Some (sec_of t) else None;
     e_flag := 0; e_clk := clk_val 9 (ep_clk t); e_num_sat := nsat |}.

Lemma first_year Y mo d h mi sec : (1000 <= Y < 10000)%Z ->
  take 4 (time_text Y mo d h mi sec) = render_nat Y /\ take 2 (render_nat Y) = digits_fixed 2 (Y / 100).
Proof.
  intros H. pose proof (render_nat_4 Y H) as R. split.
  - unfold time_text, render_int, sign_str. destruct (Z.ltb_spec Y 0); [lia|]. rewrite Z.abs_eq by lia. cbn [append].
    unfold rjust, rjust_with. cbn [Nat.sub rep append].
    assert (L : len (render_nat Y) = 4) by (rewrite R, len_app, !len_digits_fixed; reflexivity).
    rewrite <- L. apply take_app_len.
  - rewrite R. rewrite <- (len_digits_fixed 2 (Y / 100)) at 1. apply take_app_len.
Qed.

Definition pad_of (t : epoch_t) (k : nat) : string := match ep_clk t with None => "" | Some _ => spaces (36 - 3 * k) end.

Lemma strip_nl_slice a b l : blank_ws l = true -> strip_nl (slice a b l) = slice a b l.
Proof. intros H. apply strip_nl_id, blank_ws_slice, H. Qed.

Lemma comment_col ids : Forall sat2_id_ok ids -> forall j w, all_by (fun c => negb (is_alpha c)) w = true ->
  isalpha (char_at (3 * j + 1) (cat ids ++ w)) = false.
Proof.
  induction 1 as [|id r Hid Fr IH]; intros j w Hw.
  - cbn [cat append]. apply noalpha_char_at. exact Hw.
  - destruct (idf_shape _ (sat2_id_facts id Hid)) as [a [b [c [E [_ [_ [Ab _]]]]]]]. subst id. cbn [cat].
    destruct j as [|j].
    + cbn. unfold isalpha, nonempty_all. cbn [all_by]. rewrite Ab. reflexivity.
    + unfold char_at. rewrite Text.app_assoc.
      pose proof (slice_app_shift (String a (String b (String c ""))) (3 * j + 1) (3 * j + 1 + 1) (cat r ++ w)) as P.
      change (len (String a (String b (String c "")))) with 3 in P.
      replace (3 + (3 * j + 1)) with (3 * S j + 1) in P by lia. replace (3 + (3 * j + 1 + 1)) with (3 * S j + 1 + 1) in P by lia.
      rewrite P. apply (IH j w Hw).
Qed.

(* TIME OF LAST OBS, if present in meta, carries the year Y *)
Definition last_inv (Y : Z) (s : st) : Prop :=
  match meta_str "time_last_obs" s with Some tl => take 4 tl = render_nat Y | None => True end.

Section EpochLine2.
  Variable rate : option Q.
  Variables (Y fmo fd fh fmi : Z) (fsec : Q).
  Hypothesis HY : (1000 <= Y < 10000)%Z.

  Definition inv2_meta (s : st) : Prop :=
    meta_str "time_first_obs" s = Some (time_text Y fmo fd fh fmi fsec) /\ last_inv Y s.

  Lemma v2_first_line t nsat ids s c :
    inv2_meta s -> epoch_t_wf t -> (1980 <= ep_y t < 2080)%Z ->
    match ep_clk t with None => True | Some v => fits_F 12 9 v end -> fits_int 3 nsat ->
    ids <> [] -> List.length ids <= 12 -> Forall sat2_id_ok ids ->
    v2_line spec_q rate G2.obs_table (epoch_first_line_v2 t nsat ids) s c =
    Some (s, {| c_epoch := Some (einfo2 rate t nsat); c_sats := Some (map fix3 ids); c_len := List.length ids; c_acc := c_acc c |}).
  Proof.
    intros [M1 M2] W Hc Fc9 Fn Ne L12 Fi.
    pose proof (head_widths t nsat W Fn) as Wd. pose proof (len_cat_widths _ _ Wd) as LH. change (list_sum ws2) with 32 in LH.
    destruct W as [Hy [Fy [Hmo [Hd [Hh [Hmi [Hs [Fs _]]]]]]]].
    assert (Yy : (0 <= ep_y t mod 100 < 100)%Z) by (apply Z.mod_pos_bound; lia).
    set (H := cat (epoch_head_v2 t nsat)) in *. set (I := cat ids).
    pose proof (len_cat_ids ids Fi) as LI. fold I in LI.
    set (l := epoch_first_line_v2 t nsat ids).
    assert (El : l = H ++ I ++ match ep_clk t with None => "" | Some v => spaces (36 - 3 * List.length ids) ++ render_F 12 9 v end)
      by reflexivity.
    assert (Rl : rstrip l = l).
    { apply rstrip_ends. rewrite El. apply ends_nonspace_app. destruct (ep_clk t) as [v|].
      - do 2 apply ends_nonspace_app. apply ends_render_F.
      - rewrite Text.app_nil_r. apply ends_ids; auto. }
    assert (Bl : blank_ws l = true).
    { rewrite El, !blank_ws_app. unfold H. rewrite blank_ws_head. unfold I. rewrite (blank_ws_ids ids Fi).
      destruct (ep_clk t); [rewrite blank_ws_app, blank_ws_spaces, blank_ws_render_F|]; reflexivity. }
    assert (P : forall i a b, i < 8 -> a = list_sum (firstn i ws2) -> b = list_sum (firstn (S i) ws2) ->
                slice a b l = nth i (epoch_head_v2 t nsat) "").
    { intros i a b Hi -> ->. rewrite El, slice_app_left.
      - apply (slice_piece _ _ i Wd). simpl. lia.
      - rewrite LH. destruct i as [|[|[|[|[|[|[|[|]]]]]]]]; simpl; lia. }
    assert (SL : slice 32 68 l = I ++ pad_of t (List.length ids)).
    { rewrite El. pose proof (slice_app_shift H 0 36) as Q. rewrite LH in Q. change (32 + 0) with 32 in Q. change (32 + 36) with 68 in Q.
      rewrite Q. unfold slice, pad_of. rewrite drop_0. change (36 - 0) with 36. destruct (ep_clk t) as [v|].
      - rewrite <- Text.app_assoc.
        replace 36 with (len (I ++ spaces (36 - 3 * List.length ids))) at 1 by (rewrite len_app, LI, len_spaces; lia).
        apply take_app_len.
      - rewrite !Text.app_nil_r. apply take_all. lia. }
    assert (RC : slice 68 80 l = match ep_clk t with None => "" | Some v => render_F 12 9 v end).
    { rewrite El. destruct (ep_clk t) as [v|].
      - rewrite <- !Text.app_assoc.
        pose proof (slice_app_shift ((H ++ I) ++ spaces (36 - 3 * List.length ids)) 0 12 (render_F 12 9 v)) as Q.
        rewrite !len_app, LH, LI, len_spaces in Q.
        replace (32 + 3 * List.length ids + (36 - 3 * List.length ids) + 0) with 68 in Q by lia.
        replace (32 + 3 * List.length ids + (36 - 3 * List.length ids) + 12) with 80 in Q by lia.
        rewrite Q. rewrite <- (render_F_length 12 9 v Fc9) at 1. rewrite <- (Text.app_nil_r (render_F 12 9 v)) at 2. apply slice_0_len.
      - apply slice_beyond. rewrite Text.app_nil_r, len_app, LH, LI. lia. }
    (* label *)
    assert (Lab : v2_label l = false).
    { unfold v2_label.
      assert (C32 : isalpha (char_at 32 l) = true).
      { unfold char_at. rewrite El. pose proof (slice_app_shift H 0 1) as Q. rewrite LH in Q. change (32 + 0) with 32 in Q.
        change (32 + 1) with 33 in Q. rewrite Q. unfold I. destruct ids as [|id r]; [contradiction|].
        inversion Fi as [|? ? Hid _]; subst.
        destruct (idf_shape _ (sat2_id_facts id Hid)) as [a [b [c0 [E [Aa _]]]]]. subst id. cbn. rewrite Aa. reflexivity. }
      rewrite C32. cbn [negb]. rewrite andb_false_r. reflexivity. }
    unfold v2_line. fold l. rewrite Rl, table_true2, table_false2, Lab. unfold fields_of.
    set (vals := parse_record_by is_nl v2_epoch_fields l).
    assert (Ly : lookup "year" vals = " " ++ int_field (ep_zero t) 2 (ep_y t mod 100)).
    { transitivity (strip_nl (slice 0 3 l)); [reflexivity|]. rewrite (strip_nl_slice _ _ _ Bl). apply (P 0); reflexivity || lia. }
    assert (Lmo : lookup "month" vals = " " ++ int_field (ep_zero t) 2 (ep_mo t)).
    { transitivity (strip_nl (slice 3 6 l)); [reflexivity|]. rewrite (strip_nl_slice _ _ _ Bl). apply (P 1); reflexivity || lia. }
    assert (Ld : lookup "day" vals = " " ++ int_field (ep_zero t) 2 (ep_d t)).
    { transitivity (strip_nl (slice 6 9 l)); [reflexivity|]. rewrite (strip_nl_slice _ _ _ Bl). apply (P 2); reflexivity || lia. }
    assert (Lh : lookup "hour" vals = " " ++ int_field (ep_zero t) 2 (ep_h t)).
    { transitivity (strip_nl (slice 9 12 l)); [reflexivity|]. rewrite (strip_nl_slice _ _ _ Bl). apply (P 3); reflexivity || lia. }
    assert (Lmi : lookup "minute" vals = " " ++ int_field (ep_zero t) 2 (ep_mi t)).
    { transitivity (strip_nl (slice 12 15 l)); [reflexivity|]. rewrite (strip_nl_slice _ _ _ Bl). apply (P 4); reflexivity || lia. }
    assert (Ls : lookup "second" vals = render_F 11 7 (ep_s7 t)).
    { transitivity (strip_nl (slice 15 26 l)); [reflexivity|]. rewrite (strip_nl_slice _ _ _ Bl). apply (P 5); reflexivity || lia. }
    assert (Lf : lookup "epoch_flag" vals = "  0").
    { transitivity (strip_nl (slice 26 29 l)); [reflexivity|]. rewrite (strip_nl_slice _ _ _ Bl). apply (P 6); reflexivity || lia. }
    assert (Ln : lookup "num_sat" vals = render_int 3 nsat).
    { transitivity (strip_nl (slice 29 32 l)); [reflexivity|]. rewrite (strip_nl_slice _ _ _ Bl). apply (P 7); reflexivity || lia. }
    assert (Lsl : lookup "sat_list" vals = I ++ pad_of t (List.length ids)).
    { transitivity (strip_nl (slice 32 68 l)); [reflexivity|]. rewrite (strip_nl_slice _ _ _ Bl). exact SL. }
    assert (Lc : lookup "rcv_clk_offset" vals = match ep_clk t with None => "" | Some v => render_F 12 9 v end).
    { transitivity (strip_nl (slice 68 80 l)); [reflexivity|]. rewrite (strip_nl_slice _ _ _ Bl). exact RC. }
    unfold v2_epoch, time_of. rewrite Ly, Lmo, Ld, Lh, Lmi, Ls, Lf, Ln, Lsl, Lc.
    rewrite (strip_int_field _ _ Yy), isnumeric_year. cbn [negb andb].
    assert (Cm : isalpha (char_at 28 (I ++ pad_of t (List.length ids))) = false).
    { apply (comment_col ids Fi 9). unfold pad_of. destruct (ep_clk t); [apply all_by_rep|]; reflexivity. }
    rewrite Cm.
    assert (Ny : String.eqb (if ep_zero t then digits_fixed 2 (ep_y t mod 100) else render_nat (ep_y t mod 100)) "" = false).
    { pose proof (isnumeric_year (ep_zero t) (ep_y t mod 100)) as N.
      destruct (if ep_zero t then digits_fixed 2 (ep_y t mod 100) else render_nat (ep_y t mod 100)); [discriminate|reflexivity]. }
    rewrite Ny, M1. cbn [q_century_from_first_obs spec_q].
    assert (Py : parse_int (if ep_zero t then digits_fixed 2 (ep_y t mod 100) else render_nat (ep_y t mod 100)) = Some (ep_y t mod 100)%Z).
    { destruct (ep_zero t); [apply parse_int_digits; [lia|exact Yy]|].
      rewrite <- (strip_render_int_nonneg 2) by lia. rewrite parse_int_strip. apply parse_render_int. }
    rewrite Py.
    assert (Ey : year2 (ep_y t mod 100) = ep_y t).
    { unfold year2. pose proof (Z.div_mod (ep_y t) 100 ltac:(lia)) as DM.
      assert (Q : (ep_y t / 100 = 19 \/ ep_y t / 100 = 20)%Z).
      { assert (19 <= ep_y t / 100)%Z by (apply Z.div_le_lower_bound; lia).
        assert (ep_y t / 100 < 21)%Z by (apply Z.div_lt_upper_bound; lia). lia. }
      destruct (Z.leb_spec 80 (ep_y t mod 100)); lia. }
    rewrite Ey.
    rewrite <- !(parse_int_strip (" " ++ _)), !strip_lead by reflexivity. rewrite !parse_int_strip, !int_field_parse by (try lia; simpl; lia).
    rewrite parse_render_F, parse_render_int.
    change (parse_int "  0") with (Some 0%Z). change (strip "  0") with "0". cbn [String.eqb Ascii.eqb Bool.eqb negb andb].
    assert (Fn2 : float_nan (match ep_clk t with None => "" | Some v => render_F 12 9 v end) = Some (clk_val 9 (ep_clk t))).
    { destruct (ep_clk t); [apply float_nan_F|reflexivity]. }
    rewrite Fn2. cbn [c_sats].
    assert (SLp : sat_loop (S (len (I ++ pad_of t (List.length ids)))) (I ++ pad_of t (List.length ids)) [] = Some (map fix3 ids)).
    { unfold pad_of, I. destruct (ep_clk t).
      - apply (sat_loop_line ids _ [] Fi).
      - change "" with (spaces 0). apply (sat_loop_line ids 0 [] Fi). }
    rewrite SLp. rewrite map_length. reflexivity.
  Qed.
End EpochLine2.

Lemma v2_cont_line rate ids s c l0 : c_sats c = Some l0 -> ids <> [] -> List.length ids <= 12 -> Forall sat2_id_ok ids ->
  v2_line spec_q rate G2.obs_table (epoch_cont_line_v2 ids) s c =
  Some (s, {| c_epoch := c_epoch c; c_sats := Some (l0 ++ map fix3 ids)%list; c_len := List.length (l0 ++ map fix3 ids)%list;
              c_acc := c_acc c |}).
Proof.
  intros Cs Ne L12 Fi. set (I := cat ids). pose proof (len_cat_ids ids Fi) as LI. fold I in LI.
  set (l := epoch_cont_line_v2 ids). assert (El : l = spaces 32 ++ I) by reflexivity.
  assert (Rl : rstrip l = l) by (apply rstrip_ends; rewrite El; apply ends_nonspace_app, ends_ids; auto).
  assert (Bl : blank_ws l = true) by (rewrite El, blank_ws_app, blank_ws_spaces; apply (blank_ws_ids ids Fi)).
  assert (P : forall a b, b <= 32 -> slice a b l = slice a b (spaces 32)) by (intros a b Hb; rewrite El; apply slice_app_left; rewrite len_spaces; exact Hb).
  assert (SL : slice 32 68 l = I).
  { rewrite El. pose proof (slice_app_shift (spaces 32) 0 36 I) as Q. rewrite len_spaces in Q. change (32 + 0) with 32 in Q.
    change (32 + 36) with 68 in Q. rewrite Q. unfold slice. rewrite drop_0. apply take_all. lia. }
  assert (Lab : v2_label l = false).
  { unfold v2_label.
    assert (C32 : isalpha (char_at 32 l) = true).
    { unfold char_at. rewrite El. pose proof (slice_app_shift (spaces 32) 0 1 I) as Q. rewrite len_spaces in Q. change (32 + 0) with 32 in Q.
      change (32 + 1) with 33 in Q. change (32 + 1) with 33. rewrite Q. unfold I. destruct ids as [|id r]; [contradiction|].
      inversion Fi as [|? ? Hid _]; subst.
      destruct (idf_shape _ (sat2_id_facts id Hid)) as [a [b [c0 [E [Aa _]]]]]. subst id. cbn. rewrite Aa. reflexivity. }
    rewrite C32. cbn [negb]. rewrite andb_false_r. reflexivity. }
  unfold v2_line. fold l. rewrite Rl, table_true2, table_false2, Lab. unfold fields_of.
  set (vals := parse_record_by is_nl v2_epoch_fields l).
  assert (Ly : lookup "year" vals = "   ").
  { transitivity (strip_nl (slice 0 3 l)); [reflexivity|]. rewrite (strip_nl_slice _ _ _ Bl), P by lia. reflexivity. }
  assert (Lf : lookup "epoch_flag" vals = "   ").
  { transitivity (strip_nl (slice 26 29 l)); [reflexivity|]. rewrite (strip_nl_slice _ _ _ Bl), P by lia. reflexivity. }
  assert (Lsl : lookup "sat_list" vals = I).
  { transitivity (strip_nl (slice 32 68 l)); [reflexivity|]. rewrite (strip_nl_slice _ _ _ Bl). exact SL. }
  unfold v2_epoch. rewrite Ly, Lf, Lsl. change (strip "   ") with "". cbn [isnumeric nonempty_all negb andb String.eqb].
  assert (NI : String.eqb I "" = false).
  { destruct I eqn:E; [|reflexivity]. simpl in LI. destruct ids; [contradiction|simpl in LI; lia]. }
  rewrite NI.
  assert (Cm : isalpha (char_at 28 I) = false).
  { rewrite <- (Text.app_nil_r I). apply (comment_col ids Fi 9 ""). reflexivity. }
  rewrite Cm, Cs.
  assert (SLp : sat_loop (S (len I)) I l0 = Some (l0 ++ map fix3 ids)%list).
  { pose proof (sat_loop_line ids 0 l0 Fi) as Q. change (spaces 0) with "" in Q. rewrite Text.app_nil_r in Q. exact Q. }
  rewrite SLp. reflexivity.
Qed.

(* ------------------------------------------------------------------------------------------ shape of observation lines *)
Lemma rstrip_app_ne a b : rstrip b <> "" -> rstrip (a ++ b) = a ++ rstrip b.
Proof.
  intros H. induction a as [|c r IH]; [reflexivity|]. change (String c r ++ b) with (String c (r ++ b)).
  unfold rstrip in *. cbn [rstrip_by]. rewrite IH. change (String c r ++ rstrip_by is_space b) with (String c (r ++ rstrip_by is_space b)).
  destruct (r ++ rstrip_by is_space b) eqn:E; [|reflexivity]. destruct r; [simpl in E; contradiction|discriminate].
Qed.

Lemma rstrip_app_ends a b : ends_nonspace a -> rstrip (a ++ b) = a ++ rstrip b.
Proof.
  intros Ha. destruct (rstrip b) eqn:E.
  - destruct (rstrip_decomp b) as [w [Hw Eb]]. rewrite E in Eb. cbn [append] in Eb. subst b.
    rewrite rstrip_app_space by exact Hw. rewrite Text.app_nil_r. apply rstrip_ends, Ha.
  - rewrite <- E. apply rstrip_app_ne. rewrite E. discriminate.
Qed.

Lemma nonspace_slice_isspace a b r : nonspace r = true -> isspace (slice a b r) = false.
Proof.
  intros H. assert (N : nonspace (slice a b r) = true) by (unfold slice; apply all_by_take, all_by_drop, H).
  destruct (slice a b r) as [|c x]; [reflexivity|]. unfold nonspace in N. cbn [all_by] in N. apply andb_prop in N. destruct N as [N _].
  unfold isspace, all_space. cbn [all_by]. destruct (is_space c); [discriminate|reflexivity].
Qed.

Lemma slice_rep c a b k : slice a b (rep c k) = rep c (Nat.min (b - a) (k - a)).
Proof. unfold slice. rewrite drop_rep, take_rep. reflexivity. Qed.

Lemma sp_raw k raw i : nonspace raw = true ->
  isnumeric (char_at i (spaces k ++ raw)) = true -> isspace (char_at (i + 1) (spaces k ++ raw)) = false.
Proof.
  intros N H. unfold char_at in *. destruct (Nat.lt_ge_cases i k) as [L|L].
  - rewrite slice_app_left in H by (rewrite len_spaces; lia). unfold spaces in H. rewrite slice_rep in H.
    replace (Nat.min (i + 1 - i) (k - i)) with 1 in H by lia. discriminate.
  - pose proof (slice_app_shift (spaces k) (i + 1 - k) (i + 1 + 1 - k) raw) as P. rewrite len_spaces in P.
    replace (k + (i + 1 - k)) with (i + 1) in P by lia. replace (k + (i + 1 + 1 - k)) with (i + 1 + 1) in P by lia.
    rewrite P. apply nonspace_slice_isspace, N.
Qed.

Lemma nonspace_raw d m : nonspace (render_F_raw d m) = true.
Proof. unfold render_F_raw. rewrite !nonspace_app, nonspace_sign, nonspace_frac. unfold render_nat. rewrite nonspace_digits. reflexivity. Qed.

Lemma value_text_pair v i : isnumeric (char_at i (value_text v)) = true -> isspace (char_at (i + 1) (value_text v)) = false.
Proof.
  destruct v as [| |m]; cbn [value_text].
  - change (spaces 14) with (spaces 14 ++ ""). apply sp_raw. reflexivity.
  - unfold render_F, rjust, rjust_with. apply sp_raw, nonspace_raw.
  - unfold render_F, rjust, rjust_with. apply sp_raw, nonspace_raw.
Qed.

Lemma dot_at_10 m : fits_F 14 3 m -> slice 10 11 (render_F 14 3 m) = ".".
Proof.
  intros F. pose proof (render_F_length 14 3 m F) as L. unfold render_F, rjust, rjust_with, render_F_raw, frac_str in *.
  set (P := rep " " (14 - len (sign_str m ++ render_nat (Z.abs m / 10 ^ Z.of_nat 3) ++ String "." (digits_fixed 3 (Z.abs m))))) in *.
  set (A := sign_str m) in *. set (B := render_nat (Z.abs m / 10 ^ Z.of_nat 3)) in *. set (D := digits_fixed 3 (Z.abs m)) in *.
  change (String "." D) with ("." ++ D) in *.
  replace (P ++ A ++ B ++ "." ++ D) with ((P ++ A ++ B) ++ "." ++ D) in * by (rewrite !Text.app_assoc; reflexivity).
  rewrite !len_app in L. unfold D in L at 1. rewrite len_digits_fixed in L. simpl (len ".") in L.
  pose proof (slice_app_mid (P ++ A ++ B) "." D) as Q. rewrite !len_app in Q. simpl (len ".") in Q.
  replace (len P + (len A + len B)) with 10 in Q by lia. exact Q.
Qed.

Lemma cell_pair : forall cells, Forall cell_wf cells -> forall j i, i + 2 <= 14 ->
  isnumeric (char_at (16 * j + i) (cat (map render_cell cells))) = true ->
  isspace (char_at (16 * j + i + 1) (cat (map render_cell cells))) = false.
Proof.
  induction 1 as [|c r Hc Fr IH]; intros j i Hi H.
  - exfalso. cbn [map cat] in H. unfold char_at in H. rewrite slice_nil in H. discriminate.
  - cbn [map cat] in *. pose proof (len_render_cell c Hc) as L16. pose proof (len_value_text c Hc) as L14.
    destruct j as [|j].
    + rewrite Nat.mul_0_r, Nat.add_0_l in *. unfold char_at in *.
      rewrite slice_app_left in H by lia. rewrite slice_app_left by lia.
      unfold render_cell in *. rewrite slice_app_left in H by lia. rewrite slice_app_left by lia.
      apply (value_text_pair (cv c) i H).
    + unfold char_at in *.
      pose proof (slice_app_shift (render_cell c) (16 * j + i) (16 * j + i + 1) (cat (map render_cell r))) as P1.
      pose proof (slice_app_shift (render_cell c) (16 * j + i + 1) (16 * j + i + 1 + 1) (cat (map render_cell r))) as P2.
      rewrite L16 in P1, P2.
      replace (16 + (16 * j + i)) with (16 * S j + i) in P1 by lia. replace (16 + (16 * j + i + 1)) with (16 * S j + i + 1) in P1, P2 by lia.
      replace (16 + (16 * j + i + 1 + 1)) with (16 * S j + i + 1 + 1) in P2 by lia.
      rewrite P1 in H. rewrite P2. apply (IH j i Hi H).
Qed.

(* a prefix: characters of l are those of s, or beyond l *)
Lemma prefix_char l w i : char_at i l = "" \/ (i + 1 <= len l /\ char_at i l = char_at i (l ++ w)).
Proof.
  unfold char_at. destruct (Nat.le_gt_cases (len l) i) as [H|H].
  - left. apply slice_beyond, H.
  - right. split; [lia|]. symmetry. apply slice_app_left. lia.
Qed.

Lemma pair_prefix s l w i : s = l ++ w -> (isnumeric (char_at i s) = true -> isspace (char_at (i + 1) s) = false) ->
  isnumeric (char_at i l) && isspace (char_at (i + 1) l) = false.
Proof.
  intros E K. destruct (isnumeric (char_at i l)) eqn:N; [|reflexivity]. cbn [andb].
  destruct (prefix_char l w i) as [A|[_ A]]; [rewrite A in N; discriminate|].
  destruct (prefix_char l w (i + 1)) as [B|[_ B]]; [rewrite B; reflexivity|].
  rewrite B, <- E. apply K. rewrite E, <- A. exact N.
Qed.

Lemma ends_value_text v : v <> VBlank -> ends_nonspace (value_text v).
Proof. destruct v; intros H; [contradiction| |]; cbn [value_text]; apply ends_render_F. Qed.

Lemma line_shape cut c1 r : Forall cell_wf (c1 :: r) ->
  let nxt := maybe_rstrip cut (cat (map render_cell (c1 :: r))) in
  nxt = "" \/ (exists R, nxt = value_text (cv c1) ++ R) /\ (cv c1 = VBlank -> exists X, nxt = spaces 16 ++ X).
Proof.
  intros F. cbv zeta. inversion F as [|? ? Hc Fr]; subst. cbn [map cat]. set (S' := cat (map render_cell r)).
  assert (Ec : render_cell c1 = value_text (cv c1) ++ flag_char (clli c1) ++ flag_char (cssi c1)) by reflexivity.
  rewrite Ec. clear Ec. destruct Hc as [Hv [Hl Hs]].
  destruct (cv c1) as [| |m] eqn:Ev.
  - destruct Hv as [E1 E2]. rewrite E1, E2. cbn [value_text flag_char].
    change ((spaces 14 ++ " " ++ " ") ++ S') with (spaces 16 ++ S').
    destruct cut; cbn [maybe_rstrip].
    + destruct (rstrip S') eqn:E.
      * left. destruct (rstrip_decomp S') as [w [Hw Eb]]. rewrite E in Eb. cbn [append] in Eb. subst S'. rewrite Eb.
        apply rstrip_by_all. unfold all_space in *. rewrite all_by_app, Hw. reflexivity.
      * right. rewrite rstrip_app_ne by (rewrite E; discriminate). split; [exists ("  " ++ rstrip S'); reflexivity|].
        intros _. exists (rstrip S'). reflexivity.
    + right. split; [exists ("  " ++ S'); reflexivity|]. intros _. exists S'. reflexivity.
  - right. split; [|discriminate]. destruct cut; cbn [maybe_rstrip].
    + rewrite Text.app_assoc, rstrip_app_ends by (apply ends_value_text; discriminate). eexists; reflexivity.
    + rewrite Text.app_assoc. eexists; reflexivity.
  - right. split; [|discriminate]. destruct cut; cbn [maybe_rstrip].
    + rewrite Text.app_assoc, rstrip_app_ends by (apply ends_value_text; discriminate). eexists; reflexivity.
    + rewrite Text.app_assoc. eexists; reflexivity.
Qed.

Lemma len_value_text' c : cell_wf c -> len (value_text (cv c)) = 14.
Proof. apply len_value_text. Qed.

Lemma obs_not_marker cut c1 r : Forall cell_wf (c1 :: r) ->
  v2_end_marker (maybe_rstrip cut (cat (map render_cell (c1 :: r))) ++ String "010"%char "") = false.
Proof.
  intros F. destruct (line_shape cut c1 r F) as [E|[[R E] _]]; cbv zeta in E; rewrite E; [reflexivity|].
  inversion F as [|? ? Hc _]; subst. pose proof (len_value_text c1 Hc) as L14.
  unfold v2_end_marker, char_at. rewrite Text.app_assoc. rewrite !slice_app_left by lia.
  destruct (isnumeric (slice 2 (2 + 1) (value_text (cv c1)))) eqn:N; [|reflexivity]. cbn [andb].
  apply (value_text_pair (cv c1) 2 N).
Qed.

Lemma obs_label c1 r : Forall cell_wf (c1 :: r) -> rstrip (cat (map render_cell (c1 :: r))) <> "" ->
  v2_label (rstrip (cat (map render_cell (c1 :: r)))) = true.
Proof.
  intros F Ne. set (s := cat (map render_cell (c1 :: r))) in *. set (l := rstrip s) in *.
  pose proof (line_shape true c1 r F) as LS. cbv zeta in LS. cbn [maybe_rstrip] in LS. fold s in LS. fold l in LS.
  destruct LS as [E|[[R E] B]]; [contradiction|].
  inversion F as [|? ? Hc Fr]; subst. pose proof (len_value_text c1 Hc) as L14.
  assert (Na : noalpha l = true) by (apply noalpha_rstrip, noalpha_cells, F).
  unfold v2_label. rewrite (noalpha_char_at 32 l Na), (noalpha_char_at 60 l Na). cbn [negb]. rewrite !andb_true_r.
  assert (AB : String.eqb (char_at 10 l) "." || isspace (slice 0 16 l) = true).
  { destruct (cv c1) as [| |m] eqn:Ev.
    - destruct (B eq_refl) as [X EX]. rewrite EX. pose proof (slice_0_len (spaces 16) X) as Q. change (len (spaces 16)) with 16 in Q. rewrite Q. apply orb_true_r.
    - rewrite E. unfold char_at. rewrite slice_app_left by lia. reflexivity.
    - rewrite E. unfold char_at. rewrite slice_app_left by lia. cbn [value_text]. destruct Hc as [Hv _]. rewrite Ev in Hv.
      change (10 + 1) with 11. rewrite (dot_at_10 m (proj2 Hv)). reflexivity. }
  rewrite AB. cbn [andb].
  destruct (rstrip_decomp s) as [w [_ Ew]]. fold l in Ew.
  change 35 with (34 + 1). rewrite (pair_prefix s l w 34 Ew); [reflexivity|].
  intros N. apply (cell_pair (c1 :: r) F 2 2); [lia|exact N].
Qed.

(* ------------------------------------------------------------------------------------------ observation lines through the model *)
Definition obs_cells (cells5 : option (list cellv)) (s : st) (c : cache) : option (st * cache) :=
  match c_epoch c with
  | None => None
  | Some e =>
      match e_sec e with
      | None => Some (s, c)
      | Some _ =>
          if negb (Z.eqb (e_num_sat e) (Z.of_nat (c_len c))) then None
          else match cells5, num_types s with
               | Some cells, Some n =>
                   let acc := (c_acc c ++ cells)%list in
                   if (n <=? Z.of_nat (List.length acc))%Z then
                     match c_sats c with
                     | Some (sat :: rest) =>
                         match parse_int (drop 1 sat), meta_str "marker_name" s with
                         | Some num, Some mk =>
                             let r := {| r_time := e_time e; r_flag := e_flag e; r_clk := e_clk e; r_station := lower mk;
                                         r_sys := take 1 sat; r_sat := sat; r_satnum_s := ""; r_satnum_z := num;
                                         r_vals := combine (types_all s) acc |} in
                             Some (add_row s r, {| c_epoch := c_epoch c; c_sats := Some rest; c_len := c_len c; c_acc := [] |})
                         | _, _ => None
                         end
                     | _ => None
                     end
                   else Some (s, {| c_epoch := c_epoch c; c_sats := c_sats c; c_len := c_len c; c_acc := acc |})
               | _, _ => None
               end
      end
  end.

Lemma v2_obs_cells nl vals s c : v2_obs nl vals s c = obs_cells (v2_line_cells vals) s c.
Proof. reflexivity. Qed.

Lemma blank_line_cells : v2_line_cells (empty_obs_vals v2_obs_fields) = line_cells "".
Proof. vm_compute. reflexivity. Qed.

(* an observation line (1..5 cells; trailing blanks cut or not; possibly empty) is parsed as five values, also when it is
   all blank - provided satellites of the epoch are still to be read (specification model; fix ffb5f24) *)
Lemma v2_obs_line rate cut c1 r s c sat rest : Forall cell_wf (c1 :: r) -> c_sats c = Some (sat :: rest) ->
  v2_line spec_q rate G2.obs_table (maybe_rstrip cut (cat (map render_cell (c1 :: r)))) s c =
  obs_cells (line_cells (maybe_rstrip cut (cat (map render_cell (c1 :: r))))) s c.
Proof.
  intros F Cs. unfold v2_line, line_cells. rewrite rstrip_maybe, table_true2, table_false2.
  set (l := rstrip (cat (map render_cell (c1 :: r)))).
  destruct (String.eqb_spec l "") as [E|E].
  - rewrite E. change (v2_label "") with false. cbv iota.
    unfold v2_epoch, fields_of.
    change (strip (lookup "year" (parse_record_by is_nl v2_epoch_fields ""))) with "".
    change (lookup "sat_list" (parse_record_by is_nl v2_epoch_fields "")) with "".
    cbn [isnumeric nonempty_all negb andb String.eqb q_blank_dropped spec_q]. rewrite Cs.
    rewrite v2_obs_cells, blank_line_cells. reflexivity.
  - unfold l in *. rewrite (obs_label c1 r F E). apply v2_obs_cells.
Qed.

(* ------------------------------------------------------------------------------------------ one satellite's record *)
Definition nlc : string := String "010"%char "".
Definition cont2 (step : string -> st -> cache -> option (st * cache)) (endm : string -> bool) (rest : list string) (s : st) (c : cache)
  : option st :=
  match rest with
  | [] => Some s
  | nxt :: _ => run_obs step endm rest s (if endm (nxt ++ nlc) then cache0 else c)
  end.

Lemma run_obs_cons step endm l rest s c s1 c1 : step l s c = Some (s1, c1) ->
  run_obs step endm (l :: rest) s c = cont2 step endm rest s1 c1.
Proof. intros H. cbn [run_obs]. rewrite H. destruct rest; reflexivity. Qed.

Definition is_chunk_line (l : string) : Prop :=
  exists cut c1 r, Forall cell_wf (c1 :: r) /\ l = maybe_rstrip cut (cat (map render_cell (c1 :: r))).

Lemma chunk_lines cut cells : Forall cell_wf cells -> Forall is_chunk_line (render_obs_v2 cut cells).
Proof.
  intros F. unfold render_obs_v2.
  destruct (chunks_props cell_wf 5 ltac:(lia) (List.length cells) cells (le_n _) F) as [_ C].
  apply Forall_forall. intros l Hl. apply in_map_iff in Hl. destruct Hl as [ch [E Hc]]. subst l.
  destruct (proj1 (Forall_forall _ _) C ch Hc) as [Ne [_ Fc]]. destruct ch as [|c1 r]; [contradiction|].
  exists cut, c1, r. split; [exact Fc|reflexivity].
Qed.

Section Sat2.
  Variable rate : option Q.
  Let step := v2_line spec_q rate G2.obs_table.
  Variables (e : einfo) (q : Q) (n : nat) (sat : string) (rest : list string) (num : Z) (mk : string).
  Hypothesis Esec : e_sec e = Some q.
  Hypothesis Pnum : parse_int (drop 1 sat) = Some num.

  Definition row2_of (types : list string) (vals : list cellv) : row :=
    {| r_time := e_time e; r_flag := e_flag e; r_clk := e_clk e; r_station := lower mk; r_sys := take 1 sat; r_sat := sat;
       r_satnum_s := ""; r_satnum_z := num; r_vals := combine types vals |}.

  Lemma acc_run : forall lines per acc s c tail,
    Forall is_chunk_line lines -> map line_cells lines = map Some per -> Forall (fun p => List.length p = 5) per -> lines <> [] ->
    c_epoch c = Some e -> e_num_sat e = Z.of_nat (c_len c) -> num_types s = Some (Z.of_nat n) ->
    c_sats c = Some (sat :: rest) -> c_acc c = acc -> meta_str "marker_name" s = Some mk ->
    List.length acc + 5 * (List.length per - 1) < n <= List.length acc + 5 * List.length per ->
    run_obs step v2_end_marker (lines ++ tail) s c =
    cont2 step v2_end_marker tail (add_row s (row2_of (types_all s) (acc ++ concat per)))
          {| c_epoch := c_epoch c; c_sats := Some rest; c_len := c_len c; c_acc := [] |}.
  Proof.
    induction lines as [|l ls IH]; intros per acc s c tail Fl Ml Fp Ne Ce Cn Nt Cs Ca Mk B; [contradiction|].
    destruct per as [|p ps]; [discriminate|]. cbn [map] in Ml. injection Ml as Ml1 Ml2.
    apply Forall_cons_iff in Fl. destruct Fl as [[cut [c1 [r [Fc El]]]] Fls].
    apply Forall_cons_iff in Fp. destruct Fp as [Lp Fps].
    assert (St : step l s c = obs_cells (Some p) s c) by (unfold step; rewrite El, <- Ml1, El; apply (v2_obs_line rate cut c1 r s c sat rest Fc Cs)).
    unfold obs_cells in St. rewrite Ce, Esec, Cn, Z.eqb_refl, Nt, Ca in St. cbn [negb] in St. cbv zeta in St.
    rewrite app_length, Lp in St. cbn [app].
    destruct ls as [|l2 ls'].
    - destruct ps; [|discriminate]. cbn [List.length concat] in *.
      assert (T : (Z.of_nat n <=? Z.of_nat (List.length acc + 5))%Z = true) by (apply Z.leb_le; lia).
      rewrite T, Cs, Pnum, Mk in St. rewrite (run_obs_cons _ _ _ _ _ _ _ _ St). rewrite List.app_nil_r, Ce. reflexivity.
    - destruct ps as [|p2 ps']; [discriminate|]. cbn [List.length] in B.
      assert (T : (Z.of_nat n <=? Z.of_nat (List.length acc + 5))%Z = false) by (apply Z.leb_gt; lia).
      rewrite T in St. rewrite (run_obs_cons _ _ _ _ _ _ _ _ St). cbn [app cont2].
      apply Forall_cons_iff in Fls. destruct Fls as [Hl2 Fls'].
      destruct Hl2 as [cut2 [d1 [r2 [Fd E2]]]].
      assert (Em : v2_end_marker (l2 ++ nlc) = false) by (rewrite E2; apply obs_not_marker, Fd).
      rewrite Em.
      rewrite (IH (p2 :: ps') (acc ++ p)%list s _ tail); try assumption; try reflexivity.
      + cbn [concat c_epoch c_len]. rewrite <- !List.app_assoc, Ce. reflexivity.
      + constructor; [exists cut2, d1, r2; auto|exact Fls'].
      + discriminate.
      + rewrite app_length, Lp. cbn [List.length]. lia.
  Qed.
End Sat2.

Lemma combine_firstn {A B} (l : list A) : forall (l' : list B), combine l l' = combine l (firstn (List.length l) l').
Proof. induction l as [|x r IH]; intros [|y l']; cbn [combine List.length firstn]; try reflexivity. rewrite <- IH. reflexivity. Qed.

(* the observation record of one satellite (any number n >= 1 of types, ceil(n/5) lines, all-blank / empty lines included):
   one row with the record's values, the satellite popped from the epoch's list, the accumulator empty again *)
Lemma sat_record_v2 rate e q sat rest num mk cut cells s c tail :
  e_sec e = Some q -> parse_int (drop 1 sat) = Some num ->
  Forall cell_wf cells -> cells <> [] -> List.length (types_all s) = List.length cells ->
  c_epoch c = Some e -> e_num_sat e = Z.of_nat (c_len c) -> num_types s = Some (Z.of_nat (List.length cells)) ->
  c_sats c = Some (sat :: rest) -> c_acc c = [] -> meta_str "marker_name" s = Some mk ->
  run_obs (v2_line spec_q rate G2.obs_table) v2_end_marker (render_obs_v2 cut cells ++ tail) s c =
  cont2 (v2_line spec_q rate G2.obs_table) v2_end_marker tail
        (add_row s (row2_of e sat num mk (types_all s) (map cell_val cells)))
        {| c_epoch := c_epoch c; c_sats := Some rest; c_len := c_len c; c_acc := [] |}.
Proof.
  intros Es Pn F Ne Lt Ce Cn Nt Cs Ca Mk.
  destruct (v2_lines_rt cut (List.length cells) cells (le_n _) F) as [per [P1 [P2 P3]]].
  fold (render_obs_v2 cut cells) in P1.
  pose proof (chunks_count (List.length cells) cells (le_n _)) as Cnt.
  assert (Lk : List.length (render_obs_v2 cut cells) = (List.length cells + 4) / 5) by (unfold render_obs_v2; rewrite map_length; exact Cnt).
  assert (Lper : List.length per = (List.length cells + 4) / 5).
  { rewrite <- Lk. apply (f_equal (@List.length _)) in P1. rewrite !map_length in P1. symmetry. exact P1. }
  assert (Npos : 1 <= List.length cells) by (destruct cells; [contradiction|simpl; lia]).
  pose proof (Nat.div_mod (List.length cells + 4) 5 ltac:(lia)) as DM.
  pose proof (Nat.mod_upper_bound (List.length cells + 4) 5 ltac:(lia)) as MB.
  rewrite (acc_run rate e q (List.length cells) sat rest num mk Es Pn (render_obs_v2 cut cells) per [] s c tail); try assumption.
  - unfold row2_of. cbn [app]. rewrite (combine_firstn (types_all s) (concat per)), Lt, P3. reflexivity.
  - apply chunk_lines, F.
  - intro E. rewrite E in Lk. cbn [List.length] in Lk. rewrite <- Lk in DM. lia.
  - cbn [List.length]. rewrite Lper. lia.
Qed.

(* ------------------------------------------------------------------------------------------ the epoch's header lines *)
Lemma cont_not_marker ids : v2_end_marker (epoch_cont_line_v2 ids ++ nlc) = false.
Proof.
  unfold v2_end_marker, epoch_cont_line_v2, char_at. rewrite !Text.app_assoc.
  rewrite (slice_app_left 2 (2 + 1) (spaces 32)) by (rewrite len_spaces; lia). reflexivity.
Qed.

Lemma int_field2_shape zero v : (0 <= v < 100)%Z -> exists x y, int_field zero 2 v = String x (String y "") /\ is_digit y = true.
Proof.
  intros H.
  assert (D2 : exists x y, digits_fixed 2 v = String x (String y "") /\ is_digit y = true).
  { cbn [digits_fixed append]. eexists _, _. split; [reflexivity|]. apply is_digit_char, mod10_range. }
  destruct zero; unfold int_field; [exact D2|].
  unfold render_int, sign_str. destruct (Z.ltb_spec v 0); [lia|]. rewrite Z.abs_eq by lia. cbn [append].
  unfold render_nat. destruct (Z.ltb_spec v 10) as [A|A].
  - unfold ndigits. rewrite ndig_lt10 by exact A. cbn [digits_fixed append]. eexists _, _. split; [reflexivity|].
    apply is_digit_char, mod10_range.
  - rewrite (ndigits_eq 1 v) by (change (10 ^ Z.of_nat 1)%Z with 10%Z; change (10 ^ Z.of_nat 2)%Z with 100%Z; lia).
    unfold rjust, rjust_with. rewrite len_digits_fixed. cbn [Nat.sub rep append]. exact D2.
Qed.

Lemma first_is_marker t nsat ids : epoch_t_wf t ->
  v2_end_marker (epoch_first_line_v2 t nsat ids ++ nlc) = true.
Proof.
  intros [Hy [_ [Hmo _]]].
  assert (Yy : (0 <= ep_y t mod 100 < 100)%Z) by (apply Z.mod_pos_bound; lia).
  destruct (int_field2_shape (ep_zero t) _ Yy) as [x [y [E Dy]]].
  unfold v2_end_marker, epoch_first_line_v2, epoch_head_v2. cbn [cat]. rewrite E. cbn [append]. cbn [char_at slice take drop Nat.sub Nat.add].
  unfold isnumeric, nonempty_all. cbn [all_by]. rewrite Dy. reflexivity.
Qed.

Lemma cache_eta c l0 : c_sats c = Some l0 -> c_len c = List.length l0 ->
  {| c_epoch := c_epoch c; c_sats := Some (l0 ++ [])%list; c_len := List.length (l0 ++ [])%list; c_acc := c_acc c |} = c.
Proof. intros H1 H2. destruct c. cbn in *. subst. rewrite List.app_nil_r. reflexivity. Qed.

Definition ids_chunk_ok (ch : list string) : Prop := ch <> [] /\ List.length ch <= 12 /\ Forall sat2_id_ok ch.

Lemma conts_run rate tail : forall cr l0 s c, c_sats c = Some l0 -> c_len c = List.length l0 -> Forall ids_chunk_ok cr ->
  (exists l tl, tail = l :: tl /\ v2_end_marker (l ++ nlc) = false) ->
  run_obs (v2_line spec_q rate G2.obs_table) v2_end_marker (map epoch_cont_line_v2 cr ++ tail) s c =
  run_obs (v2_line spec_q rate G2.obs_table) v2_end_marker tail s
    {| c_epoch := c_epoch c; c_sats := Some (l0 ++ map fix3 (concat cr))%list; c_len := List.length (l0 ++ map fix3 (concat cr))%list;
       c_acc := c_acc c |}.
Proof.
  induction cr as [|ch r IH]; intros l0 s c Cs Cl F T.
  - cbn [map app concat]. rewrite (cache_eta c l0 Cs Cl). reflexivity.
  - apply Forall_cons_iff in F. destruct F as [[Ne [L12 Fi]] Fr]. cbn [map app].
    rewrite (run_obs_cons _ _ _ _ _ _ _ _ (v2_cont_line rate ch s c l0 Cs Ne L12 Fi)).
    assert (K : cont2 (v2_line spec_q rate G2.obs_table) v2_end_marker (map epoch_cont_line_v2 r ++ tail) s
                  {| c_epoch := c_epoch c; c_sats := Some (l0 ++ map fix3 ch)%list; c_len := List.length (l0 ++ map fix3 ch)%list; c_acc := c_acc c |}
                = run_obs (v2_line spec_q rate G2.obs_table) v2_end_marker (map epoch_cont_line_v2 r ++ tail) s
                  {| c_epoch := c_epoch c; c_sats := Some (l0 ++ map fix3 ch)%list; c_len := List.length (l0 ++ map fix3 ch)%list; c_acc := c_acc c |}).
    { destruct r as [|ch2 r2]; cbn [map app].
      - destruct T as [l [tl [Et Em]]]. rewrite Et. cbn [cont2]. rewrite Em. reflexivity.
      - cbn [cont2]. rewrite cont_not_marker. reflexivity. }
    rewrite K. rewrite (IH (l0 ++ map fix3 ch)%list); try reflexivity; auto.
    cbn [c_epoch c_acc concat]. rewrite map_app, !List.app_assoc. reflexivity.
Qed.

Section Epoch2.
  Variable rate : option Q.
  Variables (Y fmo fd fh fmi : Z) (fsec : Q).
  Hypothesis HY : (1000 <= Y < 10000)%Z.
  Notation step := (v2_line spec_q rate G2.obs_table).

  Lemma epoch_head_run t ids tail s c :
    inv2_meta Y fmo fd fh fmi fsec s -> epoch_t_wf t -> (1980 <= ep_y t < 2080)%Z ->
    match ep_clk t with None => True | Some v => fits_F 12 9 v end -> fits_int 3 (Z.of_nat (List.length ids)) ->
    ids <> [] -> Forall sat2_id_ok ids ->
    (exists l tl, tail = l :: tl /\ v2_end_marker (l ++ nlc) = false) ->
    run_obs step v2_end_marker (epoch_lines_v2 t ids ++ tail) s c =
    run_obs step v2_end_marker tail s
      {| c_epoch := Some (einfo2 rate t (Z.of_nat (List.length ids))); c_sats := Some (map fix3 ids); c_len := List.length ids;
         c_acc := c_acc c |}.
  Proof.
    intros Inv W Hc Fc Fn Ne Fi T.
    destruct (chunks_props sat2_id_ok 12 ltac:(lia) (List.length ids) ids (le_n _) Fi) as [C1 C2].
    unfold epoch_lines_v2. destruct (chunks (List.length ids) 12 ids) as [|c0 cr] eqn:E.
    - cbn [concat] in C1. subst ids. contradiction.
    - apply Forall_cons_iff in C2. destruct C2 as [[Ne0 [L0 F0]] Fr]. cbn [app].
      rewrite (run_obs_cons _ _ _ _ _ _ _ _
                 (v2_first_line rate Y fmo fd fh fmi fsec t (Z.of_nat (List.length ids)) c0 s c Inv W Hc Fc Fn Ne0 L0 F0)).
      set (c1 := {| c_epoch := Some (einfo2 rate t (Z.of_nat (List.length ids))); c_sats := Some (map fix3 c0);
                    c_len := List.length c0; c_acc := c_acc c |}).
      assert (K : cont2 step v2_end_marker (map epoch_cont_line_v2 cr ++ tail) s c1
                  = run_obs step v2_end_marker (map epoch_cont_line_v2 cr ++ tail) s c1).
      { destruct cr as [|ch2 r2]; cbn [map app].
        - destruct T as [l [tl [Et Em]]]. rewrite Et. cbn [cont2]. rewrite Em. reflexivity.
        - cbn [cont2]. rewrite cont_not_marker. reflexivity. }
      rewrite K.
      rewrite (conts_run rate tail cr (map fix3 c0) s c1 eq_refl (eq_sym (map_length fix3 c0)) Fr T).
      cbn [c_epoch c_acc c1]. rewrite <- map_app. cbn [concat] in C1. rewrite C1. rewrite map_length. reflexivity.
  Qed.
End Epoch2.
