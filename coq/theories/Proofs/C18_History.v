(* C18 - lemmas about the history-lookup model (all unbounded: any history, any date). *)
From Coq Require Import ZArith List Bool String Ascii Lia Permutation.
From Verif Require Import Model.C18_History.
Import ListNotations.
Open Scope Z_scope.

(* ---------------------------------------------------------------- order on ext *)
Definition ext_le (a b : ext) : Prop := ext_leb a b = true.
Definition ext_lt (a b : ext) : Prop := ext_ltb a b = true.

Lemma ext_eqb_eq a b : ext_eqb a b = true <-> a = b.
Proof.
  destruct a, b; simpl; split; intros H; try discriminate; try reflexivity.
  - apply Z.eqb_eq in H. subst. reflexivity.
  - inversion H. apply Z.eqb_refl.
Qed.

Lemma key_eqb_eq a b : key_eqb a b = true <-> a = b.
Proof.
  destruct a as [a1 a2], b as [b1 b2]. unfold key_eqb. simpl.
  rewrite andb_true_iff, !ext_eqb_eq. split.
  - intros [-> ->]. reflexivity.
  - intros H. inversion H. auto.
Qed.

Lemma contains_spec k d :
  contains k d = true <-> ext_le (fst k) (Fin d) /\ ext_lt (Fin d) (snd k).
Proof. unfold contains, ext_le, ext_lt. apply andb_true_iff. Qed.

(* the reading of `contains` on finite bounds: from <= d < to *)
Lemma contains_fin f t d : contains (Fin f, Fin t) d = true <-> f <= d < t.
Proof.
  unfold contains, ext_ltb. simpl.
  rewrite !andb_true_iff, negb_true_iff, Z.leb_le, Z.leb_le, Z.eqb_neq. lia.
Qed.

Lemma contains_open_start t d : contains (NegInf, Fin t) d = true <-> d < t.
Proof.
  unfold contains, ext_ltb. simpl.
  rewrite andb_true_iff, negb_true_iff, Z.leb_le, Z.eqb_neq. lia.
Qed.

Lemma contains_open_end f d : contains (Fin f, PosInf) d = true <-> f <= d.
Proof. unfold contains, ext_ltb. simpl. rewrite andb_true_r, Z.leb_le. reflexivity. Qed.

Lemma contains_open_both d : contains (NegInf, PosInf) d = true.
Proof. reflexivity. Qed.

(* ---------------------------------------------------------------- get_at *)

Lemma get_at_sound h d i :
  get_at h d = Found i -> exists k, In (k, i) h /\ contains k d = true.
Proof.
  induction h as [|[k j] r IH]; simpl; [discriminate|].
  destruct (contains k d) eqn:E.
  - intros H. inversion H. subst. exists k. split; [left; reflexivity|exact E].
  - intros H. destruct (IH H) as [k' [Hin Hc]]. exists k'. split; [right; exact Hin|exact Hc].
Qed.

Lemma get_at_found_or_nothing h d : (exists i, get_at h d = Found i) \/ get_at h d = Nothing.
Proof.
  induction h as [|[k j] r IH]; simpl; [right; reflexivity|].
  destruct (contains k d); [left; eexists; reflexivity|exact IH].
Qed.

Lemma get_at_complete h d k i :
  In (k, i) h -> contains k d = true -> exists j, get_at h d = Found j.
Proof.
  induction h as [|[k' j] r IH]; simpl; [intros []|].
  intros [H|H] Hc.
  - inversion H. subst. rewrite Hc. eexists; reflexivity.
  - destruct (contains k' d); [eexists; reflexivity|]. apply IH; assumption.
Qed.

Lemma get_at_none h d :
  (forall k i, In (k, i) h -> contains k d = false) <-> get_at h d = Nothing.
Proof.
  induction h as [|[k j] r IH]; simpl.
  - split; [reflexivity|intros _ k i []].
  - split.
    + intros H. rewrite (H k j (or_introl eq_refl)). apply IH. intros k' i' Hin. apply (H k' i'). right. exact Hin.
    + destruct (contains k d) eqn:E; [discriminate|]. intros H k' i' [Hin|Hin].
      * inversion Hin. subst. exact E.
      * apply (proj2 IH H k' i' Hin).
Qed.

(* pairwise disjoint validity intervals: no date lies in two different entries *)
Definition disjoint (h : history) : Prop :=
  forall k1 i1 k2 i2 d, In (k1, i1) h -> In (k2, i2) h ->
    contains k1 d = true -> contains k2 d = true -> (k1, i1) = (k2, i2).

Lemma get_at_unique h d k i :
  disjoint h -> In (k, i) h -> contains k d = true -> get_at h d = Found i.
Proof.
  intros Hd Hin Hc.
  destruct (get_at_complete h d k i Hin Hc) as [j Hj].
  destruct (get_at_sound h d j Hj) as [k' [Hin' Hc']].
  pose proof (Hd k i k' j d Hin Hin' Hc Hc') as E. inversion E. subst. exact Hj.
Qed.

Lemma disjoint_perm h h' : Permutation h h' -> disjoint h -> disjoint h'.
Proof.
  intros P D k1 i1 k2 i2 d H1 H2. apply D; eapply Permutation_in; try apply Permutation_sym; eauto.
Qed.

(* the answer does not depend on the order in which the intervals were inserted *)
Lemma get_at_perm h h' d : disjoint h -> Permutation h h' -> get_at h d = get_at h' d.
Proof.
  intros D P.
  destruct (get_at_found_or_nothing h d) as [[i Hi]|Hn].
  - rewrite Hi. destruct (get_at_sound h d i Hi) as [k [Hin Hc]]. symmetry.
    apply get_at_unique with (k := k); [eapply disjoint_perm; eauto| eapply Permutation_in; eauto | exact Hc].
  - rewrite Hn. symmetry. apply get_at_none. intros k i Hin.
    apply (proj2 (get_at_none h d) Hn k i). eapply Permutation_in; [apply Permutation_sym; exact P|exact Hin].
Qed.

(* ---------------------------------------------------------------- get_last *)

Definition key_le (a b : key) : Prop := key_ltb a b = true \/ a = b.

Lemma ext_leb_refl a : ext_leb a a = true.
Proof. destruct a; simpl; try reflexivity. apply Z.leb_refl. Qed.

Lemma ext_leb_trans a b c : ext_leb a b = true -> ext_leb b c = true -> ext_leb a c = true.
Proof.
  destruct a, b, c; simpl; try reflexivity; try discriminate.
  rewrite !Z.leb_le. lia.
Qed.

Lemma ext_leb_antisym a b : ext_leb a b = true -> ext_leb b a = true -> a = b.
Proof.
  destruct a, b; simpl; try reflexivity; try discriminate.
  rewrite !Z.leb_le. intros. f_equal. lia.
Qed.

Lemma ext_leb_total a b : ext_leb a b = true \/ ext_leb b a = true.
Proof. destruct a, b; simpl; auto. rewrite !Z.leb_le. lia. Qed.

Lemma ext_ltb_spec a b : ext_ltb a b = true <-> ext_leb a b = true /\ a <> b.
Proof.
  unfold ext_ltb. rewrite andb_true_iff, negb_true_iff. split; intros [H1 H2]; split; auto.
  - intros E. apply ext_eqb_eq in E. congruence.
  - destruct (ext_eqb a b) eqn:E; [|reflexivity]. apply ext_eqb_eq in E. contradiction.
Qed.

Lemma ext_ltb_trans a b c : ext_ltb a b = true -> ext_ltb b c = true -> ext_ltb a c = true.
Proof.
  rewrite !ext_ltb_spec. intros [H1 N1] [H2 N2]. split; [eapply ext_leb_trans; eauto|].
  intros ->. apply N1. apply ext_leb_antisym; assumption.
Qed.

Lemma key_ltb_trans a b c : key_ltb a b = true -> key_ltb b c = true -> key_ltb a c = true.
Proof.
  unfold key_ltb. rewrite !orb_true_iff, !andb_true_iff.
  intros [H1|[E1 H1]] [H2|[E2 H2]].
  - left. eapply ext_ltb_trans; eauto.
  - apply ext_eqb_eq in E2. rewrite <- E2. left. exact H1.
  - apply ext_eqb_eq in E1. rewrite E1. left. exact H2.
  - apply ext_eqb_eq in E1. apply ext_eqb_eq in E2. right. split.
    + apply ext_eqb_eq. congruence.
    + eapply ext_ltb_trans; eauto.
Qed.

Lemma key_le_trans a b c : key_le a b -> key_le b c -> key_le a c.
Proof.
  intros [H1| ->] [H2| ->]; try (left; assumption); try (right; reflexivity).
  left. eapply key_ltb_trans; eauto.
Qed.

Lemma key_total a b : key_ltb a b = true \/ key_le b a.
Proof.
  destruct a as [a1 a2], b as [b1 b2]. unfold key_le, key_ltb. simpl.
  destruct (ext_ltb a1 b1) eqn:L1; [left; reflexivity|]. simpl.
  destruct (ext_eqb a1 b1) eqn:E1; simpl.
  - apply ext_eqb_eq in E1. subst b1.
    destruct (ext_ltb a2 b2) eqn:L2; [left; reflexivity|]. right.
    assert (ext_eqb a1 a1 = true) as R by (apply ext_eqb_eq; reflexivity). rewrite R. simpl.
    destruct (ext_eqb a2 b2) eqn:E2.
    + apply ext_eqb_eq in E2. subst. right. reflexivity.
    + left. rewrite orb_true_iff. right.
      apply ext_ltb_spec. split.
      * destruct (ext_leb_total a2 b2) as [H|H]; [|exact H].
        exfalso. assert (ext_ltb a2 b2 = true); [|congruence].
        apply ext_ltb_spec. split; [exact H|]. intros ->.
        assert (ext_eqb b2 b2 = true) by (apply ext_eqb_eq; reflexivity). congruence.
      * intros ->. assert (ext_eqb a2 a2 = true) by (apply ext_eqb_eq; reflexivity). congruence.
  - right. left. rewrite orb_true_iff. left.
    apply ext_ltb_spec. split.
    + destruct (ext_leb_total a1 b1) as [H|H]; [|exact H].
      exfalso. assert (ext_ltb a1 b1 = true); [|congruence].
      apply ext_ltb_spec. split; [exact H|]. intros ->.
      assert (ext_eqb b1 b1 = true) by (apply ext_eqb_eq; reflexivity). congruence.
    + intros ->. assert (ext_eqb a1 a1 = true) by (apply ext_eqb_eq; reflexivity). congruence.
Qed.

Lemma max_entry_spec r : forall e,
  (max_entry e r = e \/ In (max_entry e r) r) /\
  key_le (fst e) (fst (max_entry e r)) /\
  (forall x, In x r -> key_le (fst x) (fst (max_entry e r))).
Proof.
  unfold max_entry. induction r as [|x r IH]; intros e; simpl.
  - split; [left; reflexivity|]. split; [right; reflexivity|intros x []].
  - destruct (key_ltb (fst e) (fst x)) eqn:L.
    + destruct (IH x) as [H1 [H2 H3]]. split; [|split].
      * destruct H1 as [H1|H1]; right; [left; symmetry; exact H1|right; exact H1].
      * eapply key_le_trans; [left; exact L|exact H2].
      * intros y [-> |Hy]; [exact H2|apply H3; exact Hy].
    + destruct (IH e) as [H1 [H2 H3]]. split; [|split].
      * destruct H1 as [H1|H1]; [left; exact H1|right; right; exact H1].
      * exact H2.
      * intros y [<- |Hy]; [|apply H3; exact Hy].
        destruct (key_total (fst e) (fst x)) as [H|H]; [congruence|].
        eapply key_le_trans; [exact H|exact H2].
Qed.

Lemma get_last_spec h i :
  get_last h = Found i ->
  exists k, In (k, i) h /\ forall k' i', In (k', i') h -> key_le k' k.
Proof.
  destruct h as [|e r]; simpl; [discriminate|].
  intros H. inversion H as [Hi]. clear H.
  destruct (max_entry_spec r e) as [H1 [H2 H3]].
  destruct (max_entry e r) as [k j] eqn:M. simpl in *. exists k. split.
  - destruct H1 as [H1|H1]; [left; congruence|right; exact H1].
  - intros k' i' [Hin|Hin]; [subst e; exact H2|apply (H3 (k', i') Hin)].
Qed.

(* key order puts the start first: the 'last' entry has the latest start *)
Lemma key_le_fst a b : key_le a b -> ext_leb (fst a) (fst b) = true.
Proof.
  intros [H| ->]; [|apply ext_leb_refl].
  unfold key_ltb in H. apply orb_true_iff in H. destruct H as [H|H].
  - apply ext_ltb_spec in H. tauto.
  - apply andb_true_iff in H. destruct H as [E _]. apply ext_eqb_eq in E. rewrite E. apply ext_leb_refl.
Qed.

Lemma get_last_latest_start h i :
  get_last h = Found i ->
  exists k, In (k, i) h /\ forall k' i', In (k', i') h -> ext_leb (fst k') (fst k) = true.
Proof.
  intros H. destruct (get_last_spec h i H) as [k [Hin Hmax]]. exists k. split; [exact Hin|].
  intros k' i' H'. apply key_le_fst. eapply Hmax; eauto.
Qed.

Lemma get_last_nonempty h : h <> [] -> exists i, get_last h = Found i.
Proof. destruct h; [congruence|]. intros _. eexists. reflexivity. Qed.

(* ---------------------------------------------------------------- create_history *)

Lemma dict_set_in_other h k v k' v' :
  k' <> k -> (In (k', v') (dict_set h k v) <-> In (k', v') h).
Proof.
  intros N. induction h as [|[k0 v0] r IH]; simpl.
  - split; [intros [H|[]]; inversion H; congruence|intros []].
  - destruct (key_eqb k k0) eqn:E.
    + apply key_eqb_eq in E. subst k0. simpl. split; intros [H|H]; try (right; exact H); inversion H; congruence.
    + simpl. rewrite IH. reflexivity.
Qed.

Lemma dict_set_fresh h k v :
  (forall v0, ~ In (k, v0) h) -> dict_set h k v = h ++ [(k, v)].
Proof.
  induction h as [|[k0 v0] r IH]; simpl; intros F; [reflexivity|].
  destruct (key_eqb k k0) eqn:E.
  - apply key_eqb_eq in E. subst. exfalso. apply (F v0). left. reflexivity.
  - f_equal. apply IH. intros v1 H. apply (F v1). right. exact H.
Qed.

Definition entry_of (r : raw) : key * Z := (key_of_raw r, raw_id r).

(* with pairwise different validity intervals the history is exactly the source records, in order *)
Lemma create_history_nodup_gen rs : forall h,
  NoDup (map fst h ++ map key_of_raw rs) ->
  fold_left (fun h r => dict_set h (key_of_raw r) (raw_id r)) rs h = h ++ map entry_of rs.
Proof.
  induction rs as [|r rs IH]; intros h ND; simpl.
  - rewrite app_nil_r. reflexivity.
  - rewrite dict_set_fresh.
    + rewrite IH.
      * rewrite <- app_assoc. reflexivity.
      * rewrite map_app. simpl. rewrite <- app_assoc. simpl. exact ND.
    + intros v0 Hin. simpl in ND. apply NoDup_remove_2 in ND. apply ND.
      apply in_or_app. left. change (key_of_raw r) with (fst (key_of_raw r, v0)). apply in_map. exact Hin.
Qed.

Lemma create_history_nodup rs :
  NoDup (map key_of_raw rs) -> create_history rs = map entry_of rs.
Proof. intros ND. unfold create_history. rewrite create_history_nodup_gen; [reflexivity|exact ND]. Qed.

(* open-ended source records become infinite bounds *)
Lemma open_start_is_neginf e i : fst (key_of_raw (None, e, i)) = NegInf.
Proof. reflexivity. Qed.
Lemma open_end_is_posinf s i : snd (key_of_raw (s, None, i)) = PosInf.
Proof. reflexivity. Qed.

(* ---------------------------------------------------------------- station normalisation *)

Lemma lower_upper_ascii a : lower_ascii (upper_ascii a) = lower_ascii a.
Proof. destruct a as [[] [] [] [] [] [] [] []]; vm_compute; reflexivity. Qed.
Lemma lower_lower_ascii a : lower_ascii (lower_ascii a) = lower_ascii a.
Proof. destruct a as [[] [] [] [] [] [] [] []]; vm_compute; reflexivity. Qed.

Lemma lower_upper s : lower (upper s) = lower s.
Proof. unfold lower, upper. induction s as [|a r IH]; cbn [smap]; [reflexivity|]. rewrite lower_upper_ascii. f_equal. exact IH. Qed.
Lemma lower_idem s : lower (lower s) = lower s.
Proof. unfold lower. induction s as [|a r IH]; cbn [smap]; [reflexivity|]. rewrite lower_lower_ascii. f_equal. exact IH. Qed.

Fixpoint no_char (c : ascii) (s : string) : bool :=
  match s with EmptyString => true | String a r => negb (Ascii.eqb a c) && no_char c r end.

Lemma split_on_no_char c s : no_char c s = true -> split_on c s = [s].
Proof.
  induction s as [|a r IH]; simpl; [reflexivity|].
  intros H. apply andb_true_iff in H. destruct H as [H1 H2]. apply negb_true_iff in H1.
  rewrite H1, (IH H2). reflexivity.
Qed.

Lemma split_on_app c s t :
  no_char c s = true -> split_on c (append s (String c t)) = s :: split_on c t.
Proof.
  induction s as [|a r IH]; simpl.
  - intros _. rewrite Ascii.eqb_refl. reflexivity.
  - intros H. apply andb_true_iff in H. destruct H as [H1 H2]. apply negb_true_iff in H1.
    rewrite H1, (IH H2). reflexivity.
Qed.

Lemma split_join c l :
  l <> [] -> forallb (no_char c) l = true -> split_on c (join c l) = l.
Proof.
  induction l as [|x r IH]; [congruence|]. intros _ H. simpl in H.
  apply andb_true_iff in H. destruct H as [Hx Hr].
  destruct r as [|y r'].
  - simpl. apply split_on_no_char. exact Hx.
  - change (join c (x :: y :: r')) with (append x (String c (join c (y :: r')))).
    rewrite split_on_app by exact Hx. f_equal. apply IH; [congruence|exact Hr].
Qed.

Definition stripped (s : string) : bool := String.eqb (strip s) s.

(* a comma-separated text and the list of its items denote the same stations *)
Lemma normalize_text_list l :
  l <> [] -> forallb (no_char comma) l = true -> forallb stripped l = true ->
  normalize (AsText (join comma l)) = normalize (AsList l).
Proof.
  intros NE NC ST. unfold normalize. rewrite split_join by assumption.
  apply map_ext_in. intros s Hin.
  rewrite forallb_forall in ST. specialize (ST s Hin). unfold stripped in ST.
  apply String.eqb_eq in ST. rewrite ST. reflexivity.
Qed.

(* letter case of the request is irrelevant *)
Lemma normalize_case_list l : normalize (AsList (map upper l)) = normalize (AsList l).
Proof. unfold normalize. rewrite map_map. apply map_ext. intros s. apply lower_upper. Qed.

Lemma normalize_lower_list l : normalize (AsList (map lower l)) = normalize (AsList l).
Proof. unfold normalize. rewrite map_map. apply map_ext. intros s. apply lower_idem. Qed.

Lemma module_get_forms sd l q :
  l <> [] -> forallb (no_char comma) l = true -> forallb stripped l = true ->
  module_get sd (AsText (join comma l)) q = module_get sd (AsList l) q.
Proof. intros. unfold module_get, module_getq. rewrite normalize_text_list by assumption. reflexivity. Qed.

Lemma module_get_case sd l q : module_get sd (AsList (map upper l)) q = module_get sd (AsList l) q.
Proof. unfold module_get, module_getq. rewrite normalize_case_list. reflexivity. Qed.

Lemma site_info_forms mods l q :
  l <> [] -> forallb (no_char comma) l = true -> forallb stripped l = true ->
  site_info_get mods (AsText (join comma l)) q = site_info_get mods (AsList l) q.
Proof. intros. unfold site_info_get. rewrite normalize_text_list by assumption. reflexivity. Qed.

(* the combined query is, station by station, what the modules return *)
Lemma site_info_row mods st q n sd :
  nth_error mods n = Some sd ->
  nth_error (site_info_get1 mods st q) n = Some (module_get1 sd st q).
Proof. intros H. unfold site_info_get1. apply (map_nth_error (fun sd0 : source => module_get1 sd0 st q) n mods H). Qed.

(* ---------------------------------------------------------------- purity of repeated queries *)

Lemma qrun_pure rs qs :
  qrun all_off (Some rs) qs = map (fun q => snd (qstep all_off (Some rs) q)) qs.
Proof. induction qs as [|q r IH]; simpl; [reflexivity|]. f_equal. exact IH. Qed.

Lemma pop_quirk_refuted :
  exists rs qs, qrun {| pop_pos_vel := true; upper_key_err := false |} (Some rs) qs <> qrun all_off (Some rs) qs.
Proof. exists [(Some 0, Some 10, 7)], [At 5; At 5]. vm_compute. discriminate. Qed.

(* ---------------------------------------------------------------- one-shot iterables, get_history (round e) *)

(* a one-shot iterable (generator expression, map / filter object, iterator) is the list it enumerates *)
Lemma normalize_iter l : normalize (AsIter l) = normalize (AsList l).
Proof. reflexivity. Qed.

Lemma normalize_idem st : normalize (AsList (normalize st)) = normalize st.
Proof.
  destruct st as [s|l|l]; unfold normalize; rewrite map_map; apply map_ext; intros x; apply lower_idem.
Qed.

Lemma iter_forms sd mods l q :
  module_get sd (AsIter l) q = module_get sd (AsList l) q /\
  module_get_history sd (AsIter l) = module_get_history sd (AsList l) /\
  site_info_get mods (AsIter l) q = site_info_get mods (AsList l) q /\
  site_info_get_history mods (AsIter l) = site_info_get_history mods (AsList l).
Proof. repeat split; reflexivity. Qed.

Lemma sdict_adict d k v : sdict_set d k v = adict_set d k v.
Proof. induction d as [|[k' v'] r IH]; simpl; [reflexivity|]. rewrite IH. reflexivity. Qed.

(* column n of a combined result: {station: value of module n} *)
Definition column {A : Type} (n : nat) (dflt : A) (rows : list (string * list A)) : list (string * A) :=
  map (fun p => (fst p, nth n (snd p) dflt)) rows.

Lemma column_set {A : Type} n (dflt : A) acc st row :
  column n dflt (adict_set acc st row) = adict_set (column n dflt acc) st (nth n row dflt).
Proof.
  unfold column. induction acc as [|[k' v'] r IH]; simpl; [reflexivity|].
  destruct (String.eqb st k'); simpl; [reflexivity|]. f_equal. exact IH.
Qed.

Lemma find_none_all {A : Type} (f : A -> bool) l : find f l = None -> forall x, In x l -> f x = false.
Proof.
  induction l as [|a r IH]; simpl; intros H x Hin; [destruct Hin|].
  destruct (f a) eqn:E; [discriminate|]. destruct Hin as [->|Hin]; [exact E|]. apply IH; assumption.
Qed.

Lemma site_info_list_column mods n sd q : nth_error mods n = Some sd ->
  forall sts acc rows,
  site_info_list mods sts q acc = inl rows ->
  module_get_list all_off sd sts q (column n Nothing acc) = inl (column n Nothing rows).
Proof.
  intros Hn. induction sts as [|st r IH]; intros acc rows H; simpl in *.
  - inversion H. reflexivity.
  - destruct (find is_err (site_info_get1 mods st q)) eqn:F; [discriminate|].
    assert (Hrow : nth_error (site_info_get1 mods st q) n = Some (module_get1 sd st q)).
    { unfold site_info_get1. apply (map_nth_error (fun sd0 : source => module_get1 sd0 st q) n mods Hn). }
    assert (Hv : nth n (site_info_get1 mods st q) Nothing = module_get1 sd st q).
    { apply nth_error_nth. exact Hrow. }
    fold (module_get1 sd st q).
    rewrite (find_none_all is_err _ F (module_get1 sd st q) (nth_error_In _ _ Hrow)).
    rewrite sdict_adict, <- Hv, <- column_set. apply IH. exact H.
Qed.

(* the combined query, on ANY form of the station argument, is column by column what the module returns for
   the list of names the argument denotes *)
Lemma site_info_get_column mods st q n sd rows :
  nth_error mods n = Some sd ->
  site_info_get mods st q = inl rows ->
  module_get sd (AsList (normalize st)) q = inl (column n Nothing rows).
Proof.
  intros Hn H. unfold module_get, module_getq. rewrite normalize_idem.
  apply (site_info_list_column mods n sd q Hn (normalize st) [] rows H).
Qed.

Lemma hrow_nth l : forall row, hrow l = inl row ->
  forall n x, nth_error l n = Some x -> x = inl (nth n row None).
Proof.
  induction l as [|a r IH]; intros row H n x Hn.
  - destruct n; discriminate.
  - simpl in H. destruct a as [h|e]; [|discriminate].
    destruct (hrow r) as [t|e] eqn:E; [|discriminate]. inversion H; subst row.
    destruct n as [|n]; simpl in *.
    + inversion Hn. reflexivity.
    + apply (IH t eq_refl n x Hn).
Qed.

Lemma site_info_hist_list_column mods n sd : nth_error mods n = Some sd ->
  forall sts acc rows,
  site_info_hist_list mods sts acc = inl rows ->
  module_hist_list sd sts (column n None acc) = inl (column n None rows).
Proof.
  intros Hn. induction sts as [|st r IH]; intros acc rows H; simpl in *.
  - inversion H. reflexivity.
  - destruct (hrow (site_info_hist1 mods st)) as [row|e] eqn:F; [|discriminate].
    assert (Hrow : nth_error (site_info_hist1 mods st) n = Some (module_hist1 sd st)).
    { unfold site_info_hist1. apply (map_nth_error (fun sd0 : source => module_hist1 sd0 st) n mods Hn). }
    rewrite (hrow_nth _ row F n _ Hrow).
    rewrite <- column_set. apply IH. exact H.
Qed.

Lemma site_info_get_history_column mods st n sd rows :
  nth_error mods n = Some sd ->
  site_info_get_history mods st = inl rows ->
  module_get_history sd (AsList (normalize st)) = inl (column n None rows).
Proof.
  intros Hn H. unfold module_get_history. rewrite normalize_idem.
  apply (site_info_hist_list_column mods n sd Hn (normalize st) [] rows H).
Qed.

(* a dated query is the lookup in the history that get_history returns *)
Lemma module_get_via_history sd st q :
  match module_hist1 sd st with
  | inl (Some h) => module_get1 sd st q = get h q
  | inl None => module_get1 sd st q = Nothing
  | inr e => module_get1 sd st q = e
  end.
Proof.
  unfold module_hist1, module_get1, module_get1q, lookup_station.
  destruct sd as [|p sd']; [destruct q; reflexivity|].
  destruct (assoc st (p :: sd')) as [[rs|]|]; try reflexivity.
  destruct (assoc (upper st) (p :: sd')) as [[rs|]|]; reflexivity.
Qed.
