(* C05 - proofs about the ellipsoid flow model (Model/C05_Flow.v). *)
From Coq Require Import ZArith List Bool String Lia.
From Verif Require Import Model.C05_Flow.
Import ListNotations.

Lemma knows_forwards_true tbl s :
  forallb (fun e : string * bool => snd e) tbl = true -> knows tbl s = true -> forwards tbl s = true.
Proof.
  induction tbl as [|[n b] t IH]; simpl; intros Hall Hk; [discriminate|].
  apply andb_prop in Hall. destruct Hall as [Hb Ht]. simpl in Hb.
  destruct (String.eqb n s); [exact Hb|]. simpl in Hk. apply IH; assumption.
Qed.

Lemma sites_in_model k o s : In s (sites k o) -> In s model_sites.
Proof.
  intros H. unfold model_sites. apply in_flat_map. exists o. split.
  - destruct o; simpl; tauto.
  - apply in_flat_map. exists k. split; [destruct k; simpl; tauto | exact H].
Qed.

Lemma all_true_op_forwards tbl k o : table_all_true tbl = true -> op_forwards tbl k o = true.
Proof.
  unfold table_all_true. intros H. apply andb_prop in H. destruct H as [Hall Hk].
  unfold op_forwards. apply forallb_forall. intros s Hs.
  apply knows_forwards_true; [exact Hall|].
  rewrite forallb_forall in Hk. apply Hk. exact (sites_in_model k o s Hs).
Qed.

(* the general statement: over a table that forwards everywhere the model is the specification, for every operation list *)
Lemma run_spec tbl dflt : table_all_true tbl = true ->
  forall ops s, run tbl dflt ops s = spec_run ops s.
Proof.
  intros H ops. unfold run, spec_run. induction ops as [|o ops IH]; intros [k t]; simpl; [reflexivity|].
  rewrite (all_true_op_forwards tbl k o H). apply IH.
Qed.

Lemma spec_run_tag ops : forall s, snd (spec_run ops s) = snd s.
Proof.
  unfold spec_run. induction ops as [|o ops IH]; intros [k t]; simpl; [reflexivity|].
  rewrite IH. reflexivity.
Qed.

Lemma ellipsoid_preserved_l tbl dflt :
  table_all_true tbl = true -> forall ops s, snd (run tbl dflt ops s) = snd s.
Proof. intros H ops s. rewrite (run_spec tbl dflt H). apply spec_run_tag. Qed.

(* also the tags of all intermediate results *)
Lemma tags_along_spec ops : forall s, Forall (fun t => t = snd s) (tags_along spec_step s ops).
Proof.
  induction ops as [|o ops IH]; intros [k t]; simpl; constructor; [reflexivity|].
  exact (IH (kind_after k o, t)).
Qed.

Lemma tags_along_all_true tbl dflt : table_all_true tbl = true ->
  forall ops s, tags_along (step tbl dflt) s ops = tags_along spec_step s ops.
Proof.
  intros H ops. induction ops as [|o ops IH]; intros [k t]; simpl; [reflexivity|].
  rewrite (all_true_op_forwards tbl k o H). simpl. f_equal. apply IH.
Qed.

Lemma ellipsoid_preserved_everywhere_l tbl dflt :
  table_all_true tbl = true -> forall ops s, Forall (fun t => t = snd s) (tags_along (step tbl dflt) s ops).
Proof. intros H ops s. rewrite (tags_along_all_true tbl dflt H). apply tags_along_spec. Qed.

(* whatever the table: operation lists that only pass through forwarding sites keep the ellipsoid *)
Lemma forwarding_ops_preserve_l tbl dflt : forall ops k t,
  ops_forward tbl k ops = true -> snd (run tbl dflt ops (k, t)) = t.
Proof.
  unfold run. induction ops as [|o ops IH]; intros k t H; simpl; [reflexivity|].
  simpl in H. apply andb_prop in H. destruct H as [H1 H2]. rewrite H1. apply IH. exact H2.
Qed.

(* quirk c05_ellipsoid_dropped: with the hand-over table of the unchanged tree a WGS84 (3) position is on GRS80 (2)
   after a single conversion / slice-free history *)
Lemma dropped_refuted_l :
  exists ops s, snd (run dropping_table_2026 2 ops s) <> snd s.
Proof. exists [OConvert], (KPos, 3%nat). vm_compute. discriminate. Qed.

(* ... while slicing and insertion did keep it *)
Lemma dropped_table_keeps_getitem :
  forall t, snd (run dropping_table_2026 2 [OGetitem; OInsert; OView; OCreate] (KPos, t)) = t.
Proof. intros t. apply forwarding_ops_preserve_l. vm_compute. reflexivity. Qed.

(* the decision procedure of the correspondence is sound: verdict 0 means every observed tag is the initial one *)
Lemma nats_eqb_eq a : forall b, nats_eqb a b = true -> a = b.
Proof.
  induction a as [|x a IH]; intros [|y b] H; simpl in H; try discriminate; [reflexivity|].
  apply andb_prop in H. destruct H as [H1 H2]. apply Nat.eqb_eq in H1. subst. f_equal. apply IH. exact H2.
Qed.

Lemma check_flow_sound_l dflt k tag ops observed :
  check_flow (dflt, k, tag, ops, observed) = 0%Z -> List.length observed = List.length ops /\ Forall (fun t => t = tag) observed.
Proof.
  unfold check_flow.
  destruct (nats_eqb observed (tags_along spec_step (kind_of_nat k, tag) ops)) eqn:E.
  - intros _. apply nats_eqb_eq in E. subst observed. split.
    + generalize (kind_of_nat k, tag). induction ops as [|o ops IH]; intros s; simpl; [reflexivity|].
      f_equal. apply IH.
    + exact (tags_along_spec ops (kind_of_nat k, tag)).
  - destruct (nats_eqb observed (tags_along (step _ _) _ _)); intros H; discriminate H.
Qed.
