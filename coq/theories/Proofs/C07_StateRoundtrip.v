(* C07 - state -> Keplerian elements -> state is the identity over R (DESIGN 4.7).

   Main result
   -----------
   state_roundtrip :
     0 < GM -> bound_state GM r v -> inclined_state r v -> noncircular_state GM r v ->
     kepler2trs GM (trs2kepler GM r v) = (r, v)
   with the two halves state_roundtrip_pos / state_roundtrip_vel.  No hypothesis beyond the domain of the property is
   needed: none of the arctan2 branch cuts matters, because only the sine and cosine of the angles enter kepler2trs
   (Atan2.atan2_sin_cos), and the `omega < 0` wrap adds a full turn.

   Proof outline.  h = r x v, W = h/|h|.  With i, Omega as trs2kepler computes them, W = (sin i sin Omega,
   - sin i cos Omega, cos i) is the third column of A = R3(-Omega) R1(-i); A is a rotation and PQW = A R3(-omega), so it
   suffices to compare  R3(-omega) r_orb  with  A^T r  (and the same for v) -- `sr_reduce`.  A^T r = (r.N, r.M, r.W) with
   r.W = 0; the argument of latitude gives (r.N, r.M) = |r| (cos u, sin u); the eccentric anomaly gives
   a (1 - e cos E) = |r| and r.v = sqrt(GM a) e sin E (via Lagrange's identity), the true anomaly gives
   r_orb = |r| (cos nu, sin nu, 0), and omega + nu = u modulo a turn.  For the velocity, the radial and transverse
   components of v_orb are r.v/|r| and |h|/|r|, which determine (v.N, v.M) because A^T preserves dot and cross products.

   Every helper is prefixed sr_.  Axioms: the standard library's real-number axioms only. *)
From Coq Require Import Reals Lra Psatz.
From Verif Require Import Lib.Atan2 Lib.Vec3 Lib.Mat3 Model.C07_Kepler.
Open Scope R_scope.

(* ================================================================= rotations *)
Lemma sr_sc a : cos a * cos a + sin a * sin a = 1.
Proof. pose proof (sin2_cos2 a) as H. unfold Rsqr in H. lra. Qed.

Lemma sr_rot_R1 a : rotation (R1 a).
Proof.
  pose proof (sr_sc a) as H. split.
  - unfold R1. mat3_unfold. apply mat3_eq; cbn [m11 m12 m13 m21 m22 m23 m31 m32 m33]; nra.
  - unfold R1. mat3_unfold. nra.
Qed.

Lemma sr_rot_R3 a : rotation (R3 a).
Proof.
  pose proof (sr_sc a) as H. split.
  - unfold R3. mat3_unfold. apply mat3_eq; cbn [m11 m12 m13 m21 m22 m23 m31 m32 m33]; nra.
  - unfold R3. mat3_unfold. nra.
Qed.

(* the node/inclination part of PQW; its columns are the node direction N, M = W x N and the orbit normal W *)
Definition sr_A (Om i : R) : mat3 := mmul (R3 (- Om)) (R1 (- i)).

Lemma sr_A_rot Om i : rotation (sr_A Om i).
Proof. apply rotation_mul; [apply sr_rot_R3 | apply sr_rot_R1]. Qed.

Lemma sr_frame_explicit Om i a :
  mvec (mtrans (sr_A Om i)) a =
  V3 (vx a * cos Om + vy a * sin Om)
     (- vx a * (cos i * sin Om) + vy a * (cos i * cos Om) + vz a * sin i)
     (vx a * (sin i * sin Om) - vy a * (sin i * cos Om) + vz a * cos i).
Proof. unfold sr_A, R1, R3. rewrite !cos_neg, !sin_neg. mat3. Qed.

(* it suffices to compare in the orbital frame *)
Lemma sr_reduce a e i Om om E q w :
  mvec (R3 (- om)) q = mvec (mtrans (sr_A Om i)) w ->
  mvec (PQW (Kep a e i Om om E)) q = w.
Proof.
  intros H. unfold PQW. cbn [k_Omega k_i k_omega]. fold (sr_A Om i).
  rewrite mvec_mul, H. apply rotation_roundtrip'. apply sr_A_rot.
Qed.

(* ================================================================= algebra over R *)
Lemma sr_wrap w : cos (wrap_neg w) = cos w /\ sin (wrap_neg w) = sin w.
Proof.
  unfold wrap_neg. destruct (Rlt_dec w 0); [|split; reflexivity].
  rewrite cos_plus, sin_plus, cos_2PI, sin_2PI. split; ring.
Qed.

(* rotating (A, B) by nu and then by u - nu is rotating it by u *)
Lemma sr_rot2 A B cnu snu cu su :
  cnu * cnu + snu * snu = 1 ->
  (A * cnu - B * snu) * (cu * cnu + su * snu) - (A * snu + B * cnu) * (su * cnu - cu * snu) = A * cu - B * su /\
  (A * cnu - B * snu) * (su * cnu - cu * snu) + (A * snu + B * cnu) * (cu * cnu + su * snu) = A * su + B * cu.
Proof.
  intros H. split.
  - transitivity ((A * cu - B * su) * (cnu * cnu + snu * snu)); [ring | rewrite H; ring].
  - transitivity ((A * su + B * cu) * (cnu * cnu + snu * snu)); [ring | rewrite H; ring].
Qed.

Lemma sr_a_pos GM rho vv : 0 < GM -> 0 < rho -> vv / GM < 2 / rho -> 0 < 1 / (2 / rho - vv / GM).
Proof. intros. unfold Rdiv at 1. rewrite Rmult_1_l. apply Rinv_0_lt_compat. lra. Qed.

Lemma sr_rho_a GM rho vv : 0 < GM -> 0 < rho -> vv / GM < 2 / rho ->
  rho / (1 / (2 / rho - vv / GM)) = 2 - rho * vv / GM.
Proof.
  intros HG Hr H. set (d := 2 / rho - vv / GM). assert (0 < d) by (unfold d; lra).
  replace (rho / (1 / d)) with (rho * d) by (field; lra). unfold d. field. lra.
Qed.

(* vis-viva + Lagrange: (r.v)^2 + GM a (1 - rho/a)^2 = GM a e^2 *)
Lemma sr_energy GM rho a vv rv hn s :
  0 < GM -> 0 < rho -> 0 < a ->
  rho / a = 2 - rho * vv / GM ->
  hn * hn = rho * rho * vv - rv * rv ->
  s * s = GM * a ->
  s * (1 - rho / a) * (s * (1 - rho / a)) + rv * rv = s * s * (1 - hn * hn / GM / a).
Proof.
  intros HG Hr Ha H1 H2 H3.
  assert (Hvv : vv = (2 - rho / a) * GM / rho) by (rewrite H1; field; lra).
  replace (s * (1 - rho / a) * (s * (1 - rho / a))) with (s * s * ((1 - rho / a) * (1 - rho / a))) by ring.
  rewrite H3, H2, Hvv. field. lra.
Qed.

Lemma sr_lt1 e P : 0 < e -> 0 < P -> e * e = 1 - P -> e < 1.
Proof. intros. nra. Qed.

Lemma sr_anom e cE sE fac :
  cE * cE + sE * sE = 1 -> fac * fac = 1 - e * e ->
  (cE - e) * (cE - e) + fac * sE * (fac * sE) = (1 - e * cE) * (1 - e * cE).
Proof.
  intros H1 H2. assert (H3 : sE * sE = 1 - cE * cE) by lra.
  replace (fac * sE * (fac * sE)) with (fac * fac * (sE * sE)) by ring. rewrite H2, H3. ring.
Qed.

(* radial / transverse components of the model velocity *)
Lemma sr_vel_nu s rho t e cE sE fac cnu snu :
  0 < rho -> 0 < t ->
  cE * cE + sE * sE = 1 -> fac * fac = 1 - e * e ->
  1 - e * cE = t -> cE - e = t * cnu -> fac * sE = t * snu ->
  - (s / rho) * sE = (s * e * sE / rho) * cnu - (s * fac / rho) * snu /\
  s / rho * fac * cE = (s * e * sE / rho) * snu + (s * fac / rho) * cnu.
Proof.
  intros Hr Ht H1 H2 H3 H4 H5.
  assert (H6 : sE * sE = 1 - cE * cE) by lra.
  split; apply (Rmult_eq_reg_l t); try lra.
  - transitivity ((s * e * sE / rho) * (t * cnu) - (s * fac / rho) * (t * snu)); [|ring].
    rewrite <- H4, <- H5, <- H3.
    transitivity (s / rho * sE * (e * (cE - e) - fac * fac)); [|field; lra].
    rewrite H2. field. lra.
  - transitivity ((s * e * sE / rho) * (t * snu) + (s * fac / rho) * (t * cnu)); [|ring].
    rewrite <- H4, <- H5, <- H3.
    transitivity (s / rho * fac * (e * (sE * sE) + cE - e)); [|field; lra].
    rewrite H6. field. lra.
Qed.

(* (v.N, v.M) from r.v and |h| *)
Lemma sr_vel_frame rho cu su rN rM vN vM rv hn :
  0 < rho -> cu * cu + su * su = 1 ->
  rN = rho * cu -> rM = rho * su ->
  rv = rN * vN + rM * vM -> hn = rN * vM - rM * vN ->
  vN = rv / rho * cu - hn / rho * su /\ vM = rv / rho * su + hn / rho * cu.
Proof.
  intros Hr H -> -> -> ->. split.
  - transitivity (vN * (cu * cu + su * su)); [rewrite H; ring | field; lra].
  - transitivity (vM * (cu * cu + su * su)); [rewrite H; ring | field; lra].
Qed.

(* ================================================================= the two comparisons in the orbital frame *)
Lemma sr_components GM r v :
  0 < GM -> bound_state GM r v -> inclined_state r v -> noncircular_state GM r v ->
  mvec (R3 (- t2k_omega GM r v)) (r_orb (trs2kepler GM r v))
    = mvec (mtrans (sr_A (t2k_Omega r v) (t2k_i r v))) r /\
  mvec (R3 (- t2k_omega GM r v)) (v_orb GM (trs2kepler GM r v))
    = mvec (mtrans (sr_A (t2k_Omega r v) (t2k_i r v))) v.
Proof.
  intros HGM [Hrho Hen] Hinc Hnc.
  red in Hinc; cbv zeta in Hinc. red in Hnc.
  (* ---- frame facts that are best taken from the matrix lemmas *)
  set (Om := t2k_Omega r v). set (inc := t2k_i r v).
  pose proof (rotation_trans _ (sr_A_rot Om inc)) as HB.
  pose proof (orthogonal_preserves_norm2 _ r (proj1 HB)) as HBn.
  pose proof (orthogonal_preserves_dot _ r v (proj1 HB)) as HBd.
  pose proof (rotation_preserves_cross _ r v HB) as HBc.
  pose proof (cross_perp_l r v) as Hhr. pose proof (cross_perp_r r v) as Hhv.
  pose proof (lagrange r v) as Hlag.
  pose proof (norm_sqr r) as Hrr. pose proof (norm_sqr v) as Hvv.
  set (h := cross r v) in *.
  rewrite (sr_frame_explicit Om inc r) in HBn, HBd, HBc |- *.
  rewrite (sr_frame_explicit Om inc v) in HBd, HBc |- *.
  rewrite (sr_frame_explicit Om inc h) in HBc.
  apply (f_equal vz) in HBc.
  unfold norm2 at 1 in HBn. unfold dot at 1 in HBn. unfold dot at 1 in HBd. unfold cross in HBc.
  cbn [vx vy vz] in HBn, HBd, HBc.
  set (rN := vx r * cos Om + vy r * sin Om) in *.
  set (rM := - vx r * (cos inc * sin Om) + vy r * (cos inc * cos Om) + vz r * sin inc) in *.
  set (rW := vx r * (sin inc * sin Om) - vy r * (sin inc * cos Om) + vz r * cos inc) in *.
  set (vN := vx v * cos Om + vy v * sin Om) in *.
  set (vM := - vx v * (cos inc * sin Om) + vy v * (cos inc * cos Om) + vz v * sin inc) in *.
  set (vW := vx v * (sin inc * sin Om) - vy v * (sin inc * cos Om) + vz v * cos inc) in *.
  set (hW := vx h * (sin inc * sin Om) - vy h * (sin inc * cos Om) + vz h * cos inc) in *.
  (* ---- angular momentum *)
  assert (Hhn : 0 < norm h).
  { apply norm_pos. intros E. rewrite E in Hinc. unfold vzero in Hinc; cbn [vx vy] in Hinc. lra. }
  pose proof (norm_sqr h) as Hhnn.
  set (hn := norm h) in *.
  set (Wx := vx h / hn). set (Wy := vy h / hn). set (Wz := vz h / hn).
  assert (HW1 : Wx * Wx + Wy * Wy + Wz * Wz = 1).
  { unfold Wx, Wy, Wz. transitivity (norm2 h / (hn * hn)); [unfold norm2, dot; field; lra|].
    rewrite Hhnn. field. rewrite <- Hhnn. nra. }
  assert (HWxy : 0 < Wx * Wx + Wy * Wy).
  { unfold Wx, Wy.
    replace (vx h / hn * (vx h / hn) + vy h / hn * (vy h / hn))
      with ((vx h * vx h + vy h * vy h) * (/ hn * / hn)) by (field; lra).
    apply Rmult_lt_0_compat; [exact Hinc|]. apply Rmult_lt_0_compat; apply Rinv_0_lt_compat; lra. }
  set (si := sqrt (Wx * Wx + Wy * Wy)).
  assert (Hsi : 0 < si) by (apply sqrt_lt_R0; exact HWxy).
  assert (Hsi2 : si * si = Wx * Wx + Wy * Wy) by (apply sqrt_sqrt; lra).
  (* ---- inclination: cos i = Wz, sin i = sqrt (Wx^2 + Wy^2) *)
  assert (Einc : inc = atan2 si Wz) by reflexivity.
  destruct (atan2_sin_cos Wz si (or_intror (Rgt_not_eq _ _ Hsi))) as [Hci Hsin].
  replace (Wz * Wz + si * si) with 1 in Hci, Hsin by lra.
  rewrite sqrt_1, Rmult_1_l, <- Einc in Hci, Hsin.
  (* ---- node: - Wy = sin i cos Omega, Wx = sin i sin Omega *)
  assert (EOm : Om = atan2 Wx (- Wy)) by reflexivity.
  assert (Hnz : - Wy <> 0 \/ Wx <> 0).
  { destruct (Req_dec Wx 0) as [E | E]; [left | right; exact E].
    intros E2. assert (E3 : Wy = 0) by lra. rewrite E, E3 in HWxy. lra. }
  destruct (atan2_sin_cos (- Wy) Wx Hnz) as [HcO HsO].
  replace (- Wy * - Wy + Wx * Wx) with (Wx * Wx + Wy * Wy) in HcO, HsO by ring.
  fold si in HcO, HsO. rewrite <- EOm in HcO, HsO.
  (* ---- r, v, h along W *)
  assert (HrW : rW = 0).
  { unfold rW. rewrite <- Hsin, <- Hci, <- HsO.
    replace (vy r * (si * cos Om)) with (vy r * (- Wy)) by (rewrite HcO; ring).
    unfold Wx, Wy, Wz. transitivity (dot h r / hn); [unfold dot; field; lra|]. rewrite Hhr. field. lra. }
  assert (HvW : vW = 0).
  { unfold vW. rewrite <- Hsin, <- Hci, <- HsO.
    replace (vy v * (si * cos Om)) with (vy v * (- Wy)) by (rewrite HcO; ring).
    unfold Wx, Wy, Wz. transitivity (dot h v / hn); [unfold dot; field; lra|]. rewrite Hhv. field. lra. }
  assert (HhW : hW = hn).
  { unfold hW. rewrite <- Hsin, <- Hci, <- HsO.
    replace (vy h * (si * cos Om)) with (vy h * (- Wy)) by (rewrite HcO; ring).
    unfold Wx, Wy, Wz. transitivity (norm2 h / hn); [unfold norm2, dot; field; lra|]. rewrite <- Hhnn. field. lra. }
  rewrite HrW, HvW in *. rewrite HhW in HBc.
  assert (HrW' : vx r * Wx + vy r * Wy + vz r * Wz = 0).
  { unfold Wx, Wy, Wz. transitivity (dot h r / hn); [unfold dot; field; lra|]. rewrite Hhr. field. lra. }
  clear HB rW vW hW HrW HvW HhW Hhr Hhv.
  unfold r_orb, v_orb, k2t_v, k2t_r, k2t_fac, trs2kepler, R3, mvec.
  cbn [k_a k_e k_E m11 m12 m13 m21 m22 m23 m31 m32 m33 vx vy vz].
  rewrite cos_neg, sin_neg.
  (* ---- argument of latitude: (r.N, r.M) = |r| (cos u, sin u) *)
  set (rho := norm r) in *. set (nv := norm v) in *. set (rv := dot r v) in *.
  set (u := t2k_u r v).
  assert (Eu : u = atan2 rM rN).
  { transitivity (atan2 (si * rM) (si * rN)); [|apply atan2_scale; exact Hsi].
    change u with (atan2 (vz r) (- vx r * Wy + vy r * Wx)). f_equal.
    - unfold rM. rewrite <- Hci, <- Hsin.
      transitivity (Wz * (- vx r * (si * sin Om) + vy r * (si * cos Om)) + vz r * (si * si)); [|ring].
      rewrite <- HsO, <- HcO, Hsi2.
      replace (- vx r * Wx + vy r * - Wy) with (vz r * Wz) by lra.
      transitivity (vz r * (Wx * Wx + Wy * Wy + Wz * Wz)); [rewrite HW1; ring | ring].
    - unfold rN. transitivity (vx r * (si * cos Om) + vy r * (si * sin Om)); [|ring].
      rewrite <- HcO, <- HsO. ring. }
  assert (Hu_nz : rN <> 0 \/ rM <> 0).
  { destruct (Req_dec rN 0) as [E1 | E1]; [right | left; exact E1].
    intros E2. rewrite E1, E2 in HBn.
    assert (0 < rho * rho) by (apply Rmult_lt_0_compat; assumption). lra. }
  destruct (atan2_sin_cos rN rM Hu_nz) as [Hcu Hsu].
  replace (rN * rN + rM * rM) with (rho * rho) in Hcu, Hsu by lra.
  rewrite sqrt_square, <- Eu in Hcu, Hsu by lra.
  pose proof (sr_sc u) as Hu1.
  set (cu := cos u) in *. set (su := sin u) in *.
  (* ---- semi-major axis, eccentricity *)
  set (a := t2k_a GM r v).
  assert (Ea : a = 1 / (2 / rho - nv * nv / GM)) by reflexivity.
  assert (Ha : 0 < a) by (rewrite Ea; apply sr_a_pos; assumption).
  assert (Hra : rho / a = 2 - rho * (nv * nv) / GM) by (rewrite Ea; apply sr_rho_a; assumption).
  set (e := t2k_e GM r v) in *.
  assert (Ee : e = sqrt (1 - hn * hn / GM / a)) by reflexivity.
  assert (Hee0 : 0 < 1 - hn * hn / GM / a).
  { destruct (Rle_dec (1 - hn * hn / GM / a) 0) as [L | L]; [|lra]. rewrite (sqrt_neg_0 _ L) in Ee. lra. }
  assert (Hee : e * e = 1 - hn * hn / GM / a) by (rewrite Ee; apply sqrt_sqrt; lra).
  assert (Hpa : 0 < hn * hn / GM / a).
  { unfold Rdiv. repeat apply Rmult_lt_0_compat; try lra; apply Rinv_0_lt_compat; lra. }
  assert (He1 : e < 1) by (apply (sr_lt1 e (hn * hn / GM / a)); assumption).
  (* ---- a^2 n = sqrt (GM a) *)
  set (n := t2k_n GM r v).
  assert (En : n = sqrt (GM / (a * a * a))) by reflexivity.
  assert (Hq : 0 < GM / (a * a * a)).
  { unfold Rdiv. apply Rmult_lt_0_compat; [lra|]. apply Rinv_0_lt_compat.
    apply Rmult_lt_0_compat; [apply Rmult_lt_0_compat|]; exact Ha. }
  assert (Hn : 0 < n) by (rewrite En; apply sqrt_lt_R0; exact Hq).
  assert (Hnn : n * n = GM / (a * a * a)) by (rewrite En; apply sqrt_sqrt; lra).
  set (s := a * a * n).
  assert (Hs : 0 < s) by (unfold s; apply Rmult_lt_0_compat; [apply Rmult_lt_0_compat|]; assumption).
  assert (Hss : s * s = GM * a).
  { unfold s. transitivity (a * a * a * a * (n * n)); [ring|]. rewrite Hnn. field. lra. }
  assert (Hs0 : sqrt (GM * a) = s).
  { apply sqrt_lem_1; [apply Rlt_le, Rmult_lt_0_compat; assumption | lra | exact Hss]. }
  rewrite Hs0.
  (* ---- eccentric anomaly: e cos E = 1 - |r|/a,  r.v = sqrt (GM a) e sin E *)
  set (E := t2k_E GM r v).
  assert (EE : E = atan2 rv (s * (1 - rho / a))) by reflexivity.
  assert (Hlag' : hn * hn = rho * rho * (nv * nv) - rv * rv) by (rewrite Hhnn, Hlag, <- Hrr, <- Hvv; ring).
  pose proof (sr_energy GM rho a (nv * nv) rv hn s HGM Hrho Ha Hra Hlag' Hss) as Hen'.
  rewrite <- Hee in Hen'.
  set (X := s * (1 - rho / a)) in *.
  assert (HE_nz : X <> 0 \/ rv <> 0).
  { destruct (Req_dec X 0) as [E1 | E1]; [right | left; exact E1].
    intros E2. rewrite E1, E2 in Hen'.
    assert (0 < s * s * (e * e)) by (apply Rmult_lt_0_compat; apply Rmult_lt_0_compat; assumption). lra. }
  destruct (atan2_sin_cos X rv HE_nz) as [HcE HsE].
  replace (X * X + rv * rv) with ((s * e) * (s * e)) in HcE, HsE by lra.
  rewrite sqrt_square, <- EE in HcE, HsE by (apply Rlt_le, Rmult_lt_0_compat; assumption).
  pose proof (sr_sc E) as HE1.
  set (cE := cos E) in *. set (sE := sin E) in *.
  set (t := rho / a) in *.
  assert (Ht0 : 0 < t) by (unfold t, Rdiv; apply Rmult_lt_0_compat; [lra | apply Rinv_0_lt_compat; lra]).
  assert (Ht : 1 - e * cE = t).
  { assert (H1 : s * (1 - t) = s * (e * cE)) by (fold X; rewrite HcE; ring).
    apply Rmult_eq_reg_l in H1; lra. }
  assert (Hat : a * (1 - e * cE) = rho) by (rewrite Ht; unfold t; field; lra).
  rewrite Hat.
  (* ---- fac = sqrt (1 - e^2), |h| = sqrt (GM a) fac *)
  set (fac := sqrt ((1 - e) * (1 + e))).
  assert (Hfac0 : 0 < (1 - e) * (1 + e)) by (apply Rmult_lt_0_compat; lra).
  assert (Hfac : 0 < fac) by (apply sqrt_lt_R0; exact Hfac0).
  assert (Hfac2 : fac * fac = 1 - e * e) by (unfold fac; rewrite sqrt_sqrt by lra; ring).
  assert (Hhsf : hn = s * fac).
  { apply Rsqr_inj; [lra | apply Rlt_le, Rmult_lt_0_compat; assumption |]. unfold Rsqr.
    transitivity (s * s * (fac * fac)); [|ring]. rewrite Hss, Hfac2, Hee. field. lra. }
  (* ---- true anomaly: r_orb = |r| (cos nu, sin nu, 0) *)
  set (nu := true_anom e E) in *.
  assert (Enu : nu = atan2 (fac * sE) (cE - e)).
  { unfold nu, true_anom, fac. fold cE sE. do 3 f_equal. ring. }
  pose proof (sr_anom e cE sE fac HE1 Hfac2) as Han. rewrite Ht in Han.
  assert (Hnu_nz : cE - e <> 0 \/ fac * sE <> 0).
  { destruct (Req_dec (cE - e) 0) as [E1 | E1]; [right | left; exact E1].
    intros E2. rewrite E1, E2 in Han.
    assert (0 < t * t) by (apply Rmult_lt_0_compat; assumption). lra. }
  destruct (atan2_sin_cos (cE - e) (fac * sE) Hnu_nz) as [Hcnu Hsnu].
  rewrite Han, sqrt_square, <- Enu in Hcnu, Hsnu by lra.
  pose proof (sr_sc nu) as Hnu1.
  set (cnu := cos nu) in *. set (snu := sin nu) in *.
  (* ---- argument of perigee *)
  destruct (sr_wrap (u - nu)) as [Hco Hso]. rewrite cos_minus in Hco. rewrite sin_minus in Hso.
  fold cu su cnu snu in Hco, Hso.
  change (t2k_omega GM r v) with (wrap_neg (u - nu)).
  rewrite Hco, Hso.
  assert (Hp : a * (cE - e) = rho * cnu) by (rewrite Hcnu; unfold t; field; lra).
  assert (Hq' : a * fac * sE = rho * snu).
  { transitivity (a * (fac * sE)); [ring|]. rewrite Hsnu. unfold t. field. lra. }
  rewrite Hp, Hq'.
  (* ---- velocity: radial and transverse components r.v/|r| and |h|/|r| *)
  destruct (sr_vel_nu s rho t e cE sE fac cnu snu Hrho Ht0 HE1 Hfac2 Ht Hcnu Hsnu) as [HP HQ].
  rewrite <- HsE, <- Hhsf in HP, HQ. rewrite HP, HQ.
  assert (HBd' : rv = rN * vN + rM * vM) by lra.
  destruct (sr_vel_frame rho cu su rN rM vN vM rv hn Hrho Hu1 Hcu Hsu HBd' HBc) as [HvN HvM].
  destruct (sr_rot2 rho 0 cnu snu cu su Hnu1) as [Q1 Q2].
  destruct (sr_rot2 (rv / rho) (hn / rho) cnu snu cu su Hnu1) as [Q3 Q4].
  split; f_equal.
  - rewrite Hcu. transitivity (rho * cu - 0 * su); [rewrite <- Q1 |]; ring.
  - rewrite Hsu. transitivity (rho * su + 0 * cu); [rewrite <- Q2 |]; ring.
  - ring.
  - rewrite HvN, <- Q3. ring.
  - rewrite HvM, <- Q4. ring.
  - ring.
Qed.

(* ================================================================= the round trip *)
Theorem state_roundtrip_pos (GM : R) (r v : vec3) :
  0 < GM -> bound_state GM r v -> inclined_state r v -> noncircular_state GM r v ->
  fst (kepler2trs GM (trs2kepler GM r v)) = r.
Proof.
  intros HGM Hb Hi Hn. destruct (sr_components GM r v HGM Hb Hi Hn) as [H _].
  unfold kepler2trs. cbn [fst]. unfold trs2kepler at 1. apply sr_reduce. exact H.
Qed.

Theorem state_roundtrip_vel (GM : R) (r v : vec3) :
  0 < GM -> bound_state GM r v -> inclined_state r v -> noncircular_state GM r v ->
  snd (kepler2trs GM (trs2kepler GM r v)) = v.
Proof.
  intros HGM Hb Hi Hn. destruct (sr_components GM r v HGM Hb Hi Hn) as [_ H].
  unfold kepler2trs. cbn [snd]. unfold trs2kepler at 1. apply sr_reduce. exact H.
Qed.

Theorem state_roundtrip (GM : R) (r v : vec3) :
  0 < GM -> bound_state GM r v -> inclined_state r v -> noncircular_state GM r v ->
  kepler2trs GM (trs2kepler GM r v) = (r, v).
Proof.
  intros HGM Hb Hi Hn.
  rewrite (surjective_pairing (kepler2trs GM (trs2kepler GM r v))).
  rewrite state_roundtrip_pos, state_roundtrip_vel by assumption. reflexivity.
Qed.
