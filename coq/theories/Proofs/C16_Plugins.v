(* C16 - the plug-in table regenerated from the source tree (Gen/C16_Plugins.v) *)
From Coq Require Import ZArith List Bool String.
From Verif Require Import Model.C16_Purity Gen.C16_Plugins.
Import ListNotations.
Open Scope Z_scope.

Definition all_rows : list plugin_row := parser_rows ++ writer_rows ++ fieldtype_rows.

Lemma resolve_all : forall r, In r all_rows -> row_resolves r = true.
Proof. apply forallb_forall. vm_compute. reflexivity. Qed.

Lemma callable_all : forall r, In r parser_rows -> row_callable_or_known r = true.
Proof. apply forallb_forall. vm_compute. reflexivity. Qed.

Lemma listing_complete :
  (parser_listing_ok && writer_listing_ok && fieldtype_listing_ok = true) /\
  (negb (Nat.eqb (List.length parser_rows) 0) && negb (Nat.eqb (List.length writer_rows) 0)
   && negb (Nat.eqb (List.length fieldtype_rows) 0) = true) /\
  (no_dup_names parser_rows && no_dup_names writer_rows && no_dup_names fieldtype_rows = true).
Proof. repeat split; vm_compute; reflexivity. Qed.
