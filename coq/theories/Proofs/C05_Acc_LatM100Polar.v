(* C05 - accuracy of the one-step algorithm on a curve: one Taylor-model certificate (Coq-Interval, univariate) per file. *)
From Coq Require Import Reals.
From Interval Require Import Tactic.
From Verif Require Import Model.C05_Geodetic Proofs.C05_AccDefs.
Open Scope R_scope.

(* latitudes 1.5 .. 1.57 rad (85.9 .. 89.95 deg) on the surface h = -100000 m, GRS80, with the quotient turned over
   (atan (S/C) = PI/2 - atan (C/S) for S, C > 0) because C -> 0 at the pole *)
Lemma acc_lat_m100_polar phi : 3/2 <= phi <= 157/100 ->
  Rabs (PI / 2 - atan (merid_C grs80_a grs80_f (geo_p grs80_a grs80_f phi (-100000)) (geo_z grs80_a grs80_f phi (-100000))
                       / merid_S grs80_a grs80_f (geo_p grs80_a grs80_f phi (-100000)) (geo_z grs80_a grs80_f phi (-100000))) - phi)
  <= 3 / 20000000000000.
Proof.
  intros H. unfold_all.
  interval with (i_bisect phi, i_taylor phi, i_degree 10, i_prec 80, i_depth 14).
Qed.

Lemma acc_lat_m100_polar_pos phi : 3/2 <= phi <= 157/100 ->
  0 < merid_C grs80_a grs80_f (geo_p grs80_a grs80_f phi (-100000)) (geo_z grs80_a grs80_f phi (-100000))
  /\ 0 < merid_S grs80_a grs80_f (geo_p grs80_a grs80_f phi (-100000)) (geo_z grs80_a grs80_f phi (-100000)).
Proof.
  intros H. split; unfold_all.
  - interval with (i_bisect phi, i_taylor phi, i_degree 6, i_prec 60, i_depth 14).
  - interval with (i_bisect phi, i_taylor phi, i_degree 6, i_prec 60, i_depth 14).
Qed.
