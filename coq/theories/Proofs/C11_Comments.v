(* Proofs/C11_Comments.v - COMMENT lines inside the observation part are ignored by both parsers (state and cache unchanged) *)
From Coq Require Import Ascii String List Bool ZArith QArith Arith Lia.
From Verif Require Import Lib.Text Lib.Decimal Lib.Fixed Lib.Dyadic Model.C11_Rinex Model.C11_Check
     Spec.C11_RinexFormat Spec.C11_RinexFile Proofs.C11_Rinex Proofs.C11_File3 Proofs.C11_Hdr3 Proofs.C11_Hdr2 Proofs.C11_File2.
Import ListNotations.
Local Open Scope nat_scope.
Local Open Scope string_scope.

Definition comment_line (text : string) : string := hdr_line text "COMMENT".
Definition comment_ok (text : string) : Prop := len text <= 60 /\ blank_ws text = true.

Lemma comment_label : label_ok "COMMENT".
Proof. split; [discriminate|reflexivity]. Qed.

Lemma comment_tail text a b : len text <= 60 -> slice (60 + a) (60 + b) (comment_line text) = slice a b "COMMENT".
Proof.
  intros L. unfold comment_line, hdr_line. pose proof (slice_app_shift (ljust 60 text) a b "COMMENT") as P.
  rewrite (len_hdr_body text L) in P. exact P.
Qed.

Lemma body_comment_v3 rate text s c : comment_ok text ->
  v3_line rate G3.obs_table (comment_line text) s c = Some (s, c).
Proof.
  intros [L _]. unfold v3_line. cbv zeta. unfold comment_line. rewrite !(rstrip_hdr_line text _ comment_label). fold (comment_line text).
  rewrite table_true3, table_false3.
  assert (Lab : v3_label (comment_line text) = false).
  { unfold v3_label, char_at. change 60 with (60 + 0) at 1. change (60 + 0 + 1) with (60 + 1). rewrite (comment_tail text 0 1 L).
    change (isalpha (slice 0 1 "COMMENT")) with true. cbn [negb]. apply andb_false_r. }
  rewrite Lab. change (fields_of false fF3 (comment_line text)) with (parse_record fF3 (comment_line text)). unfold v3_epoch.
  assert (Lc : lookup "comment" (parse_record fF3 (comment_line text)) = "COMMENT").
  { transitivity (strip (slice 60 80 (comment_line text))); [reflexivity|]. change 60 with (60 + 0) at 1. change 80 with (60 + 20).
    rewrite (comment_tail text 0 20 L). reflexivity. }
  rewrite Lc. change (isalpha (char_at 0 "COMMENT")) with true.
  destruct (isnumeric (lookup "year" (parse_record fF3 (comment_line text)))); reflexivity.
Qed.

Lemma body_comment_v2 q rate text s c : comment_ok text ->
  v2_line q rate G2.obs_table (comment_line text) s c = Some (s, c).
Proof.
  intros [L B]. unfold v2_line. cbv zeta. unfold comment_line. rewrite !(rstrip_hdr_line text _ comment_label). fold (comment_line text).
  rewrite table_true2, table_false2.
  assert (Lab : v2_label (comment_line text) = false).
  { assert (C60 : isalpha (char_at 60 (comment_line text)) = true).
    { unfold char_at. change (slice 60 (60 + 1) (comment_line text)) with (slice (60 + 0) (60 + 1) (comment_line text)).
      rewrite (comment_tail text 0 1 L). reflexivity. }
    unfold v2_label. rewrite C60. cbn [negb]. apply andb_false_r. }
  rewrite Lab. change (fields_of true v2_epoch_fields (comment_line text)) with (parse_record_by is_nl v2_epoch_fields (comment_line text)).
  unfold v2_epoch.
  set (vals := parse_record_by is_nl v2_epoch_fields (comment_line text)).
  assert (Bl : blank_ws (comment_line text) = true).
  { unfold comment_line, hdr_line, ljust, ljust_with. rewrite !blank_ws_app, B. fold (spaces (60 - len text)). rewrite blank_ws_spaces. reflexivity. }
  assert (Sl : lookup "sat_list" vals = drop 32 (ljust 60 text) ++ "COMMENT").
  { transitivity (strip_nl (slice 32 68 (comment_line text))); [reflexivity|]. rewrite (strip_nl_slice _ _ _ Bl).
    unfold comment_line, hdr_line. rewrite slice_app. unfold slice at 1. rewrite len_drop, (len_hdr_body text L).
    rewrite take_all by (rewrite len_drop, (len_hdr_body text L); lia). reflexivity. }
  rewrite Sl.
  assert (Ne : String.eqb (drop 32 (ljust 60 text) ++ "COMMENT") "" = false).
  { destruct (drop 32 (ljust 60 text) ++ "COMMENT") eqn:E; [|reflexivity]. apply (f_equal len) in E. rewrite len_app in E. simpl in E. lia. }
  rewrite Ne, andb_false_r.
  assert (C28 : isalpha (char_at 28 (drop 32 (ljust 60 text) ++ "COMMENT")) = true).
  { unfold char_at. pose proof (slice_app_shift (drop 32 (ljust 60 text)) 0 1 "COMMENT") as P.
    rewrite len_drop, (len_hdr_body text L) in P. change (60 - 32 + 0) with 28 in P. change (60 - 32 + 1) with (28 + 1) in P.
    rewrite P. reflexivity. }
  rewrite C28. reflexivity.
Qed.
