(* Proofs/C17_Layout.v - lemmas about the layout model (Model/C17_Layout.v). *)
From Coq Require Import Ascii String List Bool Arith ZArith QArith Lia ZifyBool.
From Verif Require Import Lib.Text Lib.Decimal Lib.Dyadic Model.C17_Layout.
Import ListNotations.
Local Open Scope string_scope.

(* ------------------------------------------------------------------------------- block discipline *)
Lemma body_line_not_marker l : body_line_ok l = true ->
  exists c r, l = String c r /\ (c = " "%char \/ c = "*"%char).
Proof.
  destruct l as [|c r]; cbn; [discriminate|].
  intro H. exists c, r. split; [reflexivity|].
  apply orb_true_iff in H. destruct H as [H|H]; apply Ascii.eqb_eq in H; auto.
Qed.

Lemma balanced_body name body rest :
  Forall (fun l => body_line_ok l = true) body ->
  balanced (Some name) (body ++ rest) = balanced (Some name) rest.
Proof.
  induction 1 as [|l body Hl _ IH]; [reflexivity|].
  destruct (body_line_not_marker l Hl) as (c & r & -> & [-> | ->]); cbn [app balanced]; cbn; exact IH.
Qed.

Theorem blocks_balanced_l : forall bs,
  Forall (fun bb => block_wf (fst bb) = true /\ Forall (fun l => body_line_ok l = true) (snd bb)) bs ->
  balanced None (file_lines bs) = true.
Proof.
  induction 1 as [|[b body] bs [Hwf Hbody] _ IH]; [reflexivity|].
  cbn [fst snd] in *. cbn [file_lines]. unfold block_lines, block_wf in *.
  destruct (b_begin b) as [|c1 n1]; [discriminate|]. destruct (b_end b) as [|c2 n2].
  { destruct c1 as [[] [] [] [] [] [] [] []]; discriminate. }
  assert (E : c1 = "+"%char /\ c2 = "-"%char /\ n1 = n2).
  { destruct c1 as [[] [] [] [] [] [] [] []]; try discriminate;
    destruct c2 as [[] [] [] [] [] [] [] []]; try discriminate.
    apply andb_true_iff in Hwf. destruct Hwf as [Hwf _]. apply String.eqb_eq in Hwf. auto. }
  destruct E as (-> & -> & ->).
  cbn [app]. change (balanced None (String "+" n2 :: (body ++ [String "-" n2]) ++ file_lines bs))
    with (balanced (Some n2) ((body ++ [String "-" n2]) ++ file_lines bs)).
  rewrite <- List.app_assoc. rewrite balanced_body by exact Hbody.
  cbn [app]. change (balanced (Some n2) (String "-" n2 :: file_lines bs))
    with (String.eqb n2 n2 && balanced None (file_lines bs)).
  rewrite String.eqb_refl. exact IH.
Qed.

Lemma row_starts_blank_l s r cs : body_line_ok (render_c (Lit (String " " s) :: r) cs) = true.
Proof. reflexivity. Qed.

(* --------------------------------------------------------------------------------- printed precision *)
Theorem fix_readback_l d m e :
  let r := fix_mant d m e in (r <> 0 \/ 0 < m)%Z ->
  parse_float (py_fix d (Dy m e)) = Some (dec_value r d).
Proof.
  intros r H. unfold py_fix. destruct ((fix_mant d m e =? 0)%Z && (m <? 0)%Z) eqn:E.
  - exfalso. subst r. lia.
  - exact (parse_render_F 0 d (fix_mant d m e)).
Qed.

(* ------------------------------------------------------------------------------ which numbers fit *)
Lemma len_digits_fixed k : forall v, len (digits_fixed k v) = k.
Proof. induction k; intro v; cbn [digits_fixed]; [reflexivity|]. rewrite len_app, IHk. cbn. lia. Qed.

Lemma ndig_aux_le f : forall v k, (1 <= k)%nat -> (0 <= v < 10 ^ Z.of_nat k)%Z -> (ndig_aux f v <= k)%nat.
Proof.
  induction f; intros v k Hk Hv; cbn [ndig_aux]; [lia|].
  destruct (v <? 10)%Z eqn:E; [lia|].
  assert (2 <= k)%nat.
  { destruct k as [|[|k]]; lia. }
  assert (ndig_aux f (v / 10) <= k - 1)%nat; [|lia].
  apply IHf; [lia|]. split; [apply Z.div_pos; lia|].
  apply Z.div_lt_upper_bound; [lia|].
  replace (10 * 10 ^ Z.of_nat (k - 1))%Z with (10 ^ Z.of_nat k)%Z; [lia|].
  replace (Z.of_nat k) with (Z.succ (Z.of_nat (k - 1))) by lia. rewrite Z.pow_succ_r by lia. reflexivity.
Qed.

Lemma ndigits_le_l v k : (0 <= v)%Z -> (1 <= k)%nat -> ((ndigits v <= k)%nat <-> (v < 10 ^ Z.of_nat k)%Z).
Proof.
  intros Hv Hk. split; intro H.
  - pose proof (ndigits_bound v Hv). eapply Z.lt_le_trans; [eassumption|].
    apply Z.pow_le_mono_r; lia.
  - unfold ndigits. apply ndig_aux_le; lia.
Qed.

Lemma len_render_F_raw d m : (0 < d)%nat ->
  len (render_F_raw d m) = ((if (m <? 0)%Z then 1 else 0) + ndigits (Z.abs m / 10 ^ Z.of_nat d) + d + 1)%nat.
Proof.
  intro Hd. unfold render_F_raw, sign_str, render_nat, frac_str. rewrite !len_app, len_digits_fixed.
  destruct d; [lia|]. cbn [len]. rewrite len_digits_fixed. destruct (m <? 0)%Z; cbn [len]; lia.
Qed.

Theorem fits_characterisation_l w d m : (0 < d)%nat ->
  (d + 2 + (if (m <? 0)%Z then 1 else 0) <= w)%nat ->
  (fits_F w d m <-> (Z.abs m < 10 ^ (Z.of_nat w - (if (m <? 0)%Z then 2 else 1)))%Z).
Proof.
  intros Hd Hw. unfold fits_F. rewrite len_render_F_raw by exact Hd.
  set (sg := if (m <? 0)%Z then 1%nat else 0%nat).
  set (q := (Z.abs m / 10 ^ Z.of_nat d)%Z).
  assert (Hsg : sg = if (m <? 0)%Z then 1%nat else 0%nat) by reflexivity.
  assert (Hp : (0 < 10 ^ Z.of_nat d)%Z) by (apply Z.pow_pos_nonneg; lia).
  assert (Hq : (0 <= q)%Z) by (apply Z.div_pos; lia).
  set (k := (w - d - 1 - sg)%nat).
  assert (Hk : (1 <= k)%nat) by (unfold k; destruct (m <? 0)%Z; lia).
  assert (E1 : (sg + ndigits q + d + 1 <= w)%nat <-> (ndigits q <= k)%nat) by (unfold k; destruct (m <? 0)%Z; lia).
  rewrite E1, (ndigits_le_l q k Hq Hk).
  assert (E2 : (Z.of_nat w - (if (m <? 0)%Z then 2 else 1) = Z.of_nat k + Z.of_nat d)%Z)
    by (unfold k; destruct (m <? 0)%Z; lia).
  rewrite E2, Z.pow_add_r by lia. unfold q. split; intro H.
  - pose proof (Z.div_mod (Z.abs m) (10 ^ Z.of_nat d) ltac:(lia)) as E3.
    pose proof (Z.mod_pos_bound (Z.abs m) (10 ^ Z.of_nat d) Hp) as E4.
    fold q in E3. nia.
  - apply Z.div_lt_upper_bound; lia.
Qed.

(* one more free column (the separating blank) *)
Theorem narrower_characterisation_l w d m : (0 < d)%nat ->
  (d + 3 + (if (m <? 0)%Z then 1 else 0) <= w)%nat ->
  ((len (render_F_raw d m) < w)%nat <-> (Z.abs m < 10 ^ (Z.of_nat w - (if (m <? 0)%Z then 3 else 2)))%Z).
Proof.
  intros Hd Hw.
  assert (H := fits_characterisation_l (w - 1) d m Hd). unfold fits_F in H.
  replace (Z.of_nat (w - 1) - (if (m <? 0)%Z then 2 else 1))%Z with (Z.of_nat w - (if (m <? 0)%Z then 3 else 2))%Z in H
    by (destruct (m <? 0)%Z; lia).
  rewrite <- H by (destruct (m <? 0)%Z; lia). lia.
Qed.

(* ------------------------------------------------------------------ rows read by splitting on blanks *)
Definition tok (p : nat * string) : Prop := is_token (snd p) = true.
Definition posgap (p : nat * string) : bool := (0 <? fst p)%nat.

Lemma spaces_nonempty g : (0 < g)%nat -> spaces g <> "".
Proof. destruct g; [lia|]. discriminate. Qed.

Lemma pieces_suff gend : forall ps, Forall tok ps -> gaps_ok ps = true ->
  split_ws (pieces_str ps gend) = map snd ps.
Proof.
  induction ps as [|[g t] r IH]; intros Ht Hg.
  - cbn. apply split_ws_all_space, all_space_spaces.
  - inversion Ht as [|? ? Ht1 Htr]; subst. cbn [pieces_str map snd].
    rewrite split_ws_lead by apply all_space_spaces.
    destruct r as [|[g' t'] r'].
    + cbn [pieces_str map]. apply split_ws_last; [exact Ht1 | apply all_space_spaces].
    + cbn [gaps_ok forallb] in Hg. apply andb_true_iff in Hg. destruct Hg as [Hg' Hr'].
      unfold posgap in *. cbn [fst] in Hg'.
      assert (IH' := IH Htr Hr'). cbn [pieces_str] in IH' |- *.
      rewrite split_ws_tok; [| exact Ht1 | apply all_space_spaces | apply spaces_nonempty; lia].
      rewrite split_ws_lead in IH' by apply all_space_spaces. rewrite IH'. reflexivity.
Qed.

Lemma is_token_app t u : is_token t = true -> is_token u = true -> is_token (t ++ u) = true.
Proof.
  intros Ht Hu. destruct t as [|c r]; [discriminate|].
  destruct (is_token_inv _ Ht) as [_ At]. destruct (is_token_inv _ Hu) as [_ Au].
  change (String c r ++ u) with (String c (r ++ u)). unfold is_token.
  change (String c (r ++ u)) with (String c r ++ u). rewrite all_by_app, At, Au. reflexivity.
Qed.

Fixpoint norm (ps : list (nat * string)) : list (nat * string) :=
  match ps with
  | [] => []
  | (g, t) :: r => match norm r with
                   | (O, t') :: r' => (g, t ++ t') :: r'
                   | nr => (g, t) :: nr
                   end
  end.

Lemma norm_str gend : forall ps, pieces_str (norm ps) gend = pieces_str ps gend.
Proof.
  induction ps as [|[g t] r IH]; [reflexivity|]. cbn [norm].
  destruct (norm r) as [|[[|k] t'] r'] eqn:E; cbn [pieces_str] in *; rewrite <- IH.
  - reflexivity.
  - cbn [spaces rep]. cbn. rewrite Text.app_assoc. reflexivity.
  - reflexivity.
Qed.

Lemma norm_tok : forall ps, Forall tok ps -> Forall tok (norm ps).
Proof.
  induction ps as [|[g t] r IH]; intro H; [constructor|]. inversion H as [|? ? H1 Hr]; subst. cbn [norm].
  specialize (IH Hr). destruct (norm r) as [|[[|k] t'] r'] eqn:E.
  - constructor; [exact H1 | constructor].
  - inversion IH as [|? ? I1 Ir]; subst. constructor; [|exact Ir]. unfold tok in *. cbn [snd] in *. apply is_token_app; assumption.
  - constructor; [exact H1 | exact IH].
Qed.

Lemma norm_gaps : forall ps, gaps_ok (norm ps) = true.
Proof.
  induction ps as [|[g t] r IH]; [reflexivity|]. cbn [norm].
  destruct (norm r) as [|[[|k] t'] r'] eqn:E; cbn [gaps_ok forallb] in *; try exact IH; try reflexivity.
Qed.

Lemma norm_head g t r : exists t' r', norm ((g, t) :: r) = (g, t') :: r'.
Proof. cbn [norm]. destruct (norm r) as [|[[|k] t'] r']; eauto. Qed.

Lemma norm_len : forall ps, (List.length (norm ps) <= List.length ps)%nat /\
  (gaps_ok ps = false -> (List.length (norm ps) < List.length ps)%nat).
Proof.
  induction ps as [|[g t] r [IH1 IH2]]; [split; [cbn; lia | cbn; discriminate]|].
  cbn [norm]. split.
  - revert IH1. destruct (norm r) as [|[[|k] t'] r'] eqn:E; simpl; intros; lia.
  - intro Hg. cbn [gaps_ok] in Hg.
    destruct r as [|[g' t'] r'']; [discriminate|].
    cbn [forallb] in Hg. apply andb_false_iff in Hg.
    destruct (gaps_ok ((g', t') :: r'')) eqn:G.
    + destruct Hg as [Hg|Hg]; [| cbn [gaps_ok] in G; congruence].
      cbn [fst] in Hg. assert (g' = 0)%nat by lia. subst g'.
      destruct (norm_head 0 t' r'') as (t2 & r2 & E). rewrite E in *. cbn [List.length] in *. lia.
    + specialize (IH2 eq_refl). revert IH1 IH2.
      destruct (norm ((g', t') :: r'')) as [|[[|k] t2] r2] eqn:E; simpl; intros; lia.
Qed.

Theorem tokens_pieces_l : forall ps gend, Forall tok ps ->
  (split_ws (pieces_str ps gend) = map snd ps <-> gaps_ok ps = true).
Proof.
  intros ps gend Ht. split.
  - intro H. destruct (gaps_ok ps) eqn:G; [reflexivity|]. exfalso.
    rewrite <- (norm_str gend ps) in H. rewrite (pieces_suff gend (norm ps) (norm_tok ps Ht) (norm_gaps ps)) in H.
    apply (f_equal (@List.length string)) in H. rewrite !map_length in H.
    destruct (norm_len ps) as [_ L]. specialize (L G). lia.
  - apply pieces_suff; exact Ht.
Qed.

Lemma map_snd_row_pieces : forall ws cs, List.length ws = List.length cs -> map snd (row_pieces ws cs) = cs.
Proof.
  induction ws as [|w ws IH]; destruct cs as [|c cs]; cbn; intro H; try discriminate; [reflexivity|].
  f_equal. apply IH. lia.
Qed.

Lemma row_pieces_gaps : forall ws cs, List.length ws = List.length cs ->
  (forallb posgap (row_pieces ws cs) = true <-> Forall2 (fun w c => (len c < w)%nat) ws cs).
Proof.
  induction ws as [|w ws IH]; destruct cs as [|c cs]; cbn; intro H; try discriminate.
  - split; [constructor | reflexivity].
  - unfold posgap at 1. cbn [fst snd]. rewrite andb_true_iff, (IH cs) by lia. split.
    + intros [A B]. constructor; [destruct (w - len c)%nat eqn:E; [discriminate | lia] | exact B].
    + intro F. inversion F; subst. split; [destruct (w - len c)%nat eqn:E; [lia | reflexivity] | assumption].
Qed.

Theorem tms_tokens_l : forall lead ws cs, List.length ws = List.length cs ->
  Forall (fun c => is_token c = true) cs ->
  (split_ws (row_line lead ws cs) = cs <-> Forall2 (fun w c => (len c < w)%nat) (tl ws) (tl cs)).
Proof.
  intros lead ws cs Hl Hc. unfold row_line. rewrite split_ws_lead by apply all_space_spaces.
  assert (Ht : Forall tok (row_pieces ws cs)).
  { rewrite Forall_forall. intros p Hp. unfold tok.
    assert (In (snd p) (map snd (row_pieces ws cs))) by (apply in_map; exact Hp).
    rewrite map_snd_row_pieces in H by exact Hl. rewrite Forall_forall in Hc. apply Hc. exact H. }
  rewrite <- (map_snd_row_pieces ws cs Hl) at 2. rewrite (tokens_pieces_l _ 0 Ht).
  destruct ws as [|w ws]; destruct cs as [|c cs]; try discriminate.
  - cbn. split; [constructor | reflexivity].
  - cbn [row_pieces combine map gaps_ok tl]. apply row_pieces_gaps. cbn in Hl. lia.
Qed.

Lemma spaces_add a b : spaces (a + b) = spaces a ++ spaces b.
Proof. induction a; cbn; [reflexivity|]. unfold spaces in *. cbn. rewrite IHa. reflexivity. Qed.

Lemma render_field_pads f c : render_field f c = spaces (lpad f c) ++ c ++ spaces (rpad f c).
Proof.
  unfold render_field, lpad, rpad, rjust, ljust, rjust_with, ljust_with. destruct (f_al f); cbn [spaces rep].
  - reflexivity.
  - change (rep " " 0) with "". rewrite Text.app_nil_r. reflexivity.
Qed.

Lemma lay_pieces_sound_l : forall lay cs g ps ge,
  lay_pieces g lay cs = Some (ps, ge) -> spaces g ++ render_c lay cs = pieces_str ps ge.
Proof.
  induction lay as [|[s|f] r IH]; intros cs g ps ge H; cbn [lay_pieces render_c] in *.
  - inversion H; subst. cbn. apply Text.app_nil_r.
  - destruct (String.eqb s (spaces (len s))) eqn:E; [|discriminate]. apply String.eqb_eq in E.
    rewrite <- (IH _ _ _ _ H), spaces_add, Text.app_assoc, <- E. reflexivity.
  - destruct cs as [|c cs']; [discriminate|].
    destruct (lay_pieces (rpad f c) r cs') as [[ps' ge']|] eqn:E; [|discriminate]. inversion H; subst.
    cbn [pieces_str]. rewrite <- (IH _ _ _ _ E), render_field_pads, spaces_add, !Text.app_assoc. reflexivity.
Qed.

Lemma lay_pieces_words_l : forall lay cs g ps ge,
  lay_pieces g lay cs = Some (ps, ge) -> fits lay cs = true -> map snd ps = cs.
Proof.
  unfold fits.
  induction lay as [|[s|f] r IH]; intros cs g ps ge H F; cbn [lay_pieces fields_of fitsb] in *.
  - inversion H; subst. destruct cs; [reflexivity | discriminate].
  - destruct (String.eqb s (spaces (len s))); [|discriminate]. eapply IH; eassumption.
  - destruct cs as [|c cs']; [discriminate|].
    destruct (lay_pieces (rpad f c) r cs') as [[ps' ge']|] eqn:E; [|discriminate]. inversion H; subst.
    apply andb_true_iff in F. destruct F as [_ F]. cbn [map snd]. f_equal. eapply IH; eassumption.
Qed.

Theorem token_row_sound_l : forall lay cs ps ge,
  lay_pieces 0 lay cs = Some (ps, ge) -> fits lay cs = true -> Forall (fun c => is_token c = true) cs ->
  (parse_tokens (render_c lay cs) = cs <-> gaps_ok ps = true).
Proof.
  intros lay cs ps ge H F T. unfold parse_tokens.
  pose proof (lay_pieces_sound_l _ _ _ _ _ H) as S. cbn [spaces rep] in S. change ("" ++ render_c lay cs) with (render_c lay cs) in S.
  pose proof (lay_pieces_words_l _ _ _ _ _ H F) as Wd. rewrite S. rewrite <- Wd at 1.
  apply tokens_pieces_l. rewrite Forall_forall in *. intros p Hp. unfold tok. apply T. rewrite <- Wd. apply in_map. exact Hp.
Qed.
