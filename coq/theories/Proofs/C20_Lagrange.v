(* C20 / interpolation - proofs about the Lagrange model (Model/C20_Lagrange.v). *)
From Coq Require Import ZArith QArith Qabs Bool List Lia Lqa Permutation Sorting.Sorted SetoidList SetoidPermutation.
From Verif Require Import Lib.Dyadic Model.C20_Lagrange.
Import ListNotations.
Open Scope Q_scope.

(* ------------------------------------------------------------------ comparisons *)
Lemma Qlt_b_true a b : Qlt_b a b = true <-> a < b.
Proof.
  unfold Qlt_b. rewrite negb_true_iff. split.
  - intros H. destruct (Qlt_le_dec a b) as [L|L]; [assumption|]. apply Qle_bool_iff in L. congruence.
  - intros H. destruct (Qle_bool b a) eqn:E; [|reflexivity]. apply Qle_bool_iff in E. lra.
Qed.

Lemma Qlt_b_false a b : Qlt_b a b = false <-> b <= a.
Proof. unfold Qlt_b. rewrite negb_false_iff. apply Qle_bool_iff. Qed.

Lemma Qle_bool_false a b : Qle_bool a b = false -> b < a.
Proof.
  intros H. destruct (Qlt_le_dec b a) as [L|L]; [assumption|]. apply Qle_bool_iff in L. congruence.
Qed.

(* pairwise different abscissae *)
Definition distinct (xs : list Q) : Prop := NoDupA Qeq xs.

Lemma distinct_cons_inv a l : distinct (a :: l) -> Forall (fun b => ~ a == b) l /\ distinct l.
Proof.
  intros H. inversion H as [|x l' Hn Hd]; subst. split; [|exact Hd].
  apply Forall_forall. intros b Hb E. apply Hn. apply InA_alt. exists b. split; assumption.
Qed.

(* ------------------------------------------------------------------ the basis *)
Lemma basis_self xs xi : basis xs xi xi == 1.
Proof.
  induction xs as [|xj r IH]; simpl; [reflexivity|].
  destruct (Qeq_bool xj xi) eqn:E; [exact IH|].
  apply Qeq_bool_neq in E. rewrite IH. field. intro H. apply E. lra.
Qed.

Lemma basis_other xs xi xk : In xk xs -> ~ xk == xi -> basis xs xi xk == 0.
Proof.
  intros Hin Hne. induction xs as [|xj r IH]; simpl; [destruct Hin|].
  destruct (Qeq_bool xj xi) eqn:E.
  - destruct Hin as [->|Hin]; [|exact (IH Hin)]. apply Qeq_bool_iff in E. contradiction.
  - apply Qeq_bool_neq in E. destruct Hin as [->|Hin].
    + assert (Z : (xk - xk) / (xi - xk) == 0) by (field; intro H; apply Hne; lra).
      rewrite Z. ring.
    + rewrite (IH Hin). ring.
Qed.

Lemma basis_t_proper xs xi t t' : t == t' -> basis xs xi t == basis xs xi t'.
Proof.
  intros H. induction xs as [|xj r IH]; simpl; [reflexivity|].
  destruct (Qeq_bool xj xi); [exact IH|]. rewrite IH, H. reflexivity.
Qed.

(* sum over a sub-list l of the samples, basis over all nodes xs *)
Definition lsum (xs : list Q) (l : list (Q * Q)) (t : Q) : Q :=
  fold_right (fun p acc => snd p * basis xs (fst p) t + acc) 0 l.

Lemma lag_1d_lsum win t : lag_1d win t = lsum (map fst win) win t.
Proof. reflexivity. Qed.

Lemma lsum_zero xs l xk : In xk xs -> (forall p, In p l -> ~ xk == fst p) -> lsum xs l xk == 0.
Proof.
  intros Hx H. induction l as [|p r IH]; simpl; [reflexivity|].
  rewrite (basis_other xs (fst p) xk Hx) by (apply H; left; reflexivity).
  rewrite IH by (intros q Hq; apply H; right; exact Hq). ring.
Qed.

Lemma lsum_node xs l xk yk :
  In (xk, yk) l -> distinct (map fst l) -> In xk xs -> lsum xs l xk == yk.
Proof.
  intros Hin Hd Hx. induction l as [|p r IH]; [destruct Hin|].
  simpl in Hd. apply distinct_cons_inv in Hd. destruct Hd as [Hall Hd'].
  rewrite Forall_forall in Hall.
  destruct Hin as [->|Hin]; simpl.
  - rewrite basis_self. rewrite lsum_zero; [ring|exact Hx|].
    intros q Hq. apply Hall. apply in_map. exact Hq.
  - assert (Hne : ~ xk == fst p).
    { intro E. apply (Hall xk); [|symmetry; exact E]. change xk with (fst (xk, yk)). apply in_map. exact Hin. }
    rewrite (basis_other xs (fst p) xk Hx Hne). rewrite (IH Hin Hd'). ring.
Qed.

(* the interpolant passes through every sample of its window *)
Lemma lag_1d_nodes win xk yk : In (xk, yk) win -> distinct (map fst win) -> lag_1d win xk == yk.
Proof.
  intros Hin Hd. rewrite lag_1d_lsum. apply lsum_node; [exact Hin|exact Hd|].
  change xk with (fst (xk, yk)). apply in_map. exact Hin.
Qed.

(* linear in the data *)
Lemma lsum_linear xs (l : list (Q * (Q * Q))) a b t :
  lsum xs (column (fun v => a * fst v + b * snd v) l) t ==
  a * lsum xs (column fst l) t + b * lsum xs (column snd l) t.
Proof.
  unfold lsum, column. induction l as [|p r IH]; simpl; [ring|]. rewrite IH. ring.
Qed.

Lemma map_fst_column {V W} (f : V -> W) l : map fst (column f l) = map fst l.
Proof. unfold column. rewrite map_map. reflexivity. Qed.

Lemma lag_1d_linear (l : list (Q * (Q * Q))) a b t :
  lag_1d (column (fun v => a * fst v + b * snd v) l) t ==
  a * lag_1d (column fst l) t + b * lag_1d (column snd l) t.
Proof. rewrite !lag_1d_lsum, !map_fst_column. apply lsum_linear. Qed.

(* an affine change of the abscissa (the code's (x - mean) / std) does not change the value *)
Lemma basis_affine xs xi t m s : ~ s == 0 ->
  basis (map (fun x => (x - m) / s) xs) ((xi - m) / s) ((t - m) / s) == basis xs xi t.
Proof.
  intros Hs. induction xs as [|xj r IH]; simpl; [reflexivity|].
  destruct (Qeq_bool xj xi) eqn:E.
  - apply Qeq_bool_iff in E.
    assert (E' : Qeq_bool ((xj - m) / s) ((xi - m) / s) = true) by (apply Qeq_bool_iff; rewrite E; reflexivity).
    rewrite E'. exact IH.
  - apply Qeq_bool_neq in E.
    assert (E' : Qeq_bool ((xj - m) / s) ((xi - m) / s) = false).
    { destruct (Qeq_bool ((xj - m) / s) ((xi - m) / s)) eqn:F; [|reflexivity].
      apply Qeq_bool_iff in F. exfalso. apply E.
      assert (G : (xj - m) / s * s == (xi - m) / s * s) by (rewrite F; reflexivity).
      assert (G1 : (xj - m) / s * s == xj - m) by (field; exact Hs).
      assert (G2 : (xi - m) / s * s == xi - m) by (field; exact Hs).
      rewrite G1, G2 in G. lra. }
    rewrite E', IH. field. split; [intro H; apply E; lra | exact Hs].
Qed.

Lemma lsum_affine xs (l : list (Q * Q)) t m s : ~ s == 0 ->
  lsum (map (fun x => (x - m) / s) xs) (map (fun p => ((fst p - m) / s, snd p)) l) ((t - m) / s) == lsum xs l t.
Proof.
  intros Hs. induction l as [|p r IH]; simpl; [reflexivity|].
  rewrite IH, basis_affine by exact Hs. reflexivity.
Qed.

Lemma lag_1d_affine (win : list (Q * Q)) t m s : ~ s == 0 ->
  lag_1d (map (fun p => ((fst p - m) / s, snd p)) win) ((t - m) / s) == lag_1d win t.
Proof.
  intros Hs. rewrite !lag_1d_lsum, map_map. cbn [fst].
  rewrite <- (map_map fst (fun x => (x - m) / s)). apply lsum_affine. exact Hs.
Qed.

(* ------------------------------------------------------------------ sorting *)
Lemma insert_perm {V} (p : Q * V) l : Permutation (insert p l) (p :: l).
Proof.
  induction l as [|h r IH]; simpl; [reflexivity|].
  destruct (Qle_bool (fst p) (fst h)); [reflexivity|].
  rewrite IH. apply perm_swap.
Qed.

Lemma sort_perm {V} (l : list (Q * V)) : Permutation (sort_pts l) l.
Proof. induction l as [|h r IH]; simpl; [reflexivity|]. rewrite insert_perm, IH. reflexivity. Qed.

Definition kle {V} (a b : Q * V) : Prop := fst a <= fst b.

Lemma insert_sorted {V} (p : Q * V) l : StronglySorted kle l -> StronglySorted kle (insert p l).
Proof.
  induction 1 as [|h r Hs IH Hall]; simpl.
  - constructor; constructor.
  - destruct (Qle_bool (fst p) (fst h)) eqn:E.
    + apply Qle_bool_iff in E. constructor; [constructor; assumption|].
      constructor; [exact E|]. rewrite Forall_forall in *. intros x Hx. unfold kle in *.
      specialize (Hall x Hx). lra.
    + apply Qle_bool_false in E. constructor; [exact IH|].
      rewrite Forall_forall in *. intros x Hx.
      apply (Permutation_in _ (insert_perm p r)) in Hx. destruct Hx as [<-|Hx].
      * unfold kle. lra.
      * apply Hall, Hx.
Qed.

Lemma sort_sorted {V} (l : list (Q * V)) : StronglySorted kle (sort_pts l).
Proof. induction l as [|h r IH]; simpl; [constructor|]. apply insert_sorted, IH. Qed.

(* a sorted arrangement of samples with pairwise different abscissae is unique *)
Lemma sorted_unique {V} (l1 l2 : list (Q * V)) :
  StronglySorted kle l1 -> StronglySorted kle l2 -> Permutation l1 l2 ->
  distinct (map fst l1) -> l1 = l2.
Proof.
  revert l2. induction l1 as [|a r1 IH]; intros l2 S1 S2 P D.
  - apply Permutation_nil in P. subst. reflexivity.
  - destruct l2 as [|b r2]; [apply Permutation_sym, Permutation_nil in P; discriminate|].
    inversion S1 as [|? ? S1' A1]; subst. inversion S2 as [|? ? S2' A2]; subst.
    simpl in D. apply distinct_cons_inv in D. destruct D as [Dh Dt].
    rewrite Forall_forall in A1, A2, Dh.
    assert (E : a = b).
    { assert (Ia : In a (b :: r2)) by (apply (Permutation_in _ P); left; reflexivity).
      assert (Ib : In b (a :: r1)) by (apply (Permutation_in _ (Permutation_sym P)); left; reflexivity).
      destruct Ia as [->|Ia]; [reflexivity|]. destruct Ib as [->|Ib]; [reflexivity|].
      exfalso. apply (Dh (fst b)); [apply in_map, Ib|].
      specialize (A1 b Ib). specialize (A2 a Ia). unfold kle in *. lra. }
    subst b. f_equal. apply IH; try assumption. apply (Permutation_cons_inv P).
Qed.

Lemma distinct_perm xs ys : Permutation xs ys -> distinct xs -> distinct ys.
Proof.
  intros P D. unfold distinct in *.
  apply (PermutationA_preserves_NoDupA Q_Setoid (Permutation_PermutationA Q_Setoid P)). exact D.
Qed.

Lemma sort_perm_eq {V} (l l' : list (Q * V)) :
  Permutation l l' -> distinct (map fst l) -> sort_pts l = sort_pts l'.
Proof.
  intros P D. apply sorted_unique; try apply sort_sorted.
  - apply (Permutation_trans (sort_perm l)). apply (Permutation_trans P). apply Permutation_sym, sort_perm.
  - apply (distinct_perm (map fst l)); [|exact D]. apply Permutation_map, Permutation_sym, sort_perm.
Qed.

(* strictly increasing abscissae are pairwise different and strongly sorted *)
Lemma strictly_increasing_sorted xs : strictly_increasing xs = true -> StronglySorted Qlt xs.
Proof.
  induction xs as [|a r IH]; intros H; [constructor|].
  destruct r as [|b r'].
  - constructor; constructor.
  - simpl in H. apply andb_prop in H. destruct H as [H1 H2]. apply Qlt_b_true in H1.
    specialize (IH H2). constructor; [exact IH|].
    inversion IH as [|? ? _ Hb]; subst. constructor; [exact H1|].
    rewrite Forall_forall in *. intros x Hx. specialize (Hb x Hx). lra.
Qed.

Lemma sorted_distinct xs : StronglySorted Qlt xs -> distinct xs.
Proof.
  induction 1 as [|a r Hs IH Hall]; [constructor|].
  constructor; [|exact IH]. intros HA. apply InA_alt in HA. destruct HA as [b [E Hb]].
  rewrite Forall_forall in Hall. specialize (Hall b Hb). lra.
Qed.

Lemma In_firstn {A} n (l : list A) x : In x (firstn n l) -> In x l.
Proof.
  revert l. induction n as [|n IH]; intros l H; [destruct H|].
  destruct l as [|a r]; [destruct H|]. simpl in H. destruct H as [->|H]; [left; reflexivity|right; apply IH, H].
Qed.

Lemma nth_firstn_lt {A} n (l : list A) i d : (i < n)%nat -> nth i (firstn n l) d = nth i l d.
Proof.
  revert l i. induction n as [|n IH]; intros l i H; [lia|].
  destruct l as [|a r]; [destruct i; reflexivity|]. destruct i as [|i]; [reflexivity|]. simpl. apply IH. lia.
Qed.

Lemma nth_skipn_add {A} n (l : list A) i d : nth i (skipn n l) d = nth (n + i) l d.
Proof.
  revert l. induction n as [|n IH]; intros l; [reflexivity|].
  destruct l as [|a r]; [destruct i; reflexivity|]. simpl. apply IH.
Qed.

Lemma sorted_skipn {A} (R : A -> A -> Prop) n l : StronglySorted R l -> StronglySorted R (skipn n l).
Proof.
  revert l. induction n as [|n IH]; intros l H; [exact H|].
  destruct l as [|a r]; [constructor|]. simpl. apply IH. inversion H; assumption.
Qed.

Lemma sorted_firstn {A} (R : A -> A -> Prop) n l : StronglySorted R l -> StronglySorted R (firstn n l).
Proof.
  revert l. induction n as [|n IH]; intros l H; [constructor|].
  destruct l as [|a r]; [constructor|]. simpl. inversion H as [|? ? Hs Hall]; subst.
  constructor; [apply IH, Hs|]. rewrite Forall_forall in *. intros x Hx.
  apply Hall. apply (In_firstn n r). exact Hx.
Qed.

Lemma sorted_nth_lt xs i j : StronglySorted Qlt xs -> (i < j < length xs)%nat -> nth i xs 0 < nth j xs 0.
Proof.
  intros H. revert i j. induction H as [|a r Hs IH Hall]; intros i j Hij; [simpl in Hij; lia|].
  destruct j as [|j]; [lia|]. destruct i as [|i]; simpl.
  - rewrite Forall_forall in Hall. apply Hall. apply nth_In. simpl in Hij. lia.
  - apply IH. simpl in Hij. lia.
Qed.

Lemma sorted_nth_inj xs i j : StronglySorted Qlt xs -> (i < length xs)%nat -> (j < length xs)%nat ->
  nth i xs 0 == nth j xs 0 -> i = j.
Proof.
  intros H Hi Hj E. destruct (Nat.lt_trichotomy i j) as [L|[L|L]]; [|exact L|].
  - pose proof (sorted_nth_lt xs i j H (conj L Hj)). lra.
  - pose proof (sorted_nth_lt xs j i H (conj L Hi)). lra.
Qed.

(* ------------------------------------------------------------------ argmin *)
Lemma argmin_from_spec t all : forall r pre best bestv,
  all = pre ++ r -> (best < length pre)%nat -> bestv = Qabs (nth best all 0 - t) ->
  (forall y, In y pre -> bestv <= Qabs (y - t)) ->
  let j := argmin_from r t (length pre) best bestv in
  (j < length all)%nat /\ forall y, In y all -> Qabs (nth j all 0 - t) <= Qabs (y - t).
Proof.
  induction r as [|x r IH]; intros pre best bestv Hall Hb Hv Hpre; cbv zeta; cbn [argmin_from].
  - rewrite app_nil_r in Hall. subst pre. split; [exact Hb|]. intros y Hy. rewrite <- Hv. apply Hpre, Hy.
  - assert (Hall' : all = (pre ++ [x]) ++ r) by (rewrite <- app_assoc; exact Hall).
    assert (Hlen : length (pre ++ [x]) = S (length pre)) by (rewrite app_length; simpl; lia).
    assert (Hnth : nth (length pre) all 0 = x).
    { rewrite Hall. rewrite app_nth2 by lia. rewrite Nat.sub_diag. reflexivity. }
    destruct (Qlt_b (Qabs (x - t)) bestv) eqn:E.
    + apply Qlt_b_true in E. rewrite <- Hlen.
      apply (IH (pre ++ [x]) (length pre) (Qabs (x - t))); [exact Hall'|lia|rewrite Hnth; reflexivity|].
      intros y Hy. apply in_app_or in Hy. destruct Hy as [Hy|[<-|[]]].
      * specialize (Hpre y Hy). lra.
      * lra.
    + apply Qlt_b_false in E. rewrite <- Hlen.
      apply (IH (pre ++ [x]) best bestv); [exact Hall'|lia|exact Hv|].
      intros y Hy. apply in_app_or in Hy. destruct Hy as [Hy|[<-|[]]]; [apply Hpre, Hy|exact E].
Qed.

Lemma argmin_spec xs t : xs <> [] ->
  (argmin_abs xs t < length xs)%nat /\
  forall y, In y xs -> Qabs (nth (argmin_abs xs t) xs 0 - t) <= Qabs (y - t).
Proof.
  destruct xs as [|x r]; [congruence|]. intros _. unfold argmin_abs.
  apply (argmin_from_spec t (x :: r) r [x] 0%nat (Qabs (x - t))); simpl; try reflexivity; try lia.
  intros y [<-|[]]. lra.
Qed.

(* at a node the argmin is the index of that node *)
Lemma argmin_at_node xs i : StronglySorted Qlt xs -> (i < length xs)%nat -> argmin_abs xs (nth i xs 0) = i.
Proof.
  intros S Hi. assert (Hne : xs <> []) by (destruct xs; simpl in Hi; [lia|congruence]).
  destruct (argmin_spec xs (nth i xs 0) Hne) as [Hj Hmin].
  specialize (Hmin (nth i xs 0) (nth_In xs 0 Hi)).
  apply (sorted_nth_inj xs); try assumption.
  assert (Z : Qabs (nth i xs 0 - nth i xs 0) == 0) by (setoid_replace (nth i xs 0 - nth i xs 0) with 0 by ring; reflexivity).
  rewrite Z in Hmin.
  pose proof (Qabs_nonneg (nth (argmin_abs xs (nth i xs 0)) xs 0 - nth i xs 0)) as N.
  assert (A0 : Qabs (nth (argmin_abs xs (nth i xs 0)) xs 0 - nth i xs 0) == 0) by lra.
  set (u := nth (argmin_abs xs (nth i xs 0)) xs 0 - nth i xs 0) in *.
  destruct (Qlt_le_dec u 0) as [L|L].
  - rewrite Qabs_neg in A0 by lra. unfold u in *. lra.
  - rewrite Qabs_pos in A0 by lra. unfold u in *. lra.
Qed.

(* the window contains the sample whose abscissa is x_new *)
Lemma start_idx_bounds n w j : (3 <= w)%nat -> (w <= n)%nat -> (j < n)%nat ->
  (start_idx n w j <= j < start_idx n w j + w)%nat /\ (start_idx n w j + w <= n)%nat.
Proof.
  intros Hw Hn Hj. unfold start_idx.
  assert (H2 : (w / 2 < w)%nat) by (apply Nat.div_lt; lia).
  lia.
Qed.

Lemma nth_window {A} (l : list A) st w j d : (st <= j < st + w)%nat -> (j < length l)%nat ->
  nth (j - st) (firstn w (skipn st l)) d = nth j l d.
Proof.
  intros H Hl. rewrite nth_firstn_lt by lia. rewrite nth_skipn_add. f_equal. lia.
Qed.

(* ------------------------------------------------------------------ the selected window *)
Definition sorted_pts {V} (o : options) (pts : list (Q * V)) : list (Q * V) :=
  if assume_sorted o then pts else sort_pts pts.

Lemma sel_some {V} o w (pts : list (Q * V)) t win :
  lagrange_sel o w pts t = Some win ->
  let sp := sorted_pts o pts in
  let xs := map fst sp in
  (3 <= w)%nat /\ (w <= length xs)%nat /\ strictly_increasing xs = true /\
  win = firstn w (skipn (start_idx (length xs) w (argmin_abs xs t)) sp).
Proof.
  unfold lagrange_sel, sorted_pts. cbv zeta.
  set (sp := if assume_sorted o then pts else sort_pts pts).
  destruct (w <? 3)%nat eqn:E1; [discriminate|].
  destruct (length (map fst sp) <? w)%nat eqn:E2; [discriminate|].
  destruct (strictly_increasing (map fst sp)) eqn:E3; [|discriminate]. cbn [orb negb].
  destruct (bounds_error o && (Qlt_b t (hd 0 (map fst sp)) || Qlt_b (last (map fst sp) 0) t)); [discriminate|].
  intros H. inversion H. apply Nat.ltb_ge in E1. apply Nat.ltb_ge in E2. repeat split; assumption.
Qed.

Lemma sorted_pts_in {V} o (pts : list (Q * V)) p : In p pts -> In p (sorted_pts o pts).
Proof.
  unfold sorted_pts. destruct (assume_sorted o); [auto|]. intros H.
  apply (Permutation_in _ (Permutation_sym (sort_perm pts))). exact H.
Qed.

Lemma sorted_pts_in_inv {V} o (pts : list (Q * V)) p : In p (sorted_pts o pts) -> In p pts.
Proof.
  unfold sorted_pts. destruct (assume_sorted o); [auto|]. intros H.
  apply (Permutation_in _ (sort_perm pts)). exact H.
Qed.

Lemma window_facts {V} o w (pts : list (Q * V)) t win :
  lagrange_sel o w pts t = Some win ->
  length win = w /\ distinct (map fst win) /\ (forall p, In p win -> In p pts).
Proof.
  intros H. destruct (sel_some o w pts t win H) as [Hw [Hn [Hs Hwin]]].
  set (sp := sorted_pts o pts) in *. set (xs := map fst sp) in *.
  set (st := start_idx (length xs) w (argmin_abs xs t)) in *.
  assert (Hst : (st + w <= length xs)%nat).
  { unfold st, start_idx. lia. }
  assert (Hlen : length sp = length xs) by (unfold xs; rewrite map_length; reflexivity).
  split; [|split].
  - subst win. rewrite firstn_length, skipn_length. lia.
  - subst win. rewrite <- firstn_map, <- skipn_map. fold xs.
    apply sorted_distinct, sorted_firstn, sorted_skipn, strictly_increasing_sorted, Hs.
  - intros p Hp. subst win. apply In_firstn in Hp.
    apply (sorted_pts_in_inv o). fold sp.
    rewrite <- (firstn_skipn st sp). apply in_or_app. right. exact Hp.
Qed.

Lemma sel_contains_node {V} o w (pts : list (Q * V)) xk v win :
  In (xk, v) pts -> lagrange_sel o w pts xk = Some win -> In (xk, v) win.
Proof.
  intros Hin H. destruct (sel_some o w pts xk win H) as [Hw [Hn [Hs Hwin]]].
  set (sp := sorted_pts o pts) in *. set (xs := map fst sp) in *.
  assert (Hlen : length sp = length xs) by (unfold xs; rewrite map_length; reflexivity).
  apply (sorted_pts_in o) in Hin. fold sp in Hin.
  destruct (In_nth sp (xk, v) (0, v) Hin) as [i [Hi Hnth]].
  assert (Hx : nth i xs 0 = xk).
  { unfold xs. change 0 with (fst (0, v)). rewrite map_nth, Hnth. reflexivity. }
  pose proof (strictly_increasing_sorted xs Hs) as S.
  assert (Hj : argmin_abs xs xk = i) by (rewrite <- Hx; apply argmin_at_node; [exact S|lia]).
  rewrite Hj in Hwin.
  destruct (start_idx_bounds (length xs) w i Hw Hn ltac:(lia)) as [B1 B2].
  set (st := start_idx (length xs) w i) in *.
  rewrite <- Hnth. rewrite <- (nth_window sp st w i (0, v)) by lia.
  subst win. apply nth_In. rewrite firstn_length, skipn_length. lia.
Qed.

(* the selection looks at the abscissae only *)
Lemma insert_column {V W} (f : V -> W) (p : Q * V) l :
  insert (fst p, f (snd p)) (column f l) = column f (insert p l).
Proof.
  induction l as [|h r IH]; [reflexivity|].
  change (column f (h :: r)) with ((fst h, f (snd h)) :: column f r).
  cbn [insert fst]. destruct (Qle_bool (fst p) (fst h)); [reflexivity|].
  rewrite IH. reflexivity.
Qed.

Lemma sort_column {V W} (f : V -> W) l : sort_pts (column f l) = column f (sort_pts l).
Proof.
  induction l as [|h r IH]; [reflexivity|].
  change (column f (h :: r)) with ((fst h, f (snd h)) :: column f r).
  cbn [sort_pts]. rewrite IH. apply (insert_column f h).
Qed.

Lemma sel_column {V W} (f : V -> W) o w (pts : list (Q * V)) t :
  lagrange_sel o w (column f pts) t = option_map (column f) (lagrange_sel o w pts t).
Proof.
  unfold lagrange_sel. cbv zeta.
  assert (E : (if assume_sorted o then column f pts else sort_pts (column f pts))
              = column f (if assume_sorted o then pts else sort_pts pts)).
  { destruct (assume_sorted o); [reflexivity|apply sort_column]. }
  rewrite E. set (sp := if assume_sorted o then pts else sort_pts pts).
  rewrite map_fst_column.
  destruct ((w <? 3)%nat || (length (map fst sp) <? w)%nat || negb (strictly_increasing (map fst sp))); [reflexivity|].
  destruct (bounds_error o && (Qlt_b t (hd 0 (map fst sp)) || Qlt_b (last (map fst sp) 0) t)); [reflexivity|].
  simpl. unfold column. rewrite skipn_map, firstn_map. reflexivity.
Qed.

Lemma rescale_column {V W} (f : V -> W) o (win : list (Q * V)) t :
  rescale o (column f win) t = (column f (fst (rescale o win t)), snd (rescale o win t)).
Proof.
  unfold rescale. destruct (scaling o) as [[m s]|]; [|reflexivity]. simpl.
  unfold column. rewrite !map_map. reflexivity.
Qed.

Lemma rescale_1d o (win : list (Q * Q)) t :
  (forall m s, scaling o = Some (m, s) -> ~ s == 0) ->
  lag_1d (fst (rescale o win t)) (snd (rescale o win t)) == lag_1d win t.
Proof.
  intros Hs. unfold rescale. destruct (scaling o) as [[m s]|] eqn:E; [|reflexivity].
  simpl. apply lag_1d_affine. apply (Hs m s). reflexivity.
Qed.

Lemma lagrange1_unfold o w pts t :
  lagrange1 o w pts t = option_map (fun win => lag_1d (fst (rescale o win t)) (snd (rescale o win t))) (lagrange_sel o w pts t).
Proof.
  unfold lagrange1. destruct (lagrange_sel o w pts t) as [win|]; [|reflexivity].
  simpl. destruct (rescale o win t). reflexivity.
Qed.

(* ------------------------------------------------------------------ theorems on lagrange1 *)
Lemma lagrange_nodes_l o w pts xk yk r :
  (forall m s, scaling o = Some (m, s) -> ~ s == 0) ->
  In (xk, yk) pts -> lagrange1 o w pts xk = Some r -> r == yk.
Proof.
  intros Hs Hin H. rewrite lagrange1_unfold in H.
  destruct (lagrange_sel o w pts xk) as [win|] eqn:E; [|discriminate].
  simpl in H. inversion H; subst r. rewrite rescale_1d by exact Hs.
  destruct (window_facts o w pts xk win E) as [_ [D _]].
  apply lag_1d_nodes; [|exact D]. apply (sel_contains_node o w pts); assumption.
Qed.

Lemma lagrange_linear_l o w (l : list (Q * (Q * Q))) a b t :
  match lagrange1 o w (column fst l) t, lagrange1 o w (column snd l) t,
        lagrange1 o w (column (fun v => a * fst v + b * snd v) l) t with
  | Some r1, Some r2, Some r3 => r3 == a * r1 + b * r2
  | None, None, None => True
  | _, _, _ => False
  end.
Proof.
  rewrite !lagrange1_unfold, !sel_column.
  destruct (lagrange_sel o w l t) as [win|]; simpl; [|exact I].
  rewrite !rescale_column. cbn [fst snd]. apply lag_1d_linear.
Qed.

Lemma lagrange_perm_l {V} o w (pts pts' : list (Q * V)) t :
  assume_sorted o = false -> Permutation pts pts' -> lagrange_sel o w pts t = lagrange_sel o w pts' t.
Proof.
  intros Ho P.
  assert (C : sort_pts pts = sort_pts pts' \/
              (strictly_increasing (map fst (sort_pts pts)) = false /\
               strictly_increasing (map fst (sort_pts pts')) = false)).
  { destruct (strictly_increasing (map fst (sort_pts pts))) eqn:E1.
    - left. apply sort_perm_eq; [exact P|].
      apply (distinct_perm (map fst (sort_pts pts))); [apply Permutation_map, sort_perm|].
      apply sorted_distinct, strictly_increasing_sorted, E1.
    - destruct (strictly_increasing (map fst (sort_pts pts'))) eqn:E2; [|right; split; reflexivity].
      left. symmetry. apply sort_perm_eq; [apply Permutation_sym, P|].
      apply (distinct_perm (map fst (sort_pts pts'))); [apply Permutation_map, sort_perm|].
      apply sorted_distinct, strictly_increasing_sorted, E2. }
  unfold lagrange_sel. rewrite Ho. cbv zeta.
  destruct C as [E|[E1 E2]].
  - rewrite E. reflexivity.
  - rewrite E1, E2. cbn [negb]. rewrite !orb_true_r. reflexivity.
Qed.

Lemma lagrange1_perm_l o w pts pts' t :
  assume_sorted o = false -> Permutation pts pts' -> lagrange1 o w pts t = lagrange1 o w pts' t.
Proof. intros Ho P. unfold lagrange1. rewrite (lagrange_perm_l o w pts pts' t Ho P). reflexivity. Qed.

Lemma lagrange_nd_perm_l o n w pts pts' t :
  assume_sorted o = false -> Permutation pts pts' -> lagrange o n w pts t = lagrange o n w pts' t.
Proof. intros Ho P. unfold lagrange. rewrite (lagrange_perm_l o w pts pts' t Ho P). reflexivity. Qed.

(* the rescaling of the code is irrelevant *)
Lemma scaling_irrelevant_l srt bnd m s w pts t : ~ s == 0 ->
  match lagrange1 (mkOpt srt bnd (Some (m, s))) w pts t, lagrange1 (mkOpt srt bnd None) w pts t with
  | Some r, Some r' => r == r'
  | None, None => True
  | _, _ => False
  end.
Proof.
  intros Hs. rewrite !lagrange1_unfold.
  change (lagrange_sel (mkOpt srt bnd (Some (m, s))) w pts t) with (lagrange_sel (mkOpt srt bnd None) w pts t).
  destruct (lagrange_sel (mkOpt srt bnd None) w pts t) as [win|]; simpl; [|exact I].
  apply lag_1d_affine. exact Hs.
Qed.

(* ------------------------------------------------------------------ n-d data = column-wise *)
Definition vsum (ncols : nat) (xs : list Q) (l : list (Q * list Q)) (t : Q) : list Q :=
  fold_right (fun p acc => vadd (vscale (basis xs (fst p) t) (snd p)) acc) (repeat 0 ncols) l.

Lemma vadd_length a b : length a = length b -> length (vadd a b) = length a.
Proof.
  revert b. induction a as [|x a IH]; intros [|y b] H; simpl in *; try reflexivity; try discriminate.
  f_equal. apply IH. lia.
Qed.

Lemma nth_vadd c a b : (c < length a)%nat -> (c < length b)%nat -> nth c (vadd a b) 0 = nth c a 0 + nth c b 0.
Proof.
  revert a b. induction c as [|c IH]; intros [|x a] [|y b] Ha Hb; simpl in *; try lia; try reflexivity.
  apply IH; lia.
Qed.

Lemma nth_vscale c k a : (c < length a)%nat -> nth c (vscale k a) 0 = k * nth c a 0.
Proof.
  intros H. unfold vscale. rewrite (nth_indep _ 0 (k * 0)) by (rewrite map_length; exact H).
  apply (map_nth (Qmult k)).
Qed.

Lemma vsum_length ncols xs l t : (forall p, In p l -> length (snd p) = ncols) -> length (vsum ncols xs l t) = ncols.
Proof.
  induction l as [|p r IH]; intros H; simpl; [apply repeat_length|].
  rewrite vadd_length; unfold vscale; rewrite map_length.
  - apply H. left. reflexivity.
  - rewrite IH by (intros q Hq; apply H; right; exact Hq). apply H. left. reflexivity.
Qed.

Lemma vsum_col ncols xs l t c : (forall p, In p l -> length (snd p) = ncols) -> (c < ncols)%nat ->
  nth c (vsum ncols xs l t) 0 == lsum xs (column (fun r => nth c r 0) l) t.
Proof.
  intros H Hc. induction l as [|p r IH]; simpl.
  - rewrite nth_repeat. reflexivity.
  - assert (Hp : length (snd p) = ncols) by (apply H; left; reflexivity).
    assert (Hr : forall q, In q r -> length (snd q) = ncols) by (intros q Hq; apply H; right; exact Hq).
    rewrite nth_vadd.
    + rewrite nth_vscale by lia. rewrite (IH Hr). ring.
    + unfold vscale. rewrite map_length. lia.
    + fold (vsum ncols xs r t). rewrite (vsum_length ncols xs r t Hr). exact Hc.
Qed.

Lemma rescale_rows {V} o (win : list (Q * V)) t p :
  In p (fst (rescale o win t)) -> exists q, In q win /\ snd p = snd q.
Proof.
  unfold rescale. destruct (scaling o) as [[m s]|]; simpl.
  - intros H. apply in_map_iff in H. destruct H as [q [E Hq]]. exists q. split; [exact Hq|]. subst p. reflexivity.
  - intros H. exists p. split; [exact H|reflexivity].
Qed.

Lemma lagrange_unfold o n w pts t :
  lagrange o n w pts t = option_map (fun win => lag_nd n (fst (rescale o win t)) (snd (rescale o win t))) (lagrange_sel o w pts t).
Proof.
  unfold lagrange. destruct (lagrange_sel o w pts t) as [win|]; [|reflexivity].
  simpl. destruct (rescale o win t). reflexivity.
Qed.

Lemma lagrange_ndim_l o ncols w pts t c :
  (forall p, In p pts -> length (snd p) = ncols) -> (c < ncols)%nat ->
  match lagrange o ncols w pts t, lagrange1 o w (column (fun r => nth c r 0) pts) t with
  | Some v, Some r => length v = ncols /\ nth c v 0 == r
  | None, None => True
  | _, _ => False
  end.
Proof.
  intros Hrows Hc. rewrite lagrange_unfold, lagrange1_unfold, sel_column.
  destruct (lagrange_sel o w pts t) as [win|] eqn:E; simpl; [|exact I].
  destruct (window_facts o w pts t win E) as [_ [_ Hsub]].
  rewrite rescale_column. cbn [fst snd].
  assert (Hr : forall p, In p (fst (rescale o win t)) -> length (snd p) = ncols).
  { intros p Hp. destruct (rescale_rows o win t p Hp) as [q [Hq Eq]]. rewrite Eq. apply Hrows, Hsub, Hq. }
  split.
  - apply (vsum_length ncols (map fst (fst (rescale o win t)))). exact Hr.
  - rewrite lag_1d_lsum, map_fst_column. apply vsum_col; assumption.
Qed.

(* ------------------------------------------------------------------ polynomials *)
Fixpoint padd (p q : list Q) : list Q :=
  match p, q with
  | [], _ => q
  | _, [] => p
  | a :: p', b :: q' => (a + b) :: padd p' q'
  end.
Definition pscale (k : Q) (p : list Q) : list Q := map (Qmult k) p.
(* (X - a) * p *)
Definition pmul_lin (a : Q) (p : list Q) : list Q := padd (0 :: p) (pscale (- a) p).

Lemma peval_padd p q t : peval (padd p q) t == peval p t + peval q t.
Proof.
  revert q. induction p as [|a p IH]; intros q; simpl; [ring|].
  destruct q as [|b q]; simpl; [ring|]. rewrite IH. ring.
Qed.

Lemma peval_pscale k p t : peval (pscale k p) t == k * peval p t.
Proof. induction p as [|a p IH]; simpl; [ring|]. rewrite IH. ring. Qed.

Lemma peval_pmul_lin a p t : peval (pmul_lin a p) t == (t - a) * peval p t.
Proof. unfold pmul_lin. rewrite peval_padd, peval_pscale. simpl. ring. Qed.

Lemma padd_length p q : length (padd p q) = Nat.max (length p) (length q).
Proof.
  revert q. induction p as [|a p IH]; intros q; simpl; [reflexivity|].
  destruct q as [|b q]; simpl; [reflexivity|]. rewrite IH. reflexivity.
Qed.

Lemma pscale_length k p : length (pscale k p) = length p.
Proof. apply map_length. Qed.

Lemma pmul_lin_length a p : length (pmul_lin a p) = S (length p).
Proof. unfold pmul_lin. rewrite padd_length, pscale_length. cbn [length]. lia. Qed.

(* synthetic division by (X - r):  p(t) = p(r) + (t - r) * (pdiv p r)(t) *)
Fixpoint pdiv (p : list Q) (r : Q) : list Q :=
  match p with
  | [] => []
  | _ :: p' => match p' with [] => [] | _ => peval p' r :: pdiv p' r end
  end.

Lemma pdiv_spec p r t : peval p t == peval p r + (t - r) * peval (pdiv p r) t.
Proof.
  induction p as [|c p IH]; [simpl; ring|].
  destruct p as [|d p'].
  - simpl. ring.
  - change (pdiv (c :: d :: p') r) with (peval (d :: p') r :: pdiv (d :: p') r).
    change (peval (c :: d :: p') t) with (c + t * peval (d :: p') t).
    change (peval (c :: d :: p') r) with (c + r * peval (d :: p') r).
    change (peval (peval (d :: p') r :: pdiv (d :: p') r) t) with (peval (d :: p') r + t * peval (pdiv (d :: p') r) t).
    rewrite IH at 1. ring.
Qed.

Lemma pdiv_length p r : length (pdiv p r) = pred (length p).
Proof.
  induction p as [|c p IH]; [reflexivity|]. destruct p as [|d p']; [reflexivity|].
  change (pdiv (c :: d :: p') r) with (peval (d :: p') r :: pdiv (d :: p') r).
  change (length (peval (d :: p') r :: pdiv (d :: p') r)) with (S (length (pdiv (d :: p') r))).
  rewrite IH. reflexivity.
Qed.

(* a polynomial with at most n coefficients and n pairwise different roots vanishes everywhere *)
Lemma poly_roots_zero : forall roots p, (length p <= length roots)%nat -> distinct roots ->
  (forall r, In r roots -> peval p r == 0) -> forall t, peval p t == 0.
Proof.
  induction roots as [|r rs IH]; intros p Hlen D Hroot t.
  - destruct p; [reflexivity|simpl in Hlen; lia].
  - apply distinct_cons_inv in D. destruct D as [Dr Drs]. rewrite Forall_forall in Dr.
    rewrite (pdiv_spec p r t). rewrite (Hroot r) by (left; reflexivity).
    assert (Z : forall t', peval (pdiv p r) t' == 0).
    { apply IH.
      - rewrite pdiv_length. simpl in Hlen. lia.
      - exact Drs.
      - intros r' Hr'. pose proof (pdiv_spec p r r') as E.
        rewrite (Hroot r') in E by (right; exact Hr'). rewrite (Hroot r) in E by (left; reflexivity).
        assert (M : (r' - r) * peval (pdiv p r) r' == 0) by lra.
        apply Qmult_integral in M. destruct M as [M|M]; [|exact M].
        exfalso. apply (Dr r' Hr'). lra. }
    rewrite Z. ring.
Qed.

(* the interpolant as a polynomial *)
Definition basis_poly (xs : list Q) (xi : Q) : list Q :=
  fold_right (fun xj acc => if Qeq_bool xj xi then acc else pscale (/ (xi - xj)) (pmul_lin xj acc)) [1] xs.

Lemma peval_basis_poly xs xi t : peval (basis_poly xs xi) t == basis xs xi t.
Proof.
  induction xs as [|xj r IH]; simpl; [ring|].
  destruct (Qeq_bool xj xi) eqn:E; [exact IH|].
  rewrite peval_pscale, peval_pmul_lin, IH. apply Qeq_bool_neq in E. field. intro H. apply E. lra.
Qed.

Lemma basis_poly_length_le xs xi : (length (basis_poly xs xi) <= S (length xs))%nat.
Proof.
  induction xs as [|xj r IH]; simpl; [lia|].
  destruct (Qeq_bool xj xi); [lia|]. rewrite pscale_length, pmul_lin_length. lia.
Qed.

Lemma basis_poly_length xs xi : In xi xs -> (length (basis_poly xs xi) <= length xs)%nat.
Proof.
  induction xs as [|xj r IH]; intros Hin; [destruct Hin|]. simpl.
  destruct (Qeq_bool xj xi) eqn:E.
  - apply basis_poly_length_le.
  - destruct Hin as [->|Hin]; [rewrite Qeq_bool_refl in E; discriminate|].
    rewrite pscale_length, pmul_lin_length. specialize (IH Hin). lia.
Qed.

Definition lsum_poly (xs : list Q) (l : list (Q * Q)) : list Q :=
  fold_right (fun p acc => padd (pscale (snd p) (basis_poly xs (fst p))) acc) [] l.

Lemma peval_lsum_poly xs l t : peval (lsum_poly xs l) t == lsum xs l t.
Proof.
  induction l as [|p r IH]; simpl; [reflexivity|].
  rewrite peval_padd, peval_pscale, peval_basis_poly, IH. reflexivity.
Qed.

Lemma lsum_poly_length xs l : (forall p, In p l -> In (fst p) xs) -> (length (lsum_poly xs l) <= length xs)%nat.
Proof.
  induction l as [|p r IH]; intros H; simpl; [lia|].
  rewrite padd_length, pscale_length.
  pose proof (basis_poly_length xs (fst p) (H p (or_introl eq_refl))).
  specialize (IH (fun q Hq => H q (or_intror Hq))). lia.
Qed.

(* on a window with pairwise different abscissae, data sampled from a polynomial with at most as many
   coefficients as the window has points are reproduced everywhere *)
Lemma lag_1d_poly win p t : distinct (map fst win) -> (length p <= length win)%nat ->
  (forall x y, In (x, y) win -> y == peval p x) -> lag_1d win t == peval p t.
Proof.
  intros D Hlen Hy.
  set (xs := map fst win).
  set (d := padd (lsum_poly xs win) (pscale (-1) p)).
  assert (Z : forall t', peval d t' == 0).
  { apply (poly_roots_zero xs).
    - unfold d. rewrite padd_length, pscale_length. unfold xs at 2. rewrite map_length.
      assert (L : (length (lsum_poly xs win) <= length xs)%nat).
      { apply lsum_poly_length. intros q Hq. unfold xs. apply in_map, Hq. }
      unfold xs in L at 2. rewrite map_length in L. lia.
    - exact D.
    - intros r Hr. unfold xs in Hr. apply in_map_iff in Hr. destruct Hr as [[x y] [E Hin]]. simpl in E. subst x.
      unfold d. rewrite peval_padd, peval_pscale, peval_lsum_poly.
      unfold xs. rewrite <- (lag_1d_lsum win r). rewrite (lag_1d_nodes win r y Hin D). rewrite (Hy r y Hin). ring. }
  specialize (Z t). unfold d in Z. rewrite peval_padd, peval_pscale, peval_lsum_poly in Z.
  rewrite lag_1d_lsum. fold xs. lra.
Qed.

Lemma lagrange_reproduces_poly_l o w pts p t r :
  (forall m s, scaling o = Some (m, s) -> ~ s == 0) ->
  (length p <= w)%nat -> (forall x y, In (x, y) pts -> y == peval p x) ->
  lagrange1 o w pts t = Some r -> r == peval p t.
Proof.
  intros Hs Hlen Hy H. rewrite lagrange1_unfold in H.
  destruct (lagrange_sel o w pts t) as [win|] eqn:E; [|discriminate].
  simpl in H. inversion H; subst r. rewrite rescale_1d by exact Hs.
  destruct (window_facts o w pts t win E) as [Hl [D Hsub]].
  apply lag_1d_poly; [exact D|lia|]. intros x y Hin. apply Hy, Hsub, Hin.
Qed.
