(* C20 / interpolation - proofs about the Lagrange model (Model/C20_Lagrange.v). *)
From Coq Require Import ZArith QArith Qabs Bool List Lia Lqa Permutation Sorting.Sorted SetoidList SetoidPermutation.
From Verif Require Import Lib.Dyadic Model.C20_Lagrange.
Import ListNotations.
Open Scope Q_scope.

(* ------------------------------------------------------------------ comparisons *)
Lemma Qlt_b_true a b : Qlt_b a b = true <-> a < b.
Proof.
  unfold Qlt_b. rewrite negb_true_iff. split.
  - intros H. destruct (Qlt_le_dec a b) as [L|L]; [assumption|]. apply Qle_bool_iff in L. congruence.
  - intros H. destruct (Qle_bool b a) eqn:E; [|reflexivity]. apply Qle_bool_iff in E. lra.
Qed.

Lemma Qlt_b_false a b : Qlt_b a b = false <-> b <= a.
Proof. unfold Qlt_b. rewrite negb_false_iff. apply Qle_bool_iff. Qed.

Lemma Qle_bool_false a b : Qle_bool a b = false -> b < a.
Proof.
  intros H. destruct (Qlt_le_dec b a) as [L|L]; [assumption|]. apply Qle_bool_iff in L. congruence.
Qed.

(* pairwise different abscissae *)
Definition distinct (xs : list Q) : Prop := NoDupA Qeq xs.

Lemma distinct_cons_inv a l : distinct (a :: l) -> Forall (fun b => ~ a == b) l /\ distinct l.
Proof.
  intros H. inversion H as [|x l' Hn Hd]; subst. split; [|exact Hd].
  apply Forall_forall. intros b Hb E. apply Hn. apply InA_alt. exists b. split; assumption.
Qed.

(* ------------------------------------------------------------------ the basis *)
Lemma basis_self xs xi : basis xs xi xi == 1.
Proof.
  induction xs as [|xj r IH]; simpl; [reflexivity|].
  destruct (Qeq_bool xj xi) eqn:E; [exact IH|].
  apply Qeq_bool_neq in E. rewrite IH. field. intro H. apply E. lra.
Qed.

Lemma basis_other xs xi xk : In xk xs -> ~ xk == xi -> basis xs xi xk == 0.
Proof.
  intros Hin Hne. induction xs as [|xj r IH]; simpl; [destruct Hin|].
  destruct (Qeq_bool xj xi) eqn:E.
  - destruct Hin as [->|Hin]; [|exact (IH Hin)]. apply Qeq_bool_iff in E. contradiction.
  - apply Qeq_bool_neq in E. destruct Hin as [->|Hin].
    + assert (Z : (xk - xk) / (xi - xk) == 0) by (field; intro H; apply Hne; lra).
      rewrite Z. ring.
    + rewrite (IH Hin). ring.
Qed.

Lemma basis_t_proper xs xi t t' : t == t' -> basis xs xi t == basis xs xi t'.
Proof.
  intros H. induction xs as [|xj r IH]; simpl; [reflexivity|].
  destruct (Qeq_bool xj xi); [exact IH|]. rewrite IH, H. reflexivity.
Qed.

(* sum over a sub-list l of the samples, basis over all nodes xs *)
Definition lsum (xs : list Q) (l : list (Q * Q)) (t : Q) : Q :=
  fold_right (fun p acc => snd p * basis xs (fst p) t + acc) 0 l.

Lemma lag_1d_lsum win t : lag_1d win t = lsum (map fst win) win t.
Proof. reflexivity. Qed.

Lemma lsum_zero xs l xk : In xk xs -> (forall p, In p l -> ~ xk == fst p) -> lsum xs l xk == 0.
Proof.
  intros Hx H. induction l as [|p r IH]; simpl; [reflexivity|].
  rewrite (basis_other xs (fst p) xk Hx) by (apply H; left; reflexivity).
  rewrite IH by (intros q Hq; apply H; right; exact Hq). ring.
Qed.

Lemma lsum_node xs l xk yk :
  In (xk, yk) l -> distinct (map fst l) -> In xk xs -> lsum xs l xk == yk.
Proof.
  intros Hin Hd Hx. induction l as [|p r IH]; [destruct Hin|].
  simpl in Hd. apply distinct_cons_inv in Hd. destruct Hd as [Hall Hd'].
  rewrite Forall_forall in Hall.
  destruct Hin as [->|Hin]; simpl.
  - rewrite basis_self. rewrite lsum_zero; [ring|exact Hx|].
    intros q Hq. apply Hall. apply in_map. exact Hq.
  - assert (Hne : ~ xk == fst p).
    { intro E. apply (Hall xk); [|symmetry; exact E]. change xk with (fst (xk, yk)). apply in_map. exact Hin. }
    rewrite (basis_other xs (fst p) xk Hx Hne). rewrite (IH Hin Hd'). ring.
Qed.

(* the interpolant passes through every sample of its window *)
Lemma lag_1d_nodes win xk yk : In (xk, yk) win -> distinct (map fst win) -> lag_1d win xk == yk.
Proof.
  intros Hin Hd. rewrite lag_1d_lsum. apply lsum_node; [exact Hin|exact Hd|].
  change xk with (fst (xk, yk)). apply in_map. exact Hin.
Qed.

(* linear in the data *)
Lemma lsum_linear xs (l : list (Q * (Q * Q))) a b t :
  lsum xs (column (fun v => a * fst v + b * snd v) l) t ==
  a * lsum xs (column fst l) t + b * lsum xs (column snd l) t.
Proof.
  unfold lsum, column. induction l as [|p r IH]; simpl; [ring|]. rewrite IH. ring.
Qed.

Lemma map_fst_column {V W} (f : V -> W) l : map fst (column f l) = map fst l.
Proof. unfold column. rewrite map_map. reflexivity. Qed.

Lemma lag_1d_linear (l : list (Q * (Q * Q))) a b t :
  lag_1d (column (fun v => a * fst v + b * snd v) l) t ==
  a * lag_1d (column fst l) t + b * lag_1d (column snd l) t.
Proof. rewrite !lag_1d_lsum, !map_fst_column. apply lsum_linear. Qed.

(* an affine change of the abscissa (the code's (x - mean) / std) does not change the value *)
Lemma basis_affine xs xi t m s : ~ s == 0 ->
  basis (map (fun x => (x - m) / s) xs) ((xi - m) / s) ((t - m) / s) == basis xs xi t.
Proof.
  intros Hs. induction xs as [|xj r IH]; simpl; [reflexivity|].
  destruct (Qeq_bool xj xi) eqn:E.
  - apply Qeq_bool_iff in E.
    assert (E' : Qeq_bool ((xj - m) / s) ((xi - m) / s) = true) by (apply Qeq_bool_iff; rewrite E; reflexivity).
    rewrite E'. exact IH.
  - apply Qeq_bool_neq in E.
    assert (E' : Qeq_bool ((xj - m) / s) ((xi - m) / s) = false).
    { destruct (Qeq_bool ((xj - m) / s) ((xi - m) / s)) eqn:F; [|reflexivity].
      apply Qeq_bool_iff in F. exfalso. apply E.
      assert (G : (xj - m) / s * s == (xi - m) / s * s) by (rewrite F; reflexivity).
      assert (G1 : (xj - m) / s * s == xj - m) by (field; exact Hs).
      assert (G2 : (xi - m) / s * s == xi - m) by (field; exact Hs).
      rewrite G1, G2 in G. lra. }
    rewrite E', IH. field. split; [intro H; apply E; lra | exact Hs].
Qed.

Lemma lsum_affine xs (l : list (Q * Q)) t m s : ~ s == 0 ->
  lsum (map (fun x => (x - m) / s) xs) (map (fun p => ((fst p - m) / s, snd p)) l) ((t - m) / s) == lsum xs l t.
Proof.
  intros Hs. induction l as [|p r IH]; simpl; [reflexivity|].
  rewrite IH, basis_affine by exact Hs. reflexivity.
Qed.

Lemma lag_1d_affine (win : list (Q * Q)) t m s : ~ s == 0 ->
  lag_1d (map (fun p => ((fst p - m) / s, snd p)) win) ((t - m) / s) == lag_1d win t.
Proof.
  intros Hs. rewrite !lag_1d_lsum, map_map. cbn [fst].
  rewrite <- (map_map fst (fun x => (x - m) / s)). apply lsum_affine. exact Hs.
Qed.

(* ------------------------------------------------------------------ sorting *)
Lemma insert_perm {V} (p : Q * V) l : Permutation (insert p l) (p :: l).
Proof.
  induction l as [|h r IH]; simpl; [reflexivity|].
  destruct (Qle_bool (fst p) (fst h)); [reflexivity|].
  rewrite IH. apply perm_swap.
Qed.

Lemma sort_perm {V} (l : list (Q * V)) : Permutation (sort_pts l) l.
Proof. induction l as [|h r IH]; simpl; [reflexivity|]. rewrite insert_perm, IH. reflexivity. Qed.

Definition kle {V} (a b : Q * V) : Prop := fst a <= fst b.

Lemma insert_sorted {V} (p : Q * V) l : StronglySorted kle l -> StronglySorted kle (insert p l).
Proof.
  induction 1 as [|h r Hs IH Hall]; simpl.
  - constructor; constructor.
  - destruct (Qle_bool (fst p) (fst h)) eqn:E.
    + apply Qle_bool_iff in E. constructor; [constructor; assumption|].
      constructor; [exact E|]. rewrite Forall_forall in *. intros x Hx. unfold kle in *.
      specialize (Hall x Hx). lra.
    + apply Qle_bool_false in E. constructor; [exact IH|].
      rewrite Forall_forall in *. intros x Hx.
      apply (Permutation_in _ (insert_perm p r)) in Hx. destruct Hx as [<-|Hx].
      * unfold kle. lra.
      * apply Hall, Hx.
Qed.

Lemma sort_sorted {V} (l : list (Q * V)) : StronglySorted kle (sort_pts l).
Proof. induction l as [|h r IH]; simpl; [constructor|]. apply insert_sorted, IH. Qed.

(* a sorted arrangement of samples with pairwise different abscissae is unique *)
Lemma sorted_unique {V} (l1 l2 : list (Q * V)) :
  StronglySorted kle l1 -> StronglySorted kle l2 -> Permutation l1 l2 ->
  distinct (map fst l1) -> l1 = l2.
Proof.
  revert l2. induction l1 as [|a r1 IH]; intros l2 S1 S2 P D.
  - apply Permutation_nil in P. subst. reflexivity.
  - destruct l2 as [|b r2]; [apply Permutation_sym, Permutation_nil in P; discriminate|].
    inversion S1 as [|? ? S1' A1]; subst. inversion S2 as [|? ? S2' A2]; subst.
    simpl in D. apply distinct_cons_inv in D. destruct D as [Dh Dt].
    rewrite Forall_forall in A1, A2, Dh.
    assert (E : a = b).
    { assert (Ia : In a (b :: r2)) by (apply (Permutation_in _ P); left; reflexivity).
      assert (Ib : In b (a :: r1)) by (apply (Permutation_in _ (Permutation_sym P)); left; reflexivity).
      destruct Ia as [->|Ia]; [reflexivity|]. destruct Ib as [->|Ib]; [reflexivity|].
      exfalso. apply (Dh (fst b)); [apply in_map, Ib|].
      specialize (A1 b Ib). specialize (A2 a Ia). unfold kle in *. lra. }
    subst b. f_equal. apply IH; try assumption. apply (Permutation_cons_inv P).
Qed.

Lemma distinct_perm xs ys : Permutation xs ys -> distinct xs -> distinct ys.
Proof.
  intros P D. unfold distinct in *.
  apply (PermutationA_preserves_NoDupA Q_Setoid (Permutation_PermutationA Q_Setoid P)). exact D.
Qed.

Lemma sort_perm_eq {V} (l l' : list (Q * V)) :
  Permutation l l' -> distinct (map fst l) -> sort_pts l = sort_pts l'.
Proof.
  intros P D. apply sorted_unique; try apply sort_sorted.
  - apply (Permutation_trans (sort_perm l)). apply (Permutation_trans P). apply Permutation_sym, sort_perm.
  - apply (distinct_perm (map fst l)); [|exact D]. apply Permutation_map, Permutation_sym, sort_perm.
Qed.

(* strictly increasing abscissae are pairwise different and strongly sorted *)
Lemma strictly_increasing_sorted xs : strictly_increasing xs = true -> StronglySorted Qlt xs.
Proof.
  induction xs as [|a r IH]; intros H; [constructor|].
  destruct r as [|b r'].
  - constructor; constructor.
  - simpl in H. apply andb_prop in H. destruct H as [H1 H2]. apply Qlt_b_true in H1.
    specialize (IH H2). constructor; [exact IH|].
    inversion IH as [|? ? _ Hb]; subst. constructor; [exact H1|].
    rewrite Forall_forall in *. intros x Hx. specialize (Hb x Hx). lra.
Qed.

Lemma sorted_distinct xs : StronglySorted Qlt xs -> distinct xs.
Proof.
  induction 1 as [|a r Hs IH Hall]; [constructor|].
  constructor; [|exact IH]. intros HA. apply InA_alt in HA. destruct HA as [b [E Hb]].
  rewrite Forall_forall in Hall. specialize (Hall b Hb). lra.
Qed.

Lemma sorted_skipn {A} (R : A -> A -> Prop) n l : StronglySorted R l -> StronglySorted R (skipn n l).
Proof.
  revert l. induction n as [|n IH]; intros l H; [exact H|].
  destruct l as [|a r]; [constructor|]. simpl. apply IH. inversion H; assumption.
Qed.

Lemma sorted_firstn {A} (R : A -> A -> Prop) n l : StronglySorted R l -> StronglySorted R (firstn n l).
Proof.
  revert l. induction n as [|n IH]; intros l H; [constructor|].
  destruct l as [|a r]; [constructor|]. simpl. inversion H as [|? ? Hs Hall]; subst.
  constructor; [apply IH, Hs|]. rewrite Forall_forall in *. intros x Hx.
  apply Hall. apply (firstn_subset n r). exact Hx.
Qed.

Lemma sorted_nth_lt xs i j : StronglySorted Qlt xs -> (i < j < length xs)%nat -> nth i xs 0 < nth j xs 0.
Proof.
  intros H. revert i j. induction H as [|a r Hs IH Hall]; intros i j Hij; [simpl in Hij; lia|].
  destruct j as [|j]; [lia|]. destruct i as [|i]; simpl.
  - rewrite Forall_forall in Hall. apply Hall. apply nth_In. simpl in Hij. lia.
  - apply IH. simpl in Hij. lia.
Qed.

Lemma sorted_nth_inj xs i j : StronglySorted Qlt xs -> (i < length xs)%nat -> (j < length xs)%nat ->
  nth i xs 0 == nth j xs 0 -> i = j.
Proof.
  intros H Hi Hj E. destruct (Nat.lt_trichotomy i j) as [L|[L|L]]; [|exact L|].
  - pose proof (sorted_nth_lt xs i j H (conj L Hj)). lra.
  - pose proof (sorted_nth_lt xs j i H (conj L Hi)). lra.
Qed.

(* ------------------------------------------------------------------ argmin *)
Lemma argmin_from_spec t all : forall r pre best bestv,
  all = pre ++ r -> (best < length pre)%nat -> bestv = Qabs (nth best all 0 - t) ->
  (forall y, In y pre -> bestv <= Qabs (y - t)) ->
  let j := argmin_from r t (length pre) best bestv in
  (j < length all)%nat /\ forall y, In y all -> Qabs (nth j all 0 - t) <= Qabs (y - t).
Proof.
  induction r as [|x r IH]; intros pre best bestv Hall Hb Hv Hpre; simpl.
  - rewrite app_nil_r in Hall. subst all. split; [exact Hb|]. intros y Hy. rewrite <- Hv. apply Hpre, Hy.
  - assert (Hall' : all = (pre ++ [x]) ++ r) by (rewrite <- app_assoc; exact Hall).
    assert (Hlen : length (pre ++ [x]) = S (length pre)) by (rewrite app_length; simpl; lia).
    assert (Hnth : nth (length pre) all 0 = x).
    { rewrite Hall. rewrite app_nth2 by lia. rewrite Nat.sub_diag. reflexivity. }
    destruct (Qlt_b (Qabs (x - t)) bestv) eqn:E.
    + apply Qlt_b_true in E. rewrite <- Hlen.
      apply (IH (pre ++ [x]) (length pre) (Qabs (x - t))); [exact Hall'|lia|rewrite Hnth; reflexivity|].
      intros y Hy. apply in_app_or in Hy. destruct Hy as [Hy|[<-|[]]].
      * specialize (Hpre y Hy). lra.
      * lra.
    + apply Qlt_b_false in E. rewrite <- Hlen.
      apply (IH (pre ++ [x]) best bestv); [exact Hall'|lia|exact Hv|].
      intros y Hy. apply in_app_or in Hy. destruct Hy as [Hy|[<-|[]]]; [apply Hpre, Hy|exact E].
Qed.

Lemma argmin_spec xs t : xs <> [] ->
  (argmin_abs xs t < length xs)%nat /\
  forall y, In y xs -> Qabs (nth (argmin_abs xs t) xs 0 - t) <= Qabs (y - t).
Proof.
  destruct xs as [|x r]; [congruence|]. intros _. unfold argmin_abs.
  apply (argmin_from_spec t (x :: r) r [x] 0%nat (Qabs (x - t))); simpl; try reflexivity; try lia.
  intros y [<-|[]]. lra.
Qed.

(* at a node the argmin is the index of that node *)
Lemma argmin_at_node xs i : StronglySorted Qlt xs -> (i < length xs)%nat -> argmin_abs xs (nth i xs 0) = i.
Proof.
  intros S Hi. assert (Hne : xs <> []) by (destruct xs; simpl in Hi; [lia|congruence]).
  destruct (argmin_spec xs (nth i xs 0) Hne) as [Hj Hmin].
  specialize (Hmin (nth i xs 0) (nth_In xs 0 Hi)).
  apply (sorted_nth_inj xs); try assumption.
  assert (Z : Qabs (nth i xs 0 - nth i xs 0) == 0) by (setoid_replace (nth i xs 0 - nth i xs 0) with 0 by ring; reflexivity).
  rewrite Z in Hmin.
  pose proof (Qabs_nonneg (nth (argmin_abs xs (nth i xs 0)) xs 0 - nth i xs 0)) as N.
  assert (A0 : Qabs (nth (argmin_abs xs (nth i xs 0)) xs 0 - nth i xs 0) == 0) by lra.
  destruct (Qabs_case (nth (argmin_abs xs (nth i xs 0)) xs 0 - nth i xs 0)) ; lra.
Qed.

(* the window contains the sample whose abscissa is x_new *)
Lemma start_idx_bounds n w j : (3 <= w)%nat -> (w <= n)%nat -> (j < n)%nat ->
  (start_idx n w j <= j < start_idx n w j + w)%nat /\ (start_idx n w j + w <= n)%nat.
Proof.
  intros Hw Hn Hj. unfold start_idx.
  assert (H2 : (w / 2 < w)%nat) by (apply Nat.div_lt; lia).
  lia.
Qed.

Lemma nth_window {A} (l : list A) st w j d : (st <= j < st + w)%nat -> (j < length l)%nat ->
  nth (j - st) (firstn w (skipn st l)) d = nth j l d.
Proof.
  intros H Hl. rewrite nth_firstn. destruct (j - st <? w)%nat eqn:E.
  - rewrite nth_skipn. f_equal. lia.
  - apply Nat.ltb_ge in E. lia.
Qed.
