(* C20 / interpolation - proofs about the Lagrange model (Model/C20_Lagrange.v). *)
From Coq Require Import ZArith QArith Qabs Bool List Lia Lqa Permutation Sorting.Sorted SetoidList SetoidPermutation.
From Verif Require Import Lib.Dyadic Model.C20_Lagrange.
Import ListNotations.
Open Scope Q_scope.

(* ------------------------------------------------------------------ comparisons *)
Lemma Qlt_b_true a b : Qlt_b a b = true <-> a < b.
Proof.
  unfold Qlt_b. rewrite negb_true_iff. split.
  - intros H. destruct (Qlt_le_dec a b) as [L|L]; [assumption|]. apply Qle_bool_iff in L. congruence.
  - intros H. destruct (Qle_bool b a) eqn:E; [|reflexivity]. apply Qle_bool_iff in E. lra.
Qed.

Lemma Qlt_b_false a b : Qlt_b a b = false <-> b <= a.
Proof. unfold Qlt_b. rewrite negb_false_iff. apply Qle_bool_iff. Qed.

Lemma Qle_bool_false a b : Qle_bool a b = false -> b < a.
Proof.
  intros H. destruct (Qlt_le_dec b a) as [L|L]; [assumption|]. apply Qle_bool_iff in L. congruence.
Qed.

(* pairwise different abscissae *)
Definition distinct (xs : list Q) : Prop := NoDupA Qeq xs.

Lemma distinct_cons_inv a l : distinct (a :: l) -> Forall (fun b => ~ a == b) l /\ distinct l.
Proof.
  intros H. inversion H as [|x l' Hn Hd]; subst. split; [|exact Hd].
  apply Forall_forall. intros b Hb E. apply Hn. apply InA_alt. exists b. split; assumption.
Qed.

(* ------------------------------------------------------------------ the basis *)
Lemma basis_self xs xi : basis xs xi xi == 1.
Proof.
  induction xs as [|xj r IH]; simpl; [reflexivity|].
  destruct (Qeq_bool xj xi) eqn:E; [exact IH|].
  apply Qeq_bool_neq in E. rewrite IH. field. intro H. apply E. lra.
Qed.

Lemma basis_other xs xi xk : In xk xs -> ~ xk == xi -> basis xs xi xk == 0.
Proof.
  intros Hin Hne. induction xs as [|xj r IH]; simpl; [destruct Hin|].
  destruct (Qeq_bool xj xi) eqn:E.
  - destruct Hin as [->|Hin]; [|exact (IH Hin)]. apply Qeq_bool_iff in E. contradiction.
  - apply Qeq_bool_neq in E. destruct Hin as [->|Hin].
    + assert (Z : (xk - xk) / (xi - xk) == 0) by (field; intro H; apply Hne; lra).
      rewrite Z. ring.
    + rewrite (IH Hin). ring.
Qed.

Lemma basis_t_proper xs xi t t' : t == t' -> basis xs xi t == basis xs xi t'.
Proof.
  intros H. induction xs as [|xj r IH]; simpl; [reflexivity|].
  destruct (Qeq_bool xj xi); [exact IH|]. rewrite IH, H. reflexivity.
Qed.

(* sum over a sub-list l of the samples, basis over all nodes xs *)
Definition lsum (xs : list Q) (l : list (Q * Q)) (t : Q) : Q :=
  fold_right (fun p acc => snd p * basis xs (fst p) t + acc) 0 l.

Lemma lag_1d_lsum win t : lag_1d win t = lsum (map fst win) win t.
Proof. reflexivity. Qed.

Lemma lsum_zero xs l xk : In xk xs -> (forall p, In p l -> ~ xk == fst p) -> lsum xs l xk == 0.
Proof.
  intros Hx H. induction l as [|p r IH]; simpl; [reflexivity|].
  rewrite (basis_other xs (fst p) xk Hx) by (apply H; left; reflexivity).
  rewrite IH by (intros q Hq; apply H; right; exact Hq). ring.
Qed.

Lemma lsum_node xs l xk yk :
  In (xk, yk) l -> distinct (map fst l) -> In xk xs -> lsum xs l xk == yk.
Proof.
  intros Hin Hd Hx. induction l as [|p r IH]; [destruct Hin|].
  simpl in Hd. apply distinct_cons_inv in Hd. destruct Hd as [Hall Hd'].
  rewrite Forall_forall in Hall.
  destruct Hin as [->|Hin]; simpl.
  - rewrite basis_self. rewrite lsum_zero; [ring|exact Hx|].
    intros q Hq. apply Hall. apply in_map. exact Hq.
  - assert (Hne : ~ xk == fst p).
    { intro E. apply (Hall xk); [|symmetry; exact E]. change xk with (fst (xk, yk)). apply in_map. exact Hin. }
    rewrite (basis_other xs (fst p) xk Hx Hne). rewrite (IH Hin Hd'). ring.
Qed.

(* the interpolant passes through every sample of its window *)
Lemma lag_1d_nodes win xk yk : In (xk, yk) win -> distinct (map fst win) -> lag_1d win xk == yk.
Proof.
  intros Hin Hd. rewrite lag_1d_lsum. apply lsum_node; [exact Hin|exact Hd|].
  change xk with (fst (xk, yk)). apply in_map. exact Hin.
Qed.

(* linear in the data *)
Lemma lsum_linear xs (l : list (Q * (Q * Q))) a b t :
  lsum xs (column (fun v => a * fst v + b * snd v) l) t ==
  a * lsum xs (column fst l) t + b * lsum xs (column snd l) t.
Proof.
  unfold lsum, column. induction l as [|p r IH]; simpl; [ring|]. rewrite IH. ring.
Qed.

Lemma map_fst_column {V W} (f : V -> W) l : map fst (column f l) = map fst l.
Proof. unfold column. rewrite map_map. reflexivity. Qed.

Lemma lag_1d_linear (l : list (Q * (Q * Q))) a b t :
  lag_1d (column (fun v => a * fst v + b * snd v) l) t ==
  a * lag_1d (column fst l) t + b * lag_1d (column snd l) t.
Proof. rewrite !lag_1d_lsum, !map_fst_column. apply lsum_linear. Qed.

(* an affine change of the abscissa (the code's (x - mean) / std) does not change the value *)
Lemma basis_affine xs xi t m s : ~ s == 0 ->
  basis (map (fun x => (x - m) / s) xs) ((xi - m) / s) ((t - m) / s) == basis xs xi t.
Proof.
  intros Hs. induction xs as [|xj r IH]; simpl; [reflexivity|].
  destruct (Qeq_bool xj xi) eqn:E.
  - apply Qeq_bool_iff in E.
    assert (E' : Qeq_bool ((xj - m) / s) ((xi - m) / s) = true) by (apply Qeq_bool_iff; rewrite E; reflexivity).
    rewrite E'. exact IH.
  - apply Qeq_bool_neq in E.
    assert (E' : Qeq_bool ((xj - m) / s) ((xi - m) / s) = false).
    { destruct (Qeq_bool ((xj - m) / s) ((xi - m) / s)) eqn:F; [|reflexivity].
      apply Qeq_bool_iff in F. exfalso. apply E.
      assert (G : (xj - m) / s * s == (xi - m) / s * s) by (rewrite F; reflexivity).
      assert (G1 : (xj - m) / s * s == xj - m) by (field; exact Hs).
      assert (G2 : (xi - m) / s * s == xi - m) by (field; exact Hs).
      rewrite G1, G2 in G. lra. }
    rewrite E', IH. field. split; [intro H; apply E; lra | exact Hs].
Qed.

Lemma lsum_affine xs (l : list (Q * Q)) t m s : ~ s == 0 ->
  lsum (map (fun x => (x - m) / s) xs) (map (fun p => ((fst p - m) / s, snd p)) l) ((t - m) / s) == lsum xs l t.
Proof.
  intros Hs. induction l as [|p r IH]; simpl; [reflexivity|].
  rewrite IH, basis_affine by exact Hs. reflexivity.
Qed.

Lemma lag_1d_affine (win : list (Q * Q)) t m s : ~ s == 0 ->
  lag_1d (map (fun p => ((fst p - m) / s, snd p)) win) ((t - m) / s) == lag_1d win t.
Proof.
  intros Hs. rewrite !lag_1d_lsum, map_map. cbn [fst].
  rewrite <- (map_map fst (fun x => (x - m) / s)). apply lsum_affine. exact Hs.
Qed.
